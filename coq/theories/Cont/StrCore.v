(* C17 -- the storage invariant, the commit lemma and the specification of EnsureBufferSize. *)
From Coq Require Import List NArith ZArith Bool Lia.
From Muscle Require Import Cont.StrL0 Cont.StrModel Cont.StrLemmas Cont.StrGrow.
Import ListNotations.
Local Open Scope N_scope.

(* every lemma of the section takes all the section variables and hypotheses, in this order *)
Set Default Proof Using "All".

Section Core.
Variables (M TH PG OV jk : N).
Hypothesis M_pos : 1 <= M.
Hypothesis TH_ge : 2 <= TH.
Hypothesis PG_pos : 0 < PG.
Hypothesis PG_le : PG <= 1048576.
Hypothesis OV_lt : OV < PG.
Hypothesis M_le : M <= 1048576.

Local Notation slen := (slen M).
Local Notation cap := (cap M).
Local Notation abs := (abs M).
Local Notation set_len := (set_len M).
Local Notation commit := (commit M).
Local Notation empty1 := (empty1 M jk).
Local Notation clear_and_flush := (clear_and_flush M jk).
Local Notation ensure := (ensure M TH PG OV jk true).

(* the representation invariant: the buffer has the advertised size, the length is inside it and the byte
   at Length() is NUL; the small buffer is exactly M+1 bytes whose last one is the free count; a heap
   buffer is bigger than the small one and below 2^31 *)
Definition inv (s : str1) : Prop :=
  lenN (buf s) = cap s /\ slen s < cap s /\ nthN (slen s) (buf s) = 0 /\
  match s with
  | Short b => nthN M b <= M
  | Long _ _ c => M + 1 < c /\ c < 2147483648
  end.

Lemma inv_len s : inv s -> lenN (buf s) = cap s. Proof. now intros (H & _). Qed.
Lemma inv_lt s : inv s -> slen s < cap s. Proof. now intros (_ & H & _). Qed.
Lemma inv_nul s : inv s -> nthN (slen s) (buf s) = 0. Proof. now intros (_ & _ & H & _). Qed.
Lemma inv_short_le b : inv (Short b) -> slen (Short b) <= M.
Proof. intros _. cbn. lia. Qed.
Lemma lenN_abs s : inv s -> lenN (abs s) = slen s.
Proof. intros H. unfold StrModel.abs. rewrite lenN_takeN, (inv_len _ H). pose proof (inv_lt _ H). lia. Qed.

(* new buffer contents + SetLength *)
Lemma commit_spec s b n :
  inv s -> lenN b = cap s -> n < cap s -> nthN n b = 0 ->
  inv (commit s b n) /\ slen (commit s b n) = n /\ abs (commit s b n) = takeN n b /\
  cap (commit s b n) = cap s /\ is_long (commit s b n) = is_long s /\
  takeN M (buf (commit s b n)) = takeN M b.
Proof.
  intros I L Hn Z. destruct s as [b0|h n0 c]; cbn [StrModel.commit StrModel.wbuf StrModel.set_len].
  - cbn [StrModel.cap] in *.
    assert (E : nthN M (upd b M (M - n)) = M - n) by (apply nthN_upd_same; lia).
    assert (S : StrModel.slen M (Short (upd b M (M - n))) = n) by (cbn [StrModel.slen]; rewrite E; lia).
    unfold inv, StrModel.abs. rewrite S. cbn [buf StrModel.cap is_long].
    rewrite lenN_upd by lia. rewrite takeN_upd_before by lia. rewrite takeN_upd_before by lia.
    repeat split; try lia; trivial.
    destruct (N.eq_dec n M) as [->|D].
    + rewrite E. lia.
    + rewrite nthN_upd_other by lia. assumption.
  - destruct I as (_ & _ & _ & I4). cbn [StrModel.cap] in *.
    unfold inv, StrModel.abs. cbn [buf StrModel.cap StrModel.slen is_long]. repeat split; trivial; lia.
Qed.

Lemma inv_empty1 : inv empty1 /\ slen empty1 = 0 /\ abs empty1 = [] /\ is_long empty1 = false.
Proof.
  unfold StrModel.empty1, clear_short, fresh_short.
  set (b := upd (repN jk (M + 1)) 0 0).
  assert (Lb : lenN b = M + 1) by (unfold b; rewrite lenN_upd; rewrite lenN_repN; lia).
  assert (E : nthN M (upd b M M) = M) by (apply nthN_upd_same; lia).
  assert (S : slen (Short (upd b M M)) = 0) by (cbn [StrModel.slen]; rewrite E; lia).
  unfold inv, StrModel.abs. rewrite S. cbn [buf StrModel.cap is_long]. rewrite lenN_upd by lia.
  rewrite takeN_0. repeat split; try lia.
  rewrite nthN_upd_other by lia. unfold b. apply nthN_upd_same. rewrite lenN_repN. lia.
Qed.

Lemma inv_clear_short b : lenN b = M + 1 ->
  inv (clear_short M b) /\ slen (clear_short M b) = 0 /\ abs (clear_short M b) = [] /\ is_long (clear_short M b) = false.
Proof.
  intros Lb0. unfold clear_short.
  set (b1 := upd b 0 0).
  assert (Lb : lenN b1 = M + 1) by (unfold b1; rewrite lenN_upd; lia).
  assert (E : nthN M (upd b1 M M) = M) by (apply nthN_upd_same; lia).
  assert (S : slen (Short (upd b1 M M)) = 0) by (cbn [StrModel.slen]; rewrite E; lia).
  unfold inv, StrModel.abs. rewrite S. cbn [buf StrModel.cap is_long]. rewrite lenN_upd by lia.
  rewrite takeN_0. repeat split; try lia.
  rewrite nthN_upd_other by lia. unfold b1. apply nthN_upd_same. lia.
Qed.

Lemma inv_clear_and_flush s : inv s ->
  inv (clear_and_flush s) /\ slen (clear_and_flush s) = 0 /\ abs (clear_and_flush s) = [] /\ is_long (clear_and_flush s) = false.
Proof.
  intros I. destruct s as [b|h n c]; cbn [StrModel.clear_and_flush].
  - apply inv_clear_short. exact (inv_len _ I).
  - apply inv_empty1.
Qed.

(* ---------------------------------------------------------------- EnsureBufferSize *)

Lemma ensure_enough s req retain : req <= cap s -> ensure s req retain false = (StOk, s).
Proof. intros H. unfold StrModel.ensure. apply N.leb_le in H. now rewrite H. Qed.

(* the heap buffer a (re)allocation ends with: [nbuf] with a NUL written at min(old length, nb-1) *)
Lemma inv_fin nbuf old nb :
  lenN nbuf = nb -> old < nb -> M + 1 < nb -> nb < 2147483648 ->
  inv (Long (upd nbuf (N.min old (nb - 1)) 0) old nb).
Proof.
  intros L O G B. replace (N.min old (nb - 1)) with old by lia.
  unfold inv. cbn [buf StrModel.cap StrModel.slen]. rewrite lenN_upd by lia.
  repeat split; try lia. apply nthN_upd_same. lia.
Qed.

Lemma ensure_grow s req :
  inv s ->
  match ensure s req true false with
  | (StOk, s') => inv s' /\ req <= cap s' /\ slen s' = slen s /\
                  takeN (slen s + 1) (buf s') = takeN (slen s + 1) (buf s)
  | (StErr, s') => s' = s
  end.
Proof.
  intros I. unfold StrModel.ensure.
  destruct (req <=? cap s) eqn:E1.
  { apply N.leb_le in E1. split; [exact I|]. repeat split; trivial. }
  apply N.leb_gt in E1. cbn [orb andb].
  set (nb := if (req <=? M + 1) || ((slen s =? 0) && negb (is_long s)) then req else next_buf_size M TH PG OV req).
  destruct (nb <? req) eqn:E2; [reflexivity|]. apply N.ltb_ge in E2.
  destruct (nb =? 0) eqn:E3.
  { apply N.eqb_eq in E3. pose proof (inv_lt _ I). lia. }
  destruct (2147483648 <=? nb) eqn:E4; [reflexivity|]. apply N.leb_gt in E4.
  pose proof (inv_lt _ I) as Lt. pose proof (inv_len _ I) as Ln. pose proof (inv_nul _ I) as Nu.
  assert (G : M + 1 < nb) by (destruct s; cbn [StrModel.cap] in *; destruct I as (_ & _ & _ & I4); lia).
  destruct (is_long s) eqn:D.
  - (* realloc *)
    set (nbuf := takeN nb (buf s) ++ repN jk (nb - cap s)).
    assert (Lb : lenN nbuf = nb) by (unfold nbuf; rewrite lenN_app, lenN_takeN, lenN_repN; lia).
    split; [apply inv_fin; trivial; lia|].
    cbn [StrModel.cap StrModel.slen buf]. replace (N.min (slen s) (nb - 1)) with (slen s) by lia.
    assert (Z : nthN (slen s) nbuf = 0).
    { unfold nbuf. rewrite nthN_app_l by (rewrite lenN_takeN; lia). rewrite nthN_takeN by lia. exact Nu. }
    rewrite (upd_same nbuf) by (trivial; lia).
    repeat split; try lia.
    unfold nbuf. rewrite takeN_app_le by (rewrite lenN_takeN; lia). rewrite takeN_takeN. f_equal. lia.
  - replace (N.min (slen s + 1) nb) with (slen s + 1) by lia.
    set (nbuf := blit (repN jk nb) 0 (takeN (slen s + 1) (buf s))).
    assert (Lt' : lenN (takeN (slen s + 1) (buf s)) = slen s + 1) by (rewrite lenN_takeN; lia).
    assert (Lb : lenN nbuf = nb) by (unfold nbuf; rewrite lenN_blit; rewrite ?lenN_repN; lia).
    split; [apply inv_fin; trivial; lia|].
    cbn [StrModel.cap StrModel.slen buf]. replace (N.min (slen s) (nb - 1)) with (slen s) by lia.
    assert (Z : nthN (slen s) nbuf = 0).
    { unfold nbuf. rewrite nthN_blit_in; rewrite ?lenN_repN; try lia. rewrite N.sub_0_r. rewrite nthN_takeN by lia. exact Nu. }
    rewrite (upd_same nbuf) by (trivial; lia).
    repeat split; try lia.
    unfold nbuf. rewrite takeN_blit_0 by lia. rewrite takeN_takeN. f_equal. lia.
Qed.

(* growing without retaining the value (SetCstr, SetFromString) *)
Lemma ensure_noretain s req :
  inv s ->
  match ensure s req false false with
  | (StOk, s') => inv s' /\ req <= cap s' /\ (req <= cap s -> s' = s)
  | (StErr, s') => s' = s
  end.
Proof.
  intros I. unfold StrModel.ensure.
  destruct (req <=? cap s) eqn:E1.
  { apply N.leb_le in E1. split; [exact I|]. split; trivial. }
  apply N.leb_gt in E1. cbn [orb andb].
  set (nb := if (req <=? M + 1) || ((slen s =? 0) && negb (is_long s)) then req else next_buf_size M TH PG OV req).
  destruct (nb <? req) eqn:E2; [reflexivity|]. apply N.ltb_ge in E2.
  destruct (nb =? 0) eqn:E3.
  { apply N.eqb_eq in E3. pose proof (inv_lt _ I). lia. }
  destruct (2147483648 <=? nb) eqn:E4; [reflexivity|]. apply N.leb_gt in E4.
  pose proof (inv_lt _ I) as Lt.
  assert (G : M + 1 < nb) by (destruct s; cbn [StrModel.cap] in *; destruct I as (_ & _ & _ & I4); lia).
  split; [|cbn [StrModel.cap]; split; [lia|intros; lia]].
  apply inv_fin; try lia. rewrite lenN_upd; rewrite lenN_repN; lia.
Qed.

Lemma set_len_short_spec b n :
  lenN b = M + 1 -> n <= M -> nthN n b = 0 ->
  let s' := StrModel.set_len M (Short b) n in
  inv s' /\ slen s' = n /\ abs s' = takeN n b /\ is_long s' = false.
Proof.
  intros L Hn Z s'. unfold s'. cbn [StrModel.set_len].
  assert (E : nthN M (upd b M (M - n)) = M - n) by (apply nthN_upd_same; lia).
  assert (S : StrModel.slen M (Short (upd b M (M - n))) = n) by (cbn [StrModel.slen]; rewrite E; lia).
  unfold inv, StrModel.abs. rewrite S. cbn [buf StrModel.cap is_long].
  rewrite lenN_upd by lia. rewrite takeN_upd_before by lia.
  repeat split; try lia; trivial.
  destruct (N.eq_dec n M) as [->|D].
  - rewrite E. lia.
  - rewrite nthN_upd_other by lia. assumption.
Qed.

(* ShrinkToFit: exact size, value retained *)
Lemma ensure_shrink s req :
  inv s -> slen s < req ->
  match ensure s req true true with
  | (StOk, s') => inv s' /\ abs s' = abs s /\ slen s' = slen s
  | (StErr, s') => s' = s
  end.
Proof.
  intros I R. unfold StrModel.ensure.
  destruct (req =? cap s) eqn:E1.
  { split; [exact I|]. split; trivial. }
  apply N.eqb_neq in E1. cbn [orb andb].
  rewrite N.ltb_irrefl.
  destruct (req =? 0) eqn:E3; [apply N.eqb_eq in E3; lia|].
  destruct (2147483648 <=? req) eqn:E4; [reflexivity|]. apply N.leb_gt in E4.
  pose proof (inv_lt _ I) as Lt. pose proof (inv_len _ I) as Ln. pose proof (inv_nul _ I) as Nu.
  destruct (is_long s) eqn:D; destruct (req <=? M + 1) eqn:E5.
  - (* heap -> small buffer *)
    apply N.leb_le in E5.
    set (b := upd (blit (fresh_short M jk) 0 (takeN (slen s) (buf s))) (slen s) 0).
    assert (Lt' : lenN (takeN (slen s) (buf s)) = slen s) by (rewrite lenN_takeN; lia).
    assert (Lf : lenN (fresh_short M jk) = M + 1) by (unfold fresh_short; apply lenN_repN).
    assert (Lb : lenN b = M + 1) by (unfold b; rewrite lenN_upd; rewrite lenN_blit; lia).
    destruct (set_len_short_spec b (slen s)) as (A1 & A2 & A3 & _); try lia.
    { unfold b. apply nthN_upd_same. rewrite lenN_blit; lia. }
    split; [exact A1|]. split; [|exact A2].
    rewrite A3. unfold b, StrModel.abs. rewrite takeN_upd_before by (rewrite ?lenN_blit; lia).
    rewrite takeN_blit_0 by lia. rewrite takeN_takeN. f_equal. lia.
  - (* realloc to the exact size *)
    apply N.leb_gt in E5.
    set (nbuf := takeN req (buf s) ++ repN jk (req - cap s)).
    assert (Lb : lenN nbuf = req) by (unfold nbuf; rewrite lenN_app, lenN_takeN, lenN_repN; lia).
    split; [apply inv_fin; trivial; lia|].
    unfold StrModel.abs. cbn [StrModel.cap StrModel.slen buf]. replace (N.min (slen s) (req - 1)) with (slen s) by lia.
    split; [|reflexivity].
    rewrite takeN_upd_before by lia.
    unfold nbuf. rewrite takeN_app_le by (rewrite lenN_takeN; lia). rewrite takeN_takeN. f_equal. lia.
  - (* small buffer stays: Truncate *)
    apply N.leb_le in E5. destruct s as [b|]; [|discriminate D]. cbn [StrModel.cap StrModel.slen buf] in *.
    destruct I as (_ & _ & _ & I4).
    unfold short_truncate. cbn [buf].
    set (b1 := upd b (req - 1) 0).
    assert (Lb1 : lenN b1 = M + 1) by (unfold b1; rewrite lenN_upd; lia).
    assert (EM : nthN M b1 = nthN M b) by (unfold b1; apply nthN_upd_other; lia).
    rewrite EM. replace (M - N.min (req - 1) (M - nthN M b)) with (nthN M b) by lia.
    rewrite (upd_same b1) by (trivial; lia).
    assert (Z : nthN (M - nthN M b) b1 = 0).
    { unfold b1. destruct (N.eq_dec (M - nthN M b) (req - 1)) as [->|Dn].
      - apply nthN_upd_same. lia.
      - rewrite nthN_upd_other by lia. exact Nu. }
    unfold inv, StrModel.abs. cbn [StrModel.cap StrModel.slen buf]. rewrite EM.
    repeat split; trivial; try lia.
    unfold b1. apply takeN_upd_before; lia.
  - (* small buffer -> heap of the exact size *)
    apply N.leb_gt in E5.
    replace (N.min (slen s + 1) req) with (slen s + 1) by lia.
    set (nbuf := blit (repN jk req) 0 (takeN (slen s + 1) (buf s))).
    assert (Lt' : lenN (takeN (slen s + 1) (buf s)) = slen s + 1) by (rewrite lenN_takeN; lia).
    assert (Lb : lenN nbuf = req) by (unfold nbuf; rewrite lenN_blit; rewrite ?lenN_repN; lia).
    split; [apply inv_fin; trivial; lia|].
    unfold StrModel.abs. cbn [StrModel.cap StrModel.slen buf]. replace (N.min (slen s) (req - 1)) with (slen s) by lia.
    split; [|reflexivity].
    rewrite takeN_upd_before by lia.
    unfold nbuf. rewrite takeN_blit_0 by lia. rewrite takeN_takeN. f_equal. lia.
Qed.

(* with the repaired size check, requests up to 2^30 bytes always succeed *)

Lemma ensure_ok s req retain : inv s -> req <= 1073741824 -> fst (ensure s req retain false) = StOk.
Proof.
  intros I R. unfold StrModel.ensure.
  destruct (req <=? cap s) eqn:E1; [reflexivity|]. apply N.leb_gt in E1. cbn [orb andb].
  pose proof (inv_lt _ I) as Lt.
  assert (R1 : 1 <= req) by lia.
  destruct (next_buf_size_ok M TH PG OV TH_ge PG_pos PG_le OV_lt M_le req R1 R) as [B1 B2].
  set (nb := if (req <=? M + 1) || ((slen s =? 0) && negb (is_long s)) then req else next_buf_size M TH PG OV req).
  assert (Bn : req <= nb /\ nb < 2147483648).
  { unfold nb. destruct ((req <=? M + 1) || ((slen s =? 0) && negb (is_long s))); lia. }
  destruct Bn as [Bn1 Bn2].
  assert (X1 : (nb <? req) = false) by (apply N.ltb_ge; lia). rewrite X1.
  assert (X2 : (nb =? 0) = false) by (apply N.eqb_neq; lia). rewrite X2.
  assert (X3 : (2147483648 <=? nb) = false) by (apply N.leb_gt; lia). rewrite X3.
  destruct retain; [destruct (is_long s)|]; reflexivity.
Qed.

End Core.
