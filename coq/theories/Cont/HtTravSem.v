(* C09 -- traversal theory, semantic premise: an operation that relinks entries (moves, sorts,
   repositioning Puts) is harmless for a traversal whenever it leaves the relative order of the
   entries of the iterator's table unchanged.  The one exception is the positional Put of an existing
   key on an auto-sorting table (it moves the entry twice, see HtTravRefuted.v); that one has to be a
   complete no-op. *)
From Coq Require Import List Arith ZArith NArith PArith Bool Lia FMapPositive Permutation.
From Muscle Require Import Cont.HtModel Cont.HtStep Cont.HtIdeal Cont.HtLemmas Cont.HtRepr Cont.HtWalk Cont.HtIters
                           Cont.HtTable Cont.HtMoves Cont.HtPut Cont.HtExact Cont.HtPend Cont.HtTrav Cont.HtRefTab
                           Cont.HtInv Cont.HtInvIter Cont.HtSafe Cont.HtSwap Cont.HtSafeAll Cont.HtTravW Cont.HtTravOps Cont.HtRefine.
Import ListNotations.

(* ------------------------------------------------------------------ "same relative order", decidable *)

Definition memb (x : positive) (l : list positive) : bool := existsb (Pos.eqb x) l.
Fixpoint list_eqb (a b : list positive) : bool :=
  match a, b with
  | [], [] => true
  | x :: a', y :: b' => Pos.eqb x y && list_eqb a' b'
  | _, _ => false
  end.
(* the entries common to l and l' occur in the same relative order *)
Definition order_keptb (l l' : list positive) : bool :=
  list_eqb (filter (fun x => memb x l') l) (filter (fun x => memb x l) l').

Lemma memb_in : forall x l, memb x l = true <-> In x l.
Proof.
  intros x l. unfold memb. rewrite existsb_exists. split.
  - intros (y & Hy & E). apply Pos.eqb_eq in E. subst y. exact Hy.
  - intros H. exists x. split; [exact H|apply Pos.eqb_refl].
Qed.

Lemma list_eqb_eq : forall a b, list_eqb a b = true -> a = b.
Proof.
  induction a as [|x a IH]; intros [|y b] H; cbn in H; try discriminate; [reflexivity|].
  apply andb_prop in H. destruct H as [H1 H2]. apply Pos.eqb_eq in H1. subst y. f_equal. apply IH. exact H2.
Qed.

Lemma list_eqb_refl : forall a, list_eqb a a = true.
Proof. induction a as [|x a IH]; [reflexivity|]. cbn. rewrite Pos.eqb_refl, IH. reflexivity. Qed.

Lemma filter_id_in : forall (p : positive -> bool) l, (forall x, In x l -> p x = true) -> filter p l = l.
Proof.
  intros p. induction l as [|x l IH]; intros H; [reflexivity|]. cbn. rewrite (H x (or_introl eq_refl)). f_equal.
  apply IH. intros y Hy. apply H. right; exact Hy.
Qed.

Lemma order_keptb_refl : forall l, order_keptb l l = true.
Proof. intros l. unfold order_keptb. apply list_eqb_refl. Qed.

(* two arrangements of the same entries in the same relative order are equal *)
Lemma order_kept_same_set : forall l l', (forall x, In x l <-> In x l') -> order_keptb l l' = true -> l = l'.
Proof.
  intros l l' Hs H. unfold order_keptb in H. apply list_eqb_eq in H.
  rewrite (filter_id_in _ l) in H by (intros x Hx; apply memb_in; apply Hs; exact Hx).
  rewrite (filter_id_in _ l') in H by (intros x Hx; apply memb_in; apply Hs; exact Hx).
  exact H.
Qed.

Lemma after_filter : forall (p : positive -> bool) c l, p c = true -> after (filter p l) c = filter p (after l c).
Proof.
  intros p c. induction l as [|x r IH]; intros Hc; [reflexivity|]. cbn [filter after].
  destruct (p x) eqn:Px.
  - cbn [after]. destruct (Pos.eqb x c); [reflexivity|apply IH; exact Hc].
  - destruct (Pos.eqb x c) eqn:E; [apply Pos.eqb_eq in E; congruence|apply IH; exact Hc].
Qed.

Lemma before_filter : forall (p : positive -> bool) c l, p c = true -> before (filter p l) c = filter p (before l c).
Proof.
  intros p c. induction l as [|x r IH]; intros Hc; [reflexivity|]. cbn [filter before].
  destruct (p x) eqn:Px.
  - cbn [before]. destruct (Pos.eqb x c); [reflexivity|]. cbn [filter]. rewrite Px. f_equal. apply IH; exact Hc.
  - destruct (Pos.eqb x c) eqn:E; [apply Pos.eqb_eq in E; congruence|]. cbn [filter]. rewrite Px. apply IH; exact Hc.
Qed.

Lemma rest_of_filter : forall bw (p : positive -> bool) c l, p c = true -> rest_of bw (filter p l) c = filter p (rest_of bw l c).
Proof. intros [] p c l H; unfold rest_of; [apply before_filter|apply after_filter]; exact H. Qed.

(* what lies beyond a common cursor is the same in both arrangements, as far as common entries go *)
Lemma rest_kept : forall bw l l' c n, order_keptb l l' = true -> In c l -> In c l' -> In n l -> In n l' ->
  (In n (rest_of bw l c) <-> In n (rest_of bw l' c)).
Proof.
  intros bw l l' c n H Hc Hc' Hn Hn'. unfold order_keptb in H. apply list_eqb_eq in H.
  assert (A : In n (filter (fun x => memb x l') (rest_of bw l c)) <-> In n (filter (fun x => memb x l) (rest_of bw l' c))).
  { rewrite <- !rest_of_filter by (apply memb_in; assumption). rewrite H. tauto. }
  rewrite !filter_In in A. rewrite !memb_in in A. tauto.
Qed.

(* ------------------------------------------------------------------ one iterator, same record, rearranged list *)

Lemma tcalm_kept : forall l f it l' f', (f <= f')%positive ->
  (forall n, In n l -> In n l') -> (forall n, In n l' -> In n l \/ (f <= n)%positive) ->
  (forall c, icookie it = Some c -> In c l) ->
  order_keptb l l' = true -> tcalm l f it l' f' it.
Proof.
  intros l f it l' f' F Mono New Ck K. constructor; [exact F|exact New| | |reflexivity].
  - intros n Hp Hn'. unfold pend in *. destruct (icookie it) as [c|] eqn:Ec; [|destruct Hp].
    apply in_app_or in Hp. apply in_or_app. destruct Hp as [Hp|Hp]; [left; exact Hp|right].
    pose proof (Ck c eq_refl) as Hc. apply (rest_kept (ibw it) l l' c n K Hc (Mono c Hc)); [|exact Hn'|exact Hp].
    eapply rest_of_incl; exact Hp.
  - intros n Hp. unfold pend in *. destruct (icookie it) as [c|] eqn:Ec; [|destruct Hp].
    apply in_app_or in Hp. destruct Hp as [Hp|Hp]; [left; apply in_or_app; left; exact Hp|].
    pose proof (Ck c eq_refl) as Hc. assert (Hn' : In n l') by (eapply rest_of_incl; exact Hp).
    destruct (New n Hn') as [Hn|Hn]; [left|right; exact Hn].
    apply in_or_app. right. apply (rest_kept (ibw it) l l' c n K Hc (Mono c Hc) Hn Hn'). exact Hp.
Qed.

(* ------------------------------------------------------------------ a relinking step on one table *)

Record relinked (t : nat) (h : ht) (I : itab) (h' : ht) (I' : itab) : Prop := mkRelinked {
  rl_ok : okstep t I (h', I');
  rl_mono : forall n, live h n -> live h' n;
  rl_new : forall n, live h' n -> live h n \/ (fresh h <= n)%positive;
  rl_fresh : (fresh h <= fresh h')%positive;
  rl_its : (forall i it, geti I i = Some it -> iown it = Some t -> geti I' i = Some it) \/
           ((forall n, live h' n -> live h n) /\ ids h' <> ids h /\
            (forall i it, geti I i = Some it -> iown it = Some t ->
               exists it', geti I' i = Some it' /\ iown it' = Some t /\ inoreg it' = inoreg it)) }.

Lemma TL_ids_live : forall t h I n, TL t h I -> (In n (ids h) <-> live h n).
Proof.
  intros t h I n HTL. destruct (tl_tinv _ _ _ HTL) as (l & T). rewrite (tinv_ids h l T). split.
  - apply (lk_live _ _ (ti_linked _ _ T)).
  - apply (ti_dom _ _ T).
Qed.

Lemma calm_of_relinked : forall w t h' I' i, WF w -> t < length (tabs w) ->
  relinked t (gett w t) (its w) h' I' -> reg w i ->
  order_keptb (it_list w i) (it_list (put_ti w t h' I') i) = true ->
  calm_rel w (put_ti w t h' I') i /\ reg (put_ti w t h' I') i.
Proof.
  intros w t h' I' i W Ht [[HTL' F] Mono New Fr Its] (it & Hg & R) K.
  pose proof (wf_tabs _ W t Ht) as HTL. cbn [fst snd] in HTL', F.
  assert (Other : iown it <> Some t -> calm_rel w (put_ti w t h' I') i /\ reg (put_ti w t h' I') i).
  { intros O. assert (E : geti I' i = Some it) by (apply (fr_other _ _ _ F i it Hg O)).
    split; [|exists it; rewrite its_put; auto]. apply calm_rel_same; [rewrite its_put, Hg; exact E|].
    intros u Ou. unfold it_owner in Ou. rewrite Hg in Ou. rewrite gett_put_other by congruence. auto. }
  destruct (iown it) as [u|] eqn:O; [|apply Other; discriminate].
  destruct (Nat.eq_dec u t) as [->|Hut]; [|apply Other; congruence].
  assert (Eo : it_owner w i = Some t) by (unfold it_owner; rewrite Hg; exact O).
  assert (El : it_list w i = ids (gett w t)) by (unfold it_list; rewrite Eo; reflexivity).
  destruct Its as [Same|(Back & Ne & Own)].
  - pose proof (Same i it Hg O) as Hg'.
    assert (Eo' : it_owner (put_ti w t h' I') i = Some t) by (unfold it_owner; rewrite its_put, Hg'; exact O).
    assert (El' : it_list (put_ti w t h' I') i = ids h') by (unfold it_list; rewrite Eo', gett_put_same by exact Ht; reflexivity).
    rewrite El, El' in K.
    assert (C : tcalm (ids (gett w t)) (fresh (gett w t)) it (ids h') (fresh h') it).
    { apply tcalm_kept; [exact Fr| | | |exact K].
      - intros n Hn. apply (TL_ids_live t h' I' n HTL'). apply Mono. apply (TL_ids_live t _ _ n HTL). exact Hn.
      - intros n Hn. apply (TL_ids_live t h' I' n HTL') in Hn. destruct (New n Hn) as [H|H]; [left; apply (TL_ids_live t _ _ n HTL); exact H|right; exact H].
      - intros c Hc. destruct (TL_bounds t _ _ HTL) as [_ Ck]. apply (Ck i it c Hg O Hc). }
    split; [|exists it; rewrite its_put; auto].
    assert (Ef : it_fresh w i = fresh (gett w t)) by (unfold it_fresh; rewrite Eo; reflexivity).
    assert (Ef' : it_fresh (put_ti w t h' I') i = fresh h') by (unfold it_fresh; rewrite Eo', gett_put_same by exact Ht; reflexivity).
    assert (Ep : pending w i = pend (ids (gett w t)) it) by (unfold pending; rewrite Hg, O; reflexivity).
    assert (Ep' : pending (put_ti w t h' I') i = pend (ids h') it) by (unfold pending; rewrite its_put, Hg', O, gett_put_same by exact Ht; reflexivity).
    destruct C as [Cf Cn Ck Cr Cb]. constructor; rewrite ?El, ?El', ?Ef, ?Ef', ?Ep, ?Ep'; auto.
    intros H. rewrite Eo in H. discriminate.
  - exfalso. destruct (Own i it Hg O) as (it' & Hg' & O' & R').
    assert (Eo' : it_owner (put_ti w t h' I') i = Some t) by (unfold it_owner; rewrite its_put, Hg'; exact O').
    assert (El' : it_list (put_ti w t h' I') i = ids h') by (unfold it_list; rewrite Eo', gett_put_same by exact Ht; reflexivity).
    rewrite El, El' in K. apply Ne. symmetry. apply order_kept_same_set; [|exact K].
    intros x. rewrite (TL_ids_live t _ _ x HTL), (TL_ids_live t h' I' x HTL'). split; [apply Mono|apply Back].
Qed.

Lemma relinked_refl : forall t h I, TL t h I -> relinked t h I h I.
Proof.
  intros t h I HTL. constructor; [apply okstep_id; exact HTL|auto|auto|apply Pos.le_refl|left; auto].
Qed.

(* a preparatory step that leaves the iterators of t alone, followed by one MoveTo*Aux of entry e:
   either e is an entry that did not exist before (no iterator can point at it), or the preparatory
   step did not change the list at all *)
Lemma relinked_then_moved : forall t h0 I0 h J e l l' r, TL t h0 I0 ->
  okstep t I0 (h, J) -> (forall n, live h0 n -> live h n) ->
  (forall n, live h n -> live h0 n \/ (fresh h0 <= n)%positive) -> (fresh h0 <= fresh h)%positive ->
  (forall i it, geti I0 i = Some it -> iown it = Some t -> geti J i = Some it) ->
  ((fresh h0 <= e)%positive \/ ((forall n, live h n -> live h0 n) /\ ids h = ids h0)) ->
  tinv h l -> moved h J e l l' r -> okstep t J r ->
  relinked t h0 I0 (fst r) (snd r).
Proof.
  intros t h0 I0 h J e l l' r HTL0 O1 Mono New Fr Same Cases T (T' & [_ Sl] & (_ & _ & Mf & _) & D) O2.
  destruct O1 as [HTL1 F1]. cbn [fst snd] in HTL1, F1.
  constructor.
  - destruct r as [h2 I2]. eapply okstep_trans; [split; [exact HTL1|exact F1]|exact O2].
  - intros n Hn. apply Sl. apply Mono. exact Hn.
  - intros n Hn. apply Sl in Hn. apply New. exact Hn.
  - rewrite Mf. exact Fr.
  - destruct D as [[_ ->]|[Ne Ep]]; [left; exact Same|]. rewrite Ep.
    assert (G : forall i it, geti J i = Some it ->
                geti (patch_all h e J) i = Some it \/ (geti (patch_all h e J) i = Some (patch_iter h e it) /\ icookie it = Some e)).
    { intros i it Hg. rewrite patch_all_eq. destruct (in_dec Nat.eq_dec i (ilist h)) as [Hin|Hn].
      - rewrite map_its_in by (try apply (tl_nodup _ _ _ HTL1); assumption). rewrite Hg. cbn [option_map].
        unfold patch_iter at 1. destruct (opt_pos_eqb (icookie it) (Some e)) eqn:Eq.
        + right. split; [|apply opt_pos_eqb_true; exact Eq]. unfold patch_iter. rewrite Eq. reflexivity.
        + left. reflexivity.
      - rewrite map_its_notin by exact Hn. left. exact Hg. }
    destruct Cases as [Hfresh|[Back Eids]].
    + left. intros i it Hg O. destruct (G i it (Same i it Hg O)) as [H|[_ Hc]]; [exact H|exfalso].
      destruct (TL_bounds t h0 I0 HTL0) as [B C]. pose proof (B e (C i it e Hg O Hc)). lia.
    + right. split; [intros n Hn; apply Back; apply Sl; exact Hn|split].
      * rewrite (tinv_ids _ _ T'), <- Eids, (tinv_ids _ _ T). exact Ne.
      * intros i it Hg O. destruct (G i it (Same i it Hg O)) as [H|[H _]].
        -- exists it. auto.
        -- exists (patch_iter h e it). split; [exact H|]. destruct (patch_iter_own h e it) as (A & B & _). split; congruence.
Qed.

(* ------------------------------------------------------------------ PutAux as a preparatory step *)

Lemma ensure_size_noshrink : forall dcap h I req,
  exists h1 st, ensure_size dcap h I req false = (h1, I, st) /\ (h1 = h \/ exists c, h1 = with_cap h c).
Proof.
  intros dcap h I req. unfold ensure_size.
  set (bigger := N.max (N.of_nat (cnt h)) (N.max req (cap h))).
  destruct (N.eqb bigger (cap h)) eqn:E1; [exists h, 0; auto|].
  destruct (N.eqb bigger 0) eqn:E2.
  - exfalso. apply N.eqb_eq in E2. apply N.eqb_neq in E1. unfold bigger in *. lia.
  - destruct (N.eqb bigger 4294967295); [exists h, 3; auto|]. exists (with_cap h bigger), 0. split; [reflexivity|right; eexists; reflexivity].
Qed.

Section Prep.
Variable var : variant.
Variable dcap : N.
Variable t : nat.

Lemma put_aux_prep : forall h0 I0 k v, TL t h0 I0 ->
  (var = VPlain \/ find_key (ensure_allocated dcap h0) k = None) ->
  let r := put_aux var dcap h0 I0 k v in
  okstep t I0 (pa_h r, pa_i r) /\ (forall n, live h0 n -> live (pa_h r) n) /\
  (forall n, live (pa_h r) n -> live h0 n \/ (fresh h0 <= n)%positive) /\ (fresh h0 <= fresh (pa_h r))%positive /\
  (forall i it, geti I0 i = Some it -> iown it = Some t -> geti (pa_i r) i = Some it) /\
  ((fresh h0 <= pa_e r)%positive \/ ((forall n, live (pa_h r) n -> live h0 n) /\ ids (pa_h r) = ids h0)).
Proof.
  intros h0 I0 k v HTL0 Hc r.
  split; [apply (proj1 (put_aux_ok var dcap t h0 I0 k v HTL0))|].
  unfold r, put_aux.
  pose proof (TL_ensure_allocated dcap t h0 I0 HTL0) as HTL.
  assert (A0 : (forall n, live (ensure_allocated dcap h0) n <-> live h0 n) /\ fresh (ensure_allocated dcap h0) = fresh h0 /\
               ids (ensure_allocated dcap h0) = ids h0).
  { unfold ensure_allocated. destruct (N.eqb (cap h0) 0); [|split; [tauto|auto]].
    split; [intros n; unfold live, getn; cbn; tauto|split; [reflexivity|apply ids_congr; reflexivity]]. }
  destruct A0 as (Lv0 & Fr0 & Id0).
  set (h := ensure_allocated dcap h0) in *.
  destruct (tl_tinv _ _ _ HTL) as (l & T).
  destruct (find_key h k) as [e|] eqn:Ef.
  - destruct Hc as [Ev|Hn]; [|discriminate]. subst var. unfold reposition_aux, pa_h, pa_i, pa_e. cbn [fst snd].
    destruct (find_key_some_in h l k e T Ef) as [He _].
    destruct (tinv_set_val h l e v T He) as (T1 & Lv1 & _).
    destruct (meta_set_val h e v) as (_ & _ & Mf & _).
    split; [intros n Hn; apply Lv1; apply Lv0; exact Hn|].
    split; [intros n Hn; left; apply Lv0; apply Lv1; exact Hn|].
    split; [rewrite Mf, Fr0; apply Pos.le_refl|].
    split; [auto|]. right. split; [intros n Hn; apply Lv0; apply Lv1; exact Hn|].
    rewrite (tinv_ids _ _ T1), <- Id0, (tinv_ids _ _ T). reflexivity.
  - rewrite (tinv_find_key h l k T) in Ef.
    assert (ES : exists h00 st, (if N.eqb (N.of_nat (cnt h)) (cap h) then ensure_size dcap h I0 (cap h * 2) false else (h, I0, 0)) = (h00, I0, st) /\
                 (forall n, live h00 n <-> live h n) /\ fresh h00 = fresh h /\ tinv h00 l /\ find_id h00 k l = None).
    { destruct (N.eqb (N.of_nat (cnt h)) (cap h)).
      - destruct (ensure_size_noshrink dcap h I0 (cap h * 2)) as (h1 & st & E & [->|(c & ->)]).
        + exists h, st. split; [exact E|]. split; [tauto|auto].
        + exists (with_cap h c), st. split; [exact E|]. split; [intros n; unfold live, getn; cbn; tauto|split; [reflexivity|split; [apply tinv_with_cap; exact T|rewrite find_id_with_cap; exact Ef]]].
      - exists h, 0. split; [reflexivity|split; [tauto|auto]]. }
    destruct ES as (h00 & st & -> & Lv1 & Fr1 & T00 & Ef00).
    destruct (abs_insert_new var h00 l k v T00 Ef00) as (m1 & m2 & El & T' & _ & _ & _ & _ & Ee & _ & _ & _ & Lv2).
    pose proof (insert_entry_aux_meta var (fst (alloc_node h00 k v)) (snd (alloc_node h00 k v))) as (_ & _ & Mf & _).
    destruct (alloc_node h00 k v) as [h1 e] eqn:EA. cbn [fst snd] in *. unfold pa_h, pa_i, pa_e. cbn [fst snd].
    assert (Fh1 : fresh h1 = Pos.succ (fresh h00)) by (unfold alloc_node in EA; inversion EA; reflexivity).
    split; [intros n Hn; apply Lv2; left; apply Lv1; apply Lv0; exact Hn|].
    split; [intros n Hn; apply Lv2 in Hn; destruct Hn as [Hn|Hn]; [left; apply Lv0; apply Lv1; exact Hn|right; subst n; rewrite Ee, Fr1, Fr0; apply Pos.le_refl]|].
    split; [cbn [fresh with_cnt]; rewrite Mf, Fh1, Fr1, Fr0; lia|].
    split; [auto|]. left. rewrite Ee, Fr1, Fr0. apply Pos.le_refl.
Qed.

End Prep.

(* ------------------------------------------------------------------ the MoveTo*Aux family, uniformly *)

Definition mvspec (t : nat) (mv : ht -> itab -> positive -> ht * itab) (P : ht -> list positive -> positive -> Prop) : Prop :=
  forall h J l e, TL t h J -> tinv h l -> In e l -> P h l e ->
    (exists l', moved h J e l l' (mv h J e)) /\ okstep t J (mv h J e).

Lemma mvs_front : forall t, mvspec t move_front_aux (fun _ _ _ => True).
Proof.
  intros t h J l e HTL T He _. split; [|apply (move_front_ok t h J e l HTL T He)].
  destruct (in_split _ _ He) as (l1 & l2 & ->). eexists. apply move_front_exact. exact T.
Qed.

Lemma mvs_back : forall t, mvspec t move_back_aux (fun _ _ _ => True).
Proof.
  intros t h J l e HTL T He _. split; [|apply (move_back_ok t h J e l HTL T He)].
  destruct (in_split _ _ He) as (l1 & l2 & ->). eexists. apply move_back_exact. exact T.
Qed.

Lemma mvs_pos : forall t idx, mvspec t (fun h J e => move_pos_aux h J e idx) (fun _ _ _ => True).
Proof.
  intros t idx h J l e HTL T He _. split; [|apply (move_pos_ok t h J e idx l HTL T He)].
  destruct (in_split _ _ He) as (l1 & l2 & ->). eexists. apply move_pos_exact. exact T.
Qed.

Lemma in_rest_split : forall (l1 l2 : list positive) e f, In f (l1 ++ e :: l2) -> f <> e -> exists p q, l1 ++ l2 = p ++ f :: q.
Proof.
  intros l1 l2 e f Hf Hne. apply in_split. apply in_app_or in Hf. apply in_or_app.
  destruct Hf as [Hf|[Hf|Hf]]; [left; exact Hf|congruence|right; exact Hf].
Qed.

Lemma mvs_before : forall t f, mvspec t (fun h J e => move_before_aux h J e f) (fun _ l e => In f l /\ f <> e).
Proof.
  intros t f h J l e HTL T He [Hf Hne]. split; [|apply (move_before_ok t h J e f l HTL T He Hf Hne)].
  destruct (in_split _ _ He) as (l1 & l2 & ->). destruct (in_rest_split l1 l2 e f Hf Hne) as (p & q & Epq).
  eexists. apply (move_before_exact h J l1 l2 p q e f T Epq).
Qed.

Lemma mvs_behind : forall t d, mvspec t (fun h J e => move_behind_aux h J e d) (fun _ l e => In d l /\ d <> e).
Proof.
  intros t d h J l e HTL T He [Hd Hne]. split; [|apply (move_behind_ok t h J e d l HTL T He Hd Hne)].
  destruct (in_split _ _ He) as (l1 & l2 & ->). destruct (in_rest_split l1 l2 e d Hd Hne) as (p & q & Epq).
  eexists. apply (move_behind_exact h J l1 l2 p q e d T Epq).
Qed.

Lemma mvs_repos : forall var t, mvspec t (reposition_aux var) (fun _ _ _ => True).
Proof.
  intros var t h J l e HTL T He _. split; [|apply (proj1 (reposition_ok var t h J e l HTL T He))].
  destruct (in_split _ _ He) as (l1 & l2 & ->). destruct (reposition_aux_exact var h J l1 l2 e T) as (l' & M & _).
  exists l'. exact M.
Qed.

(* what a preparatory step (nothing, or PutAux in one of its harmless cases) guarantees *)
Definition prepped (t : nat) (h0 : ht) (I0 : itab) (h : ht) (J : itab) (e : positive) : Prop :=
  okstep t I0 (h, J) /\ (forall n, live h0 n -> live h n) /\
  (forall n, live h n -> live h0 n \/ (fresh h0 <= n)%positive) /\ (fresh h0 <= fresh h)%positive /\
  (forall i it, geti I0 i = Some it -> iown it = Some t -> geti J i = Some it) /\
  ((fresh h0 <= e)%positive \/ ((forall n, live h n -> live h0 n) /\ ids h = ids h0)).

Lemma prepped_refl : forall t h I e, TL t h I -> prepped t h I h I e.
Proof.
  intros t h I e HTL. split; [apply okstep_id; exact HTL|]. split; [auto|]. split; [auto|]. split; [apply Pos.le_refl|].
  split; [auto|]. right. auto.
Qed.

Lemma quiet_prep_move : forall w t i h J e mv P, WF w -> t < length (tabs w) -> mvspec t mv P ->
  prepped t (gett w t) (its w) h J e -> (exists l, tinv h l /\ In e l /\ P h l e) -> reg w i ->
  order_keptb (it_list w i) (it_list (put_ti w t (fst (mv h J e)) (snd (mv h J e))) i) = true ->
  calm_rel w (put_ti w t (fst (mv h J e)) (snd (mv h J e))) i /\ reg (put_ti w t (fst (mv h J e)) (snd (mv h J e))) i.
Proof.
  intros w t i h J e mv P W Ht Spec (O1 & Mono & New & Fr & Same & Cases) (l & T & He & HP) R K.
  destruct (Spec h J l e (proj1 O1) T He HP) as [(l' & M) O2].
  apply (calm_of_relinked w t _ _ i W Ht); [|exact R|exact K].
  apply (relinked_then_moved t (gett w t) (its w) h J e l l' (mv h J e) (wf_tabs _ W t Ht) O1 Mono New Fr Same Cases T M O2).
Qed.

(* PutAux by itself, in every case *)
Lemma put_aux_relinked : forall var dcap t h0 I0 k v, TL t h0 I0 ->
  relinked t h0 I0 (pa_h (put_aux var dcap h0 I0 k v)) (pa_i (put_aux var dcap h0 I0 k v)).
Proof.
  intros var dcap t h0 I0 k v HTL0.
  destruct (find_key (ensure_allocated dcap h0) k) as [e|] eqn:Ef.
  - (* an existing key: the value is replaced, then the entry repositioned *)
    pose proof (TL_ensure_allocated dcap t h0 I0 HTL0) as HTL.
    assert (A0 : (forall n, live (ensure_allocated dcap h0) n <-> live h0 n) /\ fresh (ensure_allocated dcap h0) = fresh h0 /\
                 ids (ensure_allocated dcap h0) = ids h0).
    { unfold ensure_allocated. destruct (N.eqb (cap h0) 0); [|split; [tauto|auto]].
      split; [intros n; unfold live, getn; cbn; tauto|split; [reflexivity|apply ids_congr; reflexivity]]. }
    destruct A0 as (Lv0 & Fr0 & Id0).
    unfold put_aux. rewrite Ef. set (h := ensure_allocated dcap h0) in *.
    destruct (tl_tinv _ _ _ HTL) as (l & T). destruct (find_key_some_in h l k e T Ef) as [He _].
    destruct (tinv_set_val h l e v T He) as (T1 & Lv1 & _). destruct (meta_set_val h e v) as (_ & _ & Mf & _ & Mi).
    assert (HTL1 : TL t (set_val h e v) I0).
    { apply (TL_same_I t h _ I0 HTL); [eexists; exact T1|exact Mi|intros c Hc; apply Lv1; exact Hc]. }
    destruct (mvs_repos var t (set_val h e v) I0 l e HTL1 T1 He I) as [(l' & M) O2].
    pose proof (relinked_then_moved t h0 I0 (set_val h e v) I0 e l l' (reposition_aux var (set_val h e v) I0 e) HTL0) as X.
    destruct (reposition_aux var (set_val h e v) I0 e) as [h1 I1]. unfold pa_h, pa_i. cbn [fst snd] in *.
    apply X; [split; [exact HTL1|apply frame_refl]| | | |auto| |exact T1|exact M|exact O2].
    + intros n Hn. apply Lv1. apply Lv0. exact Hn.
    + intros n Hn. left. apply Lv0. apply Lv1. exact Hn.
    + rewrite Mf, Fr0. apply Pos.le_refl.
    + right. split; [intros n Hn; apply Lv0; apply Lv1; exact Hn|]. rewrite (tinv_ids _ _ T1), <- Id0, (tinv_ids _ _ T). reflexivity.
  - destruct (put_aux_prep var dcap t h0 I0 k v HTL0 (or_intror Ef)) as (O & Mono & New & Fr & Same & _).
    constructor; [exact O|exact Mono|exact New|exact Fr|left; exact Same].
Qed.

(* ------------------------------------------------------------------ sorting: no iterator is touched *)

Lemma sort_by_live_fresh : forall t h I cmp, TL t h I ->
  (forall y, live (sort_by h cmp) y <-> live h y) /\ fresh (sort_by h cmp) = fresh h.
Proof.
  intros t h I cmp HTL. destruct (tl_tinv _ _ _ HTL) as (l & T).
  unfold sort_by, relink.
  destruct (relink_from_spec (sort_ids h cmp (ids h)) (with_hd h (head_opt (sort_ids h cmp (ids h)))) None) as (_ & _ & _ & _ & [_ S] & (_ & _ & Mf & _)).
  - eapply Permutation_NoDup; [rewrite (tinv_ids h l T); apply sort_ids_perm|apply (lk_nodup _ _ (ti_linked _ _ T))].
  - intros y Hy. apply (lk_live _ _ (ti_linked _ _ T)). rewrite (tinv_ids h l T) in Hy.
    eapply Permutation_in; [apply Permutation_sym, sort_ids_perm|exact Hy].
  - split; [intros y; apply (S y)|exact Mf].
Qed.

Lemma sort_by_relinked : forall t h I cmp, TL t h I -> relinked t h I (sort_by h cmp) I.
Proof.
  intros t h I cmp HTL. destruct (sort_by_live_fresh t h I cmp HTL) as [Lv Fr].
  constructor.
  - split; [apply sort_by_TL; exact HTL|apply frame_refl].
  - intros n Hn. apply Lv. exact Hn.
  - intros n Hn. left. apply Lv. exact Hn.
  - rewrite Fr. apply Pos.le_refl.
  - left. auto.
Qed.

Lemma sort_aux_relinked : forall var t h I, TL t h I -> relinked t h I (sort_aux var h) I.
Proof.
  intros var t h I HTL. unfold sort_aux. destruct var; [apply relinked_refl; exact HTL|apply sort_by_relinked; exact HTL|apply sort_by_relinked; exact HTL].
Qed.

Lemma with_asort_relinked : forall t h I b, TL t h I -> relinked t h I (with_asort h b) I.
Proof.
  intros t h I b HTL. destruct (tl_tinv _ _ _ HTL) as (l & T).
  assert (HTL' : TL t (with_asort h b) I).
  { apply (TL_same_I t h _ I HTL); [|reflexivity|auto]. exists l. apply (tinv_same_content h); [repeat split|exact T]. }
  constructor; [split; [exact HTL'|apply frame_refl]|auto|auto|apply Pos.le_refl|left; auto].
Qed.

Lemma relinked_trans_same : forall t h0 I h1 h2, relinked t h0 I h1 I -> relinked t h1 I h2 I ->
  (forall i it, geti I i = Some it -> iown it = Some t -> geti I i = Some it) ->
  (forall n, live h1 n <-> live h0 n) -> fresh h1 = fresh h0 -> relinked t h0 I h2 I.
Proof.
  intros t h0 I h1 h2 [O1 M1 N1 F1 _] [O2 M2 N2 F2 _] Same Lv Fr. constructor.
  - exact O2.
  - intros n Hn. apply M2. apply M1. exact Hn.
  - intros n Hn. destruct (N2 n Hn) as [H|H]; [left; apply Lv; exact H|right; rewrite <- Fr; exact H].
  - rewrite <- Fr. exact F2.
  - left. exact Same.
Qed.

Lemma sas_relinked : forall v t h I (en sortnow : bool), TL t h I ->
  relinked t h I (if sortnow && en then sort_aux v (with_asort h en) else with_asort h en) I.
Proof.
  intros v t h I en sortnow HTL. pose proof (with_asort_relinked t h I en HTL) as R1.
  destruct (sortnow && en); [|exact R1].
  pose proof (sort_aux_relinked v t (with_asort h en) I (proj1 (rl_ok _ _ _ _ _ R1))) as R2.
  apply (relinked_trans_same t h I (with_asort h en) _ R1 R2); [auto|intros n; unfold live, getn; cbn; tauto|reflexivity].
Qed.

(* ------------------------------------------------------------------ CopyFrom without clearing *)

Lemma sort_aux_facts : forall var t h I, TL t h I ->
  TL t (sort_aux var h) I /\ (forall y, live (sort_aux var h) y <-> live h y) /\ fresh (sort_aux var h) = fresh h.
Proof.
  intros var t h I HTL. split; [apply sort_aux_TL; exact HTL|].
  unfold sort_aux. destruct var; [split; [tauto|reflexivity]| |]; apply (sort_by_live_fresh t h I _ HTL).
Qed.

Lemma copy_one_new : forall we h kv,
  (forall n, live (copy_one we h kv) n -> live h n \/ (fresh h <= n)%positive) /\ (fresh h <= fresh (copy_one we h kv))%positive.
Proof.
  intros we h kv. unfold copy_one.
  destruct (if we then None else find_key h (fst kv)) as [e|].
  - destruct (meta_set_val h e (snd kv)) as (_ & _ & Mf & _). split; [|rewrite Mf; apply Pos.le_refl].
    intros n Hn. left. apply (live_set_val h e (snd kv) n). exact Hn.
  - unfold alloc_node. cbn zeta.
    set (h1 := mkHt (PositiveMap.add (fresh h) (mkNode (fst kv) (snd kv) None None) (nodes h)) (hd h) (tl h) (cnt h) (cap h) (Pos.succ (fresh h)) (asort h) (ilist h)).
    destruct (insert_same_data h1 (fresh h) (tl h1)) as [[_ Sl] (_ & _ & Mf & _)].
    split.
    + intros n Hn. change (live (insert_iter_entry h1 (fresh h) (tl h1)) n) in Hn. apply Sl in Hn.
      unfold live, getn, h1 in Hn. cbn [nodes] in Hn.
      destruct (Pos.eq_dec n (fresh h)) as [->|Hne]; [right; apply Pos.le_refl|left].
      rewrite PositiveMap.gso in Hn by exact Hne. exact Hn.
    + cbn [fresh with_cnt]. rewrite Mf. unfold h1. cbn [fresh]. lia.
Qed.

Lemma copy_fold_new : forall we src h,
  (forall n, live (fold_left (copy_one we) src h) n -> live h n \/ (fresh h <= n)%positive) /\
  (fresh h <= fresh (fold_left (copy_one we) src h))%positive.
Proof.
  intros we. induction src as [|kv src IH]; intros h; cbn [fold_left]; [split; [auto|apply Pos.le_refl]|].
  destruct (copy_one_new we h kv) as [N1 F1]. destruct (IH (copy_one we h kv)) as [N2 F2]. split.
  - intros n Hn. destruct (N2 n Hn) as [H|H]; [apply N1; exact H|right; lia].
  - lia.
Qed.

Lemma copy_from_relinked : forall var dcap t h I src srccap, TL t h I -> NoDup (map fst src) ->
  relinked t h I (fst (fst (copy_from var dcap h I src srccap false))) (snd (fst (copy_from var dcap h I src srccap false))).
Proof.
  intros var dcap t h I src srccap HTL Hnd.
  pose proof (copy_from_ok var dcap t h I src srccap false HTL Hnd) as O.
  unfold copy_from in *. destruct src as [|kv src']; [cbn [fst snd]; apply relinked_refl; exact HTL|].
  destruct (ensure_size_noshrink dcap h I (N.of_nat (cnt h + length (kv :: src')))) as (h2 & st & E & Hh2).
  rewrite E in *.
  assert (A : TL t h2 I /\ (forall n, live h2 n <-> live h n) /\ fresh h2 = fresh h).
  { destruct Hh2 as [->|(c & ->)]; [split; [exact HTL|split; [tauto|reflexivity]]|].
    split; [apply TL_with_cap; exact HTL|split; [intros n; unfold live, getn; cbn; tauto|reflexivity]]. }
  destruct A as (HTL2 & Lv2 & Fr2).
  destruct (st =? 0); cbn [fst snd] in *.
  - pose proof (copy_from_aux_TL t h2 I (kv :: src') HTL2 Hnd) as HTLc.
    destruct (sort_aux_facts var t _ I HTLc) as (_ & Lvs & Frs).
    destruct (tl_tinv _ _ _ HTL2) as (l & T).
    destruct (copy_fold_grows (cnt h2 =? 0) (kv :: src') h2 l T Hnd) as (_ & _ & Lvc).
    { intros Ez e He. apply Nat.eqb_eq in Ez. rewrite (ti_cnt _ _ T) in Ez. destruct l; [destruct He|discriminate]. }
    destruct (copy_fold_new (cnt h2 =? 0) (kv :: src') h2) as [Nc Fc].
    constructor; [exact O| | | |left; auto].
    + intros n Hn. apply Lvs. apply Lvc. apply Lv2. exact Hn.
    + intros n Hn. apply Lvs in Hn. destruct (Nc n Hn) as [H|H]; [left; apply Lv2; exact H|right; rewrite <- Fr2; exact H].
    + rewrite Frs, <- Fr2. exact Fc.
  - constructor; [exact O| | | |left; auto].
    + intros n Hn. apply Lv2. exact Hn.
    + intros n Hn. left. apply Lv2. exact Hn.
    + rewrite Fr2. apply Pos.le_refl.
Qed.

Lemma option_eq_dec_nat : forall (a b : option nat), {a = b} + {a <> b}.
Proof. decide equality. apply Nat.eq_dec. Qed.

(* ------------------------------------------------------------------ the quiet operations *)

Section Quiet.
Variable var : variant.
Variable dcap : N.

(* operations that relink surviving entries and are handled by the semantic premise *)
Definition relinking (o : op) : bool :=
  match o with
  | OPut _ _ _ | OCopyToTable _ _ _
  | OPutAtFront _ _ _ | OPutAtBack _ _ _ | OPutBefore _ _ _ _ | OPutBehind _ _ _ _ | OPutAtPos _ _ _ _
  | OMoveFront _ _ | OMoveBack _ _ | OMoveBefore _ _ _ | OMoveBehind _ _ _ | OMovePos _ _ _
  | OGetMoveFront _ _ | OGetMoveBack _ _ | OSortKey _ | OSortVal _ | OSort _ | OReposition _ _
  | OSetAutoSort _ _ _ | OCopyFrom _ _ _ | OMoveToTable _ _ _ => true
  | _ => false
  end.

Definition is_plain (v : variant) : bool := match v with VPlain => true | _ => false end.

(* the positional Put of an existing key on an auto-sorting class: two moves in one operation *)
Definition double_move (w : world) (o : op) : bool :=
  match o with
  | OPutAtFront t k _ | OPutAtBack t k _ | OPutBefore t k _ _ | OPutBehind t k _ _ | OPutAtPos t k _ _ =>
      negb (is_plain var) && (match find_key (gett w t) k with Some _ => true | None => false end)
  | _ => false
  end.

(* the operation leaves the relative order of the entries of iterator i's table unchanged *)
Definition kept (i : nat) (w : world) (o : op) : Prop :=
  order_keptb (it_list w i) (it_list (fst (step1 var dcap w o)) i) = true.

Definition quiet (i : nat) (w : world) (o : op) : Prop :=
  calm var dcap w o \/ (relinking o = true /\ double_move w o = false /\ kept i w o).

Lemma double_move_calm : forall w t k,
  negb (is_plain var) && (match find_key (gett w t) k with Some _ => true | None => false end) = false ->
  var = VPlain \/ find_key (ensure_allocated dcap (gett w t)) k = None.
Proof.
  intros w t k H. rewrite find_key_ensure_allocated. destruct (find_key (gett w t) k); [|right; reflexivity].
  rewrite andb_true_r in H. left. destruct var; [reflexivity|discriminate|discriminate].
Qed.

Lemma put_entry_in : forall w t k v, WF w -> t < length (tabs w) ->
  exists l, tinv (pa_h (put_aux var dcap (gett w t) (its w) k v)) l /\ In (pa_e (put_aux var dcap (gett w t) (its w) k v)) l.
Proof.
  intros w t k v W Ht. destruct (tl_tinv _ _ _ (wf_tabs _ W t Ht)) as (l0 & T0).
  destruct (put_aux_key var dcap (gett w t) (its w) l0 k v T0) as (_ & l & T & He). exists l. auto.
Qed.

Lemma found_in : forall w t k e, WF w -> t < length (tabs w) -> find_key (gett w t) k = Some e ->
  exists l, tinv (gett w t) l /\ In e l.
Proof. intros w t k e W Ht Ef. apply (TL_find_in t _ (its w) k e (wf_tabs _ W t Ht) Ef). Qed.

Ltac vt1 Same :=
  match goal with
  | |- context [valid_t ?w ?t && valid_t ?w ?u] =>
      destruct (valid_t w t) eqn:V1; [apply valid_t_lt in V1|cbn [andb fst]; exact Same];
      destruct (valid_t w u) eqn:V2; [apply valid_t_lt in V2|cbn [andb fst]; exact Same]; cbn [andb] in *
  | |- context [valid_t ?w ?t] => destruct (valid_t w t) eqn:V1; [apply valid_t_lt in V1|cbn [fst]; exact Same]
  end.

Lemma quiet_step : forall w o i, WF w -> quiet i w o -> touches i o = false -> reg w i ->
  calm_rel w (fst (step1 var dcap w o)) i /\ reg (fst (step1 var dcap w o)) i.
Proof.
  intros w o i W [C|(Rl & Fc & K)] Ht R; [apply calm_step; assumption|].
  pose proof (wf_tabs _ W) as WT. unfold kept in K.
  assert (Same : calm_rel w w i /\ reg w i) by (split; [apply calm_rel_refl|exact R]).
  destruct o; try discriminate Rl; cbn [double_move] in Fc; cbn [step1] in K |- *.
  - (* Put *) vt1 Same. rewrite (put_aux_split var dcap (gett w t)) in K |- *. cbn [fst] in K |- *.
    apply (calm_of_relinked w t _ _ i W V1 (put_aux_relinked var dcap t _ _ k v (WT t V1)) R K).
  - (* PutAtFront *) vt1 Same. rewrite (put_aux_split var dcap (gett w t)) in K |- *.
    rewrite (surjective_pairing (move_front_aux (pa_h (put_aux var dcap (gett w t) (its w) k v)) (pa_i (put_aux var dcap (gett w t) (its w) k v)) (pa_e (put_aux var dcap (gett w t) (its w) k v)))) in K |- *.
    cbn [fst] in K |- *.
    apply (quiet_prep_move w t i _ _ _ move_front_aux _ W V1 (mvs_front t)); [|destruct (put_entry_in w t k v W V1) as (l & T & He); exists l; auto|exact R|exact K].
    apply (put_aux_prep var dcap t _ _ k v (WT t V1) (double_move_calm w t k Fc)).
  - (* PutAtBack *) vt1 Same. rewrite (put_aux_split var dcap (gett w t)) in K |- *.
    rewrite (surjective_pairing (move_back_aux (pa_h (put_aux var dcap (gett w t) (its w) k v)) (pa_i (put_aux var dcap (gett w t) (its w) k v)) (pa_e (put_aux var dcap (gett w t) (its w) k v)))) in K |- *.
    cbn [fst] in K |- *.
    apply (quiet_prep_move w t i _ _ _ move_back_aux _ W V1 (mvs_back t)); [|destruct (put_entry_in w t k v W V1) as (l & T & He); exists l; auto|exact R|exact K].
    apply (put_aux_prep var dcap t _ _ k v (WT t V1) (double_move_calm w t k Fc)).
  - (* PutBefore *) vt1 Same. rewrite (put_aux_split var dcap (gett w t)) in K |- *.
    destruct (put_entry_in w t k v W V1) as (l & T & He).
    pose proof (put_aux_prep var dcap t _ _ k v (WT t V1) (double_move_calm w t k Fc)) as Prep. cbn zeta in Prep.
    pose proof (put_aux_relinked var dcap t _ _ k v (WT t V1)) as Rel.
    set (h := pa_h _) in *. set (J := pa_i _) in *. set (e := pa_e _) in *.
    destruct (find_key h k2) as [f|] eqn:Ef.
    + destruct (Pos.eqb e f) eqn:Eef.
      * cbn [fst] in K |- *. apply (calm_of_relinked w t _ _ i W V1 Rel R K).
      * apply Pos.eqb_neq in Eef. rewrite (surjective_pairing (move_before_aux h J e f)) in K |- *. cbn [fst] in K |- *.
        apply (quiet_prep_move w t i h J e (fun h J e => move_before_aux h J e f) _ W V1 (mvs_before t f) Prep); [|exact R|exact K].
        exists l. split; [exact T|split; [exact He|split; [apply (find_key_some_in h l k2 f T Ef)|congruence]]].
    + cbn [fst] in K |- *. apply (calm_of_relinked w t _ _ i W V1 Rel R K).
  - (* PutBehind *) vt1 Same. rewrite (put_aux_split var dcap (gett w t)) in K |- *.
    destruct (put_entry_in w t k v W V1) as (l & T & He).
    pose proof (put_aux_prep var dcap t _ _ k v (WT t V1) (double_move_calm w t k Fc)) as Prep. cbn zeta in Prep.
    pose proof (put_aux_relinked var dcap t _ _ k v (WT t V1)) as Rel.
    set (h := pa_h _) in *. set (J := pa_i _) in *. set (e := pa_e _) in *.
    destruct (find_key h k2) as [f|] eqn:Ef.
    + destruct (Pos.eqb e f) eqn:Eef.
      * cbn [fst] in K |- *. apply (calm_of_relinked w t _ _ i W V1 Rel R K).
      * apply Pos.eqb_neq in Eef. rewrite (surjective_pairing (move_behind_aux h J e f)) in K |- *. cbn [fst] in K |- *.
        apply (quiet_prep_move w t i h J e (fun h J e => move_behind_aux h J e f) _ W V1 (mvs_behind t f) Prep); [|exact R|exact K].
        exists l. split; [exact T|split; [exact He|split; [apply (find_key_some_in h l k2 f T Ef)|congruence]]].
    + cbn [fst] in K |- *. apply (calm_of_relinked w t _ _ i W V1 Rel R K).
  - (* PutAtPos *) vt1 Same. rewrite (put_aux_split var dcap (gett w t)) in K |- *.
    rewrite (surjective_pairing (move_pos_aux (pa_h (put_aux var dcap (gett w t) (its w) k v)) (pa_i (put_aux var dcap (gett w t) (its w) k v)) (pa_e (put_aux var dcap (gett w t) (its w) k v)) idx)) in K |- *.
    cbn [fst] in K |- *.
    apply (quiet_prep_move w t i _ _ _ (fun h J e => move_pos_aux h J e idx) _ W V1 (mvs_pos t idx)); [|destruct (put_entry_in w t k v W V1) as (l & T & He); exists l; auto|exact R|exact K].
    apply (put_aux_prep var dcap t _ _ k v (WT t V1) (double_move_calm w t k Fc)).
  - (* MoveFront *) vt1 Same. destruct (find_key (gett w t) k) as [e|] eqn:Ef; [|exact Same].
    rewrite (surjective_pairing (move_front_aux (gett w t) (its w) e)) in K |- *. cbn [fst] in K |- *.
    apply (quiet_prep_move w t i _ _ _ move_front_aux _ W V1 (mvs_front t) (prepped_refl t _ _ e (WT t V1))); [|exact R|exact K].
    destruct (found_in w t k e W V1 Ef) as (l & T & He). exists l. auto.
  - (* MoveBack *) vt1 Same. destruct (find_key (gett w t) k) as [e|] eqn:Ef; [|exact Same].
    rewrite (surjective_pairing (move_back_aux (gett w t) (its w) e)) in K |- *. cbn [fst] in K |- *.
    apply (quiet_prep_move w t i _ _ _ move_back_aux _ W V1 (mvs_back t) (prepped_refl t _ _ e (WT t V1))); [|exact R|exact K].
    destruct (found_in w t k e W V1 Ef) as (l & T & He). exists l. auto.
  - (* MoveBefore *) vt1 Same. destruct (find_key (gett w t) k) as [e|] eqn:Ef; [|exact Same].
    destruct (find_key (gett w t) k2) as [f|] eqn:Ef2; [|exact Same].
    destruct (Pos.eqb e f) eqn:Eef; [exact Same|]. apply Pos.eqb_neq in Eef.
    rewrite (surjective_pairing (move_before_aux (gett w t) (its w) e f)) in K |- *. cbn [fst] in K |- *.
    apply (quiet_prep_move w t i _ _ _ (fun h J e => move_before_aux h J e f) _ W V1 (mvs_before t f) (prepped_refl t _ _ e (WT t V1))); [|exact R|exact K].
    destruct (found_in w t k e W V1 Ef) as (l & T & He). exists l.
    split; [exact T|split; [exact He|split; [apply (find_key_some_in _ l k2 f T Ef2)|congruence]]].
  - (* MoveBehind *) vt1 Same. destruct (find_key (gett w t) k) as [e|] eqn:Ef; [|exact Same].
    destruct (find_key (gett w t) k2) as [f|] eqn:Ef2; [|exact Same].
    destruct (Pos.eqb e f) eqn:Eef; [exact Same|]. apply Pos.eqb_neq in Eef.
    rewrite (surjective_pairing (move_behind_aux (gett w t) (its w) e f)) in K |- *. cbn [fst] in K |- *.
    apply (quiet_prep_move w t i _ _ _ (fun h J e => move_behind_aux h J e f) _ W V1 (mvs_behind t f) (prepped_refl t _ _ e (WT t V1))); [|exact R|exact K].
    destruct (found_in w t k e W V1 Ef) as (l & T & He). exists l.
    split; [exact T|split; [exact He|split; [apply (find_key_some_in _ l k2 f T Ef2)|congruence]]].
  - (* MovePos *) vt1 Same. destruct (find_key (gett w t) k) as [e|] eqn:Ef; [|exact Same].
    rewrite (surjective_pairing (move_pos_aux (gett w t) (its w) e idx)) in K |- *. cbn [fst] in K |- *.
    apply (quiet_prep_move w t i _ _ _ (fun h J e => move_pos_aux h J e idx) _ W V1 (mvs_pos t idx) (prepped_refl t _ _ e (WT t V1))); [|exact R|exact K].
    destruct (found_in w t k e W V1 Ef) as (l & T & He). exists l. auto.
  - (* GetMoveFront *) vt1 Same. destruct (find_key (gett w t) k) as [e|] eqn:Ef; [|exact Same].
    rewrite (surjective_pairing (move_front_aux (gett w t) (its w) e)) in K |- *. cbn [fst] in K |- *.
    apply (quiet_prep_move w t i _ _ _ move_front_aux _ W V1 (mvs_front t) (prepped_refl t _ _ e (WT t V1))); [|exact R|exact K].
    destruct (found_in w t k e W V1 Ef) as (l & T & He). exists l. auto.
  - (* GetMoveBack *) vt1 Same. destruct (find_key (gett w t) k) as [e|] eqn:Ef; [|exact Same].
    rewrite (surjective_pairing (move_back_aux (gett w t) (its w) e)) in K |- *. cbn [fst] in K |- *.
    apply (quiet_prep_move w t i _ _ _ move_back_aux _ W V1 (mvs_back t) (prepped_refl t _ _ e (WT t V1))); [|exact R|exact K].
    destruct (found_in w t k e W V1 Ef) as (l & T & He). exists l. auto.
  - (* SortKey *) vt1 Same. cbn [fst] in K |- *.
    change (sett w t (sort_by (gett w t) cmp_key)) with (put_ti w t (sort_by (gett w t) cmp_key) (its w)) in K |- *.
    apply (calm_of_relinked w t _ _ i W V1 (sort_by_relinked t _ _ cmp_key (WT t V1)) R K).
  - (* SortVal *) vt1 Same. cbn [fst] in K |- *.
    change (sett w t (sort_by (gett w t) cmp_val)) with (put_ti w t (sort_by (gett w t) cmp_val) (its w)) in K |- *.
    apply (calm_of_relinked w t _ _ i W V1 (sort_by_relinked t _ _ cmp_val (WT t V1)) R K).
  - (* Sort *) vt1 Same. cbn [fst] in K |- *.
    change (sett w t (sort_aux var (gett w t))) with (put_ti w t (sort_aux var (gett w t)) (its w)) in K |- *.
    apply (calm_of_relinked w t _ _ i W V1 (sort_aux_relinked var t _ _ (WT t V1)) R K).
  - (* Reposition *) vt1 Same. destruct (find_key (gett w t) k) as [e|] eqn:Ef; [|exact Same].
    rewrite (surjective_pairing (reposition_aux var (gett w t) (its w) e)) in K |- *. cbn [fst] in K |- *.
    apply (quiet_prep_move w t i _ _ _ (reposition_aux var) _ W V1 (mvs_repos var t) (prepped_refl t _ _ e (WT t V1))); [|exact R|exact K].
    destruct (found_in w t k e W V1 Ef) as (l & T & He). exists l. auto.
  - (* SetAutoSort *) vt1 Same.
    assert (G : forall v, order_keptb (it_list w i) (it_list (fst (match v with
                | VPlain => (w, ONone)
                | _ => if Bool.eqb en (asort (gett w t)) then (w, ONone)
                       else (sett w t (if sortnow && en then sort_aux v (with_asort (gett w t) en) else with_asort (gett w t) en), ONone)
                end)) i) = true ->
              calm_rel w (fst (match v with
                | VPlain => (w, ONone)
                | _ => if Bool.eqb en (asort (gett w t)) then (w, ONone)
                       else (sett w t (if sortnow && en then sort_aux v (with_asort (gett w t) en) else with_asort (gett w t) en), ONone)
                end)) i /\ reg (fst (match v with
                | VPlain => (w, ONone)
                | _ => if Bool.eqb en (asort (gett w t)) then (w, ONone)
                       else (sett w t (if sortnow && en then sort_aux v (with_asort (gett w t) en) else with_asort (gett w t) en), ONone)
                end)) i).
    { intros v Kv. destruct v; [exact Same| |];
        (destruct (Bool.eqb en (asort (gett w t))); [exact Same|]; cbn [fst] in Kv |- *;
         match goal with |- context [sett w t ?hh] => change (sett w t hh) with (put_ti w t hh (its w)) in Kv |- * end;
         apply (calm_of_relinked w t _ _ i W V1 (sas_relinked _ t _ _ en sortnow (WT t V1)) R Kv)). }
    apply (G var K).
  - (* CopyFrom *) destruct clearfirst; [apply (calm_step var dcap w (OCopyFrom t u true) i W (or_introl eq_refl) Ht R)|].
    vt1 Same. destruct (t =? u); [exact Same|].
    assert (Hnd : NoDup (map fst (abs (gett w u)))).
    { destruct (tl_tinv _ _ _ (WT u V2)) as (l & T). rewrite (tinv_abs _ l T), map_map. apply (ti_keys _ _ T). }
    pose proof (copy_from_relinked var dcap t _ _ (abs (gett w u)) (cap (gett w u)) (WT t V1) Hnd) as Rel.
    destruct (copy_from var dcap (gett w t) (its w) (abs (gett w u)) (cap (gett w u)) false) as [[h1 I1] st]. cbn [fst snd] in *.
    apply (calm_of_relinked w t h1 I1 i W V1 Rel R K).
  - (* MoveToTable: a Put into tab[u], then the removal from tab[t] *)
    vt1 Same. destruct (find_key (gett w t) k) as [e|] eqn:Ef; [|exact Same].
    destruct (t =? u) eqn:Etu; [exact Same|]. apply Nat.eqb_neq in Etu.
    destruct (val_of (gett w t) e) as [v|]; [|exact Same].
    rewrite (put_aux_split var dcap (gett w u)) in K |- *.
    pose proof (put_aux_relinked var dcap u _ _ k v (WT u V2)) as Rel.
    set (hu := pa_h _) in *. set (I1 := pa_i _) in *.
    rewrite (surjective_pairing (remove_entry (gett w t) I1 e)) in K |- *. cbn [fst] in K |- *.
    set (w1 := put_ti w u hu I1).
    pose proof (WF_okstep w u (hu, I1) W V2 (rl_ok _ _ _ _ _ Rel)) as W1. cbn [fst snd] in W1. fold w1 in W1.
    assert (V1' : t < length (tabs w1)) by (unfold w1; rewrite len_put; exact V1).
    assert (Gt : gett w1 t = gett w t) by (unfold w1; apply gett_put_other; congruence).
    assert (E2 : fst (step1 var dcap w1 (ORemove t k)) =
                 mkW (upd_nth (upd_nth (tabs w) u hu) t (fst (remove_entry (gett w t) I1 e))) (snd (remove_entry (gett w t) I1 e))).
    { cbn [step1]. unfold valid_t. apply Nat.ltb_lt in V1' as V1b. rewrite V1b, Gt, Ef.
      unfold w1 at 1. rewrite its_put. rewrite (surjective_pairing (remove_entry (gett w t) I1 e)). reflexivity. }
    rewrite <- E2 in K |- *.
    assert (K1 : order_keptb (it_list w i) (it_list w1 i) = true).
    { destruct R as (it & Hg & Rg). destruct (rl_ok _ _ _ _ _ Rel) as [HTLu Fu]. cbn [fst snd] in HTLu, Fu.
      destruct (option_eq_dec_nat (iown it) (Some u)) as [O|O].
      - (* the iterator belongs to tab[u]: the removal from tab[t] does not concern it *)
        destruct (fr_mine _ _ _ Fu i it Hg O) as (it1 & Hg1 & [O1|[O1 _]]).
        + assert (El1 : it_list w1 i = ids hu).
          { unfold it_list, it_owner, w1. rewrite its_put, Hg1, O1, gett_put_same by exact V2. reflexivity. }
          assert (HTLt : TL t (gett w1 t) (its w1)) by (apply (wf_tabs _ W1 t V1')).
          assert (Le : live (gett w1 t) e) by (rewrite Gt; apply (TL_find_live t _ (its w) k e (WT t V1) Ef)).
          pose proof (remove_entry_TL t _ _ e HTLt Le) as [_ F2].
          assert (Hg2 : geti (its (fst (step1 var dcap w1 (ORemove t k)))) i = Some it1).
          { rewrite E2. cbn [its]. rewrite Gt in F2. change (its w1) with I1 in F2.
            apply (fr_other _ _ _ F2 i it1 Hg1). rewrite O1. intro H; inversion H; congruence. }
          assert (El2 : it_list (fst (step1 var dcap w1 (ORemove t k))) i = ids hu).
          { unfold it_list, it_owner. rewrite Hg2, O1. rewrite E2. unfold gett. cbn [tabs].
            rewrite nth_upd_nth_other by congruence. rewrite nth_upd_nth_same by exact V2. reflexivity. }
          rewrite El1, <- El2. exact K.
        + (* PutAux never detaches an iterator *)
          exfalso. destruct (rl_its _ _ _ _ _ Rel) as [Sm|(_ & _ & Ow)].
          * rewrite (Sm i it Hg O) in Hg1. inversion Hg1; subst it1. congruence.
          * destruct (Ow i it Hg O) as (it2 & Hg2 & O2 & _). rewrite Hg2 in Hg1. inversion Hg1; subst it1. congruence.
      - assert (Hg1 : geti I1 i = Some it) by (apply (fr_other _ _ _ Fu i it Hg O)).
        assert (El1 : it_list w1 i = it_list w i).
        { unfold it_list, it_owner, w1. rewrite its_put, Hg1, Hg. destruct (iown it) as [t'|]; [|reflexivity].
          rewrite gett_put_other by congruence. reflexivity. }
        rewrite El1. apply order_keptb_refl. }
    destruct (calm_of_relinked w u hu I1 i W V2 Rel R K1) as [C1 R1]. fold w1 in C1, R1.
    destruct (calm_step var dcap w1 (ORemove t k) i W1 I eq_refl R1) as [C2 R2].
    split; [eapply calm_rel_trans; [exact W|exact C1|exact C2]|exact R2].
  - (* CopyToTable *) vt1 Same. destruct (find_key (gett w t) k) as [e|] eqn:Ef; [|exact Same].
    destruct (t =? u); [exact Same|]. destruct (val_of (gett w t) e) as [v|]; [|exact Same].
    rewrite (put_aux_split var dcap (gett w u)) in K |- *. cbn [fst] in K |- *.
    apply (calm_of_relinked w u _ _ i W V2 (put_aux_relinked var dcap u _ _ k v (WT u V2)) R K).
Qed.

End Quiet.
