(* C16 -- RemoveItemAt, InsertItemAt, Swap, ReverseItemOrdering. *)
From Coq Require Import List Arith ZArith Bool Lia ZifyBool.
From Muscle Require Import Cont.QueueModel Cont.QueueLemmas Cont.QueueInv Cont.QueueOps1 Cont.QueueEnsure.
Import ListNotations.
Local Open Scope nat_scope.

(* ------------------------------------------------------------------ pure list facts *)

Lemma fold_length {K} (f : list Z -> K -> list Z) :
  (forall l k, length (f l k) = length l) ->
  forall ks l, length (fold_left f ks l) = length l.
Proof.
  intros H ks. induction ks as [|k ks IH]; intros l; cbn [fold_left]; [reflexivity|].
  rewrite IH. apply H.
Qed.

(* for k = a .. a+n-1 (ascending): l[k] := l[k+1] *)
Lemma shift_down_nth n : forall a (l : list Z) j, a + n < length l ->
  nth j (fold_left (fun l k => upd l k (nth (k + 1) l 0%Z)) (seq a n) l) 0%Z =
  if (a <=? j) && (j <? a + n) then nth (j + 1) l 0%Z else nth j l 0%Z.
Proof.
  induction n as [|n IH]; intros a l j H; cbn [seq fold_left].
  - dif; fin.
  - rewrite IH by (rewrite upd_length; lia). rewrite !nth_upd. dif; fin.
Qed.

(* for k = a+n-1 downto a: l[k] := l[k-1] *)
Lemma shift_up_nth n : forall a (l : list Z) j, 0 < a -> a + n <= length l ->
  nth j (fold_left (fun l k => upd l k (nth (k - 1) l 0%Z)) (rev (seq a n)) l) 0%Z =
  if (a <=? j) && (j <? a + n) then nth (j - 1) l 0%Z else nth j l 0%Z.
Proof.
  induction n as [|n IH]; intros a l j Ha H.
  - cbn [seq rev fold_left]. dif; fin.
  - rewrite seq_S, rev_app_distr. cbn [rev app fold_left].
    rewrite IH by (rewrite ?upd_length; lia). rewrite !nth_upd. dif; fin.
Qed.

(* for k = a+n-1 downto a: l[k+m] := l[k] *)
Lemma shift_up_m_nth m n : forall a (l : list Z) j, a + n + m <= length l ->
  nth j (fold_left (fun l k => upd l (k + m) (nth k l 0%Z)) (rev (seq a n)) l) 0%Z =
  if (a + m <=? j) && (j <? a + n + m) then nth (j - m) l 0%Z else nth j l 0%Z.
Proof.
  induction n as [|n IH]; intros a l j H.
  - cbn [seq rev fold_left]. dif; fin.
  - rewrite seq_S, rev_app_distr. cbn [rev app fold_left].
    rewrite IH by (rewrite ?upd_length; lia). rewrite !nth_upd. dif; fin.
Qed.

Lemma nth_swap_list (l : list Z) i j k : i < length l -> j < length l ->
  nth k (swap_list l i j) 0%Z =
  if k =? j then nth i l 0%Z else if k =? i then nth j l 0%Z else nth k l 0%Z.
Proof. intros Hi Hj. unfold swap_list. rewrite !nth_upd, upd_length. dif; fin. Qed.

Lemma swap_list_length (l : list Z) i j : length (swap_list l i j) = length l.
Proof. unfold swap_list. rewrite !upd_length. reflexivity. Qed.

Section Ops2.
Variables (jk : Z) (sq : nat).
Implicit Types (ow : bool) (q : q1).

(* ------------------------------------------------------------------ RemoveItemAt *)

Lemma shift_from_head_spec i : forall q fuel, head q < qsize q -> i < qsize q -> i < fuel ->
  let q' := shift_from_head q (intern q i) fuel in
  st q' = st q /\ qsize q' = qsize q /\ cnt q' = cnt q /\ head q' = head q /\ tail q' = tail q /\
  inl q' = inl q /\
  forall j, j < qsize q -> getu q' j = if (0 <? j) && (j <=? i) then getu q (j - 1) else getu q j.
Proof.
  induction i as [|i IH]; intros q fuel Hh Hi Hf; (destruct fuel as [|f]; [lia|]); cbn [shift_from_head].
  - rewrite intern_0, Nat.eqb_refl by assumption. repeat split. intros j Hj. dif; fin.
  - destruct (intern q (S i) =? head q) eqn:E.
    + exfalso. rewrite <- (intern_0 q Hh) in E. assert (E' : intern q (S i) = intern q 0) by lia.
      apply intern_inj in E'; lia.
    + rewrite prev_intern by lia. replace (S i - 1) with i by lia.
      change (nth (intern q i) (arr q) dflt) with (getu q i).
      rewrite <- setu_set_raw.
      set (q2 := setu q (S i) (getu q i)).
      rewrite <- (intern_setu q (S i) (getu q i) i). fold q2.
      destruct (IH q2 f) as (H1&H2&H3&H4&H5&H7&H6); subst q2; autorewrite with qdb; try lia.
      autorewrite with qdb in *. repeat split; try assumption.
      intros j Hj. rewrite H6 by lia. rewrite !getu_setu by lia. dif; fin.
Qed.

Lemma shift_from_tail_spec d : forall q i fuel, head q < qsize q -> cnt q <= qsize q ->
  tail q = intern q (cnt q - 1) -> i + d = cnt q - 1 -> 0 < cnt q -> d < fuel ->
  let q' := shift_from_tail q (intern q i) fuel in
  st q' = st q /\ qsize q' = qsize q /\ cnt q' = cnt q /\ head q' = head q /\ tail q' = tail q /\
  inl q' = inl q /\
  forall j, j < qsize q -> getu q' j = if (i <=? j) && (j <? cnt q - 1) then getu q (j + 1) else getu q j.
Proof.
  induction d as [|d IH]; intros q i fuel Hh Hc Ht Hd Hp Hf; (destruct fuel as [|f]; [lia|]);
    cbn [shift_from_tail].
  - replace i with (cnt q - 1) by lia. rewrite <- Ht, Nat.eqb_refl. repeat split. intros j Hj. dif; fin.
  - destruct (intern q i =? tail q) eqn:E.
    + exfalso. rewrite Ht in E. assert (E' : intern q i = intern q (cnt q - 1)) by lia.
      apply intern_inj in E'; lia.
    + rewrite next_intern' by lia.
      change (nth (intern q (i + 1)) (arr q) dflt) with (getu q (i + 1)).
      rewrite <- setu_set_raw.
      set (q2 := setu q i (getu q (i + 1))).
      rewrite <- (intern_setu q i (getu q (i + 1)) (i + 1)). fold q2.
      destruct (IH q2 (i + 1) f) as (H1&H2&H3&H4&H5&H7&H6); subst q2; autorewrite with qdb; try lia;
        try exact Ht.
      autorewrite with qdb in *. repeat split; try assumption.
      intros j Hj. rewrite H6 by lia. dif; rewrite ?getu_setu by lia; dif; fin.
Qed.

Lemma remove_at_spec ow q i : inv ow sq q -> i < cnt q ->
  inv ow sq (remove_at ow q i) /\ abs (remove_at ow q i) = l0_remove_at (abs q) i.
Proof.
  intros I Hi. unfold remove_at. replace (cnt q <=? i) with false by lia.
  pose proof (inv_cnt _ _ q I) as Hc. pose proof (inv_hd _ _ q I ltac:(lia)) as Hh.
  pose proof (inv_tail _ _ q I ltac:(lia)) as Ht.
  destruct (i <? cnt q / 2) eqn:E.
  - destruct (shift_from_head_spec i q (qsize q) Hh ltac:(lia) ltac:(lia)) as (H1&H2&H3&H4&H5&H7&H6).
    set (q2 := shift_from_head q (intern q i) (qsize q)) in *.
    assert (I2 : inv ow sq q2).
    { apply (inv_same_shape _ _ q); try assumption. intros j Hj. rewrite H6 by lia. dif; fin. }
    rewrite <- (remove_head_eq ow q2) by lia.
    split; [apply inv_remove_head; [assumption|lia]|].
    destruct (remove_head_shape ow sq q2 I2 ltac:(lia)) as (_&_&C&_&_&_&G).
    apply abs_ext; unfold l0_remove_at; autorewrite with nthdb; [lia|].
    intros j Hj. autorewrite with nthdb in Hj. rewrite G by lia.
    replace (j + 1 <? qsize q2) with true by lia. rewrite H6 by lia.
    autorewrite with nthdb absdb. dif; fin.
  - destruct (shift_from_tail_spec (cnt q - 1 - i) q i (qsize q) Hh Hc Ht ltac:(lia) ltac:(lia) ltac:(lia))
      as (H1&H2&H3&H4&H5&H7&H6).
    set (q2 := shift_from_tail q (intern q i) (qsize q)) in *.
    assert (I2 : inv ow sq q2).
    { apply (inv_same_shape _ _ q); try assumption. intros j Hj. rewrite H6 by lia. dif; fin. }
    rewrite <- (remove_tail_eq ow q2) by lia.
    split; [apply inv_remove_tail; [assumption|lia]|].
    rewrite (abs_remove_tail ow sq q2 I2) by lia.
    apply (list_ext _ _ 0%Z); unfold l0_remove_at; autorewrite with nthdb; [lia|].
    intros j Hj. autorewrite with nthdb in Hj. rewrite nth_firstn'.
    replace (j <? cnt q2 - 1) with true by lia. rewrite nth_abs by lia. rewrite H6 by lia.
    autorewrite with nthdb absdb. dif; fin.
Qed.

(* ------------------------------------------------------------------ copy loops inside the window *)

Lemma fold_copy_spec ow (dst src : nat -> nat) ks : forall g, inv ow sq g ->
  (forall k, In k ks -> dst k < cnt g /\ src k < cnt g) ->
  let g' := fold_left (fun g k => setu g (dst k) (getu g (src k))) ks g in
  inv ow sq g' /\ cnt g' = cnt g /\ st g' = st g /\ qsize g' = qsize g /\
  abs g' = fold_left (fun l k => upd l (dst k) (nth (src k) l 0%Z)) ks (abs g).
Proof.
  induction ks as [|k ks IH]; intros g I H; cbn [fold_left].
  - split; [assumption|]. repeat split.
  - destruct (H k (or_introl eq_refl)) as [Hd Hs].
    destruct (IH (setu g (dst k) (getu g (src k)))) as (J1&J2&J3&J4&J5).
    + apply inv_setu; assumption.
    + intros k' Hk'. rewrite cnt_setu. apply H. right. exact Hk'.
    + autorewrite with qdb in *. split; [assumption|]. repeat split; try assumption.
      rewrite J5, (abs_setu ow sq) by assumption. rewrite (getu_abs g (src k)) by assumption. reflexivity.
Qed.

(* ------------------------------------------------------------------ InsertItemAt *)

Lemma l0_insert_tail (l : list Z) i xs : length l <= i -> l0_insert_at l (Nat.min i (length l)) xs = l ++ xs.
Proof.
  intros H. unfold l0_insert_at. replace (Nat.min i (length l)) with (length l) by lia.
  rewrite firstn_all, skipn_all, app_nil_r. reflexivity.
Qed.

Lemma insert_at_spec ow q i x : inv ow sq q ->
  inv ow sq (insert_at ow jk sq q i x) /\
  abs (insert_at ow jk sq q i x) = l0_insert_at (abs q) (Nat.min i (cnt q)) [x].
Proof.
  intros I. unfold insert_at.
  destruct (cnt q <=? i) eqn:E1.
  - destruct (add_tail_spec jk sq ow q x I) as [J1 J2]. split; [assumption|].
    rewrite J2. symmetry. rewrite <- (abs_length q). apply l0_insert_tail. rewrite abs_length. lia.
  - destruct (i =? 0) eqn:E2.
    + destruct (add_head_spec jk sq ow q x I) as [J1 J2]. split; [assumption|].
      rewrite J2. replace (Nat.min i (cnt q)) with 0 by lia. reflexivity.
    + replace (Nat.min i (cnt q)) with i by lia.
      destruct (i <? cnt q / 2) eqn:E3.
      * destruct (add_head_spec jk sq ow q dflt I) as [J1 J2].
        set (q2 := add_head ow jk sq q dflt) in *.
        assert (C2 : cnt q2 = cnt q + 1) by (rewrite <- (abs_length q2), J2; cbn [length]; rewrite abs_length; lia).
        destruct (fold_copy_spec ow (fun k => k) (fun k => k + 1) (seq 0 i) q2 J1) as (K1&K2&K3&K4&K5).
        { intros k Hk. apply in_seq in Hk. lia. }
        cbv beta in *.
        set (q3 := fold_left (fun g k => setu g k (getu g (k + 1))) (seq 0 i) q2) in *.
        split; [apply inv_setu; [assumption|lia]|].
        rewrite (abs_setu ow sq) by (assumption || lia). rewrite K5, J2.
        apply (list_ext _ _ 0%Z).
        { unfold l0_insert_at. rewrite upd_length, fold_length by (intros; apply upd_length).
          autorewrite with nthdb. cbn [length]. autorewrite with nthdb. lia. }
        intros j Hj. rewrite upd_length, fold_length in Hj by (intros; apply upd_length).
        autorewrite with nthdb in Hj. cbn [length] in Hj.
        rewrite nth_upd, shift_down_nth by (cbn [length]; rewrite abs_length; lia).
        rewrite fold_length by (intros; apply upd_length).
        unfold l0_insert_at. autorewrite with nthdb. cbn [length]. autorewrite with nthdb. dif; fin.
      * destruct (add_tail_spec jk sq ow q dflt I) as [J1 J2].
        set (q2 := add_tail ow jk sq q dflt) in *.
        assert (C2 : cnt q2 = cnt q + 1) by (rewrite <- (abs_length q2), J2; autorewrite with nthdb; cbn [length]; lia).
        destruct (fold_copy_spec ow (fun k => k) (fun k => k - 1) (rev (seq (i + 1) (cnt q2 - 1 - i))) q2 J1)
          as (K1&K2&K3&K4&K5).
        { intros k Hk. apply in_rev, in_seq in Hk. lia. }
        cbv beta in *.
        set (q3 := fold_left (fun g k => setu g k (getu g (k - 1))) (rev (seq (i + 1) (cnt q2 - 1 - i))) q2) in *.
        split; [apply inv_setu; [assumption|lia]|].
        rewrite (abs_setu ow sq) by (assumption || lia). rewrite K5, J2.
        apply (list_ext _ _ 0%Z).
        { unfold l0_insert_at. rewrite upd_length, fold_length by (intros; apply upd_length).
          autorewrite with nthdb. cbn [length]. autorewrite with nthdb. lia. }
        intros j Hj. rewrite upd_length, fold_length in Hj by (intros; apply upd_length).
        autorewrite with nthdb in Hj. cbn [length] in Hj.
        rewrite nth_upd, shift_up_nth by (autorewrite with nthdb; cbn [length]; lia).
        rewrite fold_length by (intros; apply upd_length).
        unfold l0_insert_at. autorewrite with nthdb. cbn [length]. autorewrite with nthdb. dif; fin.
Qed.

(* ------------------------------------------------------------------ Swap / ReverseItemOrdering *)

Lemma swap_items_spec ow q i j : inv ow sq q -> i < cnt q -> j < cnt q ->
  inv ow sq (swap_items q i j) /\ abs (swap_items q i j) = swap_list (abs q) i j /\
  cnt (swap_items q i j) = cnt q.
Proof.
  intros I Hi Hj. unfold swap_items. cbv zeta.
  assert (I1 : inv ow sq (setu q i (getu q j))) by (apply inv_setu; assumption).
  split; [apply inv_setu; [assumption|rewrite cnt_setu; assumption]|]. split; [|reflexivity].
  rewrite (abs_setu ow sq) by (assumption || (rewrite cnt_setu; assumption)).
  rewrite (abs_setu ow sq) by assumption. unfold swap_list.
  rewrite (getu_abs q i), (getu_abs q j) by assumption. reflexivity.
Qed.

Lemma reverse_loop_spec ow fuel : forall q f t, inv ow sq q -> t < cnt q -> t - f < fuel ->
  let q' := reverse_loop q f t fuel in
  inv ow sq q' /\ cnt q' = cnt q /\
  forall j, j < cnt q ->
    nth j (abs q') 0%Z = if (f <=? j) && (j <=? t) then nth (f + t - j) (abs q) 0%Z else nth j (abs q) 0%Z.
Proof.
  induction fuel as [|fuel IH]; intros q f t I Ht Hf; [lia|]. cbn [reverse_loop].
  destruct (f <? t) eqn:E.
  - destruct (swap_items_spec ow q f t I ltac:(lia) Ht) as (J1&J2&J3).
    destruct (IH (swap_items q f t) (f + 1) (t - 1) J1 ltac:(lia) ltac:(lia)) as (K1&K2&K3).
    split; [assumption|]. split; [lia|].
    intros j Hj. rewrite K3 by lia. rewrite J2, !nth_swap_list by (rewrite abs_length; lia). dif; fin.
  - split; [assumption|]. split; [reflexivity|]. intros j Hj. dif; fin.
Qed.

Lemma reverse_spec ow q from to : inv ow sq q ->
  inv ow sq (reverse q from to) /\ abs (reverse q from to) = l0_reverse (abs q) from to.
Proof.
  intros I. unfold reverse, l0_reverse. rewrite abs_length.
  destruct (from <? to) eqn:E1; [|split; [assumption|reflexivity]]. cbn [andb].
  destruct (cnt q) as [|c] eqn:Ec; [split; [assumption|reflexivity]|].
  replace (0 <? S c) with true by lia. rewrite <- Ec.
  set (t := Nat.min (to - 1) (cnt q - 1)).
  destruct (reverse_loop_spec ow (cnt q) q from t I ltac:(lia) ltac:(lia)) as (J1&J2&J3).
  split; [assumption|].
  destruct (from <? t) eqn:E2.
  - apply (list_ext _ _ 0%Z); autorewrite with nthdb; [lia|].
    intros j Hj. rewrite J2 in Hj. rewrite J3 by lia. autorewrite with nthdb. dif; fin.
  - apply (list_ext _ _ 0%Z); autorewrite with nthdb; [lia|].
    intros j Hj. rewrite J2 in Hj. rewrite J3 by lia. dif; fin.
Qed.

End Ops2.
