(* C09 -- the auto-sorting classes keep their tables sorted: list-level facts about the ideal
   operations (L0), transferred to the code-shaped model through the refinement theorem. *)
From Coq Require Import List Arith ZArith NArith PArith Bool Lia FMapPositive Permutation.
From Muscle Require Import Cont.HtModel Cont.HtStep Cont.HtIdeal Cont.HtLemmas Cont.HtOrdered.
Import ListNotations.

Section S.
Variable var : variant.

(* the component the class sorts by *)
Definition ord (kv : Z * Z) : Z := match var with VVals => snd kv | _ => fst kv end.

Lemma cmp_var_ord : forall a b, cmp_var var a b = Z.compare (ord a) (ord b).
Proof. intros. unfold cmp_var, ord, cmp_val, cmp_key. destruct var; reflexivity. Qed.

Lemma is_lt_ord : forall a b, is_lt (cmpv var a b) = true <-> (ord a < ord b)%Z.
Proof. intros. unfold cmpv. rewrite cmp_var_ord. unfold is_lt. destruct (Z.compare_spec (ord a) (ord b)); split; intros; try lia; try discriminate; reflexivity. Qed.
Lemma is_lt_ord_false : forall a b, is_lt (cmpv var a b) = false <-> (ord b <= ord a)%Z.
Proof. intros. unfold cmpv. rewrite cmp_var_ord. unfold is_lt. destruct (Z.compare_spec (ord a) (ord b)); split; intros; try lia; try discriminate; reflexivity. Qed.
Lemma is_gt_ord : forall a b, is_gt (cmpv var a b) = true <-> (ord b < ord a)%Z.
Proof. intros. unfold cmpv. rewrite cmp_var_ord. unfold is_gt. destruct (Z.compare_spec (ord a) (ord b)); split; intros; try lia; try discriminate; reflexivity. Qed.
Lemma is_gt_ord_false : forall a b, is_gt (cmpv var a b) = false <-> (ord a <= ord b)%Z.
Proof. intros. unfold cmpv. rewrite cmp_var_ord. unfold is_gt. destruct (Z.compare_spec (ord a) (ord b)); split; intros; try lia; try discriminate; reflexivity. Qed.

Fixpoint sorted (l : amap) : Prop :=
  match l with
  | [] => True
  | x :: r => (forall y, In y r -> (ord x <= ord y)%Z) /\ sorted r
  end.

Lemma sorted_app : forall a b, sorted (a ++ b) <-> sorted a /\ sorted b /\ (forall x y, In x a -> In y b -> (ord x <= ord y)%Z).
Proof.
  induction a as [|x a IH]; intros b; cbn [app sorted].
  - split; [intros H; split; [exact I|split; [exact H|intros x y []]]|intros (_ & H & _); exact H].
  - rewrite IH. split.
    + intros (Hx & Ha & Hb & Hab). split; [split; [intros y Hy; apply Hx; apply in_or_app; left; exact Hy|exact Ha]|split; [exact Hb|]].
      intros x0 y [<-|Hx0] Hy; [apply Hx; apply in_or_app; right; exact Hy|apply Hab; assumption].
    + intros ((Hx & Ha) & Hb & Hab). split; [|split; [exact Ha|split; [exact Hb|intros x0 y Hx0 Hy; apply Hab; [right; exact Hx0|exact Hy]]]].
      intros y Hy. apply in_app_or in Hy. destruct Hy as [Hy|Hy]; [apply Hx; exact Hy|apply Hab; [left; reflexivity|exact Hy]].
Qed.

Lemma sorted_cons : forall x r, sorted (x :: r) <-> (forall y, In y r -> (ord x <= ord y)%Z) /\ sorted r.
Proof. reflexivity. Qed.

Lemma sorted_filter : forall f l, sorted l -> sorted (filter f l).
Proof.
  induction l as [|x l IH]; intros H; [exact I|]. cbn [filter]. destruct H as [Hx Hl]. destruct (f x); [|apply IH; exact Hl].
  split; [intros y Hy; apply Hx; apply filter_In in Hy; apply Hy|apply IH; exact Hl].
Qed.

Lemma sorted_a_remove : forall l k, sorted l -> sorted (a_remove l k).
Proof.
  induction l as [|[k' v'] l IH]; intros k H; [exact I|]. cbn [a_remove]. destruct H as [Hx Hl]. destruct (Z.eqb k' k); [exact Hl|].
  split; [|apply IH; exact Hl]. intros y Hy. apply Hx.
  clear - Hy. revert Hy. induction l as [|[k2 v2] l IHl]; intros Hy; [destruct Hy|]. cbn [a_remove] in Hy.
  destruct (Z.eqb k2 k); [right; exact Hy|destruct Hy as [<-|Hy]; [left; reflexivity|right; apply IHl; exact Hy]].
Qed.

(* ------------------------------------------------------------------ the sorted result of a stable sort *)

Lemma ins_sorted_sorted : forall x l, sorted l -> sorted (ins_sorted (cmpv var) x l).
Proof.
  intros x. induction l as [|y r IH]; intros H; [split; [intros y []|exact I]|].
  cbn [ins_sorted]. destruct H as [Hy Hr]. unfold cmpv at 1. rewrite cmp_var_ord.
  destruct (Z.compare_spec (ord x) (ord y)) as [E|E|E].
  - split; [|apply IH; exact Hr]. intros z Hz.
    assert (Hin : In z (x :: r)).
    { clear - Hz. revert Hz. induction r as [|w r IHr]; intros Hz; [destruct Hz as [<-|[]]; left; reflexivity|].
      cbn [ins_sorted] in Hz. destruct (cmpv var x w); try (destruct Hz as [<-|Hz]; [right; left; reflexivity|destruct (IHr Hz) as [<-|H]; [left; reflexivity|right; right; exact H]]).
      destruct Hz as [<-|[<-|Hz]]; [left; reflexivity|right; left; reflexivity|right; right; exact Hz]. }
    destruct Hin as [<-|Hin]; [lia|apply Hy; exact Hin].
  - split; [|split; [exact Hy|exact Hr]]. intros z [<-|Hz]; [lia|]. specialize (Hy z Hz). lia.
  - split; [|apply IH; exact Hr]. intros z Hz.
    assert (Hin : In z (x :: r)).
    { clear - Hz. revert Hz. induction r as [|w r IHr]; intros Hz; [destruct Hz as [<-|[]]; left; reflexivity|].
      cbn [ins_sorted] in Hz. destruct (cmpv var x w); try (destruct Hz as [<-|Hz]; [right; left; reflexivity|destruct (IHr Hz) as [<-|H]; [left; reflexivity|right; right; exact H]]).
      destruct Hz as [<-|[<-|Hz]]; [left; reflexivity|right; left; reflexivity|right; right; exact Hz]. }
    destruct Hin as [<-|Hin]; [lia|apply Hy; exact Hin].
Qed.

Lemma stable_sort_sorted : forall l, sorted (stable_sort (cmpv var) l).
Proof.
  intros l. unfold stable_sort.
  assert (G : forall l acc, sorted acc -> sorted (fold_left (fun acc x => ins_sorted (cmpv var) x acc) l acc)).
  { induction l0 as [|x l0 IH]; intros acc H; [exact H|]. cbn [fold_left]. apply IH. apply ins_sorted_sorted. exact H. }
  apply G. exact I.
Qed.

(* ------------------------------------------------------------------ InsertIterationEntryInOrder *)

Lemma sorted_le_last : forall l z p, sorted l -> head_opt (rev l) = Some z -> In p l -> (ord p <= ord z)%Z.
Proof.
  intros l z p Hs Hz Hp. fold (last_of l) in Hz. destruct (last_of_split _ _ _ Hz) as (a & ->).
  apply sorted_app in Hs. destruct Hs as (_ & _ & Hab). apply in_app_or in Hp. destruct Hp as [Hp|[<-|[]]]; [|lia].
  apply Hab; [exact Hp|left; reflexivity].
Qed.

Lemma pre_le_of_last : forall (f : Z * Z -> bool) kv l, sorted l ->
  (forall y, f y = false -> (ord y <= ord kv)%Z) ->
  forall p, In p (pre_of f l) -> (ord p <= ord kv)%Z.
Proof.
  intros f kv l Hs Hf p Hp.
  assert (Hsp : sorted (pre_of f l)).
  { rewrite <- (pre_suf _ f l) in Hs. apply sorted_app in Hs. apply Hs. }
  destruct (head_opt (rev (pre_of f l))) as [z|] eqn:Ez.
  - pose proof (sorted_le_last _ z p Hsp Ez Hp) as H1. rewrite pre_of_last in Ez. apply drop_while_head in Ez.
    specialize (Hf z Ez). lia.
  - fold (last_of (pre_of f l)) in Ez. apply last_of_none in Ez. rewrite Ez in Hp. destruct Hp.
Qed.

Lemma insert_ordered_sorted : forall l kv, sorted l -> sorted (l0_insert_ordered var l kv).
Proof.
  intros l kv Hs. unfold l0_insert_ordered. destruct l as [|x r]; [split; [intros y []|exact I]|].
  destruct (is_lt (cmpv var kv x)) eqn:Ex.
  - apply is_lt_ord in Ex. split; [|exact Hs]. intros y [<-|Hy]; [lia|]. destruct Hs as [Hx _]. specialize (Hx y Hy). lia.
  - set (f := fun y => is_lt (cmpv var kv y)). fold (suf_of f (x :: r)). rewrite firstn_pre.
    pose proof (pre_suf _ f (x :: r)) as E. rewrite <- E in Hs. apply sorted_app in Hs. destruct Hs as (Hp & Hsf & Hps).
    apply sorted_app. split; [exact Hp|split; [split; [|exact Hsf]|]].
    + intros y Hy. unfold suf_of in Hy. apply in_rev in Hy. apply take_while_all in Hy. apply is_lt_ord in Hy. lia.
    + intros p y Hpin [<-|Hy].
      * apply (pre_le_of_last f kv (x :: r)); [rewrite <- E; apply sorted_app; auto| |exact Hpin].
        intros z Hz. apply is_lt_ord_false in Hz. exact Hz.
      * apply Hps; assumption.
Qed.

Lemma insert_new_sorted : forall l kv, sorted l -> sorted (l0_insert_new var l true kv) \/ var = VPlain.
Proof.
  intros l kv Hs. unfold l0_insert_new. destruct var eqn:E; [right; reflexivity| |]; left; rewrite <- E; apply insert_ordered_sorted; exact Hs.
Qed.

(* ------------------------------------------------------------------ MoveIterationEntryToCorrectPosition *)

Lemma a_index_app_key : forall (pre post : amap) k v i, (forall y, In y pre -> fst y <> k) ->
  a_index (pre ++ (k, v) :: post) k i = Some (i + length pre).
Proof.
  induction pre as [|[k' v'] pre IH]; intros post k v i Hn; cbn [app a_index length].
  - rewrite Z.eqb_refl. f_equal. lia.
  - assert (Hk : k' <> k) by (apply (Hn (k', v')); left; reflexivity). apply Z.eqb_neq in Hk. rewrite Hk.
    rewrite IH by (intros y Hy; apply Hn; right; exact Hy). f_equal. lia.
Qed.

Lemma a_get_app_key : forall (pre post : amap) k v, (forall y, In y pre -> fst y <> k) ->
  a_get (pre ++ (k, v) :: post) k = Some v.
Proof.
  induction pre as [|[k' v'] pre IH]; intros post k v Hn; cbn [app a_get].
  - rewrite Z.eqb_refl. reflexivity.
  - assert (Hk : k' <> k) by (apply (Hn (k', v')); left; reflexivity). apply Z.eqb_neq in Hk. rewrite Hk.
    apply IH. intros y Hy. apply Hn. right; exact Hy.
Qed.

Lemma skipn_take_while : forall A (f : A -> bool) l, skipn (length (take_while f l)) l = drop_while f l.
Proof. induction l as [|x l IH]; [reflexivity|]. cbn. destruct (f x); [exact IH|reflexivity]. Qed.

Lemma sorted_insert_mid : forall a b kv, sorted (a ++ b) ->
  (forall p, In p a -> (ord p <= ord kv)%Z) -> (forall q, In q b -> (ord kv <= ord q)%Z) -> sorted (a ++ kv :: b).
Proof.
  intros a b kv Hs Ha Hb. apply sorted_app in Hs. destruct Hs as (Sa & Sb & Hab).
  apply sorted_app. split; [exact Sa|split; [split; [exact Hb|exact Sb]|]].
  intros p q Hp [<-|Hq]; [apply Ha; exact Hp|apply Hab; assumption].
Qed.

Lemma last_opt_app_cons : forall A (a : list A) x b, last_opt (a ++ x :: b) = match last_opt b with Some z => Some z | None => Some x end.
Proof.
  intros A a x b. unfold last_opt. rewrite rev_app_distr. cbn [rev]. rewrite <- app_assoc.
  destruct (rev b) as [|z zs]; reflexivity.
Qed.

Lemma sorted_head_le : forall x r y, sorted (x :: r) -> In y (x :: r) -> (ord x <= ord y)%Z.
Proof. intros x r y [Hx _] [<-|Hy]; [lia|apply Hx; exact Hy]. Qed.

Lemma reposition_sorted : forall pre post k v, (forall y, In y pre -> fst y <> k) -> sorted (pre ++ post) ->
  sorted (l0_reposition_ordered var (pre ++ (k, v) :: post) k).
Proof.
  intros pre post k v Hn Hs. unfold l0_reposition_ordered.
  rewrite (a_index_app_key pre post k v 0 Hn), (a_get_app_key pre post k v Hn). cbn [Nat.add].
  assert (Ef : firstn (length pre) (pre ++ (k, v) :: post) = pre) by (rewrite firstn_app, firstn_all, Nat.sub_diag; cbn; apply app_nil_r).
  assert (Esk : skipn (S (length pre)) (pre ++ (k, v) :: post) = post).
  { rewrite skipn_app, skipn_all2 by lia. replace (S (length pre) - length pre) with 1 by lia. reflexivity. }
  rewrite Ef, Esk. set (kv := (k, v)).
  pose proof Hs as Hs0. apply sorted_app in Hs0. destruct Hs0 as (Hp & Hq & Hpq).
  (* the forward half *)
  assert (Back : (forall p, In p pre -> (ord p <= ord kv)%Z) ->
     sorted (match post with
             | [] => pre ++ kv :: post
             | y :: _ =>
               if is_gt (cmpv var kv y) then
                 match last_opt (pre ++ kv :: post) with
                 | Some z => if is_gt (cmpv var kv z) then pre ++ post ++ [kv]
                             else pre ++ take_while (fun x => is_gt (cmpv var kv x)) post ++ kv :: skipn (length (take_while (fun x => is_gt (cmpv var kv x)) post)) post
                 | None => pre ++ kv :: post
                 end
               else pre ++ kv :: post
             end)).
  { intros Hle. destruct post as [|y post'].
    - apply sorted_insert_mid; [exact Hs|exact Hle|intros q []].
    - destruct (is_gt (cmpv var kv y)) eqn:Gy.
      + apply is_gt_ord in Gy. rewrite last_opt_app_cons.
        destruct (last_opt (y :: post')) as [z|] eqn:Ez.
        2:{ unfold last_opt in Ez. fold (last_of (y :: post')) in Ez. apply last_of_none in Ez. discriminate. }
        assert (Hzin : In z (y :: post')) by (unfold last_opt in Ez; fold (last_of (y :: post')) in Ez; apply last_of_in; exact Ez).
        assert (Hzmax : forall q, In q (y :: post') -> (ord q <= ord z)%Z) by (intros q Hqin; apply (sorted_le_last (y :: post') z q Hq Ez Hqin)).
        assert (Hprey : forall p, In p pre -> (ord p <= ord y)%Z) by (intros p Hpin; apply Hpq; [exact Hpin|left; reflexivity]).
        destruct (is_gt (cmpv var kv z)) eqn:Gz.
        * apply is_gt_ord in Gz. rewrite app_assoc. apply sorted_insert_mid; [rewrite app_nil_r; exact Hs| |intros q []].
          intros p Hpin. apply in_app_or in Hpin. destruct Hpin as [Hpin|Hpin]; [specialize (Hprey p Hpin); lia|specialize (Hzmax p Hpin); lia].
        * rewrite skipn_take_while. rewrite app_assoc. apply sorted_insert_mid.
          -- rewrite <- app_assoc, take_drop_while. exact Hs.
          -- intros p Hpin. apply in_app_or in Hpin. destruct Hpin as [Hpin|Hpin]; [specialize (Hprey p Hpin); lia|].
             apply take_while_all in Hpin. apply is_gt_ord in Hpin. lia.
          -- intros q Hqin.
             assert (Sd : sorted (drop_while (fun x => is_gt (cmpv var kv x)) (y :: post'))).
             { rewrite <- (take_drop_while _ (fun x => is_gt (cmpv var kv x)) (y :: post')) in Hq. apply sorted_app in Hq. apply Hq. }
             destruct (drop_while (fun x => is_gt (cmpv var kv x)) (y :: post')) as [|r0 rs] eqn:Ed; [destruct Hqin|].
             assert (Hr0 : is_gt (cmpv var kv r0) = false) by (apply (drop_while_head _ (fun x => is_gt (cmpv var kv x)) (y :: post')); rewrite Ed; reflexivity).
             apply is_gt_ord_false in Hr0. pose proof (sorted_head_le r0 rs q Sd Hqin). lia.
      + apply is_gt_ord_false in Gy. apply sorted_insert_mid; [exact Hs|exact Hle|].
        intros q Hqin. pose proof (sorted_head_le y post' q Hq Hqin). lia. }
  destruct (last_opt pre) as [b|] eqn:Eb.
  - assert (Hbin : In b pre) by (unfold last_opt in Eb; fold (last_of pre) in Eb; apply last_of_in; exact Eb).
    assert (Hbmax : forall p, In p pre -> (ord p <= ord b)%Z) by (intros p Hpin; apply (sorted_le_last pre b p Hp Eb Hpin)).
    destruct (is_lt (cmpv var kv b)) eqn:Gb.
    + apply is_lt_ord in Gb. destruct pre as [|x pre']; [destruct Hbin|]. cbn [app].
      assert (Hpost : forall q, In q post -> (ord kv <= ord q)%Z).
      { intros q Hqin. specialize (Hpq b q Hbin Hqin). lia. }
      destruct (is_lt (cmpv var kv x)) eqn:Gx.
      * apply is_lt_ord in Gx. apply (sorted_insert_mid [] ((x :: pre') ++ post) kv); [exact Hs|intros p []|].
        intros q Hqin. apply in_app_or in Hqin. destruct Hqin as [Hqin|Hqin]; [pose proof (sorted_head_le x pre' q Hp Hqin); lia|apply Hpost; exact Hqin].
      * set (f := fun y => is_lt (cmpv var kv y)). fold (suf_of f (x :: pre')). rewrite firstn_pre.
        apply sorted_insert_mid.
        -- rewrite app_assoc, pre_suf. exact Hs.
        -- intros p Hpin. apply (pre_le_of_last f kv (x :: pre') Hp); [|exact Hpin]. intros z Hz. apply is_lt_ord_false in Hz. exact Hz.
        -- intros q Hqin. apply in_app_or in Hqin. destruct Hqin as [Hqin|Hqin]; [|apply Hpost; exact Hqin].
           unfold suf_of in Hqin. apply in_rev in Hqin. apply take_while_all in Hqin. apply is_lt_ord in Hqin. lia.
    + apply is_lt_ord_false in Gb. apply Back. intros p Hpin. specialize (Hbmax p Hpin). lia.
  - unfold last_opt in Eb. fold (last_of pre) in Eb. apply last_of_none in Eb. subst pre. apply Back. intros p [].
Qed.

(* ------------------------------------------------------------------ the ideal operations keep the order *)

Definition inv0 (x : tab0) : Prop := aasort x = true /\ sorted (pairs x).
Definition Inv0 (w0 : world0) : Prop := forall u, u < length w0 -> inv0 (gett0 w0 u).
Definition Keys0 (w0 : world0) : Prop := forall u, u < length w0 -> NoDup (map fst (pairs (gett0 w0 u))).

Lemma len_sett0 : forall (w0 : world0) t x, length (sett0 w0 t x) = length w0.
Proof. intros. unfold sett0. apply upd_nth_length. Qed.

Lemma Inv0_sett0 : forall w0 t x, Inv0 w0 -> inv0 x -> Inv0 (sett0 w0 t x).
Proof.
  intros w0 t x H Hx u Hu. rewrite len_sett0 in Hu. unfold gett0, sett0. destruct (Nat.eq_dec t u) as [->|Htu].
  - rewrite nth_upd_nth_same by exact Hu. exact Hx.
  - rewrite nth_upd_nth_other by exact Htu. apply H. exact Hu.
Qed.

Lemma a_set_split : forall l k old v, a_get l k = Some old ->
  exists pre post, l = pre ++ (k, old) :: post /\ (forall y, In y pre -> fst y <> k) /\ a_set l k v = pre ++ (k, v) :: post.
Proof.
  induction l as [|[k' v'] l IH]; intros k old v H; [discriminate|]. cbn [a_get a_set] in *.
  destruct (Z.eqb k' k) eqn:E.
  - apply Z.eqb_eq in E. subst k'. inversion H; subst v'. exists [], l. split; [reflexivity|split; [intros y []|reflexivity]].
  - destruct (IH k old v H) as (pre & post & -> & Hn & Es). exists ((k', v') :: pre), post.
    split; [reflexivity|split; [|cbn [app]; rewrite Es; reflexivity]].
    intros y [<-|Hy]; [cbn; apply Z.eqb_neq; exact E|apply Hn; exact Hy].
Qed.

Lemma sorted_remove_mid : forall a x b, sorted (a ++ x :: b) -> sorted (a ++ b).
Proof.
  intros a x b H. apply sorted_app in H. destruct H as (Ha & [_ Hb] & Hab). apply sorted_app.
  split; [exact Ha|split; [exact Hb|intros p q Hp Hq; apply Hab; [exact Hp|right; exact Hq]]].
Qed.

Hypothesis Hvar : var <> VPlain.

Lemma l0_ensure_inv : forall dcap x req sh, inv0 x -> inv0 (fst (l0_ensure dcap x req sh)).
Proof.
  intros dcap x req sh [A S]. unfold l0_ensure. destruct (N.eqb _ (acap x)); [split; assumption|].
  destruct (N.eqb _ 0); [split; [exact A|exact I]|]. destruct (N.eqb _ 4294967295); split; assumption.
Qed.

Lemma l0_put_inv : forall dcap x k v, inv0 x -> inv0 (fst (l0_put var dcap x k v)).
Proof.
  intros dcap x0 k v [A0 S0]. unfold l0_put.
  set (x := if N.eqb (acap x0) 0 then mkT0 (pairs x0) dcap (aasort x0) else x0).
  assert (Hx : inv0 x) by (unfold x; destruct (N.eqb (acap x0) 0); split; assumption).
  destruct Hx as [A S]. destruct (a_get (pairs x) k) as [old|] eqn:Eg.
  - destruct (a_set_split (pairs x) k old v Eg) as (pre & post & El & Hn & Es). cbn [fst]. split; [exact A|].
    cbn [pairs with_pairs]. rewrite Es. unfold l0_reposition. rewrite El in S. apply sorted_remove_mid in S.
    assert (R : sorted (l0_reposition_ordered var (pre ++ (k, v) :: post) k)) by (apply reposition_sorted; assumption).
    revert R. generalize (l0_reposition_ordered var (pre ++ (k, v) :: post) k). intros r R.
    destruct var eqn:EV; [contradiction| |]; exact R.
  - cbn [fst].
    set (x1 := if N.eqb (N.of_nat (length (pairs x))) (acap x) then fst (l0_ensure dcap x (acap x * 2) false) else x).
    assert (Hx1 : inv0 x1) by (unfold x1; destruct (N.eqb _ (acap x)); [apply l0_ensure_inv|]; split; assumption).
    destruct Hx1 as [A1 S1]. split; [exact A1|]. cbn [pairs with_pairs]. rewrite A1.
    destruct (insert_new_sorted (pairs x1) (k, v) S1) as [H|H]; [exact H|contradiction].
Qed.

Definition keeps_sorted (o : op) : bool :=
  match o with
  | OPutAtFront _ _ _ | OPutAtBack _ _ _ | OPutBefore _ _ _ _ | OPutBehind _ _ _ _ | OPutAtPos _ _ _ _
  | OMoveFront _ _ | OMoveBack _ _ | OMoveBefore _ _ _ | OMoveBehind _ _ _ | OMovePos _ _ _
  | OGetMoveFront _ _ | OGetMoveBack _ _ | OSortKey _ | OSortVal _ | OSetAutoSort _ _ _ => false
  | _ => true
  end.

Lemma l0_sort_aux_sorted : forall l, sorted (l0_sort_aux var l).
Proof.
  intros l. unfold l0_sort_aux. pose proof (stable_sort_sorted l) as R. revert R. generalize (stable_sort (cmpv var) l). intros r R.
  destruct var; [contradiction| |]; exact R.
Qed.

Lemma l0_copy_from_inv : forall dcap x src cf, inv0 x -> inv0 (fst (l0_copy_from var dcap x src cf)).
Proof.
  intros dcap x src cf [A S]. unfold l0_copy_from.
  set (x1 := if cf then l0_clear dcap x ((length src =? 0) && (dcap <? acap x)%N) else x).
  assert (H1 : inv0 x1) by (unfold x1; destruct cf; [split; [exact A|exact I]|split; assumption]).
  destruct src as [|kv src']; [exact H1|].
  pose proof (l0_ensure_inv dcap x1 (N.of_nat (length (pairs x1) + length (kv :: src'))) false H1) as H2.
  destruct (l0_ensure dcap x1 _ false) as [x2 st]. cbn [fst] in H2. destruct (st =? 0); [|exact H2].
  cbn [fst]. destruct H2 as [A2 S2]. split; [exact A2|]. cbn [pairs with_pairs]. apply l0_sort_aux_sorted.
Qed.

Lemma l0_reposition_sorted_id : forall l k, sorted l -> sorted (l0_reposition var l k).
Proof.
  intros l k S. unfold l0_reposition.
  assert (R : sorted (l0_reposition_ordered var l k)).
  { unfold l0_reposition_ordered. destruct (a_index l k 0) as [i|] eqn:Ei; [|exact S]. destruct (a_get l k) as [v|] eqn:Eg; [|exact S].
    destruct (a_set_split l k v v Eg) as (pre & post & El & Hn & _).
    pose proof (reposition_sorted pre post k v Hn) as R. rewrite El in S. pose proof (sorted_remove_mid _ _ _ S) as S'. specialize (R S').
    unfold l0_reposition_ordered in R. rewrite <- El in R. rewrite Ei, Eg in R. exact R. }
  revert R. generalize (l0_reposition_ordered var l k). intros r R. destruct var; [contradiction| |]; exact R.
Qed.

Lemma last_opt_removelast_sorted : forall l, sorted l -> sorted (removelast l).
Proof.
  intros l S. destruct (last_opt l) as [z|] eqn:E.
  - unfold last_opt in E. fold (last_of l) in E. destruct (last_of_split _ _ _ E) as (a & ->). rewrite removelast_last.
    apply sorted_app in S. apply S.
  - unfold last_opt in E. fold (last_of l) in E. apply last_of_none in E. subst l. exact I.
Qed.

Lemma step0_inv : forall dcap w0 o, Inv0 w0 -> keeps_sorted o = true -> Inv0 (fst (step0 var dcap w0 o)).
Proof.
  intros dcap w0 o H K.
  assert (G : forall t, valid_t0 w0 t = true -> inv0 (gett0 w0 t)) by (intros t V; apply H; apply Nat.ltb_lt; exact V).
  destruct o; try discriminate K; cbn [step0]; try exact H.
  - destruct (valid_t0 w0 t) eqn:V; [|exact H]. rewrite (surjective_pairing (l0_put var dcap (gett0 w0 t) k v)). cbn [fst].
    apply Inv0_sett0; [exact H|apply l0_put_inv; apply G; exact V].
  - destruct (valid_t0 w0 t) eqn:V; [|exact H]. destruct (a_get _ k); [exact H|]. cbn [fst].
    apply Inv0_sett0; [exact H|apply l0_put_inv; apply G; exact V].
  - destruct (valid_t0 w0 t) eqn:V; [|exact H]. destruct (a_get _ k); [exact H|]. cbn [fst].
    apply Inv0_sett0; [exact H|apply l0_put_inv; apply G; exact V].
  - destruct (valid_t0 w0 t) eqn:V; [|exact H]. destruct (a_get _ k); [|exact H]. cbn [fst].
    destruct (G t V) as [A S]. apply Inv0_sett0; [exact H|split; [exact A|apply sorted_a_remove; exact S]].
  - destruct (valid_t0 w0 t) eqn:V; [|exact H]. destruct (G t V) as [A S]. destruct (pairs (gett0 w0 t)) as [|kv r] eqn:E; [exact H|]. cbn [fst].
    apply Inv0_sett0; [exact H|split; [exact A|apply S]].
  - destruct (valid_t0 w0 t) eqn:V; [|exact H]. destruct (G t V) as [A S]. destruct (last_opt (pairs (gett0 w0 t))); [|exact H]. cbn [fst].
    apply Inv0_sett0; [exact H|split; [exact A|apply last_opt_removelast_sorted; exact S]].
  - destruct (valid_t0 w0 t) eqn:V; [|exact H]. destruct (G t V) as [A S]. cbn [fst].
    apply Inv0_sett0; [exact H|split; [exact A|apply l0_sort_aux_sorted]].
  - destruct (valid_t0 w0 t) eqn:V; [|exact H]. destruct (G t V) as [A S]. destruct (a_get _ k); [|exact H]. cbn [fst].
    apply Inv0_sett0; [exact H|split; [exact A|apply l0_reposition_sorted_id; exact S]].
  - destruct (valid_t0 w0 t) eqn:V; [|exact H]. rewrite (surjective_pairing (l0_ensure dcap (gett0 w0 t) n shrink)). cbn [fst].
    apply Inv0_sett0; [exact H|apply l0_ensure_inv; apply G; exact V].
  - destruct (valid_t0 w0 t) eqn:V; [|exact H]. destruct (N.ltb _ _); [exact H|].
    rewrite (surjective_pairing (l0_ensure dcap (gett0 w0 t) _ true)). cbn [fst].
    apply Inv0_sett0; [exact H|apply l0_ensure_inv; apply G; exact V].
  - destruct (valid_t0 w0 t) eqn:V; [|exact H]. destruct (N.ltb _ _); [exact H|].
    rewrite (surjective_pairing (l0_ensure dcap (gett0 w0 t) _ false)). cbn [fst].
    apply Inv0_sett0; [exact H|apply l0_ensure_inv; apply G; exact V].
  - destruct (valid_t0 w0 t) eqn:V; [|exact H]. cbn [fst]. destruct (G t V) as [A S].
    apply Inv0_sett0; [exact H|split; [exact A|exact I]].
  - destruct (valid_t0 w0 t) eqn:V1; [|exact H]. destruct (valid_t0 w0 u) eqn:V2; [|exact H]. cbn [andb].
    destruct (t =? u); [exact H|]. rewrite (surjective_pairing (l0_copy_from var dcap (gett0 w0 t) _ clearfirst)). cbn [fst].
    apply Inv0_sett0; [exact H|apply l0_copy_from_inv; apply G; exact V1].
  - destruct (valid_t0 w0 t) eqn:V1; [|exact H]. destruct (valid_t0 w0 u) eqn:V2; [|exact H]. cbn [andb].
    destruct (t =? u); [exact H|]. rewrite (surjective_pairing (l0_copy_from var dcap (mkT0 [] (acap (gett0 w0 u)) true) _ true)). cbn [fst].
    apply Inv0_sett0; [exact H|apply l0_copy_from_inv; split; [reflexivity|exact I]].
  - destruct (valid_t0 w0 t) eqn:V1; [|exact H]. destruct (valid_t0 w0 u) eqn:V2; [|exact H]. cbn [andb].
    destruct (t =? u); [exact H|]. cbn [fst]. destruct (G t V1) as [A1 S1]. destruct (G u V2) as [A2 S2].
    apply Inv0_sett0; [apply Inv0_sett0; [exact H|split; [exact A1|exact S2]]|split; [exact A2|exact S1]].
  - destruct (valid_t0 w0 t && valid_t0 w0 u); exact H.
  - destruct (valid_t0 w0 t) eqn:V1; [|exact H]. destruct (valid_t0 w0 u) eqn:V2; [|exact H]. cbn [andb].
    destruct (a_get _ k); [|exact H]. destruct (t =? u); [exact H|]. cbn [fst]. destruct (G t V1) as [A1 S1].
    apply Inv0_sett0; [apply Inv0_sett0; [exact H|apply l0_put_inv; apply G; exact V2]|split; [exact A1|apply sorted_a_remove; exact S1]].
  - destruct (valid_t0 w0 t) eqn:V1; [|exact H]. destruct (valid_t0 w0 u) eqn:V2; [|exact H]. cbn [andb].
    destruct (a_get _ k); [|exact H]. destruct (t =? u); [exact H|]. cbn [fst].
    apply Inv0_sett0; [exact H|apply l0_put_inv; apply G; exact V2].
  - destruct (valid_t0 w0 t) eqn:V1; [|exact H]. destruct (valid_t0 w0 u) eqn:V2; [|exact H]. cbn [andb].
    destruct (G t V1) as [A1 S1]. destruct (t =? u); cbn [fst].
    + apply Inv0_sett0; [exact H|split; [exact A1|exact I]].
    + apply Inv0_sett0; [exact H|split; [exact A1|apply sorted_filter; exact S1]].
  - destruct (valid_t0 w0 t) eqn:V1; [|exact H]. destruct (valid_t0 w0 u) eqn:V2; [|exact H]. cbn [andb].
    destruct (t =? u); [exact H|]. cbn [fst]. destruct (G t V1) as [A1 S1].
    apply Inv0_sett0; [exact H|split; [exact A1|apply sorted_filter; exact S1]].
  - destruct (valid_t0 w0 t) eqn:V; [|exact H]. cbn [fst]. apply Inv0_sett0; [exact H|split; [reflexivity|exact I]].
  - destruct (valid_t0 w0 t) eqn:V1; [|exact H]. destruct (valid_t0 w0 u) eqn:V2; [|exact H]. cbn [andb].
    destruct (t =? u); [exact H|]. cbn [fst]. destruct (G u V2) as [A2 S2].
    apply Inv0_sett0; [apply Inv0_sett0; [exact H|split; [reflexivity|exact S2]]|split; [exact A2|exact I]].
  - destruct (valid_t0 w0 t) eqn:V; [|exact H]. cbn [fst].
    apply Inv0_sett0; [exact H|apply l0_ensure_inv; split; [reflexivity|exact I]].
Qed.

End S.
