(* C16 -- operations involving a second Queue (or the Queue itself as argument): SwapContents,
   SwapContentsAux, Plunder (move), operator=, operator==, StartsWith/EndsWith, the Queue forms of
   AddTailMulti/AddHeadMulti/InsertItemsAt; refinement of the two-queue model, lifted to all
   operation lists; the un-repaired self-AddHeadMulti refuted. *)
From Coq Require Import List Arith ZArith Bool Lia ZifyBool.
From Muscle Require Import Cont.QueueModel Cont.QueueLemmas Cont.QueueInv Cont.QueueOps1 Cont.QueueEnsure
  Cont.QueueOps2 Cont.QueueOps3 Cont.QueueSort Cont.QueueProofs.
Import ListNotations.
Local Open Scope nat_scope.

(* ------------------------------------------------------------------ pure list facts *)

Lemma zlist_eqb_spec a : forall b, zlist_eqb a b = true <-> a = b.
Proof.
  induction a as [|x a IH]; intros [|y b]; cbn [zlist_eqb]; try (split; [discriminate|discriminate]);
    [split; reflexivity|].
  rewrite andb_true_iff, IH, Z.eqb_eq. split; [intros [-> ->]; reflexivity|intros H; injection H; auto].
Qed.

Lemma bool_eq_iff (x y : bool) : (x = true <-> y = true) -> x = y.
Proof. destruct x, y; intros [H1 H2]; auto; try (symmetry; auto). Qed.

Lemma slice_length l start num : length (slice l start num) = Nat.min num (length l - start).
Proof. unfold slice. autorewrite with nthdb. reflexivity. Qed.

Section Two.
Variables (jk : Z) (sq : nat).
Implicit Types (ow : bool) (q a b t r : q1).

(* ------------------------------------------------------------------ moving into the in-object array *)

Lemma inv_into_inline ow (items inl0 : list Z) : 0 < sq -> length items <= sq -> length inl0 = sq ->
  (ow = true -> forall i, i < sq -> nth i inl0 dflt = dflt) ->
  let c := length items in
  let q' := mkQ SSmall (items ++ skipn c inl0) c 0 (c - 1) [] in
  inv ow sq q' /\ abs q' = items.
Proof.
  intros Hsq Hc Hl Hd c q'.
  assert (Hlen : length (items ++ skipn c inl0) = sq) by (autorewrite with nthdb; lia).
  split.
  - constructor; unfold store_ok, clean, inl_ok, qsize; cbn [st arr cnt head tail inl q']; rewrite ?Hlen.
    + exact Hsq.
    + lia.
    + lia.
    + intros _. rewrite intern_head0; [reflexivity|reflexivity|]. unfold qsize. cbn [arr q']. lia.
    + reflexivity.
    + intros Ho i Hi. rewrite getu_head0; [|reflexivity|unfold qsize; cbn [arr q']; lia].
      cbn [arr q']. rewrite nth_app', nth_skipn'. dif; [lia|]. apply (Hd Ho). lia.
    + intros H. congruence.
  - apply abs_ext; cbn [cnt q']; [reflexivity|].
    intros i Hi. rewrite getu_head0; [|reflexivity|unfold qsize; cbn [arr q']; lia].
    cbn [arr q']. rewrite nth_app'. dif; fin.
Qed.

(* adopting another queue's array, keeping one's own in-object array *)
Lemma inv_transplant ow b inl0 : inv ow sq b ->
  (st b <> SSmall -> length inl0 = sq /\ (ow = true -> forall i, i < sq -> nth i inl0 dflt = dflt)) ->
  let q' := mkQ (st b) (arr b) (cnt b) (head b) (tail b) inl0 in
  inv ow sq q' /\ abs q' = abs b.
Proof.
  intros I H q'. split; [|reflexivity].
  constructor; unfold store_ok, clean, inl_ok; cbn [st cnt head tail inl q'];
    change (qsize q') with (qsize b).
  - exact (inv_sq _ _ b I).
  - exact (inv_cnt _ _ b I).
  - exact (inv_head _ _ b I).
  - exact (inv_tail _ _ b I).
  - exact (inv_store _ _ b I).
  - exact (inv_clean _ _ b I).
  - exact H.
Qed.

(* ------------------------------------------------------------------ SwapContentsAux / SwapContents *)

Lemma swap_contents_aux_spec ow sm lg : inv ow sq sm -> inv ow sq lg -> st sm = SSmall -> st lg <> SSmall ->
  let p := swap_contents_aux ow sm lg in
  inv ow sq (fst p) /\ inv ow sq (snd p) /\ abs (fst p) = abs lg /\ abs (snd p) = abs sm.
Proof.
  intros Is Il Hs Hl p. subst p. unfold swap_contents_aux. cbv zeta. cbn [fst snd].
  pose proof (inv_sq _ _ sm Is) as Hsq.
  pose proof (inv_store _ _ sm Is) as Sm. unfold store_ok in Sm. rewrite Hs in Sm.
  pose proof (inv_cnt _ _ sm Is) as Cm.
  split; [|split; [|split]].
  - (* this adopts the large array *)
    constructor; unfold store_ok, clean, inl_ok; cbn [st cnt head tail inl];
      match goal with |- context [qsize (mkQ ?s ?a ?c ?h ?t ?i)] => change (qsize (mkQ s a c h t i)) with (qsize lg) | _ => idtac end.
    + exact Hsq.
    + exact (inv_cnt _ _ lg Il).
    + intros H. replace (0 <? qsize lg) with true by lia. exact (inv_head _ _ lg Il H).
    + intros H. pose proof (inv_cnt _ _ lg Il). replace (0 <? qsize lg) with true by lia.
      rewrite (inv_tail _ _ lg Il H). reflexivity.
    + exact (inv_store _ _ lg Il).
    + intros Ho i Hi. replace (0 <? qsize lg) with true by lia.
      transitivity (getu lg i); [reflexivity|]. apply (inv_clean _ _ lg Il Ho). exact Hi.
    + intros _. destruct (cleared_ok sq ow sm Is ltac:(lia)) as (J1&J2&J3&J4&J5). destruct ow.
      * split; [unfold qsize in J3, Sm; congruence|]. intros _ i Hi.
        assert (Hh : head (clear_window sm (cnt sm)) < qsize (clear_window sm (cnt sm)))
          by (apply (inv_head _ _ _ J1); lia).
        rewrite nth_arr_getu by lia. apply (J5 eq_refl). apply intern_extern; lia.
      * split; [exact Sm|discriminate].
  - (* the large one moves into its in-object array, or loses its array *)
    destruct (0 <? cnt sm) eqn:E.
    + destruct (inv_inl _ _ lg Il Hl) as [L1 L2].
      pose proof (inv_into_inline ow (abs sm) (inl lg) Hsq ltac:(rewrite abs_length; lia) L1 L2) as [K1 K2].
      rewrite abs_length in K1. exact K1.
    + constructor; unfold store_ok, clean, inl_ok, qsize; cbn [st arr cnt head tail inl length]; try lia.
      intros _. exact (inv_inl _ _ lg Il Hl).
  - apply abs_congr; [reflexivity|]. intros i Hi. pose proof (inv_cnt _ _ lg Il).
    unfold getu, intern, qsize. cbn [arr head]. unfold qsize in *. replace (0 <? length (arr lg)) with true by lia.
    reflexivity.
  - destruct (0 <? cnt sm) eqn:E.
    + destruct (inv_inl _ _ lg Il Hl) as [L1 L2].
      pose proof (inv_into_inline ow (abs sm) (inl lg) Hsq ltac:(rewrite abs_length; lia) L1 L2) as [K1 K2].
      rewrite abs_length in K2. exact K2.
    + rewrite (abs_cnt0 sm) by lia. reflexivity.
Qed.

Lemma swap_small_small ow a b : inv ow sq a -> inv ow sq b -> cnt b <= cnt a ->
  let common := cnt b in
  let a1 := ensure_size ow jk sq a common true 0 false in
  let b1 := add_tail_multi ow jk sq b (skipn common (abs a)) in
  let a2 := write_from a1 0 (firstn common (abs b1)) in
  let b2 := write_from b1 0 (firstn common (abs a1)) in
  inv ow sq a2 /\ inv ow sq b2 /\ abs a2 = abs b /\ abs b2 = abs a.
Proof.
  intros Ia Ib Hc common a1 b1 a2 b2.
  destruct (ensure_size_spec jk sq ow a common true 0 false Ia) as (I1 & A1 & _). fold a1 in I1, A1.
  rewrite l0_resize_shrink in A1 by (rewrite abs_length; exact Hc).
  destruct (add_tail_multi_spec jk sq ow b (skipn common (abs a)) Ib) as (I2 & A2). fold b1 in I2, A2.
  assert (C1 : cnt a1 = common) by (rewrite <- (abs_length a1), A1; autorewrite with nthdb; lia).
  assert (C2 : cnt b1 = cnt a) by (rewrite <- (abs_length b1), A2; autorewrite with nthdb; subst common; lia).
  assert (L1 : length (firstn common (abs b1)) = common) by (autorewrite with nthdb; lia).
  assert (L2 : length (firstn common (abs a1)) = common) by (autorewrite with nthdb; lia).
  destruct (write_from_spec sq ow (firstn common (abs b1)) a1 0 I1 ltac:(lia)) as (J1&_).
  destruct (write_from_spec sq ow (firstn common (abs a1)) b1 0 I2 ltac:(lia)) as (J2&_).
  split; [exact J1|]. split; [exact J2|]. split.
  - unfold a2. rewrite (write_from_abs sq ow) by (assumption || lia). rewrite L1, A1, A2.
    apply (list_ext _ _ 0%Z); autorewrite with nthdb; subst common; [lia|].
    intros i Hi. autorewrite with nthdb absdb. dif; fin.
  - unfold b2. rewrite (write_from_abs sq ow) by (assumption || lia). rewrite L2, A1, A2.
    apply (list_ext _ _ 0%Z); autorewrite with nthdb; subst common; [lia|].
    intros i Hi. autorewrite with nthdb absdb. dif; fin.
Qed.

Lemma swap_contents_spec ow a b : inv ow sq a -> inv ow sq b ->
  let p := swap_contents ow jk sq a b in
  inv ow sq (fst p) /\ inv ow sq (snd p) /\ abs (fst p) = abs b /\ abs (snd p) = abs a.
Proof.
  intros Ia Ib p. subst p. unfold swap_contents.
  destruct (st a) eqn:Ea; destruct (st b) eqn:Eb;
    try (apply swap_contents_aux_spec; (assumption || congruence));
    try (destruct (swap_contents_aux ow b a) as [b' a'] eqn:E;
         pose proof (swap_contents_aux_spec ow b a Ib Ia ltac:(assumption) ltac:(congruence)) as S;
         cbv zeta in S; rewrite E in S; cbn [fst snd] in *; tauto);
    try (cbn [fst snd];
         destruct (inv_transplant ow b (inl a) Ib) as [J1 J2]; [intros _; apply (inv_inl _ _ a Ia); congruence|];
         destruct (inv_transplant ow a (inl b) Ia) as [K1 K2]; [intros _; apply (inv_inl _ _ b Ib); congruence|];
         cbv zeta in J1, J2, K1, K2; rewrite Eb in J1, J2; rewrite Ea in K1, K2; tauto).
  (* both in their in-object arrays *)
  destruct (cnt b <? cnt a) eqn:E.
  - replace (Nat.min (cnt a) (cnt b)) with (cnt b) by lia. cbn [fst snd].
    apply (swap_small_small ow a b Ia Ib). lia.
  - replace (Nat.min (cnt a) (cnt b)) with (cnt a) by lia. cbn [fst snd].
    pose proof (swap_small_small ow b a Ib Ia ltac:(lia)) as S. cbv zeta in S. tauto.
Qed.

(* ------------------------------------------------------------------ Plunder, operator= *)

Lemma plunder_spec ow t r : inv ow sq t -> inv ow sq r ->
  let p := plunder ow jk sq t r in
  inv ow sq (fst p) /\ inv ow sq (snd p) /\ abs (fst p) = abs r /\ abs (snd p) = [].
Proof.
  intros It Ir p. subst p. unfold plunder.
  assert (G : forall t' r', inv ow sq t' -> inv ow sq r' -> abs t' = abs r ->
              inv ow sq (fst (t', clear ow r' false)) /\ inv ow sq (snd (t', clear ow r' false)) /\
              abs (fst (t', clear ow r' false)) = abs r /\ abs (snd (t', clear ow r' false)) = []).
  { intros t' r' I1 I2 A. cbn [fst snd]. destruct (clear_shape sq ow r' false I2) as (J1&J2&_).
    rewrite (abs_cnt0 _ J2). tauto. }
  destruct (st r) eqn:Er.
  - destruct (swap_contents ow jk sq t r) as [t' r'] eqn:E.
    pose proof (swap_contents_spec ow t r It Ir) as S. cbv zeta in S. rewrite E in S. cbn [fst snd] in S.
    apply G; tauto.
  - destruct (ensure_size_spec jk sq ow t (cnt r) true 0 false It) as (I1 & A1 & _).
    set (t1 := ensure_size ow jk sq t (cnt r) true 0 false) in *.
    assert (C1 : cnt t1 = cnt r) by (rewrite <- (abs_length t1), A1; apply l0_resize_length).
    destruct (write_from_spec sq ow (abs r) t1 0 I1 ltac:(rewrite abs_length; lia)) as (J1&_).
    destruct (write_from_spec sq ow (abs t1) r 0 Ir ltac:(rewrite abs_length; lia)) as (J2&_).
    apply G; [assumption|assumption|].
    rewrite (write_from_abs sq ow) by (assumption || (rewrite abs_length; lia)).
    cbn [firstn app Nat.add]. rewrite skipn_all2 by (rewrite !abs_length; lia). apply app_nil_r.
  - destruct (swap_contents ow jk sq t r) as [t' r'] eqn:E.
    pose proof (swap_contents_spec ow t r It Ir) as S. cbv zeta in S. rewrite E in S. cbn [fst snd] in S.
    apply G; tauto.
Qed.

Lemma assign_spec ow t r : inv ow sq t -> inv ow sq (assign ow jk sq t r) /\ abs (assign ow jk sq t r) = abs r.
Proof.
  intros It. unfold assign. destruct (cnt r =? 0) eqn:E.
  - destruct (clear_shape sq ow t true It) as (J1&J2&_). split; [assumption|].
    rewrite (abs_cnt0 _ J2), (abs_cnt0 r) by lia. reflexivity.
  - apply copy_from_spec. assumption.
Qed.

(* ------------------------------------------------------------------ queries on two queues *)

Lemma eq_loop_spec a b k : eq_loop a b k = true <-> forall i, i < k -> getu a i = getu b i.
Proof.
  induction k as [|k IH]; cbn [eq_loop].
  - split; [intros _ i Hi; lia|reflexivity].
  - destruct (Z.eqb (getu a k) (getu b k)) eqn:E.
    + rewrite IH. apply Z.eqb_eq in E. split.
      * intros H i Hi. destruct (Nat.eq_dec i k) as [->|]; [assumption|apply H; lia].
      * intros H i Hi. apply H. lia.
    + split; [discriminate|]. intros H. apply Z.eqb_neq in E. exfalso. apply E. apply H. lia.
Qed.

Lemma abs_eq_iff a b : abs a = abs b <-> cnt a = cnt b /\ forall i, i < cnt a -> getu a i = getu b i.
Proof.
  split.
  - intros H. assert (C : cnt a = cnt b) by (rewrite <- (abs_length a), H; apply abs_length).
    split; [exact C|]. intros i Hi. rewrite <- (nth_abs a i 0%Z), H by exact Hi. apply nth_abs. lia.
  - intros [C H]. apply abs_congr; [lia|]. intros i Hi. apply H. lia.
Qed.

Lemma queues_eq_spec a b : queues_eq a b = zlist_eqb (abs a) (abs b).
Proof.
  apply bool_eq_iff. rewrite zlist_eqb_spec, abs_eq_iff. unfold queues_eq.
  destruct (cnt a =? cnt b) eqn:E.
  - rewrite eq_loop_spec. split; [intros H; split; [lia|exact H]|tauto].
  - split; [discriminate|]. intros [H _]. lia.
Qed.

Lemma starts_with_spec t r :
  starts_with t r = (length (abs r) <=? length (abs t)) && zlist_eqb (firstn (length (abs r)) (abs t)) (abs r).
Proof.
  rewrite !abs_length. unfold starts_with. destruct (cnt t <? cnt r) eqn:E.
  - replace (cnt r <=? cnt t) with false by lia. reflexivity.
  - replace (cnt r <=? cnt t) with true by lia. cbn [andb]. apply bool_eq_iff.
    rewrite forallb_forall, zlist_eqb_spec. split.
    + intros H. apply (list_ext _ _ 0%Z); autorewrite with nthdb; [lia|].
      intros i Hi. autorewrite with nthdb absdb.
      replace (i <? cnt r) with true by lia. replace (i <? cnt t) with true by lia.
      assert (Hin : In i (seq 0 (cnt r))) by (apply in_seq; lia).
      specialize (H i Hin). apply Z.eqb_eq in H. congruence.
    + intros H i Hi. apply in_seq in Hi. apply Z.eqb_eq.
      rewrite <- (nth_abs r i 0%Z), <- H by lia. autorewrite with nthdb absdb.
      replace (i <? cnt r) with true by lia. replace (i <? cnt t) with true by lia. reflexivity.
Qed.

Lemma ends_with_spec t r :
  ends_with t r = (length (abs r) <=? length (abs t)) &&
                  zlist_eqb (skipn (length (abs t) - length (abs r)) (abs t)) (abs r).
Proof.
  rewrite !abs_length. unfold ends_with. destruct (cnt t <? cnt r) eqn:E.
  - replace (cnt r <=? cnt t) with false by lia. reflexivity.
  - replace (cnt r <=? cnt t) with true by lia. cbn [andb]. cbv zeta. apply bool_eq_iff.
    rewrite forallb_forall, zlist_eqb_spec. split.
    + intros H. apply (list_ext _ _ 0%Z); autorewrite with nthdb; [lia|].
      intros i Hi. autorewrite with nthdb in Hi. autorewrite with nthdb absdb.
      replace (i <? cnt r) with true by lia. replace (cnt t - cnt r + i <? cnt t) with true by lia.
      assert (Hin : In i (seq 0 (cnt r))) by (apply in_seq; lia).
      specialize (H i Hin). apply Z.eqb_eq in H. rewrite H. f_equal. lia.
    + intros H i Hi. apply in_seq in Hi. apply Z.eqb_eq.
      rewrite <- (nth_abs r i 0%Z), <- H by lia. autorewrite with nthdb absdb.
      replace (cnt t - cnt r + i <? cnt t) with true by lia. f_equal. lia.
Qed.

(* ------------------------------------------------------------------ Queue forms of the multi-item insertions *)

Lemma insert_items_at_q_spec ow t src idx start num : inv ow sq t ->
  inv ow sq (insert_items_at_q ow jk sq t src idx start num) /\
  abs (insert_items_at_q ow jk sq t src idx start num) =
  l0_insert_at (abs t) (Nat.min idx (cnt t)) (slice src start num).
Proof.
  intros I. unfold insert_items_at_q. cbv zeta.
  set (xs := slice src start num). set (i := Nat.min idx (cnt t)).
  destruct xs as [|x xs'] eqn:Ex.
  - split; [assumption|]. unfold l0_insert_at. cbn [app]. rewrite firstn_skipn. reflexivity.
  - rewrite <- Ex. clear Ex. destruct (i =? 0) eqn:E0.
    + destruct (add_head_multi_spec jk sq ow t xs I) as [J1 J2]. split; [assumption|].
      rewrite J2. replace i with 0 by lia. reflexivity.
    + destruct (i =? cnt t) eqn:E1.
      * destruct (add_tail_multi_spec jk sq ow t xs I) as [J1 J2]. split; [assumption|].
        rewrite J2. replace i with (cnt t) by lia. unfold l0_insert_at.
        rewrite firstn_abs_all, skipn_all2, app_nil_r by (rewrite ?abs_length; lia). reflexivity.
      * apply insert_items_general_spec; [assumption|subst i; lia].
Qed.

(* ------------------------------------------------------------------ one two-queue operation *)

Definition inv2 ow (p : q1 * q1) : Prop := inv ow sq (fst p) /\ inv ow sq (snd p).
Definition abs2 (p : q1 * q1) : list Z * list Z := (abs (fst p), abs (snd p)).

Lemma sel_abs2 bb p : abs2 (sel bb p) = sel bb (abs2 p).
Proof. destruct bb, p; reflexivity. Qed.

Lemma sel_inv2 ow bb p : inv2 ow p -> inv2 ow (sel bb p).
Proof. destruct bb, p; unfold inv2; cbn; tauto. Qed.

Theorem step2_refines ow p o : inv2 ow p ->
  inv2 ow (fst (step2 ow jk sq p o)) /\
  abs2 (fst (step2 ow jk sq p o)) = fst (step20 (abs2 p) o) /\
  snd (step2 ow jk sq p o) = snd (step20 (abs2 p) o).
Proof.
  intros I. unfold step2, step20. cbv zeta.
  set (bb := op2_this o).
  pose proof (sel_inv2 ow bb p I) as Is. pose proof (sel_abs2 bb p) as As.
  destruct (sel bb p) as [t r]. unfold inv2 in Is. cbn [fst snd] in Is. destruct Is as [It Ir].
  rewrite <- As. change (abs2 (t, r)) with (abs t, abs r). cbv beta iota.
  (* every case ends with: the new pair is [sel bb (t', r')], both invariants hold, abstractions match *)
  assert (F : forall t' r' lt lr (x y : out), inv ow sq t' -> inv ow sq r' -> abs t' = lt -> abs r' = lr -> x = y ->
              inv2 ow (fst (sel bb (t', r'), x)) /\
              abs2 (fst (sel bb (t', r'), x)) = fst (sel bb (lt, lr), y) /\ snd (sel bb (t', r'), x) = snd (sel bb (lt, lr), y)).
  { intros t' r' lt lr x y H1 H2 H3 H4 H5. cbn [fst snd]. split; [apply sel_inv2; split; assumption|].
    split; [rewrite sel_abs2; unfold abs2; cbn [fst snd]; congruence|assumption]. }
  destruct o; cbn [op2_this] in *.
  - (* a single-queue operation on [this] *)
    destruct (step_refines ow jk sq t o It) as (J1&J2&J3).
    destruct (step1 ow jk sq t o) as [t' res]. destruct (step0 (abs t) o) as [lt res0]. cbn [fst snd] in *.
    apply F; auto.
  - (* SwapContents *)
    pose proof (swap_contents_spec ow t r It Ir) as S. cbv zeta in S.
    destruct (swap_contents ow jk sq t r) as [t' r']. cbn [fst snd] in S. apply F; tauto.
  - (* Plunder *)
    pose proof (plunder_spec ow t r It Ir) as S. cbv zeta in S.
    destruct (plunder ow jk sq t r) as [t' r']. cbn [fst snd] in S. apply F; tauto.
  - (* CopyFrom(queue) *)
    destruct (copy_from_spec jk sq ow t (abs r) It). apply F; auto.
  - (* operator= *)
    destruct (assign_spec ow t r It). apply F; auto.
  - (* operator== *)
    cbn [fst snd]. split; [exact I|]. split; [reflexivity|]. rewrite queues_eq_spec. reflexivity.
  - (* StartsWith *)
    cbn [fst snd]. split; [exact I|]. split; [reflexivity|]. rewrite starts_with_spec. reflexivity.
  - (* EndsWith *)
    cbn [fst snd]. split; [exact I|]. split; [reflexivity|]. rewrite ends_with_spec. reflexivity.
  - (* AddTailMulti(queue, start, num) *)
    unfold add_tail_multi_q.
    destruct (add_tail_multi_spec jk sq ow t (slice (if self then abs t else abs r) start num) It) as [J1 J2].
    apply F; auto.
  - (* AddHeadMulti(queue, start, num) *)
    unfold add_head_multi_q.
    destruct (add_head_multi_spec jk sq ow t (slice (if self then abs t else abs r) start num) It) as [J1 J2].
    apply F; auto.
  - (* InsertItemsAt(index, queue, start, num) *)
    destruct (insert_items_at_q_spec ow t (if self then abs t else abs r) idx start num It) as [J1 J2].
    apply F; auto. rewrite J2, abs_length. reflexivity.
  - (* lexicographic comparison *)
    cbn [fst snd]. split; [exact I|]. split; [reflexivity|]. rewrite lex_cmp_abs. reflexivity.
Qed.

(* ------------------------------------------------------------------ all two-queue operation lists *)

Lemma run2_gen ow ops : forall p l outs, inv2 ow p -> abs2 p = l ->
  let r1 := fold_left (fun '(p, outs) o => let '(p', r) := step2 ow jk sq p o in (p', outs ++ [r])) ops (p, outs) in
  let r0 := fold_left (fun '(l, outs) o => let '(l', r) := step20 l o in (l', outs ++ [r])) ops (l, outs) in
  inv2 ow (fst r1) /\ abs2 (fst r1) = fst r0 /\ snd r1 = snd r0.
Proof.
  induction ops as [|o ops IH]; intros p l outs I A; cbn [fold_left].
  - cbn [fst snd]. auto.
  - destruct (step2_refines ow p o I) as (J1&J2&J3). rewrite A in J2, J3.
    destruct (step2 ow jk sq p o) as [p' r]. destruct (step20 l o) as [l' r']. cbn [fst snd] in *. subst r'.
    apply IH; assumption.
Qed.

Theorem run2_refines ow ops : 0 < sq ->
  inv2 ow (fst (run2 ow jk sq ops)) /\
  abs2 (fst (run2 ow jk sq ops)) = fst (run20 ops) /\
  snd (run2 ow jk sq ops) = snd (run20 ops).
Proof.
  intros Hsq. unfold run2, run20. apply run2_gen; [split; apply inv_empty; exact Hsq|reflexivity].
Qed.

End Two.

(* ------------------------------------------------------------------ the un-repaired self-AddHeadMulti *)

(* Finding F36: before the repair a.AddHeadMulti(a, 0, n) with enough unused slots ran the AddHead loop
   on the queue it was reading from.  The faithful model of that loop violates the ideal semantics
   (the result even depends on the capacity): {1,2,3} in 10 slots becomes 1 1 3 1 2 3. *)
Theorem add_head_multi_self_old_refuted : exists q start num,
  inv false 3 q /\
  abs (add_head_multi_self_old false 0%Z 3 q start num) <> slice (abs q) start num ++ abs q /\
  abs (add_head_multi_q false 0%Z 3 q (abs q) start num) = slice (abs q) start num ++ abs q.
Proof.
  exists (fst (run1 false 0%Z 3 [OEnsure 10%N false 0%N false; OAddTail 1%Z; OAddTail 2%Z; OAddTail 3%Z])), 0, 3.
  split; [apply run_refines; lia|]. split; [vm_compute; discriminate|vm_compute; reflexivity].
Qed.

(* Finding F35: before the repair SwapContentsAux left the moved-out items in the vacated in-object array, so the
   representation invariant (unused in-object array all default for owning items) was lost -- which a later
   shrink into that array followed by EnsureSize(n, true) turned into visible stale items. *)
Theorem swap_contents_aux_old_refuted : exists sm lg,
  inv true 3 sm /\ inv true 3 lg /\ st sm = SSmall /\ st lg <> SSmall /\
  ~ inv true 3 (fst (swap_contents_aux_old sm lg)) /\
  inv true 3 (fst (swap_contents_aux true sm lg)).
Proof.
  exists (fst (run1 true 0%Z 3 [OAddTail 5%Z])), (empty_q true 0%Z 3).
  assert (I1 : inv true 3 (fst (run1 true 0%Z 3 [OAddTail 5%Z]))) by (apply run_refines; lia).
  assert (I2 : inv true 3 (empty_q true 0%Z 3)) by (apply inv_empty; lia).
  split; [exact I1|]. split; [exact I2|]. split; [reflexivity|]. split; [discriminate|]. split.
  - intros I. destruct (inv_inl _ _ _ I) as [_ H]; [discriminate|].
    specialize (H eq_refl 0 ltac:(lia)). vm_compute in H. discriminate.
  - apply (swap_contents_aux_spec 3 true _ _ I1 I2); [reflexivity|discriminate].
Qed.

(* non-vacuity of [inv2]: a reachable pair with one queue on the heap and one in its in-object array *)
Example two_state : exists p,
  inv2 3 true p /\ st (fst p) = SHeap /\ st (snd p) = SSmall /\ abs2 p = ([1; 2; 3; 4; 5]%Z, [7; 8]%Z).
Proof.
  set (ops := [OOn false (OAddTailMulti [7; 8]%Z); OOn true (OAddTailMulti [1; 2; 3; 4; 5]%Z); OSwapContents false]).
  exists (fst (run2 true 0%Z 3 ops)). split; [apply run2_refines; lia|]. vm_compute. auto.
Qed.
