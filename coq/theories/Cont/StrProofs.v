(* C17 -- the theorems of the property, over all operation lists, and the refuted statements for the tree as pinned. *)
From Coq Require Import List NArith ZArith Bool Lia.
From Muscle Require Import Gen.Consts Cont.StrL0 Cont.StrModel Cont.StrSpec Cont.StrLemmas Cont.StrGrow Cont.StrCore Cont.StrOps Cont.StrL0Facts Cont.StrOps2 Cont.StrProd Cont.StrRefine Cont.StrNulfree.
Import ListNotations.
Local Open Scope N_scope.

(* ------------------------------------------------------------------ the translated constants *)

(* the translated constants have the relations the model and its proofs rely on; a changed constant re-checks this *)
Lemma consts_ok :
  c_STRING_SIZEOF = c_STRING_MAX_SHORT_LENGTH + 1 /\ 1 <= c_STRING_MAX_SHORT_LENGTH < 128 /\
  c_MUSCLE_NO_LIMIT = NOLIMIT /\ c_STRING_MAX_LENGTH = 2147483646 /\
  c_STRING_MAX_SHORT_LENGTH + 1 < c_string_small_growth_threshold /\
  c_string_malloc_overhead < c_string_page_size.
Proof. vm_compute. repeat split; congruence. Qed.

Lemma cM_pos : 1 <= c_STRING_MAX_SHORT_LENGTH. Proof. vm_compute. discriminate. Qed.
Lemma cTH_ge : 2 <= c_string_small_growth_threshold. Proof. vm_compute. discriminate. Qed.
Lemma cPG_pos : 0 < c_string_page_size. Proof. vm_compute. reflexivity. Qed.
Lemma cPG_le : c_string_page_size <= 1048576. Proof. vm_compute. discriminate. Qed.
Lemma cOV_lt : c_string_malloc_overhead < c_string_page_size. Proof. vm_compute. reflexivity. Qed.
Lemma cM_le : c_STRING_MAX_SHORT_LENGTH <= 1048576. Proof. vm_compute. discriminate. Qed.

(* ------------------------------------------------------------------ level-0 facts about aliasing *)

Lemma lit_of_dealias l a : lit_of l (dealias_s l a) = lit_of l a.
Proof. destruct a; reflexivity. Qed.
Lemma clit_of_dealias l c : clit_of l (dealias_c l c) = clit_of l c.
Proof. destruct c; reflexivity. Qed.

(* at level 0 an aliasing operand *is* a copy: nothing to prove beyond unfolding *)
Lemma step0_dealias l o : step0 l (dealias l o) = step0 l o.
Proof.
  assert (P : forall o, mutate0 l (dealias l o) = mutate0 l o /\ produce0 l (dealias l o) = produce0 l o /\
                        query l l (dealias l o) = query l l o).
  { intros o'. destruct o'; cbn [dealias mutate0 produce0 query]; rewrite ?lit_of_dealias, ?clit_of_dealias;
      splits; try reflexivity; repeat match goal with a : sarg |- _ => destruct a end; reflexivity. }
  destruct o;
    try (match goal with
         | |- step0 l (dealias l ?o0) = step0 l ?o0 =>
             destruct (P o0) as (P1 & P2 & P3); cbn [dealias] in *; cbn [step0]; rewrite ?P1, ?P2, ?P3; reflexivity
         end).
  cbn [dealias step0]. destruct (P o) as (_ & P2 & _). now rewrite P2.
Qed.

(* the domain of an operation list: each operation is in the domain of the state level 0 has reached *)
Fixpoint run_ok (l : list N) (ops : list op) : Prop :=
  match ops with
  | [] => True
  | o :: t => op_ok l o /\ run_ok (fst (step0 l o)) t
  end.

Lemma dealias_args_ok l o : nulfree l -> lenN l < LIM -> args_ok o -> args_ok (dealias l o).
Proof.
  intros F B. assert (S1 : forall a, sarg_ok a -> sarg_ok (dealias_s l a)) by (intros [x|] H; cbn; [exact H|split; assumption]).
  assert (C1 : forall c, carg_ok c -> carg_ok (dealias_c l c)).
  { intros [|x|off] H; cbn; trivial. split; [now apply nulfree_dropN|rewrite lenN_dropN; lia]. }
  induction o; cbn [dealias args_ok]; intros A; try exact A; try (now apply S1); try (now apply C1); try (exact (IHo A)).
  all: destruct A as [A1 A2]; split; [now apply S1|first [now apply S1|exact A2]].
Qed.
Lemma dealias_need l o : need l (dealias l o) = need l o.
Proof. induction o; cbn [dealias need]; rewrite ?lit_of_dealias, ?clit_of_dealias; trivial. Qed.
Lemma dealias_op_ok l o : nulfree l -> op_ok l o -> op_ok l (dealias l o).
Proof. intros F (B & A & N). split; [exact B|]. split; [now apply dealias_args_ok|now rewrite dealias_need]. Qed.

(* ------------------------------------------------------------------ reading through a window *)

(* nothing outside the window can matter: the window's bytes determine every read *)
Lemma win_remaining_local a1 a2 win r : takeN win a1 = takeN win a2 -> win_remaining a1 win r = win_remaining a2 win r.
Proof. intros H. unfold win_remaining. now rewrite H. Qed.
Lemma read_cstr_w_local a1 a2 win r : takeN win a1 = takeN win a2 -> read_cstr_w a1 win r = read_cstr_w a2 win r.
Proof. intros H. unfold read_cstr_w. now rewrite (win_remaining_local a1 a2 win r H). Qed.
Lemma run_pre_local a1 a2 win ps : takeN win a1 = takeN win a2 -> run_pre a1 win ps = run_pre a2 win ps.
Proof.
  intros H. unfold run_pre. generalize 0. induction ps as [|p ps IH]; intros r; cbn [fold_left]; [reflexivity|].
  assert (E : pre_step a1 win r p = pre_step a2 win r p).
  { destruct p; cbn [pre_step]; [now rewrite (win_remaining_local a1 a2 win r H)|now rewrite (read_cstr_w_local a1 a2 win r H)]. }
  rewrite E. apply IH.
Qed.

Lemma cstr_shorter l : list_eqb (cstr l) l = false -> lenN (cstr l) + 1 <= lenN l.
Proof.
  induction l as [|x t IH]; cbn [cstr]; [discriminate|].
  destruct (x =? 0) eqn:E; intros H; [rewrite lenN_nil, lenN_cons; lia|].
  cbn [list_eqb] in H. rewrite N.eqb_refl in H. cbn [andb] in H. specialize (IH H). rewrite !lenN_cons. lia.
Qed.
(* the read position never leaves the window *)
Lemma read_cstr_w_le arena win r : r <= lenN (takeN win arena) -> snd (read_cstr_w arena win r) <= lenN (takeN win arena).
Proof.
  intros H. unfold read_cstr_w, win_remaining.
  destruct (list_eqb (cstr (dropN r (takeN win arena))) (dropN r (takeN win arena))) eqn:E; cbn [snd]; [exact H|].
  apply cstr_shorter in E. rewrite lenN_dropN in E. lia.
Qed.
Lemma run_pre_le arena win ps : run_pre arena win ps <= lenN (takeN win arena).
Proof.
  unfold run_pre. assert (G : forall r, r <= lenN (takeN win arena) -> fold_left (pre_step arena win) ps r <= lenN (takeN win arena)).
  { induction ps as [|p ps IH]; intros r H; cbn [fold_left]; [exact H|]. apply IH.
    destruct p; cbn [pre_step]; [|now apply read_cstr_w_le].
    unfold win_remaining. rewrite lenN_dropN. destruct (n <=? lenN (takeN win arena) - r) eqn:E; [apply N.leb_le in E; lia|exact H]. }
  apply G. lia.
Qed.
Lemma window_consumed_le arena win ps :
  snd (read_cstr_w arena win (run_pre arena win ps)) <= win.
Proof.
  pose proof (read_cstr_w_le arena win _ (run_pre_le arena win ps)) as H. rewrite lenN_takeN in H. lia.
Qed.

Set Default Proof Using "All".

Section Final.
Variables (M TH PG OV jk : N).
Hypothesis M_pos : 1 <= M.
Hypothesis TH_ge : 2 <= TH.
Hypothesis PG_pos : 0 < PG.
Hypothesis PG_le : PG <= 1048576.
Hypothesis OV_lt : OV < PG.
Hypothesis M_le : M <= 1048576.

Local Notation inv_len := (StrCore.inv_len M TH PG OV jk M_pos TH_ge PG_pos PG_le OV_lt M_le).
Local Notation inv_lt := (StrCore.inv_lt M TH PG OV jk M_pos TH_ge PG_pos PG_le OV_lt M_le).
Local Notation inv_nul := (StrCore.inv_nul M TH PG OV jk M_pos TH_ge PG_pos PG_le OV_lt M_le).
Local Notation inv_short_le := (StrCore.inv_short_le M TH PG OV jk M_pos TH_ge PG_pos PG_le OV_lt M_le).
Local Notation lenN_abs := (StrCore.lenN_abs M TH PG OV jk M_pos TH_ge PG_pos PG_le OV_lt M_le).
Local Notation commit_spec := (StrCore.commit_spec M TH PG OV jk M_pos TH_ge PG_pos PG_le OV_lt M_le).
Local Notation inv_empty1 := (StrCore.inv_empty1 M TH PG OV jk M_pos TH_ge PG_pos PG_le OV_lt M_le).
Local Notation inv_clear_short := (StrCore.inv_clear_short M TH PG OV jk M_pos TH_ge PG_pos PG_le OV_lt M_le).
Local Notation inv_clear_and_flush := (StrCore.inv_clear_and_flush M TH PG OV jk M_pos TH_ge PG_pos PG_le OV_lt M_le).
Local Notation ensure_enough := (StrCore.ensure_enough M TH PG OV jk M_pos TH_ge PG_pos PG_le OV_lt M_le).
Local Notation inv_fin := (StrCore.inv_fin M TH PG OV jk M_pos TH_ge PG_pos PG_le OV_lt M_le).
Local Notation ensure_grow := (StrCore.ensure_grow M TH PG OV jk M_pos TH_ge PG_pos PG_le OV_lt M_le).
Local Notation ensure_noretain := (StrCore.ensure_noretain M TH PG OV jk M_pos TH_ge PG_pos PG_le OV_lt M_le).
Local Notation set_len_short_spec := (StrCore.set_len_short_spec M TH PG OV jk M_pos TH_ge PG_pos PG_le OV_lt M_le).
Local Notation ensure_shrink := (StrCore.ensure_shrink M TH PG OV jk M_pos TH_ge PG_pos PG_le OV_lt M_le).
Local Notation ensure_ok := (StrCore.ensure_ok M TH PG OV jk M_pos TH_ge PG_pos PG_le OV_lt M_le).
Local Notation u32_small := (StrOps.u32_small M TH PG OV jk M_pos TH_ge PG_pos PG_le OV_lt M_le).
Local Notation src_ok_lit := (StrOps.src_ok_lit M TH PG OV jk M_pos TH_ge PG_pos PG_le OV_lt M_le).
Local Notation src_ok_of := (StrOps.src_ok_of M TH PG OV jk M_pos TH_ge PG_pos PG_le OV_lt M_le).
Local Notation src_bytes_lit := (StrOps.src_bytes_lit M TH PG OV jk M_pos TH_ge PG_pos PG_le OV_lt M_le).
Local Notation src_bytes_of := (StrOps.src_bytes_of M TH PG OV jk M_pos TH_ge PG_pos PG_le OV_lt M_le).
Local Notation lenN_src_bytes := (StrOps.lenN_src_bytes M TH PG OV jk M_pos TH_ge PG_pos PG_le OV_lt M_le).
Local Notation src_take_nul := (StrOps.src_take_nul M TH PG OV jk M_pos TH_ge PG_pos PG_le OV_lt M_le).
Local Notation take_with_nul := (StrOps.take_with_nul M TH PG OV jk M_pos TH_ge PG_pos PG_le OV_lt M_le).
Local Notation abs_of_prefix := (StrOps.abs_of_prefix M TH PG OV jk M_pos TH_ge PG_pos PG_le OV_lt M_le).
Local Notation ensure_grow_ok := (StrOps.ensure_grow_ok M TH PG OV jk M_pos TH_ge PG_pos PG_le OV_lt M_le).
Local Notation ensure_noretain_ok := (StrOps.ensure_noretain_ok M TH PG OV jk M_pos TH_ge PG_pos PG_le OV_lt M_le).
Local Notation commit_set := (StrOps.commit_set M TH PG OV jk M_pos TH_ge PG_pos PG_le OV_lt M_le).
Local Notation commit_append := (StrOps.commit_append M TH PG OV jk M_pos TH_ge PG_pos PG_le OV_lt M_le).
Local Notation cap_lt := (StrOps.cap_lt M TH PG OV jk M_pos TH_ge PG_pos PG_le OV_lt M_le).
Local Notation takeN_min_len := (StrOps.takeN_min_len M TH PG OV jk M_pos TH_ge PG_pos PG_le OV_lt M_le).
Local Notation dropN_min_len := (StrOps.dropN_min_len M TH PG OV jk M_pos TH_ge PG_pos PG_le OV_lt M_le).
Local Notation clear_spec := (StrOps.clear_spec M TH PG OV jk M_pos TH_ge PG_pos PG_le OV_lt M_le).
Local Notation cstr_region_self := (StrOps.cstr_region_self M TH PG OV jk M_pos TH_ge PG_pos PG_le OV_lt M_le).
Local Notation cstr_cregion := (StrOps.cstr_cregion M TH PG OV jk M_pos TH_ge PG_pos PG_le OV_lt M_le).
Local Notation set_cstr_spec := (StrOps.set_cstr_spec M TH PG OV jk M_pos TH_ge PG_pos PG_le OV_lt M_le).
Local Notation set_from_spec := (StrOps.set_from_spec M TH PG OV jk M_pos TH_ge PG_pos PG_le OV_lt M_le).
Local Notation append_s_spec := (StrOps.append_s_spec M TH PG OV jk M_pos TH_ge PG_pos PG_le OV_lt M_le).
Local Notation append_c_spec := (StrOps.append_c_spec M TH PG OV jk M_pos TH_ge PG_pos PG_le OV_lt M_le).
Local Notation append_ch_spec := (StrOps.append_ch_spec M TH PG OV jk M_pos TH_ge PG_pos PG_le OV_lt M_le).
Local Notation insert_core := (StrOps.insert_core M TH PG OV jk M_pos TH_ge PG_pos PG_le OV_lt M_le).
Local Notation concat_rep1 := (StrOps.concat_rep1 M TH PG OV jk M_pos TH_ge PG_pos PG_le OV_lt M_le).
Local Notation lenN_concat_rep := (StrOps.lenN_concat_rep M TH PG OV jk M_pos TH_ge PG_pos PG_le OV_lt M_le).
Local Notation insert_aux_ext := (StrOps.insert_aux_ext M TH PG OV jk M_pos TH_ge PG_pos PG_le OV_lt M_le).
Local Notation insert_chars_spec := (StrOps.insert_chars_spec M TH PG OV jk M_pos TH_ge PG_pos PG_le OV_lt M_le).
Local Notation prealloc_safe := (StrOps.prealloc_safe M TH PG OV jk M_pos TH_ge PG_pos PG_le OV_lt M_le).
Local Notation prealloc_ok := (StrOps.prealloc_ok M TH PG OV jk M_pos TH_ge PG_pos PG_le OV_lt M_le).
Local Notation shrink_safe := (StrOps.shrink_safe M TH PG OV jk M_pos TH_ge PG_pos PG_le OV_lt M_le).
Local Notation trunc_spec := (StrOps.trunc_spec M TH PG OV jk M_pos TH_ge PG_pos PG_le OV_lt M_le).
Local Notation trunc_chars_spec := (StrOps.trunc_chars_spec M TH PG OV jk M_pos TH_ge PG_pos PG_le OV_lt M_le).
Local Notation trunc_to_spec := (StrOps.trunc_to_spec M TH PG OV jk M_pos TH_ge PG_pos PG_le OV_lt M_le).
Local Notation flatten_spec := (StrOps.flatten_spec M TH PG OV jk M_pos TH_ge PG_pos PG_le OV_lt M_le).
Local Notation cstr_fixpoint_unterminated := (StrOps.cstr_fixpoint_unterminated M TH PG OV jk M_pos TH_ge PG_pos PG_le OV_lt M_le).
Local Notation unflatten_spec := (StrOps.unflatten_spec M TH PG OV jk M_pos TH_ge PG_pos PG_le OV_lt M_le).
Local Notation ctor_sub_spec := (StrOps.ctor_sub_spec M TH PG OV jk M_pos TH_ge PG_pos PG_le OV_lt M_le).
Local Notation l0_sub_all := (StrOps.l0_sub_all M TH PG OV jk M_pos TH_ge PG_pos PG_le OV_lt M_le).
Local Notation l0_sub_all' := (StrOps.l0_sub_all' M TH PG OV jk M_pos TH_ge PG_pos PG_le OV_lt M_le).
Local Notation ctor_copy_spec := (StrOps.ctor_copy_spec M TH PG OV jk M_pos TH_ge PG_pos PG_le OV_lt M_le).
Local Notation ctor_copy_pre_spec := (StrOps.ctor_copy_pre_spec M TH PG OV jk M_pos TH_ge PG_pos PG_le OV_lt M_le).
Local Notation ctor_pre_lit_spec := (StrOps.ctor_pre_lit_spec M TH PG OV jk M_pos TH_ge PG_pos PG_le OV_lt M_le).
Local Notation commit_at := (StrOps.commit_at M TH PG OV jk M_pos TH_ge PG_pos PG_le OV_lt M_le).
Local Notation cut_spec := (StrOps.cut_spec M TH PG OV jk M_pos TH_ge PG_pos PG_le OV_lt M_le).
Local Notation map_content_spec := (StrOps.map_content_spec M TH PG OV jk M_pos TH_ge PG_pos PG_le OV_lt M_le).
Local Notation reverse_spec := (StrOps.reverse_spec M TH PG OV jk M_pos TH_ge PG_pos PG_le OV_lt M_le).
Local Notation lenN_replace_ch_aux := (StrOps.lenN_replace_ch_aux M TH PG OV jk M_pos TH_ge PG_pos PG_le OV_lt M_le).
Local Notation lenN_replace_ch := (StrOps.lenN_replace_ch M TH PG OV jk M_pos TH_ge PG_pos PG_le OV_lt M_le).
Local Notation replace_ch_spec := (StrOps.replace_ch_spec M TH PG OV jk M_pos TH_ge PG_pos PG_le OV_lt M_le).
Local Notation arg_src_ok := (StrRefine.arg_src_ok M TH PG OV jk M_pos TH_ge PG_pos PG_le OV_lt M_le).
Local Notation osrc_bytes := (StrRefine.osrc_bytes M TH PG OV jk M_pos TH_ge PG_pos PG_le OV_lt M_le).
Local Notation osrc_len := (StrRefine.osrc_len M TH PG OV jk M_pos TH_ge PG_pos PG_le OV_lt M_le).
Local Notation osrc_src_ok := (StrRefine.osrc_src_ok M TH PG OV jk M_pos TH_ge PG_pos PG_le OV_lt M_le).
Local Notation mutate_refines := (StrRefine.mutate_refines M TH PG OV jk M_pos TH_ge PG_pos PG_le OV_lt M_le).
Local Notation produce_refines := (StrRefine.produce_refines M TH PG OV jk M_pos TH_ge PG_pos PG_le OV_lt M_le).
Local Notation mutate_none := (StrRefine.mutate_none M TH PG OV jk M_pos TH_ge PG_pos PG_le OV_lt M_le).
Local Notation produce_none := (StrRefine.produce_none M TH PG OV jk M_pos TH_ge PG_pos PG_le OV_lt M_le).
Local Notation abs_out_lift := (StrRefine.abs_out_lift M TH PG OV jk M_pos TH_ge PG_pos PG_le OV_lt M_le).
Local Notation query_plain := (StrRefine.query_plain M TH PG OV jk M_pos TH_ge PG_pos PG_le OV_lt M_le).
Local Notation op_ok_assign := (StrRefine.op_ok_assign M TH PG OV jk M_pos TH_ge PG_pos PG_le OV_lt M_le).
Local Notation src_ok := StrOps.src_ok.
Local Notation osrc_ok := StrOps.osrc_ok.
Local Notation carg_ok := StrOps.carg_ok.
Local Notation slen := (slen M).
Local Notation cap := (cap M).
Local Notation abs := (abs M).
Local Notation inv := (inv M).
Local Notation commit := (commit M).
Local Notation empty1 := (empty1 M jk).
Local Notation osrc := (osrc M).
Local Notation src_of := (src_of M).

Local Notation out_inv := (StrRefine.out_inv M).
Local Notation step_refines := (StrRefine.step_refines M TH PG OV jk M_pos TH_ge PG_pos PG_le OV_lt M_le).
Local Notation step1 := (step1 M TH PG OV jk true).
Local Notation exec1 := (exec1 M TH PG OV jk true).
Local Notation abs_out := (abs_out M).
Local Notation flatten1 := (flatten1 M).
Local Notation unflatten1 := (unflatten1 M TH PG OV jk true).
Local Notation prealloc := (prealloc M TH PG OV jk true).
Local Notation shrink_to_fit := (shrink_to_fit M TH PG OV jk true).

(* C17, main theorem: along every operation list the storage invariant holds (NUL-terminated, length inside the
   capacity, small-buffer/heap bookkeeping consistent) and the level-1 String -- whatever its storage mode and
   capacity, and whichever operands alias it -- yields exactly the results and the value of the ideal byte string *)
Theorem exec_refines ops : forall s,
  inv s -> nulfree (abs s) -> run_ok (abs s) ops ->
  inv (fst (exec1 s ops)) /\ nulfree (abs (fst (exec1 s ops))) /\
  abs (fst (exec1 s ops)) = fst (exec0 (abs s) ops) /\
  map abs_out (snd (exec1 s ops)) = snd (exec0 (abs s) ops) /\
  Forall out_inv (snd (exec1 s ops)).
Proof.
  induction ops as [|o t IH]; intros s I F R; cbn [StrSpec.exec1 exec0].
  - cbn [fst snd map]. splits; trivial.
  - destruct R as [Ok R].
    destruct (step_refines s o I F Ok) as (I1 & A1 & O1 & V1).
    pose proof (step0_nulfree (abs s) o F (proj1 (proj2 Ok))) as F1.
    destruct (step1 s o) as [s1 r] eqn:E1. destruct (step0 (abs s) o) as [l1 r0] eqn:E0. cbn [fst snd] in *.
    subst l1. specialize (IH s1 I1 F1 R).
    destruct (exec1 s1 t) as [s2 rs]. destruct (exec0 (abs s1) t) as [l2 rs0]. cbn [fst snd map] in *.
    destruct IH as (I2 & F2 & A2 & O2 & V2). splits; trivial; [now rewrite O1, O2|now constructor].
Qed.

(* "regardless of whether the contents live in the small buffer or on the heap": two Strings with the same bytes,
   in any two storage states, give the same results and end with the same bytes *)
Theorem storage_irrelevant ops s1 s2 :
  inv s1 -> inv s2 -> nulfree (abs s1) -> abs s1 = abs s2 -> run_ok (abs s1) ops ->
  abs (fst (exec1 s1 ops)) = abs (fst (exec1 s2 ops)) /\
  map abs_out (snd (exec1 s1 ops)) = map abs_out (snd (exec1 s2 ops)).
Proof.
  intros I1 I2 F E R.
  destruct (exec_refines ops s1 I1 F R) as (_ & _ & A1 & O1 & _).
  rewrite E in F, R. destruct (exec_refines ops s2 I2 F R) as (_ & _ & A2 & O2 & _).
  rewrite E in A1, O1. split; congruence.
Qed.

(* "operations whose arguments alias the String itself give the same result as with a separate copy" *)
Theorem alias_eq s o :
  inv s -> nulfree (abs s) -> op_ok (abs s) o ->
  abs (fst (step1 s o)) = abs (fst (step1 s (dealias (abs s) o))) /\
  abs_out (snd (step1 s o)) = abs_out (snd (step1 s (dealias (abs s) o))).
Proof.
  intros I F Ok.
  destruct (step_refines s o I F Ok) as (_ & A1 & O1 & _).
  destruct (step_refines s (dealias (abs s) o) I F (dealias_op_ok _ _ F Ok)) as (_ & A2 & O2 & _).
  rewrite step0_dealias in A2, O2. split; congruence.
Qed.

(* "A String serialises to its bytes plus one NUL and parses back to an equal String ..." *)
Theorem flatten_roundtrip s t :
  inv s -> nulfree (abs s) -> slen s + 1 < LIM -> inv t ->
  flatten1 s = abs s ++ [0] /\
  exists t', unflatten1 t (flatten1 s) = (StOk, t') /\ inv t' /\ abs t' = abs s.
Proof.
  intros I F B It. rewrite (flatten_spec s I). split; [reflexivity|].
  destruct (unflatten_spec t (abs s ++ [0]) It) as (_ & U2).
  { rewrite lenN_app, lenN_cons, lenN_nil, (lenN_abs s I). lia. }
  destruct U2 as (t' & E & I' & A').
  { intros X. apply nulfree_app in X. destruct X as [_ X]. inversion X. congruence. }
  exists t'. splits; trivial. rewrite A'. now apply cstr_nulfree_app.
Qed.
(* "... rejecting unterminated input" (and leaving the String as it was) *)
Theorem unflatten_rejects_unterminated t bytes :
  inv t -> lenN bytes < LIM -> nulfree bytes -> unflatten1 t bytes = (StErr, t).
Proof. intros It B F. now apply (proj1 (unflatten_spec t bytes It B)). Qed.

(* F9, the domain boundary: a String holding an embedded NUL (only obtainable through += char(0) or a write through
   operator[]) flattens Length()+1 bytes and parses back truncated at the first NUL *)
Theorem nul_string_truncates s t a b :
  inv s -> abs s = a ++ 0 :: b -> nulfree a -> slen s + 1 < LIM -> inv t ->
  flatten1 s = abs s ++ [0] /\
  exists t', unflatten1 t (flatten1 s) = (StOk, t') /\ abs t' = a.
Proof.
  intros I E Fa B It. rewrite (flatten_spec s I). split; [reflexivity|].
  destruct (unflatten_spec t (abs s ++ [0]) It) as (_ & U2).
  { rewrite lenN_app, lenN_cons, lenN_nil, (lenN_abs s I). lia. }
  destruct U2 as (t' & Et & I' & A').
  { intros X. apply nulfree_app in X. destruct X as [_ X]. inversion X. congruence. }
  exists t'. split; trivial. rewrite A', E, <- app_assoc. cbn [app]. now apply cstr_nulfree_app.
Qed.

(* Prealloc and ShrinkToFit never change the value, for every argument (no size premise) *)
Theorem prealloc_value_safe s n : inv s -> inv (snd (prealloc s n)) /\ abs (snd (prealloc s n)) = abs s.
Proof. apply prealloc_safe. Qed.
Theorem shrink_value_safe s extra : inv s -> inv (snd (shrink_to_fit s extra)) /\ abs (snd (shrink_to_fit s extra)) = abs s.
Proof. apply shrink_safe. Qed.

(* "mode agrees with the capacity threshold": after ShrinkToFit() a String that fits the small buffer lives there,
   any other String owns a heap buffer of exactly Length()+1 bytes *)
Theorem shrink_mode s : inv s -> slen s + 1 < 2147483648 ->
  let s' := snd (shrink_to_fit s 0) in
  (slen s <= M -> is_long s' = false) /\ (M < slen s -> is_long s' = true /\ StrModel.cap M s' = slen s + 1).
Proof.
  intros I B s'. unfold s', StrModel.shrink_to_fit.
  pose proof (inv_lt s I) as Lt. pose proof (inv_len s I) as Ln.
  rewrite N.min_0_l, N.add_0_r. rewrite u32_small by lia.
  unfold StrModel.ensure.
  destruct (slen s + 1 =? StrModel.cap M s) eqn:E1.
  { apply N.eqb_eq in E1. cbn [snd]. destruct s as [b|h n c]; cbn [StrModel.cap StrModel.slen is_long] in *.
    - split; [reflexivity|intros; lia].
    - destruct I as (_ & _ & _ & I4). split; [intros; lia|intros; split; [reflexivity|lia]]. }
  cbn [orb]. rewrite N.ltb_irrefl.
  assert (X : (slen s + 1 =? 0) = false) by (apply N.eqb_neq; lia). rewrite X.
  assert (Y : (2147483648 <=? slen s + 1) = false) by (apply N.leb_gt; lia). rewrite Y.
  destruct (slen s + 1 <=? M + 1) eqn:E2; [apply N.leb_le in E2|apply N.leb_gt in E2];
    destruct (is_long s); cbn [andb snd]; split; intros H; try lia;
    try reflexivity; try (split; reflexivity).
Qed.

(* String::Unflatten on a DataUnflattener that is a window onto a larger array and has already been read from: the
   bytes outside the window never influence the result ... *)
Theorem unflatten_window_local fx s a1 a2 win ps :
  takeN win a1 = takeN win a2 ->
  StrModel.step1 M TH PG OV jk fx s (OUnflattenW a1 win ps) = StrModel.step1 M TH PG OV jk fx s (OUnflattenW a2 win ps).
Proof.
  intros H. cbn [StrModel.step1 StrModel.mutate].
  rewrite (run_pre_local a1 a2 win ps H).
  rewrite (win_remaining_local a1 a2 win _ H), (read_cstr_w_local a1 a2 win _ H). reflexivity.
Qed.
(* ... and a remainder without a terminator inside the window is rejected: the String keeps its value, nothing is consumed *)
Theorem unflatten_window_rejects s arena win ps :
  inv s -> lenN arena < LIM -> nulfree (win_remaining arena win (run_pre arena win ps)) ->
  step1 s (OUnflattenW arena win ps) = (s, R1Int (w_result false (run_pre arena win ps))).
Proof.
  intros I B F. cbn [StrModel.step1 StrModel.mutate].
  set (r0 := run_pre arena win ps) in *. set (rem := win_remaining arena win r0) in *.
  assert (Lr : lenN rem < LIM) by (unfold rem, win_remaining; rewrite lenN_dropN, lenN_takeN; lia).
  destruct (unflatten_spec s rem I Lr) as (U1 & _). rewrite (U1 F).
  unfold read_cstr_w. fold rem. apply cstr_fixpoint_unterminated in F. rewrite F. reflexivity.
Qed.

End Final.

(* ------------------------------------------------------------------ the tree as pinned (fixed = false) *)

Definition pM := 15. Definition pTH := 32. Definition pPG := 4096. Definition pOV := 12.
Definition abc1 (fixed : bool) (pre : N) : str1 :=      (* String(PreallocatedItemSlotsCount(pre), "abc") *)
  ctor_pre_lit pM pTH pPG pOV 170 fixed pre [97; 98; 99].

(* F27: on the pinned tree Prealloc(2^30+1) reports success and empties a non-empty String *)
Lemma pinned_prealloc_refuted :
  exists s n, abs pM s = [97; 98; 99] /\
              fst (prealloc pM pTH pPG pOV 170 false s n) = StOk /\ abs pM (snd (prealloc pM pTH pPG pOV 170 false s n)) = [].
Proof. exists (abc1 false 0), 1073741825. vm_compute. repeat split. Qed.
(* ... the repaired code refuses the same request and keeps the value *)
Example fixed_prealloc_same_witness :
  fst (prealloc pM pTH pPG pOV 170 true (abc1 true 0) 1073741825) = StErr /\
  abs pM (snd (prealloc pM pTH pPG pOV 170 true (abc1 true 0) 1073741825)) = [97; 98; 99].
Proof. vm_compute. split; reflexivity. Qed.

(* F28: on the pinned tree Unflatten accepts unterminated input (and clears the String) *)
Lemma pinned_unflatten_refuted :
  exists s bytes, nulfree bytes /\ fst (unflatten1 pM pTH pPG pOV 170 false s bytes) = StOk.
Proof. exists (abc1 false 0), [97; 98; 99]. split; [repeat constructor; discriminate|vm_compute; reflexivity]. Qed.

(* F32: on the pinned tree GetDistanceTo(other, maxResult) left its loop as soon as the last column reached maxResult,
   although the distance can still shrink: "abc" -> "xabc" is one insertion, but with maxResult = 2 the answer was 2 *)
Lemma pinned_distance_refuted :
  exists a b max, l0_distance a b max < max /\ distance_code false a b max = max.
Proof. exists [97; 98; 99], [120; 97; 98; 99], 2. vm_compute. split; reflexivity. Qed.
Example fixed_distance_same_witness :
  distance_code true [97; 98; 99] [120; 97; 98; 99] 2 = l0_distance [97; 98; 99] [120; 97; 98; 99] 2 /\
  distance_code true [107;105;116;116;101;110] [115;105;116;116;105;110;103] 3 = 3 /\
  distance_code true [107;105;116;116;101;110] [115;105;116;116;105;110;103] NOLIMIT = 3.
Proof. vm_compute. repeat split. Qed.

(* on the pinned tree the matcher of Replace/WithReplacements(Hashtable) restarted a partially matched key from its
   first character: "aab" is not found in "aaab", although it occurs at offset 1 *)
Lemma pinned_multi_match_refuted :
  exists key l, key_at [(key, [88])] (dropN 1 l) = Some (key, [88]) /\ naive_matches key key l 0 = [].
Proof. exists [97; 97; 98], [97; 97; 97; 98]. vm_compute. split; reflexivity. Qed.
Example naive_matches_finds_plain : naive_matches [97; 98] [97; 98] [120; 97; 98; 97; 98] 0 = [1; 3].
Proof. vm_compute. reflexivity. Qed.

(* F31: on the pinned tree ShrinkToFit(2^32-1) cuts the last character off a small-buffer String, and leaves a
   heap String whose length equals its capacity (the terminator lies outside the buffer) *)
Lemma pinned_shrink_refuted :
  exists s extra, let s' := snd (shrink_to_fit pM pTH pPG pOV 170 false s extra) in
                  abs pM s = [97; 98; 99] /\ abs pM s' = [97; 98].
Proof. exists (abc1 false 0), 4294967295. vm_compute. split; reflexivity. Qed.
Definition long17 (fixed : bool) : str1 := ctor_pre_lit pM pTH pPG pOV 170 fixed 0 (repN 97 17).
Lemma pinned_shrink_unterminated :
  exists s extra, let s' := snd (shrink_to_fit pM pTH pPG pOV 170 false s extra) in
                  is_long s' = true /\ slen pM s' = cap pM s'.
Proof. exists (long17 false), 4294967295. vm_compute. split; reflexivity. Qed.
Example fixed_shrink_same_witness :
  abs pM (snd (shrink_to_fit pM pTH pPG pOV 170 true (abc1 true 0) 4294967295)) = [97; 98; 99] /\
  abs pM (snd (shrink_to_fit pM pTH pPG pOV 170 true (long17 true) 4294967295)) = repN 97 17.
Proof. vm_compute. split; reflexivity. Qed.

(* ------------------------------------------------------------------ instantiation at the translated constants *)

Notation cM := c_STRING_MAX_SHORT_LENGTH (only parsing).
Notation cTH := c_string_small_growth_threshold (only parsing).
Notation cPG := c_string_page_size (only parsing).
Notation cOV := c_string_malloc_overhead (only parsing).

Definition c17_exec_refines jk := exec_refines cM cTH cPG cOV jk cM_pos cTH_ge cPG_pos cPG_le cOV_lt cM_le.
Definition c17_step_refines jk := StrRefine.step_refines cM cTH cPG cOV jk cM_pos cTH_ge cPG_pos cPG_le cOV_lt cM_le.
Definition c17_storage_irrelevant jk := storage_irrelevant cM cTH cPG cOV jk cM_pos cTH_ge cPG_pos cPG_le cOV_lt cM_le.
Definition c17_alias_eq jk := alias_eq cM cTH cPG cOV jk cM_pos cTH_ge cPG_pos cPG_le cOV_lt cM_le.
Definition c17_flatten_roundtrip jk := flatten_roundtrip cM cTH cPG cOV jk cM_pos cTH_ge cPG_pos cPG_le cOV_lt cM_le.
Definition c17_unflatten_rejects jk := unflatten_rejects_unterminated cM cTH cPG cOV jk cM_pos cTH_ge cPG_pos cPG_le cOV_lt cM_le.
Definition c17_nul_string_truncates jk := nul_string_truncates cM cTH cPG cOV jk cM_pos cTH_ge cPG_pos cPG_le cOV_lt cM_le.
Definition c17_shrink_mode jk := shrink_mode cM cTH cPG cOV jk cM_pos cTH_ge cPG_pos cPG_le cOV_lt cM_le.
Definition c17_unflatten_window_local jk := unflatten_window_local cM cTH cPG cOV jk cM_pos cTH_ge cPG_pos cPG_le cOV_lt cM_le.
Definition c17_unflatten_window_rejects jk := unflatten_window_rejects cM cTH cPG cOV jk cM_pos cTH_ge cPG_pos cPG_le cOV_lt cM_le.
Definition c17_prealloc_value_safe jk := prealloc_value_safe cM cTH cPG cOV jk cM_pos cTH_ge cPG_pos cPG_le cOV_lt cM_le.
Definition c17_shrink_value_safe jk := shrink_value_safe cM cTH cPG cOV jk cM_pos cTH_ge cPG_pos cPG_le cOV_lt cM_le.

(* a default-constructed String is in the domain *)
Lemma c17_empty_ok jk : inv cM (empty1 cM jk) /\ abs cM (empty1 cM jk) = [] /\ is_long (empty1 cM jk) = false.
Proof. destruct (StrCore.inv_empty1 cM cTH cPG cOV jk cM_pos cTH_ge cPG_pos cPG_le cOV_lt cM_le) as (A & _ & B & C). now splits. Qed.

(* every script started from the default-constructed String *)
Lemma c17_from_empty jk ops :
  run_ok [] ops ->
  let r := exec1 cM cTH cPG cOV jk true (empty1 cM jk) ops in
  inv cM (fst r) /\ abs cM (fst r) = fst (exec0 [] ops) /\ map (abs_out cM) (snd r) = snd (exec0 [] ops).
Proof.
  intros R r. destruct (c17_empty_ok jk) as (I & A & _).
  destruct (c17_exec_refines jk ops (empty1 cM jk) I) as (X1 & _ & X3 & X4 & _); rewrite ?A; trivial; [constructor|].
  unfold r. rewrite A in *. now splits.
Qed.

(* ------------------------------------------------------------------ non-vacuity *)

Ltac decide_ok :=
  vm_compute;
  repeat match goal with
         | |- _ /\ _ => split
         | |- True => exact I
         | |- Forall _ _ => constructor
         | |- _ = _ => reflexivity
         | |- _ -> False => let H := fresh in intros H; discriminate H
         end.

(* a script that crosses the small-buffer boundary with aliased operands is in the domain of the theorems:
   "abcdefgh"; s += s()+3; s += s; s = s.Substring(1,20); Prealloc(100); ShrinkToFit(); Replace(s, "xy"); s.Arg(s) *)
Definition ex_ops : list op :=
  [OSetCstr (CLit [97;98;99;100;101;102;103;104]) NOLIMIT; OAppendC (CSelf 3); OAppendS ASelf; OAssign (OSubstring 1 20);
   OPrealloc 100; OShrink 0; OReplaceS ASelf (ALit [37;49;120;121]) NOLIMIT 0; OAssign (OArgS ASelf); OFlatten].
Example ex_run_ok : run_ok [] ex_ops.
Proof. decide_ok. Qed.
Example ex_run_nontrivial :
  let r := exec1 cM cTH cPG cOV 170 true (empty1 cM 170) ex_ops in
  is_long (fst r) = false /\ abs cM (fst r) = [37;49;120;121;120;121] /\
  existsb (fun o => match o with R1Str x => is_long x | _ => false end) (snd r) = true.
Proof. vm_compute. repeat split. Qed.
(* ... and so is a script over the later additions: "aaab", simultaneous replacement {aab->X} (the case the pinned matcher
   missed), distance to a longer string with a maximum, a word insertion, Arg of the text printf gave for 2.5 *)
Definition ex_ops2 : list op :=
  [OSetCstr (CLit [97;97;97;98;37;49]) NOLIMIT; OReplaceMulti [([97;97;98], [88]); ([97], [89;89])] NOLIMIT;
   OGetDistance (ALit [120;97;88;37;49]) 2; OAssign (OWithWord NOLIMIT ASelf [32]);
   OAssign (OArgFloatText [50;46;53;48;48;48;48;48] 3); OAssign (OIndented 2 32); ONumCmp ASelf true; OFlatten].
Example ex_run_ok2 : run_ok [] ex_ops2.
Proof. decide_ok. Qed.
Example ex_run_nontrivial2 : fst (exec0 [] ex_ops2) = [32;32;89;89;88;50;46;53;48;48;32;89;89;88;50;46;53;48;48].
Proof. vm_compute. reflexivity. Qed.

(* the premises of storage_irrelevant / alias_eq / flatten_roundtrip are met by a small-buffer and a heap String
   holding the same bytes *)
Example ex_two_modes :
  let s1 := abc1 true 0 in let s2 := abc1 true 40 in
  inv pM s1 /\ inv pM s2 /\ is_long s1 = false /\ is_long s2 = true /\ abs pM s1 = abs pM s2 /\ nulfree (abs pM s1) /\
  op_ok (abs pM s1) (OAppendC (CSelf 1)) /\ slen pM s1 + 1 < LIM.
Proof. decide_ok. Qed.
