(* C17 -- proofs about the String model. *)
From Coq Require Import List NArith ZArith Bool Lia.
From Muscle Require Import Gen.Consts Cont.StrL0 Cont.StrModel.
Import ListNotations.
Local Open Scope N_scope.

(* the translated constants have the relations the model relies on; a changed constant re-checks this *)
Lemma consts_ok :
  c_STRING_SIZEOF = c_STRING_MAX_SHORT_LENGTH + 1 /\ 1 <= c_STRING_MAX_SHORT_LENGTH < 128 /\
  c_MUSCLE_NO_LIMIT = NOLIMIT /\ c_STRING_MAX_LENGTH = 2147483646 /\
  c_STRING_MAX_SHORT_LENGTH + 1 < c_string_small_growth_threshold /\
  c_string_malloc_overhead < c_string_page_size.
Proof. vm_compute. repeat split; congruence. Qed.
