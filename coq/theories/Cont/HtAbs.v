(* C09 -- the ideal-map functions (a_get, a_index, a_remove, a_set, a_insert_at, ...) computed on
   [map (kvf h) l] for a list of entries with pairwise different keys. *)
From Coq Require Import List Arith ZArith NArith PArith Bool Lia FMapPositive Permutation.
From Muscle Require Import Cont.HtModel Cont.HtLemmas Cont.HtRepr Cont.HtWalk.
Import ListNotations.

Section A.
Variable h : ht.
Notation kv := (kvf h).
Notation key := (keyf h).

Lemma a_get_map : forall k l, a_get (map kv l) k = match find_id h k l with Some e => Some (valf h e) | None => None end.
Proof.
  intros k. induction l as [|x l IH]; [reflexivity|]. cbn [map a_get find_id]. unfold keyf, valf in *.
  destruct (kvf h x) as [kx vx] eqn:Ex. cbn [fst snd]. destruct (Z.eqb kx k); [rewrite Ex; reflexivity|exact IH].
Qed.

Lemma a_get_map_in : forall l e, NoDup (map key l) -> In e l -> a_get (map kv l) (key e) = Some (valf h e).
Proof. intros l e Hnd He. rewrite a_get_map, (find_id_unique h (key e) l e Hnd He eq_refl). reflexivity. Qed.

Lemma a_get_map_none : forall l k, (forall e, In e l -> key e <> k) -> a_get (map kv l) k = None.
Proof.
  intros l k H. rewrite a_get_map. destruct (find_id h k l) as [e|] eqn:E; [|reflexivity].
  apply find_id_some in E. destruct E as [He Hk]. exfalso. exact (H e He Hk).
Qed.

Lemma a_index_cons_eq : forall x r i, a_index (kv x :: r) (key x) i = Some i.
Proof. intros. cbn [a_index]. unfold keyf. destruct (kvf h x) as [kx vx]. cbn [fst]. rewrite Z.eqb_refl. reflexivity. Qed.
Lemma a_index_cons_neq : forall x r k i, key x <> k -> a_index (kv x :: r) k i = a_index r k (S i).
Proof. intros x r k i H. cbn [a_index]. unfold keyf in H. destruct (kvf h x) as [kx vx]. cbn [fst] in H. apply Z.eqb_neq in H. rewrite H. reflexivity. Qed.
Lemma a_remove_cons_eq : forall x r, a_remove (kv x :: r) (key x) = r.
Proof. intros. cbn [a_remove]. unfold keyf. destruct (kvf h x) as [kx vx]. cbn [fst]. rewrite Z.eqb_refl. reflexivity. Qed.
Lemma a_remove_cons_neq : forall x r k, key x <> k -> a_remove (kv x :: r) k = kv x :: a_remove r k.
Proof. intros x r k H. cbn [a_remove]. unfold keyf in H. destruct (kvf h x) as [kx vx]. cbn [fst] in H. apply Z.eqb_neq in H. rewrite H. reflexivity. Qed.
Lemma a_set_cons_eq : forall x r v, a_set (kv x :: r) (key x) v = (key x, v) :: r.
Proof. intros. cbn [a_set]. unfold keyf. destruct (kvf h x) as [kx vx]. cbn [fst]. rewrite Z.eqb_refl. reflexivity. Qed.
Lemma a_set_cons_neq : forall x r k v, key x <> k -> a_set (kv x :: r) k v = kv x :: a_set r k v.
Proof. intros x r k v H. cbn [a_set]. unfold keyf in H. destruct (kvf h x) as [kx vx]. cbn [fst] in H. apply Z.eqb_neq in H. rewrite H. reflexivity. Qed.

Lemma a_index_map_split : forall l1 e l2 i, (forall y, In y l1 -> key y <> key e) ->
  a_index (map kv (l1 ++ e :: l2)) (key e) i = Some (i + length l1).
Proof.
  induction l1 as [|x l1 IH]; intros e l2 i Hn.
  - cbn [app map length]. rewrite a_index_cons_eq. f_equal. lia.
  - cbn [app map length]. rewrite a_index_cons_neq by (apply Hn; left; reflexivity).
    rewrite IH by (intros y Hy; apply Hn; right; exact Hy). f_equal. lia.
Qed.

Lemma a_index_map_none : forall l k i, (forall e, In e l -> key e <> k) -> a_index (map kv l) k i = None.
Proof.
  induction l as [|x l IH]; intros k i H; [reflexivity|]. cbn [map].
  rewrite a_index_cons_neq by (apply H; left; reflexivity). apply IH. intros e He. apply H. right; exact He.
Qed.

Lemma a_remove_map_split : forall l1 e l2, (forall y, In y l1 -> key y <> key e) ->
  a_remove (map kv (l1 ++ e :: l2)) (key e) = map kv (l1 ++ l2).
Proof.
  induction l1 as [|x l1 IH]; intros e l2 Hn.
  - cbn [app map]. apply a_remove_cons_eq.
  - cbn [app map]. rewrite a_remove_cons_neq by (apply Hn; left; reflexivity).
    f_equal. apply IH. intros y Hy. apply Hn. right; exact Hy.
Qed.

Lemma a_remove_map_none : forall l k, (forall e, In e l -> key e <> k) -> a_remove (map kv l) k = map kv l.
Proof.
  induction l as [|x l IH]; intros k H; [reflexivity|]. cbn [map].
  rewrite a_remove_cons_neq by (apply H; left; reflexivity). f_equal. apply IH. intros e He. apply H. right; exact He.
Qed.

Lemma a_insert_at_map : forall l i x, a_insert_at (map kv l) i (kv x) = map kv (firstn i l ++ x :: skipn i l).
Proof. intros. unfold a_insert_at. rewrite map_app, firstn_map. cbn [map]. rewrite skipn_map. reflexivity. Qed.

(* keys of a NoDup-key list split *)
Lemma keys_split_left : forall l1 e l2, NoDup (map key (l1 ++ e :: l2)) -> forall y, In y l1 -> key y <> key e.
Proof.
  intros l1 e l2 Hnd y Hy E. rewrite map_app in Hnd. cbn [map] in Hnd. apply NoDup_remove_2 in Hnd.
  apply Hnd. apply in_or_app. left. rewrite <- E. apply in_map. exact Hy.
Qed.

Lemma keys_split_right : forall l1 e l2, NoDup (map key (l1 ++ e :: l2)) -> forall y, In y l2 -> key y <> key e.
Proof.
  intros l1 e l2 Hnd y Hy E. rewrite map_app in Hnd. cbn [map] in Hnd. apply NoDup_remove_2 in Hnd.
  apply Hnd. apply in_or_app. right. rewrite <- E. apply in_map. exact Hy.
Qed.

Lemma keys_split_other : forall l1 e l2, NoDup (map key (l1 ++ e :: l2)) -> forall y, In y (l1 ++ l2) -> key y <> key e.
Proof.
  intros l1 e l2 Hnd y Hy. apply in_app_or in Hy. destruct Hy; [eapply keys_split_left|eapply keys_split_right]; eassumption.
Qed.

End A.

(* the same with data changing only at one entry *)
Lemma map_kvf_ext : forall h h' l, (forall y, In y l -> kvf h' y = kvf h y) -> map (kvf h') l = map (kvf h) l.
Proof. intros. apply map_ext_in. assumption. Qed.

Lemma a_set_map_split : forall h l1 e l2 v, (forall y, In y l1 -> keyf h y <> keyf h e) ->
  a_set (map (kvf h) (l1 ++ e :: l2)) (keyf h e) v = map (kvf h) l1 ++ (keyf h e, v) :: map (kvf h) l2.
Proof.
  intros h. induction l1 as [|x l1 IH]; intros e l2 v Hn.
  - cbn [app map]. apply a_set_cons_eq.
  - cbn [app map]. rewrite a_set_cons_neq by (apply Hn; left; reflexivity).
    f_equal. apply IH. intros y Hy. apply Hn. right; exact Hy.
Qed.
