(* C09 -- refinement, table level: what each table function of HtModel does to [abs]. *)
From Coq Require Import List Arith ZArith NArith PArith Bool Lia FMapPositive Permutation.
From Muscle Require Import Cont.HtModel Cont.HtStep Cont.HtIdeal Cont.HtLemmas Cont.HtRepr Cont.HtWalk Cont.HtIters
                           Cont.HtTable Cont.HtMoves Cont.HtPut Cont.HtExact Cont.HtAbs.
Import ListNotations.

Lemma abs_same_data : forall h h' l l', tinv h l -> tinv h' l' -> same_data h h' -> abs h' = map (kvf h) l'.
Proof.
  intros h h' l l' T T' S. rewrite (tinv_abs h' l' T'). apply map_ext. intros y. apply kvf_same_data. exact S.
Qed.

(* ------------------------------------------------------------------ lookups *)

Lemma find_key_get : forall h l k, tinv h l ->
  a_get (abs h) k = match find_key h k with Some e => val_of h e | None => None end.
Proof.
  intros h l k T. rewrite (tinv_abs h l T), a_get_map, (tinv_find_key h l k T).
  destruct (find_id h k l) as [e|] eqn:E; [|reflexivity].
  apply find_id_some in E. destruct E as [He _].
  pose proof (lk_live _ _ (ti_linked _ _ T) e He) as Le. unfold live in Le. unfold val_of, valf, kvf, kv_of.
  destruct (getn h e); [reflexivity|congruence].
Qed.

Lemma find_key_split : forall h l k e, tinv h l -> find_key h k = Some e ->
  exists l1 l2, l = l1 ++ e :: l2 /\ keyf h e = k.
Proof.
  intros h l k e T Hf. destruct (find_key_some_in h l k e T Hf) as [He Hk].
  destruct (in_split _ _ He) as (l1 & l2 & ->). exists l1, l2. auto.
Qed.

Lemma val_of_valf : forall h e, live h e -> val_of h e = Some (valf h e).
Proof. intros h e L. unfold live in L. unfold val_of, valf, kvf, kv_of. destruct (getn h e); [reflexivity|congruence]. Qed.

Lemma key_of_keyf : forall h e, live h e -> key_of h e = Some (keyf h e).
Proof. intros h e L. unfold live in L. unfold key_of, keyf, kvf, kv_of. destruct (getn h e); [reflexivity|congruence]. Qed.

Lemma kvf_pair : forall h e, kvf h e = (keyf h e, valf h e).
Proof. intros. unfold keyf, valf. destruct (kvf h e); reflexivity. Qed.

(* ------------------------------------------------------------------ RemoveEntry *)

Lemma abs_remove_entry : forall h I l1 l2 e, tinv h (l1 ++ e :: l2) ->
  let h' := fst (remove_entry h I e) in
  tinv h' (l1 ++ l2) /\ abs h' = a_remove (abs h) (keyf h e) /\ cap h' = cap h /\ asort h' = asort h /\
  fresh h' = fresh h /\ ilist h' = ilist h /\ snd (remove_entry h I e) = patch_all h e I.
Proof.
  intros h I l1 l2 e T. unfold remove_entry, remove_iter_entry. cbn [fst snd].
  destruct (tinv_remove_entry h l1 l2 e T) as (T' & _ & _ & Kv & _ & Hcap & Hfr & Has & Hil).
  split; [exact T'|split; [|auto]].
  rewrite (tinv_abs _ _ T'), (tinv_abs _ _ T).
  rewrite (a_remove_map_split h l1 e l2 (keys_split_left h l1 e l2 (ti_keys _ _ T))).
  apply map_ext_in. intros y Hy. apply Kv. intro; subst.
  pose proof (lk_nodup _ _ (ti_linked _ _ T)) as Hnd. apply nodup_split_notin in Hnd. apply in_app_or in Hy. tauto.
Qed.

(* ------------------------------------------------------------------ moves *)

Lemma abs_moved : forall h I e l l' r, tinv h l -> moved h I e l l' r ->
  tinv (fst r) l' /\ abs (fst r) = map (kvf h) l' /\ cap (fst r) = cap h /\ asort (fst r) = asort h /\
  fresh (fst r) = fresh h /\ ilist (fst r) = ilist h.
Proof.
  intros h I e l l' r T (T' & S & (Mc & Mcap & Mf & Ma & Mi) & _).
  split; [exact T'|split; [eapply abs_same_data; eassumption|auto]].
Qed.

Lemma a_move_to_map : forall h l1 l2 e idx, NoDup (map (keyf h) (l1 ++ e :: l2)) ->
  a_move_to (map (kvf h) (l1 ++ e :: l2)) (keyf h e) idx =
  map (kvf h) (firstn (Nat.min idx (length (l1 ++ l2))) (l1 ++ l2) ++ e :: skipn (Nat.min idx (length (l1 ++ l2))) (l1 ++ l2)).
Proof.
  intros h l1 l2 e idx Hk. unfold a_move_to.
  rewrite (a_get_map_in h (l1 ++ e :: l2) e Hk) by (apply in_or_app; right; left; reflexivity).
  rewrite (a_remove_map_split h l1 e l2 (keys_split_left h l1 e l2 Hk)).
  rewrite <- kvf_pair. rewrite map_length.
  replace (length (l1 ++ e :: l2) - 1) with (length (l1 ++ l2)) by (rewrite !app_length; cbn [length]; lia).
  apply a_insert_at_map.
Qed.

Lemma l0_move_before_map : forall h l1 l2 p q e f, NoDup (map (keyf h) (l1 ++ e :: l2)) -> l1 ++ l2 = p ++ f :: q ->
  l0_move_before (map (kvf h) (l1 ++ e :: l2)) (keyf h e) (keyf h f) = map (kvf h) (p ++ e :: f :: q).
Proof.
  intros h l1 l2 p q e f Hk E. unfold l0_move_before.
  rewrite (a_get_map_in h (l1 ++ e :: l2) e Hk) by (apply in_or_app; right; left; reflexivity).
  rewrite (a_remove_map_split h l1 e l2 (keys_split_left h l1 e l2 Hk)). rewrite E.
  assert (Hk2 : NoDup (map (keyf h) (p ++ f :: q))).
  { rewrite <- E. rewrite map_app in Hk |- *. cbn [map] in Hk. apply NoDup_remove_1 in Hk. exact Hk. }
  rewrite (a_index_map_split h p f q 0 (keys_split_left h p f q Hk2)). cbn [Nat.add].
  rewrite <- kvf_pair, a_insert_at_map.
  rewrite firstn_app, firstn_all, Nat.sub_diag, skipn_app, skipn_all, Nat.sub_diag. cbn [firstn skipn app]. rewrite app_nil_r. reflexivity.
Qed.

Lemma l0_move_behind_map : forall h l1 l2 p q e d, NoDup (map (keyf h) (l1 ++ e :: l2)) -> l1 ++ l2 = p ++ d :: q ->
  l0_move_behind (map (kvf h) (l1 ++ e :: l2)) (keyf h e) (keyf h d) = map (kvf h) (p ++ d :: e :: q).
Proof.
  intros h l1 l2 p q e d Hk E. unfold l0_move_behind.
  rewrite (a_get_map_in h (l1 ++ e :: l2) e Hk) by (apply in_or_app; right; left; reflexivity).
  rewrite (a_remove_map_split h l1 e l2 (keys_split_left h l1 e l2 Hk)). rewrite E.
  assert (Hk2 : NoDup (map (keyf h) (p ++ d :: q))).
  { rewrite <- E. rewrite map_app in Hk |- *. cbn [map] in Hk. apply NoDup_remove_1 in Hk. exact Hk. }
  rewrite (a_index_map_split h p d q 0 (keys_split_left h p d q Hk2)). cbn [Nat.add].
  rewrite <- kvf_pair, a_insert_at_map.
  assert (Es : p ++ d :: q = (p ++ [d]) ++ q) by (rewrite <- app_assoc; reflexivity).
  rewrite Es. replace (S (length p)) with (length (p ++ [d])) by (rewrite app_length; cbn; lia).
  rewrite firstn_app, firstn_all, Nat.sub_diag, skipn_app, skipn_all, Nat.sub_diag. cbn [firstn skipn app]. rewrite app_nil_r.
  rewrite <- app_assoc. reflexivity.
Qed.

(* ------------------------------------------------------------------ a new entry (all classes) *)

From Muscle Require Import Cont.HtOrdered.

Lemma lt_ent_live : forall var h kv y, live h y -> lt_ent var h kv y = is_lt (cmp_var var kv (kvf h y)).
Proof. intros var h kv y L. unfold lt_ent, cmp_ent. rewrite (kv_of_live h y L). reflexivity. Qed.

Lemma gt_ent_live : forall var h kv y, live h y -> gt_ent var h kv y = is_gt (cmp_var var kv (kvf h y)).
Proof. intros var h kv y L. unfold gt_ent, cmp_ent. rewrite (kv_of_live h y L). reflexivity. Qed.

Lemma abs_insert_new : forall var h l k v, tinv h l -> find_id h k l = None ->
  let h1 := fst (alloc_node h k v) in
  let e := snd (alloc_node h k v) in
  let h2 := insert_entry_aux var h1 e in
  let h' := with_cnt h2 (cnt h2 + 1) in
  exists m1 m2, l = m1 ++ m2 /\ tinv h' (m1 ++ e :: m2) /\
    abs h' = l0_insert_new var (abs h) (asort h) (k, v) /\
    cap h' = cap h /\ asort h' = asort h /\ ilist h' = ilist h /\ e = fresh h /\ ~ In e l /\
    kvf h' e = (k, v) /\ (forall y, y <> e -> kvf h' y = kvf h y) /\ (forall y, live h' y <-> (live h y \/ y = e)).
Proof.
  intros var h l k v T Hf h1 e h2 h'.
  destruct (alloc_linked h l k v T) as [L1 Ee]. fold h1 in L1. fold e in Ee.
  assert (C1 : cnt h1 = length l) by (unfold h1, alloc_node; cbn; apply (ti_cnt _ _ T)).
  assert (K1 : kv_of h1 e = Some (k, v)).
  { unfold h1, e, alloc_node, kv_of, getn. cbn. rewrite PositiveMap.gss. reflexivity. }
  assert (A1 : asort h1 = asort h) by reflexivity.
  pose proof (insert_entry_aux_split var h1 l e (k, v) L1 C1 K1) as Eq. fold h2 in Eq. rewrite A1 in Eq.
  pose proof (ins_split_app var (asort h) h1 (k, v) l) as Esp.
  remember (ins_split var (asort h) h1 (k, v) l) as sp eqn:Hsp.
  exists (fst sp), (snd sp). split; [symmetry; exact Esp|].
  pose proof (tinv_insert_new h l (fst sp) (snd sp) k v T (eq_sym Esp) Hf) as P.
  unfold alloc_node in P. cbn zeta in P.
  unfold h', h2, h1, e, alloc_node in *. cbn [fst snd] in *. rewrite Eq.
  destruct P as (_ & Hne & T' & Kve & Kvo & Lv & Hcap & Has & Hil).
  split; [exact T'|split; [|split; [exact Hcap|split; [exact Has|split; [exact Hil|split; [reflexivity|split; [exact Hne|split; [exact Kve|split; [exact Kvo|exact Lv]]]]]]]]].
  rewrite (tinv_abs _ _ T'), (tinv_abs _ _ T). rewrite map_app. cbn [map]. rewrite Kve.
  assert (Hin : forall y, In y l -> y <> fresh h) by (intros y Hy E; subst; contradiction).
  set (hh := {| nodes := PositiveMap.add (fresh h) {| nk := k; nv := v; nprev := None; nnext := None |} (nodes h);
                hd := hd h; tl := tl h; cnt := cnt h; cap := cap h; fresh := Pos.succ (fresh h); asort := asort h; ilist := ilist h |}) in *.
  assert (Kh : forall y, In y l -> kvf hh y = kvf h y).
  { intros y Hy. unfold kvf, kv_of, getn, hh. cbn. rewrite PositiveMap.gso by (apply Hin; exact Hy). reflexivity. }
  set (hf := with_cnt (insert_iter_entry hh (fresh h) (last_of (fst sp))) (cnt (insert_iter_entry hh (fresh h) (last_of (fst sp))) + 1)) in *.
  assert (E1 : map (kvf hf) (fst sp) = map (kvf hh) (fst sp)).
  { apply map_ext_in. intros y Hy. rewrite Kvo by (apply Hin; rewrite <- Esp; apply in_or_app; left; exact Hy).
    symmetry. apply Kh. rewrite <- Esp. apply in_or_app. left; exact Hy. }
  assert (E2 : map (kvf hf) (snd sp) = map (kvf hh) (snd sp)).
  { apply map_ext_in. intros y Hy. rewrite Kvo by (apply Hin; rewrite <- Esp; apply in_or_app; right; exact Hy).
    symmetry. apply Kh. rewrite <- Esp. apply in_or_app. right; exact Hy. }
  rewrite E1, E2. rewrite Hsp. fold hh. rewrite (l0_insert_new_split var (asort h) hh (k, v) l).
  - f_equal. apply map_ext_in. exact Kh.
  - intros y Hy. apply lt_ent_live. apply (lk_live _ _ L1). exact Hy.
Qed.

(* ------------------------------------------------------------------ MoveIterationEntryToCorrectPosition *)

Lemma some_inj : forall A (x y : A), Some x = Some y -> x = y.
Proof. intros A x y H. inversion H. reflexivity. Qed.

Lemma last_opt_map : forall A B (g : A -> B) (l : list A), last_opt (map g l) = option_map g (head_opt (rev l)).
Proof. intros. unfold last_opt. rewrite <- map_rev. destruct (rev l); reflexivity. Qed.

Lemma moved_id : forall h I e l, tinv h l -> moved h I e l l (h, I).
Proof. intros. split; [assumption|split; [apply same_data_refl|split; [apply meta_eq_refl|left; auto]]]. Qed.

Lemma firstn_map_app : forall A B (g : A -> B) l1 x l2, firstn (length l1) (map g (l1 ++ x :: l2)) = map g l1.
Proof. intros. rewrite map_app, firstn_app, map_length, Nat.sub_diag, firstn_all2 by (rewrite map_length; lia). cbn. apply app_nil_r. Qed.

Lemma skipn_map_app : forall A B (g : A -> B) l1 x l2, skipn (S (length l1)) (map g (l1 ++ x :: l2)) = map g l2.
Proof.
  intros. rewrite map_app. cbn [map]. rewrite skipn_app, map_length.
  rewrite skipn_all2 by (rewrite map_length; lia). replace (S (length l1) - length l1) with 1 by lia. reflexivity.
Qed.

Lemma reposition_ordered_exact : forall var h I l1 l2 e, tinv h (l1 ++ e :: l2) ->
  exists l', moved h I e (l1 ++ e :: l2) l' (reposition_ordered var h I e) /\
             map (kvf h) l' = l0_reposition_ordered var (map (kvf h) (l1 ++ e :: l2)) (keyf h e).
Proof.
  intros var h I l1 l2 e T.
  pose proof (ti_linked _ _ T) as L. pose proof (lk_nodup _ _ L) as Hnd. pose proof (ti_keys _ _ T) as Hk.
  destruct (nodup_split_notin _ _ _ Hnd) as [Hn1 Hn2].
  assert (Hin : In e (l1 ++ e :: l2)) by (apply in_or_app; right; left; reflexivity).
  assert (Le : live h e) by (apply (lk_live _ _ L); exact Hin).
  assert (Lall : forall y, In y (l1 ++ e :: l2) -> live h y) by apply (lk_live _ _ L).
  set (kv := kvf h e).
  (* the ideal side, unfolded *)
  assert (R0 : l0_reposition_ordered var (map (kvf h) (l1 ++ e :: l2)) (keyf h e) =
     let pre := map (kvf h) l1 in
     let post := map (kvf h) l2 in
     let l := map (kvf h) (l1 ++ e :: l2) in
     let back_case :=
       match post with
       | [] => l
       | y :: _ =>
         if is_gt (cmpv var kv y) then
           match last_opt l with
           | Some z => if is_gt (cmpv var kv z) then pre ++ post ++ [kv]
                       else let s := take_while (fun x => is_gt (cmpv var kv x)) post in pre ++ s ++ kv :: skipn (length s) post
           | None => l
           end
         else l
       end in
     match last_opt pre with
     | Some b =>
       if is_lt (cmpv var kv b) then
         match l with
         | x :: _ => if is_lt (cmpv var kv x) then kv :: pre ++ post
                     else let s := rev (take_while (fun y => is_lt (cmpv var kv y)) (rev pre)) in
                          firstn (length pre - length s) pre ++ kv :: s ++ post
         | [] => l
         end
       else back_case
     | None => back_case
     end).
  { unfold l0_reposition_ordered.
    rewrite (a_index_map_split h l1 e l2 0 (keys_split_left h l1 e l2 Hk)). cbn [Nat.add].
    rewrite (a_get_map_in h (l1 ++ e :: l2) e Hk Hin).
    rewrite firstn_map_app, skipn_map_app. rewrite <- kvf_pair. reflexivity. }
  rewrite R0. clear R0. cbn zeta.
  unfold reposition_ordered. rewrite (kv_of_live h e Le). fold kv.
  rewrite (prev_of_prefix h _ l1 e l2 L eq_refl), (next_of_suffix h _ l1 e l2 L eq_refl).
  rewrite (lk_hd _ _ L), (lk_tl _ _ L), (ti_cnt _ _ T).
  rewrite !last_opt_map.
  (* comparisons on entries = comparisons on pairs *)
  assert (CE : forall y, In y (l1 ++ e :: l2) -> cmp_ent var h kv y = cmpv var kv (kvf h y)).
  { intros y Hy. unfold cmp_ent, cmpv. rewrite (kv_of_live h y (Lall y Hy)). reflexivity. }
  (* the forward half, shared by two branches *)
  assert (Fwd : exists l', moved h I e (l1 ++ e :: l2) l'
        (match head_opt l2 with
         | Some b2 =>
           if is_gt (cmp_ent var h kv b2) then
             match last_of (l1 ++ e :: l2) with
             | Some tx => if is_gt (cmp_ent var h kv tx) then move_back_aux h I e
                          else move_behind_aux h I e (creep_fwd var h kv b2 (length (l1 ++ e :: l2)))
             | None => (h, I)
             end
           else (h, I)
         | None => (h, I)
         end) /\
      map (kvf h) l' =
        match map (kvf h) l2 with
        | [] => map (kvf h) (l1 ++ e :: l2)
        | y :: _ =>
          if is_gt (cmpv var kv y) then
            match option_map (kvf h) (head_opt (rev (l1 ++ e :: l2))) with
            | Some z => if is_gt (cmpv var kv z) then map (kvf h) l1 ++ map (kvf h) l2 ++ [kv]
                        else map (kvf h) l1 ++ take_while (fun x => is_gt (cmpv var kv x)) (map (kvf h) l2) ++
                             kv :: skipn (length (take_while (fun x => is_gt (cmpv var kv x)) (map (kvf h) l2))) (map (kvf h) l2)
            | None => map (kvf h) (l1 ++ e :: l2)
            end
          else map (kvf h) (l1 ++ e :: l2)
        end).
  { destruct l2 as [|b2 l2']; [exists (l1 ++ [e]); split; [apply moved_id; exact T|reflexivity]|].
    cbn [head_opt map]. rewrite (CE b2) by (apply in_or_app; right; right; left; reflexivity).
    destruct (is_gt (cmpv var kv (kvf h b2))) eqn:G2; [|exists (l1 ++ e :: b2 :: l2'); split; [apply moved_id; exact T|reflexivity]].
    rewrite last_of_app_cons, last_of_cons_cons. fold (last_of (l1 ++ e :: b2 :: l2')). rewrite last_of_app_cons, last_of_cons_cons.
    destruct (last_of (b2 :: l2')) as [tx|] eqn:ET; [|apply last_of_none in ET; discriminate].
    cbn [option_map]. assert (Htx : In tx (b2 :: l2')) by (apply last_of_in; exact ET).
    rewrite (CE tx) by (apply in_or_app; right; right; exact Htx).
    destruct (is_gt (cmpv var kv (kvf h tx))).
    - exists (l1 ++ (b2 :: l2') ++ [e]). split; [apply move_back_exact; exact T|].
      rewrite !map_app. reflexivity.
    - (* creep forward *)
      pose proof (creep_fwd_spec var h _ kv L (length (l1 ++ e :: b2 :: l2')) (l1 ++ [e]) b2 l2') as CF.
      rewrite <- app_assoc in CF. specialize (CF eq_refl). rewrite !app_length in CF. cbn [length] in CF. specialize (CF ltac:(lia)).
      rewrite !app_length. cbn [length].
      set (s' := take_while (gt_ent var h kv) l2') in *.
      assert (Es : take_while (fun x => is_gt (cmpv var kv x)) (kvf h b2 :: map (kvf h) l2') = map (kvf h) (b2 :: s')).
      { cbn [take_while]. rewrite G2. cbn [map]. f_equal. rewrite take_while_map. f_equal. unfold s'.
        apply take_while_ext_in. intros y Hy. symmetry. apply gt_ent_live. apply Lall. apply in_or_app. right. right. right. exact Hy. }
      rewrite Es. rewrite map_length.
      destruct (last_of (b2 :: s')) as [d|] eqn:Ed; [|apply last_of_none in Ed; discriminate].
      pose proof (some_inj _ _ _ CF) as Ecf. rewrite Ecf.
      destruct (last_of_split _ _ _ Ed) as (s0 & Es0).
      (* l2 = (b2 :: s') ++ rest *)
      set (rest := drop_while (gt_ent var h kv) l2').
      assert (Er : b2 :: l2' = (b2 :: s') ++ rest).
      { cbn [app]. f_equal. unfold s', rest. symmetry. apply take_drop_while. }
      assert (Esplit : l1 ++ b2 :: l2' = (l1 ++ s0) ++ d :: rest).
      { rewrite Er, Es0. rewrite <- !app_assoc. reflexivity. }
      exists ((l1 ++ s0) ++ d :: e :: rest). split; [apply move_behind_exact; [exact T|exact Esplit]|].
      rewrite !map_app. cbn [map]. rewrite <- app_assoc. f_equal.
      change (kvf h b2 :: map (kvf h) s') with (map (kvf h) (b2 :: s')). rewrite Es0, map_app. cbn [map]. rewrite <- app_assoc. cbn [app].
      f_equal. f_equal. f_equal.
      change (kvf h b2 :: map (kvf h) l2') with (map (kvf h) (b2 :: l2')). rewrite skipn_map.
      replace (length (s0 ++ [d])) with (length (b2 :: s')) by (rewrite Es0; reflexivity).
      rewrite Er at 1. rewrite skipn_app, skipn_all, Nat.sub_diag. reflexivity. }
  destruct (last_of l1) as [b|] eqn:EL.
  - rewrite <- last_of_rev_head. rewrite EL. cbn [option_map].
    assert (Hb : In b l1) by (apply last_of_in; exact EL).
    rewrite (CE b) by (apply in_or_app; left; exact Hb).
    destruct (is_lt (cmpv var kv (kvf h b))) eqn:Gb; [|exact Fwd].
    destruct l1 as [|x l1']; [destruct Hb|]. cbn [app head_opt map].
    rewrite (CE x) by (left; reflexivity).
    destruct (is_lt (cmpv var kv (kvf h x))).
    + exists (e :: (x :: l1') ++ l2). split; [exact (move_front_exact h I (x :: l1') l2 e T)|]. cbn [map]. rewrite map_app. reflexivity.
    + (* creep back *)
      destruct (last_of_split _ _ _ EL) as (l0 & El0).
      pose proof (creep_back_spec var h _ kv L (length ((x :: l1') ++ e :: l2)) l0 b (e :: l2)) as CB.
      rewrite El0 in CB at 1. rewrite <- app_assoc in CB. specialize (CB eq_refl).
      assert (Hlen : length l0 <= length ((x :: l1') ++ e :: l2)) by (rewrite El0, !app_length; lia).
      specialize (CB Hlen).
      set (T0 := take_while (lt_ent var h kv) (rev l0)) in *.
      (* the ideal side's suffix *)
      assert (Es : rev (take_while (fun y => is_lt (cmpv var kv y)) (rev (map (kvf h) (x :: l1')))) = map (kvf h) (rev (b :: T0))).
      { rewrite <- (map_rev (kvf h) (x :: l1')). rewrite take_while_map. rewrite <- map_rev. f_equal. f_equal.
        rewrite El0, rev_app_distr. cbn [rev app take_while]. rewrite Gb. f_equal. unfold T0. apply take_while_ext_in.
        intros y Hy. symmetry. apply lt_ent_live. apply Lall. apply in_or_app. left. rewrite El0. apply in_or_app. left. apply in_rev. exact Hy. }
      change (kvf h x :: map (kvf h) l1') with (map (kvf h) (x :: l1')). rewrite Es.
      destruct (last_of (b :: T0)) as [f|] eqn:Ef; [|apply last_of_none in Ef; discriminate].
      pose proof (some_inj _ _ _ CB) as Ecb. change ((x :: l1') ++ e :: l2) with (x :: l1' ++ e :: l2) in Ecb. rewrite Ecb.
      (* l1 = p ++ rev (b :: T0), and rev (b :: T0) = f :: s1 *)
      assert (Ep : x :: l1' = rev (drop_while (lt_ent var h kv) (rev l0)) ++ rev (b :: T0)).
      { rewrite El0. cbn [rev]. rewrite app_assoc. f_equal. unfold T0. rewrite <- rev_app_distr, take_drop_while. symmetry. apply rev_involutive. }
      set (p := rev (drop_while (lt_ent var h kv) (rev l0))) in *.
      assert (Ef2 : exists s1, rev (b :: T0) = f :: s1).
      { unfold last_of in Ef. destruct (rev (b :: T0)) as [|f' s1]; [discriminate|]. inversion Ef; subst. exists s1; reflexivity. }
      destruct Ef2 as (s1 & Es1).
      assert (Esplit : (x :: l1') ++ l2 = p ++ f :: (s1 ++ l2)).
      { rewrite Ep, Es1, <- app_assoc. reflexivity. }
      exists (p ++ e :: f :: (s1 ++ l2)). split; [exact (move_before_exact h I (x :: l1') l2 p (s1 ++ l2) e f T Esplit)|].
      rewrite map_length. rewrite Ep at 1 2. rewrite !map_app, app_length, !map_length.
      replace (length p + length (rev (b :: T0)) - length (rev (b :: T0))) with (length p) by lia.
      rewrite firstn_app, firstn_all2 by (rewrite map_length; lia). rewrite map_length, Nat.sub_diag. cbn [firstn]. rewrite app_nil_r.
      cbn [map]. f_equal. f_equal. rewrite Es1. cbn [map]. rewrite map_app. reflexivity.
  - rewrite <- last_of_rev_head, EL. cbn [option_map]. exact Fwd.
Qed.

(* ------------------------------------------------------------------ Clear / EnsureSize *)

Lemma abs_empty : forall c f a il, abs (mkHt (PositiveMap.empty node) None None 0 c f a il) = [].
Proof. reflexivity. Qed.

Lemma abs_tab_clear : forall dcap h I r, abs_tab (fst (clear_tab dcap h I r)) = l0_clear dcap (abs_tab h) r.
Proof. intros. unfold clear_tab, l0_clear, abs_tab. cbn. destruct r; reflexivity. Qed.

Lemma abs_with_cap : forall h c, abs (with_cap h c) = abs h.
Proof.
  intros h c. unfold abs, ids, kvs_of. cbn [cnt hd with_cap].
  assert (W : forall fuel x, walk (with_cap h c) x fuel = walk h x fuel).
  { induction fuel as [|f IH]; intros x; [reflexivity|]. cbn [walk]. destruct x; [|reflexivity]. f_equal. apply IH. }
  rewrite W. reflexivity.
Qed.

Lemma abs_tab_ensure : forall dcap h I l req sh, tinv h l ->
  abs_tab (fst (fst (ensure_size dcap h I req sh))) = fst (l0_ensure dcap (abs_tab h) req sh) /\
  snd (ensure_size dcap h I req sh) = snd (l0_ensure dcap (abs_tab h) req sh).
Proof.
  intros dcap h I l req sh T. unfold ensure_size, l0_ensure. cbn [pairs acap aasort abs_tab].
  assert (El : length (abs h) = cnt h) by (rewrite (tinv_abs h l T), map_length; symmetry; apply (ti_cnt _ _ T)).
  rewrite El.
  destruct (N.eqb _ (cap h)); [split; reflexivity|].
  destruct (N.eqb _ 0); [split; reflexivity|].
  destruct (N.eqb _ 4294967295); [split; reflexivity|].
  cbn [fst snd]. split; [|reflexivity]. unfold abs_tab. rewrite abs_with_cap. reflexivity.
Qed.

(* ------------------------------------------------------------------ PutAux *)

Lemma abs_set_val : forall h l1 l2 e v, tinv h (l1 ++ e :: l2) ->
  abs (set_val h e v) = a_set (abs h) (keyf h e) v.
Proof.
  intros h l1 l2 e v T.
  assert (Hin : In e (l1 ++ e :: l2)) by (apply in_or_app; right; left; reflexivity).
  destruct (tinv_set_val h _ e v T Hin) as (T1 & _ & Ke & Ko).
  pose proof (lk_nodup _ _ (ti_linked _ _ T)) as Hnd. destruct (nodup_split_notin _ _ _ Hnd) as [Hn1 Hn2].
  rewrite (tinv_abs _ _ T1), (tinv_abs _ _ T).
  rewrite (a_set_map_split h l1 e l2 v (keys_split_left h l1 e l2 (ti_keys _ _ T))).
  rewrite map_app. cbn [map]. rewrite Ke. f_equal; [|f_equal]; apply map_ext_in; intros y Hy; apply Ko; intro; subst; contradiction.
Qed.

Lemma reposition_aux_exact : forall var h I l1 l2 e, tinv h (l1 ++ e :: l2) ->
  exists l', moved h I e (l1 ++ e :: l2) l' (reposition_aux var h I e) /\
             map (kvf h) l' = l0_reposition var (map (kvf h) (l1 ++ e :: l2)) (keyf h e).
Proof.
  intros var h I l1 l2 e T. pose proof (reposition_ordered_exact var h I l1 l2 e T) as R.
  unfold reposition_aux, l0_reposition. destruct var; [|exact R|exact R].
  exists (l1 ++ e :: l2). split; [apply moved_id; exact T|reflexivity].
Qed.

Lemma find_id_with_cap : forall h c k l, find_id (with_cap h c) k l = find_id h k l.
Proof. intros h c k. induction l as [|x l IH]; [reflexivity|]. cbn [find_id]. rewrite IH. reflexivity. Qed.

Definition l0_put_body (var : variant) (dcap : N) (x : tab0) (k v : Z) : tab0 * option Z :=
  match a_get (pairs x) k with
  | Some old => (with_pairs x (l0_reposition var (a_set (pairs x) k v) k), Some old)
  | None =>
    let x1 := if N.eqb (N.of_nat (length (pairs x))) (acap x) then fst (l0_ensure dcap x (acap x * 2) false) else x in
    (with_pairs x1 (l0_insert_new var (pairs x1) (aasort x1) (k, v)), None)
  end.

Lemma l0_put_alloc : forall var dcap h k v,
  l0_put var dcap (abs_tab h) k v = l0_put_body var dcap (abs_tab (ensure_allocated dcap h)) k v.
Proof.
  intros. unfold l0_put, l0_put_body, ensure_allocated, abs_tab. cbn [acap pairs aasort].
  destruct (N.eqb (cap h) 0); [rewrite abs_with_cap|]; reflexivity.
Qed.

Lemma abs_tab_put_aux : forall var dcap h I l k v, tinv h l ->
  abs_tab (pa_h (put_aux var dcap h I k v)) = fst (l0_put var dcap (abs_tab h) k v) /\
  snd (put_aux var dcap h I k v) = snd (l0_put var dcap (abs_tab h) k v).
Proof.
  intros var dcap h I l k v T0. rewrite l0_put_alloc. unfold put_aux, l0_put_body.
  set (h0 := ensure_allocated dcap h).
  assert (T : tinv h0 l) by (unfold h0, ensure_allocated; destruct (N.eqb (cap h) 0); [apply tinv_with_cap|]; exact T0).
  cbn [pairs acap aasort abs_tab].
  rewrite (find_key_get h0 l k T).
  destruct (find_key h0 k) as [e|] eqn:Ef.
  - destruct (find_key_split h0 l k e T Ef) as (l1 & l2 & -> & Hk).
    assert (Le : live h0 e) by (apply (lk_live _ _ (ti_linked _ _ T)); apply in_or_app; right; left; reflexivity).
    rewrite (val_of_valf h0 e Le). unfold kv_of. fold (kv_of h0 e). rewrite (kv_of_live h0 e Le). cbn [snd].
    assert (Hin : In e (l1 ++ e :: l2)) by (apply in_or_app; right; left; reflexivity).
    destruct (tinv_set_val h0 _ e v T Hin) as (T1 & _ & Ke & _).
    destruct (reposition_aux_exact var (set_val h0 e v) I l1 l2 e T1) as (l' & Mv & El').
    destruct (reposition_aux var (set_val h0 e v) I e) as [h1 I1] eqn:ER.
    destruct (abs_moved _ _ _ _ _ _ T1 Mv) as (_ & Ab & Hcap & Has & _). cbn [fst] in *.
    unfold pa_h. cbn [fst snd]. split; [|reflexivity].
    unfold abs_tab, with_pairs. cbn [pairs acap aasort]. rewrite Ab, El'.
    destruct (meta_set_val h0 e v) as (_ & Mcap & _ & Ma & _). rewrite Hcap, Has, Mcap, Ma.
    f_equal. rewrite <- (tinv_abs _ _ T1). rewrite (abs_set_val h0 l1 l2 e v T).
    assert (Ek : keyf (set_val h0 e v) e = k) by (unfold keyf; rewrite Ke; exact Hk).
    rewrite Ek, Hk. reflexivity.
  - (* new key *)
    rewrite (tinv_find_key h0 l k T) in Ef.
    assert (ES : exists h00 I0 st,
              (if N.eqb (N.of_nat (cnt h0)) (cap h0) then ensure_size dcap h0 I (cap h0 * 2) false else (h0, I, 0)) = (h00, I0, st) /\
              tinv h00 l /\ find_id h00 k l = None /\
              abs_tab h00 = (if N.eqb (N.of_nat (length (abs h0))) (cap h0) then fst (l0_ensure dcap (abs_tab h0) (cap h0 * 2) false) else abs_tab h0)).
    { assert (El : length (abs h0) = cnt h0) by (rewrite (tinv_abs h0 l T), map_length; symmetry; apply (ti_cnt _ _ T)).
      rewrite El. destruct (N.eqb (N.of_nat (cnt h0)) (cap h0)) eqn:Efull.
      - destruct (abs_tab_ensure dcap h0 I l (cap h0 * 2) false T) as [A _].
        unfold ensure_size in *. apply N.eqb_eq in Efull.
        assert (Hbig : N.max (N.of_nat (cnt h0)) (N.max (cap h0 * 2) (cap h0)) = (cap h0 * 2)%N) by lia.
        rewrite Hbig in *.
        destruct (N.eqb (cap h0 * 2) (cap h0)) eqn:E1.
        + exists h0, I, 0. cbn [fst] in A. auto.
        + destruct (N.eqb (cap h0 * 2) 0) eqn:E2; [apply N.eqb_eq in E2; apply N.eqb_neq in E1; lia|].
          destruct (N.eqb (cap h0 * 2) 4294967295) eqn:E3.
          * exists h0, I, 3. cbn [fst] in A. auto.
          * exists (with_cap h0 (cap h0 * 2)), I, 0. cbn [fst] in A. split; [reflexivity|split; [apply tinv_with_cap; exact T|split; [rewrite find_id_with_cap; exact Ef|exact A]]].
      - exists h0, I, 0. auto. }
    destruct ES as (h00 & I0 & st & -> & T00 & Ef00 & A00).
    destruct (abs_insert_new var h00 l k v T00 Ef00) as (m1 & m2 & _ & T' & Ab & Hcap & Has & _).
    destruct (alloc_node h00 k v) as [h1 e] eqn:EA. cbn [fst snd] in *.
    unfold pa_h. cbn [fst snd]. split; [|reflexivity].
    unfold abs_tab at 1. rewrite Ab, Hcap, Has. unfold with_pairs.
    set (x1 := if N.eqb (N.of_nat (length (abs h0))) (cap h0) then fst (l0_ensure dcap (abs_tab h0) (cap h0 * 2) false) else abs_tab h0) in *.
    rewrite <- A00. cbn [pairs acap aasort abs_tab]. reflexivity.
Qed.

(* ------------------------------------------------------------------ sorting *)

Lemma ins_id_map : forall h cmp x acc, live h x -> (forall y, In y acc -> live h y) ->
  map (kvf h) (ins_id h cmp x acc) = ins_sorted cmp (kvf h x) (map (kvf h) acc).
Proof.
  intros h cmp x acc Lx. induction acc as [|y r IH]; intros La; [reflexivity|].
  cbn [ins_id map ins_sorted]. rewrite (kv_of_live h x Lx), (kv_of_live h y (La y (or_introl eq_refl))).
  destruct (cmp (kvf h x) (kvf h y)); cbn [map]; try reflexivity; (f_equal; apply IH; intros z Hz; apply La; right; exact Hz).
Qed.

Lemma sort_ids_map : forall h cmp l, (forall y, In y l -> live h y) ->
  map (kvf h) (sort_ids h cmp l) = stable_sort cmp (map (kvf h) l).
Proof.
  intros h cmp l Hl. unfold sort_ids, stable_sort.
  assert (G : forall l acc, (forall y, In y l -> live h y) -> (forall y, In y acc -> live h y) ->
            map (kvf h) (fold_left (fun acc x => ins_id h cmp x acc) l acc)
            = fold_left (fun acc x => ins_sorted cmp x acc) (map (kvf h) l) (map (kvf h) acc)).
  { induction l0 as [|x l0 IH]; intros acc Hl0 Ha; [reflexivity|]. cbn [fold_left map].
    rewrite IH.
    - rewrite ins_id_map; [reflexivity|apply Hl0; left; reflexivity|exact Ha].
    - intros y Hy. apply Hl0. right; exact Hy.
    - intros y Hy. pose proof (ins_id_perm h cmp x acc) as P.
      apply (Permutation_in _ (Permutation_sym P)) in Hy. destruct Hy as [<-|Hy]; [apply Hl0; left; reflexivity|apply Ha; exact Hy]. }
  apply (G l [] Hl). intros y [].
Qed.

Lemma abs_sort_by : forall h l cmp, tinv h l ->
  abs (sort_by h cmp) = stable_sort cmp (abs h) /\ cap (sort_by h cmp) = cap h /\ asort (sort_by h cmp) = asort h /\
  tinv (sort_by h cmp) (sort_ids h cmp l).
Proof.
  intros h l cmp T. unfold sort_by. rewrite (tinv_ids h l T).
  pose proof (relink_tinv h l (sort_ids h cmp l) T (sort_ids_perm h cmp l)) as T'.
  assert (Hnd : NoDup (sort_ids h cmp l)) by apply (lk_nodup _ _ (ti_linked _ _ T')).
  assert (Hl : forall y, In y (sort_ids h cmp l) -> live (with_hd h (head_opt (sort_ids h cmp l))) y).
  { intros y Hy. apply (lk_live _ _ (ti_linked _ _ T)). eapply Permutation_in; [apply Permutation_sym, sort_ids_perm|exact Hy]. }
  destruct (relink_from_spec (sort_ids h cmp l) (with_hd h (head_opt (sort_ids h cmp l))) None Hnd Hl) as (_ & _ & _ & _ & S & (Mc & Mcap & Mf & Ma & Mi)).
  unfold relink in *. split; [|split; [exact Mcap|split; [exact Ma|exact T']]].
  rewrite (tinv_abs _ _ T'), (tinv_abs _ _ T).
  rewrite <- (sort_ids_map h cmp l (lk_live _ _ (ti_linked _ _ T))).
  apply map_ext. intros y. apply (kvf_same_data _ _ S).
Qed.

Lemma abs_sort_aux : forall var h l, tinv h l ->
  abs (sort_aux var h) = l0_sort_aux var (abs h) /\ cap (sort_aux var h) = cap h /\ asort (sort_aux var h) = asort h /\
  exists l', tinv (sort_aux var h) l'.
Proof.
  intros var h l T. unfold sort_aux, l0_sort_aux.
  assert (O : forall v, abs (sort_by h (cmp_var v)) = stable_sort (cmpv v) (abs h) /\ cap (sort_by h (cmp_var v)) = cap h /\
               asort (sort_by h (cmp_var v)) = asort h /\ exists l', tinv (sort_by h (cmp_var v)) l').
  { intros v. destruct (abs_sort_by h l (cmp_var v) T) as (A & B & C & D). split; [exact A|split; [exact B|split; [exact C|eexists; exact D]]]. }
  destruct var; [split; [reflexivity|split; [reflexivity|split; [reflexivity|eexists; exact T]]]|apply O|apply O].
Qed.
