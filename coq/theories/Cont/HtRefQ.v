(* C09 -- refinement of the read-only operations: every query of step1 computed through the links
   equals the ideal-map query on [abs]. *)
From Coq Require Import List Arith ZArith NArith PArith Bool Lia FMapPositive Permutation.
From Muscle Require Import Cont.HtModel Cont.HtStep Cont.HtIdeal Cont.HtLemmas Cont.HtRepr Cont.HtWalk Cont.HtIters
                           Cont.HtTable Cont.HtMoves Cont.HtPut Cont.HtExact Cont.HtAbs Cont.HtRefTab.
Import ListNotations.

Lemma key_of_opt_live : forall h o, (forall e, o = Some e -> live h e) ->
  key_of_opt h o = option_map (keyf h) o.
Proof.
  intros h [e|] H; [|reflexivity]. cbn. apply key_of_keyf. apply H. reflexivity.
Qed.

Lemma nth_error_map' : forall A B (g : A -> B) l n, nth_error (map g l) n = option_map g (nth_error l n).
Proof. intros. apply nth_error_map. Qed.

Section Q.
Variables (h : ht) (l : list positive).
Hypothesis T : tinv h l.

Let L := ti_linked _ _ T.
Let Lall : forall y, In y l -> live h y := lk_live _ _ L.

Lemma q_contains : forall k, (match find_key h k with Some _ => true | None => false end) = is_some (a_get (abs h) k).
Proof.
  intros k. rewrite (find_key_get h l k T). destruct (find_key h k) as [e|] eqn:E; [|reflexivity].
  destruct (find_key_some_in h l k e T E) as [He _]. rewrite (val_of_valf h e (Lall e He)). reflexivity.
Qed.

Lemma q_index_of_key : forall k,
  (match find_key h k with
   | Some e => if opt_pos_eqb (tl h) (Some e) then Some (cnt h - 1) else Some (length (walk_back h (get_prev h e) (cnt h)))
   | None => None end) = a_index (abs h) k 0.
Proof.
  intros k. rewrite (tinv_abs h l T). destruct (find_key h k) as [e|] eqn:E.
  - destruct (find_key_split h l k e T E) as (l1 & l2 & El & Hk). subst k.
    assert (Ex : a_index (map (kvf h) l) (keyf h e) 0 = Some (length l1)).
    { rewrite El. rewrite (a_index_map_split h l1 e l2 0); [reflexivity|]. apply (keys_split_left h l1 e l2). rewrite <- El. apply (ti_keys _ _ T). }
    rewrite Ex. rewrite (ti_cnt _ _ T).
    destruct (opt_pos_eqb (tl h) (Some e)) eqn:Et.
    + apply opt_pos_eqb_true in Et. rewrite (lk_tl _ _ L), El, last_of_app_cons in Et.
      destruct l2 as [|x l2'].
      * rewrite El, app_length. cbn [length]. f_equal. lia.
      * exfalso. rewrite last_of_cons_cons in Et. apply last_of_in in Et.
        pose proof (lk_nodup _ _ L) as Hnd. rewrite El in Hnd. apply nodup_split_notin in Hnd. tauto.
    + rewrite (prev_of_prefix h l l1 e l2 L El). rewrite (walk_back_prefix h l L (length l) l1 (e :: l2) El).
      rewrite firstn_all2 by (rewrite rev_length, El, app_length; lia). rewrite rev_length. reflexivity.
  - symmetry. apply a_index_map_none. apply find_id_none. rewrite <- (tinv_find_key h l k T). exact E.
Qed.

Lemma q_key_at : forall idx, key_of_opt h (entry_at h idx) = a_key_at (abs h) idx.
Proof.
  intros idx. rewrite (entry_at_linked h l idx L (ti_cnt _ _ T)), (tinv_abs h l T). unfold a_key_at. rewrite nth_error_map'.
  destruct (nth_error l idx) as [e|] eqn:E; [|reflexivity]. cbn. apply key_of_keyf. apply Lall. eapply nth_error_In; eassumption.
Qed.

Lemma q_val_at : forall idx, (match entry_at h idx with Some e => val_of h e | None => None end) = a_val_at (abs h) idx.
Proof.
  intros idx. rewrite (entry_at_linked h l idx L (ti_cnt _ _ T)), (tinv_abs h l T). unfold a_val_at. rewrite nth_error_map'.
  destruct (nth_error l idx) as [e|] eqn:E; [|reflexivity]. cbn. apply val_of_valf. apply Lall. eapply nth_error_In; eassumption.
Qed.

Lemma q_first_key : key_of_opt h (hd h) = a_key_at (abs h) 0.
Proof.
  rewrite (lk_hd _ _ L), (tinv_abs h l T). unfold a_key_at. destruct l as [|x l']; [reflexivity|]. cbn.
  apply key_of_keyf. apply Lall. left; reflexivity.
Qed.

Lemma q_last_key : key_of_opt h (tl h) = match last_opt (abs h) with Some kv => Some (fst kv) | None => None end.
Proof.
  rewrite (lk_tl _ _ L), (tinv_abs h l T), last_opt_map. fold (last_of l).
  destruct (last_of l) as [e|] eqn:E; [|reflexivity]. cbn. apply key_of_keyf. apply Lall. apply last_of_in. exact E.
Qed.

Lemma q_key_before : forall k,
  (match find_key h k with Some e => key_of_opt h (get_prev h e) | None => None end) =
  (match a_index (abs h) k 0 with Some (S i) => a_key_at (abs h) i | _ => None end).
Proof.
  intros k. rewrite <- q_index_of_key. destruct (find_key h k) as [e|] eqn:E; [|reflexivity].
  destruct (find_key_split h l k e T E) as (l1 & l2 & El & Hk).
  assert (Ei : (if opt_pos_eqb (tl h) (Some e) then Some (cnt h - 1) else Some (length (walk_back h (get_prev h e) (cnt h)))) = Some (length l1)).
  { pose proof (q_index_of_key k) as Q. rewrite E in Q. rewrite Q, (tinv_abs h l T), El. subst k.
    apply (a_index_map_split h l1 e l2 0). apply (keys_split_left h l1 e l2). rewrite <- El. apply (ti_keys _ _ T). }
  rewrite Ei. rewrite (prev_of_prefix h l l1 e l2 L El).
  destruct (last_of l1) as [p|] eqn:EL.
  - destruct (last_of_split _ _ _ EL) as (l0 & ->). rewrite app_length. cbn [length]. replace (length l0 + 1) with (S (length l0)) by lia.
    rewrite (tinv_abs h l T), El. unfold a_key_at. rewrite nth_error_map'.
    rewrite <- app_assoc. cbn [app]. rewrite nth_error_mid. cbn.
    apply key_of_keyf. apply Lall. rewrite El. apply in_or_app. left. apply in_or_app. right. left. reflexivity.
  - apply last_of_none in EL. subst l1. reflexivity.
Qed.

Lemma q_key_after : forall k,
  (match find_key h k with Some e => key_of_opt h (get_next h e) | None => None end) =
  (match a_index (abs h) k 0 with Some i => a_key_at (abs h) (S i) | None => None end).
Proof.
  intros k. rewrite <- q_index_of_key. destruct (find_key h k) as [e|] eqn:E; [|reflexivity].
  destruct (find_key_split h l k e T E) as (l1 & l2 & El & Hk).
  assert (Ei : (if opt_pos_eqb (tl h) (Some e) then Some (cnt h - 1) else Some (length (walk_back h (get_prev h e) (cnt h)))) = Some (length l1)).
  { pose proof (q_index_of_key k) as Q. rewrite E in Q. rewrite Q, (tinv_abs h l T), El. subst k.
    apply (a_index_map_split h l1 e l2 0). apply (keys_split_left h l1 e l2). rewrite <- El. apply (ti_keys _ _ T). }
  rewrite Ei. rewrite (next_of_suffix h l l1 e l2 L El).
  rewrite (tinv_abs h l T), El. unfold a_key_at. rewrite nth_error_map'.
  replace (nth_error (l1 ++ e :: l2) (S (length l1))) with (head_opt l2).
  - destruct l2 as [|n l2']; [reflexivity|]. cbn. apply key_of_keyf. apply Lall. rewrite El. apply in_or_app. right. right. left. reflexivity.
  - rewrite nth_error_app2 by lia. replace (S (length l1) - length l1) with 1 by lia. destruct l2; reflexivity.
Qed.

End Q.

(* ------------------------------------------------------------------ IndexOfValue *)

Lemma scan_val_fwd_spec : forall h l v, linked h l -> forall fuel pre suf idx, l = pre ++ suf ->
  scan_val_fwd h v (head_opt suf) idx fuel = a_index_of_value (map (kvf h) (firstn fuel suf)) v idx.
Proof.
  intros h l v L. induction fuel as [|f IH]; intros pre suf idx E; [reflexivity|].
  destruct suf as [|x suf']; [reflexivity|]. cbn [head_opt scan_val_fwd firstn map a_index_of_value].
  assert (Lx : live h x) by (apply (lk_live _ _ L); subst l; apply in_or_app; right; left; reflexivity).
  unfold live in Lx. destruct (getn h x) as [nd|] eqn:Ex; [|congruence].
  destruct (keyf_live _ _ _ Ex) as [Ek Ev]. rewrite (kvf_pair h x), Ev.
  destruct (Z.eqb (nv nd) v); [reflexivity|].
  assert (En : nnext nd = get_next h x) by (unfold get_next; rewrite Ex; reflexivity).
  rewrite En, (next_of_suffix h l pre x suf' L E). apply (IH (pre ++ [x])). rewrite <- app_assoc. exact E.
Qed.

Lemma scan_val_bwd_spec : forall h l v, linked h l -> forall fuel pre suf, l = pre ++ suf -> length pre <= fuel ->
  scan_val_bwd h v (last_of pre) (length pre) fuel =
  match a_index_of_value (map (kvf h) (rev pre)) v 0 with Some j => Some (length pre - 1 - j) | None => None end.
Proof.
  intros h l v L. induction fuel as [|f IH]; intros pre suf E Hf.
  - destruct pre; [reflexivity|cbn in Hf; lia].
  - destruct (last_of pre) as [x|] eqn:EL.
    + destruct (last_of_split _ _ _ EL) as (pre' & ->). rewrite rev_app_distr. cbn [rev app scan_val_bwd map a_index_of_value].
      assert (Lx : live h x) by (apply (lk_live _ _ L); subst l; apply in_or_app; left; apply in_or_app; right; left; reflexivity).
      unfold live in Lx. destruct (getn h x) as [nd|] eqn:Ex; [|congruence].
      destruct (keyf_live _ _ _ Ex) as [Ek Ev]. rewrite (kvf_pair h x), Ev.
      rewrite app_length. cbn [length].
      destruct (Z.eqb (nv nd) v); [f_equal; lia|].
      assert (Ep : nprev nd = get_prev h x) by (unfold get_prev; rewrite Ex; reflexivity).
      rewrite <- app_assoc in E. cbn [app] in E. rewrite Ep, (prev_of_prefix h l pre' x suf L E).
      replace (length pre' + 1 - 1) with (length pre') by lia.
      rewrite (IH pre' (x :: suf) E) by (rewrite app_length in Hf; cbn in Hf; lia).
      (* shifting the start index of the ideal scan *)
      assert (Sh : forall (m : amap) i, a_index_of_value m v (S i) = option_map S (a_index_of_value m v i)).
      { induction m as [|[k' v'] m IHm]; intros i; [reflexivity|]. cbn [a_index_of_value]. destruct (Z.eqb v' v); [reflexivity|apply IHm]. }
      rewrite Sh. destruct (a_index_of_value (map (kvf h) (rev pre')) v 0) as [j|] eqn:Ej; cbn [option_map]; [|reflexivity].
      f_equal.
      assert (Hj : j < length pre').
      { clear - Ej. assert (G : forall (m : amap) i j0, a_index_of_value m v i = Some j0 -> j0 < i + length m).
        { induction m as [|[k' v'] m IHm]; intros i j0 H; [discriminate|]. cbn in H. destruct (Z.eqb v' v).
          - inversion H; subst. cbn. lia.
          - apply IHm in H. cbn. lia. }
        apply G in Ej. rewrite map_length, rev_length in Ej. lia. }
      symmetry. apply (Nat.sub_add_distr (length pre') 1 j).
    + apply last_of_none in EL. subst pre. reflexivity.
Qed.

Lemma q_index_of_value : forall h l v (bw : bool), tinv h l ->
  (if bw then scan_val_bwd h v (tl h) (cnt h) (cnt h) else scan_val_fwd h v (hd h) 0 (cnt h)) =
  (if bw then a_last_index_of_value (abs h) v else a_index_of_value (abs h) v 0).
Proof.
  intros h l v bw T. pose proof (ti_linked _ _ T) as L. rewrite (ti_cnt _ _ T), (tinv_abs h l T). destruct bw.
  - rewrite (lk_tl _ _ L). rewrite (scan_val_bwd_spec h l v L (length l) l [] (eq_sym (app_nil_r l)) (le_n _)).
    unfold a_last_index_of_value. rewrite map_rev, map_length. reflexivity.
  - rewrite (lk_hd _ _ L). rewrite (scan_val_fwd_spec h l v L (length l) [] l 0 eq_refl). rewrite firstn_all. reflexivity.
Qed.
