(* C09 -- what holds for a live iterator under ANY operations, relinking ones included: whatever it
   points at is a live entry of its table (it never yields a removed entry), and advancing it without
   further mutations ends after at most as many steps as it has entries left to visit. *)
From Coq Require Import List Arith ZArith NArith PArith Bool Lia FMapPositive Permutation.
From Muscle Require Import Cont.HtModel Cont.HtStep Cont.HtIdeal Cont.HtLemmas Cont.HtRepr Cont.HtWalk Cont.HtIters
                           Cont.HtTable Cont.HtMoves Cont.HtPut Cont.HtExact Cont.HtPend Cont.HtTrav Cont.HtRefTab
                           Cont.HtInv Cont.HtInvIter Cont.HtSafe Cont.HtSwap Cont.HtSafeAll Cont.HtTravW Cont.HtTravOps
                           Cont.HtTravSem Cont.HtTravThm.
Import ListNotations.

Lemma cur_live : forall w i x, WF w -> cur w i = Some x -> In x (it_list w i).
Proof.
  intros w i x W Hc. unfold cur in Hc. unfold it_list, it_owner.
  destruct (geti (its w) i) as [it|] eqn:Hg; [|discriminate].
  destruct (iscr it); [discriminate|]. destruct (iown it) as [t|] eqn:O; [|discriminate].
  destruct (WF_cookie w i it x W Hg Hc) as [_ (t' & O' & Ht & L)]. rewrite O in O'. inversion O'; subst t'.
  destruct (tl_tinv _ _ _ (wf_tabs _ W t Ht)) as (l & T). rewrite (tinv_ids _ l T). apply (ti_dom _ _ T). exact L.
Qed.

Section Any.
Variable var : variant.
Variable dcap : N.

(* after any operations whatsoever, the entry under the iterator is a live entry of its table, and
   what the iterator shows is that entry's key and value *)
Theorem iter_yields_live : forall ops w i x, WF w -> cur (run1 var dcap w ops) i = Some x ->
  In x (it_list (run1 var dcap w ops) i).
Proof. intros ops w i x W Hc. apply cur_live; [apply run1_WF; exact W|exact Hc]. Qed.

(* ------------------------------------------------------------------ termination *)

Lemma sub_before : forall l c, exists s, l = before l c ++ s.
Proof.
  induction l as [|x r IH]; intros c; [exists []; reflexivity|]. cbn [before]. destruct (Pos.eqb x c); [exists (x :: r); reflexivity|].
  destruct (IH c) as (s & E). exists s. cbn [app]. f_equal. exact E.
Qed.

Lemma sub_after : forall l c, exists s, l = s ++ after l c.
Proof.
  induction l as [|x r IH]; intros c; [exists []; reflexivity|]. cbn [after]. destruct (Pos.eqb x c); [exists [x]; reflexivity|].
  destruct (IH c) as (s & E). exists (x :: s). cbn [app]. f_equal. exact E.
Qed.

Lemma rest_of_nodup : forall bw l c, NoDup l -> NoDup (rest_of bw l c).
Proof.
  intros bw l c Hnd. unfold rest_of. destruct bw.
  - destruct (sub_before l c) as (s & E). rewrite E in Hnd. apply nodup_app_l in Hnd. exact Hnd.
  - destruct (sub_after l c) as (s & E). rewrite E in Hnd. apply nodup_app_r in Hnd. exact Hnd.
Qed.

Lemma pending_nodup : forall w i, WF w -> NoDup (pending w i).
Proof.
  intros w i W. unfold pending. destruct (geti (its w) i) as [it|] eqn:Hg; [|constructor].
  destruct (iown it) as [t|] eqn:O; [|constructor].
  pose proof (wf_its _ W i it Hg) as Ht. rewrite O in Ht.
  destruct (tl_tinv _ _ _ (wf_tabs _ W t Ht)) as (l & T). rewrite (tinv_ids _ l T).
  pose proof (lk_nodup _ _ (ti_linked _ _ T)) as Hnd.
  unfold pend. destruct (icookie it) as [c|]; [|constructor].
  destruct (iscr it); cbn [app]; [|apply rest_of_nodup; exact Hnd].
  constructor; [apply rest_of_notin_self; exact Hnd|apply rest_of_nodup; exact Hnd].
Qed.

Lemma pending_le_list : forall w i, WF w -> length (pending w i) <= length (it_list w i).
Proof.
  intros w i W. apply NoDup_incl_length; [apply pending_nodup; exact W|].
  intros n Hn. apply pending_incl; assumption.
Qed.

Lemma adv_shown_none : forall w i, cur (fst (step1 var dcap w (OIterAdv i))) i = None ->
  shown (fst (step1 var dcap w (OIterAdv i))) i = None /\ pending (fst (step1 var dcap w (OIterAdv i))) i = [].
Proof.
  intros w i. cbn [step1]. destruct (geti (its w) i) as [it|] eqn:Hg.
  - cbn [fst]. pose proof (geti_some_lt _ _ _ Hg) as Hi.
    set (it' := match iscr it with Some _ => _ | None => _ end).
    assert (Es : iscr it' = None) by (unfold it'; destruct (iscr it); reflexivity).
    unfold cur, shown, pending. cbn [its seti_w]. rewrite geti_seti_same by exact Hi. rewrite Es.
    destruct (iown it') as [t|]; [|auto]. intros Hk. rewrite Hk. unfold pend. rewrite Hk. auto.
  - cbn [fst]. intros _. unfold shown, pending. rewrite Hg. auto.
Qed.

(* advancing an iterator, with no other operation in between, reaches the end within as many
   steps as it has entries left to visit (plus the one that finds the end) *)
Theorem adv_terminates : forall i n w, WF w -> length (pending w i) < n ->
  shown (run1 var dcap w (repeat (OIterAdv i) n)) i = None.
Proof.
  intros i. induction n as [|m IH]; intros w W Hlt; [lia|].
  cbn [repeat]. change (run1 var dcap w (OIterAdv i :: repeat (OIterAdv i) m))
    with (run1 var dcap (fst (step1 var dcap w (OIterAdv i))) (repeat (OIterAdv i) m)).
  pose proof (step1_WF var dcap w (OIterAdv i) W) as W'.
  destruct (adv_step var dcap w i W) as (_ & _ & _ & _ & Psub & _ & Pc). cbn zeta in *.
  set (w' := fst (step1 var dcap w (OIterAdv i))) in *.
  destruct (cur w' i) as [x|] eqn:Ec.
  - destruct (Pc x eq_refl) as [Hx Hnx].
    assert (L : length (x :: pending w' i) <= length (pending w i)).
    { apply NoDup_incl_length; [constructor; [exact Hnx|apply pending_nodup; exact W']|].
      intros y [<-|Hy]; [exact Hx|apply Psub; exact Hy]. }
    cbn [length] in L. apply IH; [exact W'|lia].
  - destruct (adv_shown_none w i Ec) as [Hs Hp]. fold w' in Hs, Hp.
    destruct m as [|m']; [exact Hs|]. apply IH; [exact W'|rewrite Hp; cbn; lia].
Qed.

Corollary adv_terminates_cnt : forall i w, WF w ->
  shown (run1 var dcap w (repeat (OIterAdv i) (S (length (it_list w i))))) i = None.
Proof. intros i w W. apply adv_terminates; [exact W|]. pose proof (pending_le_list w i W). lia. Qed.

End Any.
