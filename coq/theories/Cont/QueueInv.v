(* C16 -- the representation invariant of the Queue model and the primitive operations
   (window moves at either end, Clear, Remove{Head,Tail}Multi). *)
From Coq Require Import List Arith ZArith Bool Lia ZifyBool.
From Muscle Require Import Cont.QueueModel Cont.QueueLemmas.
Import ListNotations.
Local Open Scope nat_scope.

Ltac qunf :=
  unfold getu, setu, set_raw, intern, next_index, prev_index, qsize in *;
  cbv zeta in *; cbn [st arr cnt head tail inl] in *.

Section Inv.
Variables (owning : bool) (sq : nat).

(* storage kind vs. array length: _queue==NULL has no slots, the inline array has exactly
   ARRAYITEMS(_smallQueue) slots, a heap array is never shorter than the inline one *)
Definition store_ok (q : q1) : Prop :=
  match st q with SNull => qsize q = 0 | SSmall => qsize q = sq | SHeap => True end.

(* owning items: every slot outside the live window holds the default item.  Slots outside
   the window are exactly the user indices cnt .. qsize-1 (see [inv_outside_window]). *)
Definition clean (q : q1) : Prop :=
  owning = true -> forall i, cnt q <= i < qsize q -> getu q i = dflt.

(* the in-object array while it is not the active one: present, and all default items for owning types *)
Definition inl_ok (q : q1) : Prop :=
  st q <> SSmall ->
  length (inl q) = sq /\ (owning = true -> forall i, i < sq -> nth i (inl q) dflt = dflt).

Record inv (q : q1) : Prop := mkInv {
  inv_sq : 0 < sq;     (* ARRAYITEMS(_smallQueue) >= 1 *)
  inv_cnt : cnt q <= qsize q;
  inv_head : 0 < qsize q -> head q < qsize q;
  inv_tail : 0 < cnt q -> tail q = intern q (cnt q - 1);
  inv_store : store_ok q;
  inv_clean : clean q;
  inv_inl : inl_ok q }.

Lemma inv_empty jk : 0 < sq -> inv (empty_q owning jk sq).
Proof.
  intros Hsq. constructor; try (cbn; lia).
  - intros _ i Hi. cbn in Hi. lia.
  - intros _. unfold empty_q. cbn [inl]. split; [apply repeat_length|].
    intros Ho i Hi. rewrite nth_repeat'. unfold fresh. rewrite Ho. dif; reflexivity.
Qed.

Lemma store_null_arr q : inv q -> st q = SNull -> arr q = [].
Proof.
  intros I E. pose proof (inv_store q I) as S. unfold store_ok in S. rewrite E in S.
  apply length_zero_iff_nil. exact S.
Qed.

Lemma inv_hd q : inv q -> 0 < cnt q -> head q < qsize q.
Proof. intros I H. apply (inv_head q I). pose proof (inv_cnt q I). lia. Qed.

(* the slot-level reading of [clean] *)
Lemma inv_outside_window q : inv q -> owning = true ->
  forall s, s < qsize q -> (forall i, i < cnt q -> intern q i <> s) -> nth s (arr q) dflt = dflt.
Proof.
  intros I Ho s Hs Hout. assert (Hh : head q < qsize q) by (apply (inv_head q I); lia).
  rewrite nth_arr_getu by assumption.
  destruct (intern_extern q s Hh Hs) as [L E].
  apply (inv_clean q I Ho). split; [|exact L].
  destruct (le_lt_dec (cnt q) (extern q s)) as [|Lt]; [assumption|].
  exfalso. apply (Hout _ Lt). exact E.
Qed.

Lemma inv_same_shape q q' :
  inv q -> st q' = st q -> qsize q' = qsize q -> cnt q' = cnt q -> head q' = head q ->
  tail q' = tail q -> inl q' = inl q ->
  (forall i, cnt q <= i < qsize q -> getu q' i = getu q i) -> inv q'.
Proof.
  intros [I0 I1 I2 I3 I4 I5 I6] Hs Hq Hc Hh Ht Hi Hg. constructor.
  - exact I0.
  - lia.
  - rewrite Hq, Hh. exact I2.
  - rewrite Hc, Ht. intros H. rewrite (intern_congr q q') by assumption. auto.
  - unfold store_ok in *. rewrite Hs, Hq. exact I4.
  - intros Ho i Hi'. rewrite Hc, Hq in Hi'. rewrite Hg by exact Hi'. apply I5; assumption.
  - unfold inl_ok in *. rewrite Hs, Hi. exact I6.
Qed.

(* ------------------------------------------------------------------ writes inside the window *)

Lemma inv_setu q i v : inv q -> i < cnt q -> inv (setu q i v).
Proof.
  intros I Hi. pose proof (inv_cnt q I). pose proof (inv_hd q I ltac:(lia)).
  apply (inv_same_shape q); autorewrite with qdb; try reflexivity; try assumption.
  intros j Hj. rewrite getu_setu by lia. dif; fin.
Qed.

Lemma abs_setu q i v : inv q -> i < cnt q -> abs (setu q i v) = upd (abs q) i v.
Proof.
  intros I Hi. pose proof (inv_cnt q I). pose proof (inv_hd q I ltac:(lia)).
  apply abs_ext; autorewrite with qdb nthdb; [reflexivity|].
  intros j Hj. autorewrite with nthdb in Hj. rewrite getu_setu by lia.
  rewrite nth_upd, nth_abs by lia. autorewrite with nthdb. dif; fin.
Qed.

Lemma getu_abs q i : i < cnt q -> getu q i = nth i (abs q) 0%Z.
Proof. intros. symmetry. apply nth_abs. assumption. Qed.

(* ------------------------------------------------------------------ RemoveHead / RemoveTail *)

Lemma remove_head_eq q : 0 < cnt q ->
  remove_head owning q =
  clear_slot owning (mkQ (st q) (arr q) (cnt q - 1) (next_index q (head q)) (tail q) (inl q)) (head q).
Proof. intros H. unfold remove_head. destruct (cnt q); [lia|]. cbn [Nat.sub]. rewrite Nat.sub_0_r. reflexivity. Qed.

Lemma remove_tail_eq q : 0 < cnt q ->
  remove_tail owning q =
  clear_slot owning (mkQ (st q) (arr q) (cnt q - 1) (head q) (prev_index q (tail q)) (inl q)) (tail q).
Proof. intros H. unfold remove_tail. destruct (cnt q); [lia|]. cbn [Nat.sub]. rewrite Nat.sub_0_r. reflexivity. Qed.

Lemma remove_head_shape q : inv q -> 0 < cnt q ->
  let q' := remove_head owning q in
  st q' = st q /\ qsize q' = qsize q /\ cnt q' = cnt q - 1 /\ head q' = next_index q (head q) /\
  tail q' = tail q /\ inl q' = inl q /\
  (forall i, i < qsize q ->
     getu q' i = if i + 1 <? qsize q then getu q (i + 1) else if owning then dflt else getu q 0).
Proof.
  intros I Hc q'. subst q'. rewrite remove_head_eq by assumption.
  pose proof (inv_cnt q I). pose proof (inv_hd q I Hc).
  unfold clear_slot. destruct owning.
  - repeat split; autorewrite with qdb; try reflexivity.
    intros i Hi. qunf. rewrite ?upd_length, ?nth_upd. difh; fin.
  - repeat split; try reflexivity.
    intros i Hi. qunf. difh; fin.
Qed.

Lemma remove_tail_shape q : inv q -> 0 < cnt q ->
  let q' := remove_tail owning q in
  st q' = st q /\ qsize q' = qsize q /\ cnt q' = cnt q - 1 /\ head q' = head q /\
  tail q' = prev_index q (tail q) /\ inl q' = inl q /\
  (forall i, i < qsize q ->
     getu q' i = if owning && (i =? cnt q - 1) then dflt else getu q i).
Proof.
  intros I Hc q'. subst q'. rewrite remove_tail_eq by assumption.
  pose proof (inv_cnt q I). pose proof (inv_hd q I Hc). pose proof (inv_tail q I Hc) as Ht.
  unfold clear_slot. destruct owning.
  - repeat split; autorewrite with qdb; try reflexivity.
    intros i Hi. rewrite Ht. qunf. rewrite ?upd_length, ?nth_upd. difh; fin.
  - repeat split; try reflexivity.
Qed.

Lemma inv_remove_head q : inv q -> 0 < cnt q -> inv (remove_head owning q).
Proof.
  intros I Hc. destruct (remove_head_shape q I Hc) as (Hs & Hq & Hn & Hh & Ht & Hl & Hg).
  pose proof (inv_cnt q I). pose proof (inv_hd q I Hc) as Hd. pose proof (inv_tail q I Hc) as Htl.
  constructor.
  - exact (inv_sq q I).
  - lia.
  - rewrite Hq, Hh. intros _. apply next_lt. lia.
  - rewrite Hn, Ht, Htl. intros Hc'. qunf. rewrite Hq, Hh. qunf. dif; fin.
  - unfold store_ok in *. rewrite Hs, Hq. exact (inv_store q I).
  - intros Ho i Hi. rewrite Hq, Hn in Hi. rewrite Hg by lia. rewrite Ho.
    dif; [|reflexivity]. apply (inv_clean q I Ho). lia.
  - unfold inl_ok. rewrite Hs, Hl. exact (inv_inl q I).
Qed.

Lemma abs_remove_head q : inv q -> 0 < cnt q -> abs q = getu q 0 :: abs (remove_head owning q).
Proof.
  intros I Hc. destruct (remove_head_shape q I Hc) as (Hs & Hq & Hn & Hh & Ht & Hl & Hg).
  pose proof (inv_cnt q I).
  apply abs_ext; cbn [length]; autorewrite with nthdb; [lia|].
  intros i Hi. cbn [length] in Hi. autorewrite with nthdb in Hi.
  rewrite nth_cons'. dif; [f_equal; lia|].
  rewrite nth_abs by lia. rewrite Hg by lia. dif; fin.
Qed.

Lemma inv_remove_tail q : inv q -> 0 < cnt q -> inv (remove_tail owning q).
Proof.
  intros I Hc. destruct (remove_tail_shape q I Hc) as (Hs & Hq & Hn & Hh & Ht & Hl & Hg).
  pose proof (inv_cnt q I). pose proof (inv_hd q I Hc) as Hd. pose proof (inv_tail q I Hc) as Htl.
  constructor.
  - exact (inv_sq q I).
  - lia.
  - rewrite Hq, Hh. exact (inv_head q I).
  - rewrite Hn, Ht, Htl. intros Hc'. rewrite prev_intern by lia.
    apply intern_congr; [symmetry; exact Hh|symmetry; exact Hq].
  - unfold store_ok in *. rewrite Hs, Hq. exact (inv_store q I).
  - intros Ho i Hi. rewrite Hq, Hn in Hi. rewrite Hg by lia. rewrite Ho.
    dif; [reflexivity|]. apply (inv_clean q I Ho). lia.
  - unfold inl_ok. rewrite Hs, Hl. exact (inv_inl q I).
Qed.

Lemma abs_remove_tail q : inv q -> 0 < cnt q ->
  abs (remove_tail owning q) = firstn (cnt q - 1) (abs q).
Proof.
  intros I Hc. destruct (remove_tail_shape q I Hc) as (Hs & Hq & Hn & Hh & Ht & Hl & Hg).
  pose proof (inv_cnt q I).
  apply abs_ext; autorewrite with nthdb; [lia|].
  intros i Hi. autorewrite with nthdb in Hi. rewrite Hg by lia.
  autorewrite with nthdb. rewrite nth_abs by lia. rewrite andb_comm. dif; fin.
Qed.

(* ------------------------------------------------------------------ the window, slot by slot *)

Definition in_win (q : q1) (s : nat) : bool :=
  if head q + cnt q <=? qsize q then (head q <=? s) && (s <? head q + cnt q)
  else (head q <=? s) || (s <? head q + cnt q - qsize q).

Lemma in_win_intern q i : head q < qsize q -> cnt q <= qsize q -> i < qsize q ->
  in_win q (intern q i) = (i <? cnt q).
Proof. unfold in_win, intern. cbv zeta. intros. dif; lia. Qed.

Lemma clean_slots q : inv q -> owning = true ->
  forall s, s < qsize q -> in_win q s = false -> nth s (arr q) dflt = dflt.
Proof.
  intros I Ho s Hs Hw. assert (Hh : head q < qsize q) by (apply (inv_head q I); lia).
  pose proof (inv_cnt q I).
  destruct (intern_extern q s Hh Hs) as [L E].
  rewrite nth_arr_getu by assumption. apply (inv_clean q I Ho).
  rewrite <- E, in_win_intern in Hw by assumption. lia.
Qed.

Lemma clean_of_slots q : head q < qsize q -> cnt q <= qsize q ->
  (owning = true -> forall s, s < qsize q -> in_win q s = false -> nth s (arr q) dflt = dflt) -> clean q.
Proof.
  intros Hh Hc H Ho i Hi. unfold getu. apply (H Ho).
  - apply intern_lt; lia.
  - rewrite in_win_intern by lia. lia.
Qed.

Lemma all_dflt q : inv q -> cnt q = 0 -> owning = true ->
  forall s, s < qsize q -> nth s (arr q) dflt = dflt.
Proof.
  intros I Hc Ho s Hs. apply inv_outside_window; try assumption. intros i Hi. lia.
Qed.

(* [inv] spelled out at the level of raw slots (this is the invariant as the property states it) *)
Lemma inv_slots_iff q :
  inv q <->
  (0 < sq /\ cnt q <= qsize q /\ (0 < qsize q -> head q < qsize q) /\
   (0 < cnt q -> tail q = intern q (cnt q - 1)) /\
   match st q with SNull => arr q = [] | SSmall => qsize q = sq | SHeap => True end /\
   (owning = true -> forall s, s < qsize q -> (forall i, i < cnt q -> intern q i <> s) ->
      nth s (arr q) dflt = dflt) /\
   (st q <> SSmall ->
      length (inl q) = sq /\ (owning = true -> forall i, i < sq -> nth i (inl q) dflt = dflt))).
Proof.
  split.
  - intros I. split; [exact (inv_sq q I)|]. split; [exact (inv_cnt q I)|].
    split; [exact (inv_head q I)|]. split; [exact (inv_tail q I)|]. split.
    + pose proof (inv_store q I) as S. unfold store_ok in S. destruct (st q) eqn:E; try exact S.
      apply length_zero_iff_nil. exact S.
    + split; [intros Ho; apply inv_outside_window; assumption|exact (inv_inl q I)].
  - intros (H0&H1&H2&H3&H4&H5&H6). constructor; try assumption.
    + unfold store_ok. destruct (st q); try exact H4. unfold qsize. rewrite H4. reflexivity.
    + intros Ho i Hi. unfold getu. assert (Hh : head q < qsize q) by (apply H2; lia).
      apply (H5 Ho).
      * apply intern_lt; lia.
      * intros i' Hi' E. apply intern_inj in E; lia.
Qed.

End Inv.
