(* Extraction of the Hashtable model for the correspondence run (ExtrOcamlBasic only). *)
From Coq Require Import ExtrOcamlBasic.
From Coq Require Extraction.
From Coq Require Import NArith.
From Muscle Require Import Gen.Consts Cont.HtModel Cont.HtStep Cont.HtIdeal Cont.HtStore.
Definition default_capacity : N := c_MUSCLE_HASHTABLE_DEFAULT_CAPACITY.
Extraction "ht_model.ml" step1 step0 init_world init_world0 abs_world abs abs_back shown gett geti
           key_of_opt is_iter_op default_capacity
           st_step st_create st_narrow_ok idx_type st_lookup.
