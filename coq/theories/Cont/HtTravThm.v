(* C09 -- the traversal theorems: a registered iterator advanced through any interleaving with quiet
   operations (calm ones, and relinking ones that leave the order of its table unchanged) shows no
   entry twice and misses no entry that stayed in its table. *)
From Coq Require Import List Arith ZArith NArith PArith Bool Lia FMapPositive Permutation.
From Muscle Require Import Cont.HtModel Cont.HtStep Cont.HtIdeal Cont.HtLemmas Cont.HtRepr Cont.HtWalk Cont.HtIters
                           Cont.HtTable Cont.HtMoves Cont.HtPut Cont.HtExact Cont.HtPend Cont.HtTrav Cont.HtRefTab
                           Cont.HtInv Cont.HtInvIter Cont.HtSafe Cont.HtSwap Cont.HtSafeAll Cont.HtTravW Cont.HtTravOps Cont.HtTravSem.
Import ListNotations.

Definition opt_list {A} (o : option A) : list A := match o with Some x => [x] | None => [] end.

(* ------------------------------------------------------------------ list facts about one advance *)

Lemma rest_of_step : forall (bw : bool) (l : list positive) c x, NoDup l -> In c l ->
  (if bw then prev_in l c else next_in l c) = Some x ->
  In x (rest_of bw l c) /\ ~ In x (rest_of bw l x) /\
  (forall n, In n (rest_of bw l x) -> In n (rest_of bw l c)) /\
  (forall n, In n (rest_of bw l c) -> In n (rest_of bw l x) \/ n = x).
Proof.
  intros bw l c x Hnd Hc Hx. destruct (in_split _ _ Hc) as (l1 & l2 & ->).
  destruct (nodup_split_notin _ _ _ Hnd) as [H1 H2]. unfold rest_of. destruct bw.
  - rewrite prev_in_mid in Hx by exact H1. rewrite before_mid by exact H1.
    destruct (last_of_split _ _ _ Hx) as (a & ->).
    assert (Hxa : ~ In x a).
    { rewrite <- app_assoc in Hnd. cbn [app] in Hnd. apply (nodup_split_notin _ _ _ Hnd). }
    rewrite <- app_assoc. cbn [app]. rewrite before_mid by exact Hxa.
    split; [apply in_or_app; right; left; reflexivity|split; [exact Hxa|split]].
    + intros n Hn. apply in_or_app. left; exact Hn.
    + intros n Hn. apply in_app_or in Hn. destruct Hn as [Hn|[Hn|[]]]; [left; exact Hn|right; symmetry; exact Hn].
  - rewrite next_in_mid in Hx by exact H1. rewrite after_mid by exact H1.
    destruct l2 as [|y l2']; [discriminate|]. cbn [head_opt] in Hx. inversion Hx; subst y.
    assert (Hx1 : ~ In x (l1 ++ [c])).
    { intro Hin. apply in_app_or in Hin. apply nodup_remove_mid in Hnd. apply nodup_split_notin in Hnd.
      destruct Hin as [Hin|[Hin|[]]]; [tauto|]. subst x. apply H2. left; reflexivity. }
    assert (El : l1 ++ c :: x :: l2' = (l1 ++ [c]) ++ x :: l2') by (rewrite <- app_assoc; reflexivity).
    rewrite El, after_mid by exact Hx1.
    assert (Hx2 : ~ In x l2').
    { rewrite El in Hnd. apply (nodup_split_notin _ _ _ Hnd). }
    split; [left; reflexivity|split; [exact Hx2|split]].
    + intros n Hn. right; exact Hn.
    + intros n [Hn|Hn]; [right; symmetry; exact Hn|left; exact Hn].
Qed.

Lemma rest_of_notin_self : forall bw (l : list positive) c, NoDup l -> ~ In c (rest_of bw l c).
Proof.
  intros bw l c Hnd Hin. assert (Hc : In c l) by (eapply rest_of_incl; exact Hin).
  destruct (in_split _ _ Hc) as (l1 & l2 & ->). destruct (nodup_split_notin _ _ _ Hnd) as [H1 H2].
  unfold rest_of in Hin. destruct bw; [rewrite before_mid in Hin by exact H1|rewrite after_mid in Hin by exact H1]; contradiction.
Qed.

Lemma rest_of_none : forall (bw : bool) (l : list positive) c, NoDup l -> In c l ->
  (if bw then prev_in l c else next_in l c) = None -> rest_of bw l c = [].
Proof.
  intros bw l c Hnd Hc Hx. destruct (in_split _ _ Hc) as (l1 & l2 & ->).
  destruct (nodup_split_notin _ _ _ Hnd) as [H1 H2]. unfold rest_of. destruct bw.
  - rewrite prev_in_mid in Hx by exact H1. rewrite before_mid by exact H1. apply last_of_none. exact Hx.
  - rewrite next_in_mid in Hx by exact H1. rewrite after_mid by exact H1. destruct l2; [reflexivity|discriminate].
Qed.

(* ------------------------------------------------------------------ one advance of the iterator *)

Section Thm.
Variable var : variant.
Variable dcap : N.

Lemma adv_step : forall w i, WF w ->
  let w' := fst (step1 var dcap w (OIterAdv i)) in
  it_list w' i = it_list w i /\ it_fresh w' i = it_fresh w i /\ it_owner w' i = it_owner w i /\
  (reg w i -> reg w' i) /\
  (forall n, In n (pending w' i) -> In n (pending w i)) /\
  (forall n, In n (pending w i) -> In n (pending w' i) \/ cur w' i = Some n) /\
  (forall x, cur w' i = Some x -> In x (pending w i) /\ ~ In x (pending w' i)).
Proof.
  intros w i W. cbn [step1]. destruct (geti (its w) i) as [it|] eqn:Hg.
  2:{ cbn [fst]. split; [reflexivity|split; [reflexivity|split; [reflexivity|split; [auto|split; [auto|split; [auto|]]]]]].
      intros x0 Hv. unfold cur in Hv. rewrite Hg in Hv. discriminate. }
  cbn [fst].
  set (it' := match iscr it with
              | Some _ => mkIter (iown it) (icookie it) (ibw it) (inoreg it) None
              | None => mkIter (iown it) (match iown it with Some t => subseq (gett w t) (icookie it) (ibw it) | None => None end) (ibw it) (inoreg it) None
              end).
  set (w' := seti_w w (seti (its w) i (Some it'))).
  pose proof (geti_some_lt _ _ _ Hg) as Hi.
  assert (Hg' : geti (its w') i = Some it') by (unfold w'; cbn [its seti_w]; apply geti_seti_same; exact Hi).
  assert (Eo : iown it' = iown it) by (unfold it'; destruct (iscr it); reflexivity).
  assert (En : inoreg it' = inoreg it) by (unfold it'; destruct (iscr it); reflexivity).
  assert (Eb : ibw it' = ibw it) by (unfold it'; destruct (iscr it); reflexivity).
  assert (Es : iscr it' = None) by (unfold it'; destruct (iscr it); reflexivity).
  assert (Gt : forall t, gett w' t = gett w t) by reflexivity.
  assert (Eow : it_owner w' i = it_owner w i) by (unfold it_owner; rewrite Hg', Hg; exact Eo).
  split; [unfold it_list; rewrite Eow; destruct (it_owner w i); [rewrite Gt|]; reflexivity|].
  split; [unfold it_fresh; rewrite Eow; destruct (it_owner w i); [rewrite Gt|]; reflexivity|].
  split; [exact Eow|].
  split; [intros (it0 & Hg0 & R0); rewrite Hg in Hg0; inversion Hg0; subst it0; exists it'; split; [exact Hg'|congruence]|].
  unfold pending, cur. rewrite Hg', Hg, Eo, Es.
  destruct (iown it) as [t|] eqn:O; [|split; [intros n []|split; [intros n []|intros x0 Hv; discriminate]]].
  rewrite Gt.
  pose proof (wf_its _ W i it Hg) as Ht. rewrite O in Ht.
  destruct (tl_tinv _ _ _ (wf_tabs _ W t Ht)) as (l & T). rewrite (tinv_ids _ l T).
  pose proof (lk_nodup _ _ (ti_linked _ _ T)) as Hnd.
  unfold pend. rewrite Eb, Es.
  destruct (icookie it) as [c|] eqn:Ec.
  - (* a cookie *)
    destruct (WF_cookie w i it c W Hg Ec) as [_ (t' & O' & _ & Lc)]. rewrite O in O'. inversion O'; subst t'.
    pose proof (ti_dom _ _ T c Lc) as Hc.
    destruct (iscr it) as [s|] eqn:Escr.
    + (* scratch dropped, same cookie *)
      assert (Ek : icookie it' = Some c) by (unfold it'; cbn [icookie]; reflexivity). rewrite Ek. cbn [app].
      split; [intros n Hn; right; exact Hn|split].
      * intros n [<-|Hn]; [right; reflexivity|left; exact Hn].
      * intros x0 Hv. inversion Hv; subst x0. split; [left; reflexivity|apply rest_of_notin_self; exact Hnd].
    + (* moves along a link *)
      assert (Ek : icookie it' = (if ibw it then prev_in l c else next_in l c)).
      { unfold it'. cbn [icookie]. rewrite ?O, ?Ec. cbn [subseq].
        destruct (ibw it); [apply (lk_prev _ _ (ti_linked _ _ T) c Hc)|apply (lk_next _ _ (ti_linked _ _ T) c Hc)]. }
      rewrite Ek. cbn [app].
      destruct (if ibw it then prev_in l c else next_in l c) as [x|] eqn:Ex.
      * destruct (rest_of_step (ibw it) l c x Hnd Hc Ex) as (A & B & C & D).
        split; [exact C|split; [intros n Hn; destruct (D n Hn) as [D1|D1]; [left; exact D1|right; subst; reflexivity]|]].
        intros x0 Hv. inversion Hv; subst x0. auto.
      * rewrite (rest_of_none (ibw it) l c Hnd Hc Ex). split; [intros n []|split; [intros n []|intros x0 Hv; discriminate]].
  - (* no cookie *)
    assert (Ek : icookie it' = None).
    { unfold it'. destruct (iscr it); cbn [icookie]; reflexivity. }
    rewrite Ek. split; [intros n []|split; [intros n []|intros x0 Hv; discriminate]].
Qed.

(* ------------------------------------------------------------------ traversals *)

(* the entries the iterator newly shows, one per advance *)
Fixpoint trav (i : nat) (w : world) (ops : list op) : list positive :=
  match ops with
  | [] => []
  | o :: r =>
    let w' := fst (step1 var dcap w o) in
    (match o with OIterAdv j => if Nat.eqb j i then opt_list (cur w' i) else [] | _ => [] end) ++ trav i w' r
  end.

(* a traversal of iterator i: advances of i, interleaved with quiet operations that do not operate on i *)
Inductive tr_ok (i : nat) : world -> list op -> Prop :=
| tr_nil : forall w, tr_ok i w []
| tr_adv : forall w r, tr_ok i (fst (step1 var dcap w (OIterAdv i))) r -> tr_ok i w (OIterAdv i :: r)
| tr_mut : forall w o r, touches i o = false -> quiet var dcap i w o ->
             tr_ok i (fst (step1 var dcap w o)) r -> tr_ok i w (o :: r).

(* n stays in the iterator's table through the whole run *)
Fixpoint stays (i : nat) (n : positive) (w : world) (ops : list op) : Prop :=
  match ops with
  | [] => True
  | o :: r => In n (it_list (fst (step1 var dcap w o)) i) /\ stays i n (fst (step1 var dcap w o)) r
  end.

(* the same premise as a decidable check: every operation other than an advance of i does not operate
   on i, is not a double move, and keeps the relative order of the entries of i's table *)
Fixpoint sem_okd (i : nat) (w : world) (ops : list op) : bool :=
  match ops with
  | [] => true
  | o :: r =>
    let w' := fst (step1 var dcap w o) in
    (match o with
     | OIterAdv j => if Nat.eqb j i then true else order_keptb (it_list w i) (it_list w' i)
     | _ => negb (touches i o) && negb (double_move var w o) && order_keptb (it_list w i) (it_list w' i)
     end) && sem_okd i w' r
  end.

Lemma calm_or_relinking : forall w o, relinking o = false -> calm var dcap w o.
Proof. intros w o H. destruct o; cbn [relinking] in H; try discriminate H; exact I. Qed.

Lemma sem_okd_tr_ok : forall i ops w, sem_okd i w ops = true -> tr_ok i w ops.
Proof.
  intros i. induction ops as [|o r IH]; intros w H; [constructor|].
  cbn [sem_okd] in H. apply andb_prop in H. destruct H as [H1 H2]. specialize (IH _ H2).
  assert (G : forall o', o' = o -> touches i o' = false -> double_move var w o' = false ->
              order_keptb (it_list w i) (it_list (fst (step1 var dcap w o')) i) = true -> tr_ok i w (o' :: r)).
  { intros o' -> Ht Hd Hk. apply tr_mut; [exact Ht| |exact IH].
    destruct (relinking o) eqn:Rl; [right; auto|left; apply calm_or_relinking; exact Rl]. }
  destruct o; try (apply andb_prop in H1; destruct H1 as [H1 Hk]; apply andb_prop in H1; destruct H1 as [Ht Hd];
                   apply negb_true_iff in Ht; apply negb_true_iff in Hd; apply (G _ eq_refl Ht Hd Hk)).
  destruct (Nat.eqb i0 i) eqn:E.
  - apply Nat.eqb_eq in E. subst i0. apply tr_adv. exact IH.
  - apply (G _ eq_refl); [cbn [touches]; exact E|reflexivity|exact H1].
Qed.

Lemma trav_mut : forall i w o r, touches i o = false ->
  trav i w (o :: r) = trav i (fst (step1 var dcap w o)) r.
Proof.
  intros i w o r Ht. cbn [trav]. destruct o; try reflexivity. cbn [touches] in Ht. rewrite Ht. reflexivity.
Qed.

Lemma trav_adv : forall i w r,
  trav i w (OIterAdv i :: r) = opt_list (cur (fst (step1 var dcap w (OIterAdv i))) i) ++ trav i (fst (step1 var dcap w (OIterAdv i))) r.
Proof. intros. cbn [trav]. rewrite Nat.eqb_refl. reflexivity. Qed.

Lemma cur_detached : forall w i, it_owner w i = None -> cur w i = None.
Proof.
  intros w i O. unfold cur, it_owner in *. destruct (geti (its w) i) as [it|]; [|reflexivity].
  rewrite O. destruct (iscr it); reflexivity.
Qed.

(* a detached iterator shows nothing any more *)
Lemma trav_detached : forall i ops w, WF w -> reg w i -> it_owner w i = None -> tr_ok i w ops -> trav i w ops = [].
Proof.
  intros i. induction ops as [|o r IH]; intros w W R O Ok; [reflexivity|].
  inversion Ok as [|w0 r0 Ok'|w0 o0 r0 Ht Hc Ok']; subst.
  - destruct (adv_step w i W) as (El & Ef & Eo & Rg & _). cbn zeta in *.
    rewrite trav_adv. rewrite (cur_detached _ i) by (rewrite Eo; exact O). cbn [opt_list app].
    apply IH; [apply step1_WF; exact W|apply Rg; exact R|rewrite Eo; exact O|exact Ok'].
  - rewrite (trav_mut i w o r Ht).
    destruct (quiet_step var dcap w o i W Hc Ht R) as [[Cn Cf Ck Cr Cd] R'].
    apply IH; [apply step1_WF; exact W|exact R'|apply Cd; exact O|exact Ok'].
Qed.

(* everything shown later was pending now, or did not exist yet *)
Lemma trav_bound : forall i ops w, WF w -> reg w i -> tr_ok i w ops ->
  forall n, In n (trav i w ops) -> In n (pending w i) \/ (it_fresh w i <= n)%positive.
Proof.
  intros i. induction ops as [|o r IH]; intros w W R Ok n Hn; [destruct Hn|].
  inversion Ok as [|w0 r0 Ok'|w0 o0 r0 Ht Hc Ok']; subst.
  - (* advance *)
    destruct (adv_step w i W) as (El & Ef & Eo & Rg & Psub & Pk & Pc). cbn zeta in *.
    rewrite trav_adv in Hn. apply in_app_or in Hn. destruct Hn as [Hn|Hn].
    + destruct (cur (fst (step1 var dcap w (OIterAdv i))) i) as [x|] eqn:Ec; [|destruct Hn]. destruct Hn as [<-|[]].
      left. apply (Pc x eq_refl).
    + destruct (IH _ (step1_WF var dcap w _ W) (Rg R) Ok' n Hn) as [H|H]; [left; apply Psub; exact H|right; rewrite <- Ef; exact H].
  - (* calm mutation *)
    rewrite (trav_mut i w o r Ht) in Hn.
    destruct (quiet_step var dcap w o i W Hc Ht R) as [[Cn Cf Ck Cr Cd] R'].
    destruct (it_owner (fst (step1 var dcap w o)) i) eqn:O.
    + destruct (IH _ (step1_WF var dcap w o W) R' Ok' n Hn) as [H|H]; [apply Cr; exact H|].
      right. eapply Pos.le_trans; [apply Cf; congruence|exact H].
    + rewrite (trav_detached i r _ (step1_WF var dcap w o W) R' O Ok') in Hn. destruct Hn.
Qed.

(* no entry is shown twice *)
Theorem trav_nodup : forall i ops w, WF w -> reg w i -> tr_ok i w ops -> NoDup (trav i w ops).
Proof.
  intros i. induction ops as [|o r IH]; intros w W R Ok; [constructor|].
  inversion Ok as [|w0 r0 Ok'|w0 o0 r0 Ht Hc Ok']; subst.
  - destruct (adv_step w i W) as (El & Ef & Eo & Rg & Psub & Pk & Pc). cbn zeta in *.
    rewrite trav_adv. set (w' := fst (step1 var dcap w (OIterAdv i))) in *.
    pose proof (step1_WF var dcap w (OIterAdv i) W) as W'. fold w' in W'.
    destruct (cur w' i) as [x|] eqn:Ec; cbn [opt_list app]; [|apply IH; [exact W'|apply Rg; exact R|exact Ok']].
    constructor; [|apply IH; [exact W'|apply Rg; exact R|exact Ok']].
    intro Hin. destruct (Pc x eq_refl) as [Hp Hnp].
    destruct (trav_bound i r w' W' (Rg R) Ok' x Hin) as [H|H]; [contradiction|].
    pose proof (it_list_bound w i x W (pending_incl w i x W Hp)) as B. rewrite Ef in H. lia.
  - rewrite (trav_mut i w o r Ht). destruct (quiet_step var dcap w o i W Hc Ht R) as [_ R'].
    apply IH; [apply step1_WF; exact W|exact R'|exact Ok'].
Qed.

(* nothing that stays in the table is skipped: it is shown or still pending at the end *)
Theorem trav_noskip : forall i ops w, WF w -> reg w i -> tr_ok i w ops ->
  forall n, In n (pending w i) -> stays i n w ops ->
  In n (trav i w ops) \/ In n (pending (run1 var dcap w ops) i).
Proof.
  intros i. induction ops as [|o r IH]; intros w W R Ok n Hp St; [right; exact Hp|].
  destruct St as [St1 St2].
  inversion Ok as [|w0 r0 Ok'|w0 o0 r0 Ht Hc Ok']; subst.
  - destruct (adv_step w i W) as (El & Ef & Eo & Rg & Psub & Pk & Pc). cbn zeta in *.
    rewrite trav_adv. change (run1 var dcap w (OIterAdv i :: r)) with (run1 var dcap (fst (step1 var dcap w (OIterAdv i))) r).
    destruct (Pk n Hp) as [H|H].
    + destruct (IH _ (step1_WF var dcap w _ W) (Rg R) Ok' n H St2) as [A|A]; [left; apply in_or_app; right; exact A|right; exact A].
    + left. rewrite H. left; reflexivity.
  - rewrite (trav_mut i w o r Ht). change (run1 var dcap w (o :: r)) with (run1 var dcap (fst (step1 var dcap w o)) r).
    destruct (quiet_step var dcap w o i W Hc Ht R) as [[Cn Cf Ck Cr Cd] R'].
    apply (IH _ (step1_WF var dcap w o W) R' Ok' n (Ck n Hp St1) St2).
Qed.

(* ------------------------------------------------------------------ a complete traversal *)

Lemma shown_none_pending : forall w i, WF w -> shown w i = None -> pending w i = [].
Proof.
  intros w i W Hs. unfold shown in Hs. unfold pending. destruct (geti (its w) i) as [it|] eqn:Hg; [|reflexivity].
  destruct (iscr it) eqn:Es; [discriminate|]. destruct (iown it) as [t|] eqn:O; [|reflexivity].
  unfold pend. rewrite Es. destruct (icookie it) as [c|] eqn:Ec; [|reflexivity].
  destruct (WF_cookie w i it c W Hg Ec) as [_ (t' & O' & _ & L)]. rewrite O in O'. inversion O'; subst t'.
  rewrite (kv_of_live _ c L) in Hs. discriminate.
Qed.

Lemma rest_of_end : forall (bw : bool) (l : list positive) c, NoDup l ->
  (if bw then last_of l else head_opt l) = Some c ->
  forall n, In n l -> n = c \/ In n (rest_of bw l c).
Proof.
  intros bw l c Hnd Hc n Hn. unfold rest_of. destruct bw.
  - destruct (last_of_split _ _ _ Hc) as (a & ->).
    assert (Ha : ~ In c a) by (apply (nodup_split_notin _ _ _ Hnd)).
    rewrite before_mid by exact Ha. apply in_app_or in Hn. destruct Hn as [Hn|[Hn|[]]]; [right; exact Hn|left; symmetry; exact Hn].
  - destruct l as [|x r]; [discriminate|]. cbn [head_opt] in Hc. inversion Hc; subst x.
    cbn [after]. rewrite Pos.eqb_refl. destruct Hn as [Hn|Hn]; [left; symmetry; exact Hn|right; exact Hn].
Qed.

(* An iterator created at one end of a non-empty table and advanced, interleaved with calm
   operations, until it shows nothing: it has shown no entry twice, and it has shown every entry
   that was in its table from the creation to the end. *)
Theorem traversal_complete : forall w0 i t bw ops, WF w0 ->
  i < length (its w0) -> t < length (tabs w0) -> cnt (gett w0 t) <> 0 ->
  let w := fst (step1 var dcap w0 (OIterNew i t bw)) in
  tr_ok i w ops ->
  shown (run1 var dcap w ops) i = None ->
  let V := opt_list (cur w i) ++ trav i w ops in
  NoDup V /\ (forall n, In n (ids (gett w0 t)) -> stays i n w ops -> In n V).
Proof.
  intros w0 i t bw ops W0 Hi Ht Hne w Ok Hend V.
  assert (W : WF w) by (apply step1_WF; exact W0).
  (* the freshly created iterator *)
  destruct (tl_tinv _ _ _ (wf_tabs _ W0 t Ht)) as (l & T).
  assert (Hl : l <> []) by (intro E; subst l; apply Hne; apply (ti_cnt _ _ T)).
  pose proof (ti_linked _ _ T) as L. pose proof (lk_nodup _ _ L) as Hnd.
  assert (Ec : exists c, (if bw then last_of l else head_opt l) = Some c).
  { destruct bw.
    - destruct (last_of l) eqn:E; [eexists; reflexivity|apply last_of_none in E; contradiction].
    - destruct l; [contradiction|eexists; reflexivity]. }
  destruct Ec as (c & Ec).
  assert (Hw : w = register (unregister w0 i) i t (Some c) bw false None).
  { unfold w. cbn [step1]. apply Nat.ltb_lt in Hi as Hi'. apply Nat.ltb_lt in Ht as Ht'. unfold valid_i, valid_t. rewrite Hi', Ht'. cbn [andb fst].
    f_equal. destruct (ids_unregister w0 i t) as [_ _].
    assert (Eh : hd (gett (unregister w0 i) t) = hd (gett w0 t) /\ tl (gett (unregister w0 i) t) = tl (gett w0 t)).
    { unfold unregister. destruct (geti (its w0) i) as [it|]; [|auto]. destruct (inoreg it); [auto|]. destruct (iown it) as [u|]; [|auto].
      destruct (Nat.eq_dec u t) as [->|Hut]; [rewrite gett_sett_same by exact Ht; auto|rewrite gett_sett_other by exact Hut; auto]. }
    destruct Eh as [Eh Et]. rewrite Eh, Et, (lk_hd _ _ L), (lk_tl _ _ L). destruct bw; exact Ec. }
  set (it0 := mkIter (Some t) (Some c) bw false None).
  assert (Hg : geti (its w) i = Some it0).
  { rewrite Hw. unfold register. cbn [its sett seti_w]. apply geti_seti_same. rewrite its_unregister. exact Hi. }
  assert (Ids : ids (gett w t) = l).
  { rewrite Hw. destruct (ids_register (unregister w0 i) i t (Some c) bw false None t) as [A _]. rewrite A.
    destruct (ids_unregister w0 i t) as [B _]. rewrite B. apply (tinv_ids _ l T). }
  assert (R : reg w i) by (exists it0; split; [exact Hg|reflexivity]).
  assert (Ecur : cur w i = Some c) by (unfold cur; rewrite Hg; reflexivity).
  assert (Epend : pending w i = rest_of bw l c) by (unfold pending; rewrite Hg; cbn [iown it0]; rewrite Ids; reflexivity).
  assert (Elist : it_list w i = l) by (unfold it_list, it_owner; rewrite Hg; cbn [iown it0]; exact Ids).
  assert (Hcl : In c l) by (destruct bw; [apply last_of_in|apply head_opt_in]; exact Ec).
  unfold V. rewrite Ecur. cbn [opt_list app]. split.
  - constructor; [|apply trav_nodup; assumption].
    intro Hin. destruct (trav_bound i ops w W R Ok c Hin) as [H|H].
    + rewrite Epend in H. apply (rest_of_notin_self bw l c Hnd H).
    + assert (B : (c < it_fresh w i)%positive) by (apply (it_list_bound w i c W); rewrite Elist; exact Hcl). lia.
  - intros n Hn St. rewrite (tinv_ids _ l T) in Hn.
    destruct (rest_of_end bw l c Hnd Ec n Hn) as [->|Hp]; [left; reflexivity|right].
    rewrite <- Epend in Hp. destruct (trav_noskip i ops w W R Ok n Hp St) as [A|A]; [exact A|].
    rewrite (shown_none_pending _ i (run1_WF var dcap ops w W) Hend) in A. destruct A.
Qed.

End Thm.
