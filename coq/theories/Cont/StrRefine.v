(* C17 -- the refinement theorem: every operation of the level-1 model has the level-0 effect. *)
From Coq Require Import List NArith ZArith Bool Lia.
From Muscle Require Import Cont.StrL0 Cont.StrModel Cont.StrSpec Cont.StrLemmas Cont.StrGrow Cont.StrCore Cont.StrOps Cont.StrL0Facts Cont.StrDist Cont.StrOps2 Cont.StrProd.
Import ListNotations.
Local Open Scope N_scope.

(* ------------------------------------------------------------------ the domain of the theorems *)

Definition sarg_ok (a : sarg) : Prop := match a with ALit l => nulfree l /\ lenN l < LIM | ASelf => True end.

(* well-formed operands: literals are NUL-free and shorter than LIM; characters that get stored are not NUL *)
Fixpoint args_ok (o : op) : Prop :=
  match o with
  | OSetCstr c _ | OAppendC c | OInsertChars _ c _ | OMinusC c | OIndexOfC c _ => carg_ok c
  | OSetFrom a _ _ | OAppendS a | OMinusS a | OIndexOfS a _ | OLastIndexOfS1 a | OLastIndexOfS a _ | OCountS a _
  | OStartsS a | OEndsS a | OStartsSI a | OEndsSI a | OCompare a | OCompareI a | OEqualsI a | OIndexOfSI a _ | OLastIndexOfSI a _
  | OSubstringAfter a | OSubstringUntil _ a | OWithInsertS _ a _ | OArgS a | OWithSuffixS a | OWithPrefixS a
  | OWithoutSuffixS a _ | OWithoutPrefixS a _ | OPlusS a | OWithoutSuffixSI a _ | OWithoutPrefixSI a _ | OGetDistance a _ | ONumCmp a _ | OMinusPS a => sarg_ok a
  | OReplaceS a b _ _ | OWithReplS a b _ _ => sarg_ok a /\ sarg_ok b
  | OWithWord _ a sep => sarg_ok a /\ nulfree sep
  | OReplaceMulti pairs _ | OWithReplMulti pairs _ => Forall (fun p => nulfree (snd p)) pairs
  | OEscaped seps _ => nulfree seps
  | OArgFloatText buf _ => nulfree buf
  | OAppendCh ch | OSetAt _ ch | OPlusCh ch | OChPlus ch => ch <> 0
  | OCPlus lit => nulfree lit /\ lenN lit < LIM
  | OReplaceCh _ b _ _ | OWithReplCh _ b _ _ => b <> 0
  | OSwap _ l => nulfree l /\ lenN l < LIM
  | OUnflatten bytes => lenN bytes < LIM
  | OUnflattenW arena _ _ => lenN arena < LIM
  | OArgInt z | OShiftInt z => (- 9223372036854775808 <= z < 18446744073709551616)%Z      (* any 64-bit integer, signed or unsigned *)
  | OAssign o' => args_ok o'
  | _ => True
  end.

(* an upper bound of the largest buffer the operation asks for, in terms of the ideal string *)
Fixpoint need (l : list N) (o : op) : N :=
  let n := lenN l in
  match o with
  | OAppendS a | OPlusS a | OWithInsertS _ a _ | OWithSuffixS a | OWithPrefixS a => n + lenN (lit_of l a) + 1
  | OAppendC c | OInsertChars _ c _ => n + lenN (clit_of l c) + 1
  | OAppendCh _ | OWithSuffixCh _ | OWithPrefixCh _ | OPlusCh _ | OChPlus _ => n + 2
  | OCPlus lit => n + lenN lit + 1
  | OShiftInt z => n + lenN (dec_of_Z z) + 1
  | OShiftBool _ => n + 6
  | OWithWord _ a sep => n + lenN (lit_of l a) + 2 * lenN sep + 1
  | OIndented k _ => n * (k + 1) + k + 1
  | OReplaceMulti pairs m | OWithReplMulti pairs m => N.max n (lenN (fst (l0_replace_multi l pairs m))) + 1
  | OEscaped _ _ => 3 * n + 1
  | OArgFloatText buf m => lenN buf + m + 3 + n + (lenN buf + m + 1) * n
  | OPrealloc k => k + 1
  | OShrink extra => n + 1 + extra
  | OReplaceS _ wm _ _ | OWithReplS _ wm _ _ => n + lenN (lit_of l wm) * n + 1
  | OArgS a => n + lenN (lit_of l a) * n + 1
  | OArgInt z => n + lenN (dec_of_Z z) * n + 1
  | OWithInsertCh _ _ count => n + count + 1
  | OPadded m _ _ => m + 1
  | OAssign o' => need l o'
  | _ => n + 1
  end.

Definition op_ok (l : list N) (o : op) : Prop := lenN l < LIM /\ args_ok o /\ need l o <= LIM.

Lemma lit_nulfree l a : nulfree l -> sarg_ok a -> nulfree (lit_of l a).
Proof. intros F A. destruct a; cbn [lit_of]; [apply A|exact F]. Qed.
Lemma lit_len l a : lenN l < LIM -> sarg_ok a -> lenN (lit_of l a) < LIM.
Proof. intros B A. destruct a; cbn [lit_of]; [apply A|exact B]. Qed.

Lemma nulfree_dec_fuel f n acc : nulfree acc -> nulfree (dec_fuel f n acc).
Proof.
  revert n acc. induction f as [|f IH]; intros n acc H; cbn [dec_fuel]; [exact H|].
  assert (X : nulfree ((48 + n mod 10) :: acc)) by (constructor; [intros E; apply N.eq_add_0 in E; destruct E; discriminate|exact H]).
  destruct (n / 10 =? 0); [exact X|now apply IH].
Qed.
(* the decimal text of a 64-bit integer is short (the fuel of [dec_fuel] bounds its length) *)
Lemma lenN_dec_fuel f n acc : lenN (dec_fuel f n acc) <= N.of_nat f + lenN acc.
Proof.
  revert n acc. induction f as [|f IH]; intros n acc; cbn [dec_fuel]; [lia|].
  destruct (n / 10 =? 0); [rewrite lenN_cons; lia|].
  specialize (IH (n / 10) ((48 + n mod 10) :: acc)). rewrite lenN_cons in IH. lia.
Qed.
Lemma size_64 n : n < 18446744073709551616 -> N.size n <= 64.
Proof.
  intros H. pose proof (N.size_le n) as S.
  destruct (N.le_gt_cases (N.size n) 64) as [L|G]; [exact L|].
  assert (P : 2 ^ 65 <= 2 ^ N.size n) by (apply N.pow_le_mono_r; lia).
  change (2 ^ 65) with 36893488147419103232 in P. rewrite N.succ_double_spec in S. lia.
Qed.
Lemma lenN_dec_of_Z z : (- 9223372036854775808 <= z < 18446744073709551616)%Z -> lenN (dec_of_Z z) < LIM.
Proof.
  intros H. unfold dec_of_Z, dec_of_N, LIM.
  assert (B : forall n, n < 18446744073709551616 -> lenN (dec_fuel (S (N.to_nat (N.size n))) n []) <= 66).
  { intros n Hn. pose proof (lenN_dec_fuel (S (N.to_nat (N.size n))) n []) as L. pose proof (size_64 n Hn).
    rewrite lenN_nil in L. lia. }
  destruct z as [|p|p].
  - pose proof (B 0 ltac:(lia)). cbn [Z.to_N] in *. lia.
  - pose proof (B (N.pos p) ltac:(lia)). cbn [Z.to_N] in *. lia.
  - pose proof (B (N.pos p) ltac:(lia)). rewrite lenN_cons. lia.
Qed.

Lemma strip_suffix_fuel_len' f l suf max : lenN (strip_suffix_fuel f l suf max) <= lenN l.
Proof.
  revert l max. induction f as [|f IH]; intros l max; cbn [strip_suffix_fuel]; [lia|].
  destruct ((0 <? max) && ends_with l suf); [|lia].
  specialize (IH (l0_trunc_chars l (lenN suf)) (max - 1)).
  assert (lenN (l0_trunc_chars l (lenN suf)) <= lenN l) by (unfold l0_trunc_chars; rewrite lenN_takeN; lia). lia.
Qed.
Lemma nulfree_strip_suffix' f l suf max : nulfree l -> nulfree (strip_suffix_fuel f l suf max).
Proof.
  revert l max. induction f as [|f IH]; intros l max H; cbn [strip_suffix_fuel]; [exact H|].
  destruct ((0 <? max) && ends_with l suf); [|exact H]. apply IH. now apply nulfree_takeN.
Qed.
Lemma float_text_facts buf m : nulfree buf -> nulfree (l0_float_text buf m) /\ lenN (l0_float_text buf m) <= lenN buf + m + 1.
Proof.
  intros F. unfold l0_float_text.
  set (s1 := if existsb (N.eqb 46) buf then strip_suffix_fuel (S (length buf)) buf [48] NOLIMIT else buf).
  assert (F1 : nulfree s1) by (unfold s1; destruct (existsb (N.eqb 46) buf); [now apply nulfree_strip_suffix'|exact F]).
  assert (L1 : lenN s1 <= lenN buf) by (unfold s1; destruct (existsb (N.eqb 46) buf); [apply strip_suffix_fuel_len'|lia]).
  assert (Z0 : nulfree (repN 48 m)) by (intros; apply nulfree_repN; discriminate).
  assert (Zr : forall k, nulfree (repN 48 k)) by (intros; apply nulfree_repN; discriminate).
  destruct (m =? 0).
  - destruct (ends_with s1 [46]); [|split; [exact F1|lia]].
    split; [now apply nulfree_takeN|]. unfold l0_trunc_chars. rewrite lenN_takeN. lia.
  - destruct (l0_last_index_of_ch s1 46 0).
    + split; [apply nulfree_app; split; [exact F1|apply Zr]|]. rewrite lenN_app, lenN_repN. lia.
    + split; [apply nulfree_app; split; [exact F1|apply Zr]|]. rewrite lenN_app, lenN_repN. lia.
    + split.
      * apply nulfree_app; split; [apply nulfree_app; split; [exact F1|constructor; [discriminate|constructor]]|apply Zr].
      * rewrite !lenN_app, lenN_repN, lenN_cons, lenN_nil. lia.
Qed.

Lemma nulfree_dec_of_Z z : nulfree (dec_of_Z z).
Proof.
  unfold dec_of_Z, dec_of_N. destruct z; try (apply nulfree_dec_fuel; constructor).
  constructor; [discriminate|apply nulfree_dec_fuel; constructor].
Qed.

Set Default Proof Using "All".

Section Refine.
Variables (M TH PG OV jk : N).
Hypothesis M_pos : 1 <= M.
Hypothesis TH_ge : 2 <= TH.
Hypothesis PG_pos : 0 < PG.
Hypothesis PG_le : PG <= 1048576.
Hypothesis OV_lt : OV < PG.
Hypothesis M_le : M <= 1048576.

Local Notation inv_len := (StrCore.inv_len M TH PG OV jk M_pos TH_ge PG_pos PG_le OV_lt M_le).
Local Notation inv_lt := (StrCore.inv_lt M TH PG OV jk M_pos TH_ge PG_pos PG_le OV_lt M_le).
Local Notation inv_nul := (StrCore.inv_nul M TH PG OV jk M_pos TH_ge PG_pos PG_le OV_lt M_le).
Local Notation inv_short_le := (StrCore.inv_short_le M TH PG OV jk M_pos TH_ge PG_pos PG_le OV_lt M_le).
Local Notation lenN_abs := (StrCore.lenN_abs M TH PG OV jk M_pos TH_ge PG_pos PG_le OV_lt M_le).
Local Notation commit_spec := (StrCore.commit_spec M TH PG OV jk M_pos TH_ge PG_pos PG_le OV_lt M_le).
Local Notation inv_empty1 := (StrCore.inv_empty1 M TH PG OV jk M_pos TH_ge PG_pos PG_le OV_lt M_le).
Local Notation inv_clear_short := (StrCore.inv_clear_short M TH PG OV jk M_pos TH_ge PG_pos PG_le OV_lt M_le).
Local Notation inv_clear_and_flush := (StrCore.inv_clear_and_flush M TH PG OV jk M_pos TH_ge PG_pos PG_le OV_lt M_le).
Local Notation ensure_enough := (StrCore.ensure_enough M TH PG OV jk M_pos TH_ge PG_pos PG_le OV_lt M_le).
Local Notation inv_fin := (StrCore.inv_fin M TH PG OV jk M_pos TH_ge PG_pos PG_le OV_lt M_le).
Local Notation ensure_grow := (StrCore.ensure_grow M TH PG OV jk M_pos TH_ge PG_pos PG_le OV_lt M_le).
Local Notation ensure_noretain := (StrCore.ensure_noretain M TH PG OV jk M_pos TH_ge PG_pos PG_le OV_lt M_le).
Local Notation set_len_short_spec := (StrCore.set_len_short_spec M TH PG OV jk M_pos TH_ge PG_pos PG_le OV_lt M_le).
Local Notation ensure_shrink := (StrCore.ensure_shrink M TH PG OV jk M_pos TH_ge PG_pos PG_le OV_lt M_le).
Local Notation ensure_ok := (StrCore.ensure_ok M TH PG OV jk M_pos TH_ge PG_pos PG_le OV_lt M_le).
Local Notation u32_small := (StrOps.u32_small M TH PG OV jk M_pos TH_ge PG_pos PG_le OV_lt M_le).
Local Notation src_ok_lit := (StrOps.src_ok_lit M TH PG OV jk M_pos TH_ge PG_pos PG_le OV_lt M_le).
Local Notation src_ok_of := (StrOps.src_ok_of M TH PG OV jk M_pos TH_ge PG_pos PG_le OV_lt M_le).
Local Notation src_bytes_lit := (StrOps.src_bytes_lit M TH PG OV jk M_pos TH_ge PG_pos PG_le OV_lt M_le).
Local Notation src_bytes_of := (StrOps.src_bytes_of M TH PG OV jk M_pos TH_ge PG_pos PG_le OV_lt M_le).
Local Notation lenN_src_bytes := (StrOps.lenN_src_bytes M TH PG OV jk M_pos TH_ge PG_pos PG_le OV_lt M_le).
Local Notation src_take_nul := (StrOps.src_take_nul M TH PG OV jk M_pos TH_ge PG_pos PG_le OV_lt M_le).
Local Notation take_with_nul := (StrOps.take_with_nul M TH PG OV jk M_pos TH_ge PG_pos PG_le OV_lt M_le).
Local Notation abs_of_prefix := (StrOps.abs_of_prefix M TH PG OV jk M_pos TH_ge PG_pos PG_le OV_lt M_le).
Local Notation ensure_grow_ok := (StrOps.ensure_grow_ok M TH PG OV jk M_pos TH_ge PG_pos PG_le OV_lt M_le).
Local Notation ensure_noretain_ok := (StrOps.ensure_noretain_ok M TH PG OV jk M_pos TH_ge PG_pos PG_le OV_lt M_le).
Local Notation commit_set := (StrOps.commit_set M TH PG OV jk M_pos TH_ge PG_pos PG_le OV_lt M_le).
Local Notation commit_append := (StrOps.commit_append M TH PG OV jk M_pos TH_ge PG_pos PG_le OV_lt M_le).
Local Notation cap_lt := (StrOps.cap_lt M TH PG OV jk M_pos TH_ge PG_pos PG_le OV_lt M_le).
Local Notation takeN_min_len := (StrOps.takeN_min_len M TH PG OV jk M_pos TH_ge PG_pos PG_le OV_lt M_le).
Local Notation dropN_min_len := (StrOps.dropN_min_len M TH PG OV jk M_pos TH_ge PG_pos PG_le OV_lt M_le).
Local Notation clear_spec := (StrOps.clear_spec M TH PG OV jk M_pos TH_ge PG_pos PG_le OV_lt M_le).
Local Notation cstr_region_self := (StrOps.cstr_region_self M TH PG OV jk M_pos TH_ge PG_pos PG_le OV_lt M_le).
Local Notation cstr_cregion := (StrOps.cstr_cregion M TH PG OV jk M_pos TH_ge PG_pos PG_le OV_lt M_le).
Local Notation set_cstr_spec := (StrOps.set_cstr_spec M TH PG OV jk M_pos TH_ge PG_pos PG_le OV_lt M_le).
Local Notation set_from_spec := (StrOps.set_from_spec M TH PG OV jk M_pos TH_ge PG_pos PG_le OV_lt M_le).
Local Notation append_s_spec := (StrOps.append_s_spec M TH PG OV jk M_pos TH_ge PG_pos PG_le OV_lt M_le).
Local Notation append_c_spec := (StrOps.append_c_spec M TH PG OV jk M_pos TH_ge PG_pos PG_le OV_lt M_le).
Local Notation append_ch_spec := (StrOps.append_ch_spec M TH PG OV jk M_pos TH_ge PG_pos PG_le OV_lt M_le).
Local Notation insert_core := (StrOps.insert_core M TH PG OV jk M_pos TH_ge PG_pos PG_le OV_lt M_le).
Local Notation concat_rep1 := (StrOps.concat_rep1 M TH PG OV jk M_pos TH_ge PG_pos PG_le OV_lt M_le).
Local Notation lenN_concat_rep := (StrOps.lenN_concat_rep M TH PG OV jk M_pos TH_ge PG_pos PG_le OV_lt M_le).
Local Notation insert_aux_ext := (StrOps.insert_aux_ext M TH PG OV jk M_pos TH_ge PG_pos PG_le OV_lt M_le).
Local Notation insert_chars_spec := (StrOps.insert_chars_spec M TH PG OV jk M_pos TH_ge PG_pos PG_le OV_lt M_le).
Local Notation prealloc_safe := (StrOps.prealloc_safe M TH PG OV jk M_pos TH_ge PG_pos PG_le OV_lt M_le).
Local Notation prealloc_ok := (StrOps.prealloc_ok M TH PG OV jk M_pos TH_ge PG_pos PG_le OV_lt M_le).
Local Notation shrink_safe := (StrOps.shrink_safe M TH PG OV jk M_pos TH_ge PG_pos PG_le OV_lt M_le).
Local Notation trunc_spec := (StrOps.trunc_spec M TH PG OV jk M_pos TH_ge PG_pos PG_le OV_lt M_le).
Local Notation trunc_chars_spec := (StrOps.trunc_chars_spec M TH PG OV jk M_pos TH_ge PG_pos PG_le OV_lt M_le).
Local Notation trunc_to_spec := (StrOps.trunc_to_spec M TH PG OV jk M_pos TH_ge PG_pos PG_le OV_lt M_le).
Local Notation flatten_spec := (StrOps.flatten_spec M TH PG OV jk M_pos TH_ge PG_pos PG_le OV_lt M_le).
Local Notation cstr_fixpoint_unterminated := (StrOps.cstr_fixpoint_unterminated M TH PG OV jk M_pos TH_ge PG_pos PG_le OV_lt M_le).
Local Notation unflatten_spec := (StrOps.unflatten_spec M TH PG OV jk M_pos TH_ge PG_pos PG_le OV_lt M_le).
Local Notation ctor_sub_spec := (StrOps.ctor_sub_spec M TH PG OV jk M_pos TH_ge PG_pos PG_le OV_lt M_le).
Local Notation l0_sub_all := (StrOps.l0_sub_all M TH PG OV jk M_pos TH_ge PG_pos PG_le OV_lt M_le).
Local Notation l0_sub_all' := (StrOps.l0_sub_all' M TH PG OV jk M_pos TH_ge PG_pos PG_le OV_lt M_le).
Local Notation ctor_copy_spec := (StrOps.ctor_copy_spec M TH PG OV jk M_pos TH_ge PG_pos PG_le OV_lt M_le).
Local Notation ctor_copy_pre_spec := (StrOps.ctor_copy_pre_spec M TH PG OV jk M_pos TH_ge PG_pos PG_le OV_lt M_le).
Local Notation ctor_pre_lit_spec := (StrOps.ctor_pre_lit_spec M TH PG OV jk M_pos TH_ge PG_pos PG_le OV_lt M_le).
Local Notation commit_at := (StrOps.commit_at M TH PG OV jk M_pos TH_ge PG_pos PG_le OV_lt M_le).
Local Notation cut_spec := (StrOps.cut_spec M TH PG OV jk M_pos TH_ge PG_pos PG_le OV_lt M_le).
Local Notation map_content_spec := (StrOps.map_content_spec M TH PG OV jk M_pos TH_ge PG_pos PG_le OV_lt M_le).
Local Notation reverse_spec := (StrOps.reverse_spec M TH PG OV jk M_pos TH_ge PG_pos PG_le OV_lt M_le).
Local Notation lenN_replace_ch_aux := (StrOps.lenN_replace_ch_aux M TH PG OV jk M_pos TH_ge PG_pos PG_le OV_lt M_le).
Local Notation lenN_replace_ch := (StrOps.lenN_replace_ch M TH PG OV jk M_pos TH_ge PG_pos PG_le OV_lt M_le).
Local Notation replace_ch_spec := (StrOps.replace_ch_spec M TH PG OV jk M_pos TH_ge PG_pos PG_le OV_lt M_le).
Local Notation minus_ch_spec := (StrOps2.minus_ch_spec M TH PG OV jk M_pos TH_ge PG_pos PG_le OV_lt M_le).
Local Notation cut_found := (StrOps2.cut_found M TH PG OV jk M_pos TH_ge PG_pos PG_le OV_lt M_le).
Local Notation l0_minus_self := (StrOps2.l0_minus_self M TH PG OV jk M_pos TH_ge PG_pos PG_le OV_lt M_le).
Local Notation minus_s_spec := (StrOps2.minus_s_spec M TH PG OV jk M_pos TH_ge PG_pos PG_le OV_lt M_le).
Local Notation minus_c_spec := (StrOps2.minus_c_spec M TH PG OV jk M_pos TH_ge PG_pos PG_le OV_lt M_le).
Local Notation replace_s_spec := (StrOps2.replace_s_spec M TH PG OV jk M_pos TH_ge PG_pos PG_le OV_lt M_le).
Local Notation copy_spec := (StrProd.copy_spec M TH PG OV jk M_pos TH_ge PG_pos PG_le OV_lt M_le).
Local Notation sub_spec := (StrProd.sub_spec M TH PG OV jk M_pos TH_ge PG_pos PG_le OV_lt M_le).
Local Notation copy_pre_spec := (StrProd.copy_pre_spec M TH PG OV jk M_pos TH_ge PG_pos PG_le OV_lt M_le).
Local Notation src_first := (StrProd.src_first M TH PG OV jk M_pos TH_ge PG_pos PG_le OV_lt M_le).
Local Notation l0_insert_nil := (StrProd.l0_insert_nil M TH PG OV jk M_pos TH_ge PG_pos PG_le OV_lt M_le).
Local Notation with_insert_spec := (StrProd.with_insert_spec M TH PG OV jk M_pos TH_ge PG_pos PG_le OV_lt M_le).
Local Notation concat_rep_single := (StrProd.concat_rep_single M TH PG OV jk M_pos TH_ge PG_pos PG_le OV_lt M_le).
Local Notation with_insert_ch_spec := (StrProd.with_insert_ch_spec M TH PG OV jk M_pos TH_ge PG_pos PG_le OV_lt M_le).
Local Notation l0_insert_front := (StrProd.l0_insert_front M TH PG OV jk M_pos TH_ge PG_pos PG_le OV_lt M_le).
Local Notation l0_insert_back := (StrProd.l0_insert_back M TH PG OV jk M_pos TH_ge PG_pos PG_le OV_lt M_le).
Local Notation padded_spec := (StrProd.padded_spec M TH PG OV jk M_pos TH_ge PG_pos PG_le OV_lt M_le).
Local Notation case_spec := (StrProd.case_spec M TH PG OV jk M_pos TH_ge PG_pos PG_le OV_lt M_le).
Local Notation lenN_mixed_aux := (StrProd.lenN_mixed_aux M TH PG OV jk M_pos TH_ge PG_pos PG_le OV_lt M_le).
Local Notation drop_while_suffix := (StrProd.drop_while_suffix M TH PG OV jk M_pos TH_ge PG_pos PG_le OV_lt M_le).
Local Notation trimmed_slice := (StrProd.trimmed_slice M TH PG OV jk M_pos TH_ge PG_pos PG_le OV_lt M_le).
Local Notation trimmed_spec := (StrProd.trimmed_spec M TH PG OV jk M_pos TH_ge PG_pos PG_le OV_lt M_le).
Local Notation plus_spec := (StrProd.plus_spec M TH PG OV jk M_pos TH_ge PG_pos PG_le OV_lt M_le).
Local Notation l0_trunc_chars_len := (StrProd.l0_trunc_chars_len M TH PG OV jk M_pos TH_ge PG_pos PG_le OV_lt M_le).
Local Notation without_suffix_loop_spec := (StrProd.without_suffix_loop_spec M TH PG OV jk M_pos TH_ge PG_pos PG_le OV_lt M_le).
Local Notation without_suffix_ch_loop_spec := (StrProd.without_suffix_ch_loop_spec M TH PG OV jk M_pos TH_ge PG_pos PG_le OV_lt M_le).
Local Notation l0_sub_from := (StrProd.l0_sub_from M TH PG OV jk M_pos TH_ge PG_pos PG_le OV_lt M_le).
Local Notation without_prefix_loop_spec := (StrProd.without_prefix_loop_spec M TH PG OV jk M_pos TH_ge PG_pos PG_le OV_lt M_le).
Local Notation strip_ch_prefix_suffix := (StrProd.strip_ch_prefix_suffix M TH PG OV jk M_pos TH_ge PG_pos PG_le OV_lt M_le).
Local Notation without_prefix_ch_spec := (StrProd.without_prefix_ch_spec M TH PG OV jk M_pos TH_ge PG_pos PG_le OV_lt M_le).
Local Notation strip_digits_loop_spec := (StrProd.strip_digits_loop_spec M TH PG OV jk M_pos TH_ge PG_pos PG_le OV_lt M_le).
Local Notation without_num_suffix_spec := (StrProd.without_num_suffix_spec M TH PG OV jk M_pos TH_ge PG_pos PG_le OV_lt M_le).
Local Notation arg_spec := (StrProd.arg_spec M TH PG OV jk M_pos TH_ge PG_pos PG_le OV_lt M_le).
Local Notation src_ok := StrOps.src_ok.
Local Notation osrc_ok := StrOps.osrc_ok.
Local Notation carg_ok := StrOps.carg_ok.
Local Notation slen := (slen M).
Local Notation cap := (cap M).
Local Notation abs := (abs M).
Local Notation inv := (inv M).
Local Notation commit := (commit M).
Local Notation empty1 := (empty1 M jk).
Local Notation osrc := (osrc M).
Local Notation src_of := (src_of M).
Local Notation without_suffix_nc_loop_spec := (StrProd.without_suffix_nc_loop_spec M TH PG OV jk M_pos TH_ge PG_pos PG_le OV_lt M_le).
Local Notation without_prefix_nc_loop_spec := (StrProd.without_prefix_nc_loop_spec M TH PG OV jk M_pos TH_ge PG_pos PG_le OV_lt M_le).
Local Notation without_prefix_ch_nc_spec := (StrProd.without_prefix_ch_nc_spec M TH PG OV jk M_pos TH_ge PG_pos PG_le OV_lt M_le).
Local Notation strip_ch_prefix_nc_suffix := (StrProd.strip_ch_prefix_nc_suffix M TH PG OV jk M_pos TH_ge PG_pos PG_le OV_lt M_le).
Local Notation with_word_spec := (StrProd.with_word_spec M TH PG OV jk M_pos TH_ge PG_pos PG_le OV_lt M_le).
Local Notation indented_spec := (StrProd.indented_spec M TH PG OV jk M_pos TH_ge PG_pos PG_le OV_lt M_le).
Local Notation escaped_spec := (StrProd.escaped_spec M TH PG OV jk M_pos TH_ge PG_pos PG_le OV_lt M_le).
Local Notation replace_multi_spec := (StrProd.replace_multi_spec M TH PG OV jk M_pos TH_ge PG_pos PG_le OV_lt M_le).
Local Notation float_text_spec := (StrProd.float_text_spec M TH PG OV jk M_pos TH_ge PG_pos PG_le OV_lt M_le).
Local Notation subj_ok := (StrProd.subj_ok M).
Local Notation step1 := (step1 M TH PG OV jk true).
Local Notation mutate := (mutate M TH PG OV jk true).
Local Notation produce := (produce M TH PG OV jk true).
Local Notation abs_out := (abs_out M).

(* a produced String satisfies the invariant too *)
Definition out_inv (r : out1) : Prop :=
  match r with R1Str x => inv x | R1StrNat x _ => inv x | _ => True end.

Lemma arg_src_ok s a : inv s -> sarg_ok a -> osrc_ok (arg_src a).
Proof. intros I A. destruct a as [l|]; cbn [arg_src]; [|exact Logic.I]. split; [apply src_ok_lit|apply A]. Qed.
Lemma osrc_bytes s a : src_bytes (osrc s (arg_src a)) = lit_of (abs s) a.
Proof. destruct a as [l|]; cbn [arg_src StrModel.osrc lit_of]; [apply src_bytes_lit|reflexivity]. Qed.
Lemma osrc_len s a : inv s -> snd (osrc s (arg_src a)) = lenN (lit_of (abs s) a).
Proof. intros I. destruct a as [l|]; cbn [arg_src StrModel.osrc lit_of src_lit src_of snd]; [reflexivity|symmetry; apply (lenN_abs s I)]. Qed.
Lemma osrc_src_ok s a : inv s -> src_ok (osrc s (arg_src a)).
Proof. intros I. destruct a as [l|]; cbn [arg_src StrModel.osrc]; [apply src_ok_lit|now apply src_ok_of]. Qed.

(* ---------------------------------------------------------------- mutators *)

Lemma mutate_refines s o s' r :
  inv s -> nulfree (abs s) -> op_ok (abs s) o -> mutate s o = Some (s', r) ->
  exists l' r0, mutate0 (abs s) o = Some (l', r0) /\ inv s' /\ abs s' = l' /\ abs_out r = r0 /\ out_inv r.
Proof.
  intros I F (Bl & Ao & Nd) H. rewrite (lenN_abs s I) in Bl.
  destruct o; cbn [StrModel.mutate mutate0] in *; try discriminate; cbn [args_ok need] in *.
  - (* SetCstr *)
    destruct (set_cstr_spec s c maxLen I F Ao) as (x & E & I' & A'). rewrite E in H. inversion H; subst.
    eexists _, _. splits; trivial; try exact Logic.I.
  - (* SetFromString *)
    destruct (set_from_spec s (arg_src a) first after I (arg_src_ok s a I Ao)) as (x & E & I' & A'). rewrite E in H. inversion H; subst.
    eexists _, _. splits; trivial; try exact Logic.I; now rewrite A', osrc_bytes.
  - (* += String *)
    inversion H; subst. destruct (append_s_spec s (arg_src a) I (arg_src_ok s a I Ao)) as (I' & A').
    { rewrite (osrc_len s a I). rewrite (lenN_abs s I) in Nd. exact Nd. }
    eexists _, _. splits; trivial; try exact Logic.I; now rewrite A', osrc_bytes.
  - (* += const char-ptr *)
    inversion H; subst. destruct (append_c_spec s c I F Ao) as (I' & A').
    { rewrite (lenN_abs s I) in Nd. exact Nd. }
    eexists _, _. splits; trivial; try exact Logic.I.
  - (* += char *)
    inversion H; subst. destruct (append_ch_spec s ch I) as (I' & A').
    { rewrite (lenN_abs s I) in Nd. exact Nd. }
    eexists _, _. splits; trivial; try exact Logic.I.
  - (* InsertChars *)
    destruct (insert_chars_spec s idx c maxLen I F Ao) as (x & E & I' & A').
    { rewrite (lenN_abs s I) in Nd. exact Nd. }
    rewrite E in H. inversion H; subst. eexists _, _. splits; trivial; try exact Logic.I.
  - (* Clear *)
    inversion H; subst. destruct (clear_spec s I) as (I' & A' & _). eexists _, _. splits; trivial; try exact Logic.I.
  - (* ClearAndFlush *)
    inversion H; subst. destruct (inv_clear_and_flush s I) as (I' & _ & A' & _). eexists _, _. splits; trivial; try exact Logic.I.
  - (* Prealloc *)
    destruct (prealloc_ok s n I Nd) as (x & E & I' & A' & _). rewrite E in H. inversion H; subst.
    eexists _, _. splits; trivial; try exact Logic.I.
  - (* ShrinkToFit *)
    rewrite (lenN_abs s I) in Nd.
    destruct (shrink_safe s extra I) as (I' & A').
    assert (Ok : fst (StrModel.shrink_to_fit M TH PG OV jk true s extra) = StOk).
    { unfold StrModel.shrink_to_fit. rewrite N.min_l by (unfold NOLIMIT, LIM in *; lia).
      rewrite u32_small by (unfold LIM in *; lia).
      unfold StrModel.ensure. destruct (slen s + 1 + extra =? StrModel.cap M s); [reflexivity|].
      cbn [orb]. rewrite N.ltb_irrefl.
      assert (X : (slen s + 1 + extra =? 0) = false) by (apply N.eqb_neq; lia). rewrite X.
      assert (Y : (2147483648 <=? slen s + 1 + extra) = false) by (apply N.leb_gt; unfold LIM in *; lia). rewrite Y.
      destruct (is_long s), (slen s + 1 + extra <=? M + 1); reflexivity. }
    destruct (StrModel.shrink_to_fit M TH PG OV jk true s extra) as [e x]. cbn [fst snd] in *. subst e.
    inversion H; subst. eexists _, _. splits; trivial; try exact Logic.I.
  - (* TruncateChars *)
    inversion H; subst. destruct (trunc_chars_spec s n I) as (I' & A'). eexists _, _. splits; trivial; try exact Logic.I.
  - (* TruncateToLength *)
    inversion H; subst. destruct (trunc_to_spec s n I) as (I' & A'). eexists _, _. splits; trivial; try exact Logic.I.
  - (* SwapContents *)
    inversion H; subst. destruct Ao as [Fl Bl']. destruct (ctor_pre_lit_spec pre lit Fl Bl') as (I' & A').
    eexists _, _. splits; trivial.
  - (* -= char *)
    inversion H; subst. destruct (minus_ch_spec s ch I) as (I' & A'). eexists _, _. splits; trivial; try exact Logic.I.
  - (* -= String *)
    inversion H; subst. destruct (minus_s_spec s (arg_src a) I (arg_src_ok s a I Ao)) as (I' & A').
    eexists _, _. splits; trivial; try exact Logic.I; now rewrite A', osrc_bytes.
  - (* -= const char-ptr *)
    inversion H; subst. destruct (minus_c_spec s c I F Ao) as (I' & A'). eexists _, _. splits; trivial; try exact Logic.I.
  - (* Reverse *)
    inversion H; subst. destruct (reverse_spec s I) as (I' & A'). eexists _, _. splits; trivial; try exact Logic.I.
  - (* Replace(char, char) *)
    destruct (replace_ch_spec s a b max from I) as (I' & A' & K').
    destruct (StrModel.replace_ch1 M s a b max from) as [x k]. destruct (l0_replace_ch (abs s) a b max from) as [l0 k0].
    cbn [fst snd] in *. inversion H; subst. eexists _, _. splits; trivial; try exact Logic.I.
  - (* Replace(String, String) *)
    destruct Ao as [Arm Awm].
    pose proof (replace_s_spec s (arg_src rm) (arg_src wm) max from I F (arg_src_ok s wm I Awm)) as R. cbn zeta in R.
    rewrite !osrc_bytes, (osrc_len s wm I) in R. rewrite (lenN_abs s I) in Nd. specialize (R Nd).
    destruct R as (I' & A' & K').
    destruct (StrModel.replace_s1 M TH PG OV jk true s (arg_src rm) (arg_src wm) max from) as [x k].
    destruct (l0_replace_sub (abs s) (lit_of (abs s) rm) (lit_of (abs s) wm) max from) as [l0 k0].
    cbn [fst snd] in *. inversion H; subst. eexists _, _. splits; trivial; try exact Logic.I.
  - (* Unflatten *)
    destruct (unflatten_spec s bytes I Ao) as (U1 & U2).
    destruct (list_eqb (cstr bytes) bytes) eqn:E.
    + apply cstr_fixpoint_unterminated in E. rewrite (U1 E) in H. inversion H; subst.
      eexists _, _. splits; trivial; try exact Logic.I.
    + assert (NF : ~ nulfree bytes) by (intros X; apply cstr_fixpoint_unterminated in X; congruence).
      destruct (U2 NF) as (x & Ex & I' & A'). rewrite Ex in H. inversion H; subst.
      eexists _, _. splits; trivial; try exact Logic.I.
  - (* Unflatten through a window that has been read from *)
    set (r0 := run_pre arena win ps) in *. set (rem := win_remaining arena win r0) in *.
    assert (Lr : lenN rem < LIM).
    { unfold rem, win_remaining. rewrite lenN_dropN, lenN_takeN. lia. }
    destruct (unflatten_spec s rem I Lr) as (U1 & U2).
    unfold read_cstr_w in *. fold rem in H |- *.
    destruct (list_eqb (cstr rem) rem) eqn:E.
    + apply cstr_fixpoint_unterminated in E. rewrite (U1 E) in H. inversion H; subst. cbn [snd].
      eexists _, _. splits; trivial; try exact Logic.I.
    + assert (NF : ~ nulfree rem) by (intros X; apply cstr_fixpoint_unterminated in X; congruence).
      destruct (U2 NF) as (x & Ex & I' & A'). rewrite Ex in H. inversion H; subst. cbn [snd].
      eexists _, _. splits; trivial; try exact Logic.I.
  - (* Replace(Hashtable) *)
    pose proof (replace_multi_spec s pairs max I ltac:(lia)) as R.
    destruct (StrModel.replace_multi1 M TH PG OV jk true s pairs max) as [[w|] n];
      destruct (l0_replace_multi (abs s) pairs max) as [l0 k0]; cbn [fst snd] in *; inversion H; subst.
    + destruct R as (R1 & R2 & R3). subst. eexists _, _. splits; trivial; try exact Logic.I.
    + destruct R as (R1 & R2 & R3). subst. eexists _, _. splits; trivial; try exact Logic.I.
  - (* operator[] write *)
    inversion H; subst. rewrite (lenN_abs s I). destruct (i <? slen s) eqn:E.
    + apply N.ltb_lt in E. destruct (map_content_spec s (fun x => upd x i ch) I) as (I' & A').
      { rewrite lenN_upd; rewrite (lenN_abs s I); lia. }
      eexists _, _. splits; trivial; try exact Logic.I.
    + eexists _, _. splits; trivial; try exact Logic.I.
  - (* operator<<(int) *)
    inversion H; subst. destruct (append_c_spec s (CLit (dec_of_Z z)) I F) as (I' & A').
    { split; [apply nulfree_dec_of_Z|now apply lenN_dec_of_Z]. }
    { cbn [clit_of]. rewrite (lenN_abs s I) in Nd. exact Nd. }
    eexists _, _. splits; trivial; try exact Logic.I.
  - (* operator<<(bool) *)
    inversion H; subst. rewrite (lenN_abs s I) in Nd.
    destruct (append_c_spec s (CLit (if b then [116;114;117;101] else [102;97;108;115;101])) I F) as (I' & A').
    { destruct b; (split; [repeat constructor; discriminate|reflexivity]). }
    { cbn [clit_of]. destruct b; cbn [lenN length N.of_nat Pos.of_succ_nat Pos.succ]; lia. }
    eexists _, _. splits; trivial; try exact Logic.I.
  - (* IndexOf(const char-ptr) *)
    pose proof (cstr_cregion s c I F Ao) as R. unfold StrModel.cbytes in H.
    destruct (StrModel.cregion M s c) as [r0|]; [rewrite R in H|subst c; cbn [clit_of]]; inversion H; subst;
      eexists _, _; splits; trivial; try exact Logic.I.
  - (* GetDistanceTo: the early exit does not change the capped distance *)
    inversion H; subst. rewrite distance_code_fixed, osrc_bytes. eexists _, _. splits; trivial; try exact Logic.I.
  - (* Flatten *)
    rewrite (flatten_spec s I) in H. inversion H; subst. eexists _, _. splits; trivial; try exact Logic.I.
Qed.

(* ---------------------------------------------------------------- producers *)

Lemma produce_refines s o r :
  inv s -> nulfree (abs s) -> op_ok (abs s) o -> produce s o = Some r ->
  exists r0, produce0 (abs s) o = Some r0 /\ abs_out r = r0 /\ out_inv r.
Proof.
  intros I F (Bl & Ao & Nd) H.
  assert (Sb : subj_ok s) by (split; [exact I|now rewrite <- (lenN_abs s I)]).
  assert (Ls : lenN (abs s) = slen s) by apply (lenN_abs s I).
  destruct o; cbn [StrModel.produce produce0] in *; try discriminate; cbn [args_ok need] in *;
    inversion H; subst; clear H; cbn [StrSpec.abs_out out_inv].
  - (* copy *) destruct (copy_spec s Sb) as (I' & A'). eexists; splits; [reflexivity|f_equal; exact A'|exact I'].
  - (* copy with prealloc *) destruct (copy_pre_spec s extra Sb) as (I' & A'). eexists; splits; [reflexivity|f_equal; exact A'|exact I'].
  - (* Substring(a,b) *) destruct (sub_spec s first after Sb) as (I' & A'). eexists; splits; [reflexivity|f_equal; exact A'|exact I'].
  - (* Substring(marker) *)
    rewrite osrc_bytes.
    destruct (l0_last_index_of1 (abs s) (lit_of (abs s) a)) as [|p|p].
    + destruct (sub_spec s (Z.to_N 0 + lenN (lit_of (abs s) a)) NOLIMIT Sb) as (I' & A'). eexists; splits; [reflexivity|f_equal; exact A'|exact I'].
    + destruct (sub_spec s (Z.to_N (Z.pos p) + lenN (lit_of (abs s) a)) NOLIMIT Sb) as (I' & A'). eexists; splits; [reflexivity|f_equal; exact A'|exact I'].
    + destruct (copy_spec s Sb) as (I' & A'). eexists; splits; [reflexivity|f_equal; exact A'|exact I'].
  - (* Substring(i, marker) *)
    rewrite osrc_bytes.
    destruct (sub_spec s first (u32 (Z.to_N (l0_index_of (abs s) (lit_of (abs s) a) first + 4294967296))) Sb) as (I' & A').
    eexists; splits; [reflexivity|f_equal; exact A'|exact I'].
  - (* WithInsert(String) *)
    destruct (with_insert_spec s idx (osrc s (arg_src a)) max Sb (osrc_src_ok s a I)) as (I' & A').
    { rewrite osrc_bytes. now apply lit_nulfree. }
    { rewrite (osrc_len s a I). lia. }
    eexists. splits; trivial. now rewrite A', osrc_bytes.
  - (* WithInsert(char, count) *)
    destruct (with_insert_ch_spec s idx ch count Sb) as (I' & A'); [lia|].
    eexists; splits; [reflexivity|f_equal; exact A'|exact I'].
  - (* PaddedBy *)
    destruct (padded_spec s minLen right ch Sb Nd) as (I' & A'). eexists; splits; [reflexivity|f_equal; exact A'|exact I'].
  - (* ToLowerCase *)
    destruct (case_spec s (map to_lower) Sb) as (I' & A'); [intros; apply lenN_map|]. eexists; splits; [reflexivity|f_equal; exact A'|exact I'].
  - (* ToUpperCase *)
    destruct (case_spec s (map to_upper) Sb) as (I' & A'); [intros; apply lenN_map|]. eexists; splits; [reflexivity|f_equal; exact A'|exact I'].
  - (* ToMixedCase *)
    destruct (case_spec s l0_mixed Sb) as (I' & A'); [intros; apply lenN_mixed_aux|]. eexists; splits; [reflexivity|f_equal; exact A'|exact I'].
  - (* Trimmed *)
    destruct (trimmed_spec s Sb) as (I' & A'). eexists; splits; [reflexivity|f_equal; exact A'|exact I'].
  - (* WithReplacements(char, char) *)
    destruct (copy_spec s Sb) as (Ic & Ac).
    destruct (replace_ch_spec (StrModel.ctor_copy M TH PG OV jk true (src_of s)) a b max from Ic) as (I' & A' & _).
    eexists; splits; [reflexivity|f_equal; etransitivity; [exact A'|now rewrite Ac]|exact I'].
  - (* WithReplacements(String, String) *)
    destruct Ao as [Arm Awm]. destruct (copy_spec s Sb) as (Ic & Ac).
    assert (Lc : slen (StrModel.ctor_copy M TH PG OV jk true (src_of s)) = slen s) by (rewrite <- (lenN_abs _ Ic), Ac; exact Ls).
    assert (Fc : nulfree (abs (StrModel.ctor_copy M TH PG OV jk true (src_of s)))) by now rewrite Ac.
    pose proof (replace_s_spec (StrModel.ctor_copy M TH PG OV jk true (src_of s)) (Some (osrc s (arg_src rm))) (Some (osrc s (arg_src wm))) max from Ic Fc) as R.
    cbn zeta in R. cbn [StrModel.osrc] in R. rewrite !osrc_bytes, Ac in R.
    destruct R as (I' & A' & _).
    + split; [apply (osrc_src_ok s wm I)|]. rewrite (osrc_len s wm I). now apply lit_len.
    + rewrite (osrc_len s wm I), Lc. lia.
    + eexists; splits; [reflexivity|f_equal; exact A'|exact I'].
  - (* Arg(String) *)
    rewrite osrc_bytes. destruct (arg_spec s (lit_of (abs s) a) Sb F) as (I' & A').
    + now apply lit_nulfree.
    + now apply lit_len.
    + lia.
    + eexists; splits; [reflexivity|f_equal; exact A'|exact I'].
  - (* Arg(int) *)
    destruct (arg_spec s (dec_of_Z z) Sb F (nulfree_dec_of_Z z) (lenN_dec_of_Z z Ao)) as (I' & A'); [lia|].
    eexists; splits; [reflexivity|f_equal; exact A'|exact I'].
  - (* WithSuffix *)
    rewrite osrc_bytes. destruct (ends_with (abs s) (lit_of (abs s) a)).
    + destruct (copy_spec s Sb) as (I' & A'). eexists; splits; [reflexivity|f_equal; exact A'|exact I'].
    + destruct (with_insert_spec s NOLIMIT (osrc s (arg_src a)) NOLIMIT Sb (osrc_src_ok s a I)) as (I' & A').
      { rewrite osrc_bytes. now apply lit_nulfree. }
      { rewrite (osrc_len s a I). lia. }
      eexists. splits; trivial. rewrite A', osrc_bytes.
      rewrite l0_insert_back by (unfold NOLIMIT, LIM in *; lia).
      rewrite takeN_all; trivial. pose proof (lit_len (abs s) a Bl Ao). unfold NOLIMIT, LIM in *. lia.
  - (* WithPrefix *)
    rewrite osrc_bytes. destruct (starts_with (abs s) (lit_of (abs s) a)).
    + destruct (copy_spec s Sb) as (I' & A'). eexists; splits; [reflexivity|f_equal; exact A'|exact I'].
    + destruct (with_insert_spec s 0 (osrc s (arg_src a)) NOLIMIT Sb (osrc_src_ok s a I)) as (I' & A').
      { rewrite osrc_bytes. now apply lit_nulfree. }
      { rewrite (osrc_len s a I). lia. }
      eexists. splits; trivial. rewrite A', osrc_bytes, l0_insert_front.
      rewrite takeN_all; trivial. pose proof (lit_len (abs s) a Bl Ao). unfold NOLIMIT, LIM in *. lia.
  - (* WithoutSuffix(String) *)
    rewrite osrc_bytes. unfold l0_without_suffix. destruct (lit_of (abs s) a) as [|x t] eqn:E.
    + destruct (copy_spec s Sb) as (I' & A'). eexists; splits; [reflexivity|f_equal; exact A'|exact I'].
    + destruct (copy_spec s Sb) as (Ic & Ac).
      destruct (without_suffix_loop_spec (S (length (abs s))) (StrModel.ctor_copy M TH PG OV jk true (src_of s)) (x :: t) max Ic) as (I' & A').
      eexists; splits; [reflexivity|f_equal; etransitivity; [exact A'|now rewrite Ac]|exact I'].
  - (* WithoutPrefix(String) *)
    rewrite osrc_bytes. unfold l0_without_prefix.
    destruct (copy_spec s Sb) as (Ic & Ac).
    destruct (lit_of (abs s) a) as [|x t] eqn:E.
    + cbn [lenN length N.of_nat N.eqb orb]. eexists. splits; trivial. now rewrite Ac.
    + assert (E0 : (lenN (x :: t) =? 0) = false) by (apply N.eqb_neq; rewrite lenN_cons; lia). rewrite E0. cbn [orb].
      destruct (starts_with (abs s) (x :: t)) eqn:Es; cbn [negb].
      * assert (Sc : subj_ok (StrModel.ctor_copy M TH PG OV jk true (src_of s))).
        { split; trivial. rewrite <- (lenN_abs _ Ic), Ac. exact Bl. }
        destruct (without_prefix_loop_spec (S (length (abs s))) _ (x :: t) max Sc) as (I' & A').
        eexists; splits; [reflexivity|f_equal; etransitivity; [exact A'|now rewrite Ac]|exact I'].
      * eexists. splits; trivial. rewrite Ac. cbn [strip_prefix_fuel]. rewrite Es. now rewrite andb_false_r.
  - (* WithoutSuffix(char) *)
    destruct (copy_spec s Sb) as (Ic & Ac).
    destruct (without_suffix_ch_loop_spec (S (length (abs s))) (StrModel.ctor_copy M TH PG OV jk true (src_of s)) ch max Ic) as (I' & A').
    eexists; splits; [reflexivity|f_equal; etransitivity; [exact A'|now rewrite Ac]|exact I'].
  - (* WithoutPrefix(char) *)
    destruct (without_prefix_ch_spec s ch max Sb) as (I' & A'). eexists; splits; [reflexivity|f_equal; exact A'|exact I'].
  - (* WithoutNumericSuffix *)
    destruct (without_num_suffix_spec s Sb) as (I' & A').
    destruct (l0_without_num_suffix (abs s)) as [x v] eqn:E. cbn [fst] in A'.
    eexists. split; [reflexivity|]. split; [|exact I']. f_equal; [exact A'|unfold l0_without_num_suffix in E; now inversion E].
  - (* operator+ *)
    destruct (plus_spec s (osrc s (arg_src a)) Sb (osrc_src_ok s a I)) as (I' & A').
    { rewrite (osrc_len s a I). lia. }
    eexists. splits; trivial. now rewrite A', osrc_bytes.
  - (* WithSuffix(char) *)
    rewrite Ls. destruct ((0 <? slen s) && (nthN (slen s - 1) (abs s) =? ch)).
    + destruct (copy_spec s Sb) as (I' & A'). eexists; splits; [reflexivity|f_equal; exact A'|exact I'].
    + destruct (with_insert_ch_spec s NOLIMIT ch 1 Sb) as (I' & A'); [lia|].
      eexists; splits; [reflexivity| |exact I']. f_equal. rewrite A'. destruct (ch =? 0); [reflexivity|].
      apply l0_insert_back. unfold NOLIMIT, LIM in *. lia.
  - (* WithPrefix(char) *)
    destruct (nthN 0 (abs s) =? ch).
    + destruct (copy_spec s Sb) as (I' & A'). eexists; splits; [reflexivity|f_equal; exact A'|exact I'].
    + destruct (with_insert_ch_spec s 0 ch 1 Sb) as (I' & A'); [lia|].
      eexists; splits; [reflexivity| |exact I']. f_equal. rewrite A'. destruct (ch =? 0); [reflexivity|].
      apply l0_insert_front.
  - (* WithoutSuffixIgnoreCase(String) *)
    rewrite osrc_bytes. unfold l0_without_suffix_nc.
    destruct (copy_spec s Sb) as (Ic & Ac).
    destruct (lit_of (abs s) a) as [|x t] eqn:E.
    + cbn [lenN length N.of_nat N.eqb orb]. eexists; splits; [reflexivity|f_equal; exact Ac|exact Ic].
    + assert (E0 : (lenN (x :: t) =? 0) = false) by (apply N.eqb_neq; rewrite lenN_cons; lia). rewrite E0. cbn [orb].
      destruct (ends_with_nocase (abs s) (x :: t)) eqn:Es; cbn [negb].
      * destruct (without_suffix_nc_loop_spec (S (length (abs s))) _ (x :: t) max Ic) as (I' & A').
        eexists; splits; [reflexivity|f_equal; etransitivity; [exact A'|now rewrite Ac]|exact I'].
      * eexists; splits; [reflexivity| |exact Ic]. f_equal. rewrite Ac. cbn [strip_suffix_nc_fuel]. rewrite Es. now rewrite andb_false_r.
  - (* WithoutPrefixIgnoreCase(String) *)
    rewrite osrc_bytes. unfold l0_without_prefix_nc.
    destruct (copy_spec s Sb) as (Ic & Ac).
    destruct (lit_of (abs s) a) as [|x t] eqn:E.
    + cbn [lenN length N.of_nat N.eqb orb]. eexists; splits; [reflexivity|f_equal; exact Ac|exact Ic].
    + assert (E0 : (lenN (x :: t) =? 0) = false) by (apply N.eqb_neq; rewrite lenN_cons; lia). rewrite E0. cbn [orb].
      destruct (starts_with_nocase (abs s) (x :: t)) eqn:Es; cbn [negb].
      * assert (Sc : subj_ok (StrModel.ctor_copy M TH PG OV jk true (src_of s))).
        { split; trivial. rewrite <- (lenN_abs _ Ic), Ac. exact Bl. }
        destruct (without_prefix_nc_loop_spec (S (length (abs s))) _ (x :: t) max Sc) as (I' & A').
        eexists; splits; [reflexivity|f_equal; etransitivity; [exact A'|now rewrite Ac]|exact I'].
      * eexists; splits; [reflexivity| |exact Ic]. f_equal. rewrite Ac. cbn [strip_prefix_nc_fuel]. rewrite Es. now rewrite andb_false_r.
  - (* WithoutSuffixIgnoreCase(char) *)
    destruct (copy_spec s Sb) as (Ic & Ac).
    destruct (ends_with_nocase (abs s) [ch]) eqn:Es; cbn [negb].
    + destruct (without_suffix_nc_loop_spec (S (length (abs s))) _ [ch] max Ic) as (I' & A').
      eexists; splits; [reflexivity|f_equal; etransitivity; [exact A'|now rewrite Ac]|exact I'].
    + eexists; splits; [reflexivity| |exact Ic]. f_equal. rewrite Ac. cbn [strip_suffix_nc_fuel]. rewrite Es. now rewrite andb_false_r.
  - (* WithoutPrefixIgnoreCase(char) *)
    destruct (without_prefix_ch_nc_spec s ch max Sb) as (I' & A'). eexists; splits; [reflexivity|f_equal; exact A'|exact I'].
  - (* WithInsertedWord *)
    destruct Ao as [Aa As].
    destruct (with_word_spec s idx (osrc s (arg_src a)) sep Sb F (osrc_src_ok s a I)) as (I' & A').
    + rewrite osrc_bytes. now apply lit_nulfree.
    + exact As.
    + rewrite (osrc_len s a I). now apply lit_len.
    + rewrite (osrc_len s a I). lia.
    + eexists; splits; [reflexivity| |exact I']. f_equal. now rewrite A', osrc_bytes.
  - (* IndentedBy *)
    destruct (indented_spec s n ch Sb) as (I' & A'); [rewrite <- Ls; exact Nd|].
    eexists; splits; [reflexivity|f_equal; exact A'|exact I'].
  - (* Arg(double, min, max), from the sprintf output on *)
    destruct (float_text_facts buf minDigits Ao) as (Ft & Lt).
    destruct (float_text_spec buf minDigits Ao) as (If & Af); [lia|].
    rewrite Af.
    destruct (arg_spec s (l0_float_text buf minDigits) Sb F Ft) as (I' & A'); [unfold LIM in *; lia|nia|].
    eexists; splits; [reflexivity|f_equal; exact A'|exact I'].
  - (* WithReplacements(Hashtable) *)
    pose proof (replace_multi_spec s pairs max I ltac:(lia)) as R.
    destruct (StrModel.replace_multi1 M TH PG OV jk true s pairs max) as [[w|] n].
    + destruct R as (R1 & R2 & R3).
      destruct (ctor_copy_spec (src_of w) (src_ok_of w R1)) as (I' & A').
      { cbn [src_of snd]. rewrite <- (lenN_abs w R1), R2. unfold LIM in *. lia. }
      eexists; splits; [reflexivity| |exact I']. f_equal. rewrite A'. exact R2.
    + destruct R as (R1 & R2 & R3). destruct (copy_spec s Sb) as (I' & A').
      eexists; splits; [reflexivity| |exact I']. f_equal. now rewrite A', R3.
  - (* String + char *)
    destruct inv_empty1 as (I0 & S0 & A0 & _).
    destruct (prealloc_safe (StrModel.empty1 M jk) (u32 (slen s + 1)) I0) as (Ip & Ap).
    destruct (set_from_spec _ (Some (src_of s)) 0 NOLIMIT Ip) as (r1 & E1 & I1 & A1); [split; [now apply src_ok_of|apply Sb]|].
    rewrite E1. cbn [snd]. cbn [StrModel.osrc] in A1. rewrite l0_sub_all' in A1 by (rewrite lenN_src_bytes by (now apply src_ok_of); apply Sb).
    change (src_bytes (src_of s)) with (abs s) in A1.
    destruct (append_ch_spec r1 ch I1) as (I' & A'); [rewrite <- (lenN_abs r1 I1), A1; lia|].
    eexists; splits; [reflexivity| |exact I']. f_equal. now rewrite A', A1.
  - (* char + String *)
    destruct inv_empty1 as (I0 & S0 & A0 & _).
    destruct (prealloc_safe (StrModel.empty1 M jk) (u32 (slen s + 1)) I0) as (Ip & Ap).
    destruct (set_cstr_spec _ (CLit [ch]) 1 Ip) as (r1 & E1 & I1 & A1).
    { rewrite Ap, A0. constructor. }
    { split; [constructor; [exact Ao|constructor]|unfold LIM; cbn; lia]. }
    rewrite E1. cbn [snd]. cbn [clit_of] in A1.
    assert (A1' : abs r1 = [ch]) by (rewrite A1; apply takeN_all; cbn; lia).
    destruct (append_s_spec r1 (Some (src_of s)) I1) as (I' & A').
    { split; [now apply src_ok_of|apply Sb]. }
    { cbn [StrModel.osrc src_of snd]. rewrite <- (lenN_abs r1 I1), A1'. cbn [lenN length N.of_nat Pos.of_succ_nat]. lia. }
    eexists; splits; [reflexivity| |exact I']. f_equal. rewrite A', A1'. cbn [StrModel.osrc cstr].
    assert (Ez : (ch =? 0) = false) by now apply N.eqb_neq. rewrite Ez. reflexivity.
  - (* const char-ptr + String *)
    destruct Ao as [Fl Bl'].
    destruct inv_empty1 as (I0 & S0 & A0 & _).
    destruct (prealloc_safe (StrModel.empty1 M jk) (u32 (lenN lit + slen s)) I0) as (Ip & Ap).
    destruct (set_cstr_spec _ (CLit lit) NOLIMIT Ip) as (r1 & E1 & I1 & A1).
    { rewrite Ap, A0. constructor. }
    { split; trivial. }
    rewrite E1. cbn [snd]. cbn [clit_of] in A1.
    assert (A1' : abs r1 = lit) by (rewrite A1; apply takeN_all; unfold NOLIMIT, LIM in *; lia).
    destruct (append_s_spec r1 (Some (src_of s)) I1) as (I' & A').
    { split; [now apply src_ok_of|apply Sb]. }
    { cbn [StrModel.osrc src_of snd]. rewrite <- (lenN_abs r1 I1), A1'. lia. }
    eexists; splits; [reflexivity| |exact I']. f_equal. now rewrite A', A1'.
  - (* String - String *)
    destruct (copy_spec s Sb) as (Ic & Ac).
    destruct (minus_s_spec (StrModel.ctor_copy M TH PG OV jk true (src_of s)) (Some (osrc s (arg_src a))) Ic) as (I' & A').
    { split; [apply (osrc_src_ok s a I)|]. rewrite (osrc_len s a I). now apply lit_len. }
    eexists; splits; [reflexivity| |exact I']. f_equal. rewrite A', Ac. cbn [StrModel.osrc]. now rewrite osrc_bytes.
  - (* String - char *)
    destruct (copy_spec s Sb) as (Ic & Ac).
    destruct (minus_ch_spec (StrModel.ctor_copy M TH PG OV jk true (src_of s)) ch Ic) as (I' & A').
    eexists; splits; [reflexivity| |exact I']. f_equal. now rewrite A', Ac.
  - (* WithCharsEscaped *)
    destruct (escaped_spec s seps esc Sb) as (I' & A'); [rewrite <- Ls; exact Nd|].
    eexists; splits; [reflexivity|f_equal; exact A'|exact I'].
Qed.

(* ---------------------------------------------------------------- one step *)

Lemma mutate_none s o : mutate s o = None -> mutate0 (abs s) o = None.
Proof.
  destruct o; cbn [StrModel.mutate mutate0]; try reflexivity; intros H;
    repeat match type of H with context [let '(_, _) := ?x in _] => destruct x end; discriminate.
Qed.
Lemma produce_none s o : produce s o = None -> produce0 (abs s) o = None.
Proof. destruct o; cbn [StrModel.produce produce0]; try reflexivity; intros H; discriminate. Qed.
Lemma abs_out_lift r : match r with R0Str _ | R0StrNat _ _ => False | _ => True end -> abs_out (lift_out r) = r.
Proof. destruct r; cbn; intros H; try reflexivity; contradiction. Qed.
Lemma query_plain l o r : query l l o = Some r -> match r with R0Str _ | R0StrNat _ _ => False | _ => True end.
Proof. destruct o; cbn [query]; intros H; inversion H; exact Logic.I. Qed.

Lemma op_ok_assign l o : op_ok l (OAssign o) -> op_ok l o.
Proof. intros (A & B & C). split; [exact A|]. split; [exact B|exact C]. Qed.

Theorem step_refines s o :
  inv s -> nulfree (abs s) -> op_ok (abs s) o ->
  inv (fst (step1 s o)) /\ abs (fst (step1 s o)) = fst (step0 (abs s) o) /\
  abs_out (snd (step1 s o)) = snd (step0 (abs s) o) /\ out_inv (snd (step1 s o)).
Proof.
  intros I F Ok.
  assert (Plain : forall o', (match o' with OAssign _ => False | _ => True end) -> op_ok (abs s) o' ->
    let r1 := match mutate s o' with
              | Some r => r
              | None => match produce s o' with
                        | Some r => (s, r)
                        | None => match query (abs s) (abs s) o' with Some r => (s, lift_out r) | None => (s, R1None) end
                        end
              end in
    let r0 := match mutate0 (abs s) o' with
              | Some r => r
              | None => match produce0 (abs s) o' with
                        | Some r => (abs s, r)
                        | None => match query (abs s) (abs s) o' with Some r => (abs s, r) | None => (abs s, R0None) end
                        end
              end in
    inv (fst r1) /\ abs (fst r1) = fst r0 /\ abs_out (snd r1) = snd r0 /\ out_inv (snd r1)).
  { intros o' _ Ok' r1 r0. unfold r1, r0.
    destruct (mutate s o') as [[s' r]|] eqn:Em.
    - destruct (mutate_refines s o' s' r I F Ok' Em) as (l' & q & E0 & I' & A' & O' & V'). rewrite E0. cbn [fst snd]. splits; trivial.
    - rewrite (mutate_none s o' Em).
      destruct (produce s o') as [r|] eqn:Ep.
      + destruct (produce_refines s o' r I F Ok' Ep) as (q & E0 & O' & V'). rewrite E0. cbn [fst snd]. splits; trivial.
      + rewrite (produce_none s o' Ep).
        destruct (query (abs s) (abs s) o') as [q|] eqn:Eq; cbn [fst snd].
        * pose proof (query_plain _ _ _ Eq) as Pq. splits; trivial; [now apply abs_out_lift|destruct q; exact Logic.I].
        * splits; trivial; exact Logic.I. }
  assert (Asg : forall o', op_ok (abs s) (OAssign o') ->
    inv (fst (step1 s (OAssign o'))) /\ abs (fst (step1 s (OAssign o'))) = fst (step0 (abs s) (OAssign o')) /\
    abs_out (snd (step1 s (OAssign o'))) = snd (step0 (abs s) (OAssign o')) /\ out_inv (snd (step1 s (OAssign o')))).
  { (* s = <producer> *)
    intros o' Ok'. cbn [StrModel.step1 step0]. apply op_ok_assign in Ok'.
    destruct (produce s o') as [r|] eqn:Ep.
    - destruct (produce_refines s o' r I F Ok' Ep) as (q & E0 & O' & V'). rewrite E0.
      destruct r; cbn [StrSpec.abs_out] in O'; subst q; cbn [fst snd out_inv] in *; splits; trivial; exact Logic.I.
    - rewrite (produce_none s o' Ep). cbn [fst snd]. splits; trivial. exact Logic.I. }
  destruct o; try (refine (Plain _ _ Ok); exact Logic.I). now apply Asg.
Qed.

End Refine.
