(* C16 -- EnsureSizeAux (reallocation policy, setNumItems, allowShrink), AddTail, AddHead. *)
From Coq Require Import List Arith ZArith Bool Lia ZifyBool.
From Muscle Require Import Cont.QueueModel Cont.QueueLemmas Cont.QueueInv Cont.QueueOps1.
Import ListNotations.
Local Open Scope nat_scope.

Lemma intern_head0 q i : head q = 0 -> i < qsize q -> intern q i = i.
Proof. intros H Hi. unfold intern. cbv zeta. rewrite H. dif; lia. Qed.

Lemma getu_head0 q i : head q = 0 -> i < qsize q -> getu q i = nth i (arr q) dflt.
Proof. intros H Hi. unfold getu. rewrite intern_head0 by assumption. reflexivity. Qed.

Section Ensure.
Variables (jk : Z) (sq : nat).
Implicit Types (ow : bool) (q : q1).

(* ------------------------------------------------------------------ the reallocation *)

Lemma es_realloc_spec ow q size extra : inv ow sq q ->
  let q' := es_realloc ow jk sq q size extra in
  inv ow sq q' /\ abs q' = abs q /\ cnt q' = cnt q /\ size <= qsize q'.
Proof.
  intros I q'. subst q'. unfold es_realloc. cbv zeta.
  set (newlen := Nat.max sq (Nat.max (size + extra) (cnt q))).
  pose proof (inv_sq _ _ q I) as Hsq. pose proof (inv_inl _ _ q I) as Hin. unfold inl_ok in Hin.
  pose proof (inv_store _ _ q I) as Hst. unfold store_ok in Hst.
  rewrite abs_length.
  destruct (match st q with SSmall => false | _ => newlen <=? sq end) eqn:Ets.
  - (* into the in-object array, which keeps whatever it held beyond the copied items *)
    assert (Hns : st q <> SSmall) by (destruct (st q); congruence).
    destruct (Hin Hns) as [Hl Hd].
    assert (Hnl : newlen = sq) by (destruct (st q); try congruence; lia).
    assert (Hlen : length (abs q ++ skipn (cnt q) (inl q)) = sq) by (autorewrite with nthdb; lia).
    split; [|split; [|split]].
    + constructor; unfold store_ok, clean, inl_ok, qsize; cbn [st arr cnt head tail inl]; rewrite ?Hlen.
      * exact Hsq.
      * lia.
      * lia.
      * intros Hc. rewrite intern_head0; [reflexivity|reflexivity|]. unfold qsize. cbn [arr]. lia.
      * reflexivity.
      * intros Ho i Hi. rewrite getu_head0; [|reflexivity|unfold qsize; cbn [arr]; lia].
        cbn [arr]. rewrite nth_app', abs_length, nth_skipn'. dif; [lia|]. apply (Hd Ho). lia.
      * intros H. congruence.
    + apply abs_ext; rewrite abs_length; cbn [cnt]; [reflexivity|].
      intros i Hi. rewrite getu_head0; [|reflexivity|unfold qsize; cbn [arr]; lia].
      cbn [arr]. rewrite nth_app', abs_length. dif; fin.
    + reflexivity.
    + unfold qsize. cbn [arr]. lia.
  - (* into a fresh heap array *)
    assert (Hlen : length (abs q ++ repeat (fresh ow jk) (newlen - cnt q)) = newlen)
      by (autorewrite with nthdb; lia).
    split; [|split; [|split]].
    + constructor; unfold store_ok, clean, inl_ok, qsize; cbn [st arr cnt head tail inl]; rewrite ?Hlen.
      * exact Hsq.
      * lia.
      * lia.
      * intros Hc. rewrite intern_head0; [reflexivity|reflexivity|]. unfold qsize. cbn [arr]. lia.
      * lia.
      * intros Ho i Hi. rewrite getu_head0; [|reflexivity|unfold qsize; cbn [arr]; lia].
        cbn [arr]. rewrite nth_app', abs_length, nth_repeat'. unfold fresh. rewrite Ho. dif; fin.
      * intros _. destruct (st q) eqn:Es.
        -- apply Hin. congruence.
        -- destruct ow.
           ++ split; [apply repeat_length|]. intros _ i Hi. rewrite nth_repeat'. dif; reflexivity.
           ++ split; [exact Hst|discriminate].
        -- apply Hin. congruence.
    + apply abs_ext; rewrite abs_length; cbn [cnt]; [reflexivity|].
      intros i Hi. rewrite getu_head0; [|reflexivity|unfold qsize; cbn [arr]; lia].
      cbn [arr]. rewrite nth_app', abs_length. dif; fin.
    + reflexivity.
    + unfold qsize. cbn [arr]. lia.
Qed.

(* ------------------------------------------------------------------ setNumItems growing the count *)

Lemma fill_spec ow n : forall a g, inv ow sq g -> a + n <= cnt g ->
  let g' := fold_left (fun g i => setu g i dflt) (seq a n) g in
  inv ow sq g' /\ cnt g' = cnt g /\ st g' = st g /\ qsize g' = qsize g /\
  forall j, j < cnt g -> getu g' j = if (a <=? j) && (j <? a + n) then dflt else getu g j.
Proof.
  induction n as [|n IH]; intros a g I Ha; cbn [seq fold_left].
  - split; [assumption|]. repeat split. intros j Hj. dif; fin.
  - pose proof (inv_cnt _ _ g I). pose proof (inv_hd _ _ g I ltac:(lia)) as Hh.
    destruct (IH (S a) (setu g a dflt)) as (J1&J2&J3&J4&J5).
    + apply inv_setu; [assumption|lia].
    + rewrite cnt_setu. lia.
    + autorewrite with qdb in *. split; [assumption|]. repeat split; try assumption.
      intros j Hj. rewrite J5 by lia. rewrite getu_setu by lia. dif; fin.
Qed.

Lemma es_grow_spec ow q size : inv ow sq q -> cnt q < size -> size <= qsize q ->
  let q' := es_grow ow q size in
  inv ow sq q' /\ abs q' = abs q ++ repeat 0%Z (size - cnt q) /\ st q' = st q /\ qsize q' = qsize q.
Proof.
  intros I Hc Hs q'. subst q'. unfold es_grow. cbv zeta.
  set (grown := mkQ (st q) (arr q) size (head q) (prev_index q (intern q size)) (inl q)).
  assert (Hh : head q < qsize q) by (apply (inv_head _ _ q I); lia).
  assert (Ig : inv ow sq grown).
  { constructor; unfold store_ok, clean, inl_ok; cbn [st arr cnt head tail inl grown];
      change (qsize grown) with (qsize q).
    - exact (inv_sq _ _ q I).
    - lia.
    - intros _. exact Hh.
    - intros _. rewrite prev_intern by lia. reflexivity.
    - exact (inv_store _ _ q I).
    - intros Ho i Hi. change (getu grown i) with (getu q i). apply (inv_clean _ _ q I Ho). lia.
    - exact (inv_inl _ _ q I). }
  destruct ow.
  - split; [exact Ig|]. split; [|split; reflexivity].
    apply abs_ext; autorewrite with nthdb; cbn [cnt grown]; [lia|].
    intros i Hi. autorewrite with nthdb in Hi. change (getu grown i) with (getu q i).
    rewrite nth_app', abs_length, nth_repeat'. dif.
    + symmetry. apply nth_abs. lia.
    + apply (inv_clean _ _ q I eq_refl). lia.
    + lia.
  - destruct (fill_spec false (size - cnt q) (cnt q) grown Ig) as (J1&J2&J3&J4&J5).
    + cbn [cnt grown]. lia.
    + split; [exact J1|]. split; [|split; assumption].
      apply abs_ext; autorewrite with nthdb; [cbn [cnt grown] in J2; lia|].
      intros i Hi. autorewrite with nthdb in Hi. rewrite J5 by (cbn [cnt grown]; lia).
      change (getu grown i) with (getu q i).
      rewrite nth_app', abs_length, nth_repeat'. dif; fin.
      symmetry. apply nth_abs. lia.
Qed.

(* ------------------------------------------------------------------ EnsureSizeAux *)

Lemma l0_resize_shrink (l : list Z) n : n <= length l -> l0_resize l n = firstn n l.
Proof. intros H. unfold l0_resize. replace (n - length l) with 0 by lia. apply app_nil_r. Qed.

Lemma l0_resize_grow (l : list Z) n : length l <= n -> l0_resize l n = l ++ repeat 0%Z (n - length l).
Proof. intros H. unfold l0_resize. rewrite firstn_all2 by lia. reflexivity. Qed.

Lemma ensure_size_spec ow q size setnum extra shrink : inv ow sq q ->
  let q' := ensure_size ow jk sq q size setnum extra shrink in
  inv ow sq q' /\ abs q' = (if setnum then l0_resize (abs q) size else abs q) /\ size <= qsize q'.
Proof.
  intros I q'. subst q'. unfold ensure_size. cbv zeta.
  set (q0 := if setnum && (size <? cnt q) then fst (remove_tail_multi ow q (cnt q - size)) else q).
  assert (A0 : inv ow sq q0 /\
               abs q0 = (if setnum && (size <? cnt q) then firstn size (abs q) else abs q)).
  { subst q0. destruct (setnum && (size <? cnt q)) eqn:E; [|split; [assumption|reflexivity]].
    destruct (remove_tail_multi_spec sq ow q (cnt q - size) I) as (J1&J2&_).
    split; [assumption|]. rewrite J2. f_equal. lia. }
  destruct A0 as [I0 A0].
  set (q1 := if es_need_realloc q0 size extra shrink then es_realloc ow jk sq q0 size extra else q0).
  assert (A1 : inv ow sq q1 /\ abs q1 = abs q0 /\ size <= qsize q1).
  { subst q1. destruct (es_need_realloc q0 size extra shrink) eqn:En.
    - destruct (es_realloc_spec ow q0 size extra I0) as (J1&J2&J3&J4). auto.
    - split; [assumption|]. split; [reflexivity|].
      unfold es_need_realloc in En. destruct (st q0); [discriminate| |]; destruct shrink; lia. }
  destruct A1 as (I1 & A1 & S1).
  assert (C1 : cnt q1 = length (abs q0)) by (rewrite <- A1, abs_length; reflexivity).
  rewrite A0 in C1.
  destruct setnum; cbn [andb] in *.
  - destruct (size <? cnt q) eqn:E.
    + (* the count shrinks *)
      rewrite firstn_length', abs_length in C1.
      replace (cnt q1 <? size) with false by lia.
      split; [assumption|]. split; [|assumption].
      rewrite A1, A0. symmetry. apply l0_resize_shrink. rewrite abs_length. lia.
    + rewrite abs_length in C1. destruct (cnt q1 <? size) eqn:E2.
      * destruct (es_grow_spec ow q1 size I1 ltac:(lia) S1) as (J1&J2&J3&J4).
        split; [assumption|]. split; [|lia].
        rewrite J2, A1, A0, C1. symmetry. rewrite l0_resize_grow by (rewrite abs_length; lia).
        rewrite abs_length. reflexivity.
      * split; [assumption|]. split; [|assumption].
        rewrite A1, A0. symmetry. rewrite l0_resize_shrink by (rewrite abs_length; lia).
        apply firstn_abs_all. lia.
  - split; [assumption|]. split; [|assumption]. rewrite A1, A0. reflexivity.
Qed.

Lemma ensure_size_cnt ow q size extra shrink : inv ow sq q ->
  cnt (ensure_size ow jk sq q size false extra shrink) = cnt q.
Proof.
  intros I. destruct (ensure_size_spec ow q size false extra shrink I) as (_&J&_).
  rewrite <- (abs_length q), <- J, abs_length. reflexivity.
Qed.

(* ------------------------------------------------------------------ AddTail / AddHead *)

(* adding to an empty queue: both AddTail and AddHead reset head and tail to slot 0 *)
Lemma add_first_spec ow q x : inv ow sq q -> cnt q = 0 -> 0 < qsize q ->
  let q' := mkQ (st q) (upd (arr q) 0 x) 1 0 0 (inl q) in
  inv ow sq q' /\ abs q' = [x].
Proof.
  intros I Hc Hq q'. subst q'. assert (Hq' : 0 < length (arr q)) by exact Hq. split.
  - constructor; unfold store_ok, clean, inl_ok, qsize; cbn [st arr cnt head tail inl]; rewrite ?upd_length.
    + exact (inv_sq _ _ q I).
    + unfold qsize in Hq. lia.
    + lia.
    + intros _. unfold intern, qsize. cbn [arr head]. rewrite upd_length. cbv zeta.
      unfold qsize in Hq. dif; lia.
    + exact (inv_store _ _ q I).
    + intros Ho i Hi. rewrite getu_head0; [|reflexivity|unfold qsize; cbn [arr]; rewrite upd_length; lia].
      cbn [arr]. rewrite nth_upd. dif; [lia|].
      apply (all_dflt _ _ q I Hc Ho). unfold qsize. lia.
    + exact (inv_inl _ _ q I).
  - apply abs_ext; cbn [cnt length]; [reflexivity|].
    intros i Hi. rewrite getu_head0; [|reflexivity|unfold qsize; cbn [arr]; rewrite upd_length; lia].
    cbn [arr]. rewrite nth_upd. unfold qsize in Hq. assert (i = 0) by lia. subst i. dif; fin.
Qed.

Lemma add_tail_spec ow q x : inv ow sq q ->
  inv ow sq (add_tail ow jk sq q x) /\ abs (add_tail ow jk sq q x) = abs q ++ [x].
Proof.
  intros I. unfold add_tail. cbv zeta.
  pose proof (ensure_size_cnt ow q (cnt q + 1) (cnt q + 1) false I) as C.
  destruct (ensure_size_spec ow q (cnt q + 1) false (cnt q + 1) false I) as (I1 & A1 & S1).
  set (q1 := ensure_size ow jk sq q (cnt q + 1) false (cnt q + 1) false) in *.
  destruct (cnt q1 =? 0) eqn:E.
  - assert (Hz : cnt q1 = 0) by lia. rewrite Hz. cbn [Nat.add].
    destruct (add_first_spec ow q1 x I1 Hz ltac:(lia)) as [J1 J2].
    split; [exact J1|]. rewrite J2, <- A1, (abs_cnt0 q1 Hz). reflexivity.
  - pose proof (inv_hd _ _ q1 I1 ltac:(lia)) as Hh.
    pose proof (inv_tail _ _ q1 I1 ltac:(lia)) as Ht.
    rewrite Ht, next_intern' by lia. replace (cnt q1 - 1 + 1) with (cnt q1) by lia.
    set (g := setu q1 (cnt q1) x).
    assert (G : forall i, i < qsize q1 ->
                getu (mkQ (st q1) (upd (arr q1) (intern q1 (cnt q1)) x) (cnt q1 + 1) (head q1) (intern q1 (cnt q1)) (inl q1)) i
                = if i =? cnt q1 then x else getu q1 i).
    { intros i Hi. transitivity (getu g i); [reflexivity|]. subst g. apply getu_setu; lia. }
    split.
    + constructor; unfold store_ok, clean, inl_ok; cbn [st arr cnt head tail inl];
        change (qsize (mkQ _ (upd (arr q1) _ x) _ _ _ _)) with (qsize g); subst g; rewrite ?qsize_setu.
      * exact (inv_sq _ _ q1 I1).
      * lia.
      * intros _. exact Hh.
      * intros _. replace (cnt q1 + 1 - 1) with (cnt q1) by lia.
        symmetry. apply intern_congr; [reflexivity|]. apply (qsize_setu q1 (cnt q1) x).
      * exact (inv_store _ _ q1 I1).
      * intros Ho i Hi. rewrite G by lia. dif; [lia|]. apply (inv_clean _ _ q1 I1 Ho). lia.
      * exact (inv_inl _ _ q1 I1).
    + apply abs_ext; autorewrite with nthdb; cbn [cnt length]; [lia|].
      intros i Hi. autorewrite with nthdb in Hi. cbn [length] in Hi.
      rewrite G by lia. rewrite <- A1, nth_app', abs_length. dif.
      * lia.
      * replace (i - cnt q1) with 0 by lia. reflexivity.
      * symmetry. apply nth_abs. lia.
      * lia.
Qed.

Lemma add_head_spec ow q x : inv ow sq q ->
  inv ow sq (add_head ow jk sq q x) /\ abs (add_head ow jk sq q x) = x :: abs q.
Proof.
  intros I. unfold add_head. cbv zeta.
  pose proof (ensure_size_cnt ow q (cnt q + 1) (cnt q + 1) false I) as C.
  destruct (ensure_size_spec ow q (cnt q + 1) false (cnt q + 1) false I) as (I1 & A1 & S1).
  set (q1 := ensure_size ow jk sq q (cnt q + 1) false (cnt q + 1) false) in *.
  destruct (cnt q1 =? 0) eqn:E.
  - assert (Hz : cnt q1 = 0) by lia. rewrite Hz. cbn [Nat.add].
    destruct (add_first_spec ow q1 x I1 Hz ltac:(lia)) as [J1 J2].
    split; [exact J1|]. rewrite J2, <- A1, (abs_cnt0 q1 Hz). reflexivity.
  - pose proof (inv_hd _ _ q1 I1 ltac:(lia)) as Hh.
    pose proof (inv_tail _ _ q1 I1 ltac:(lia)) as Ht.
    pose proof (inv_cnt _ _ q1 I1) as Hc.
    set (h := prev_index q1 (head q1)).
    assert (Hlt : h < qsize q1) by (apply prev_lt; lia).
    set (q' := mkQ (st q1) (upd (arr q1) h x) (cnt q1 + 1) h (tail q1) (inl q1)).
    assert (Q : qsize q' = qsize q1) by (unfold qsize, q'; cbn [arr]; apply upd_length).
    assert (G : forall i, i < qsize q1 -> getu q' i = if i =? 0 then x else getu q1 (i - 1)).
    { intros i Hi. subst q' h. qunf. rewrite ?upd_length, ?nth_upd. difh; fin. }
    split.
    + constructor; unfold store_ok, clean, inl_ok; rewrite ?Q; cbn [st arr cnt head tail inl q'].
      * exact (inv_sq _ _ q1 I1).
      * lia.
      * intros _. exact Hlt.
      * intros _. rewrite Ht. subst h. unfold intern at 2. rewrite Q. cbn [head q']. cbv zeta.
        qunf. difh; fin.
      * exact (inv_store _ _ q1 I1).
      * intros Ho i Hi. rewrite G by lia. dif; [lia|]. apply (inv_clean _ _ q1 I1 Ho). lia.
      * exact (inv_inl _ _ q1 I1).
    + apply abs_ext; cbn [cnt length q']; autorewrite with nthdb; [lia|].
      intros i Hi. rewrite G by lia. rewrite nth_cons'. dif; [reflexivity|].
      rewrite <- A1. symmetry. apply nth_abs. lia.
Qed.

End Ensure.
