(* C09 -- refinement, table level, part 2: CopyFrom, Remove(table), Intersect(table), IsEqualTo. *)
From Coq Require Import List Arith ZArith NArith PArith Bool Lia FMapPositive Permutation.
From Muscle Require Import Cont.HtModel Cont.HtStep Cont.HtIdeal Cont.HtLemmas Cont.HtRepr Cont.HtWalk Cont.HtIters
                           Cont.HtTable Cont.HtMoves Cont.HtPut Cont.HtExact Cont.HtAbs Cont.HtRefTab Cont.HtRefQ.
Import ListNotations.

(* ------------------------------------------------------------------ CopyFromAux *)

Lemma abs_copy_fold : forall we src h l, tinv h l -> NoDup (map fst src) ->
  (we = true -> forall e, In e l -> ~ In (keyf h e) (map fst src)) ->
  exists l', tinv (fold_left (copy_one we) src h) l' /\
    abs (fold_left (copy_one we) src h) = fold_left (l0_copy_one we) src (abs h) /\
    cap (fold_left (copy_one we) src h) = cap h /\ asort (fold_left (copy_one we) src h) = asort h.
Proof.
  intros we. induction src as [|kv src IH]; intros h l T Hnd Hw.
  - exists l. cbn. auto.
  - cbn [fold_left]. inversion Hnd as [|? ? Hk Hnd']; subst. cbn [map] in Hw.
    assert (Step : exists l1, tinv (copy_one we h kv) l1 /\ abs (copy_one we h kv) = l0_copy_one we (abs h) kv /\
                   cap (copy_one we h kv) = cap h /\ asort (copy_one we h kv) = asort h /\
                   (we = true -> forall e, In e l1 -> ~ In (keyf (copy_one we h kv) e) (map fst src))).
    { unfold copy_one, l0_copy_one.
      assert (Eg : (if we then None else a_get (abs h) (fst kv)) =
                   match (if we then None else find_key h (fst kv)) with Some e => val_of h e | None => None end).
      { destruct we; [reflexivity|]. apply (find_key_get h l _ T). }
      rewrite Eg. clear Eg.
      destruct (if we then None else find_key h (fst kv)) as [e|] eqn:Ef.
      - destruct we; [discriminate|].
        destruct (find_key_split h l _ e T Ef) as (l1 & l2 & -> & Hke).
        assert (Le : live h e) by (apply (lk_live _ _ (ti_linked _ _ T)); apply in_or_app; right; left; reflexivity).
        rewrite (val_of_valf h e Le).
        assert (Hin : In e (l1 ++ e :: l2)) by (apply in_or_app; right; left; reflexivity).
        destruct (tinv_set_val h _ e (snd kv) T Hin) as (T1 & _ & _ & _).
        exists (l1 ++ e :: l2). split; [exact T1|split; [|split; [|split; [|discriminate]]]].
        + rewrite (abs_set_val h l1 l2 e (snd kv) T), Hke. reflexivity.
        + destruct (meta_set_val h e (snd kv)) as (_ & Mc & _). exact Mc.
        + destruct (meta_set_val h e (snd kv)) as (_ & _ & _ & Ma & _). exact Ma.
      - assert (Hf : find_id h (fst kv) l = None).
        { destruct we.
          - destruct (find_id h (fst kv) l) as [e|] eqn:E; [|reflexivity]. exfalso.
            apply find_id_some in E. destruct E as [He Hk']. apply (Hw eq_refl e He). left. symmetry. exact Hk'.
          - rewrite <- (tinv_find_key h l _ T). exact Ef. }
        destruct (abs_insert_new VPlain h l (fst kv) (snd kv) T Hf) as (m1 & m2 & El & T' & Ab & Hcap & Has & _ & _ & Hne & Kve & Kvo & _).
        unfold alloc_node in *. cbn [fst snd insert_entry_aux] in *.
        eexists. split; [exact T'|split; [|split; [exact Hcap|split; [exact Has|]]]].
        + rewrite Ab. unfold l0_insert_new. destruct kv; reflexivity.
        + intros Ew e0 He0. unfold keyf.
          assert (Hold : forall y, In y l -> ~ In (fst (kvf h y)) (map fst src)).
          { intros y Hy Hin. apply (Hw Ew y Hy). right. exact Hin. }
          apply in_app_or in He0. destruct He0 as [He0|[<-|He0]].
          * assert (Hy : In e0 l) by (rewrite El; apply in_or_app; left; exact He0).
            rewrite Kvo by (intro; subst; contradiction). apply Hold. exact Hy.
          * rewrite Kve. cbn [fst]. exact Hk.
          * assert (Hy : In e0 l) by (rewrite El; apply in_or_app; right; exact He0).
            rewrite Kvo by (intro; subst; contradiction). apply Hold. exact Hy. }
    destruct Step as (l1 & T1 & A1 & C1 & S1 & Hw1).
    destruct (IH (copy_one we h kv) l1 T1 Hnd' Hw1) as (l' & T' & A' & C' & S').
    exists l'. split; [exact T'|split; [rewrite A', A1; reflexivity|split; congruence]].
Qed.

Lemma abs_tab_copy_from : forall var dcap h I l src srccap cf, tinv h l -> NoDup (map fst src) ->
  abs_tab (fst (fst (copy_from var dcap h I src srccap cf))) = fst (l0_copy_from var dcap (abs_tab h) src cf) /\
  snd (copy_from var dcap h I src srccap cf) = snd (l0_copy_from var dcap (abs_tab h) src cf).
Proof.
  intros var dcap h I l src srccap cf T Hnd. unfold copy_from, l0_copy_from.
  assert (C : exists h1 I1 l1, (if cf then clear_tab dcap h I ((length src =? 0) && (dcap <? cap h)%N) else (h, I)) = (h1, I1) /\
               tinv h1 l1 /\ abs_tab h1 = (if cf then l0_clear dcap (abs_tab h) ((length src =? 0) && (dcap <? acap (abs_tab h))%N) else abs_tab h)).
  { destruct cf.
    - eexists _, _, []. split; [reflexivity|split; [apply tinv_empty|]]. apply (abs_tab_clear dcap h I).
    - exists h, I, l. auto. }
  destruct C as (h1 & I1 & l1 & -> & T1 & A1). rewrite <- A1.
  destruct src as [|kv src']; [split; reflexivity|].
  destruct (abs_tab_ensure dcap h1 I1 l1 (N.of_nat (cnt h1 + length (kv :: src'))) false T1) as [A2 St].
  assert (El : length (pairs (abs_tab h1)) = cnt h1) by (cbn [pairs abs_tab]; rewrite (tinv_abs h1 l1 T1), map_length; symmetry; apply (ti_cnt _ _ T1)).
  rewrite El.
  assert (T2 : exists l2, tinv (fst (fst (ensure_size dcap h1 I1 (N.of_nat (cnt h1 + length (kv :: src'))) false))) l2).
  { unfold ensure_size. destruct (N.eqb _ (cap h1)); [eexists; exact T1|]. destruct (N.eqb _ 0); [eexists; apply tinv_empty|].
    destruct (N.eqb _ 4294967295); [eexists; exact T1|]. eexists. cbn [fst]. apply tinv_with_cap. exact T1. }
  destruct (ensure_size dcap h1 I1 (N.of_nat (cnt h1 + length (kv :: src'))) false) as [[h2 I2] st].
  destruct (l0_ensure dcap (abs_tab h1) (N.of_nat (cnt h1 + length (kv :: src'))) false) as [x2 st0].
  cbn [fst snd] in *. subst st0. destruct T2 as (l2 & T2).
  destruct (st =? 0); [|split; [exact A2|reflexivity]]. cbn [fst snd]. split; [|reflexivity].
  unfold copy_from_aux.
  destruct (abs_copy_fold (cnt h2 =? 0) (kv :: src') h2 l2 T2 Hnd) as (l3 & T3 & A3 & C3 & S3).
  { intros E e He. apply Nat.eqb_eq in E. rewrite (ti_cnt _ _ T2) in E. destruct l2; [destruct He|discriminate]. }
  destruct (abs_sort_aux var _ l3 T3) as (A4 & C4 & S4 & _).
  unfold abs_tab at 1. rewrite A4, C4, S4, A3, C3, S3. rewrite <- A2. unfold with_pairs. cbn [pairs acap aasort abs_tab].
  assert (Ec : length (abs h2) = cnt h2) by (rewrite (tinv_abs h2 l2 T2), map_length; symmetry; apply (ti_cnt _ _ T2)).
  rewrite Ec. reflexivity.
Qed.

Lemma forallb_ext' : forall A (f g : A -> bool) l, (forall x, f x = g x) -> forallb f l = forallb g l.
Proof. intros A f g l H. induction l as [|x l IH]; [reflexivity|]. cbn. rewrite H, IH. reflexivity. Qed.

(* ------------------------------------------------------------------ IsEqualTo *)

Lemma abs_equal_tabs : forall a b la lb ordered, tinv a la -> tinv b lb ->
  equal_tabs a b ordered = l0_equal (abs a) (abs b) ordered.
Proof.
  intros a b la lb ordered Ta Tb. unfold equal_tabs, l0_equal.
  assert (Ea : length (abs a) = cnt a) by (rewrite (tinv_abs a la Ta), map_length; symmetry; apply (ti_cnt _ _ Ta)).
  assert (Eb : length (abs b) = cnt b) by (rewrite (tinv_abs b lb Tb), map_length; symmetry; apply (ti_cnt _ _ Tb)).
  rewrite Ea, Eb. destruct (negb (cnt a =? cnt b)); [reflexivity|]. destruct ordered; [reflexivity|].
  apply forallb_ext'. intros kv. rewrite (find_key_get b lb (fst kv) Tb). destruct (find_key b (fst kv)); reflexivity.
Qed.

(* ------------------------------------------------------------------ Remove(table) *)

Lemma filter_all_true : forall A (f : A -> bool) l, (forall x, In x l -> f x = true) -> filter f l = l.
Proof. intros A f. induction l as [|x l IH]; intros H; [reflexivity|]. cbn. rewrite (H x (or_introl eq_refl)). f_equal. apply IH. intros y Hy. apply H. right; exact Hy. Qed.


Lemma a_remove_filter : forall (A : amap) k, NoDup (map fst A) ->
  a_remove A k = filter (fun kv => negb (Z.eqb (fst kv) k)) A.
Proof.
  induction A as [|[k' v'] A IH]; intros k Hnd; [reflexivity|]. cbn [a_remove filter fst map] in *.
  inversion Hnd as [|? ? Hk Hnd']; subst. destruct (Z.eqb k' k) eqn:E; cbn [negb].
  - apply Z.eqb_eq in E; subst. symmetry. apply filter_all_true. intros [k2 v2] Hin. cbn [fst].
    apply negb_true_iff. apply Z.eqb_neq. intro; subst. apply Hk. change k with (fst (k, v2)). apply in_map. exact Hin.
  - f_equal. apply IH. exact Hnd'.
Qed.

Lemma nodup_keys_filter : forall (A : amap) f, NoDup (map fst A) -> NoDup (map fst (filter f A)).
Proof.
  induction A as [|kv A IH]; intros f Hnd; [constructor|]. cbn [filter map] in *. inversion Hnd as [|? ? Hk Hnd']; subst.
  destruct (f kv); [|apply IH; exact Hnd']. cbn [map]. constructor; [|apply IH; exact Hnd'].
  intro Hin. apply Hk. apply in_map_iff in Hin. destruct Hin as (x & Ex & Hx). apply filter_In in Hx. rewrite <- Ex. apply in_map. apply Hx.
Qed.

Lemma fold_a_remove_filter : forall ks (A : amap), NoDup (map fst A) ->
  fold_left a_remove ks A = filter (fun kv => negb (existsb (Z.eqb (fst kv)) ks)) A.
Proof.
  induction ks as [|k ks IH]; intros A Hnd.
  - cbn. symmetry. apply filter_all_true. reflexivity.
  - cbn [fold_left existsb]. rewrite a_remove_filter by exact Hnd. rewrite IH by (apply nodup_keys_filter; exact Hnd).
    clear. induction A as [|kv A IHA]; [reflexivity|]. cbn [filter]. destruct (Z.eqb (fst kv) k) eqn:E; cbn [negb orb].
    + exact IHA.
    + cbn [filter]. destruct (existsb (Z.eqb (fst kv)) ks); cbn [negb]; [exact IHA|f_equal; exact IHA].
Qed.

Lemma is_some_a_get : forall (other : amap) k, is_some (a_get other k) = existsb (Z.eqb k) (map fst other).
Proof.
  induction other as [|[k' v'] other IH]; intros k; [reflexivity|]. cbn [a_get map existsb fst].
  rewrite (Z.eqb_sym k k'). destruct (Z.eqb k' k); [reflexivity|apply IH].
Qed.

Lemma abs_remove_keys : forall ks h I l, tinv h l ->
  let r := remove_keys h I ks in
  (exists l', tinv (fst (fst r)) l') /\
  abs (fst (fst r)) = fold_left a_remove ks (abs h) /\ snd r + length (abs (fst (fst r))) = length (abs h) /\
  cap (fst (fst r)) = cap h /\ asort (fst (fst r)) = asort h.
Proof.
  intros ks. unfold remove_keys.
  assert (G : forall ks h0 I0 c0 l0, tinv h0 l0 ->
     let r := fold_left (fun '(h, J, c) k => match find_key h k with
                                 | Some e => let '(h1, I1) := remove_entry h J e in (h1, I1, S c)
                                 | None => (h, J, c) end) ks (h0, I0, c0) in
     (exists l', tinv (fst (fst r)) l') /\
     abs (fst (fst r)) = fold_left a_remove ks (abs h0) /\ snd r + length (abs (fst (fst r))) = c0 + length (abs h0) /\
     cap (fst (fst r)) = cap h0 /\ asort (fst (fst r)) = asort h0).
  { induction ks0 as [|k ks0 IH]; intros h0 I0 c0 l0 T0.
    - cbn. split; [eexists; exact T0|]. repeat split.
    - cbn [fold_left]. destruct (find_key h0 k) as [e|] eqn:Ef.
      + destruct (find_key_split h0 l0 k e T0 Ef) as (l1 & l2 & -> & Hk).
        destruct (abs_remove_entry h0 I0 l1 l2 e T0) as (T1 & A1 & C1 & S1 & _).
        destruct (remove_entry h0 I0 e) as [h1 I1]. cbn [fst] in *.
        specialize (IH h1 I1 (S c0) _ T1). cbn zeta in IH. destruct IH as (HT & A & C & Cp & As).
        split; [exact HT|split; [rewrite A, A1, Hk; reflexivity|split; [|split; congruence]]].
        rewrite C. rewrite (tinv_abs _ _ T0), (tinv_abs _ _ T1), !map_length, !app_length. cbn [length]. lia.
      + specialize (IH h0 I0 c0 l0 T0). cbn zeta in IH. destruct IH as (HT & A & C & Cp & As).
        split; [exact HT|split; [|auto]].
        rewrite A. f_equal. rewrite (tinv_abs _ _ T0). symmetry. apply a_remove_map_none.
        apply find_id_none. rewrite <- (tinv_find_key h0 l0 k T0). exact Ef. }
  intros h I l T. destruct (G ks h I 0 l T) as (A & B & C & D & E). cbn zeta. auto.
Qed.

(* ------------------------------------------------------------------ Intersect(table) *)

Lemma remove_entry_kvf : forall h I l1 l2 e, tinv h (l1 ++ e :: l2) ->
  forall y, y <> e -> kvf (fst (remove_entry h I e)) y = kvf h y.
Proof.
  intros h I l1 l2 e T y Hy. unfold remove_entry, remove_iter_entry. cbn [fst].
  destruct (tinv_remove_entry h l1 l2 e T) as (_ & _ & _ & Kv & _). apply Kv. exact Hy.
Qed.

Lemma abs_intersect_ids : forall other h I l, tinv h l ->
  let r := intersect_ids h I other l in
  (exists l', tinv (fst (fst r)) l') /\
  abs (fst (fst r)) = filter (fun kv => is_some (a_get other (fst kv))) (abs h) /\
  snd r + length (abs (fst (fst r))) = length (abs h) /\
  cap (fst (fst r)) = cap h /\ asort (fst (fst r)) = asort h.
Proof.
  intros other. unfold intersect_ids.
  set (P := fun kv : Z * Z => is_some (a_get other (fst kv))).
  assert (G : forall rest kept h0 I0 c0, tinv h0 (kept ++ rest) ->
     let r := fold_left (fun '(h, J, c) e => match key_of h e with
                                 | Some k => match a_get other k with
                                             | Some _ => (h, J, c)
                                             | None => let '(h1, I1) := remove_entry h J e in (h1, I1, S c)
                                             end
                                 | None => (h, J, c) end) rest (h0, I0, c0) in
     (exists l', tinv (fst (fst r)) l') /\
     abs (fst (fst r)) = map (kvf h0) kept ++ filter P (map (kvf h0) rest) /\
     snd r + length (abs (fst (fst r))) = c0 + length (kept ++ rest) /\
     cap (fst (fst r)) = cap h0 /\ asort (fst (fst r)) = asort h0).
  { induction rest as [|e rest IH]; intros kept h0 I0 c0 T0.
    - cbn [fold_left fst snd map filter]. rewrite app_nil_r in *. split; [eexists; exact T0|].
      rewrite (tinv_abs _ _ T0), map_length. rewrite !app_nil_r. split; [reflexivity|split; [reflexivity|split; reflexivity]].
    - cbn [fold_left].
      assert (Le : live h0 e) by (apply (lk_live _ _ (ti_linked _ _ T0)); apply in_or_app; right; left; reflexivity).
      rewrite (key_of_keyf h0 e Le). cbn [map filter].
      assert (Pe : P (kvf h0 e) = is_some (a_get other (keyf h0 e))) by (unfold P, keyf; reflexivity).
      rewrite Pe. clear Pe.
      destruct (a_get other (keyf h0 e)) eqn:Eg; cbn [is_some].
      + assert (T0' : tinv h0 ((kept ++ [e]) ++ rest)) by (rewrite <- app_assoc; exact T0).
        specialize (IH (kept ++ [e]) h0 I0 c0 T0'). cbn zeta in IH. destruct IH as (HT & A & C & Cp & As).
        split; [exact HT|split; [|split; [|auto]]].
        * rewrite A, map_app, <- app_assoc. reflexivity.
        * rewrite C, <- app_assoc. reflexivity.
      + destruct (abs_remove_entry h0 I0 kept rest e T0) as (T1 & _ & C1 & S1 & _).
        pose proof (remove_entry_kvf h0 I0 kept rest e T0) as Kv.
        destruct (remove_entry h0 I0 e) as [h1 I1]. cbn [fst] in *.
        specialize (IH kept h1 I1 (S c0) T1). cbn zeta in IH. destruct IH as (HT & A & C & Cp & As).
        pose proof (lk_nodup _ _ (ti_linked _ _ T0)) as Hnd. destruct (nodup_split_notin _ _ _ Hnd) as [Hn1 Hn2].
        split; [exact HT|split; [|split; [|split; congruence]]].
        * rewrite A. f_equal; [|f_equal]; apply map_ext_in; intros y Hy; apply Kv; intro; subst; contradiction.
        * rewrite C, !app_length. cbn [length]. lia. }
  intros h I l T. destruct (G l [] h I 0 T) as (A & B & C & D & E). cbn zeta.
  split; [exact A|split; [rewrite B, (tinv_abs _ _ T); reflexivity|split; [|auto]]].
  rewrite C, (tinv_abs _ _ T), map_length. reflexivity.
Qed.
