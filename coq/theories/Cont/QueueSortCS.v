(* C16 -- the code-shaped in-place stable merge sort (bubble base case, Merge with Lower/Upper cuts and the
   rotation by gcd cycles) computes the ideal stable sort [l0_sort]. *)
From Coq Require Import List Arith ZArith NArith Bool Lia ZifyBool Sorting.Sorted.
From Muscle Require Import Cont.QueueModel Cont.QueueLemmas Cont.QueueInv Cont.QueueOps1 Cont.QueueEnsure Cont.QueueOps2
  Cont.QueueRotate Cont.QueueRotateCS.
Import ListNotations.
Local Open Scope nat_scope.
Ltac Zify.zify_post_hook ::= Z.to_euclidean_division_equations.

Lemma nth_nil' {A} i (d : A) : nth i [] d = d.
Proof. destruct i; reflexivity. Qed.
#[export] Hint Rewrite @nth_nil' : nthdb.

Ltac lsolve := autorewrite with nthdb; cbn [length]; autorewrite with nthdb; dif; fin.

Section Stable.
Variable k : Z -> Z.
Local Notation lt := (lt_by k).
Local Notation ins := (insert_by k).
Local Notation isort := (isort_by k).
Definition kle (x y : Z) : Prop := (k x <= k y)%Z.
Local Notation sorted := (StronglySorted kle).

(* ------------------------------------------------------------------ the reference stable merge *)

Fixpoint smerge (A B : list Z) {struct A} : list Z :=
  match A with
  | [] => B
  | a :: A' =>
      (fix aux (B : list Z) : list Z :=
         match B with
         | [] => A
         | b :: B' => if lt b a then b :: aux B' else a :: smerge A' B
         end) B
  end.

Lemma smerge_nil_r A : smerge A [] = A.
Proof. destruct A; reflexivity. Qed.

Lemma smerge_cons a A b B :
  smerge (a :: A) (b :: B) = if lt b a then b :: smerge (a :: A) B else a :: smerge A (b :: B).
Proof. reflexivity. Qed.

(* cutting both runs: everything of A1, B1 precedes everything of A2, B2 in the merged order *)
Lemma smerge_cut A1 : forall B1 A2 B2,
  (forall a1 b2, In a1 A1 -> In b2 B2 -> lt b2 a1 = false) ->
  (forall b1 a2, In b1 B1 -> In a2 A2 -> lt b1 a2 = true) ->
  smerge (A1 ++ A2) (B1 ++ B2) = smerge A1 B1 ++ smerge A2 B2.
Proof.
  induction A1 as [|a A1 IHA]; intros B1.
  - induction B1 as [|b B1 IHB]; intros A2 B2 H1 H2; cbn [app]; [reflexivity|].
    destruct A2 as [|a2 A2]; [reflexivity|]. cbn [smerge app]. fold (smerge (a2 :: A2)).
    change ((fix aux (B : list Z) : list Z := match B with
              | [] => a2 :: A2 | b0 :: B' => if lt b0 a2 then b0 :: aux B' else a2 :: smerge A2 B end) (B1 ++ B2))
      with (smerge (a2 :: A2) (B1 ++ B2)).
    rewrite (H2 b a2) by (left; reflexivity). f_equal.
    apply (IHB (a2 :: A2) B2); [intros ? ? []|]. intros b1 a2' Hb Ha. apply H2; [right; assumption|assumption].
  - induction B1 as [|b B1 IHB]; intros A2 B2 H1 H2.
    + cbn [app]. destruct B2 as [|b2 B2].
      * rewrite !smerge_nil_r. reflexivity.
      * change ((a :: A1) ++ A2) with (a :: (A1 ++ A2)). rewrite smerge_cons.
        rewrite (H1 a b2) by (left; reflexivity). rewrite smerge_nil_r. cbn [app]. f_equal.
        assert (E : smerge (A1 ++ A2) ([] ++ b2 :: B2) = smerge A1 [] ++ smerge A2 (b2 :: B2)).
        { apply IHA; [|intros ? ? []]. intros a1 b2' Ha Hb. apply H1; [right; assumption|assumption]. }
        cbn [app] in E. rewrite E, smerge_nil_r. reflexivity.
    + change ((a :: A1) ++ A2) with (a :: (A1 ++ A2)). change ((b :: B1) ++ B2) with (b :: (B1 ++ B2)).
      rewrite !smerge_cons. destruct (lt b a) eqn:E.
      * cbn [app]. f_equal. change (a :: A1 ++ A2) with ((a :: A1) ++ A2).
        apply IHB; [assumption|]. intros b1 a2 Hb Ha. apply H2; [right; assumption|assumption].
      * cbn [app]. f_equal. change (b :: B1 ++ B2) with ((b :: B1) ++ B2).
        apply IHA; [|assumption]. intros a1 b2 Ha Hb. apply H1; [right; assumption|assumption].
Qed.

(* ------------------------------------------------------------------ insertion from either end *)

(* behind every item whose key is <= the key of x *)
Fixpoint ins_after (x : Z) (l : list Z) : list Z :=
  match l with
  | [] => [x]
  | y :: t => if lt x y then x :: l else y :: ins_after x t
  end.

Lemma ins_ins_after p x S : ins p (ins_after x S) = ins_after x (ins p S).
Proof.
  induction S as [|y t IH];
    repeat (cbn [ins_after insert_by]; unfold lt_by in *;
            match goal with |- context [if ?c then _ else _] => destruct c eqn:? end);
    cbn [ins_after insert_by]; try reflexivity; try lia; try (f_equal; exact IH).
Qed.

Lemma isort_snoc P x : isort (P ++ [x]) = ins_after x (isort P).
Proof.
  induction P as [|p P IH]; [reflexivity|]. cbn [app isort_by fold_right].
  fold (isort (P ++ [x])). fold (isort P). rewrite IH. apply ins_ins_after.
Qed.

Lemma ins_after_snoc_lt x P p : lt x p = true -> ins_after x (P ++ [p]) = ins_after x P ++ [p].
Proof.
  intros H. induction P as [|y t IH]; cbn [app ins_after]; [rewrite H; reflexivity|].
  destruct (lt x y); [reflexivity|]. rewrite IH. reflexivity.
Qed.

Lemma ins_after_all_le x P : (forall y, In y P -> lt x y = false) -> ins_after x P = P ++ [x].
Proof.
  induction P as [|y t IH]; intros H; cbn [app ins_after]; [reflexivity|].
  rewrite (H y) by (left; reflexivity). rewrite IH; [reflexivity|]. intros z Hz. apply H. right. exact Hz.
Qed.

(* merging two sorted runs is sorting their concatenation *)
Lemma smerge_nil_l B : smerge [] B = B.
Proof. reflexivity. Qed.

Lemma ins_smerge a X : forall Y, ins a (smerge X Y) = smerge (ins a X) Y.
Proof.
  induction X as [|x X IHX]; intros Y.
  - rewrite smerge_nil_l. cbn [insert_by]. induction Y as [|y Y IHY]; [reflexivity|].
    rewrite smerge_cons, smerge_nil_l. cbn [insert_by]. unfold lt_by.
    destruct (Z.leb (k a) (k y)) eqn:E1; destruct (Z.ltb (k y) (k a)) eqn:E2; try lia; [reflexivity|].
    rewrite IHY. reflexivity.
  - induction Y as [|y Y IHY]; [rewrite !smerge_nil_r; reflexivity|].
    rewrite smerge_cons. cbn [insert_by]. unfold lt_by in *.
    destruct (Z.leb (k a) (k x)) eqn:E1.
    + rewrite smerge_cons. unfold lt_by. destruct (Z.ltb (k y) (k a)) eqn:E2.
      * replace (Z.ltb (k y) (k x)) with true by lia. cbn [insert_by].
        replace (Z.leb (k a) (k y)) with false by lia.
        rewrite IHY. cbn [insert_by]. rewrite E1. reflexivity.
      * destruct (Z.ltb (k y) (k x)) eqn:E3; cbn [insert_by].
        -- replace (Z.leb (k a) (k y)) with true by lia. rewrite smerge_cons. unfold lt_by. rewrite E3. reflexivity.
        -- rewrite E1. rewrite smerge_cons. unfold lt_by. rewrite E3. reflexivity.
    + rewrite smerge_cons. unfold lt_by. destruct (Z.ltb (k y) (k x)) eqn:E3; cbn [insert_by].
      * replace (Z.leb (k a) (k y)) with false by lia. rewrite IHY. cbn [insert_by]. rewrite E1. reflexivity.
      * rewrite E1. rewrite IHX. reflexivity.
Qed.

Lemma smerge_isort A B : smerge (isort A) (isort B) = isort (A ++ B).
Proof.
  induction A as [|a A IH]; [reflexivity|]. cbn [app isort_by fold_right].
  fold (isort A). fold (isort (A ++ B)). rewrite <- IH, ins_smerge. reflexivity.
Qed.

(* ------------------------------------------------------------------ sortedness *)

Lemma sorted_app X Y : sorted (X ++ Y) <-> sorted X /\ sorted Y /\ (forall x y, In x X -> In y Y -> kle x y).
Proof.
  induction X as [|a X IH]; cbn [app].
  - split; [intros H; split; [constructor|split; [exact H|intros ? ? []]]|tauto].
  - split.
    + intros H. inversion H as [|? ? H1 H2]; subst. apply IH in H1. destruct H1 as (S1&S2&S3).
      rewrite Forall_app in H2. destruct H2 as [F1 F2]. split; [constructor; assumption|]. split; [assumption|].
      intros x y [<-|Hx] Hy; [rewrite Forall_forall in F2; apply F2; assumption|apply S3; assumption].
    + intros (S1&S2&S3). inversion S1 as [|? ? H1 H2]; subst. constructor.
      * apply IH. split; [assumption|]. split; [assumption|]. intros x y Hx Hy. apply S3; [right|]; assumption.
      * rewrite Forall_app. split; [assumption|]. rewrite Forall_forall. intros y Hy. apply S3; [left; reflexivity|assumption].
Qed.

Lemma sorted_cons_inv a X : sorted (a :: X) -> sorted X /\ forall x, In x X -> kle a x.
Proof. intros H. inversion H as [|? ? H1 H2]; subst. split; [assumption|]. rewrite Forall_forall in H2. exact H2. Qed.

Lemma isort_sorted l : sorted (isort l).
Proof.
  induction l as [|x l IH]; cbn [isort_by fold_right]; [constructor|]. fold (isort l).
  induction IH as [|y t Ht IHt Hy]; cbn [insert_by]; [constructor; constructor|].
  destruct (Z.leb (k x) (k y)) eqn:E.
  - constructor; [constructor; assumption|]. constructor; [unfold kle; lia|].
    eapply Forall_impl; [|exact Hy]. unfold kle. intros z Hz. lia.
  - constructor; [exact IHt|]. clear IHt.
    assert (G : forall t', Forall (kle y) t' -> Forall (kle y) (ins x t')).
    { intros t' F. induction F as [|z t' Hz Ft IHF]; cbn [insert_by]; [constructor; [unfold kle; lia|constructor]|].
      destruct (Z.leb (k x) (k z)); constructor; try assumption; [unfold kle; lia|constructor; assumption]. }
    apply G. exact Hy.
Qed.

Lemma isort_length l : length (isort l) = length l.
Proof.
  induction l as [|x l IH]; [reflexivity|]. cbn [isort_by fold_right length]. fold (isort l). rewrite <- IH.
  generalize (isort l). intros t. induction t as [|y t IHt]; cbn [insert_by length]; [reflexivity|].
  destruct (Z.leb (k x) (k y)); cbn [length]; lia.
Qed.

(* ------------------------------------------------------------------ the bubble-sort base case *)

Lemma swap_adjacent Pre p x S :
  swap_list (Pre ++ [p] ++ [x] ++ S) (length Pre + 1) (length Pre) = Pre ++ [x] ++ [p] ++ S.
Proof.
  apply (list_ext _ _ 0%Z); [rewrite swap_list_length; autorewrite with nthdb; reflexivity|].
  intros i Hi. rewrite nth_swap_list by (autorewrite with nthdb; cbn [length]; lia). lsolve.
Qed.

Lemma bubble_in_spec Pre x S : forall P0, sorted P0 ->
  bubble_in k (Pre ++ P0 ++ [x] ++ S) (length Pre) (length Pre + length P0) = Pre ++ ins_after x P0 ++ S.
Proof.
  intros P0. revert S. induction P0 as [|p P0 IH] using rev_ind; intros S Hs.
  - cbn [app length ins_after]. rewrite Nat.add_0_r. destruct (length Pre) as [|n] eqn:E; cbn [bubble_in]; [reflexivity|].
    replace (Datatypes.S n <? Datatypes.S n) with false by lia. reflexivity.
  - rewrite app_length. cbn [length]. replace (length Pre + (length P0 + 1)) with (Datatypes.S (length Pre + length P0)) by lia.
    cbn [bubble_in]. replace (length Pre <? Datatypes.S (length Pre + length P0)) with true by lia.
    apply sorted_app in Hs. destruct Hs as (S1&_&S3).
    assert (Ex : at_ (Pre ++ (P0 ++ [p]) ++ [x] ++ S) (Datatypes.S (length Pre + length P0)) = x) by (unfold at_; lsolve).
    assert (Ep : at_ (Pre ++ (P0 ++ [p]) ++ [x] ++ S) (length Pre + length P0) = p) by (unfold at_; lsolve).
    rewrite Ex, Ep. destruct (lt x p) eqn:E.
    + rewrite ins_after_snoc_lt by exact E.
      replace (Pre ++ (P0 ++ [p]) ++ [x] ++ S) with ((Pre ++ P0) ++ [p] ++ [x] ++ S) by (rewrite <- !app_assoc; reflexivity).
      replace (Datatypes.S (length Pre + length P0)) with (length (Pre ++ P0) + 1) by (rewrite app_length; lia).
      replace (length Pre + length P0) with (length (Pre ++ P0)) by (rewrite app_length; lia).
      rewrite swap_adjacent. rewrite app_length.
      replace ((Pre ++ P0) ++ [x] ++ [p] ++ S) with (Pre ++ P0 ++ [x] ++ (p :: S)) by (rewrite <- !app_assoc; reflexivity).
      rewrite IH by exact S1. rewrite <- !app_assoc. reflexivity.
    + rewrite ins_after_all_le; [rewrite <- !app_assoc; reflexivity|].
      intros y Hy. apply in_app_or in Hy. unfold lt_by in *. destruct Hy as [Hy|[<-|[]]]; [|exact E].
      specialize (S3 y p Hy (or_introl eq_refl)). unfold kle in S3. lia.
Qed.

Lemma bubble_fold Pre S : forall M2 M1,
  fold_left (fun l i => bubble_in k l (length Pre) i) (seq (length Pre + length M1) (length M2))
            (Pre ++ isort M1 ++ M2 ++ S) = Pre ++ isort (M1 ++ M2) ++ S.
Proof.
  induction M2 as [|x M2 IH]; intros M1; cbn [length seq fold_left].
  - rewrite app_nil_r. reflexivity.
  - replace (Pre ++ isort M1 ++ (x :: M2) ++ S) with (Pre ++ isort M1 ++ [x] ++ (M2 ++ S)) by reflexivity.
    rewrite <- (isort_length M1) at 2. rewrite bubble_in_spec by apply isort_sorted.
    rewrite <- isort_snoc.
    replace (Datatypes.S (length Pre + length M1)) with (length Pre + length (M1 ++ [x])) by (rewrite app_length; cbn [length]; lia).
    rewrite IH. rewrite <- app_assoc. reflexivity.
Qed.

Lemma bubble_cs_spec Pre M S :
  bubble_cs k (Pre ++ M ++ S) (length Pre) (length Pre + length M) = Pre ++ isort M ++ S.
Proof.
  unfold bubble_cs. destruct M as [|m M]; [cbn [length]; replace (length Pre + 0 - (length Pre + 1)) with 0 by lia; reflexivity|].
  cbn [length]. replace (length Pre + Datatypes.S (length M) - (length Pre + 1)) with (length M) by lia.
  pose proof (bubble_fold Pre S M [m]) as H. cbn [length isort_by fold_right insert_by app] in H. exact H.
Qed.

(* ------------------------------------------------------------------ the binary searches *)

Lemma lower_loop_spec x fuel : forall P B S, sorted B -> length B <= fuel ->
  exists B1 B2, B = B1 ++ B2 /\
    lower_loop k (P ++ B ++ S) x (length P) (length B) fuel = length P + length B1 /\
    (forall b, In b B1 -> lt b x = true) /\ (forall b, In b B2 -> lt b x = false).
Proof.
  induction fuel as [|fuel IH]; intros P B S Hs Hf.
  - destruct B; [|cbn [length] in Hf; lia]. exists [], []. cbn. repeat split; try lia; intros ? [].
  - cbn [lower_loop]. destruct (length B =? 0) eqn:E0.
    + destruct B; [|cbn [length] in E0; lia]. exists [], []. cbn [length app]. repeat split; try lia; intros ? [].
    + set (half := length B / 2). assert (Hh : half < length B) by (subst half; apply Nat.div_lt; lia).
      destruct (nth_split B 0%Z Hh) as (Ba & Bb & EB & La). set (m := nth half B 0%Z) in *.
      assert (Em : at_ (P ++ B ++ S) (length P + half) = m).
      { unfold at_. rewrite EB. rewrite <- La. lsolve. }
      rewrite Em. rewrite EB in Hs. apply sorted_app in Hs. destruct Hs as (Sa & Sb & Sab).
      apply sorted_cons_inv in Sb. destruct Sb as [Sb Smb].
      assert (Lb : length Bb = length B - half - 1) by (rewrite EB at 1; rewrite app_length; cbn [length]; lia).
      destruct (lt m x) eqn:E.
      * destruct (IH (P ++ Ba ++ [m]) Bb S Sb ltac:(lia)) as (B1 & B2 & E1 & E2 & E3 & E4).
        exists (Ba ++ m :: B1), B2. split; [rewrite EB, E1, <- app_assoc; reflexivity|]. split.
        -- replace (length P + half + 1) with (length (P ++ Ba ++ [m])) by (rewrite !app_length; cbn [length]; lia).
           rewrite <- Lb. replace (P ++ B ++ S) with ((P ++ Ba ++ [m]) ++ Bb ++ S) by (rewrite EB, <- !app_assoc; reflexivity).
           rewrite E2. rewrite !app_length. cbn [length]. lia.
        -- split; [|exact E4]. intros b Hb. apply in_app_or in Hb. destruct Hb as [Hb|[<-|Hb]]; [|exact E|apply E3; exact Hb].
           specialize (Sab b m Hb (or_introl eq_refl)). unfold kle, lt_by in *. lia.
      * destruct (IH P Ba (m :: Bb ++ S) Sa ltac:(lia)) as (B1 & B2 & E1 & E2 & E3 & E4).
        exists B1, (B2 ++ m :: Bb). split; [rewrite EB, E1, <- app_assoc; reflexivity|]. split.
        -- rewrite <- La. replace (P ++ B ++ S) with (P ++ Ba ++ m :: Bb ++ S) by (rewrite EB, <- !app_assoc; reflexivity).
           exact E2.
        -- split; [exact E3|]. intros b Hb. apply in_app_or in Hb. destruct Hb as [Hb|[<-|Hb]]; [apply E4; exact Hb|exact E|].
           specialize (Smb b Hb). unfold kle, lt_by in *. lia.
Qed.

Lemma lower_cs_spec x P B S : sorted B ->
  exists B1 B2, B = B1 ++ B2 /\
    lower_cs k (P ++ B ++ S) (length P) (length P + length B) x = length P + length B1 /\
    (forall b, In b B1 -> lt b x = true) /\ (forall b, In b B2 -> lt b x = false).
Proof.
  intros Hs. unfold lower_cs. destruct (length P <? length P + length B) eqn:E.
  - replace (length P + length B - length P) with (length B) by lia. apply lower_loop_spec; [assumption|lia].
  - destruct B; [|cbn [length] in E; lia]. exists [], []. cbn [length app]. repeat split; try lia; intros ? [].
Qed.

Lemma upper_loop_spec x fuel : forall P A S, sorted A -> length A <= fuel ->
  exists A1 A2, A = A1 ++ A2 /\
    upper_loop k (P ++ A ++ S) x (length P) (length A) fuel = length P + length A1 /\
    (forall a, In a A1 -> lt x a = false) /\ (forall a, In a A2 -> lt x a = true).
Proof.
  induction fuel as [|fuel IH]; intros P B S Hs Hf.
  - destruct B; [|cbn [length] in Hf; lia]. exists [], []. cbn. repeat split; try lia; intros ? [].
  - cbn [upper_loop]. destruct (length B =? 0) eqn:E0.
    + destruct B; [|cbn [length] in E0; lia]. exists [], []. cbn [length app]. repeat split; try lia; intros ? [].
    + set (half := length B / 2). assert (Hh : half < length B) by (subst half; apply Nat.div_lt; lia).
      destruct (nth_split B 0%Z Hh) as (Ba & Bb & EB & La). set (m := nth half B 0%Z) in *.
      assert (Em : at_ (P ++ B ++ S) (length P + half) = m).
      { unfold at_. rewrite EB. rewrite <- La. lsolve. }
      rewrite Em. rewrite EB in Hs. apply sorted_app in Hs. destruct Hs as (Sa & Sb & Sab).
      apply sorted_cons_inv in Sb. destruct Sb as [Sb Smb].
      assert (Lb : length Bb = length B - half - 1) by (rewrite EB at 1; rewrite app_length; cbn [length]; lia).
      destruct (lt x m) eqn:E.
      * destruct (IH P Ba (m :: Bb ++ S) Sa ltac:(lia)) as (B1 & B2 & E1 & E2 & E3 & E4).
        exists B1, (B2 ++ m :: Bb). split; [rewrite EB, E1, <- app_assoc; reflexivity|]. split.
        -- rewrite <- La. replace (P ++ B ++ S) with (P ++ Ba ++ m :: Bb ++ S) by (rewrite EB, <- !app_assoc; reflexivity).
           exact E2.
        -- split; [exact E3|]. intros b Hb. apply in_app_or in Hb. destruct Hb as [Hb|[<-|Hb]]; [apply E4; exact Hb|exact E|].
           specialize (Smb b Hb). unfold kle, lt_by in *. lia.
      * destruct (IH (P ++ Ba ++ [m]) Bb S Sb ltac:(lia)) as (B1 & B2 & E1 & E2 & E3 & E4).
        exists (Ba ++ m :: B1), B2. split; [rewrite EB, E1, <- app_assoc; reflexivity|]. split.
        -- replace (length P + half + 1) with (length (P ++ Ba ++ [m])) by (rewrite !app_length; cbn [length]; lia).
           rewrite <- Lb. replace (P ++ B ++ S) with ((P ++ Ba ++ [m]) ++ Bb ++ S) by (rewrite EB, <- !app_assoc; reflexivity).
           rewrite E2. rewrite !app_length. cbn [length]. lia.
        -- split; [|exact E4]. intros b Hb. apply in_app_or in Hb. destruct Hb as [Hb|[<-|Hb]]; [|exact E|apply E3; exact Hb].
           specialize (Sab b m Hb (or_introl eq_refl)). unfold kle, lt_by in *. lia.
Qed.

Lemma upper_cs_spec x P A S : sorted A ->
  exists A1 A2, A = A1 ++ A2 /\
    upper_cs k (P ++ A ++ S) (length P) (length P + length A) x = length P + length A1 /\
    (forall a, In a A1 -> lt x a = false) /\ (forall a, In a A2 -> lt x a = true).
Proof.
  intros Hs. unfold upper_cs. destruct (length P <? length P + length A) eqn:E.
  - replace (length P + length A - length P) with (length A) by lia. apply upper_loop_spec; [assumption|lia].
  - destruct A; [|cbn [length] in E; lia]. exists [], []. cbn [length app]. repeat split; try lia; intros ? [].
Qed.

(* ------------------------------------------------------------------ Merge *)

Lemma smerge_length A : forall B, length (smerge A B) = length A + length B.
Proof.
  induction A as [|a A IHA]; intros B; [reflexivity|].
  induction B as [|b B IHB]; [rewrite smerge_nil_r; cbn [length]; lia|].
  rewrite smerge_cons. destruct (lt b a); cbn [length]; [rewrite IHB|rewrite IHA]; cbn [length]; lia.
Qed.

Ltac reassoc := repeat rewrite <- app_assoc; cbn [app]; reflexivity.
Ltac len := repeat rewrite app_length; cbn [length] in *; rewrite ?smerge_length; try lia.

(* what the rotation inside Merge has to achieve *)
Definition rotate_ok : Prop := forall P X Y S fc pv sc,
  fc = length P -> pv = fc + length X -> sc = pv + length Y ->
  rotate_cs (P ++ X ++ Y ++ S) fc pv sc = P ++ Y ++ X ++ S.

Lemma lower_cs_spec' x P B S from to : from = length P -> to = from + length B -> sorted B ->
  exists B1 B2, B = B1 ++ B2 /\ lower_cs k (P ++ B ++ S) from to x = from + length B1 /\
    (forall b, In b B1 -> lt b x = true) /\ (forall b, In b B2 -> lt b x = false).
Proof. intros -> -> H. apply lower_cs_spec. exact H. Qed.

Lemma upper_cs_spec' x P A S from to : from = length P -> to = from + length A -> sorted A ->
  exists A1 A2, A = A1 ++ A2 /\ upper_cs k (P ++ A ++ S) from to x = from + length A1 /\
    (forall a, In a A1 -> lt x a = false) /\ (forall a, In a A2 -> lt x a = true).
Proof. intros -> -> H. apply upper_cs_spec. exact H. Qed.

Lemma merge_cs_spec (Hrot : rotate_ok) fuel : forall P A B S from pivot to len1 len2,
  from = length P -> len1 = length A -> len2 = length B -> pivot = from + len1 -> to = pivot + len2 ->
  sorted A -> sorted B -> len1 + len2 <= fuel ->
  merge_cs k fuel (P ++ A ++ B ++ S) from pivot to len1 len2 = P ++ smerge A B ++ S.
Proof.
  induction fuel as [|fuel IH]; intros P A B S from pivot to len1 len2 Hf H1 H2 Hp Ht SA SB Hfu.
  - destruct A; [|cbn [length] in *; lia]. destruct B; [|cbn [length] in *; lia]. reflexivity.
  - cbn [merge_cs]. destruct ((len1 =? 0) || (len2 =? 0)) eqn:E0.
    { destruct A as [|a A]; [reflexivity|]. destruct B as [|b B]; [rewrite smerge_nil_r; reflexivity|]. cbn [length] in *. lia. }
    destruct (len1 + len2 =? 2) eqn:E2.
    { destruct A as [|a [|a' A]]; cbn [length] in *; try lia. destruct B as [|b [|b' B]]; cbn [length] in *; try lia.
      assert (Eb : at_ (P ++ [a] ++ [b] ++ S) pivot = b) by (unfold at_; subst; lsolve).
      assert (Ea : at_ (P ++ [a] ++ [b] ++ S) from = a) by (unfold at_; subst; lsolve).
      rewrite Eb, Ea. rewrite smerge_cons, smerge_nil_r. cbn [smerge]. destruct (lt b a); [|reflexivity].
      subst. rewrite swap_adjacent. reflexivity. }
    destruct (len2 <? len1) eqn:E3.
    + (* cut the first run in the middle, find the matching cut of the second run with Lower *)
      set (len11 := len1 / 2). assert (H11 : 0 < len11 < len1) by (subst len11; split; [apply Nat.div_str_pos; lia|apply Nat.div_lt; lia]).
      assert (HA : A = firstn len11 A ++ skipn len11 A) by (symmetry; apply firstn_skipn).
      set (A1 := firstn len11 A) in *. set (A2 := skipn len11 A) in *.
      assert (L1 : length A1 = len11) by (subst A1; rewrite firstn_length; lia).
      assert (L2 : length A2 = len1 - len11) by (subst A2; rewrite skipn_length; lia).
      destruct A2 as [|x A2'] eqn:EA2; [cbn [length] in L2; lia|].
      assert (Ex : at_ (P ++ A ++ B ++ S) (from + len11) = x).
      { unfold at_. rewrite HA. subst from. rewrite <- L1. lsolve. }
      rewrite Ex.
      destruct (lower_cs_spec' x (P ++ A) B S pivot to ltac:(len) ltac:(lia) SB) as (B1 & B2 & EB & EL & Hb1 & Hb2).
      assert (LB : length B = length B1 + length B2) by (rewrite EB; len).
      replace (P ++ A ++ B ++ S) with ((P ++ A) ++ B ++ S) by reassoc. rewrite EL.
      replace (pivot + length B1 - pivot) with (length B1) by lia.
      replace (from + len11 - from) with len11 by lia.
      rewrite HA in SA. apply sorted_app in SA. destruct SA as (SA1 & SA2 & SA12).
      rewrite EB in SB. apply sorted_app in SB. destruct SB as (SB1 & SB2 & _).
      replace ((P ++ A) ++ B ++ S) with ((P ++ A1) ++ (x :: A2') ++ B1 ++ (B2 ++ S)) by (rewrite HA, EB; reassoc).
      rewrite (Hrot (P ++ A1) (x :: A2') B1 (B2 ++ S)) by len.
      replace ((P ++ A1) ++ B1 ++ (x :: A2') ++ B2 ++ S) with (P ++ A1 ++ B1 ++ ((x :: A2') ++ B2 ++ S)) by reassoc.
      rewrite (IH P A1 B1 ((x :: A2') ++ B2 ++ S)) by (assumption || len).
      replace (P ++ smerge A1 B1 ++ (x :: A2') ++ B2 ++ S) with ((P ++ smerge A1 B1) ++ (x :: A2') ++ B2 ++ S) by reassoc.
      rewrite (IH (P ++ smerge A1 B1) (x :: A2') B2 S) by (assumption || len).
      rewrite HA, EB. rewrite (smerge_cut A1 B1 (x :: A2') B2); [reassoc| |].
      * intros a1 b2 Ha Hb. specialize (SA12 a1 x Ha (or_introl eq_refl)). specialize (Hb2 b2 Hb).
        unfold kle, lt_by in *. lia.
      * intros b1 a2 Hb Ha. specialize (Hb1 b1 Hb). apply sorted_cons_inv in SA2. destruct SA2 as [_ SA2].
        destruct Ha as [<-|Ha]; [exact Hb1|]. specialize (SA2 a2 Ha). unfold kle, lt_by in *. lia.
    + (* cut the second run in the middle, find the matching cut of the first run with Upper *)
      set (len22 := len2 / 2). assert (H22 : 0 < len22 < len2) by (subst len22; split; [apply Nat.div_str_pos; lia|apply Nat.div_lt; lia]).
      assert (HB : B = firstn len22 B ++ skipn len22 B) by (symmetry; apply firstn_skipn).
      set (B1 := firstn len22 B) in *. set (B2 := skipn len22 B) in *.
      assert (L1 : length B1 = len22) by (subst B1; rewrite firstn_length; lia).
      assert (L2 : length B2 = len2 - len22) by (subst B2; rewrite skipn_length; lia).
      destruct B2 as [|x B2'] eqn:EB2; [cbn [length] in L2; lia|].
      assert (Ex : at_ (P ++ A ++ B ++ S) (pivot + len22) = x).
      { unfold at_. rewrite HB. subst pivot from len1. rewrite <- L1. lsolve. }
      rewrite Ex.
      destruct (upper_cs_spec' x P A (B ++ S) from pivot Hf ltac:(lia) SA) as (A1 & A2 & EA & EU & Ha1 & Ha2).
      rewrite EU.
      replace (from + length A1 - from) with (length A1) by lia.
      replace (pivot + len22 - pivot) with len22 by lia.
      rewrite HB in SB. apply sorted_app in SB. destruct SB as (SB1 & SB2 & SB12).
      rewrite EA in SA. apply sorted_app in SA. destruct SA as (SA1 & SA2 & _).
      assert (LA : length A = length A1 + length A2) by (rewrite EA; len).
      replace (P ++ A ++ B ++ S) with ((P ++ A1) ++ A2 ++ B1 ++ ((x :: B2') ++ S)) by (rewrite EA, HB; reassoc).
      rewrite (Hrot (P ++ A1) A2 B1 ((x :: B2') ++ S)) by len.
      replace ((P ++ A1) ++ B1 ++ A2 ++ (x :: B2') ++ S) with (P ++ A1 ++ B1 ++ (A2 ++ (x :: B2') ++ S)) by reassoc.
      rewrite (IH P A1 B1 (A2 ++ (x :: B2') ++ S)) by (assumption || len).
      replace (P ++ smerge A1 B1 ++ A2 ++ (x :: B2') ++ S) with ((P ++ smerge A1 B1) ++ A2 ++ (x :: B2') ++ S) by reassoc.
      rewrite (IH (P ++ smerge A1 B1) A2 (x :: B2') S) by (assumption || len).
      rewrite EA, HB. rewrite (smerge_cut A1 B1 A2 (x :: B2')); [reassoc| |].
      * intros a1 b2 Ha Hb. specialize (Ha1 a1 Ha). apply sorted_cons_inv in SB2. destruct SB2 as [_ SB2].
        destruct Hb as [<-|Hb]; [exact Ha1|]. specialize (SB2 b2 Hb). unfold kle, lt_by in *. lia.
      * intros b1 a2 Hb Ha. specialize (SB12 b1 x Hb (or_introl eq_refl)). specialize (Ha2 a2 Ha).
        unfold kle, lt_by in *. lia.
Qed.

(* ------------------------------------------------------------------ Sort *)

Lemma sort_rec_spec (Hrot : rotate_ok) fuel : forall P M S from to,
  from = length P -> to = from + length M -> 0 < length M <= fuel ->
  sort_rec k fuel (P ++ M ++ S) from to = P ++ isort M ++ S.
Proof.
  induction fuel as [|fuel IH]; intros P M S from to Hf Ht Hl; [lia|].
  cbn [sort_rec]. destruct (to <? from + 12) eqn:E.
  - subst. apply bubble_cs_spec.
  - set (h := length M / 2). assert (Hh : 0 < h < length M) by (subst h; split; [apply Nat.div_str_pos; lia|apply Nat.div_lt; lia]).
    assert (Em : (from + to) / 2 = from + h).
    { subst to h. replace (from + (from + length M)) with (length M + from * 2) by lia. rewrite Nat.div_add by lia. lia. }
    rewrite Em.
    assert (HM : M = firstn h M ++ skipn h M) by (symmetry; apply firstn_skipn).
    set (M1 := firstn h M) in *. set (M2 := skipn h M) in *.
    assert (L1 : length M1 = h) by (subst M1; rewrite firstn_length; lia).
    assert (L2 : length M2 = length M - h) by (subst M2; rewrite skipn_length; lia).
    replace (P ++ M ++ S) with (P ++ M1 ++ (M2 ++ S)) by (rewrite HM; reassoc).
    rewrite (IH P M1 (M2 ++ S)) by lia.
    replace (P ++ isort M1 ++ M2 ++ S) with ((P ++ isort M1) ++ M2 ++ S) by reassoc.
    rewrite (IH (P ++ isort M1) M2 S) by (repeat rewrite app_length; rewrite ?isort_length; lia).
    replace ((P ++ isort M1) ++ isort M2 ++ S) with (P ++ isort M1 ++ isort M2 ++ S) by reassoc.
    rewrite (merge_cs_spec Hrot (to - from) P (isort M1) (isort M2) S) by
      (try apply isort_sorted; rewrite ?isort_length; lia).
    rewrite smerge_isort, <- HM. reflexivity.
Qed.

Theorem sort_cs_spec (Hrot : rotate_ok) l from to :
  sort_cs k l from to =
  (let to' := Nat.min to (length l) in
   if from <? to' then firstn from l ++ isort (firstn (to' - from) (skipn from l)) ++ skipn to' l else l).
Proof.
  unfold sort_cs. cbv zeta. set (to' := Nat.min to (length l)). destruct (from <? to') eqn:E; [|reflexivity].
  assert (Hl : l = firstn from l ++ firstn (to' - from) (skipn from l) ++ skipn to' l).
  { rewrite <- (firstn_skipn from l) at 1. f_equal. rewrite <- (firstn_skipn (to' - from) (skipn from l)) at 1. f_equal.
    rewrite skipn_skipn'. f_equal. lia. }
  rewrite Hl at 1. apply (sort_rec_spec Hrot); [rewrite firstn_length; subst to'; lia| |].
  - rewrite firstn_length, skipn_length. subst to'. lia.
  - rewrite firstn_length, skipn_length. subst to'. lia.
Qed.

End Stable.

(* the code-shaped Sort computes the ideal stable sort *)
Theorem sort_cs_is_l0_sort bk l from to : sort_cs (sort_key bk) l from to = l0_sort bk l from to.
Proof. unfold l0_sort. apply sort_cs_spec. exact rotate_cs_ok. Qed.
