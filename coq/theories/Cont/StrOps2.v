(* C17 -- specifications of the remaining level-1 operations: operator-=, Replace(String,String), the producers. *)
From Coq Require Import List NArith ZArith Bool Lia.
From Muscle Require Import Cont.StrL0 Cont.StrModel Cont.StrSpec Cont.StrLemmas Cont.StrGrow Cont.StrCore Cont.StrOps Cont.StrL0Facts Cont.StrReplace.
Import ListNotations.
Local Open Scope N_scope.

Set Default Proof Using "All".

Section Ops2.
Variables (M TH PG OV jk : N).
Hypothesis M_pos : 1 <= M.
Hypothesis TH_ge : 2 <= TH.
Hypothesis PG_pos : 0 < PG.
Hypothesis PG_le : PG <= 1048576.
Hypothesis OV_lt : OV < PG.
Hypothesis M_le : M <= 1048576.

Local Notation inv_len := (StrCore.inv_len M TH PG OV jk M_pos TH_ge PG_pos PG_le OV_lt M_le).
Local Notation inv_lt := (StrCore.inv_lt M TH PG OV jk M_pos TH_ge PG_pos PG_le OV_lt M_le).
Local Notation inv_nul := (StrCore.inv_nul M TH PG OV jk M_pos TH_ge PG_pos PG_le OV_lt M_le).
Local Notation lenN_abs := (StrCore.lenN_abs M TH PG OV jk M_pos TH_ge PG_pos PG_le OV_lt M_le).
Local Notation commit_spec := (StrCore.commit_spec M TH PG OV jk M_pos TH_ge PG_pos PG_le OV_lt M_le).
Local Notation inv_empty1 := (StrCore.inv_empty1 M TH PG OV jk M_pos TH_ge PG_pos PG_le OV_lt M_le).
Local Notation inv_clear_and_flush := (StrCore.inv_clear_and_flush M TH PG OV jk M_pos TH_ge PG_pos PG_le OV_lt M_le).
Local Notation u32_small := (StrOps.u32_small M TH PG OV jk M_pos TH_ge PG_pos PG_le OV_lt M_le).
Local Notation src_ok_lit := (StrOps.src_ok_lit M TH PG OV jk M_pos TH_ge PG_pos PG_le OV_lt M_le).
Local Notation src_ok_of := (StrOps.src_ok_of M TH PG OV jk M_pos TH_ge PG_pos PG_le OV_lt M_le).
Local Notation src_bytes_lit := (StrOps.src_bytes_lit M TH PG OV jk M_pos TH_ge PG_pos PG_le OV_lt M_le).
Local Notation lenN_src_bytes := (StrOps.lenN_src_bytes M TH PG OV jk M_pos TH_ge PG_pos PG_le OV_lt M_le).
Local Notation take_with_nul := (StrOps.take_with_nul M TH PG OV jk M_pos TH_ge PG_pos PG_le OV_lt M_le).
Local Notation cap_lt := (StrOps.cap_lt M TH PG OV jk M_pos TH_ge PG_pos PG_le OV_lt M_le).
Local Notation clear_spec := (StrOps.clear_spec M TH PG OV jk M_pos TH_ge PG_pos PG_le OV_lt M_le).
Local Notation cstr_cregion := (StrOps.cstr_cregion M TH PG OV jk M_pos TH_ge PG_pos PG_le OV_lt M_le).
Local Notation set_cstr_spec := (StrOps.set_cstr_spec M TH PG OV jk M_pos TH_ge PG_pos PG_le OV_lt M_le).
Local Notation set_from_spec := (StrOps.set_from_spec M TH PG OV jk M_pos TH_ge PG_pos PG_le OV_lt M_le).
Local Notation append_s_spec := (StrOps.append_s_spec M TH PG OV jk M_pos TH_ge PG_pos PG_le OV_lt M_le).
Local Notation append_c_spec := (StrOps.append_c_spec M TH PG OV jk M_pos TH_ge PG_pos PG_le OV_lt M_le).
Local Notation append_ch_spec := (StrOps.append_ch_spec M TH PG OV jk M_pos TH_ge PG_pos PG_le OV_lt M_le).
Local Notation insert_core := (StrOps.insert_core M TH PG OV jk M_pos TH_ge PG_pos PG_le OV_lt M_le).
Local Notation insert_aux_ext := (StrOps.insert_aux_ext M TH PG OV jk M_pos TH_ge PG_pos PG_le OV_lt M_le).
Local Notation insert_chars_spec := (StrOps.insert_chars_spec M TH PG OV jk M_pos TH_ge PG_pos PG_le OV_lt M_le).
Local Notation prealloc_safe := (StrOps.prealloc_safe M TH PG OV jk M_pos TH_ge PG_pos PG_le OV_lt M_le).
Local Notation prealloc_ok := (StrOps.prealloc_ok M TH PG OV jk M_pos TH_ge PG_pos PG_le OV_lt M_le).
Local Notation shrink_safe := (StrOps.shrink_safe M TH PG OV jk M_pos TH_ge PG_pos PG_le OV_lt M_le).
Local Notation trunc_spec := (StrOps.trunc_spec M TH PG OV jk M_pos TH_ge PG_pos PG_le OV_lt M_le).
Local Notation trunc_chars_spec := (StrOps.trunc_chars_spec M TH PG OV jk M_pos TH_ge PG_pos PG_le OV_lt M_le).
Local Notation trunc_to_spec := (StrOps.trunc_to_spec M TH PG OV jk M_pos TH_ge PG_pos PG_le OV_lt M_le).
Local Notation flatten_spec := (StrOps.flatten_spec M TH PG OV jk M_pos TH_ge PG_pos PG_le OV_lt M_le).
Local Notation unflatten_spec := (StrOps.unflatten_spec M TH PG OV jk M_pos TH_ge PG_pos PG_le OV_lt M_le).
Local Notation ctor_sub_spec := (StrOps.ctor_sub_spec M TH PG OV jk M_pos TH_ge PG_pos PG_le OV_lt M_le).
Local Notation ctor_copy_spec := (StrOps.ctor_copy_spec M TH PG OV jk M_pos TH_ge PG_pos PG_le OV_lt M_le).
Local Notation ctor_copy_pre_spec := (StrOps.ctor_copy_pre_spec M TH PG OV jk M_pos TH_ge PG_pos PG_le OV_lt M_le).
Local Notation ctor_pre_lit_spec := (StrOps.ctor_pre_lit_spec M TH PG OV jk M_pos TH_ge PG_pos PG_le OV_lt M_le).
Local Notation commit_at := (StrOps.commit_at M TH PG OV jk M_pos TH_ge PG_pos PG_le OV_lt M_le).
Local Notation commit_set := (StrOps.commit_set M TH PG OV jk M_pos TH_ge PG_pos PG_le OV_lt M_le).
Local Notation cut_spec := (StrOps.cut_spec M TH PG OV jk M_pos TH_ge PG_pos PG_le OV_lt M_le).
Local Notation map_content_spec := (StrOps.map_content_spec M TH PG OV jk M_pos TH_ge PG_pos PG_le OV_lt M_le).
Local Notation reverse_spec := (StrOps.reverse_spec M TH PG OV jk M_pos TH_ge PG_pos PG_le OV_lt M_le).
Local Notation replace_ch_spec := (StrOps.replace_ch_spec M TH PG OV jk M_pos TH_ge PG_pos PG_le OV_lt M_le).
Local Notation l0_sub_all' := (StrOps.l0_sub_all' M TH PG OV jk M_pos TH_ge PG_pos PG_le OV_lt M_le).
Local Notation concat_rep1 := (StrOps.concat_rep1 M TH PG OV jk M_pos TH_ge PG_pos PG_le OV_lt M_le).
Local Notation lenN_concat_rep := (StrOps.lenN_concat_rep M TH PG OV jk M_pos TH_ge PG_pos PG_le OV_lt M_le).
Local Notation src_ok := StrOps.src_ok.
Local Notation osrc_ok := StrOps.osrc_ok.
Local Notation carg_ok := StrOps.carg_ok.
Local Notation slen := (slen M).
Local Notation cap := (cap M).
Local Notation abs := (abs M).
Local Notation inv := (inv M).
Local Notation commit := (commit M).
Local Notation empty1 := (empty1 M jk).
Local Notation clear := (clear M).
Local Notation osrc := (osrc M).
Local Notation cregion := (cregion M).
Local Notation cut := (cut M).
Local Notation minus_ch := (minus_ch M).
Local Notation minus_s := (minus_s M).
Local Notation minus_c := (minus_c M).
Local Notation src_of := (src_of M).
Local Notation replace_s1 := (replace_s1 M TH PG OV jk true).
Local Notation set_from := (set_from M TH PG OV jk true).
Local Notation prealloc := (prealloc M TH PG OV jk true).


(* ---------------------------------------------------------------- operator-= *)

Lemma minus_ch_spec s ch : inv s ->
  inv (minus_ch s ch) /\
  abs (minus_ch s ch) = l0_minus_ch (abs s) ch.
Proof.
  intros I. unfold StrModel.minus_ch, l0_minus_ch.
  destruct (l0_last_index_of_ch (abs s) ch 0) as [|p|p] eqn:E.
  - destruct (last_index_of_ch_bound _ _ _ E) as [B _]; [lia|]. rewrite (lenN_abs s I) in B.
    apply cut_spec; trivial. cbn [Z.to_N] in *. lia.
  - destruct (last_index_of_ch_bound _ _ _ E) as [B _]; [lia|]. rewrite (lenN_abs s I) in B.
    apply cut_spec; trivial. lia.
  - split; trivial.
Qed.

Lemma cut_found s x : inv s -> x <> [] ->
  let r := match l0_last_index_of1 (abs s) x with Zneg _ => s | z => cut s (Z.to_N z) (lenN x) end in
  inv r /\ abs r = l0_minus (abs s) x.
Proof.
  intros I Ne r. unfold r, l0_minus. destruct x as [|a x]; [congruence|].
  destruct (l0_last_index_of1 (abs s) (a :: x)) as [|p|p] eqn:E.
  - destruct (last_index_of1_bound _ _ _ Ne E) as [B _]; [lia|]. rewrite (lenN_abs s I) in B.
    apply cut_spec; trivial.
  - destruct (last_index_of1_bound _ _ _ Ne E) as [B _]; [lia|]. rewrite (lenN_abs s I) in B.
    apply cut_spec; trivial.
  - split; trivial.
Qed.

Lemma l0_minus_self l : l0_minus l l = [].
Proof.
  unfold l0_minus. destruct l as [|a l]; [reflexivity|].
  rewrite last_index_of1_self by discriminate. cbn [Z.to_N]. rewrite takeN_0, N.add_0_l. cbn [app].
  apply dropN_all. lia.
Qed.

Lemma minus_s_spec s o : inv s -> osrc_ok o ->
  inv (minus_s s o) /\ abs (minus_s s o) = l0_minus (abs s) (src_bytes (osrc s o)).
Proof.
  intros I O. unfold StrModel.minus_s.
  set (ob := src_bytes (osrc s o)).
  assert (Eq : (match o with None => true | Some _ => list_eqb (abs s) ob end) = true -> abs s = ob).
  { destruct o; [apply list_eqb_eq|]. intros _. reflexivity. }
  destruct (match o with None => true | Some _ => list_eqb (abs s) ob end) eqn:E.
  - rewrite <- (Eq eq_refl). rewrite l0_minus_self. destruct (clear_spec s I) as (A1 & A2 & _). split; trivial.
  - clear Eq. destruct (0 <? lenN ob) eqn:E0.
    + apply cut_found; trivial. intros ->. discriminate.
    + apply N.ltb_ge in E0. rewrite (lenN_0 ob) by lia. split; trivial.
Qed.

Lemma minus_c_spec s c : inv s -> nulfree (abs s) -> carg_ok c ->
  inv (minus_c s c) /\ abs (minus_c s c) = l0_minus (abs s) (clit_of (abs s) c).
Proof.
  intros I F C. unfold StrModel.minus_c.
  pose proof (cstr_cregion s c I F C) as R.
  destruct (cregion s c) as [r|] eqn:ER.
  2:{ subst c. cbn [clit_of]. split; trivial. }
  rewrite R. set (x := clit_of (abs s) c).
  destruct (0 <? lenN x) eqn:E0.
  - apply cut_found; trivial. intros E. rewrite E in E0. discriminate.
  - apply N.ltb_ge in E0. rewrite (lenN_0 x) by lia. split; trivial.
Qed.

(* ---------------------------------------------------------------- Replace(String, String) *)

Lemma replace_s_spec s rm wm max from :
  inv s -> nulfree (abs s) -> osrc_ok wm ->
  slen s + snd (osrc s wm) * slen s + 1 <= LIM ->
  let r := replace_s1 s rm wm max from in
  let r0 := l0_replace_sub (abs s) (src_bytes (osrc s rm)) (src_bytes (osrc s wm)) max from in
  inv (fst r) /\ abs (fst r) = fst r0 /\ snd r = Z.of_N (snd r0).
Proof.
  intros I F Owm B r r0. unfold r, r0, StrModel.replace_s1. clear r r0.
  set (me := abs s). set (rb := src_bytes (osrc s rm)). set (wb := src_bytes (osrc s wm)).
  assert (Lme : lenN me = slen s) by apply (lenN_abs s I).
  assert (SOw : src_ok (osrc s wm)) by (destruct wm as [x|]; [apply Owm|now apply src_ok_of]).
  assert (Lwb : lenN wb = snd (osrc s wm)) by now apply lenN_src_bytes.
  pose proof (l0_replace_sub_facts me rb wb max from) as Fa. cbn zeta in Fa.
  destruct Fa as (F1 & F2 & F3 & F4).
  destruct (max =? 0) eqn:E1.
  { unfold l0_replace_sub. rewrite E1. cbn [orb fst snd]. splits; trivial. }
  destruct (slen s <=? from) eqn:E2.
  { unfold l0_replace_sub. rewrite Lme, E1, E2. cbn [orb fst snd]. splits; trivial. }
  destruct (lenN rb =? 0) eqn:E3.
  { unfold l0_replace_sub. rewrite Lme, E1, E2, E3. cbn [orb fst snd]. splits; trivial. }
  apply N.eqb_neq in E1, E3. apply N.leb_gt in E2.
  destruct (match rm, wm with None, None => true | _, _ => list_eqb rb wb end) eqn:E4.
  { assert (Eq : rb = wb).
    { destruct rm, wm; try (now apply list_eqb_eq). reflexivity. }
    cbn [fst snd]. splits; trivial.
    - symmetry. now apply F4.
    - rewrite F1. reflexivity. }
  destruct rm as [xr|].
  2:{ (* the needle is the subject itself *)
    cbn [StrModel.osrc] in rb. change rb with me in *.
    assert (Ne : me <> []) by (intros X; rewrite X in Lme; rewrite lenN_nil in Lme; lia).
    destruct (from =? 0) eqn:E5.
    - apply N.eqb_eq in E5. subst from. rewrite (l0_replace_sub_whole me wb max Ne E1). cbn [fst snd].
      destruct (set_from_spec s wm 0 NOLIMIT I Owm) as (s' & E & I' & A'). rewrite E. cbn [snd].
      splits; trivial. rewrite A'. apply l0_sub_all'. fold wb. rewrite Lwb.
      destruct wm as [x|]; [apply Owm|discriminate E4].
    - apply N.eqb_neq in E5. rewrite (l0_replace_sub_whole_from me wb max from) by lia. cbn [fst snd]. splits; trivial. }
  fold me rb wb.
  (* the general case: the pointer loops *)
  assert (Nrb : rb <> []) by (intros X; rewrite X, lenN_nil in E3; congruence).
  assert (Hfrom : from <= lenN me) by lia.
  assert (Unf : l0_replace_sub me rb wb max from =
                (takeN from me ++ fst (replace_sub_fuel (S (length me)) (dropN from me) rb wb max),
                 snd (replace_sub_fuel (S (length me)) (dropN from me) rb wb max))).
  { unfold l0_replace_sub. assert (X1 : (max =? 0) = false) by now apply N.eqb_neq. rewrite X1.
    assert (X2 : (lenN me <=? from) = false) by (apply N.leb_gt; lia). rewrite X2.
    assert (X3 : (lenN rb =? 0) = false) by now apply N.eqb_neq. rewrite X3. cbn [orb].
    destruct (replace_sub_fuel (S (length me)) (dropN from me) rb wb max). reflexivity. }
  assert (Fuel : (N.to_nat (lenN me - from) < S (length me))%nat) by (unfold lenN; lia).
  assert (Fme : nulfree me) by exact F.
  destruct (l0_replace_sub me rb wb max from) as [res cnt] eqn:ER. cbn [fst snd] in F1, F2, F3, F4 |- *.
  set (RSF := replace_sub_fuel (S (length me)) (dropN from me) rb wb max) in *.
  assert (Eres : res = takeN from me ++ fst RSF) by congruence.
  assert (Ecnt : cnt = snd RSF) by congruence. clear Unf.
  destruct (lenN rb <? lenN wb) eqn:E6.
  - (* the replacement is longer: copy into a preallocated temporary, then swap *)
    apply N.ltb_lt in E6. rewrite (N.min_comm (l0_count_sub me rb from) max), <- F1.
    destruct (cnt =? 0) eqn:E7.
    { apply N.eqb_eq in E7. cbn [fst snd]. splits; trivial; [symmetry; now apply F3|now rewrite E7]. }
    apply N.eqb_neq in E7.
    assert (Cle : cnt <= slen s).
    { pose proof (l0_count_sub_le me rb from) as Hc. assert (0 < lenN rb) by lia. nia. }
    assert (Lres : lenN res = slen s + (lenN wb - lenN rb) * cnt) by nia.
    rewrite <- Lres.
    assert (Bres : lenN res + 1 <= LIM) by (unfold LIM in *; nia).
    rewrite u32_small by (unfold LIM in *; lia).
    destruct inv_empty1 as (I0 & S0 & A0 & _).
    destruct (prealloc_ok empty1 (lenN res) I0 Bres) as (t & E & It & At & Ct & St). rewrite E.
    pose proof (inv_len t It) as Lt.
    assert (Hfr : from <= lenN res) by (rewrite Eres, lenN_app, lenN_takeN; lia).
    set (tb0 := blit (buf t) 0 (takeN from (buf s))).
    assert (Lfrom : lenN (takeN from (buf s)) = from) by (rewrite lenN_takeN, (inv_len s I); pose proof (inv_lt s I); lia).
    assert (Ltb0 : lenN tb0 = StrModel.cap M t) by (unfold tb0; rewrite lenN_blit; lia).
    assert (Ttb0 : takeN from tb0 = takeN from me).
    { unfold tb0. rewrite <- Lfrom at 1. rewrite takeN_blit_0 by lia. rewrite Lfrom. unfold me, StrModel.abs.
      rewrite takeN_takeN. symmetry. rewrite takeN_takeN. f_equal. lia. }
    pose proof (repl_copy_spec me rb wb Fme Nrb (buf s)) as RC.
    specialize (RC ltac:(rewrite (inv_len s I), Lme; pose proof (inv_lt s I); lia)).
    specialize (RC ltac:(rewrite Lme; apply (take_with_nul s I))).
    specialize (RC (S (length me)) from tb0 from max 0 Hfrom Fuel).
    rewrite Lme in RC.
    fold RSF in RC. destruct RSF as [t' c'] eqn:ERS. cbn [fst snd] in Eres, Ecnt, RC.
    subst res cnt.
    destruct (repl_copy (S (length me)) (buf s) (slen s) from tb0 from rb wb max 0) as [[tb w] cnt'].
    destruct RC as (R1 & R2 & R3 & R4 & R5).
    { rewrite Ltb0. rewrite lenN_app, lenN_takeN in Ct. lia. }
    cbn [fst snd].
    destruct (commit_spec t tb w It) as (X1 & X2 & X3 & _).
    + rewrite R2. exact Ltb0.
    + rewrite lenN_app, lenN_takeN in Ct. lia.
    + exact R4.
    + splits; trivial; [|f_equal; lia]. rewrite X3, R3, Ttb0. reflexivity.
  - (* in place *)
    apply N.ltb_ge in E6.
    destruct (take_with_nul s I) as [].
    assert (Bs : exists junk, buf s = me ++ 0 :: junk).
    { exists (dropN (slen s + 1) (buf s)). rewrite <- (takeN_dropN (slen s + 1) (buf s)) at 1.
      rewrite (take_with_nul s I), <- app_assoc. reflexivity. }
    destruct Bs as [junk Bs].
    pose proof (repl_inplace_spec me junk rb wb Fme Nrb (negb (lenN rb =? lenN wb)) E6) as RI.
    specialize (RI ltac:(intros X; apply negb_false_iff, N.eqb_eq in X; lia)).
    specialize (RI (S (length me)) (buf s) from None max 0 Hfrom Fuel).
    rewrite <- Bs in RI. specialize (RI eq_refl eq_refl).
    specialize (RI ltac:(rewrite Bs; apply takeN_app_le; lia)).
    cbn zeta in RI. rewrite Lme in RI.
    fold RSF in RI. destruct RSF as [t' c'] eqn:ERS. cbn [fst snd] in Eres, Ecnt, RI.
    subst res cnt.
    destruct (repl_inplace (S (length me)) (buf s) (slen s) from None rb wb (negb (lenN rb =? lenN wb)) max 0) as [[b' w'] cnt'].
    destruct RI as (R1 & R2 & R3).
    destruct w' as [wf|].
    + destruct R3 as (J1 & J2 & J3). cbn [fst snd].
      pose proof (inv_lt s I) as Lts.
      destruct (commit_spec s b' wf I) as (X1 & X2 & X3 & _).
      * rewrite R2, (inv_len s I). reflexivity.
      * lia.
      * exact J2.
      * splits; trivial; [|f_equal; lia]. rewrite X3, J1. reflexivity.
    + destruct R3 as (_ & J2 & _). cbn [fst snd]. splits; trivial; [|f_equal; lia].
      symmetry. apply F3. now rewrite Ecnt.
Qed.

End Ops2.
