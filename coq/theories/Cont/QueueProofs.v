(* C16 -- proofs about the Queue model (refinement L1 -> L0). *)
From Coq Require Import List Arith ZArith Bool Lia.
From Muscle Require Import Cont.QueueModel.
Import ListNotations.
Local Open Scope nat_scope.

Lemma upd_length a i v : length (upd a i v) = length a.
Proof.
  unfold upd. destruct (i <? length a) eqn:E; [|reflexivity].
  apply Nat.ltb_lt in E.
  rewrite app_length. cbn [length]. rewrite firstn_length, skipn_length. lia.
Qed.

Lemma abs_empty owning jk sq : abs (empty_q) = [] /\ fst (run1 owning jk sq []) = empty_q.
Proof. split; reflexivity. Qed.
