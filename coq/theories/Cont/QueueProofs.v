(* C16 -- the refinement theorems: every operation of the code-shaped Queue model (L1) preserves
   the representation invariant and refines the ideal sequence (L0), with equal results; lifted
   to all operation lists; no-stale-items corollaries. *)
From Coq Require Import List Arith ZArith NArith Bool Lia ZifyBool.
From Muscle Require Import Cont.QueueModel Cont.QueueLemmas Cont.QueueInv Cont.QueueOps1 Cont.QueueEnsure
  Cont.QueueOps2 Cont.QueueOps3 Cont.QueueSort.
Import ListNotations.
Local Open Scope nat_scope.

Lemma find_from_bound x l : forall s i, find_from x l s = Some i -> s <= i < s + length l.
Proof.
  induction l as [|y l IH]; intros s i H; cbn [find_from length] in *; [discriminate|].
  destruct (Z.eqb y x).
  - injection H as <-. lia.
  - apply IH in H. lia.
Qed.

Lemma abs_snoc ow sq q : inv ow sq q -> 0 < cnt q ->
  abs q = abs (remove_tail ow q) ++ [getu q (cnt q - 1)].
Proof.
  intros I Hc. rewrite (abs_remove_tail ow sq q I Hc).
  apply (list_ext _ _ 0%Z); autorewrite with nthdb; cbn [length]; [lia|].
  intros i Hi. autorewrite with nthdb absdb. cbn [length]. dif; fin.
Qed.

Section Refinement.
Variables (ow : bool) (jk : Z) (sq : nat).

Local Notation Inv := (inv ow sq).
Local Notation step1 := (step1 ow jk sq).

(* ------------------------------------------------------------------ one operation *)

Theorem step_refines q o : Inv q ->
  Inv (fst (step1 q o)) /\
  abs (fst (step1 q o)) = fst (step0 (abs q) o) /\
  snd (step1 q o) = snd (step0 (abs q) o).
Proof.
  intros I. destruct o; cbn [QueueModel.step1 step0].
  - (* AddTail *) destruct (add_tail_spec jk sq ow q x I). cbn [fst snd]. auto.
  - (* AddHead *) destruct (add_head_spec jk sq ow q x I). cbn [fst snd]. auto.
  - (* RemoveHead *)
    destruct (cnt q) as [|c] eqn:Ec.
    + rewrite (abs_cnt0 q Ec). cbn [fst snd]. rewrite (abs_cnt0 q Ec). auto.
    + rewrite (abs_remove_head ow sq q I) by lia. cbn [fst snd].
      split; [apply inv_remove_head; [assumption|lia]|]. auto.
  - (* RemoveTail *)
    destruct (cnt q) as [|c] eqn:Ec.
    + rewrite (abs_cnt0 q Ec). cbn [rev fst snd]. rewrite (abs_cnt0 q Ec). auto.
    + rewrite (abs_snoc ow sq q I) by lia. rewrite rev_app_distr. cbn [rev app fst snd].
      rewrite rev_involutive, Ec. split; [apply inv_remove_tail; [assumption|lia]|]. auto.
  - (* RemoveHeadMulti *)
    pose proof (remove_head_multi_spec sq ow q n I) as S. cbv zeta in S.
    destruct (remove_head_multi ow q n) as [q' k]. cbn [fst snd] in *.
    destruct S as (S1&S2&S3&_). rewrite abs_length. subst k. auto.
  - (* RemoveTailMulti *)
    pose proof (remove_tail_multi_spec sq ow q n I) as S. cbv zeta in S.
    destruct (remove_tail_multi ow q n) as [q' k]. cbn [fst snd] in *.
    destruct S as (S1&S2&S3&_). rewrite abs_length. subst k. auto.
  - (* RemoveItemAt *)
    rewrite abs_length. destruct (i <? cnt q) eqn:E; cbn [fst snd]; [|auto].
    destruct (remove_at_spec sq ow q i I ltac:(lia)) as [J1 J2].
    rewrite nth_abs by lia. auto.
  - (* InsertItemAt *)
    rewrite abs_length. destruct (insert_at_spec jk sq ow q i x I). cbn [fst snd]. auto.
  - (* ReplaceItemAt *)
    rewrite abs_length. destruct (i <? cnt q) eqn:E; cbn [fst snd]; [|auto].
    split; [apply inv_setu; [assumption|lia]|]. split; [apply (abs_setu ow sq); [assumption|lia]|reflexivity].
  - (* GetItemAt *)
    rewrite abs_length. cbn [fst snd]. split; [assumption|]. split; [reflexivity|].
    destruct (i <? cnt q) eqn:E; [|reflexivity]. rewrite nth_abs by lia. reflexivity.
  - (* Clear *)
    destruct (clear_shape sq ow q release I) as (J1&J2&_). cbn [fst snd].
    rewrite (abs_cnt0 _ J2). auto.
  - (* EnsureSize *)
    destruct (too_big n extra); cbn [fst snd]; [auto|].
    destruct (ensure_size_spec jk sq ow q (N.to_nat n) setnum (N.to_nat extra) shrink I) as (J1&J2&_). auto.
  - (* Swap *)
    rewrite abs_length. destruct ((i <? cnt q) && (j <? cnt q)) eqn:E; cbn [fst snd]; [|auto].
    destruct (swap_items_spec sq ow q i j I ltac:(lia) ltac:(lia)) as (J1&J2&_). auto.
  - (* ReverseItemOrdering *)
    destruct (reverse_spec sq ow q from to I). cbn [fst snd]. auto.
  - (* Normalize *)
    destruct (normalize_spec sq ow q I). cbn [fst snd]. auto.
  - (* IndexOf *) cbn [fst snd]. auto.
  - (* LastIndexOf *) cbn [fst snd]. auto.
  - (* AddTailMulti *) destruct (add_tail_multi_spec jk sq ow q xs I). cbn [fst snd]. auto.
  - (* AddHeadMulti *) destruct (add_head_multi_spec jk sq ow q xs I). cbn [fst snd]. auto.
  - (* InsertItemsAt *)
    rewrite abs_length. destruct (insert_items_at_spec jk sq ow q i xs I). cbn [fst snd]. auto.
  - (* CopyFrom *) destruct (copy_from_spec jk sq ow q xs I). cbn [fst snd]. auto.
  - (* RemoveFirstInstanceOf *)
    destruct (find_from x (abs q) 0) as [i|] eqn:E; cbn [fst snd]; [|auto].
    apply find_from_bound in E. rewrite abs_length in E.
    destruct (remove_at_spec sq ow q i I ltac:(lia)). auto.
  - (* RemoveLastInstanceOf *)
    destruct (find_from x (rev (abs q)) 0) as [k|] eqn:E; cbn [fst snd]; [|auto].
    apply find_from_bound in E. rewrite rev_length, abs_length in E. rewrite abs_length.
    destruct (remove_at_spec sq ow q (cnt q - 1 - k) I ltac:(lia)). auto.
  - (* RemoveAllInstancesOf *)
    pose proof (remove_all_instances_spec sq ow q x I) as S. cbv zeta in S.
    destruct (remove_all_instances ow q x) as [q' k]. cbn [fst snd] in *.
    destruct S as (S1&S2&S3). subst k. auto.
  - (* Sort *)
    destruct (sort_items_spec sq ow q bykey from to I). cbn [fst snd]. auto.
  - (* QueueIterator *)
    cbn [fst snd]. split; [assumption|]. split; [reflexivity|].
    rewrite iter_vals_abs, abs_length. reflexivity.
  - (* RemoveSortedDuplicateItems *)
    pose proof (remove_sorted_dups_spec jk sq ow q I) as S. cbv zeta in S.
    destruct (remove_sorted_dups ow jk sq q) as [q' k]. cbn [fst snd] in *.
    destruct S as (S1&S2&S3). rewrite abs_length. subst k. auto.
  - (* RemoveDuplicateItems *)
    destruct (sort_items_spec sq ow q false 0 (cnt q) I) as [J1 J2].
    pose proof (remove_sorted_dups_spec jk sq ow _ J1) as S. cbv zeta in S.
    rewrite <- (abs_length (sort_items q false 0 (cnt q))) in S. rewrite J2, l0_sort_length in S.
    destruct (remove_sorted_dups ow jk sq (sort_items q false 0 (cnt q))) as [q' k]. cbn [fst snd] in *.
    destruct S as (S1&S2&S3). rewrite abs_length in *. subst k. auto.
  - (* InsertItemAtSortedPosition *)
    pose proof (insert_sorted_spec jk sq ow q x I) as S. cbv zeta in S.
    destruct (insert_sorted ow jk sq q x) as [q' p]. cbn [fst snd] in *.
    destruct S as (S1&S2&S3). subst p. auto.
  - (* AddTail(q[i]) *)
    rewrite abs_length. destruct (i <? cnt q) eqn:E; cbn [fst snd]; [|auto].
    destruct (add_tail_spec jk sq ow q (getu q i) I). rewrite nth_abs by lia. auto.
  - (* AddHead(q[i]) *)
    rewrite abs_length. destruct (i <? cnt q) eqn:E; cbn [fst snd]; [|auto].
    destruct (add_head_spec jk sq ow q (getu q i) I). rewrite nth_abs by lia. auto.
  - (* InsertItemAt(idx, q[i]) *)
    rewrite abs_length. destruct (i <? cnt q) eqn:E; cbn [fst snd]; [|auto].
    destruct (insert_at_spec jk sq ow q idx (getu q i) I). rewrite nth_abs by lia. auto.
  - (* ReplaceItemAt(idx, q[i]) *)
    rewrite abs_length. destruct ((idx <? cnt q) && (i <? cnt q)) eqn:E; cbn [fst snd]; [|auto].
    split; [apply inv_setu; [assumption|lia]|]. rewrite nth_abs by lia.
    split; [apply (abs_setu ow sq); [assumption|lia]|reflexivity].
  - (* RemoveAllInstancesOf(q[i]) *)
    rewrite abs_length. destruct (i <? cnt q) eqn:E; cbn [fst snd]; [|auto].
    pose proof (remove_all_instances_spec sq ow q (getu q i) I) as S. cbv zeta in S.
    destruct (remove_all_instances ow q (getu q i)) as [q' k]. cbn [fst snd] in *.
    destruct S as (S1&S2&S3). rewrite nth_abs by lia. subst k. auto.
  - (* ShrinkToFit *)
    rewrite abs_length. destruct (too_big (N.of_nat (cnt q)) extra); cbn [fst snd negb]; [auto|].
    destruct (ensure_size_spec jk sq ow q (cnt q + N.to_nat extra) false 0 true I) as (J1&J2&_). auto.
  - (* EnsureCanAdd *)
    rewrite abs_length. destruct (too_big (N.of_nat (cnt q)) n); cbn [fst snd negb]; [auto|].
    destruct (ensure_size_spec jk sq ow q (cnt q + N.to_nat n) false 0 false I) as (J1&J2&_). auto.
  - (* ReplaceAllItems *)
    destruct (write_all_spec sq ow q (repeat x (cnt q)) I (repeat_length x (cnt q))). cbn [fst snd].
    rewrite abs_length. auto.
  - (* GetArrayPointer *)
    cbn [fst snd]. rewrite (pieces_spec ow sq q I). auto.
  - (* AdoptRawDataArray *)
    destruct (adopt_spec sq ow q xs spare I). cbn [fst snd]. auto.
  - (* ReleaseRawDataArray *)
    destruct (release_spec jk sq ow q I). cbn [fst snd]. auto.
Qed.

Corollary step_inv q o : Inv q -> Inv (fst (step1 q o)).
Proof. intros I. apply (step_refines q o I). Qed.

(* a failing operation leaves the whole representation unchanged, not just the abstract value *)
Theorem step_fail_unchanged q o :
  snd (step1 q o) = OVal None \/ snd (step1 q o) = OStatus false -> fst (step1 q o) = q.
Proof.
  destruct o; cbn [QueueModel.step1]; intros [H|H];
    repeat match goal with
    | H : context [match ?c with _ => _ end] |- _ => destruct c eqn:?
    | |- context [match ?c with _ => _ end] => destruct c eqn:?
    end; cbn [fst snd] in *; try reflexivity; try discriminate.
Qed.

(* when the ideal operation is undefined: bad index, empty sequence, item not present *)
Definition undefined0 (l : list Z) (o : op) : Prop :=
  match o with
  | ORemoveHead | ORemoveTail => l = []
  | ORemoveAt i | OReplaceAt i _ | OGet i | OAddTailRef i | OAddHeadRef i | OInsertAtRef _ i => length l <= i
  | OReplaceRef idx i => length l <= idx \/ length l <= i
  | ORemoveFirstInstance x | ORemoveLastInstance x => ~ In x l
  | OEnsure n _ e _ => too_big n e = true                      (* the uint32 sum n+extra is out of range *)
  | OShrinkToFit e | OEnsureCanAdd e => too_big (N.of_nat (length l)) e = true
  | _ => False
  end.

Lemma find_from_none x l : forall s, find_from x l s = None <-> ~ In x l.
Proof.
  induction l as [|y l IH]; intros s; cbn [find_from In]; [tauto|].
  destruct (Z.eqb y x) eqn:E.
  - apply Z.eqb_eq in E. split; [discriminate|]. intros H. exfalso. apply H. left. exact E.
  - apply Z.eqb_neq in E. rewrite IH. tauto.
Qed.

(* the ideal operation answers "none" / "err" exactly when it is undefined (and then, by [step0]'s
   definition, returns the sequence unchanged) *)
Theorem step0_fails_iff l o :
  (snd (step0 l o) = OVal None \/ snd (step0 l o) = OStatus false) <-> undefined0 l o.
Proof.
  destruct o; cbn [step0 undefined0 snd];
    try (split; [intros [H|H];
                 repeat match type of H with context [if ?c then _ else _] => destruct c end;
                 discriminate H|tauto]).
  - (* RemoveHead *) destruct l; cbn [snd]; split; try tauto; try discriminate. intros [H|H]; discriminate H.
  - (* RemoveTail *)
    destruct (rev l) as [|x t] eqn:E; cbn [snd].
    + split; [intros _|tauto]. apply (f_equal (@rev Z)) in E. rewrite rev_involutive in E. exact E.
    + split; [intros [H|H]; discriminate H|]. intros ->. discriminate E.
  - (* RemoveItemAt *) destruct (i <? length l) eqn:E; cbn [snd]; split; try lia; try tauto. intros [H|H]; discriminate H.
  - (* ReplaceItemAt *) destruct (i <? length l) eqn:E; cbn [snd]; split; try lia; try tauto. intros [H|H]; discriminate H.
  - (* GetItemAt *) destruct (i <? length l) eqn:E; split; try lia; try tauto. intros [H|H]; discriminate H.
  - (* EnsureSize *)
    destruct (too_big n extra); cbn [snd]; split; try (intros _; reflexivity); try (intros _; right; reflexivity);
      try discriminate. intros [H|H]; discriminate H.
  - (* RemoveFirstInstanceOf *)
    destruct (find_from x l 0) eqn:E; cbn [snd].
    + split; [intros [H|H]; discriminate H|]. intros H. apply (find_from_none x l 0) in H. congruence.
    + split; [intros _|tauto]. apply (find_from_none x l 0). exact E.
  - (* RemoveLastInstanceOf *)
    destruct (find_from x (rev l) 0) eqn:E; cbn [snd].
    + split; [intros [H|H]; discriminate H|]. intros H. rewrite in_rev in H. apply (find_from_none x (rev l) 0) in H. congruence.
    + split; [intros _|tauto]. rewrite in_rev. apply (find_from_none x (rev l) 0). exact E.
  - (* AddTail(q[i]) *) destruct (i <? length l) eqn:E; cbn [snd]; split; try lia; try tauto. intros [H|H]; discriminate H.
  - (* AddHead(q[i]) *) destruct (i <? length l) eqn:E; cbn [snd]; split; try lia; try tauto. intros [H|H]; discriminate H.
  - (* InsertItemAt(idx, q[i]) *) destruct (i <? length l) eqn:E; cbn [snd]; split; try lia; try tauto. intros [H|H]; discriminate H.
  - (* ReplaceItemAt(idx, q[i]) *)
    destruct ((idx <? length l) && (i <? length l)) eqn:E; cbn [snd]; split; try lia; try tauto. intros [H|H]; discriminate H.
  - (* ShrinkToFit *)
    destruct (too_big (N.of_nat (length l)) extra); cbn [snd negb]; split; try (intros _; reflexivity);
      try (intros _; right; reflexivity); try discriminate. intros [H|H]; discriminate H.
  - (* EnsureCanAdd *)
    destruct (too_big (N.of_nat (length l)) n); cbn [snd negb]; split; try (intros _; reflexivity);
      try (intros _; right; reflexivity); try discriminate. intros [H|H]; discriminate H.
Qed.

Theorem step0_fail_unchanged l o :
  snd (step0 l o) = OVal None \/ snd (step0 l o) = OStatus false -> fst (step0 l o) = l.
Proof.
  destruct o; cbn [step0]; intros [H|H];
    repeat match goal with
    | H : context [match ?c with _ => _ end] |- _ => destruct c eqn:?
    | |- context [match ?c with _ => _ end] => destruct c eqn:?
    end; cbn [fst snd] in *; try reflexivity; try discriminate.
Qed.

(* ------------------------------------------------------------------ all operation lists *)

Lemma run_gen ops : forall q l outs, Inv q -> abs q = l ->
  let r1 := fold_left (fun '(q, outs) o => let '(q', r) := step1 q o in (q', outs ++ [r])) ops (q, outs) in
  let r0 := fold_left (fun '(l, outs) o => let '(l', r) := step0 l o in (l', outs ++ [r])) ops (l, outs) in
  Inv (fst r1) /\ abs (fst r1) = fst r0 /\ snd r1 = snd r0.
Proof.
  induction ops as [|o ops IH]; intros q l outs I A; cbn [fold_left].
  - cbn [fst snd]. auto.
  - destruct (step_refines q o I) as (J1&J2&J3). rewrite A in J2, J3.
    destruct (step1 q o) as [q' r]. destruct (step0 l o) as [l' r']. cbn [fst snd] in *. subst r'.
    apply IH; assumption.
Qed.

Theorem run_refines ops : 0 < sq ->
  Inv (fst (run1 ow jk sq ops)) /\
  abs (fst (run1 ow jk sq ops)) = fst (run0 ops) /\
  snd (run1 ow jk sq ops) = snd (run0 ops).
Proof.
  intros Hsq. unfold run1, run0. apply run_gen; [apply inv_empty; exact Hsq|reflexivity].
Qed.

Definition reachable (q : q1) : Prop := exists ops, fst (run1 ow jk sq ops) = q.

Theorem reachable_inv q : 0 < sq -> reachable q -> Inv q.
Proof. intros Hsq [ops <-]. apply (run_refines ops Hsq). Qed.

(* ------------------------------------------------------------------ no stale items *)

(* EnsureSize(n, setNumItems=true) growing the count: the old items are kept, every new item is the
   default item -- for owning and for trivial item types, whatever the junk value jk *)
Theorem no_stale_grow q n extra shrink : Inv q -> cnt q <= n ->
  let q' := ensure_size ow jk sq q n true extra shrink in
  cnt q' = n /\ (forall i, i < cnt q -> getu q' i = getu q i) /\
  (forall i, cnt q <= i < n -> getu q' i = dflt).
Proof.
  intros I Hn q'. destruct (ensure_size_spec jk sq ow q n true extra shrink I) as (J1&J2&_).
  fold q' in J1, J2. rewrite l0_resize_grow in J2 by (rewrite abs_length; lia). rewrite abs_length in J2.
  assert (C : cnt q' = n) by (rewrite <- (abs_length q'), J2; autorewrite with nthdb; lia).
  split; [exact C|]. split; intros i Hi.
  - rewrite (getu_abs q' i) by lia. rewrite J2, nth_app', abs_length.
    replace (i <? cnt q) with true by lia. apply nth_abs. lia.
  - rewrite (getu_abs q' i) by lia. rewrite J2, nth_app', abs_length, nth_repeat'.
    replace (i <? cnt q) with false by lia. dif; reflexivity.
Qed.

(* owning items: in every reachable state every slot outside the live window is the default item *)
Theorem no_stale_slots q : 0 < sq -> ow = true -> reachable q ->
  forall s, s < qsize q -> (forall i, i < cnt q -> intern q i <> s) -> nth s (arr q) dflt = dflt.
Proof.
  intros Hsq Ho R. apply (inv_outside_window ow sq); [apply reachable_inv; assumption|exact Ho].
Qed.

End Refinement.

(* what a user observes never depends on the junk an uninitialised slot holds *)
Theorem junk_independent ow sq jk1 jk2 ops : 0 < sq ->
  abs (fst (run1 ow jk1 sq ops)) = abs (fst (run1 ow jk2 sq ops)) /\
  snd (run1 ow jk1 sq ops) = snd (run1 ow jk2 sq ops).
Proof.
  intros Hsq. destruct (run_refines ow jk1 sq ops Hsq) as (_&A1&B1).
  destruct (run_refines ow jk2 sq ops Hsq) as (_&A2&B2). split; congruence.
Qed.

(* ------------------------------------------------------------------ non-vacuity *)

(* a reachable state with a wrapped-around window (head 1, tail 0) on the inline array ... *)
Example wrapped_state : exists q,
  reachable true 0%Z 3 q /\ inv true 3 q /\ st q = SSmall /\ cnt q = 3 /\ head q = 1 /\ tail q = 0.
Proof.
  set (ops := [OAddTail 1%Z; OAddTail 2%Z; OAddTail 3%Z; ORemoveHead; OAddTail 4%Z]).
  exists (fst (run1 true 0%Z 3 ops)).
  split; [exists ops; reflexivity|]. split; [apply run_refines; lia|]. vm_compute. auto.
Qed.

(* ... and one on a heap array with junk outside the window (trivial items) *)
Example heap_state : exists q,
  inv false 3 q /\ st q = SHeap /\ cnt q = 2 /\ In 77%Z (arr q) /\ ~ In 77%Z (abs q).
Proof.
  set (ops := [OEnsure 6%N false 0%N false; OAddHead 5%Z; OAddHead 6%Z]).
  exists (fst (run1 false 77%Z 3 ops)).
  split; [apply run_refines; lia|]. vm_compute. repeat split; auto.
  intros [H|[H|[]]]; discriminate.
Qed.
