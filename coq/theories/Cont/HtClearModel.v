(* C09 -- HashtableBase::Clear(releaseCachedBuffers), literally: every registered iterator is detached
   (with its scratch pair saved), then RemoveEntryByIndex(_iterHeadIdx) is called until the iteration
   list is empty, then the slot array is given up if requested.  HtModel.clear_tab is the effect of
   this loop; HtClear.v proves that the two agree. *)
From Coq Require Import List Arith ZArith NArith PArith FMapPositive.
From Muscle Require Import Cont.HtModel.
Import ListNotations.

(* while (_iterHeadIdx != INVALID) RemoveEntryByIndex(_iterHeadIdx) *)
Fixpoint clear_loop (h : ht) (I : itab) (fuel : nat) : ht * itab :=
  match fuel with
  | 0 => (h, I)
  | S f => match hd h with
           | Some e => let '(h1, I1) := remove_entry h I e in clear_loop h1 I1 f
           | None => (h, I)
           end
  end.

Definition clear_literal (dcap : N) (h : ht) (I : itab) (release : bool) : ht * itab :=
  let '(h2, I2) := clear_loop (with_ilist h []) (detach_all h I) (cnt h) in
  ((if release then with_cap h2 dcap else h2), I2).
