(* C16 -- the refinement theorem instantiated with the SMALL_QUEUE_SIZE translated from util/Queue.h
   (kept in its own file: it is the only part of the Queue development that depends on Gen/Consts.v). *)
From Coq Require Import List Arith ZArith NArith Bool Lia.
From Muscle Require Import Gen.Consts Cont.QueueModel Cont.QueueInv Cont.QueueProofs.
Import ListNotations.
Local Open Scope nat_scope.

(* ARRAYITEMS(_smallQueue) for the 4-byte items of the harness, as translated from util/Queue.h on every run; the theorems above hold
   for every positive size, this instance re-checks that the translated constant is positive *)
Definition small_queue_size : nat := N.to_nat c_QUEUE_INLINE_SLOTS_INT32.

Lemma small_queue_size_pos : 0 < small_queue_size.
Proof. vm_compute. lia. Qed.

Theorem run_refines_code_constant ow jk ops :
  inv ow small_queue_size (fst (run1 ow jk small_queue_size ops)) /\
  abs (fst (run1 ow jk small_queue_size ops)) = fst (run0 ops) /\
  snd (run1 ow jk small_queue_size ops) = snd (run0 ops).
Proof. apply run_refines. exact small_queue_size_pos. Qed.

