(* C09 -- exact effect of the MoveTo*Aux family on the represented list and on the iterators. *)
From Coq Require Import List Arith ZArith NArith PArith Bool Lia FMapPositive Permutation.
From Muscle Require Import Cont.HtModel Cont.HtLemmas Cont.HtRepr Cont.HtWalk Cont.HtIters Cont.HtTable Cont.HtMoves Cont.HtPut.
Import ListNotations.

(* the result of a move: table with list [l'], same data, iterators either untouched or patched *)
Definition moved (h : ht) (I : itab) (e : positive) (l l' : list positive) (r : ht * itab) : Prop :=
  tinv (fst r) l' /\ same_data h (fst r) /\ meta_eq h (fst r) /\
  ((l' = l /\ r = (h, I)) \/ (l' <> l /\ snd r = patch_all h e I)).

Lemma last_of_nil_iff : forall (l : list positive), last_of l = None <-> l = [].
Proof. intros l. split; [apply last_of_none|intros ->; reflexivity]. Qed.

Lemma nodup_split_unique : forall (a b p q : list positive) x,
  NoDup (a ++ x :: b) -> a ++ x :: b = p ++ x :: q -> p = a /\ q = b.
Proof.
  induction a as [|y a IH]; intros b p q x Hnd E.
  - destruct p as [|z p']; cbn in E.
    + injection E as Er. auto.
    + injection E as Ez Er. exfalso. cbn in Hnd. apply NoDup_cons_iff in Hnd. destruct Hnd as [Hx _].
      apply Hx. rewrite Er. apply in_or_app. right; left; reflexivity.
  - destruct p as [|z p']; cbn in E.
    + injection E as Ez Er. exfalso. cbn in Hnd. apply NoDup_cons_iff in Hnd. destruct Hnd as [Hx _].
      apply Hx. rewrite Ez. apply in_or_app. right; left; reflexivity.
    + injection E as Ez Er. cbn in Hnd. apply NoDup_cons_iff in Hnd. destruct Hnd as [_ Hr].
      destruct (IH b p' q x Hr Er) as [-> ->]. rewrite Ez. auto.
Qed.

Lemma move_front_exact : forall h I l1 l2 e, tinv h (l1 ++ e :: l2) ->
  moved h I e (l1 ++ e :: l2) (e :: l1 ++ l2) (move_front_aux h I e).
Proof.
  intros h I l1 l2 e T. unfold move_front_aux, moved.
  rewrite (prev_of_prefix h _ l1 e l2 (ti_linked _ _ T) eq_refl).
  destruct (last_of l1) as [p|] eqn:EL.
  - cbn [remove_iter_entry fst snd].
    destruct (tinv_move h l1 l2 [] (l1 ++ l2) e T eq_refl) as (T' & S & M). cbn [app last_of rev head_opt] in T'.
    split; [exact T'|split; [exact S|split; [exact M|right]]]. split; [|reflexivity].
    destruct l1 as [|x l1']; [discriminate|]. cbn [app]. intro H. inversion H; subst x.
    pose proof (lk_nodup _ _ (ti_linked _ _ T)) as Hnd. cbn [app] in Hnd. inversion Hnd as [|? ? Hx _]; subst.
    apply Hx. apply in_or_app. right. left. reflexivity.
  - apply last_of_none in EL. subst l1. cbn [app fst snd]. split; [exact T|split; [apply same_data_refl|split; [apply meta_eq_refl|left; auto]]].
Qed.

Lemma move_back_exact : forall h I l1 l2 e, tinv h (l1 ++ e :: l2) ->
  moved h I e (l1 ++ e :: l2) (l1 ++ l2 ++ [e]) (move_back_aux h I e).
Proof.
  intros h I l1 l2 e T. unfold move_back_aux, moved.
  rewrite (next_of_suffix h _ l1 e l2 (ti_linked _ _ T) eq_refl).
  destruct l2 as [|x l2'].
  - cbn [head_opt app fst snd]. split; [exact T|split; [apply same_data_refl|split; [apply meta_eq_refl|left; auto]]].
  - cbn [head_opt remove_iter_entry fst snd].
    destruct (unlink_linked h l1 (x :: l2') e (ti_linked _ _ T)) as (L1 & _).
    rewrite (lk_tl _ _ L1).
    destruct (tinv_move h l1 (x :: l2') (l1 ++ x :: l2') [] e T (eq_sym (app_nil_r _))) as (T' & S & M).
    rewrite <- app_assoc in T'. split; [exact T'|split; [exact S|split; [exact M|right]]]. split; [|reflexivity].
    intro H. apply app_inv_head in H. cbn [app] in H. inversion H; subst x.
    pose proof (lk_nodup _ _ (ti_linked _ _ T)) as Hnd. apply nodup_app_r in Hnd. inversion Hnd as [|? ? Hx _]; subst.
    apply Hx. left. reflexivity.
Qed.

Lemma move_before_exact : forall h I l1 l2 p q e f, tinv h (l1 ++ e :: l2) -> l1 ++ l2 = p ++ f :: q ->
  moved h I e (l1 ++ e :: l2) (p ++ e :: f :: q) (move_before_aux h I e f).
Proof.
  intros h I l1 l2 p q e f T E. unfold move_before_aux, moved.
  pose proof (lk_nodup _ _ (ti_linked _ _ T)) as Hnd. destruct (nodup_split_notin _ _ _ Hnd) as [Hn1 Hn2].
  rewrite (next_of_suffix h _ l1 e l2 (ti_linked _ _ T) eq_refl).
  destruct (opt_pos_eqb (head_opt l2) (Some f)) eqn:Eq.
  - apply opt_pos_eqb_true in Eq. destruct l2 as [|x l2']; [discriminate|]. inversion Eq; subst x.
    (* e is already right in front of f: then p = l1 *)
    assert (Ep : p = l1 /\ q = l2').
    { apply (nodup_split_unique l1 l2' p q f); [eapply nodup_remove_mid; exact Hnd|exact E]. }
    destruct Ep as [-> ->]. cbn [fst snd]. split; [exact T|split; [apply same_data_refl|split; [apply meta_eq_refl|left; auto]]].
  - cbn [remove_iter_entry fst snd].
    destruct (unlink_linked h l1 l2 e (ti_linked _ _ T)) as (L1 & _). rewrite E in L1.
    rewrite (prev_of_prefix _ _ p f q L1 eq_refl).
    destruct (tinv_move h l1 l2 p (f :: q) e T E) as (T' & S & M).
    split; [exact T'|split; [exact S|split; [exact M|right]]]. split; [|reflexivity].
    intro H. apply opt_pos_eqb_false in Eq. apply Eq.
    (* equal lists: the successor of e is f *)
    pose proof (lk_nodup _ _ (ti_linked _ _ T')) as Hnd'.
    assert (N1 : next_in (p ++ e :: f :: q) e = Some f).
    { apply (next_in_mid p e (f :: q)). apply (nodup_split_notin _ _ _ Hnd'). }
    rewrite H in N1. rewrite next_in_mid in N1 by exact Hn1. exact N1.
Qed.

Lemma move_behind_exact : forall h I l1 l2 p q e d, tinv h (l1 ++ e :: l2) -> l1 ++ l2 = p ++ d :: q ->
  moved h I e (l1 ++ e :: l2) (p ++ d :: e :: q) (move_behind_aux h I e d).
Proof.
  intros h I l1 l2 p q e d T E. unfold move_behind_aux, moved.
  pose proof (lk_nodup _ _ (ti_linked _ _ T)) as Hnd. destruct (nodup_split_notin _ _ _ Hnd) as [Hn1 Hn2].
  rewrite (prev_of_prefix h _ l1 e l2 (ti_linked _ _ T) eq_refl).
  assert (TM : tinv (insert_iter_entry (unlink h e) e (Some d)) (p ++ d :: e :: q) /\
               same_data h (insert_iter_entry (unlink h e) e (Some d)) /\ meta_eq h (insert_iter_entry (unlink h e) e (Some d))).
  { assert (E2 : l1 ++ l2 = (p ++ [d]) ++ q) by (rewrite <- app_assoc; exact E).
    pose proof (tinv_move h l1 l2 (p ++ [d]) q e T E2) as X. rewrite last_of_snoc, <- app_assoc in X. exact X. }
  destruct TM as (T' & S & M). pose proof (lk_nodup _ _ (ti_linked _ _ T')) as Hnd'.
  assert (P1 : prev_in (p ++ d :: e :: q) e = Some d).
  { assert (Er : p ++ d :: e :: q = (p ++ [d]) ++ e :: q) by (rewrite <- app_assoc; reflexivity).
    rewrite Er in Hnd' |- *. rewrite prev_in_mid; [apply last_of_snoc|]. apply (nodup_split_notin _ _ _ Hnd'). }
  destruct (opt_pos_eqb (last_of l1) (Some d)) eqn:Eq.
  - apply opt_pos_eqb_true in Eq. cbn [fst snd].
    (* already right behind d: the list is unchanged *)
    assert (El : p ++ d :: e :: q = l1 ++ e :: l2).
    { destruct (last_of_split _ _ _ Eq) as (l0 & ->). rewrite <- app_assoc in E. cbn [app] in E.
      assert (Hnd2 : NoDup (l0 ++ d :: l2)).
      { apply nodup_remove_mid in Hnd. rewrite <- app_assoc in Hnd. exact Hnd. }
      assert (Ep : p = l0 /\ q = l2) by (apply (nodup_split_unique l0 l2 p q d Hnd2 E)).
      destruct Ep as [-> ->]. rewrite <- app_assoc. reflexivity. }
    rewrite El. split; [exact T|split; [apply same_data_refl|split; [apply meta_eq_refl|left; auto]]].
  - cbn [remove_iter_entry fst snd].
    split; [exact T'|split; [exact S|split; [exact M|right]]]. split; [|reflexivity].
    intro H. apply opt_pos_eqb_false in Eq. apply Eq. rewrite H in P1. rewrite prev_in_mid in P1 by exact Hn1. exact P1.
Qed.

(* ------------------------------------------------------------------ MoveToPositionAux *)

Lemma last_of_firstn_S : forall (L : list positive) k, k < length L -> last_of (firstn (S k) L) = nth_error L k.
Proof.
  induction L as [|x L IH]; intros k Hk; [cbn in Hk; lia|].
  destruct k as [|k]; [reflexivity|]. cbn [length] in Hk.
  change (firstn (S (S k)) (x :: L)) with (x :: firstn (S k) L). cbn [nth_error].
  destruct L as [|y L']; [cbn in Hk; lia|].
  change (firstn (S k) (y :: L')) with (y :: firstn k L'). rewrite last_of_cons_cons.
  change (y :: firstn k L') with (firstn (S k) (y :: L')). apply IH. lia.
Qed.

Lemma last_of_firstn : forall (L : list positive) k, 1 <= k <= length L -> last_of (firstn k L) = nth_error L (k - 1).
Proof.
  intros L k [H1 H2]. destruct k as [|k]; [lia|]. replace (S k - 1) with k by lia. apply last_of_firstn_S. lia.
Qed.

Lemma nth_error_mid : forall (m1 m2 : list positive) e, nth_error (m1 ++ e :: m2) (length m1) = Some e.
Proof. intros. rewrite nth_error_app2 by lia. rewrite Nat.sub_diag. reflexivity. Qed.

Lemma nth_error_nodup_pos : forall (l1 l2 : list positive) e i, NoDup (l1 ++ e :: l2) ->
  nth_error (l1 ++ e :: l2) i = Some e -> i = length l1.
Proof.
  intros l1 l2 e i Hnd H. pose proof (nth_error_mid l1 l2 e) as H2.
  assert (Hi : i < length (l1 ++ e :: l2)) by (apply nth_error_Some; congruence).
  assert (Hj : length l1 < length (l1 ++ e :: l2)) by (rewrite app_length; cbn; lia).
  rewrite NoDup_nth_error in Hnd. apply Hnd; [exact Hi|congruence].
Qed.

Lemma move_pos_exact : forall h I l1 l2 e idx, tinv h (l1 ++ e :: l2) ->
  let L := l1 ++ l2 in
  let i := Nat.min idx (length L) in
  moved h I e (l1 ++ e :: l2) (firstn i L ++ e :: skipn i L) (move_pos_aux h I e idx).
Proof.
  intros h I l1 l2 e idx T L i.
  pose proof (lk_nodup _ _ (ti_linked _ _ T)) as Hnd.
  assert (Hc : cnt h = S (length L)) by (rewrite (ti_cnt _ _ T); unfold L; rewrite !app_length; cbn [length]; lia).
  unfold move_pos_aux. destruct (idx =? 0) eqn:E0.
  - apply Nat.eqb_eq in E0. subst idx. unfold i. cbn [Nat.min firstn skipn app]. apply move_front_exact. exact T.
  - apply Nat.eqb_neq in E0. destruct (cnt h <=? idx) eqn:E1.
    + apply Nat.leb_le in E1. assert (Ei : i = length L) by (unfold i; lia).
      clearbody i. subst i. rewrite firstn_all, skipn_all. unfold L. rewrite <- app_assoc. apply move_back_exact. exact T.
    + apply Nat.leb_gt in E1. assert (Ei : i = idx) by (unfold i; lia). clearbody i. subst i.
      rewrite (entry_at_linked h _ idx (ti_linked _ _ T) (ti_cnt _ _ T)).
      destruct (opt_pos_eqb (nth_error (l1 ++ e :: l2) idx) (Some e)) eqn:Eq.
      * apply opt_pos_eqb_true in Eq. pose proof (nth_error_nodup_pos l1 l2 e idx Hnd Eq) as Ep. subst idx.
        unfold L. rewrite firstn_app, firstn_all, Nat.sub_diag, skipn_app, skipn_all, Nat.sub_diag. cbn [firstn skipn app].
        rewrite app_nil_r. unfold moved. cbn [fst snd].
        split; [exact T|split; [apply same_data_refl|split; [apply meta_eq_refl|left; auto]]].
      * cbn [remove_iter_entry].
        destruct (unlink_linked h l1 l2 e (ti_linked _ _ T)) as (L1 & _ & M1 & _). fold L in L1.
        set (h1 := unlink h e) in *.
        assert (Ea : (if idx <? cnt h / 2 then nth_next h1 (hd h1) (idx - 1) else nth_prev h1 (tl h1) (cnt h - 1 - idx))
                     = last_of (firstn idx L)).
        { rewrite last_of_firstn by lia. destruct (idx <? cnt h / 2).
          - rewrite (lk_hd _ _ L1), (nth_next_suffix h1 L L1 (idx - 1) [] L eq_refl). apply head_skipn_nth_error.
          - rewrite (lk_tl _ _ L1), (nth_prev_prefix h1 L L1 _ L [] (eq_sym (app_nil_r L))).
            rewrite head_skipn_nth_error, nth_error_rev by lia. f_equal. lia. }
        rewrite Ea.
        destruct (tinv_move h l1 l2 (firstn idx L) (skipn idx L) e T (eq_sym (firstn_skipn idx L))) as (T' & S & M).
        unfold moved. cbn [fst snd]. split; [exact T'|split; [exact S|split; [exact M|right]]]. split; [|reflexivity].
        intro H. apply opt_pos_eqb_false in Eq. apply Eq. rewrite <- H.
        pose proof (nth_error_mid (firstn idx L) (skipn idx L) e) as N. rewrite firstn_length, Nat.min_l in N by lia. exact N.
Qed.
