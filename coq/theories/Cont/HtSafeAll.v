(* C09 -- the world invariant is preserved by EVERY operation; iterator safety and table consistency
   for all reachable worlds without restriction on the operations. *)
From Coq Require Import List Arith ZArith NArith PArith Bool Lia FMapPositive Permutation.
From Muscle Require Import Cont.HtModel Cont.HtStep Cont.HtLemmas Cont.HtRepr Cont.HtWalk Cont.HtIters
                           Cont.HtTable Cont.HtMoves Cont.HtPut Cont.HtInv Cont.HtInvIter Cont.HtSafe Cont.HtSwap.
Import ListNotations.

Section All.
Variable var : variant.
Variable dcap : N.

Theorem step1_WF : forall w o, WF w -> WF (fst (step1 var dcap w o)).
Proof.
  intros w o W. destruct (covered o) eqn:C; [apply step1_WF_covered; assumption|].
  destruct o; try discriminate C; cbn [step1].
  - (* SwapContents *)
    destruct (valid_t w t) eqn:V1; [apply valid_t_lt in V1|exact W].
    destruct (valid_t w u) eqn:V2; [apply valid_t_lt in V2|exact W]. cbn [andb].
    destruct (t =? u) eqn:E; [exact W|]. apply Nat.eqb_neq in E. cbn [fst].
    apply (WF_exchange w t u _ _ W V1 V2 E); repeat split.
  - (* move construction *)
    destruct (valid_t w t) eqn:V1; [apply valid_t_lt in V1|exact W].
    destruct (valid_t w u) eqn:V2; [apply valid_t_lt in V2|exact W]. cbn [andb].
    destruct (t =? u) eqn:E; [exact W|]. apply Nat.eqb_neq in E.
    pose proof (step1_WF_covered var dcap w (ODestroy t) W eq_refl) as W0. cbn [step1] in W0.
    apply Nat.ltb_lt in V1 as V1b. unfold valid_t in W0. rewrite V1b in W0.
    rewrite (surjective_pairing (clear_tab dcap (gett w t) (its w) true)) in W0 |- *.
    set (hold := fst (clear_tab dcap (gett w t) (its w) true)) in *. set (J0 := snd (clear_tab dcap (gett w t) (its w) true)) in *.
    cbn [fst] in W0 |- *.
    set (a0 := mkHt (PositiveMap.empty node) None None 0 dcap (fresh hold) true []) in *.
    set (w0 := put_ti w t a0 J0) in *.
    assert (V1' : t < length (tabs w0)) by (unfold w0; rewrite len_put; exact V1).
    assert (V2' : u < length (tabs w0)) by (unfold w0; rewrite len_put; exact V2).
    assert (Ga : gett w0 t = a0) by (apply gett_put_same; exact V1).
    assert (Gb : gett w0 u = gett w u) by (apply gett_put_other; exact E).
    set (b := gett w u) in *.
    pose proof (WF_exchange w0 t u
                  (mkHt (nodes b) (hd b) (tl b) (cnt b) (cap b) (fresh b) true (ilist b))
                  (mkHt (PositiveMap.empty node) None None 0 0 (fresh hold) (asort b) [])
                  W0 V1' V2' E) as X.
    rewrite Ga, Gb in X. specialize (X ltac:(repeat split) ltac:(repeat split)).
    cbn [ilist a0] in X. unfold a0 in X. cbn [ilist set_owners fold_left] in X.
    unfold w0, put_ti in X. cbn [tabs its] in X. rewrite upd_nth_upd_nth_same in X. exact X.
Qed.

Lemma run1_WF : forall ops w, WF w -> WF (run1 var dcap w ops).
Proof.
  induction ops as [|o ops IH]; intros w W; [exact W|]. cbn [run1 fold_left]. apply IH. apply step1_WF. exact W.
Qed.

Theorem iter_safe : forall nt ni ops,
  let w := run1 var dcap (init_world dcap nt ni) ops in
  forall i it c, geti (its w) i = Some it -> icookie it = Some c ->
    inoreg it = false /\
    exists t, iown it = Some t /\ t < length (tabs w) /\ In i (ilist (gett w t)) /\
              In c (ids (gett w t)) /\ kv_of (gett w t) c <> None.
Proof.
  intros nt ni ops w i it c Hg Hc.
  assert (W : WF w) by (apply run1_WF; apply WF_init).
  destruct (WF_cookie w i it c W Hg Hc) as [R (t & O & Ht & L)]. split; [exact R|]. exists t.
  destruct (tl_own _ _ _ (wf_tabs _ W t Ht) i it Hg O) as [A _].
  destruct (tl_tinv _ _ _ (wf_tabs _ W t Ht)) as (l & T).
  split; [exact O|split; [exact Ht|split; [apply A; exact R|split]]].
  - rewrite (tinv_ids _ l T). apply (ti_dom _ _ T). exact L.
  - rewrite (kv_of_live _ _ L). discriminate.
Qed.

(* what an iterator shows is its scratch copy or the pair of a live entry of its table *)
Theorem shown_safe : forall nt ni ops,
  let w := run1 var dcap (init_world dcap nt ni) ops in
  forall i kv, shown w i = Some kv ->
    exists it, geti (its w) i = Some it /\
      (iscr it = Some kv \/
       (iscr it = None /\ exists t c, iown it = Some t /\ icookie it = Some c /\ In c (ids (gett w t)) /\
                                      In kv (abs (gett w t)) /\ kv_of (gett w t) c = Some kv)).
Proof.
  intros nt ni ops w i kv Hs.
  assert (W : WF w) by (apply run1_WF; apply WF_init).
  unfold shown in Hs. destruct (geti (its w) i) as [it|] eqn:Hg; [|discriminate]. exists it. split; [reflexivity|].
  destruct (iscr it) as [s|] eqn:Es; [left; exact Hs|right]. split; [reflexivity|].
  destruct (iown it) as [t|] eqn:O; [|discriminate]. destruct (icookie it) as [c|] eqn:Ec; [|discriminate].
  exists t, c. destruct (WF_cookie w i it c W Hg Ec) as [R (t' & O' & Ht & L)]. rewrite O in O'. inversion O'; subst t'.
  destruct (tl_tinv _ _ _ (wf_tabs _ W t Ht)) as (l & T).
  split; [reflexivity|split; [reflexivity|split; [|split; [|exact Hs]]]].
  - rewrite (tinv_ids _ l T). apply (ti_dom _ _ T). exact L.
  - rewrite (tinv_abs _ l T). rewrite (kv_of_live _ _ L) in Hs. inversion Hs; subst. apply in_map. apply (ti_dom _ _ T). exact L.
Qed.

Theorem tables_consistent : forall nt ni ops,
  let w := run1 var dcap (init_world dcap nt ni) ops in
  forall t, t < length (tabs w) ->
    abs_back (gett w t) = rev (abs (gett w t)) /\ NoDup (map fst (abs (gett w t))) /\
    cnt (gett w t) = length (abs (gett w t)).
Proof.
  intros nt ni ops w t Ht.
  assert (W : WF w) by (apply run1_WF; apply WF_init).
  destruct (tl_tinv _ _ _ (wf_tabs _ W t Ht)) as (l & T).
  split; [apply (tinv_abs_back _ l T)|split].
  - rewrite (tinv_abs _ l T), map_map. apply (ti_keys _ _ T).
  - rewrite (tinv_abs _ l T), map_length. apply (ti_cnt _ _ T).
Qed.

End All.
