(* C16 -- Clear, Remove{Head,Tail}Multi, EnsureSizeAux, AddTail, AddHead:
   invariant preservation and effect on the abstract sequence. *)
From Coq Require Import List Arith ZArith Bool Lia ZifyBool.
From Muscle Require Import Cont.QueueModel Cont.QueueLemmas Cont.QueueInv.
Import ListNotations.
Local Open Scope nat_scope.

Section Ops1.
Variables (jk : Z) (sq : nat).
Implicit Types (ow : bool) (q : q1).

(* ------------------------------------------------------------------ Clear *)

Lemma clear_window_shape k : forall q, head q < qsize q -> k <= qsize q ->
  let q' := clear_window q k in
  st q' = st q /\ qsize q' = qsize q /\ cnt q' = cnt q /\ head q' = head q /\ tail q' = tail q /\
  inl q' = inl q /\
  forall i, i < qsize q -> getu q' i = if i <? k then dflt else getu q i.
Proof.
  induction k as [|k IH]; intros q Hh Hk; cbn [clear_window].
  - repeat split; reflexivity.
  - rewrite <- setu_set_raw.
    destruct (IH (setu q k dflt)) as (H1&H2&H3&H4&H5&H7&H6); autorewrite with qdb; try lia.
    autorewrite with qdb in *. repeat split; try assumption.
    intros i Hi. rewrite H6 by lia. rewrite getu_setu by lia. dif; fin.
Qed.

Lemma inv_fast_clear ow q : inv ow sq q ->
  (ow = true -> forall i, i < qsize q -> getu q i = dflt) -> inv ow sq (fast_clear q).
Proof.
  intros I H. unfold fast_clear. constructor; unfold store_ok, clean, inl_ok, qsize; cbn [st arr cnt head tail inl].
  - exact (inv_sq _ _ q I).
  - lia.
  - lia.
  - lia.
  - exact (inv_store _ _ q I).
  - intros Ho i Hi. unfold getu, intern, qsize. cbn [st arr cnt head tail]. cbv zeta.
    assert (Hh : head q < qsize q) by (apply (inv_head _ _ q I); unfold qsize; lia).
    replace (if 0 + i <? length (arr q) then 0 + i else 0 + i - length (arr q)) with i by (dif; lia).
    rewrite nth_arr_getu by (assumption || (unfold qsize; lia)).
    apply (H Ho). apply intern_extern; (assumption || (unfold qsize; lia)).
  - exact (inv_inl _ _ q I).
Qed.

Lemma cleared_ok ow q : inv ow sq q -> 0 < qsize q ->
  let X := (if ow then clear_window q (cnt q) else q) in
  inv ow sq X /\ st X = st q /\ qsize X = qsize q /\ inl X = inl q /\
  (ow = true -> forall i, i < qsize X -> getu X i = dflt).
Proof.
  intros I Hq X. subst X. destruct ow.
  - pose proof (inv_cnt _ _ q I) as Hc. pose proof (inv_head _ _ q I Hq) as Hh.
    destruct (clear_window_shape (cnt q) q Hh Hc) as (H1&H2&H3&H4&H5&H7&H6).
    split; [|split; [assumption|split; [assumption|split; [assumption|]]]].
    + apply (inv_same_shape _ _ q); try assumption. intros i Hi. rewrite H6 by lia. dif; fin.
    + intros _ i Hi. rewrite H2 in Hi. rewrite H6 by lia. dif; [reflexivity|].
      apply (inv_clean _ _ q I eq_refl). lia.
  - split; [assumption|]. repeat split. intros Ho. discriminate.
Qed.

Lemma inv_released ow q : inv ow sq q -> st q <> SSmall -> inv ow sq (released q).
Proof.
  intros I Hs. unfold released. constructor; unfold store_ok, clean, inl_ok, qsize; cbn [st arr cnt head tail inl length].
  - exact (inv_sq _ _ q I).
  - lia.
  - lia.
  - lia.
  - reflexivity.
  - intros _ i Hi. lia.
  - intros _. exact (inv_inl _ _ q I Hs).
Qed.

Lemma clear_shape ow q r : inv ow sq q ->
  let q' := clear ow q r in
  inv ow sq q' /\ cnt q' = 0 /\ inl q' = inl q /\ (r = false -> st q' = st q /\ qsize q' = qsize q).
Proof.
  intros I q'. subst q'. unfold clear.
  pose proof (inv_store _ _ q I) as S. unfold store_ok in S. pose proof (inv_sq _ _ q I) as Hsq.
  destruct (st q) eqn:Es.
  - destruct r.
    + split; [apply inv_released; [assumption|congruence]|split; [reflexivity|split; [reflexivity|discriminate]]].
    + split; [|split; [reflexivity|split; [reflexivity|intros _; split; [exact Es|reflexivity]]]].
      apply inv_fast_clear; [assumption|]. intros _ i Hi. lia.
  - destruct (cleared_ok ow q I ltac:(lia)) as (J1&J2&J3&J5&J4).
    split; [apply inv_fast_clear; assumption|]. split; [reflexivity|]. split; [exact J5|].
    intros _. cbn [fast_clear st]. unfold qsize in *. cbn [arr fast_clear]. split; congruence.
  - destruct r.
    + split; [apply inv_released; [assumption|congruence]|split; [reflexivity|split; [reflexivity|discriminate]]].
    + destruct (Nat.eq_dec (qsize q) 0) as [Hz|Hz].
      * (* an adopted heap array without slots *)
        assert (Hc0 : cnt q = 0) by (pose proof (inv_cnt _ _ q I); lia). rewrite Hc0. cbn [clear_window].
        replace (if ow then q else q) with q by (destruct ow; reflexivity).
        split; [apply inv_fast_clear; [assumption|intros _ i Hi; lia]|]. split; [reflexivity|]. split; [reflexivity|].
        intros _. split; [exact Es|reflexivity].
      * destruct (cleared_ok ow q I ltac:(lia)) as (J1&J2&J3&J5&J4).
        split; [apply inv_fast_clear; assumption|]. split; [reflexivity|]. split; [exact J5|].
        intros _. cbn [fast_clear st]. unfold qsize in *. cbn [arr fast_clear]. split; congruence.
Qed.

Lemma abs_cnt0 q : cnt q = 0 -> abs q = [].
Proof. intros H. unfold abs. rewrite H. reflexivity. Qed.

(* ------------------------------------------------------------------ RemoveTailMulti / RemoveHeadMulti *)

Lemma firstn_abs_all q n : cnt q <= n -> firstn n (abs q) = abs q.
Proof. intros H. apply firstn_all2. rewrite abs_length. exact H. Qed.

Lemma iter_remove_tail ow n : forall q, inv ow sq q -> n <= cnt q ->
  let q' := iter n (remove_tail ow) q in
  inv ow sq q' /\ abs q' = firstn (cnt q - n) (abs q) /\ cnt q' = cnt q - n /\
  st q' = st q /\ qsize q' = qsize q.
Proof.
  induction n as [|n IH]; intros q I Hn; cbn [iter].
  - rewrite Nat.sub_0_r, firstn_abs_all by lia. split; [assumption|]. repeat split; lia.
  - destruct (remove_tail_shape ow sq q I ltac:(lia)) as (Hs & Hq & Hc & _).
    destruct (IH (remove_tail ow q)) as (J1&J2&J3&J4&J5).
    + apply inv_remove_tail; [assumption|lia].
    + lia.
    + split; [assumption|]. split; [|split; [lia|split; congruence]].
      rewrite J2, (abs_remove_tail ow sq), firstn_firstn by (assumption || lia). f_equal. lia.
Qed.

Lemma remove_tail_multi_spec ow q n : inv ow sq q ->
  let r := remove_tail_multi ow q n in
  inv ow sq (fst r) /\ abs (fst r) = firstn (cnt q - n) (abs q) /\ snd r = Nat.min n (cnt q) /\
  cnt (fst r) = cnt q - n /\ st (fst r) = st q /\ qsize (fst r) = qsize q.
Proof.
  intros I r. subst r. unfold remove_tail_multi.
  destruct (Nat.min n (cnt q)) as [|m] eqn:Em.
  - cbn [fst snd]. rewrite firstn_abs_all by lia. split; [assumption|]. repeat split; lia.
  - destruct (S m =? cnt q) eqn:E1; [|destruct ow].
    + cbn [fst snd]. destruct (clear_shape ow q false I) as (J1&J2&_&J3).
      destruct (J3 eq_refl) as [J4 J5].
      replace (cnt q - n) with 0 by lia. rewrite abs_cnt0 by assumption.
      split; [assumption|]. repeat split; (assumption || lia).
    + cbn [fst snd]. destruct (iter_remove_tail true (S m) q I ltac:(lia)) as (J1&J2&J3&J4&J5).
      replace (cnt q - n) with (cnt q - S m) by lia.
      split; [assumption|]. repeat split; (assumption || lia).
    + cbn [fst snd].
      pose proof (inv_cnt _ _ q I). pose proof (inv_hd _ _ q I ltac:(lia)) as Hh.
      pose proof (inv_tail _ _ q I ltac:(lia)) as Ht.
      split; [|split; [|repeat split; cbn [cnt st]; try reflexivity; lia]].
      * constructor; unfold store_ok, clean, qsize; cbn [st arr cnt head tail].
        -- exact (inv_sq _ _ q I).
        -- unfold qsize in *. lia.
        -- exact (inv_head _ _ q I).
        -- intros _. rewrite Ht. qunf. difh; fin.
        -- exact (inv_store _ _ q I).
        -- discriminate.
        -- exact (inv_inl _ _ q I).
      * apply abs_ext; autorewrite with nthdb; cbn [cnt]; [lia|].
        intros i Hi. autorewrite with nthdb in Hi. rewrite nth_firstn', nth_abs by lia.
        dif; fin.
Qed.

Lemma iter_remove_head ow n : forall q, inv ow sq q -> n <= cnt q ->
  let q' := iter n (remove_head ow) q in
  inv ow sq q' /\ abs q' = skipn n (abs q) /\ cnt q' = cnt q - n /\
  st q' = st q /\ qsize q' = qsize q.
Proof.
  induction n as [|n IH]; intros q I Hn; cbn [iter].
  - split; [assumption|]. repeat split; lia.
  - destruct (remove_head_shape ow sq q I ltac:(lia)) as (Hs & Hq & Hc & _).
    destruct (IH (remove_head ow q)) as (J1&J2&J3&J4&J5).
    + apply inv_remove_head; [assumption|lia].
    + lia.
    + split; [assumption|]. split; [|split; [lia|split; congruence]].
      rewrite J2. rewrite (abs_remove_head ow sq q I) by lia. reflexivity.
Qed.

Lemma remove_head_multi_spec ow q n : inv ow sq q ->
  let r := remove_head_multi ow q n in
  inv ow sq (fst r) /\ abs (fst r) = skipn n (abs q) /\ snd r = Nat.min n (cnt q) /\
  cnt (fst r) = cnt q - n /\ st (fst r) = st q /\ qsize (fst r) = qsize q.
Proof.
  intros I r. subst r. unfold remove_head_multi.
  destruct (Nat.min n (cnt q)) as [|m] eqn:Em.
  - cbn [fst snd]. assert (n = 0 \/ cnt q = 0) as [->| Hz] by lia.
    + split; [assumption|]. repeat split; lia.
    + rewrite (abs_cnt0 q Hz), skipn_nil. split; [assumption|]. repeat split; lia.
  - destruct (S m =? cnt q) eqn:E1; [|destruct ow].
    + cbn [fst snd]. destruct (clear_shape ow q false I) as (J1&J2&_&J3).
      destruct (J3 eq_refl) as [J4 J5].
      rewrite skipn_all2 by (rewrite abs_length; lia). rewrite abs_cnt0 by assumption.
      split; [assumption|]. repeat split; (assumption || lia).
    + cbn [fst snd]. destruct (iter_remove_head true (S m) q I ltac:(lia)) as (J1&J2&J3&J4&J5).
      replace n with (S m) by lia.
      split; [assumption|]. repeat split; (assumption || lia).
    + cbn [fst snd].
      pose proof (inv_cnt _ _ q I). pose proof (inv_hd _ _ q I ltac:(lia)) as Hh.
      pose proof (inv_tail _ _ q I ltac:(lia)) as Ht.
      rewrite mod_intern by lia.
      split; [|split; [|repeat split; cbn [cnt st]; try reflexivity; lia]].
      * constructor; unfold store_ok, clean, qsize; cbn [st arr cnt head tail].
        -- exact (inv_sq _ _ q I).
        -- unfold qsize in *. lia.
        -- intros _. apply intern_lt; unfold qsize in *; lia.
        -- intros _. rewrite Ht. qunf. difh; fin.
        -- exact (inv_store _ _ q I).
        -- discriminate.
        -- exact (inv_inl _ _ q I).
      * apply abs_ext; autorewrite with nthdb; cbn [cnt]; [lia|].
        intros i Hi. autorewrite with nthdb in Hi. rewrite nth_skipn', nth_abs by lia.
        qunf. difh; fin.
Qed.

End Ops1.
