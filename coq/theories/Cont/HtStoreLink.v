(* C09 -- the storage layer and the ordered-map models say the same about Put / Get / Remove /
   EnsureSize: the ideal finite map that the storage model refines (HtStoreProofs.v) is the lookup
   function of the L0 association list, which the L1 model refines (HtRefine.v). *)
From Coq Require Import List Arith ZArith NArith PArith Bool Lia Permutation.
From Muscle Require Import Cont.HtModel Cont.HtStep Cont.HtIdeal Cont.HtLemmas Cont.HtIdealLaws Cont.HtInv Cont.HtSafeAll
                           Cont.HtRefine Cont.HtStore Cont.HtStoreProofs.
Import ListNotations.

Definition op_of_sop (o : sop) : op :=
  match o with
  | SPut k v => OPut 0 k v
  | SGet k => OGet 0 k
  | SRemove k => ORemove 0 k
  | SGrow n => OEnsure 0 (N.of_nat n) false
  end.

(* the value an operation returns (previous value of Put, value of Get, removed value of Remove) *)
Definition out_val (o : out) : option Z := match o with OVal v => v | _ => None end.

Lemma nodup_a_remove : forall (l : amap) k, NoDup (map fst l) -> NoDup (map fst (a_remove l k)).
Proof.
  induction l as [|[k' v] r IH]; intros k H; [constructor|]. cbn [a_remove]. cbn [map fst] in H. inversion H as [|? ? Hn Hr]; subst.
  destruct (Z.eqb k' k); [exact Hr|]. cbn [map fst]. constructor; [|apply IH; exact Hr].
  intro Hin. apply Hn. clear -Hin. induction r as [|[k2 v2] r IH]; [destruct Hin|]. cbn [a_remove] in Hin.
  destruct (Z.eqb k2 k); [right; exact Hin|]. cbn [map fst] in *. destruct Hin as [E|Hin]; [left; exact E|right; apply IH; exact Hin].
Qed.

Section Link.
Variable var : variant.
Variable dcap : N.

Lemma nodup_l0_put : forall x k v, NoDup (map fst (pairs x)) -> NoDup (map fst (pairs (fst (l0_put var dcap x k v)))).
Proof.
  intros x k v Hnd. pose proof (l0_put_perm var dcap x k v) as P.
  eapply Permutation_NoDup; [apply Permutation_map; exact P|].
  destruct (a_get (pairs x) k) as [old|] eqn:Eg; [rewrite keys_a_set; exact Hnd|].
  cbn [map fst]. constructor; [apply a_get_none_notin; exact Eg|exact Hnd].
Qed.

Lemma l0_put_old : forall x k v, snd (l0_put var dcap x k v) = a_get (pairs x) k.
Proof.
  intros x0 k v. unfold l0_put.
  assert (Ep : pairs (if N.eqb (acap x0) 0 then mkT0 (pairs x0) dcap (aasort x0) else x0) = pairs x0) by (destruct (N.eqb (acap x0) 0); reflexivity).
  rewrite Ep. destruct (a_get (pairs x0) k); reflexivity.
Qed.

(* one table of any class: the ideal finite map and the L0 model return the same values *)
Theorem fm_matches_l0 : forall ops (w0 : world0) f, 0 < length w0 ->
  NoDup (map fst (pairs (gett0 w0 0))) -> (forall k, f k = a_get (pairs (gett0 w0 0)) k) ->
  fm_run f ops = map out_val (outs0 var dcap w0 (map op_of_sop ops)).
Proof.
  induction ops as [|o r IH]; intros w0 f Hl Hnd Hf; [reflexivity|].
  assert (V : valid_t0 w0 0 = true) by (apply Nat.ltb_lt; exact Hl).
  cbn [fm_run map outs0].
  assert (G : forall x, gett0 (sett0 w0 0 x) 0 = x) by (intros x; unfold gett0, sett0; apply nth_upd_nth_same; exact Hl).
  assert (L : forall x, 0 < length (sett0 w0 0 x)) by (intros x; unfold sett0; rewrite upd_nth_length; exact Hl).
  destruct o as [k v|k|k|n]; cbn [fm_step op_of_sop step0]; rewrite ?V.
  - (* Put *) rewrite (surjective_pairing (l0_put var dcap (gett0 w0 0) k v)). cbn [fst snd map out_val].
    rewrite l0_put_old, <- Hf. f_equal. apply IH; [apply L|rewrite G; apply nodup_l0_put; exact Hnd|].
    intros k'. rewrite G. destruct (Z.eqb k' k) eqn:E.
    + apply Z.eqb_eq in E. subst k'. symmetry. apply l0_put_get_same. exact Hnd.
    + apply Z.eqb_neq in E. rewrite (l0_put_get_other var dcap _ k v k' Hnd E). apply Hf.
  - (* Get *) cbn [fst snd map out_val]. rewrite <- Hf. f_equal. apply IH; assumption.
  - (* Remove *) rewrite <- Hf. destruct (f k) as [v|] eqn:Ek; cbn [fst snd map out_val]; f_equal.
    + apply IH; [apply L|rewrite G; cbn [pairs with_pairs]; apply nodup_a_remove; exact Hnd|].
      intros k'. rewrite G. cbn [pairs with_pairs]. destruct (Z.eqb k' k) eqn:E.
      * apply Z.eqb_eq in E. subst k'. symmetry. apply a_remove_get_same. exact Hnd.
      * apply Z.eqb_neq in E. rewrite (a_remove_get_other _ k k' E). apply Hf.
    + apply IH; [exact Hl|exact Hnd|]. intros k'. destruct (Z.eqb k' k) eqn:E; [|apply Hf].
      apply Z.eqb_eq in E. subst k'. rewrite <- Hf. symmetry. exact Ek.
  - (* EnsureSize *) rewrite (surjective_pairing (l0_ensure dcap (gett0 w0 0) (N.of_nat n) false)). cbn [fst snd map out_val]. f_equal.
    apply IH; [apply L|rewrite G, l0_ensure_pairs; exact Hnd|]. intros k'. rewrite G, l0_ensure_pairs. apply Hf.
Qed.

Lemma sop_not_iter : forall ops, Forall (fun o => is_iter_op o = false) (map op_of_sop ops).
Proof. induction ops as [|o r IH]; constructor; [destruct o; reflexivity|exact IH]. Qed.

(* ... and so does the L1 model (one table, any number of iterators around) *)
Theorem fm_matches_l1 : forall ni ops,
  fm_run (fun _ => None) ops = map out_val (outs1 var dcap (init_world dcap 1 ni) (map op_of_sop ops)).
Proof.
  intros ni ops. destruct (init_refines var dcap 1 ni (map op_of_sop ops)) as [_ B]. rewrite (B (sop_not_iter ops)).
  apply fm_matches_l0; [cbn; lia|cbn; constructor|intros k; reflexivity].
Qed.

(* the storage layer -- slot array, bucket chains, MAP_TO/MAPPED_FROM, free list, rebuild on growth --
   returns, for every sequence of Put / Get / Remove / EnsureSize and every hash function, the values
   the L1 iteration-list model returns *)
Theorem storage_refines_l1 : forall (hashf : Z -> N) n ni ops, 0 < n ->
  st_run hashf (mkRun (st_create n) []) ops =
  map out_val (outs1 var dcap (init_world dcap 1 ni) (map op_of_sop ops)).
Proof. intros hashf n ni ops Hn. rewrite (st_run_correct hashf n ops Hn). apply fm_matches_l1. Qed.

End Link.
