(* C17 -- stepping the two levels: the level-0 semantics of every operation ([mutate0], [produce0], [step0]), what an
   observer sees of a level-1 output ([abs_out]), execution of operation lists, and de-aliasing of operands.
   (The level-1 step [step1] lives in StrModel.v next to the storage operations it is made of.)  No proofs here. *)
From Coq Require Import List NArith ZArith Bool.
From Muscle Require Import Cont.StrL0 Cont.StrModel.
Import ListNotations.
Local Open Scope N_scope.

(* ==================================================================== level 0 *)

Definition lit_of (self : list N) (a : sarg) : list N := match a with ALit b => b | ASelf => self end.
Definition clit_of (self : list N) (c : carg) : list N :=
  match c with CNull => [] | CLit b => b | CSelf off => dropN off self end.

Definition produce0 (l : list N) (o : op) : option out0 :=
  let sb := lit_of l in
  match o with
  | OCopy => Some (R0Str l)
  | OCopyPre _ => Some (R0Str l)
  | OSubstring f a => Some (R0Str (l0_sub l f a))
  | OSubstringAfter a =>
      Some (R0Str (match l0_last_index_of1 l (sb a) with
                   | Zneg _ => l
                   | z => l0_sub l (Z.to_N z + lenN (sb a)) NOLIMIT end))
  | OSubstringUntil f a =>
      Some (R0Str (l0_sub l f (u32 (Z.to_N (l0_index_of l (sb a) f + 4294967296)))))
  | OWithInsertS idx a max => Some (R0Str (l0_insert l idx (takeN max (sb a))))
  | OWithInsertCh idx ch count => Some (R0Str (if ch =? 0 then l else l0_insert l idx (repN ch count)))
  | OPadded m r ch => Some (R0Str (l0_padded l m r ch))
  | OLower => Some (R0Str (map to_lower l))
  | OUpper => Some (R0Str (map to_upper l))
  | OMixed => Some (R0Str (l0_mixed l))
  | OTrimmed => Some (R0Str (l0_trimmed l))
  | OWithReplCh a b max from => Some (R0Str (fst (l0_replace_ch l a b max from)))
  | OWithReplS rm wm max from => Some (R0Str (fst (l0_replace_sub l (sb rm) (sb wm) max from)))
  | OArgS a => Some (R0Str (l0_arg l (sb a)))
  | OArgInt z => Some (R0Str (l0_arg l (dec_of_Z z)))
  | OWithSuffixS a => Some (R0Str (if ends_with l (sb a) then l else l ++ sb a))
  | OWithPrefixS a => Some (R0Str (if starts_with l (sb a) then l else sb a ++ l))
  | OWithoutSuffixS a max => Some (R0Str (l0_without_suffix l (sb a) max))
  | OWithoutPrefixS a max => Some (R0Str (l0_without_prefix l (sb a) max))
  | OWithoutSuffixCh ch max => Some (R0Str (l0_without_suffix_ch l ch max))
  | OWithoutPrefixCh ch max => Some (R0Str (l0_without_prefix_ch l ch max))
  | OWithoutNumSuffix => let '(r, v) := l0_without_num_suffix l in Some (R0StrNat r v)
  | OPlusS a => Some (R0Str (l ++ sb a))
  | OWithSuffixCh ch => Some (R0Str (if (0 <? lenN l) && (nthN (lenN l - 1) l =? ch) then l
                                     else if ch =? 0 then l else l ++ [ch]))
  | OWithPrefixCh ch => Some (R0Str (if nthN 0 l =? ch then l else if ch =? 0 then l else ch :: l))
  | OWithoutSuffixSI a max => Some (R0Str (l0_without_suffix_nc l (sb a) max))
  | OWithoutPrefixSI a max => Some (R0Str (l0_without_prefix_nc l (sb a) max))
  | OWithoutSuffixChI ch max => Some (R0Str (strip_suffix_nc_fuel (S (length l)) l [ch] max))
  | OWithoutPrefixChI ch max => Some (R0Str (strip_ch_prefix_nc l ch max))
  | OWithWord idx a sep => Some (R0Str (l0_with_word l idx (sb a) sep))
  | OIndented n ch => Some (R0Str (l0_indented l n ch))
  | OArgFloatText buf m => Some (R0Str (l0_arg l (l0_float_text buf m)))
  | OWithReplMulti pairs m => Some (R0Str (fst (l0_replace_multi l pairs m)))
  | OPlusCh ch => Some (R0Str (l ++ [ch]))
  | OChPlus ch => Some (R0Str (cstr [ch] ++ l))
  | OCPlus lit => Some (R0Str (lit ++ l))
  | OMinusPS a => Some (R0Str (l0_minus l (sb a)))
  | OMinusPCh ch => Some (R0Str (l0_minus_ch l ch))
  | OEscaped seps esc => Some (R0Str (l0_escaped l seps esc))
  | _ => None
  end.

Definition mutate0 (l : list N) (o : op) : option (list N * out0) :=
  let sb := lit_of l in
  let cb := clit_of l in
  match o with
  | OSetCstr c m => Some (takeN m (cb c), R0St StOk)
  | OSetFrom a f t => Some (l0_sub (sb a) f t, R0St StOk)
  | OAppendS a => Some (l ++ sb a, R0None)
  | OAppendC c => Some (l ++ cb c, R0None)
  | OAppendCh ch => Some (l ++ [ch], R0None)
  | OInsertChars i c m => Some (l0_insert l i (takeN m (cb c)), R0St StOk)
  | OClear => Some ([], R0None)
  | OClearFlush => Some ([], R0None)
  | OPrealloc _ => Some (l, R0St StOk)
  | OShrink _ => Some (l, R0St StOk)
  | OTruncChars n => Some (l0_trunc_chars l n, R0None)
  | OTruncTo n => Some (l0_trunc_to l n, R0None)
  | OSwap _ x => Some (x, R0Str l)
  | OMinusCh ch => Some (l0_minus_ch l ch, R0None)
  | OMinusS a => Some (l0_minus l (sb a), R0None)
  | OMinusC c => Some (l0_minus l (cb c), R0None)
  | OReverse => Some (rev l, R0None)
  | OReplaceCh a b m f => let '(l', k) := l0_replace_ch l a b m f in Some (l', R0Nat k)
  | OReplaceS rm wm m f => let '(l', k) := l0_replace_sub l (sb rm) (sb wm) m f in Some (l', R0Int (Z.of_N k))
  | OUnflatten bytes => Some (if list_eqb (cstr bytes) bytes then (l, R0St StErr) else (cstr bytes, R0St StOk))
  | OUnflattenW arena win ps =>
      let r := run_pre arena win ps in
      Some (match read_cstr_w arena win r with
            | (None, r') => (l, R0Int (w_result false r'))
            | (Some v, r') => (v, R0Int (w_result true r'))
            end)
  | OReplaceMulti pairs m => let '(l', k) := l0_replace_multi l pairs m in Some (l', R0Int (Z.of_N k))
  | OSetAt i ch => Some (if i <? lenN l then upd l i ch else l, R0None)
  | OShiftInt z => Some (l ++ dec_of_Z z, R0None)
  | OShiftBool b => Some (l ++ (if b then [116;114;117;101] else [102;97;108;115;101]), R0None)
  | OIndexOfC c from => Some (l, R0Int (l0_index_of l (cb c) from))
  | OGetDistance a max => Some (l, R0Nat (l0_distance l (sb a) max))
  | OFlatten => Some (l, R0Bytes (l ++ [0]))
  | _ => None
  end.

Definition step0 (l : list N) (o : op) : list N * out0 :=
  match o with
  | OAssign o' => match produce0 l o' with
                  | Some (R0Str r) => (r, R0Str r)
                  | Some (R0StrNat r n) => (r, R0StrNat r n)
                  | _ => (l, R0None)
                  end
  | _ =>
    match mutate0 l o with
    | Some r => r
    | None => match produce0 l o with
              | Some r => (l, r)
              | None => match query l l o with
                        | Some r => (l, r)
                        | None => (l, R0None)
                        end
              end
    end
  end.

(* what an outside observer sees of a level-1 output *)
Definition abs_out (M : N) (o : out1) : out0 :=
  match o with
  | R1None => R0None | R1St s => R0St s | R1Int z => R0Int z | R1Nat n => R0Nat n | R1Bool b => R0Bool b
  | R1Bytes b => R0Bytes b | R1Str r => R0Str (abs M r) | R1StrNat r n => R0StrNat (abs M r) n
  end.

(* executing a list of operations, collecting the outputs *)
Fixpoint exec1 (M TH PG OV jk : N) (fixed : bool) (s : str1) (ops : list op) : str1 * list out1 :=
  match ops with
  | [] => (s, [])
  | o :: t => let '(s1, r) := step1 M TH PG OV jk fixed s o in
              let '(s2, rs) := exec1 M TH PG OV jk fixed s1 t in (s2, r :: rs)
  end.
Fixpoint exec0 (l : list N) (ops : list op) : list N * list out0 :=
  match ops with
  | [] => (l, [])
  | o :: t => let '(l1, r) := step0 l o in
              let '(l2, rs) := exec0 l1 t in (l2, r :: rs)
  end.

(* an operation with every aliasing operand replaced by a separate copy of the subject's bytes *)
Definition dealias_s (l : list N) (a : sarg) : sarg := match a with ASelf => ALit l | _ => a end.
Definition dealias_c (l : list N) (c : carg) : carg := match c with CSelf off => CLit (dropN off l) | _ => c end.
Fixpoint dealias (l : list N) (o : op) : op :=
  let S := dealias_s l in
  let C := dealias_c l in
  match o with
  | OSetCstr c m => OSetCstr (C c) m
  | OSetFrom a f t => OSetFrom (S a) f t
  | OAppendS a => OAppendS (S a) | OAppendC c => OAppendC (C c)
  | OInsertChars i c m => OInsertChars i (C c) m
  | OMinusS a => OMinusS (S a) | OMinusC c => OMinusC (C c)
  | OReplaceS a b m f => OReplaceS (S a) (S b) m f
  | OIndexOfS a f => OIndexOfS (S a) f | OIndexOfC c f => OIndexOfC (C c) f
  | OLastIndexOfS1 a => OLastIndexOfS1 (S a) | OLastIndexOfS a f => OLastIndexOfS (S a) f
  | OCountS a f => OCountS (S a) f
  | OStartsS a => OStartsS (S a) | OEndsS a => OEndsS (S a) | OStartsSI a => OStartsSI (S a) | OEndsSI a => OEndsSI (S a)
  | OCompare a => OCompare (S a) | OCompareI a => OCompareI (S a) | OEqualsI a => OEqualsI (S a)
  | OIndexOfSI a f => OIndexOfSI (S a) f | OLastIndexOfSI a f => OLastIndexOfSI (S a) f
  | OSubstringAfter a => OSubstringAfter (S a) | OSubstringUntil f a => OSubstringUntil f (S a)
  | OWithInsertS i a m => OWithInsertS i (S a) m
  | OWithReplS a b m f => OWithReplS (S a) (S b) m f
  | OArgS a => OArgS (S a)
  | OWithSuffixS a => OWithSuffixS (S a) | OWithPrefixS a => OWithPrefixS (S a)
  | OWithoutSuffixS a m => OWithoutSuffixS (S a) m | OWithoutPrefixS a m => OWithoutPrefixS (S a) m
  | OPlusS a => OPlusS (S a)
  | OWithoutSuffixSI a m => OWithoutSuffixSI (S a) m | OWithoutPrefixSI a m => OWithoutPrefixSI (S a) m
  | OWithWord i a sep => OWithWord i (S a) sep
  | OGetDistance a m => OGetDistance (S a) m
  | OMinusPS a => OMinusPS (S a)
  | ONumCmp a f => ONumCmp (S a) f
  | OAssign o' => OAssign (dealias l o')
  | _ => o
  end.
