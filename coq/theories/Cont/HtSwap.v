(* C09 -- SwapContents / move construction: two tables exchange their contents and their iterators. *)
From Coq Require Import List Arith ZArith NArith PArith Bool Lia FMapPositive Permutation.
From Muscle Require Import Cont.HtModel Cont.HtStep Cont.HtLemmas Cont.HtRepr Cont.HtWalk Cont.HtIters
                           Cont.HtTable Cont.HtMoves Cont.HtPut Cont.HtInv Cont.HtInvIter.
Import ListNotations.

Definition reown (t : nat) (it : iter) : iter := mkIter (Some t) (icookie it) (ibw it) (inoreg it) (iscr it).

Lemma set_owners_eq : forall I L t, set_owners I L t = map_its (reown t) L I.
Proof. reflexivity. Qed.

Definition same_content (h h' : ht) : Prop :=
  nodes h' = nodes h /\ hd h' = hd h /\ tl h' = tl h /\ cnt h' = cnt h /\ fresh h' = fresh h /\ ilist h' = ilist h.

Lemma tinv_same_content : forall h h' l, same_content h h' -> tinv h l -> tinv h' l.
Proof.
  intros h h' l (En & Eh & Et & Ec & Ef & Ei) [L C D F K].
  assert (G : forall y, getn h' y = getn h y) by (intros; unfold getn; rewrite En; reflexivity).
  constructor.
  - apply (linked_ext h h' l L); auto.
  - congruence.
  - intros e He. apply D. unfold live in *. rewrite <- G. exact He.
  - intros e He. rewrite Ef. apply F. unfold live in *. rewrite <- G. exact He.
  - assert (E : map (keyf h') l = map (keyf h) l) by (apply map_ext; intros; unfold keyf; rewrite (keyf_ext h h' _ (G a)); reflexivity).
    rewrite E. exact K.
Qed.

Lemma live_same_content : forall h h' c, same_content h h' -> (live h' c <-> live h c).
Proof. intros h h' c (En & _). unfold live, getn. rewrite En. tauto. Qed.

Lemma upd_nth_upd_nth_same : forall A (l : list A) i x y, upd_nth (upd_nth l i x) i y = upd_nth l i y.
Proof.
  intros A l i x y. destruct (Nat.lt_ge_cases i (length l)) as [Hl|Hg].
  - destruct l as [|d l']; [cbn in Hl; lia|]. apply (nth_ext _ _ d d).
    + rewrite !upd_nth_length. reflexivity.
    + intros n Hn. destruct (Nat.eq_dec n i) as [->|Hni].
      * rewrite !nth_upd_nth_same; rewrite ?upd_nth_length; auto.
      * rewrite !nth_upd_nth_other by congruence. reflexivity.
  - unfold upd_nth. apply Nat.ltb_ge in Hg. rewrite Hg, Hg. reflexivity.
Qed.

Section Exchange.
Variables (w : world) (t u : nat) (a' b' : ht).
Hypothesis W : WF w.
Hypothesis Ht : t < length (tabs w).
Hypothesis Hu : u < length (tabs w).
Hypothesis Htu : t <> u.
Let a := gett w t.
Let b := gett w u.
Hypothesis Sa : same_content b a'.
Hypothesis Sb : same_content a b'.

Let I1 := set_owners (set_owners (its w) (ilist b) t) (ilist a) u.
Let w' := mkW (upd_nth (upd_nth (tabs w) t a') u b') I1.

Lemma ex_disjoint : forall i, In i (ilist a) -> In i (ilist b) -> False.
Proof.
  intros i Ha Hb.
  destruct (tl_reg _ _ _ (wf_tabs _ W t Ht) i Ha) as (it & Hg & O & _).
  destruct (tl_reg _ _ _ (wf_tabs _ W u Hu) i Hb) as (it2 & Hg2 & O2 & _).
  fold a in Hg. rewrite Hg in Hg2. inversion Hg2; subst. rewrite O in O2. inversion O2. contradiction.
Qed.

Lemma ex_geti : forall i, geti I1 i =
  if in_dec Nat.eq_dec i (ilist a) then option_map (reown u) (geti (its w) i)
  else if in_dec Nat.eq_dec i (ilist b) then option_map (reown t) (geti (its w) i)
  else geti (its w) i.
Proof.
  intros i. unfold I1. rewrite !set_owners_eq.
  pose proof (tl_nodup _ _ _ (wf_tabs _ W t Ht)) as Na. pose proof (tl_nodup _ _ _ (wf_tabs _ W u Hu)) as Nb.
  fold a in Na. fold b in Nb.
  destruct (in_dec Nat.eq_dec i (ilist a)) as [Ha|Ha].
  - rewrite map_its_in by assumption. rewrite map_its_notin; [reflexivity|]. intro Hb. exact (ex_disjoint i Ha Hb).
  - rewrite map_its_notin by assumption. destruct (in_dec Nat.eq_dec i (ilist b)) as [Hb|Hb].
    + apply map_its_in; assumption.
    + apply map_its_notin; assumption.
Qed.

Lemma ex_len_tabs : length (tabs w') = length (tabs w).
Proof. unfold w'. cbn. rewrite !upd_nth_length. reflexivity. Qed.

Lemma ex_gett_t : gett w' t = a'.
Proof. unfold gett, w'. cbn. rewrite nth_upd_nth_other by congruence. apply nth_upd_nth_same. exact Ht. Qed.
Lemma ex_gett_u : gett w' u = b'.
Proof. unfold gett, w'. cbn. apply nth_upd_nth_same. rewrite upd_nth_length. exact Hu. Qed.
Lemma ex_gett_other : forall v, v <> t -> v <> u -> gett w' v = gett w v.
Proof. intros v H1 H2. unfold gett, w'. cbn. rewrite !nth_upd_nth_other by congruence. reflexivity. Qed.

(* the table that receives the contents of [src] (owned by [so]) under the new owner [dn] *)
Lemma ex_TL_recv : forall (src h' : ht) (so dn : nat),
  TL so src (its w) -> same_content src h' ->
  (forall i, In i (ilist src) -> geti I1 i = option_map (reown dn) (geti (its w) i)) ->
  (forall i it, geti I1 i = Some it -> iown it = Some dn -> ~ In i (ilist src) ->
       geti (its w) i = Some it /\ inoreg it = true) ->
  TL dn h' I1.
Proof.
  intros src h' so dn [HT Hnd Hreg Hown] S Hin Hout.
  destruct S as (En & Eh & Et & Ec & Ef & Ei). constructor.
  - destruct HT as (l & T). exists l. apply (tinv_same_content src h' l); [repeat split; assumption|exact T].
  - rewrite Ei. exact Hnd.
  - rewrite Ei. intros i Hi. destruct (Hreg i Hi) as (it & Hg & O & R). exists (reown dn it).
    rewrite (Hin i Hi), Hg. cbn. auto.
  - rewrite Ei. intros i it Hg O. destruct (in_dec Nat.eq_dec i (ilist src)) as [Hi|Hi].
    + rewrite (Hin i Hi) in Hg. destruct (geti (its w) i) as [it0|] eqn:Hg0; [|discriminate]. cbn in Hg. inversion Hg; subst it.
      destruct (Hreg i Hi) as (it1 & Hg1 & O1 & R1). rewrite Hg0 in Hg1. inversion Hg1; subst it1.
      destruct (Hown i it0 Hg0 O1) as [_ B]. split; [intros; exact Hi|].
      intros c Hc. cbn in Hc. destruct (B c Hc) as [R L]. split; [exact R|].
      unfold live, getn. rewrite En. exact L.
    + destruct (Hout i it Hg O Hi) as [Hg0 R]. split; [rewrite R; discriminate|].
      intros c Hc. exfalso.
      (* an unregistered iterator has no cookie *)
      pose proof (wf_its _ W i it Hg0) as P. rewrite O in P.
      destruct (tl_own _ _ _ (wf_tabs _ W dn P) i it Hg0 O) as [_ B]. destruct (B c Hc) as [R' _]. congruence.
Qed.

Lemma WF_exchange : WF w'.
Proof.
  pose proof (wf_tabs _ W t Ht) as TLa. pose proof (wf_tabs _ W u Hu) as TLb. fold a in TLa. fold b in TLb.
  constructor.
  - intros v Hv. rewrite ex_len_tabs in Hv. change (its w') with I1.
    destruct (Nat.eq_dec v t) as [->|Hvt]; [|destruct (Nat.eq_dec v u) as [->|Hvu]].
    + rewrite ex_gett_t. apply (ex_TL_recv b a' u t TLb Sa).
      * intros i Hi. rewrite ex_geti. destruct (in_dec Nat.eq_dec i (ilist a)) as [Ha|Ha]; [exfalso; exact (ex_disjoint i Ha Hi)|].
        destruct (in_dec Nat.eq_dec i (ilist b)); [reflexivity|contradiction].
      * intros i it Hg O Hni. rewrite ex_geti in Hg.
        destruct (in_dec Nat.eq_dec i (ilist a)) as [Ha|Ha].
        -- destruct (geti (its w) i); [|discriminate]. cbn in Hg. inversion Hg; subst. cbn in O. inversion O. congruence.
        -- destruct (in_dec Nat.eq_dec i (ilist b)); [contradiction|]. split; [exact Hg|].
           destruct (tl_own _ _ _ TLa i it Hg O) as [A _]. destruct (inoreg it); [reflexivity|]. exfalso. apply Ha. apply A. reflexivity.
    + rewrite ex_gett_u. apply (ex_TL_recv a b' t u TLa Sb).
      * intros i Hi. rewrite ex_geti. destruct (in_dec Nat.eq_dec i (ilist a)); [reflexivity|contradiction].
      * intros i it Hg O Hni. rewrite ex_geti in Hg.
        destruct (in_dec Nat.eq_dec i (ilist a)) as [Ha|Ha]; [contradiction|].
        destruct (in_dec Nat.eq_dec i (ilist b)) as [Hb|Hb].
        -- destruct (geti (its w) i); [|discriminate]. cbn in Hg. inversion Hg; subst. cbn in O. inversion O. congruence.
        -- split; [exact Hg|].
           destruct (tl_own _ _ _ TLb i it Hg O) as [A _]. destruct (inoreg it); [reflexivity|]. exfalso. apply Hb. apply A. reflexivity.
    + rewrite ex_gett_other by assumption. destruct (wf_tabs _ W v Hv) as [HT Hnd Hreg Hown]. constructor; try assumption.
      * intros i Hi. destruct (Hreg i Hi) as (it & Hg & O & R). exists it. split; [|auto]. rewrite ex_geti.
        destruct (in_dec Nat.eq_dec i (ilist a)) as [Ha|Ha].
        { destruct (tl_reg _ _ _ TLa i Ha) as (it2 & Hg2 & O2 & _). rewrite Hg in Hg2. inversion Hg2; subst. rewrite O in O2. inversion O2. congruence. }
        destruct (in_dec Nat.eq_dec i (ilist b)) as [Hb|Hb]; [|exact Hg].
        destruct (tl_reg _ _ _ TLb i Hb) as (it2 & Hg2 & O2 & _). rewrite Hg in Hg2. inversion Hg2; subst. rewrite O in O2. inversion O2. congruence.
      * intros i it Hg O. rewrite ex_geti in Hg.
        destruct (in_dec Nat.eq_dec i (ilist a)) as [Ha|Ha].
        { destruct (geti (its w) i); [|discriminate]. cbn in Hg. inversion Hg; subst. cbn in O. inversion O. congruence. }
        destruct (in_dec Nat.eq_dec i (ilist b)) as [Hb|Hb].
        { destruct (geti (its w) i); [|discriminate]. cbn in Hg. inversion Hg; subst. cbn in O. inversion O. congruence. }
        apply (Hown i it Hg O).
  - intros i it Hg. change (its w') with I1 in Hg. rewrite ex_len_tabs. rewrite ex_geti in Hg.
    destruct (in_dec Nat.eq_dec i (ilist a)) as [Ha|Ha].
    { destruct (geti (its w) i); [|discriminate]. cbn in Hg. inversion Hg; subst. cbn. exact Hu. }
    destruct (in_dec Nat.eq_dec i (ilist b)) as [Hb|Hb].
    { destruct (geti (its w) i); [|discriminate]. cbn in Hg. inversion Hg; subst. cbn. exact Ht. }
    apply (wf_its _ W i it Hg).
Qed.

End Exchange.
