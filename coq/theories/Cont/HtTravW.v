(* C09 -- traversal theory, world level: pending entries of an iterator, calm steps, and the
   no-skip / no-duplicate theorems for a traversal interleaved with calm mutations. *)
From Coq Require Import List Arith ZArith NArith PArith Bool Lia FMapPositive Permutation.
From Muscle Require Import Cont.HtModel Cont.HtStep Cont.HtIdeal Cont.HtLemmas Cont.HtRepr Cont.HtWalk Cont.HtIters
                           Cont.HtTable Cont.HtMoves Cont.HtPut Cont.HtExact Cont.HtPend Cont.HtTrav
                           Cont.HtInv Cont.HtInvIter Cont.HtSafe Cont.HtSwap Cont.HtSafeAll.
Import ListNotations.

Definition it_owner (w : world) (i : nat) : option nat :=
  match geti (its w) i with Some it => iown it | None => None end.
Definition it_list (w : world) (i : nat) : list positive :=
  match it_owner w i with Some t => ids (gett w t) | None => [] end.
Definition it_fresh (w : world) (i : nat) : positive :=
  match it_owner w i with Some t => fresh (gett w t) | None => 1%positive end.
Definition pending (w : world) (i : nat) : list positive :=
  match geti (its w) i with
  | Some it => match iown it with Some t => pend (ids (gett w t)) it | None => [] end
  | None => []
  end.
(* the entry the iterator shows right now, when it shows a live entry (not its scratch copy) *)
Definition cur (w : world) (i : nat) : option positive :=
  match geti (its w) i with
  | Some it => match iscr it, iown it with None, Some _ => icookie it | _, _ => None end
  | None => None
  end.
Definition it_bw (w : world) (i : nat) : option bool :=
  match geti (its w) i with Some it => Some (ibw it) | None => None end.

Record calm_rel (w w' : world) (i : nat) : Prop := mkCalm {
  cr_new : forall n, In n (it_list w' i) -> In n (it_list w i) \/ (it_fresh w i <= n)%positive;
  cr_fresh : it_owner w' i <> None -> (it_fresh w i <= it_fresh w' i)%positive;
  cr_keep : forall n, In n (pending w i) -> In n (it_list w' i) -> In n (pending w' i);
  cr_res : forall n, In n (pending w' i) -> In n (pending w i) \/ (it_fresh w i <= n)%positive;
  cr_det : it_owner w i = None -> it_owner w' i = None }.

Lemma pending_incl : forall w i n, WF w -> In n (pending w i) -> In n (it_list w i).
Proof.
  intros w i n W H. unfold pending, it_list, it_owner in *. destruct (geti (its w) i) as [it|] eqn:Hg; [|destruct H].
  destruct (iown it) as [t|] eqn:O; [|destruct H].
  destruct (pend_incl _ _ _ H) as [H1|H1]; [exact H1|].
  destruct (WF_cookie w i it n W Hg H1) as [_ (t' & O' & Ht & L)]. rewrite O in O'. inversion O'; subst t'.
  destruct (tl_tinv _ _ _ (wf_tabs _ W t Ht)) as (l & T). rewrite (tinv_ids _ l T). apply (ti_dom _ _ T). exact L.
Qed.

Lemma it_list_bound : forall w i n, WF w -> In n (it_list w i) -> (n < it_fresh w i)%positive.
Proof.
  intros w i n W H. unfold it_list, it_fresh, it_owner in *. destruct (geti (its w) i) as [it|] eqn:Hg; [|destruct H].
  destruct (iown it) as [t|] eqn:O; [|destruct H].
  pose proof (wf_its _ W i it Hg) as Ht. rewrite O in Ht.
  destruct (tl_tinv _ _ _ (wf_tabs _ W t Ht)) as (l & T). rewrite (tinv_ids _ l T) in H.
  apply (ti_fresh _ _ T). apply (lk_live _ _ (ti_linked _ _ T)). exact H.
Qed.

Lemma detached_empty : forall w i, it_owner w i = None -> it_list w i = [] /\ pending w i = [].
Proof.
  intros w i O. split.
  - unfold it_list. rewrite O. reflexivity.
  - unfold pending. unfold it_owner in O. destruct (geti (its w) i) as [it|]; [rewrite O; reflexivity|reflexivity].
Qed.

Lemma calm_rel_refl : forall w i, calm_rel w w i.
Proof. intros. constructor; auto. intros _. apply Pos.le_refl. Qed.

Lemma calm_rel_same : forall w w' i, geti (its w') i = geti (its w) i ->
  (forall t, it_owner w i = Some t -> ids (gett w' t) = ids (gett w t) /\ fresh (gett w' t) = fresh (gett w t)) ->
  calm_rel w w' i.
Proof.
  intros w w' i Hg Ht.
  assert (Eo : it_owner w' i = it_owner w i) by (unfold it_owner; rewrite Hg; reflexivity).
  assert (El : it_list w' i = it_list w i).
  { unfold it_list. rewrite Eo. destruct (it_owner w i) as [t|] eqn:O; [|reflexivity]. apply (Ht t eq_refl). }
  assert (Ef : it_fresh w' i = it_fresh w i).
  { unfold it_fresh. rewrite Eo. destruct (it_owner w i) as [t|] eqn:O; [|reflexivity]. apply (Ht t eq_refl). }
  assert (Ep : pending w' i = pending w i).
  { unfold pending. rewrite Hg. destruct (geti (its w) i) as [it|] eqn:Hgi; [|reflexivity].
    destruct (iown it) as [t|] eqn:O; [|reflexivity].
    assert (Oi : it_owner w i = Some t) by (unfold it_owner; rewrite Hgi; exact O).
    rewrite (proj1 (Ht t Oi)). reflexivity. }
  constructor; rewrite ?El, ?Ef, ?Ep, ?Eo; auto. intros _. apply Pos.le_refl.
Qed.

Lemma calm_rel_trans : forall w0 w1 w2 i, WF w0 -> calm_rel w0 w1 i -> calm_rel w1 w2 i -> calm_rel w0 w2 i.
Proof.
  intros w0 w1 w2 i W0 [N1 F1 K1 R1 D1] [N2 F2 K2 R2 D2].
  destruct (it_owner w1 i) as [t1|] eqn:O1.
  - assert (F01 : (it_fresh w0 i <= it_fresh w1 i)%positive) by (apply F1; congruence).
    constructor.
    + intros n Hn. destruct (N2 n Hn) as [H|H]; [apply N1; exact H|right; eapply Pos.le_trans; eassumption].
    + intros O2. eapply Pos.le_trans; [exact F01|apply F2; exact O2].
    + intros n Hp Hn2. apply K2; [|exact Hn2]. apply K1; [exact Hp|].
      destruct (N2 n Hn2) as [H|H]; [exact H|]. exfalso.
      pose proof (it_list_bound w0 i n W0 (pending_incl w0 i n W0 Hp)) as B. lia.
    + intros n Hn. destruct (R2 n Hn) as [H|H]; [apply R1; exact H|right; eapply Pos.le_trans; eassumption].
    + intros O0. discriminate (D1 O0).
  - pose proof (D2 eq_refl) as O2. destruct (detached_empty w2 i O2) as [El Ep].
    constructor.
    + rewrite El. intros n [].
    + intros H. contradiction.
    + rewrite El. intros n _ [].
    + rewrite Ep. intros n [].
    + intros _. exact O2.
Qed.

Lemma calm_rel_detached : forall w w' i, it_owner w i = None -> it_owner w' i = None -> calm_rel w w' i.
Proof.
  intros w w' i O O'. destruct (detached_empty w' i O') as [El Ep]. constructor.
  - rewrite El. intros n [].
  - intros H. contradiction.
  - rewrite El. intros n _ [].
  - rewrite Ep. intros n [].
  - intros _. exact O'.
Qed.

(* a step on table t in the [tscalm] relation is calm for every iterator of the world *)
Lemma calm_of_tstep : forall w t h' I', WF w -> t < length (tabs w) ->
  frame t (its w) I' -> tscalm t (gett w t) (its w) h' I' ->
  forall i, calm_rel w (put_ti w t h' I') i.
Proof.
  intros w t h' I' W Ht F S i.
  destruct (geti (its w) i) as [it|] eqn:Hg.
  - destruct (iown it) as [u|] eqn:O.
    + destruct (Nat.eq_dec u t) as [->|Hut].
      * destruct (S i it Hg O) as (it' & Hg' & Rg' & [[O' C]|[O' K']]).
        -- (* stays with table t *)
           assert (Eo : it_owner w i = Some t) by (unfold it_owner; rewrite Hg; exact O).
           assert (Eo' : it_owner (put_ti w t h' I') i = Some t) by (unfold it_owner; rewrite its_put, Hg'; exact O').
           assert (El : it_list w i = ids (gett w t)) by (unfold it_list; rewrite Eo; reflexivity).
           assert (El' : it_list (put_ti w t h' I') i = ids h') by (unfold it_list; rewrite Eo', gett_put_same by exact Ht; reflexivity).
           assert (Ef : it_fresh w i = fresh (gett w t)) by (unfold it_fresh; rewrite Eo; reflexivity).
           assert (Ef' : it_fresh (put_ti w t h' I') i = fresh h') by (unfold it_fresh; rewrite Eo', gett_put_same by exact Ht; reflexivity).
           assert (Ep : pending w i = pend (ids (gett w t)) it) by (unfold pending; rewrite Hg, O; reflexivity).
           assert (Ep' : pending (put_ti w t h' I') i = pend (ids h') it') by (unfold pending; rewrite its_put, Hg', O', gett_put_same by exact Ht; reflexivity).
           destruct C as [Cf Cn Ck Cr Cb]. constructor; rewrite ?El, ?El', ?Ef, ?Ef', ?Ep, ?Ep'; auto.
           intros H. rewrite Eo in H. discriminate.
        -- (* detached *)
           assert (Eo' : it_owner (put_ti w t h' I') i = None) by (unfold it_owner; rewrite its_put, Hg'; exact O').
           destruct (detached_empty _ i Eo') as [El Ep]. constructor.
           ++ rewrite El. intros n [].
           ++ intros H. contradiction.
           ++ rewrite El. intros n _ [].
           ++ rewrite Ep. intros n [].
           ++ intros _. exact Eo'.
      * apply calm_rel_same.
        -- rewrite its_put, Hg. apply (fr_other _ _ _ F i it Hg). rewrite O. intro H; inversion H; contradiction.
        -- intros u' Ou. unfold it_owner in Ou. rewrite Hg, O in Ou. inversion Ou; subst u'. rewrite gett_put_other by congruence. auto.
    + apply calm_rel_same.
      * rewrite its_put, Hg. apply (fr_other _ _ _ F i it Hg). rewrite O. discriminate.
      * intros u' Ou. unfold it_owner in Ou. rewrite Hg, O in Ou. discriminate.
  - apply calm_rel_same.
    + rewrite its_put, Hg. apply (fr_none _ _ _ F i Hg).
    + intros u' Ou. unfold it_owner in Ou. rewrite Hg in Ou. discriminate.
Qed.

(* the designated iterator is a registered one (its NOREGISTER flag is off) *)
Definition reg (w : world) (i : nat) : Prop := exists it, geti (its w) i = Some it /\ inoreg it = false.

Lemma reg_of_tstep : forall w t h' I', frame t (its w) I' -> tscalm t (gett w t) (its w) h' I' ->
  forall i, reg w i -> reg (put_ti w t h' I') i.
Proof.
  intros w t h' I' F S i (it & Hg & R). rewrite its_put || idtac. unfold reg. rewrite its_put.
  destruct (iown it) as [u|] eqn:O.
  - destruct (Nat.eq_dec u t) as [->|Hut].
    + destruct (S i it Hg O) as (it' & Hg' & Rg' & _). exists it'. split; [exact Hg'|congruence].
    + exists it. split; [|exact R]. apply (fr_other _ _ _ F i it Hg). rewrite O. intro H; inversion H; contradiction.
  - exists it. split; [|exact R]. apply (fr_other _ _ _ F i it Hg). rewrite O. discriminate.
Qed.

Lemma calm_rel_eqs : forall w w' i,
  it_list w' i = it_list w i -> it_fresh w' i = it_fresh w i -> pending w' i = pending w i ->
  (it_owner w i = None -> it_owner w' i = None) -> calm_rel w w' i.
Proof.
  intros w w' i El Ef Ep D. constructor; rewrite ?El, ?Ef, ?Ep; auto. intros _. apply Pos.le_refl.
Qed.

Lemma ids_same_content : forall h h', same_content h h' -> ids h' = ids h /\ fresh h' = fresh h.
Proof. intros h h' (En & Eh & Et & Ec & Ef & Ei). split; [apply ids_congr; assumption|exact Ef]. Qed.

Lemma calm_exchange : forall w t u a' b', WF w -> t < length (tabs w) -> u < length (tabs w) -> t <> u ->
  same_content (gett w u) a' -> same_content (gett w t) b' ->
  forall i, reg w i ->
  let w' := mkW (upd_nth (upd_nth (tabs w) t a') u b')
                (set_owners (set_owners (its w) (ilist (gett w u)) t) (ilist (gett w t)) u) in
  calm_rel w w' i /\ reg w' i.
Proof.
  intros w t u a' b' W Ht Hu Htu Sa Sb i (it & Hg & R) w'.
  assert (G : geti (its w') i =
              (if in_dec Nat.eq_dec i (ilist (gett w t)) then option_map (reown u) (geti (its w) i)
               else if in_dec Nat.eq_dec i (ilist (gett w u)) then option_map (reown t) (geti (its w) i)
               else geti (its w) i)) by (apply (ex_geti w t u W Ht Hu Htu i)).
  assert (Gt : gett w' t = a') by (apply (ex_gett_t w t u a' b' Ht Htu)).
  assert (Gu : gett w' u = b') by (apply (ex_gett_u w t u a' b' Hu)).
  destruct (ids_same_content _ _ Sa) as [Ia Fa]. destruct (ids_same_content _ _ Sb) as [Ib Fb].
  rewrite Hg in G.
  destruct (in_dec Nat.eq_dec i (ilist (gett w t))) as [Ha|Ha].
  - cbn [option_map] in G. destruct (tl_reg _ _ _ (wf_tabs _ W t Ht) i Ha) as (it0 & Hg0 & O & _). rewrite Hg in Hg0. inversion Hg0; subst it0.
    split; [|exists (reown u it); split; [exact G|exact R]]. apply calm_rel_eqs.
    + unfold it_list, it_owner. rewrite G, Hg. cbn [iown reown]. rewrite O, Gu. exact Ib.
    + unfold it_fresh, it_owner. rewrite G, Hg. cbn [iown reown]. rewrite O, Gu. exact Fb.
    + unfold pending. rewrite G, Hg. cbn [iown reown]. rewrite O, Gu, Ib. reflexivity.
    + unfold it_owner. rewrite Hg, O. discriminate.
  - destruct (in_dec Nat.eq_dec i (ilist (gett w u))) as [Hb|Hb].
    + cbn [option_map] in G. destruct (tl_reg _ _ _ (wf_tabs _ W u Hu) i Hb) as (it0 & Hg0 & O & _). rewrite Hg in Hg0. inversion Hg0; subst it0.
      split; [|exists (reown t it); split; [exact G|exact R]]. apply calm_rel_eqs.
      * unfold it_list, it_owner. rewrite G, Hg. cbn [iown reown]. rewrite O, Gt. exact Ia.
      * unfold it_fresh, it_owner. rewrite G, Hg. cbn [iown reown]. rewrite O, Gt. exact Fa.
      * unfold pending. rewrite G, Hg. cbn [iown reown]. rewrite O, Gt, Ia. reflexivity.
      * unfold it_owner. rewrite Hg, O. discriminate.
    + split; [|exists it; split; [exact G|exact R]].
      apply calm_rel_same; [rewrite Hg; exact G|].
      intros v Ov. unfold it_owner in Ov. rewrite Hg in Ov.
      pose proof (wf_its _ W i it Hg) as Hv. rewrite Ov in Hv.
      destruct (tl_own _ _ _ (wf_tabs _ W v Hv) i it Hg Ov) as [A _]. specialize (A R).
      assert (Hvt : v <> t) by (intro Ev; rewrite Ev in A; contradiction). assert (Hvu : v <> u) by (intro Ev; rewrite Ev in A; contradiction).
      assert (Go : gett w' v = gett w v) by (apply (ex_gett_other w t u a' b' v Hvt Hvu)). rewrite Go. auto.
Qed.

(* a step on table t that detaches every registered iterator of t (Clear and everything built on it)
   is calm for every registered iterator: those of t are detached, the others are untouched *)
Lemma calm_of_detaching : forall w t h' I' i, WF w -> t < length (tabs w) -> frame t (its w) I' ->
  (forall j it, geti (its w) j = Some it -> iown it = Some t -> inoreg it = false ->
      exists it', geti I' j = Some it' /\ iown it' = None /\ inoreg it' = false) ->
  reg w i -> calm_rel w (put_ti w t h' I') i /\ reg (put_ti w t h' I') i.
Proof.
  intros w t h' I' i W Ht F D (it & Hg & R).
  destruct (iown it) as [u|] eqn:O.
  - destruct (Nat.eq_dec u t) as [->|Hut].
    + destruct (D i it Hg O R) as (it' & Hg' & O' & R').
      assert (Eo' : it_owner (put_ti w t h' I') i = None) by (unfold it_owner; rewrite its_put, Hg'; exact O').
      destruct (detached_empty _ i Eo') as [El Ep].
      split; [|exists it'; rewrite its_put; auto]. constructor.
      * rewrite El. intros n [].
      * intros H. contradiction.
      * rewrite El. intros n _ [].
      * rewrite Ep. intros n [].
      * intros _. exact Eo'.
    + assert (E : geti I' i = Some it) by (apply (fr_other _ _ _ F i it Hg); rewrite O; intro H; inversion H; contradiction).
      split; [|exists it; rewrite its_put; auto]. apply calm_rel_same; [rewrite its_put, Hg; exact E|].
      intros u' Ou. unfold it_owner in Ou. rewrite Hg, O in Ou. inversion Ou; subst u'. rewrite gett_put_other by congruence. auto.
  - assert (E : geti I' i = Some it) by (apply (fr_other _ _ _ F i it Hg); rewrite O; discriminate).
    split; [|exists it; rewrite its_put; auto]. apply calm_rel_same; [rewrite its_put, Hg; exact E|].
    intros u' Ou. unfold it_owner in Ou. rewrite Hg, O in Ou. discriminate.
Qed.

(* Clear detaches every registered iterator, and a later frame keeps it detached *)
Lemma clear_detaches : forall t dcap h I release, TL t h I ->
  forall j it, geti I j = Some it -> iown it = Some t -> inoreg it = false ->
    exists it', geti (snd (clear_tab dcap h I release)) j = Some it' /\ iown it' = None /\ inoreg it' = false.
Proof.
  intros t dcap h I release HTL j it Hg O R. unfold clear_tab. cbn [snd]. rewrite detach_all_eq.
  destruct (tl_own _ _ _ HTL j it Hg O) as [A _]. specialize (A R).
  rewrite map_its_in by (try apply (tl_nodup _ _ _ HTL); assumption). rewrite Hg. cbn [option_map].
  exists (detach_iter h it). split; [reflexivity|split; [reflexivity|exact R]].
Qed.

Lemma detached_through_frame : forall t I1 I2 j it', frame t I1 I2 -> geti I1 j = Some it' -> iown it' = None ->
  geti I2 j = Some it'.
Proof. intros t I1 I2 j it' F Hg O. apply (fr_other _ _ _ F j it' Hg). rewrite O. discriminate. Qed.
