(* C17 -- GetDistanceTo: the early exit of the repaired code (leave the row loop once the minimum of a row has
   reached maxResult) does not change the capped Levenshtein distance, because the minimum of a row never
   decreases from one row to the next. *)
From Coq Require Import List NArith ZArith Bool Lia.
From Muscle Require Import Cont.StrL0 Cont.StrLemmas.
Import ListNotations.
Local Open Scope N_scope.

Definition all_ge (m : N) (l : list N) : Prop := Forall (fun e => m <= e) l.

Lemma lev_row_ge m up a c left diag :
  all_ge m up -> m <= left -> m <= diag -> all_ge m (lev_row up a c left diag).
Proof.
  revert a left diag. induction up as [|u up IH]; intros a left diag Hu Hl Hd; destruct a as [|ay a]; cbn [lev_row]; try constructor.
  all: inversion Hu; subst.
  - destruct (ay =? c); lia.
  - apply IH; trivial. destruct (ay =? c); lia.
Qed.

(* the next row is bounded below by what bounds this row (whose first entry is x) *)
Lemma next_row_ge m a c x rest :
  all_ge m (x :: rest) -> all_ge m ((x + 1) :: lev_row rest a c (x + 1) x).
Proof.
  intros H. inversion H; subst. constructor; [lia|]. apply lev_row_ge; trivial. lia.
Qed.

Lemma lev_rows_ge m a b : forall x rest, all_ge m (x :: rest) ->
  exists rest', lev_rows a b x (x :: rest) = (x + lenN b) :: rest' /\ all_ge m ((x + lenN b) :: rest').
Proof.
  induction b as [|c t IH]; intros x rest H; cbn [lev_rows tl hd].
  - exists rest. rewrite lenN_nil, N.add_0_r. split; trivial.
  - destruct (IH (x + 1) (lev_row rest a c (x + 1) x) (next_row_ge m a c x rest H)) as (rest' & E & G).
    exists rest'. rewrite lenN_cons. replace (x + (lenN t + 1)) with (x + 1 + lenN t) by lia. split; trivial.
Qed.

Lemma last_ge m l : l <> [] -> all_ge m l -> m <= last l 0.
Proof.
  intros Ne H. induction H as [|e l He Hl IH]; [congruence|].
  destruct l as [|e2 l]; [exact He|]. cbn [last]. apply IH. discriminate.
Qed.

Lemma fold_min_le b l : fold_right N.min b l <= b /\ all_ge (fold_right N.min b l) l.
Proof.
  induction l as [|e l [IH1 IH2]]; cbn [fold_right]; [split; [lia|constructor]|].
  set (F := fold_right N.min b l) in *. clearbody F.
  split; [lia|]. constructor; [lia|]. eapply Forall_impl; [|exact IH2]. cbn beta. intros x Hx. lia.
Qed.

Lemma lev_rows_exit_eq a b max : forall x rest,
  N.min (last (lev_rows_exit true a b x (x :: rest) max) 0) max = N.min (last (lev_rows a b x (x :: rest)) 0) max.
Proof.
  induction b as [|c t IH]; intros x rest; cbn [lev_rows_exit lev_rows tl hd]; [reflexivity|].
  set (row' := (x + 1) :: lev_row rest a c (x + 1) x).
  destruct (max <=? fold_right N.min (x + 1) row') eqn:E; [|apply IH].
  apply N.leb_le in E.
  destruct (fold_min_le (x + 1) row') as [_ G].
  assert (Gm : all_ge max row') by (eapply Forall_impl; [|exact G]; cbn beta; intros e0 He0; lia).
  assert (L1 : max <= last row' 0) by (apply last_ge; [discriminate|exact Gm]).
  destruct (lev_rows_ge max a t (x + 1) (lev_row rest a c (x + 1) x) Gm) as (rest' & Er & Gr).
  fold row' in Er. rewrite Er.
  assert (L2 : max <= last ((x + 1 + lenN t) :: rest') 0) by (apply last_ge; [discriminate|exact Gr]).
  lia.
Qed.

(* the repaired code computes the level-0 capped distance *)
Theorem distance_code_fixed a b max : distance_code true a b max = l0_distance a b max.
Proof.
  unfold distance_code, l0_distance, lev.
  destruct (lenN b <? lenN a); cbn [iotaN]; apply lev_rows_exit_eq.
Qed.
