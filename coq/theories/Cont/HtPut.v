(* C09 -- preservation of the table-local invariant by sorting (relink), PutAux (all three classes),
   MoveIterationEntryToCorrectPosition, CopyFrom, multi-removal. *)
From Coq Require Import List Arith ZArith NArith PArith Bool Lia FMapPositive Permutation.
From Muscle Require Import Cont.HtModel Cont.HtStep Cont.HtLemmas Cont.HtRepr Cont.HtWalk Cont.HtIters Cont.HtTable Cont.HtMoves.
Import ListNotations.

(* ------------------------------------------------------------------ relink *)

Lemma relink_from_spec : forall l h p, NoDup l -> (forall y, In y l -> live h y) ->
  let h' := relink_from h p l in
  (forall y, In y l -> get_prev h' y = prev_from p l y /\ get_next h' y = next_in l y) /\
  (forall y, ~ In y l -> get_prev h' y = get_prev h y /\ get_next h' y = get_next h y) /\
  tl h' = (match last_of l with Some z => Some z | None => p end) /\ hd h' = hd h /\
  same_data h h' /\ meta_eq h h'.
Proof.
  induction l as [|e r IH]; intros h p Hnd Hl.
  - cbn. repeat split; auto; intros; try tauto.
  - inversion Hnd as [|? ? Her Hnd']; subst.
    set (h1 := set_next (set_prev h e p) e (head_opt r)).
    assert (Le : live h e) by (apply Hl; left; reflexivity).
    assert (S1 : same_data h h1) by (eapply same_data_trans; [apply same_data_set_prev|apply same_data_set_next]).
    assert (M1 : meta_eq h h1) by (eapply meta_eq_trans; [apply meta_set_prev|apply meta_set_next]).
    assert (Hl1 : forall y, In y r -> live h1 y) by (intros y Hy; apply S1; apply Hl; right; exact Hy).
    specialize (IH h1 (Some e) Hnd' Hl1). cbn zeta in IH. destruct IH as (A & B & C & D & S2 & M2).
    cbn [relink_from]. fold h1.
    assert (P1 : forall y, get_prev h1 y = if Pos.eqb y e then p else get_prev h y).
    { intros y. unfold h1. rewrite get_prev_set_next. apply get_prev_set_prev. exact Le. }
    assert (N1 : forall y, get_next h1 y = if Pos.eqb y e then head_opt r else get_next h y).
    { intros y. unfold h1. rewrite get_next_set_next by (apply live_set_prev; exact Le).
      destruct (Pos.eqb y e); [reflexivity|apply get_next_set_prev]. }
    split; [|split; [|split; [|split; [|split]]]].
    + intros y [->|Hy].
      * destruct (B y Her) as [B1 B2]. rewrite B1, B2, P1, N1. cbn [prev_from next_in]. rewrite Pos.eqb_refl. auto.
      * destruct (A y Hy) as [A1 A2]. rewrite A1, A2. cbn [prev_from next_in].
        assert (Pos.eqb e y = false) as -> by (apply Pos.eqb_neq; intro; subst; contradiction). auto.
    + intros y Hy. destruct (B y) as [B1 B2]; [intro; apply Hy; right; assumption|].
      rewrite B1, B2, P1, N1. assert (Pos.eqb y e = false) as -> by (apply Pos.eqb_neq; intro; subst; apply Hy; left; reflexivity). auto.
    + rewrite C. destruct r as [|z r']; [reflexivity|]. rewrite last_of_cons_cons.
      destruct (last_of (z :: r')) eqn:E; [reflexivity|apply last_of_none in E; discriminate].
    + rewrite D. unfold h1. rewrite hd_set_next, hd_set_prev. reflexivity.
    + eapply same_data_trans; eassumption.
    + eapply meta_eq_trans; eassumption.
Qed.

Lemma relink_tinv : forall h l l', tinv h l -> Permutation l l' -> tinv (relink h l') l'.
Proof.
  intros h l l' T P.
  assert (Hnd : NoDup l') by (eapply Permutation_NoDup; [exact P|apply (lk_nodup _ _ (ti_linked _ _ T))]).
  assert (Hl : forall y, In y l' -> live (with_hd h (head_opt l')) y).
  { intros y Hy. apply (lk_live _ _ (ti_linked _ _ T)). eapply Permutation_in; [apply Permutation_sym; exact P|exact Hy]. }
  destruct (relink_from_spec l' (with_hd h (head_opt l')) None Hnd Hl) as (A & B & C & D & S & M).
  unfold relink. eapply tinv_same_data_perm; try eassumption.
  - constructor.
    + rewrite D. reflexivity.
    + rewrite C. destruct (last_of l'); reflexivity.
    + exact Hnd.
    + intros y Hy. apply S. apply Hl. exact Hy.
    + intros y Hy. apply (A y Hy).
    + intros y Hy. apply (A y Hy).
Qed.

Lemma ins_id_perm : forall h cmp x l, Permutation (x :: l) (ins_id h cmp x l).
Proof.
  intros h cmp x l. induction l as [|y r IH]; [apply Permutation_refl|]. cbn [ins_id].
  destruct (kv_of h x), (kv_of h y); try (eapply Permutation_trans; [apply perm_swap|apply perm_skip; exact IH]).
  destruct (cmp p p0); try (eapply Permutation_trans; [apply perm_swap|apply perm_skip; exact IH]).
  apply Permutation_refl.
Qed.

Lemma sort_ids_perm : forall h cmp l, Permutation l (sort_ids h cmp l).
Proof.
  intros h cmp l. unfold sort_ids.
  assert (G : forall acc, Permutation (acc ++ l) (fold_left (fun acc x => ins_id h cmp x acc) l acc)).
  { induction l as [|x l IH]; intros acc; [rewrite app_nil_r; apply Permutation_refl|].
    cbn [fold_left]. eapply Permutation_trans; [|apply IH].
    eapply Permutation_trans; [apply Permutation_sym, Permutation_middle|].
    apply (Permutation_app_tail l (ins_id_perm h cmp x acc)). }
  apply (G []).
Qed.

Section T.
Variable t : nat.

Lemma sort_by_TL : forall h I cmp, TL t h I -> TL t (sort_by h cmp) I.
Proof.
  intros h I cmp HTL. destruct (tl_tinv _ _ _ HTL) as (l & T).
  pose proof (relink_tinv h l (sort_ids h cmp (ids h)) T) as T'.
  rewrite (tinv_ids h l T) in T'. specialize (T' (sort_ids_perm h cmp l)).
  apply (TL_same_I t h); try assumption.
  - eexists. unfold sort_by. rewrite (tinv_ids h l T). exact T'.
  - unfold sort_by, relink.
    destruct (relink_from_spec (sort_ids h cmp (ids h)) (with_hd h (head_opt (sort_ids h cmp (ids h)))) None) as (_ & _ & _ & _ & _ & M).
    + eapply Permutation_NoDup; [rewrite (tinv_ids h l T); apply sort_ids_perm|apply (lk_nodup _ _ (ti_linked _ _ T))].
    + intros y Hy. apply (lk_live _ _ (ti_linked _ _ T)). rewrite (tinv_ids h l T) in Hy.
      eapply Permutation_in; [apply Permutation_sym, sort_ids_perm|exact Hy].
    + destruct M as (_ & _ & _ & _ & Mi). exact Mi.
  - intros c Hc. unfold sort_by, relink.
    destruct (relink_from_spec (sort_ids h cmp (ids h)) (with_hd h (head_opt (sort_ids h cmp (ids h)))) None) as (_ & _ & _ & _ & S & _).
    + eapply Permutation_NoDup; [rewrite (tinv_ids h l T); apply sort_ids_perm|apply (lk_nodup _ _ (ti_linked _ _ T))].
    + intros y Hy. apply (lk_live _ _ (ti_linked _ _ T)). rewrite (tinv_ids h l T) in Hy.
      eapply Permutation_in; [apply Permutation_sym, sort_ids_perm|exact Hy].
    + apply S. exact Hc.
Qed.

Lemma sort_aux_TL : forall var h I, TL t h I -> TL t (sort_aux var h) I.
Proof. intros var h I H. unfold sort_aux. destruct var; [exact H|apply sort_by_TL; exact H|apply sort_by_TL; exact H]. Qed.

End T.

(* ------------------------------------------------------------------ pointer writes never create or destroy nodes *)

Lemma insert_same_data : forall h e b, same_data h (insert_iter_entry h e b) /\ meta_eq h (insert_iter_entry h e b).
Proof.
  intros h e b. unfold insert_iter_entry.
  set (h1 := set_prev h e b).
  set (h2 := set_next h1 e _).
  set (h3 := match get_prev h2 e with Some p => set_next h2 p (Some e) | None => with_hd h2 (Some e) end).
  assert (S2 : same_data h h2 /\ meta_eq h h2).
  { split; [eapply same_data_trans; [apply same_data_set_prev|apply same_data_set_next]
           |eapply meta_eq_trans; [apply meta_set_prev|apply meta_set_next]]. }
  destruct S2 as [S2 M2].
  assert (S3 : same_data h h3 /\ meta_eq h h3).
  { unfold h3. destruct (get_prev h2 e).
    - split; [eapply same_data_trans; [exact S2|apply same_data_set_next]|eapply meta_eq_trans; [exact M2|apply meta_set_next]].
    - split; [eapply same_data_trans; [exact S2|apply same_data_with_hd]|eapply meta_eq_trans; [exact M2|apply meta_with_hd]]. }
  destruct S3 as [S3 M3].
  destruct (get_next h3 e).
  - split; [eapply same_data_trans; [exact S3|apply same_data_set_prev]|eapply meta_eq_trans; [exact M3|apply meta_set_prev]].
  - split; [eapply same_data_trans; [exact S3|apply same_data_with_tl]|eapply meta_eq_trans; [exact M3|apply meta_with_tl]].
Qed.

Lemma unlink_same_data : forall h e, same_data h (unlink h e) /\ meta_eq h (unlink h e).
Proof.
  intros h e. unfold unlink.
  set (h1 := if opt_pos_eqb (hd h) (Some e) then with_hd h (get_next h e) else h).
  assert (S1 : same_data h h1 /\ meta_eq h h1).
  { unfold h1. destruct (opt_pos_eqb (hd h) (Some e)); split; try apply same_data_refl; try apply meta_eq_refl;
      [apply same_data_with_hd|apply meta_with_hd]. }
  destruct S1 as [S1 M1].
  set (h2 := if opt_pos_eqb (tl h1) (Some e) then with_tl h1 (get_prev h e) else h1).
  assert (S2 : same_data h h2 /\ meta_eq h h2).
  { unfold h2. destruct (opt_pos_eqb (tl h1) (Some e)); [|split; assumption].
    split; [eapply same_data_trans; [exact S1|apply same_data_with_tl]|eapply meta_eq_trans; [exact M1|apply meta_with_tl]]. }
  destruct S2 as [S2 M2].
  set (h3 := match get_prev h e with Some pp => set_next h2 pp (get_next h e) | None => h2 end).
  assert (S3 : same_data h h3 /\ meta_eq h h3).
  { unfold h3. destruct (get_prev h e); [|split; assumption].
    split; [eapply same_data_trans; [exact S2|apply same_data_set_next]|eapply meta_eq_trans; [exact M2|apply meta_set_next]]. }
  destruct S3 as [S3 M3].
  set (h4 := match get_next h e with Some nn => set_prev h3 nn (get_prev h e) | None => h3 end).
  assert (S4 : same_data h h4 /\ meta_eq h h4).
  { unfold h4. destruct (get_next h e); [|split; assumption].
    split; [eapply same_data_trans; [exact S3|apply same_data_set_prev]|eapply meta_eq_trans; [exact M3|apply meta_set_prev]]. }
  destruct S4 as [S4 M4].
  split.
  - eapply same_data_trans; [exact S4|]. eapply same_data_trans; [apply same_data_set_prev|apply same_data_set_next].
  - eapply meta_eq_trans; [exact M4|]. eapply meta_eq_trans; [apply meta_set_prev|apply meta_set_next].
Qed.

Lemma relink_step_same_data : forall h e b, same_data h (insert_iter_entry (unlink h e) e b).
Proof.
  intros. eapply same_data_trans; [apply unlink_same_data|apply insert_same_data].
Qed.

Lemma move_front_same : forall h I e, same_data h (fst (move_front_aux h I e)).
Proof. intros. unfold move_front_aux. destruct (get_prev h e); [apply relink_step_same_data|apply same_data_refl]. Qed.
Lemma move_back_same : forall h I e, same_data h (fst (move_back_aux h I e)).
Proof. intros. unfold move_back_aux. destruct (get_next h e); [apply relink_step_same_data|apply same_data_refl]. Qed.
Lemma move_before_same : forall h I e f, same_data h (fst (move_before_aux h I e f)).
Proof. intros. unfold move_before_aux. destruct (opt_pos_eqb _ _); [apply same_data_refl|apply relink_step_same_data]. Qed.
Lemma move_behind_same : forall h I e d, same_data h (fst (move_behind_aux h I e d)).
Proof. intros. unfold move_behind_aux. destruct (opt_pos_eqb _ _); [apply same_data_refl|apply relink_step_same_data]. Qed.
Lemma move_pos_same : forall h I e idx, same_data h (fst (move_pos_aux h I e idx)).
Proof.
  intros. unfold move_pos_aux. destruct (idx =? 0); [apply move_front_same|].
  destruct (cnt h <=? idx); [apply move_back_same|].
  destruct (opt_pos_eqb _ _); [apply same_data_refl|]. cbn [remove_iter_entry fst].
  destruct (idx <? cnt h / 2); apply relink_step_same_data.
Qed.

(* ------------------------------------------------------------------ the ordered classes' scans stay inside the list *)

Section V.
Variable var : variant.
Variable dcap : N.
Variable t : nat.

Lemma scan_back_in : forall h l kv fuel c, linked h l -> opt_in c l -> opt_in (scan_back var h kv c fuel) l.
Proof.
  intros h l kv. induction fuel as [|f IH]; intros c L Hc; [left; reflexivity|].
  cbn [scan_back]. destruct c as [x|]; [|left; reflexivity].
  assert (Hx : In x l) by (destruct Hc as [Hc|(b & Hb & Hin)]; [discriminate|inversion Hb; subst; exact Hin]).
  destruct (cmp_ent var h kv x).
  - right; exists x; auto.
  - apply IH; [exact L|]. apply opt_in_prev; assumption.
  - right; exists x; auto.
Qed.

Lemma creep_back_in : forall h pre suf kv fuel b, linked h (pre ++ suf) -> In b pre -> In (creep_back var h kv b fuel) pre.
Proof.
  intros h pre suf kv. induction fuel as [|f IH]; intros b L Hb; [exact Hb|].
  cbn [creep_back]. destruct (in_split _ _ Hb) as (p1 & p2 & Ep).
  assert (E : get_prev h b = last_of p1).
  { apply (prev_of_prefix h (pre ++ suf) p1 b (p2 ++ suf) L). rewrite Ep, <- app_assoc. reflexivity. }
  rewrite E. destruct (last_of p1) as [p|] eqn:EL; [|exact Hb].
  destruct (cmp_ent var h kv p); try exact Hb.
  apply IH; [exact L|]. rewrite Ep. apply in_or_app. left. apply last_of_in. exact EL.
Qed.

Lemma creep_fwd_in : forall h pre suf kv fuel b, linked h (pre ++ suf) -> In b suf -> In (creep_fwd var h kv b fuel) suf.
Proof.
  intros h pre suf kv. induction fuel as [|f IH]; intros b L Hb; [exact Hb|].
  cbn [creep_fwd]. destruct (in_split _ _ Hb) as (s1 & s2 & Es).
  assert (E : get_next h b = head_opt s2).
  { apply (next_of_suffix h (pre ++ suf) (pre ++ s1) b s2 L). rewrite Es, <- app_assoc. reflexivity. }
  rewrite E. destruct s2 as [|n s2']; [exact Hb|]. cbn [head_opt].
  destruct (cmp_ent var h kv n); try exact Hb.
  apply IH; [exact L|]. rewrite Es. apply in_or_app. right. right. left. reflexivity.
Qed.

(* ------------------------------------------------------------------ MoveIterationEntryToCorrectPosition *)

Lemma reposition_ordered_ok : forall h I e l, TL t h I -> tinv h l -> In e l ->
  okstep t I (reposition_ordered var h I e) /\ same_data h (fst (reposition_ordered var h I e)).
Proof.
  intros h I e l HTL T He.
  assert (Id : okstep t I (h, I) /\ same_data h (fst (h, I))) by (split; [apply okstep_id; exact HTL|apply same_data_refl]).
  unfold reposition_ordered.
  destruct (kv_of h e) as [kv|]; [|exact Id].
  destruct (in_split _ _ He) as (l1 & l2 & El).
  pose proof (lk_nodup _ _ (ti_linked _ _ T)) as Hnd. rewrite El in Hnd.
  destruct (nodup_split_notin _ _ _ Hnd) as [Hn1 Hn2].
  assert (Fwd : forall b2, get_next h e = Some b2 ->
             okstep t I (if is_gt (cmp_ent var h kv b2) then
                            match tl h with
                            | Some tx => if is_gt (cmp_ent var h kv tx) then move_back_aux h I e
                                         else move_behind_aux h I e (creep_fwd var h kv b2 (cnt h))
                            | None => (h, I) end
                         else (h, I)) /\
             same_data h (fst (if is_gt (cmp_ent var h kv b2) then
                            match tl h with
                            | Some tx => if is_gt (cmp_ent var h kv tx) then move_back_aux h I e
                                         else move_behind_aux h I e (creep_fwd var h kv b2 (cnt h))
                            | None => (h, I) end
                         else (h, I)))).
  { intros b2 Hb2. destruct (is_gt (cmp_ent var h kv b2)); [|exact Id].
    destruct (tl h) as [tx|]; [|exact Id].
    destruct (is_gt (cmp_ent var h kv tx)); [split; [eapply move_back_ok; eassumption|apply move_back_same]|].
    assert (Hb2in : In b2 l2).
    { rewrite (next_of_suffix h l l1 e l2 (ti_linked _ _ T) El) in Hb2. apply head_opt_in; exact Hb2. }
    assert (Hc : In (creep_fwd var h kv b2 (cnt h)) l2).
    { apply (creep_fwd_in h (l1 ++ [e]) l2); [rewrite <- app_assoc; cbn [app]; rewrite <- El; apply T|exact Hb2in]. }
    split; [|apply move_behind_same].
    eapply move_behind_ok; try eassumption.
    - rewrite El. apply in_or_app. right. right. exact Hc.
    - intro Hx. rewrite Hx in Hc. contradiction. }
  destruct (get_prev h e) as [b|] eqn:Ep.
  - destruct (is_lt (cmp_ent var h kv b)).
    + destruct (hd h) as [hx|]; [|exact Id].
      destruct (is_lt (cmp_ent var h kv hx)); [split; [eapply move_front_ok; eassumption|apply move_front_same]|].
      assert (Hbin : In b l1).
      { rewrite (prev_of_prefix h l l1 e l2 (ti_linked _ _ T) El) in Ep. apply last_of_in; exact Ep. }
      assert (Hc : In (creep_back var h kv b (cnt h)) l1).
      { apply (creep_back_in h l1 (e :: l2)); [rewrite <- El; apply T|exact Hbin]. }
      split; [|apply move_before_same].
      eapply move_before_ok; try eassumption.
      * rewrite El. apply in_or_app. left. exact Hc.
      * intro Hx. rewrite Hx in Hc. contradiction.
    + destruct (get_next h e) as [b2|] eqn:En; [apply Fwd; reflexivity|exact Id].
  - destruct (get_next h e) as [b2|] eqn:En; [apply Fwd; reflexivity|exact Id].
Qed.

Lemma reposition_ok : forall h I e l, TL t h I -> tinv h l -> In e l ->
  okstep t I (reposition_aux var h I e) /\ same_data h (fst (reposition_aux var h I e)).
Proof.
  intros h I e l HTL T He. pose proof (reposition_ordered_ok h I e l HTL T He) as R.
  unfold reposition_aux. destruct var; [split; [apply okstep_id; exact HTL|apply same_data_refl]|exact R|exact R].
Qed.

(* ------------------------------------------------------------------ PutAux *)

Lemma insert_entry_aux_behind : forall h l e, linked h l ->
  exists b, insert_entry_aux var h e = insert_iter_entry h e b /\ opt_in b l.
Proof.
  intros h l e L. unfold insert_entry_aux.
  assert (Tl : opt_in (tl h) l) by (rewrite (lk_tl _ _ L); apply opt_in_last).
  destruct var eqn:EV; [exists (tl h); auto| |];
  (rewrite <- EV; destruct (asort h); [|exists (tl h); auto];
   destruct (kv_of h e) as [kv|]; [|exists None; split; [reflexivity|left; reflexivity]];
   destruct (hd h) as [hx|]; [|exists None; split; [reflexivity|left; reflexivity]];
   match goal with |- context [if ?c then _ else _] => destruct c end;
   [eexists; split; [reflexivity|apply scan_back_in; assumption]|exists None; split; [reflexivity|left; reflexivity]]).
Qed.

Lemma alloc_linked : forall h l k v, tinv h l ->
  linked (fst (alloc_node h k v)) l /\ snd (alloc_node h k v) = fresh h.
Proof.
  intros h l k v T. unfold alloc_node. cbn [fst snd]. split; [|reflexivity].
  apply (linked_ext h _ l (ti_linked _ _ T)); try reflexivity.
  intros y Hy. unfold getn. cbn. apply PositiveMap.gso. intro; subst.
  pose proof (ti_fresh _ _ T (fresh h) (lk_live _ _ (ti_linked _ _ T) _ Hy)) as H. apply (Pos.lt_irrefl _ H).
Qed.

Lemma put_new_grows : forall h l k v, tinv h l -> find_id h k l = None ->
  let h1 := fst (alloc_node h k v) in
  let e := snd (alloc_node h k v) in
  let h2 := insert_entry_aux var h1 e in
  let h' := with_cnt h2 (cnt h2 + 1) in
  (exists l', tinv h' l') /\ live h' e /\ ilist h' = ilist h /\ (forall c, live h c -> live h' c).
Proof.
  intros h l k v T Hf h1 e h2 h'.
  destruct (alloc_linked h l k v T) as [L1 Ee]. fold h1 in L1. fold e in Ee.
  destruct (insert_entry_aux_behind h1 l e L1) as (b & Eb & Hb). fold h2 in Eb.
  destruct (split_behind l b Hb) as (m1 & m2 & El & ->).
  pose proof (tinv_insert_new h l m1 m2 k v T El Hf) as P. unfold alloc_node in P. cbn zeta in P.
  unfold h', h2, h1, e, alloc_node in *. cbn [fst snd] in *. rewrite Eb.
  destruct P as (_ & _ & T' & _ & _ & Lv & _ & _ & Hil).
  split; [eexists; exact T'|split; [apply Lv; right; reflexivity|split; [exact Hil|intros c Hc; apply Lv; left; exact Hc]]].
Qed.

Lemma find_from_with_cap : forall h c k fuel x, find_from (with_cap h c) k x fuel = find_from h k x fuel.
Proof.
  intros h c k. induction fuel as [|f IH]; intros x; [reflexivity|]. cbn [find_from].
  destruct x as [e|]; [|reflexivity]. rewrite getn_with_cap. destruct (getn h e) as [n|]; [|reflexivity].
  destruct (Z.eqb (nk n) k); [reflexivity|apply IH].
Qed.

Lemma find_key_with_cap : forall h c k, find_key (with_cap h c) k = find_key h k.
Proof. intros. unfold find_key. apply find_from_with_cap. Qed.

Definition pa_h (r : ht * itab * positive * option Z) : ht := fst (fst (fst r)).
Definition pa_i (r : ht * itab * positive * option Z) : itab := snd (fst (fst r)).
Definition pa_e (r : ht * itab * positive * option Z) : positive := snd (fst r).

Lemma find_key_some_in : forall h l k e, tinv h l -> find_key h k = Some e -> In e l /\ keyf h e = k.
Proof. intros h l k e T H. rewrite (tinv_find_key h l k T) in H. apply find_id_some in H. exact H. Qed.

Lemma put_aux_ok : forall h I k v, TL t h I ->
  okstep t I (pa_h (put_aux var dcap h I k v), pa_i (put_aux var dcap h I k v)) /\
  live (pa_h (put_aux var dcap h I k v)) (pa_e (put_aux var dcap h I k v)).
Proof.
  intros h I k v HTL0. unfold put_aux.
  assert (HTL : TL t (ensure_allocated dcap h) I).
  { unfold ensure_allocated. destruct (N.eqb (cap h) 0); [apply TL_with_cap|]; exact HTL0. }
  set (h0 := ensure_allocated dcap h) in *. clearbody h0. clear HTL0.
  destruct (tl_tinv _ _ _ HTL) as (l & T).
  destruct (find_key h0 k) as [e|] eqn:Ef.
  - destruct (find_key_some_in h0 l k e T Ef) as [He _].
    destruct (tinv_set_val h0 l e v T He) as (T1 & Lv1 & _ & _).
    assert (HTL1 : TL t (set_val h0 e v) I).
    { apply (TL_same_I t h0); try assumption.
      - eexists; exact T1.
      - destruct (meta_set_val h0 e v) as (_ & _ & _ & _ & Mi). exact Mi.
      - intros c Hc. apply Lv1. exact Hc. }
    destruct (reposition_ok (set_val h0 e v) I e l HTL1 T1 He) as [R S].
    destruct (reposition_aux var (set_val h0 e v) I e) as [h1 I1] eqn:ER.
    unfold pa_h, pa_i, pa_e. cbn [fst snd] in *. split; [exact R|].
    apply S. apply Lv1. apply (lk_live _ _ (ti_linked _ _ T)). exact He.
  - (* a new key *)
    assert (ES : exists h00 I0, (if N.eqb (N.of_nat (cnt h0)) (cap h0) then ensure_size dcap h0 I (cap h0 * 2) false else (h0, I, 0))
                 = (h00, I0, snd (if N.eqb (N.of_nat (cnt h0)) (cap h0) then ensure_size dcap h0 I (cap h0 * 2) false else (h0, I, 0)))
                 /\ okstep t I (h00, I0) /\ find_key h00 k = None).
    { destruct (N.eqb (N.of_nat (cnt h0)) (cap h0)).
      - pose proof (ensure_size_ok t dcap h0 I (cap h0 * 2) false HTL) as O.
        assert (F : find_key (fst (fst (ensure_size dcap h0 I (cap h0 * 2) false))) k = None).
        { unfold ensure_size. destruct (N.eqb _ (cap h0)); [exact Ef|]. destruct (N.eqb _ 0); [reflexivity|].
          destruct (N.eqb _ 4294967295); [exact Ef|]. cbn [fst]. rewrite find_key_with_cap. exact Ef. }
        destruct (ensure_size dcap h0 I (cap h0 * 2) false) as [[h00 I0] st]. exists h00, I0. cbn [fst snd] in *. auto.
      - exists h0, I. split; [reflexivity|split; [apply okstep_id; exact HTL|exact Ef]]. }
    destruct ES as (h00 & I0 & -> & [HTL00 Fr] & Ef0). cbn [fst snd] in HTL00, Fr.
    destruct (tl_tinv _ _ _ HTL00) as (l0 & T0).
    rewrite (tinv_find_key h00 l0 k T0) in Ef0.
    pose proof (put_new_grows h00 l0 k v T0 Ef0) as G. cbn zeta in G.
    destruct (alloc_node h00 k v) as [h1 e] eqn:EA. cbn [fst snd] in G.
    destruct G as (HT' & Le & Hil & Hl).
    unfold pa_h, pa_i, pa_e. cbn [fst snd]. split; [|exact Le].
    split; cbn [fst snd]; [|exact Fr].
    apply (TL_same_I t h00); assumption.
Qed.

(* ------------------------------------------------------------------ CopyFromAux / CopyFrom *)

Definition grows (h h' : ht) : Prop :=
  (exists l', tinv h' l') /\ ilist h' = ilist h /\ (forall c, live h c -> live h' c).

Lemma copy_fold_grows : forall we src h l, tinv h l -> NoDup (map fst src) ->
  (we = true -> forall e, In e l -> ~ In (keyf h e) (map fst src)) ->
  grows h (fold_left (copy_one we) src h).
Proof.
  intros we. induction src as [|kv src IH]; intros h l T Hnd Hw.
  - cbn. split; [eexists; exact T|split; [reflexivity|auto]].
  - cbn [fold_left]. inversion Hnd as [|? ? Hk Hnd']; subst. cbn [map] in Hw.
    assert (Step : exists l1, tinv (copy_one we h kv) l1 /\ ilist (copy_one we h kv) = ilist h /\
                   (forall c, live h c -> live (copy_one we h kv) c) /\
                   (we = true -> forall e, In e l1 -> ~ In (keyf (copy_one we h kv) e) (map fst src))).
    { unfold copy_one.
      destruct (if we then None else find_key h (fst kv)) as [e|] eqn:Ef.
      - destruct we; [discriminate|].
        destruct (find_key_some_in h l _ e T Ef) as [He _].
        destruct (tinv_set_val h l e (snd kv) T He) as (T1 & Lv1 & _ & _).
        exists l. split; [exact T1|split; [|split; [|discriminate]]].
        + destruct (meta_set_val h e (snd kv)) as (_ & _ & _ & _ & Mi). exact Mi.
        + intros c Hc. apply Lv1. exact Hc.
      - assert (Hf : find_id h (fst kv) l = None).
        { destruct we.
          - destruct (find_id h (fst kv) l) as [e|] eqn:E; [|reflexivity]. exfalso.
            apply find_id_some in E. destruct E as [He Hk']. apply (Hw eq_refl e He). left. symmetry. exact Hk'.
          - rewrite <- (tinv_find_key h l _ T). exact Ef. }
        pose proof (tinv_insert_new h l l [] (fst kv) (snd kv) T (eq_sym (app_nil_r l)) Hf) as P.
        unfold alloc_node in *. cbn zeta in P. cbn [fst snd] in *.
        assert (Et : tl h = last_of l) by apply (lk_tl _ _ (ti_linked _ _ T)).
        cbn [tl]. rewrite <- Et in P. destruct P as (_ & Hne & T' & Kve & Kvo & Lv & _ & _ & Hil).
        eexists. split; [exact T'|split; [exact Hil|split]].
        + intros c Hc. apply Lv. left. exact Hc.
        + intros Ew e0 He0. unfold keyf. apply in_app_or in He0. destruct He0 as [He0|[<-|[]]].
          * rewrite Kvo by (intro; subst; contradiction). intro Hin. apply (Hw Ew e0 He0). right. exact Hin.
          * rewrite Kve. cbn [fst]. exact Hk. }
    destruct Step as (l1 & T1 & Hil1 & Lv1 & Hw1).
    destruct (IH (copy_one we h kv) l1 T1 Hnd' Hw1) as (HT & Hil & Lv).
    split; [exact HT|split; [congruence|intros c Hc; apply Lv, Lv1; exact Hc]].
Qed.

Lemma copy_from_aux_TL : forall h I src, TL t h I -> NoDup (map fst src) -> TL t (copy_from_aux h src) I.
Proof.
  intros h I src HTL Hnd. destruct (tl_tinv _ _ _ HTL) as (l & T). unfold copy_from_aux.
  destruct (copy_fold_grows (cnt h =? 0) src h l T Hnd) as (HT & Hil & Lv).
  - intros E e He. apply Nat.eqb_eq in E. rewrite (ti_cnt _ _ T) in E. destruct l; [destruct He|discriminate].
  - apply (TL_same_I t h); assumption.
Qed.

Lemma copy_from_ok : forall h I src srccap cf, TL t h I -> NoDup (map fst src) ->
  okstep t I (fst (copy_from var dcap h I src srccap cf)).
Proof.
  intros h I src srccap cf HTL Hnd. unfold copy_from.
  assert (C : exists h1 I1, (if cf then clear_tab dcap h I ((length src =? 0) && (dcap <? cap h)%N) else (h, I)) = (h1, I1) /\ okstep t I (h1, I1)).
  { destruct cf.
    - pose proof (clear_ok t dcap h I ((length src =? 0) && (dcap <? cap h)%N) HTL) as O.
      destruct (clear_tab dcap h I _) as [h1 I1]. exists h1, I1. auto.
    - exists h, I. split; [reflexivity|apply okstep_id; exact HTL]. }
  destruct C as (h1 & I1 & -> & O1). destruct src as [|kv src']; [exact O1|].
  destruct O1 as [HTL1 F1]. cbn [fst snd] in HTL1, F1.
  pose proof (ensure_size_ok t dcap h1 I1 (N.of_nat (cnt h1 + length (kv :: src'))) false HTL1) as O2.
  destruct (ensure_size dcap h1 I1 _ false) as [[h2 I2] st]. cbn [fst snd] in O2.
  destruct O2 as [HTL2 F2]. cbn [fst snd] in HTL2, F2.
  destruct (st =? 0); cbn [fst]; (split; cbn [fst snd]; [|eapply frame_trans; eassumption]).
  - apply sort_aux_TL. apply copy_from_aux_TL; assumption.
  - exact HTL2.
Qed.

(* ------------------------------------------------------------------ Remove(table), Intersect(table) *)

Lemma remove_keys_ok : forall ks h I, TL t h I -> okstep t I (fst (remove_keys h I ks)).
Proof.
  intros ks. unfold remove_keys.
  assert (G : forall ks h0 I0 c0 I, frame t I I0 -> TL t h0 I0 ->
             okstep t I (fst (fold_left (fun '(h, J, c) k => match find_key h k with
                                 | Some e => let '(h1, I1) := remove_entry h J e in (h1, I1, S c)
                                 | None => (h, J, c) end) ks (h0, I0, c0)))).
  { induction ks0 as [|k ks0 IH]; intros h0 I0 c0 I F HTL; [split; assumption|].
    cbn [fold_left]. destruct (find_key h0 k) as [e|] eqn:Ef; [|apply IH; assumption].
    destruct (tl_tinv _ _ _ HTL) as (l & T). destruct (find_key_some_in h0 l k e T Ef) as [He _].
    pose proof (remove_entry_TL t h0 I0 e HTL (lk_live _ _ (ti_linked _ _ T) e He)) as R.
    destruct (remove_entry h0 I0 e) as [h1 I1]. destruct R as [HTL1 F1].
    apply IH; [eapply frame_trans; eassumption|exact HTL1]. }
  intros h I HTL. apply G; [apply frame_refl|exact HTL].
Qed.

Lemma key_of_live : forall h e k, key_of h e = Some k -> live h e.
Proof. intros h e k H. unfold key_of in H. unfold live. destruct (getn h e); [discriminate|discriminate]. Qed.

Lemma intersect_ids_ok : forall other l h I, TL t h I -> okstep t I (fst (intersect_ids h I other l)).
Proof.
  intros other l. unfold intersect_ids.
  assert (G : forall l h0 I0 c0 I, frame t I I0 -> TL t h0 I0 ->
             okstep t I (fst (fold_left (fun '(h, J, c) e => match key_of h e with
                                 | Some k => match a_get other k with
                                             | Some _ => (h, J, c)
                                             | None => let '(h1, I1) := remove_entry h J e in (h1, I1, S c)
                                             end
                                 | None => (h, J, c) end) l (h0, I0, c0)))).
  { induction l0 as [|e l0 IH]; intros h0 I0 c0 I F HTL; [split; assumption|].
    cbn [fold_left]. destruct (key_of h0 e) as [k|] eqn:Ek; [|apply IH; assumption].
    destruct (a_get other k); [apply IH; assumption|].
    pose proof (remove_entry_TL t h0 I0 e HTL (key_of_live _ _ _ Ek)) as R.
    destruct (remove_entry h0 I0 e) as [h1 I1]. destruct R as [HTL1 F1].
    apply IH; [eapply frame_trans; eassumption|exact HTL1]. }
  intros h I HTL. apply G; [apply frame_refl|exact HTL].
Qed.

End V.
