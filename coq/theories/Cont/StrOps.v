(* C17 -- specifications of the level-1 mutators: each preserves the invariant and has the level-0 effect. *)
From Coq Require Import List NArith ZArith Bool Lia.
From Muscle Require Import Cont.StrL0 Cont.StrModel Cont.StrLemmas Cont.StrGrow Cont.StrCore.
Import ListNotations.
Local Open Scope N_scope.

Definition LIM : N := 1073741824.    (* 2^30: buffer requests up to this size always succeed *)

Section Ops.
Variables (M TH PG OV jk : N).
Hypothesis M_pos : 1 <= M.
Hypothesis TH_ge : 2 <= TH.
Hypothesis PG_pos : 0 < PG.
Hypothesis PG_le : PG <= 1048576.
Hypothesis OV_lt : OV < PG.
Hypothesis M_le : M <= 1048576.

Local Notation slen := (slen M).
Local Notation cap := (cap M).
Local Notation abs := (abs M).
Local Notation inv := (inv M).
Local Notation commit := (commit M).
Local Notation ensure := (ensure M TH PG OV jk true).
Local Notation empty1 := (empty1 M jk).

Lemma u32_small x : x < 4294967296 -> u32 x = x.
Proof. intros H. unfold u32. now apply N.mod_small. Qed.

(* a terminated source: what a `const String &` callee may rely on *)
Definition src_ok (o : src) : Prop := snd o < lenN (fst o) /\ nthN (snd o) (fst o) = 0.

Lemma src_ok_lit l : src_ok (src_lit l).
Proof.
  unfold src_ok, src_lit. cbn [fst snd]. rewrite lenN_app, lenN_cons, lenN_nil. split; [lia|].
  rewrite nthN_app_r by lia. now rewrite N.sub_diag.
Qed.
Lemma src_ok_of s : inv s -> src_ok (src_of M s).
Proof. intros I. unfold src_ok, src_of. cbn [fst snd]. rewrite (inv_len _ _ I). split; [apply (inv_lt _ _ I)|apply (inv_nul _ _ I)]. Qed.
Lemma src_bytes_lit l : src_bytes (src_lit l) = l.
Proof. unfold src_bytes, src_lit. cbn [fst snd]. apply takeN_app_exact. Qed.
Lemma src_bytes_of s : src_bytes (src_of M s) = abs s.
Proof. reflexivity. Qed.
Lemma lenN_src_bytes o : src_ok o -> lenN (src_bytes o) = snd o.
Proof. intros [H _]. unfold src_bytes. rewrite lenN_takeN. lia. Qed.
Lemma src_take_nul o : src_ok o -> takeN (snd o + 1) (fst o) = src_bytes o ++ [0].
Proof.
  intros [H Z]. unfold src_bytes.
  rewrite <- (takeN_dropN (snd o) (fst o)) at 1.
  rewrite (dropN_cons_nth (fst o) (snd o) H), Z.
  rewrite takeN_app_ge by (rewrite lenN_takeN; lia). rewrite lenN_takeN.
  replace (snd o + 1 - N.min (snd o) (lenN (fst o))) with (0 + 1) by lia.
  rewrite takeN_S, takeN_0. reflexivity.
Qed.
Lemma take_with_nul s : inv s -> takeN (slen s + 1) (buf s) = abs s ++ [0].
Proof. intros I. apply (src_take_nul (src_of M s)). now apply src_ok_of. Qed.

Lemma abs_of_prefix s s' : slen s' = slen s -> takeN (slen s + 1) (buf s') = takeN (slen s + 1) (buf s) -> abs s' = abs s.
Proof.
  intros E H. unfold StrModel.abs. rewrite E.
  rewrite <- (takeN_takeN_le (slen s) (slen s + 1) (buf s')) by lia.
  rewrite <- (takeN_takeN_le (slen s) (slen s + 1) (buf s)) by lia. now rewrite H.
Qed.

(* ensure with retained value, for requests within LIM: succeeds, keeps contents *)
Lemma ensure_grow_ok s req :
  inv s -> req <= LIM ->
  exists s', ensure s req true false = (StOk, s') /\ inv s' /\ req <= cap s' /\ slen s' = slen s /\
             abs s' = abs s /\ takeN (slen s + 1) (buf s') = takeN (slen s + 1) (buf s).
Proof.
  intros I R. pose proof (ensure_grow M TH PG OV jk M_pos s req I) as G.
  pose proof (ensure_ok M TH PG OV jk M_pos TH_ge PG_pos PG_le OV_lt M_le s req true I R) as K.
  destruct (ensure s req true false) as [e s']. cbn [fst] in K. subst e.
  destruct G as (G1 & G2 & G3 & G4). exists s'. splits; trivial. now apply abs_of_prefix.
Qed.
Lemma ensure_noretain_ok s req :
  inv s -> req <= LIM ->
  exists s', ensure s req false false = (StOk, s') /\ inv s' /\ req <= cap s' /\ (req <= cap s -> s' = s).
Proof.
  intros I R. pose proof (ensure_noretain M TH PG OV jk M_pos s req I) as G.
  pose proof (ensure_ok M TH PG OV jk M_pos TH_ge PG_pos PG_le OV_lt M_le s req false I R) as K.
  destruct (ensure s req false false) as [e s']. cbn [fst] in K. subst e.
  destruct G as (G1 & G2 & G3). exists s'. splits; trivial.
Qed.

(* overwrite the whole value: memmove(b, data, n); b[n] = 0; SetLength(n) *)
Lemma commit_set s data n :
  inv s -> lenN data = n -> n < cap s ->
  let s' := commit s (upd (blit (buf s) 0 data) n 0) n in
  inv s' /\ abs s' = data /\ slen s' = n /\ cap s' = cap s /\ is_long s' = is_long s.
Proof.
  intros I L C s'. pose proof (inv_len _ _ I) as Ln.
  assert (Lb : lenN (blit (buf s) 0 data) = cap s) by (rewrite lenN_blit; lia).
  destruct (commit_spec M M_pos s (upd (blit (buf s) 0 data) n 0) n I) as (A1 & A2 & A3 & A4 & A5 & _).
  - rewrite lenN_upd; lia.
  - exact C.
  - apply nthN_upd_same. lia.
  - unfold s'. splits; trivial. rewrite A3.
    rewrite takeN_upd_before by lia. rewrite takeN_blit_0 by lia. apply takeN_all. lia.
Qed.

(* append: memmove(b+len, data ++ NUL); SetLength(len + |data|) *)
Lemma commit_append s data :
  inv s -> slen s + lenN data + 1 <= cap s ->
  let s' := commit s (blit (buf s) (slen s) (data ++ [0])) (slen s + lenN data) in
  inv s' /\ abs s' = abs s ++ data /\ cap s' = cap s /\ is_long s' = is_long s.
Proof.
  intros I C s'. pose proof (inv_len _ _ I) as Ln. pose proof (inv_lt _ _ I) as Lt.
  assert (Ld : lenN (data ++ [0]) = lenN data + 1) by (rewrite lenN_app, lenN_cons, lenN_nil; lia).
  destruct (commit_spec M M_pos s (blit (buf s) (slen s) (data ++ [0])) (slen s + lenN data) I) as (A1 & A2 & A3 & A4 & A5 & _).
  - rewrite lenN_blit; lia.
  - lia.
  - rewrite nthN_blit_in by lia. replace (slen s + lenN data - slen s) with (lenN data) by lia.
    rewrite nthN_app_r by lia. now rewrite N.sub_diag.
  - unfold s'. splits; trivial. rewrite A3.
    rewrite <- (takeN_takeN_le (slen s + lenN data) (slen s + lenN (data ++ [0]))) by lia.
    rewrite takeN_blit_cover by lia.
    fold (abs s). rewrite takeN_app_ge by (rewrite lenN_abs; trivial; lia).
    rewrite (lenN_abs M s I). f_equal.
    replace (slen s + lenN data - slen s) with (lenN data) by lia. apply takeN_app_exact.
Qed.

End Ops.
