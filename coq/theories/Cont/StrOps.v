(* C17 -- specifications of the level-1 mutators: each preserves the invariant and has the level-0 effect. *)
From Coq Require Import List NArith ZArith Bool Lia.
From Muscle Require Import Cont.StrL0 Cont.StrModel Cont.StrSpec Cont.StrLemmas Cont.StrGrow Cont.StrCore.
Import ListNotations.
Local Open Scope N_scope.

Definition LIM : N := 1073741824.    (* 2^30: buffer requests up to this size always succeed *)

Set Default Proof Using "All".

Section Ops.
Variables (M TH PG OV jk : N).
Hypothesis M_pos : 1 <= M.
Hypothesis TH_ge : 2 <= TH.
Hypothesis PG_pos : 0 < PG.
Hypothesis PG_le : PG <= 1048576.
Hypothesis OV_lt : OV < PG.
Hypothesis M_le : M <= 1048576.

Local Notation inv_len := (StrCore.inv_len M TH PG OV jk M_pos TH_ge PG_pos PG_le OV_lt M_le).
Local Notation inv_lt := (StrCore.inv_lt M TH PG OV jk M_pos TH_ge PG_pos PG_le OV_lt M_le).
Local Notation inv_nul := (StrCore.inv_nul M TH PG OV jk M_pos TH_ge PG_pos PG_le OV_lt M_le).
Local Notation inv_short_le := (StrCore.inv_short_le M TH PG OV jk M_pos TH_ge PG_pos PG_le OV_lt M_le).
Local Notation lenN_abs := (StrCore.lenN_abs M TH PG OV jk M_pos TH_ge PG_pos PG_le OV_lt M_le).
Local Notation commit_spec := (StrCore.commit_spec M TH PG OV jk M_pos TH_ge PG_pos PG_le OV_lt M_le).
Local Notation inv_empty1 := (StrCore.inv_empty1 M TH PG OV jk M_pos TH_ge PG_pos PG_le OV_lt M_le).
Local Notation inv_clear_short := (StrCore.inv_clear_short M TH PG OV jk M_pos TH_ge PG_pos PG_le OV_lt M_le).
Local Notation inv_clear_and_flush := (StrCore.inv_clear_and_flush M TH PG OV jk M_pos TH_ge PG_pos PG_le OV_lt M_le).
Local Notation ensure_enough := (StrCore.ensure_enough M TH PG OV jk M_pos TH_ge PG_pos PG_le OV_lt M_le).
Local Notation inv_fin := (StrCore.inv_fin M TH PG OV jk M_pos TH_ge PG_pos PG_le OV_lt M_le).
Local Notation ensure_grow := (StrCore.ensure_grow M TH PG OV jk M_pos TH_ge PG_pos PG_le OV_lt M_le).
Local Notation ensure_noretain := (StrCore.ensure_noretain M TH PG OV jk M_pos TH_ge PG_pos PG_le OV_lt M_le).
Local Notation set_len_short_spec := (StrCore.set_len_short_spec M TH PG OV jk M_pos TH_ge PG_pos PG_le OV_lt M_le).
Local Notation ensure_shrink := (StrCore.ensure_shrink M TH PG OV jk M_pos TH_ge PG_pos PG_le OV_lt M_le).
Local Notation ensure_ok := (StrCore.ensure_ok M TH PG OV jk M_pos TH_ge PG_pos PG_le OV_lt M_le).
Local Notation slen := (slen M).
Local Notation cap := (cap M).
Local Notation abs := (abs M).
Local Notation inv := (inv M).
Local Notation commit := (commit M).
Local Notation ensure := (ensure M TH PG OV jk true).
Local Notation empty1 := (empty1 M jk).
Local Notation clear := (clear M).
Local Notation set_cstr := (set_cstr M TH PG OV jk true).
Local Notation cregion := (cregion M).
Local Notation set_from := (set_from M TH PG OV jk true).
Local Notation append_s := (append_s M TH PG OV jk true).
Local Notation append_c := (append_c M TH PG OV jk true).
Local Notation append_ch := (append_ch M TH PG OV jk true).
Local Notation clear_and_flush := (clear_and_flush M jk).
Local Notation osrc := (osrc M).
Local Notation insert_aux := (insert_aux M TH PG OV jk true).
Local Notation insert_chars := (insert_chars M TH PG OV jk true).
Local Notation prealloc := (prealloc M TH PG OV jk true).
Local Notation shrink_to_fit := (shrink_to_fit M TH PG OV jk true).
Local Notation trunc_chars := (trunc_chars M).
Local Notation trunc_to := (trunc_to M).
Local Notation flatten1 := (flatten1 M).
Local Notation unflatten1 := (unflatten1 M TH PG OV jk true).
Local Notation ctor_copy := (ctor_copy M TH PG OV jk true).
Local Notation ctor_sub := (ctor_sub M TH PG OV jk true).
Local Notation ctor_copy_pre := (ctor_copy_pre M TH PG OV jk true).
Local Notation ctor_pre_lit := (ctor_pre_lit M TH PG OV jk true).
Local Notation cut := (cut M).
Local Notation map_content := (map_content M).
Local Notation reverse1 := (reverse1 M).
Local Notation replace_ch1 := (replace_ch1 M).

Lemma u32_small x : x < 4294967296 -> u32 x = x.
Proof. intros H. unfold u32. now apply N.mod_small. Qed.

(* a terminated source: what a `const String &` callee may rely on *)
Definition src_ok (o : src) : Prop := snd o < lenN (fst o) /\ nthN (snd o) (fst o) = 0.

Lemma src_ok_lit l : src_ok (src_lit l).
Proof.
  unfold src_ok, src_lit. cbn [fst snd]. rewrite lenN_app, lenN_cons, lenN_nil. split; [lia|].
  rewrite nthN_app_r by lia. now rewrite N.sub_diag.
Qed.
Lemma src_ok_of s : inv s -> src_ok (src_of M s).
Proof. intros I. unfold src_ok, src_of. cbn [fst snd]. rewrite (inv_len _ I). split; [apply (inv_lt _ I)|apply (inv_nul _ I)]. Qed.
Lemma src_bytes_lit l : src_bytes (src_lit l) = l.
Proof. unfold src_bytes, src_lit. cbn [fst snd]. apply takeN_app_exact. Qed.
Lemma src_bytes_of s : src_bytes (src_of M s) = abs s.
Proof. reflexivity. Qed.
Lemma lenN_src_bytes o : src_ok o -> lenN (src_bytes o) = snd o.
Proof. intros [H _]. unfold src_bytes. rewrite lenN_takeN. lia. Qed.
Lemma src_take_nul o : src_ok o -> takeN (snd o + 1) (fst o) = src_bytes o ++ [0].
Proof.
  intros [H Z]. unfold src_bytes.
  rewrite <- (takeN_dropN (snd o) (fst o)) at 1.
  rewrite (dropN_cons_nth (fst o) (snd o) H), Z.
  rewrite takeN_app_ge by (rewrite lenN_takeN; lia). rewrite lenN_takeN.
  replace (snd o + 1 - N.min (snd o) (lenN (fst o))) with (0 + 1) by lia.
  rewrite takeN_S, takeN_0. reflexivity.
Qed.
Lemma take_with_nul s : inv s -> takeN (slen s + 1) (buf s) = abs s ++ [0].
Proof. intros I. apply (src_take_nul (src_of M s)). now apply src_ok_of. Qed.

Lemma abs_of_prefix s s' : slen s' = slen s -> takeN (slen s + 1) (buf s') = takeN (slen s + 1) (buf s) -> abs s' = abs s.
Proof.
  intros E H. unfold StrModel.abs. rewrite E.
  rewrite <- (takeN_takeN_le (slen s) (slen s + 1) (buf s')) by lia.
  rewrite <- (takeN_takeN_le (slen s) (slen s + 1) (buf s)) by lia. now rewrite H.
Qed.

(* ensure with retained value, for requests within LIM: succeeds, keeps contents *)
Lemma ensure_grow_ok s req :
  inv s -> req <= LIM ->
  exists s', ensure s req true false = (StOk, s') /\ inv s' /\ req <= cap s' /\ slen s' = slen s /\
             abs s' = abs s /\ takeN (slen s + 1) (buf s') = takeN (slen s + 1) (buf s).
Proof.
  intros I R. pose proof (ensure_grow s req I) as G.
  pose proof (ensure_ok s req true I R) as K.
  destruct (ensure s req true false) as [e s']. cbn [fst] in K. subst e.
  destruct G as (G1 & G2 & G3 & G4). exists s'. splits; trivial. now apply abs_of_prefix.
Qed.
Lemma ensure_noretain_ok s req :
  inv s -> req <= LIM ->
  exists s', ensure s req false false = (StOk, s') /\ inv s' /\ req <= cap s' /\ (req <= cap s -> s' = s).
Proof.
  intros I R. pose proof (ensure_noretain s req I) as G.
  pose proof (ensure_ok s req false I R) as K.
  destruct (ensure s req false false) as [e s']. cbn [fst] in K. subst e.
  destruct G as (G1 & G2 & G3). exists s'. splits; trivial.
Qed.

(* overwrite the whole value: memmove(b, data, n); b[n] = 0; SetLength(n) *)
Lemma commit_set s data n :
  inv s -> lenN data = n -> n < cap s ->
  let s' := commit s (upd (blit (buf s) 0 data) n 0) n in
  inv s' /\ abs s' = data /\ slen s' = n /\ cap s' = cap s /\ is_long s' = is_long s.
Proof.
  intros I L C s'. pose proof (inv_len _ I) as Ln.
  assert (Lb : lenN (blit (buf s) 0 data) = cap s) by (rewrite lenN_blit; lia).
  destruct (commit_spec s (upd (blit (buf s) 0 data) n 0) n I) as (A1 & A2 & A3 & A4 & A5 & _).
  - rewrite lenN_upd; lia.
  - exact C.
  - apply nthN_upd_same. lia.
  - unfold s'. splits; trivial. rewrite A3.
    rewrite takeN_upd_before by lia. rewrite takeN_blit_0 by lia. apply takeN_all. lia.
Qed.

(* append: memmove(b+len, data ++ NUL); SetLength(len + |data|) *)
Lemma commit_append s data :
  inv s -> slen s + lenN data + 1 <= cap s ->
  let s' := commit s (blit (buf s) (slen s) (data ++ [0])) (slen s + lenN data) in
  inv s' /\ abs s' = abs s ++ data /\ cap s' = cap s /\ is_long s' = is_long s.
Proof.
  intros I C s'. pose proof (inv_len _ I) as Ln. pose proof (inv_lt _ I) as Lt.
  assert (Ld : lenN (data ++ [0]) = lenN data + 1) by (rewrite lenN_app, lenN_cons, lenN_nil; lia).
  destruct (commit_spec s (blit (buf s) (slen s) (data ++ [0])) (slen s + lenN data) I) as (A1 & A2 & A3 & A4 & A5 & _).
  - rewrite lenN_blit; lia.
  - lia.
  - rewrite nthN_blit_in by lia. replace (slen s + lenN data - slen s) with (lenN data) by lia.
    rewrite nthN_app_r by lia. now rewrite N.sub_diag.
  - unfold s'. splits; trivial. rewrite A3.
    rewrite <- (takeN_takeN_le (slen s + lenN data) (slen s + lenN (data ++ [0]))) by lia.
    rewrite takeN_blit_cover by lia.
    fold (abs s). rewrite takeN_app_ge by (rewrite lenN_abs; trivial; lia).
    rewrite (lenN_abs s I). f_equal.
    replace (slen s + lenN data - slen s) with (lenN data) by lia. apply takeN_app_exact.
Qed.

Lemma cap_lt s : inv s -> cap s < 2147483648.
Proof. intros I. destruct s; cbn [StrModel.cap]; [lia|]. destruct I as (_ & _ & _ & I4). lia. Qed.

Lemma takeN_min_len {A} n (l : list A) : takeN (N.min n (lenN l)) l = takeN n l.
Proof. unfold takeN. f_equal. f_equal. lia. Qed.
Lemma dropN_min_len {A} n (l : list A) : dropN (N.min n (lenN l)) l = dropN n l.
Proof. unfold dropN. f_equal. f_equal. lia. Qed.

Lemma clear_spec s : inv s -> inv (clear s) /\ abs (clear s) = [] /\ cap (clear s) = cap s /\ is_long (clear s) = is_long s.
Proof.
  intros I. unfold StrModel.clear.
  assert (C0 : 0 < cap s) by (pose proof (inv_lt _ I); lia).
  destruct (commit_set s [] 0 I eq_refl C0) as (A1 & A2 & A3 & A4 & A5).
  rewrite (blit_nil (buf s) 0) in *. splits; trivial.
Qed.

Lemma cstr_region_self s k : inv s -> nulfree (abs s) -> k <= slen s -> cstr (dropN k (buf s)) = dropN k (abs s).
Proof.
  intros I F K. pose proof (inv_len _ I) as Ln. pose proof (inv_lt _ I) as Lt.
  assert (E : takeN (slen s - k) (dropN k (buf s)) = dropN k (abs s)).
  { rewrite takeN_dropN_comm. unfold StrModel.abs. do 2 f_equal. lia. }
  rewrite (cstr_of_terminated (dropN k (buf s)) (slen s - k)).
  - exact E.
  - rewrite lenN_dropN. lia.
  - rewrite nthN_dropN. replace (slen s - k + k) with (slen s) by lia. apply (inv_nul _ I).
  - rewrite E. now apply nulfree_dropN.
Qed.

Definition carg_ok (c : carg) : Prop := match c with CLit l => nulfree l /\ lenN l < LIM | _ => True end.

Lemma cstr_cregion s c : inv s -> nulfree (abs s) -> carg_ok c ->
  match cregion s c with None => c = CNull | Some r => cstr r = clit_of (abs s) c end.
Proof.
  intros I F C. destruct c as [|l|off]; cbn [StrModel.cregion clit_of]; trivial.
  - destruct C as [C _]. rewrite cstr_nulfree_app; trivial.
  - rewrite cstr_region_self by (trivial; lia).
    rewrite <- (lenN_abs s I). apply dropN_min_len.
Qed.

Lemma set_cstr_spec s c m :
  inv s -> nulfree (abs s) -> carg_ok c ->
  exists s', set_cstr s c m = (StOk, s') /\ inv s' /\ abs s' = takeN m (clit_of (abs s) c).
Proof.
  intros I F C. unfold StrModel.set_cstr.
  pose proof (cstr_cregion s c I F C) as R.
  destruct (cregion s c) as [r|] eqn:ER.
  2:{ subst c. exists (clear s). destruct (clear_spec s I) as (A1 & A2 & _). splits; trivial.
      rewrite A2. cbn [clit_of]. now rewrite takeN_nil. }
  rewrite R. set (x := clit_of (abs s) c) in *.
  destruct (0 <? N.min m (lenN x)) eqn:E0.
  2:{ apply N.ltb_ge in E0. exists (clear s). destruct (clear_spec s I) as (A1 & A2 & _). splits; trivial.
      rewrite A2. rewrite <- takeN_min_len. replace (N.min m (lenN x)) with 0 by lia. now rewrite takeN_0. }
  apply N.ltb_lt in E0. set (n := N.min m (lenN x)) in *.
  (* the request: n + 1 bytes *)
  assert (Hx : lenN x < LIM \/ (exists off, c = CSelf off)).
  { destruct c as [|l|off]; cbn [clit_of] in x; [discriminate ER| left; unfold x; apply C | right; now exists off]. }
  assert (Hn : n + 1 < 4294967296).
  { destruct Hx as [Hx|[off ->]]; [unfold LIM in Hx; lia|].
    unfold n, x. cbn [clit_of]. rewrite lenN_dropN, (lenN_abs s I).
    pose proof (inv_lt _ I). pose proof (cap_lt s I). lia. }
  rewrite (u32_small _ Hn).
  assert (Hd : takeN n r = takeN m x).
  { unfold n. rewrite <- (takeN_min_len m x).
    destruct c as [|l|off]; cbn [StrModel.cregion] in ER; inversion ER; subst r; cbn [clit_of] in x.
    - unfold x. rewrite takeN_app_le; trivial. lia.
    - fold x in R. clear ER.
      set (k := N.min off (slen s)) in *.
      pose proof (inv_len _ I) as Ln. pose proof (inv_lt _ I) as Lt.
      assert (Ex : x = takeN (slen s - k) (dropN k (buf s))).
      { unfold x. rewrite takeN_dropN_comm. unfold StrModel.abs.
        replace (slen s - k + k) with (slen s) by lia.
        rewrite <- (lenN_abs s I). unfold k. rewrite (lenN_abs s I).
        rewrite <- (dropN_min_len off (takeN (slen s) (buf s))). rewrite lenN_takeN. do 2 f_equal. lia. }
      transitivity (takeN (N.min m (lenN x)) (takeN (slen s - k) (dropN k (buf s)))); [|now rewrite <- Ex].
      symmetry. apply takeN_takeN_le. rewrite Ex, lenN_takeN, lenN_dropN. lia. }
  destruct Hx as [Hx|[off Hc]].
  - destruct (ensure_noretain_ok s (n + 1) I) as (s1 & E1 & I1 & C1 & _).
    { unfold LIM in *. lia. }
    rewrite E1. eexists. split; [reflexivity|].
    destruct (commit_set s1 (takeN n r) n I1) as (A1 & A2 & _).
    + rewrite Hd, lenN_takeN. reflexivity.
    + lia.
    + split; [exact A1|]. rewrite A2. exact Hd.
  - (* pointer into our own buffer: the request never exceeds the present capacity *)
    subst c. cbn [clit_of] in x.
    assert (Le : n + 1 <= cap s).
    { unfold n, x. rewrite lenN_dropN, (lenN_abs s I). pose proof (inv_lt _ I). lia. }
    rewrite (ensure_enough s (n + 1) false Le).
    eexists. split; [reflexivity|].
    destruct (commit_set s (takeN n r) n I) as (A1 & A2 & _).
    + rewrite Hd, lenN_takeN. reflexivity.
    + lia.
    + split; [exact A1|]. rewrite A2. exact Hd.
Qed.

(* ---------------------------------------------------------------- SetFromString *)

(* the source operand: a separate terminated String of bounded size, or the subject itself *)
Definition osrc_ok (o : option src) : Prop := match o with Some x => src_ok x /\ snd x < LIM | None => True end.

Lemma set_from_spec s o first after :
  inv s -> osrc_ok o ->
  exists s', set_from s o first after = (StOk, s') /\ inv s' /\
             abs s' = l0_sub (src_bytes (osrc s o)) first after.
Proof.
  intros I O. unfold StrModel.set_from.
  assert (SO : src_ok (osrc s o)) by (destruct o as [x|]; [apply O|now apply src_ok_of]).
  set (ol := snd (osrc s o)).
  assert (Lb : lenN (src_bytes (osrc s o)) = ol) by now apply lenN_src_bytes.
  unfold l0_sub. rewrite Lb.
  set (a := N.min after ol).
  destruct (first <? a) eqn:E1; cbn [N.ltb].
  2:{ replace (0 <? 0) with false by reflexivity.
      exists (clear_and_flush s). destruct (inv_clear_and_flush s I) as (A1 & _ & A3 & _). splits; trivial. }
  apply N.ltb_lt in E1.
  assert (E2 : (0 <? a - first) = true) by (apply N.ltb_lt; lia). rewrite E2.
  set (len := a - first) in *.
  assert (Bl : len + 1 < 4294967296 /\ (o <> None -> len + 1 <= LIM) /\ (o = None -> len + 1 <= cap s)).
  { destruct o as [x|].
    - destruct O as [_ O2]. cbn [StrModel.osrc] in ol. unfold LIM in *. splits; [lia|intros; lia|discriminate].
    - cbn [StrModel.osrc src_of snd] in ol. pose proof (inv_lt _ I). pose proof (cap_lt s I).
      splits; [lia|congruence|intros; lia]. }
  destruct Bl as (B1 & B2 & B3). rewrite (u32_small _ B1).
  assert (EX : exists s1, ensure s (len + 1) false false = (StOk, s1) /\ inv s1 /\ len + 1 <= cap s1 /\
                          takeN len (dropN first (fst (osrc s1 o))) = takeN len (dropN first (src_bytes (osrc s o)))).
  { destruct o as [x|].
    - destruct (ensure_noretain_ok s (len + 1) I) as (s1 & E & I1 & C1 & _); [apply B2; discriminate|].
      exists s1. splits; trivial. cbn [StrModel.osrc]. unfold src_bytes.
      rewrite takeN_dropN_comm. rewrite takeN_dropN_comm. f_equal. rewrite takeN_takeN_le; trivial.
      unfold len, a, ol in *. cbn [StrModel.osrc] in *. lia.
    - exists s. rewrite (ensure_enough s (len + 1) false (B3 eq_refl)). splits; trivial; [now apply B3|].
      cbn [StrModel.osrc src_of fst snd]. unfold src_bytes. cbn [fst snd].
      rewrite takeN_dropN_comm. rewrite takeN_dropN_comm. f_equal. rewrite takeN_takeN_le; trivial.
      unfold len, a, ol in *. cbn [StrModel.osrc src_of snd] in *. lia. }
  destruct EX as (s1 & E & I1 & C1 & D). rewrite E. eexists. split; [reflexivity|].
  destruct (commit_set s1 (takeN len (dropN first (fst (osrc s1 o)))) len I1) as (A1 & A2 & _).
  - rewrite D, lenN_takeN, lenN_dropN, Lb. lia.
  - lia.
  - split; [exact A1|]. rewrite A2. exact D.
Qed.

(* ---------------------------------------------------------------- operator+= *)

Lemma append_s_spec s o :
  inv s -> osrc_ok o -> slen s + snd (osrc s o) + 1 <= LIM ->
  inv (append_s s o) /\ abs (append_s s o) = abs s ++ src_bytes (osrc s o).
Proof.
  intros I O B. unfold StrModel.append_s.
  assert (SO : src_ok (osrc s o)) by (destruct o as [x|]; [apply O|now apply src_ok_of]).
  set (ol := snd (osrc s o)) in *.
  assert (Lb : lenN (src_bytes (osrc s o)) = ol) by now apply lenN_src_bytes.
  destruct (0 <? ol) eqn:E0.
  2:{ apply N.ltb_ge in E0. split; [exact I|]. rewrite (lenN_0 (src_bytes (osrc s o))) by lia. now rewrite app_nil_r. }
  rewrite u32_small by (unfold LIM in B; lia).
  destruct (ensure_grow_ok s (slen s + ol + 1) I B) as (s1 & E & I1 & C1 & L1 & A1 & P1).
  rewrite E.
  assert (D : takeN (ol + 1) (fst (osrc s1 o)) = src_bytes (osrc s o) ++ [0]).
  { destruct o as [x|]; cbn [StrModel.osrc].
    - apply (src_take_nul x). apply O.
    - cbn [StrModel.osrc src_of snd] in ol. cbn [src_of fst]. unfold ol. rewrite P1.
      rewrite (take_with_nul s I). reflexivity. }
  rewrite D. rewrite <- Lb. rewrite <- A1.
  destruct (commit_append s1 (src_bytes (osrc s o)) I1) as (X1 & X2 & _).
  - rewrite Lb. lia.
  - split; trivial.
Qed.

Lemma append_c_spec s c :
  inv s -> nulfree (abs s) -> carg_ok c -> slen s + lenN (clit_of (abs s) c) + 1 <= LIM ->
  inv (append_c s c) /\ abs (append_c s c) = abs s ++ clit_of (abs s) c.
Proof.
  intros I F C B. unfold StrModel.append_c.
  pose proof (cstr_cregion s c I F C) as R.
  destruct (cregion s c) as [r|] eqn:ER.
  2:{ subst c. cbn [clit_of]. split; [exact I|now rewrite app_nil_r]. }
  rewrite R. set (x := clit_of (abs s) c) in *.
  destruct (0 <? lenN x) eqn:E0.
  2:{ apply N.ltb_ge in E0. split; [exact I|]. rewrite (lenN_0 x) by lia. now rewrite app_nil_r. }
  destruct c as [|l|off]; [discriminate ER| |]; cbn [clocal].
  - cbn [StrModel.cregion] in ER. inversion ER; subst r. cbn [clit_of] in x.
    rewrite u32_small by (unfold LIM in B; lia).
    destruct (ensure_grow_ok s (slen s + lenN x + 1) I B) as (s1 & E & I1 & C1 & L1 & A1 & P1).
    rewrite E. unfold x. rewrite takeN_all by (rewrite lenN_app, lenN_cons, lenN_nil; lia).
    rewrite L1. rewrite <- A1. rewrite <- L1.
    destruct (commit_append s1 l I1) as (X1 & X2 & _); [fold x; lia|]. split; trivial.
  - destruct (append_s_spec s (Some (src_lit x)) I) as (X1 & X2).
    + split; [apply src_ok_lit|]. cbn [src_lit snd]. unfold LIM in *. lia.
    + cbn [StrModel.osrc src_lit snd]. exact B.
    + split; [exact X1|]. rewrite X2. cbn [StrModel.osrc]. now rewrite src_bytes_lit.
Qed.

Lemma append_ch_spec s ch :
  inv s -> slen s + 2 <= LIM ->
  inv (append_ch s ch) /\ abs (append_ch s ch) = abs s ++ [ch].
Proof.
  intros I B. unfold StrModel.append_ch.
  rewrite u32_small by (unfold LIM in B; lia).
  destruct (ensure_grow_ok s (slen s + 2) I B) as (s1 & E & I1 & C1 & L1 & A1 & P1).
  rewrite E. rewrite upd_upd_adjacent by (rewrite (inv_len _ I1); lia).
  rewrite <- L1, <- A1.
  destruct (commit_append s1 [ch] I1) as (X1 & X2 & _).
  - rewrite lenN_cons, lenN_nil. lia.
  - split; [exact X1|exact X2].
Qed.

(* ---------------------------------------------------------------- InsertCharsAux *)

Lemma insert_core s i D :
  inv s -> i <= slen s -> slen s + lenN D + 1 <= cap s ->
  let old := slen s in
  let b := buf s in
  let b1 := blit b (i + lenN D) (takeN (old - i) (dropN i b)) in
  let b2 := blit b1 i D in
  let s' := commit s (upd b2 (old + lenN D) 0) (old + lenN D) in
  inv s' /\ abs s' = takeN i (abs s) ++ D ++ dropN i (abs s).
Proof.
  intros I Hi C old b b1 b2 s'.
  pose proof (inv_len _ I) as Ln. pose proof (inv_lt _ I) as Lt. fold b in Ln. fold old in Lt.
  set (X := takeN (old - i) (dropN i b)).
  assert (LX : lenN X = old - i) by (unfold X; rewrite lenN_takeN, lenN_dropN; lia).
  assert (Lb1 : lenN b1 = cap s) by (unfold b1; fold X; rewrite lenN_blit; lia).
  assert (Lb2 : lenN b2 = cap s) by (unfold b2; rewrite lenN_blit; lia).
  destruct (commit_spec s (upd b2 (old + lenN D) 0) (old + lenN D) I) as (A1 & A2 & A3 & _).
  - rewrite lenN_upd; lia.
  - unfold old. lia.
  - apply nthN_upd_same. lia.
  - split; [exact A1|]. fold s' in A3. rewrite A3.
    rewrite takeN_upd_before by lia.
    (* the first old+|D| bytes of b2 *)
    assert (E2 : takeN (i + lenN D) b2 = takeN i b ++ D).
    { unfold b2. rewrite takeN_blit_cover by lia. f_equal. unfold b1. apply takeN_blit_before; lia. }
    assert (E3 : dropN (i + lenN D) b2 = X ++ dropN (i + lenN D + lenN X) b).
    { unfold b2. rewrite dropN_blit_after by lia. unfold b1. fold X. unfold blit.
      rewrite dropN_app_ge by (rewrite lenN_takeN; lia). rewrite lenN_takeN.
      replace (i + lenN D - N.min (i + lenN D) (lenN b)) with 0 by lia. now rewrite dropN_0. }
    rewrite <- (takeN_dropN (i + lenN D) b2). rewrite E2, E3.
    rewrite takeN_app_ge by (rewrite lenN_app, lenN_takeN; lia).
    rewrite lenN_app, lenN_takeN.
    replace (old + lenN D - (N.min i (lenN b) + lenN D)) with (lenN X) by lia.
    rewrite takeN_app_exact. rewrite <- app_assoc. f_equal.
    + unfold StrModel.abs. fold b old. rewrite takeN_takeN_le; trivial.
    + f_equal. unfold X, StrModel.abs. fold b old. rewrite takeN_dropN_comm. do 2 f_equal. lia.
Qed.

Lemma concat_rep1 {A} (x : list A) : concat (repN x 1) = x.
Proof. unfold repN. cbn. apply app_nil_r. Qed.
Lemma lenN_concat_rep {A} (x : list A) k : lenN (concat (repN x k)) = lenN x * k.
Proof.
  unfold repN. rewrite <- (N2Nat.id k) at 2. induction (N.to_nat k) as [|j IH]; cbn [repeat concat].
  - rewrite lenN_nil. lia.
  - rewrite lenN_app, IH. lia.
Qed.

(* the part of InsertCharsAux after the early exits and the self-entanglement copy *)
Lemma insert_aux_ext s idx r n count :
  inv s -> nthN 0 r <> 0 -> n <> 0 -> n <= lenN r -> slen s + n * count + 1 <= LIM ->
  exists s', insert_aux s idx (Some r) false n count = (StOk, s') /\ inv s' /\
             abs s' = l0_insert (abs s) idx (concat (repN (takeN n r) count)).
Proof.
  intros I R0 N0 Nr B. unfold StrModel.insert_aux.
  apply N.eqb_neq in R0, N0. rewrite R0, N0. cbn [orb].
  assert (E1 : (2147483646 <=? n * count + slen s) = false) by (apply N.leb_gt; unfold LIM in B; lia). rewrite E1.
  rewrite u32_small by (unfold LIM in B; lia).
  set (D := concat (repN (takeN n r) count)).
  assert (LD : lenN D = n * count) by (unfold D; rewrite lenN_concat_rep, lenN_takeN; f_equal; lia).
  unfold l0_insert. rewrite (lenN_abs s I).
  destruct (n * count =? 0) eqn:E2.
  { apply N.eqb_eq in E2. exists s. splits; trivial. rewrite (lenN_0 D) by lia. cbn [app]. now rewrite takeN_dropN. }
  rewrite u32_small by (unfold LIM in B; lia).
  destruct (ensure_grow_ok s (slen s + n * count + 1) I B) as (s1 & E & I1 & C1 & L1 & A1 & P1).
  rewrite E. eexists. split; [reflexivity|].
  rewrite <- LD. rewrite <- L1, <- A1.
  apply (insert_core s1 (N.min idx (slen s1)) D I1); lia.
Qed.

Lemma insert_chars_spec s idx c m :
  inv s -> nulfree (abs s) -> carg_ok c -> slen s + lenN (clit_of (abs s) c) + 1 <= LIM ->
  exists s', insert_chars s idx c m = (StOk, s') /\ inv s' /\
             abs s' = l0_insert (abs s) idx (takeN m (clit_of (abs s) c)).
Proof.
  intros I F C B. unfold StrModel.insert_chars.
  pose proof (cstr_cregion s c I F C) as R.
  assert (Triv : forall x, lenN x = 0 -> l0_insert (abs s) idx x = abs s).
  { intros x Hx. rewrite (lenN_0 x Hx). unfold l0_insert. cbn [app]. apply takeN_dropN. }
  destruct (cregion s c) as [r|] eqn:ER.
  2:{ subst c. exists s. splits; trivial. cbn [clit_of]. rewrite Triv; trivial. now rewrite takeN_nil. }
  set (x := clit_of (abs s) c) in *.
  assert (R0 : nthN 0 r = nthN 0 x \/ (nthN 0 r = 0 /\ x = [])).
  { destruct r as [|a t]; cbn [cstr] in R.
    - right. split; [reflexivity|now rewrite <- R].
    - destruct (a =? 0) eqn:Ea; [right; split; [apply N.eqb_eq in Ea; now rewrite Ea|now rewrite <- R]|].
      left. rewrite <- R. reflexivity. }
  destruct ((nthN 0 r =? 0) || (m =? 0)) eqn:E0.
  { exists s. splits; trivial. rewrite Triv; trivial. rewrite lenN_takeN.
    apply orb_true_iff in E0. destruct E0 as [E0|E0]; apply N.eqb_eq in E0; [|lia].
    destruct R0 as [R0|[_ ->]]; [|rewrite lenN_nil; lia].
    destruct x as [|a t]; [rewrite lenN_nil; lia|]. rewrite nthN_cons_0 in R0.
    pose proof (cstr_is_nulfree r) as Fr. rewrite R in Fr. inversion Fr; subst. congruence. }
  apply orb_false_iff in E0. destruct E0 as [E0 E0']. apply N.eqb_neq in E0, E0'.
  rewrite R. set (n := N.min (lenN x) m).
  assert (Hn : n <> 0).
  { unfold n. destruct R0 as [R0|[R0 _]]; [|congruence]. destruct x; [cbn in R0; congruence|rewrite lenN_cons; lia]. }
  destruct c as [|l|off]; [discriminate ER| |]; cbn [clocal].
  - (* a separate array *)
    cbn [StrModel.cregion] in ER. inversion ER; subst r. cbn [clit_of] in x.
    destruct (insert_aux_ext s idx (l ++ [0]) n 1 I E0 Hn) as (s' & E & I' & A').
    + unfold n, x. rewrite lenN_app. lia.
    + unfold n. fold x in B. lia.
    + exists s'. splits; trivial. rewrite A'. rewrite concat_rep1. f_equal.
      unfold n. rewrite takeN_app_le by (fold x; lia). fold x. rewrite N.min_comm. apply takeN_min_len.
  - (* a pointer into our own array: a temporary copy is inserted *)
    unfold StrModel.insert_aux. apply N.eqb_neq in E0, Hn. rewrite E0, Hn. cbn [orb].
    apply N.eqb_neq in E0, Hn. rewrite R.
    set (t := takeN n x).
    assert (Lt : lenN t = n) by (unfold t, n; rewrite lenN_takeN; lia).
    rewrite Lt. replace (N.min n n) with n by lia.
    (* from here on it is the external case with the copy t ++ [0] *)
    destruct (insert_aux_ext s idx (t ++ [0]) n 1 I) as (s' & E & I' & A').
    + rewrite nthN_app_l by lia. unfold t. rewrite nthN_takeN by lia.
      destruct R0 as [R0|[R0 _]]; congruence.
    + exact Hn.
    + rewrite lenN_app. lia.
    + unfold n. lia.
    + unfold StrModel.insert_aux in E. apply N.eqb_neq in Hn.
      assert (E0t : (nthN 0 (t ++ [0]) =? 0) = false).
      { apply N.eqb_neq. rewrite nthN_app_l by (apply N.eqb_neq in Hn; lia). unfold t. rewrite nthN_takeN by (apply N.eqb_neq in Hn; lia).
        destruct R0 as [R0|[R0 _]]; congruence. }
      rewrite E0t, Hn in E. cbn [orb] in E.
      exists s'. split; [exact E|]. split; [exact I'|]. rewrite A'. rewrite concat_rep1. f_equal.
      rewrite takeN_app_le by lia. rewrite takeN_all by lia. unfold t, n. rewrite N.min_comm. apply takeN_min_len.
Qed.

(* ---------------------------------------------------------------- capacity operations *)

(* Prealloc never changes the value, whatever it is asked for (the repaired F27) *)
Lemma prealloc_safe s n : inv s -> inv (snd (prealloc s n)) /\ abs (snd (prealloc s n)) = abs s.
Proof.
  intros I. unfold StrModel.prealloc.
  pose proof (ensure_grow s (u32 (n + 1)) I) as G.
  destruct (ensure s (u32 (n + 1)) true false) as [[|] s']; cbn [snd].
  - destruct G as (G1 & _ & G3 & G4). split; trivial. now apply abs_of_prefix.
  - subst s'. split; trivial.
Qed.
Lemma prealloc_ok s n : inv s -> n + 1 <= LIM ->
  exists s', prealloc s n = (StOk, s') /\ inv s' /\ abs s' = abs s /\ n + 1 <= cap s' /\ slen s' = slen s.
Proof.
  intros I B. unfold StrModel.prealloc. rewrite u32_small by (unfold LIM in B; lia).
  destruct (ensure_grow_ok s (n + 1) I B) as (s1 & E & I1 & C1 & L1 & A1 & _).
  exists s1. splits; trivial.
Qed.

(* ShrinkToFit never changes the value either (the repaired F31) *)
Lemma shrink_safe s extra : inv s -> inv (snd (shrink_to_fit s extra)) /\ abs (snd (shrink_to_fit s extra)) = abs s.
Proof.
  intros I. unfold StrModel.shrink_to_fit.
  pose proof (inv_lt _ I) as Lt. pose proof (cap_lt s I) as Cl.
  set (req := u32 (slen s + 1 + N.min extra (NOLIMIT - (slen s + 1)))).
  assert (R : slen s < req).
  { unfold req, NOLIMIT. rewrite u32_small by lia. lia. }
  pose proof (ensure_shrink s req I R) as G.
  destruct (ensure s req true true) as [[|] s']; cbn [snd].
  - destruct G as (G1 & G2 & _). split; trivial.
  - subst s'. split; trivial.
Qed.

Lemma trunc_spec s l : inv s -> l <= slen s ->
  inv (commit s (upd (buf s) l 0) l) /\ abs (commit s (upd (buf s) l 0) l) = takeN l (abs s).
Proof.
  intros I L. pose proof (inv_len _ I) as Ln. pose proof (inv_lt _ I) as Lt.
  destruct (commit_spec s (upd (buf s) l 0) l I) as (A1 & A2 & A3 & _).
  - rewrite lenN_upd; lia.
  - lia.
  - apply nthN_upd_same. lia.
  - split; trivial. rewrite A3. rewrite takeN_upd_before by lia.
    unfold StrModel.abs. now rewrite takeN_takeN_le.
Qed.
Lemma trunc_chars_spec s n : inv s -> inv (trunc_chars s n) /\ abs (trunc_chars s n) = l0_trunc_chars (abs s) n.
Proof.
  intros I. unfold StrModel.trunc_chars, l0_trunc_chars. rewrite (lenN_abs s I). apply trunc_spec; trivial. lia.
Qed.
Lemma trunc_to_spec s n : inv s -> inv (trunc_to s n) /\ abs (trunc_to s n) = l0_trunc_to (abs s) n.
Proof.
  intros I. unfold StrModel.trunc_to, l0_trunc_to. rewrite (lenN_abs s I). apply trunc_spec; trivial. lia.
Qed.

(* ---------------------------------------------------------------- Flatten / Unflatten *)

Lemma flatten_spec s : inv s -> flatten1 s = abs s ++ [0].
Proof. intros I. unfold StrModel.flatten1. now apply take_with_nul. Qed.

Lemma cstr_fixpoint_unterminated bytes : list_eqb (cstr bytes) bytes = true <-> nulfree bytes.
Proof.
  induction bytes as [|x t IH]; cbn [cstr].
  - split; [constructor|reflexivity].
  - destruct (x =? 0) eqn:E.
    + split; [discriminate|]. intros H. inversion H; subst. apply N.eqb_eq in E. congruence.
    + cbn [list_eqb]. rewrite N.eqb_refl. cbn [andb]. rewrite IH. split.
      * intros H. constructor; [now apply N.eqb_neq|assumption].
      * intros H. now inversion H.
Qed.

(* parsing: input with a terminator yields the bytes before it; unterminated (or empty) input is rejected
   and leaves the String alone (the repaired F28) *)
Lemma unflatten_spec s bytes :
  inv s -> lenN bytes < LIM ->
  (nulfree bytes -> unflatten1 s bytes = (StErr, s)) /\
  (~ nulfree bytes -> exists s', unflatten1 s bytes = (StOk, s') /\ inv s' /\ abs s' = cstr bytes).
Proof.
  intros I B. unfold StrModel.unflatten1. split; intros H.
  - apply cstr_fixpoint_unterminated in H. now rewrite H.
  - destruct (list_eqb (cstr bytes) bytes) eqn:E; [apply cstr_fixpoint_unterminated in E; contradiction|].
    (* SetCstr of an external array: its specification does not look at the subject's value *)
    unfold StrModel.set_cstr. cbn [StrModel.cregion].
    rewrite (cstr_nulfree_app (cstr bytes) []) by apply cstr_is_nulfree.
    set (x := cstr bytes).
    assert (Lx : lenN x <= lenN bytes).
    { unfold x. clear. induction bytes as [|a t IH]; cbn [cstr]; [lia|]. destruct (a =? 0); rewrite ?lenN_cons, ?lenN_nil; lia. }
    replace (N.min NOLIMIT (lenN x)) with (lenN x) by (unfold NOLIMIT, LIM in *; lia).
    destruct (0 <? lenN x) eqn:E0.
    2:{ apply N.ltb_ge in E0. exists (clear s). destruct (clear_spec s I) as (A1 & A2 & _). splits; trivial.
        rewrite A2. symmetry. apply lenN_0. lia. }
    rewrite u32_small by (unfold LIM in *; lia).
    destruct (ensure_noretain_ok s (lenN x + 1) I) as (s1 & E1 & I1 & C1 & _); [unfold LIM in *; lia|].
    rewrite E1. eexists. split; [reflexivity|].
    rewrite takeN_app_le by lia. rewrite takeN_all by lia.
    destruct (commit_set s1 x (lenN x) I1 eq_refl) as (A1 & A2 & _); [lia|]. split; trivial.
Qed.

(* ---------------------------------------------------------------- constructors *)

Lemma ctor_sub_spec o first after : src_ok o -> snd o < LIM ->
  inv (ctor_sub o first after) /\ abs (ctor_sub o first after) = l0_sub (src_bytes o) first after.
Proof.
  intros O B. unfold StrModel.ctor_sub.
  destruct inv_empty1 as (I0 & _).
  destruct (set_from_spec empty1 (Some o) first after I0) as (s' & E & I' & A'); [split; trivial|].
  rewrite E. cbn [snd]. split; trivial.
Qed.
Lemma l0_sub_all l : l0_sub l 0 NOLIMIT = l \/ NOLIMIT < lenN l.
Proof.
  destruct (N.le_gt_cases (lenN l) NOLIMIT) as [H|H]; [left|now right].
  unfold l0_sub. rewrite N.min_r by lia. destruct (0 <? lenN l) eqn:E.
  - rewrite dropN_0, N.sub_0_r. apply takeN_all. lia.
  - apply N.ltb_ge in E. symmetry. apply lenN_0. lia.
Qed.
Lemma l0_sub_all' l : lenN l < LIM -> l0_sub l 0 NOLIMIT = l.
Proof. intros H. destruct (l0_sub_all l) as [E|E]; trivial. unfold NOLIMIT, LIM in *. lia. Qed.
Lemma ctor_copy_spec o : src_ok o -> snd o < LIM -> inv (ctor_copy o) /\ abs (ctor_copy o) = src_bytes o.
Proof.
  intros O B. unfold StrModel.ctor_copy. fold (ctor_sub o 0 NOLIMIT).
  destruct (ctor_sub_spec o 0 NOLIMIT O B) as (I & A). split; trivial. rewrite A.
  apply l0_sub_all'. now rewrite lenN_src_bytes.
Qed.
Lemma ctor_copy_pre_spec o extra : src_ok o -> snd o < LIM ->
  inv (ctor_copy_pre o extra) /\ abs (ctor_copy_pre o extra) = src_bytes o.
Proof.
  intros O B. unfold StrModel.ctor_copy_pre.
  destruct inv_empty1 as (I0 & _).
  destruct (prealloc_safe empty1 (u32 (snd o + extra)) I0) as (I1 & _).
  destruct (set_from_spec (snd (prealloc empty1 (u32 (snd o + extra)))) (Some o) 0 NOLIMIT I1) as (s' & E & I' & A'); [split; trivial|].
  rewrite E. cbn [snd]. split; trivial. rewrite A'. cbn [StrModel.osrc]. apply l0_sub_all'. now rewrite lenN_src_bytes.
Qed.
Lemma ctor_pre_lit_spec pre l : nulfree l -> lenN l < LIM ->
  inv (ctor_pre_lit pre l) /\ abs (ctor_pre_lit pre l) = l.
Proof.
  intros F B. unfold StrModel.ctor_pre_lit.
  destruct inv_empty1 as (I0 & _ & A0 & _).
  destruct (prealloc_safe empty1 pre I0) as (I1 & A1).
  destruct (set_cstr_spec (snd (prealloc empty1 pre)) (CLit l) NOLIMIT I1) as (s' & E & I' & A').
  - rewrite A1, A0. constructor.
  - split; trivial.
  - rewrite E. cbn [snd]. split; trivial. rewrite A'. cbn [clit_of]. apply takeN_all. unfold NOLIMIT, LIM in *. lia.
Qed.

(* ---------------------------------------------------------------- in-place edits *)

(* write (data ++ NUL) at offset i <= Length() and set the length to i + |data| *)
Lemma commit_at s i data :
  inv s -> i <= slen s -> i + lenN data + 1 <= cap s ->
  let s' := commit s (blit (buf s) i (data ++ [0])) (i + lenN data) in
  inv s' /\ abs s' = takeN i (abs s) ++ data.
Proof.
  intros I Hi C s'. pose proof (inv_len _ I) as Ln. pose proof (inv_lt _ I) as Lt.
  assert (Ld : lenN (data ++ [0]) = lenN data + 1) by (rewrite lenN_app, lenN_cons, lenN_nil; lia).
  destruct (commit_spec s (blit (buf s) i (data ++ [0])) (i + lenN data) I) as (A1 & A2 & A3 & _).
  - rewrite lenN_blit; lia.
  - lia.
  - rewrite nthN_blit_in by lia. replace (i + lenN data - i) with (lenN data) by lia.
    rewrite nthN_app_r by lia. now rewrite N.sub_diag.
  - unfold s'. split; trivial. rewrite A3.
    rewrite <- (takeN_takeN_le (i + lenN data) (i + lenN (data ++ [0]))) by lia.
    rewrite takeN_blit_cover by lia.
    rewrite takeN_app_ge by (rewrite lenN_takeN; lia). rewrite lenN_takeN. f_equal.
    + unfold StrModel.abs. now rewrite takeN_takeN_le.
    + replace (i + lenN data - N.min i (lenN (buf s))) with (lenN data) by lia. apply takeN_app_exact.
Qed.

(* remove k bytes at idx: memmove(b+idx, b+idx+k, 1+len-(idx+k)); SetLength(len-k) *)
Lemma cut_spec s idx k : inv s -> idx + k <= slen s ->
  inv (cut s idx k) /\ abs (cut s idx k) = takeN idx (abs s) ++ dropN (idx + k) (abs s).
Proof.
  intros I H. unfold StrModel.cut.
  pose proof (inv_len _ I) as Ln. pose proof (inv_lt _ I) as Lt.
  set (Y := dropN (idx + k) (abs s)).
  assert (LY : lenN Y = slen s - (idx + k)) by (unfold Y; rewrite lenN_dropN, (lenN_abs s I); lia).
  assert (E : takeN (1 + slen s - (idx + k)) (dropN (idx + k) (buf s)) = Y ++ [0]).
  { rewrite takeN_dropN_comm. replace (1 + slen s - (idx + k) + (idx + k)) with (slen s + 1) by lia.
    rewrite (take_with_nul s I). unfold Y. rewrite dropN_app_le; trivial. rewrite (lenN_abs s I). lia. }
  rewrite E. replace (slen s - k) with (idx + lenN Y) by lia.
  apply commit_at; trivial; lia.
Qed.

Lemma map_content_spec s f : inv s -> lenN (f (abs s)) = slen s ->
  inv (map_content s f) /\ abs (map_content s f) = f (abs s).
Proof.
  intros I L. unfold StrModel.map_content. fold (abs s).
  pose proof (inv_len _ I) as Ln. pose proof (inv_lt _ I) as Lt. pose proof (inv_nul _ I) as Nu.
  set (b' := f (abs s) ++ dropN (slen s) (buf s)).
  assert (Lb : lenN b' = cap s) by (unfold b'; rewrite lenN_app, lenN_dropN; lia).
  assert (T : takeN (slen s) b' = f (abs s)) by (unfold b'; rewrite <- L; apply takeN_app_exact).
  assert (Nth : forall j, slen s <= j -> nthN j b' = nthN j (buf s)).
  { intros j Hj. unfold b'. rewrite nthN_app_r by lia. rewrite L, nthN_dropN. f_equal. lia. }
  destruct s as [b|h n c]; cbn [StrModel.wbuf].
  - cbn [StrModel.slen StrModel.cap buf] in *. destruct I as (_ & _ & _ & I4).
    assert (EM : nthN M b' = nthN M b) by (apply Nth; lia).
    unfold StrCore.inv, StrModel.abs. cbn [StrModel.slen StrModel.cap buf]. rewrite EM.
    splits; trivial. rewrite Nth by lia. exact Nu.
  - cbn [StrModel.slen StrModel.cap buf] in *. destruct I as (_ & _ & _ & I4).
    unfold StrCore.inv, StrModel.abs. cbn [StrModel.slen StrModel.cap buf].
    splits; trivial; try lia. rewrite Nth by lia. exact Nu.
Qed.

Lemma reverse_spec s : inv s -> inv (reverse1 s) /\ abs (reverse1 s) = rev (abs s).
Proof. intros I. apply map_content_spec; trivial. now rewrite lenN_rev, (lenN_abs s I). Qed.

Lemma lenN_replace_ch_aux l a b max : lenN (fst (replace_ch_aux l a b max)) = lenN l.
Proof.
  revert max. induction l as [|x t IH]; intros max; cbn [replace_ch_aux]; [reflexivity|].
  destruct ((0 <? max) && (x =? a)).
  - specialize (IH (max - 1)). destruct (replace_ch_aux t a b (max - 1)). cbn [fst] in *. rewrite !lenN_cons. lia.
  - specialize (IH max). destruct (replace_ch_aux t a b max). cbn [fst] in *. rewrite !lenN_cons. lia.
Qed.
Lemma lenN_replace_ch l a b max from : lenN (fst (l0_replace_ch l a b max from)) = lenN l.
Proof.
  unfold l0_replace_ch. destruct (negb (a =? b) && (from <? lenN l)) eqn:E; [|reflexivity].
  apply andb_true_iff in E. destruct E as [_ E]. apply N.ltb_lt in E.
  pose proof (lenN_replace_ch_aux (dropN from l) a b max) as H.
  destruct (replace_ch_aux (dropN from l) a b max). cbn [fst] in *.
  rewrite lenN_app, H, lenN_takeN, lenN_dropN. lia.
Qed.
Lemma replace_ch_spec s a b max from : inv s ->
  inv (fst (replace_ch1 s a b max from)) /\ abs (fst (replace_ch1 s a b max from)) = fst (l0_replace_ch (abs s) a b max from) /\
  snd (replace_ch1 s a b max from) = snd (l0_replace_ch (abs s) a b max from).
Proof.
  intros I. unfold StrModel.replace_ch1.
  pose proof (lenN_replace_ch (abs s) a b max from) as L.
  destruct (l0_replace_ch (abs s) a b max from) as [l k]. cbn [fst snd] in *.
  destruct (map_content_spec s (fun _ => l) I) as (A1 & A2).
  - rewrite L. apply (lenN_abs s I).
  - splits; trivial.
Qed.

End Ops.
