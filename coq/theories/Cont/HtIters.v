(* C09 -- the iterator table: the three fix-up loops (RemoveIterationEntry's patching, Clear's
   detaching, SwapContents' owner update) are instances of one fold; its pointwise description. *)
From Coq Require Import List Arith ZArith NArith PArith Bool Lia FMapPositive.
From Muscle Require Import Cont.HtModel Cont.HtLemmas.
Import ListNotations.

Definition map_its (f : iter -> iter) (L : list nat) (I : itab) : itab :=
  fold_left (fun I i => match geti I i with
                        | Some it => seti I i (Some (f it))
                        | None => I
                        end) L I.

Lemma patch_all_eq : forall h e I, patch_all h e I = map_its (patch_iter h e) (ilist h) I.
Proof. reflexivity. Qed.
Lemma detach_all_eq : forall h I, detach_all h I = map_its (detach_iter h) (ilist h) I.
Proof. reflexivity. Qed.

Lemma geti_seti_same : forall I i x, i < length I -> geti (seti I i x) i = x.
Proof. intros. unfold geti, seti. apply nth_upd_nth_same. assumption. Qed.

Lemma geti_seti_other : forall I i j x, i <> j -> geti (seti I i x) j = geti I j.
Proof. intros. unfold geti, seti. apply nth_upd_nth_other. assumption. Qed.

Lemma length_seti : forall I i x, length (seti I i x) = length I.
Proof. intros. apply upd_nth_length. Qed.

Lemma geti_some_lt : forall I i it, geti I i = Some it -> i < length I.
Proof.
  intros I i it H. unfold geti in H. destruct (Nat.lt_ge_cases i (length I)) as [Hl|Hg]; [exact Hl|].
  rewrite nth_overflow in H by exact Hg. discriminate.
Qed.

Lemma map_its_length : forall f L I, length (map_its f L I) = length I.
Proof.
  intros f L. unfold map_its. induction L as [|i L IH]; intros I; [reflexivity|]. cbn [fold_left].
  rewrite IH. destruct (geti I i); [apply length_seti|reflexivity].
Qed.

Lemma map_its_notin : forall f L I j, ~ In j L -> geti (map_its f L I) j = geti I j.
Proof.
  intros f L. unfold map_its. induction L as [|i L IH]; intros I j Hn; [reflexivity|]. cbn [fold_left].
  rewrite IH by (intro H; apply Hn; right; exact H).
  destruct (geti I i); [|reflexivity]. apply geti_seti_other. intro; subst. apply Hn. left; reflexivity.
Qed.

Lemma map_its_in : forall f L I j, NoDup L -> In j L -> geti (map_its f L I) j = option_map f (geti I j).
Proof.
  intros f L. unfold map_its. induction L as [|i L IH]; intros I j Hnd Hin; [destruct Hin|].
  inversion Hnd as [|? ? Hni Hnd']; subst. cbn [fold_left]. destruct Hin as [->|Hin].
  - fold (map_its f L (match geti I j with Some it => seti I j (Some (f it)) | None => I end)).
    rewrite map_its_notin by exact Hni.
    destruct (geti I j) as [it|] eqn:E; [|rewrite E; reflexivity].
    rewrite geti_seti_same by (eapply geti_some_lt; eassumption). reflexivity.
  - rewrite IH by assumption. destruct (geti I i) as [it|] eqn:E; [|reflexivity].
    rewrite geti_seti_other by (intro; subst; contradiction). reflexivity.
Qed.

