(* C16 -- Sort (stable, on a sub-range, by a key), QueueIterator, RemoveSortedDuplicateItems /
   RemoveDuplicateItems, InsertItemAtSortedPosition: what the ideal operations guarantee (sortedness,
   permutation, stability) and their refinement by the representation-level operations. *)
From Coq Require Import List Arith ZArith Bool Lia ZifyBool Sorting.Permutation Sorting.Sorted.
From Muscle Require Import Cont.QueueModel Cont.QueueLemmas Cont.QueueInv Cont.QueueOps1 Cont.QueueEnsure
  Cont.QueueOps2 Cont.QueueOps3.
Import ListNotations.
Local Open Scope nat_scope.

(* ------------------------------------------------------------------ the ideal stable sort *)

Section StableSort.
Variable k : Z -> Z.
Definition key_le (x y : Z) : Prop := (k x <= k y)%Z.

Lemma insert_by_length x l : length (insert_by k x l) = S (length l).
Proof. induction l as [|y t IH]; cbn [insert_by length]; [reflexivity|]. destruct (Z.leb (k x) (k y)); cbn [length]; lia. Qed.

Lemma isort_by_length l : length (isort_by k l) = length l.
Proof. induction l as [|x l IH]; cbn [isort_by fold_right length]; [reflexivity|]. rewrite insert_by_length. fold (isort_by k l). lia. Qed.

Lemma insert_by_perm x l : Permutation (insert_by k x l) (x :: l).
Proof.
  induction l as [|y t IH]; cbn [insert_by]; [apply Permutation_refl|].
  destruct (Z.leb (k x) (k y)); [apply Permutation_refl|].
  eapply perm_trans; [apply perm_skip; exact IH|apply perm_swap].
Qed.

Lemma isort_by_perm l : Permutation (isort_by k l) l.
Proof.
  induction l as [|x l IH]; cbn [isort_by fold_right]; [apply perm_nil|]. fold (isort_by k l).
  eapply perm_trans; [apply insert_by_perm|apply perm_skip; exact IH].
Qed.

Lemma insert_by_forall (P : Z -> Prop) x l : P x -> Forall P l -> Forall P (insert_by k x l).
Proof.
  intros Hx Hl. induction Hl as [|y t Hy Ht IH]; cbn [insert_by]; [constructor; [assumption|constructor]|].
  destruct (Z.leb (k x) (k y)); constructor; try assumption. constructor; assumption.
Qed.

Lemma insert_by_sorted x l : StronglySorted key_le l -> StronglySorted key_le (insert_by k x l).
Proof.
  intros H. induction H as [|y t Ht IH Hy]; cbn [insert_by]; [constructor; [constructor|constructor]|].
  destruct (Z.leb (k x) (k y)) eqn:E.
  - constructor; [constructor; assumption|]. constructor; [unfold key_le; lia|].
    eapply Forall_impl; [|exact Hy]. unfold key_le. intros z Hz. lia.
  - constructor; [exact IH|]. apply insert_by_forall; [unfold key_le; lia|exact Hy].
Qed.

Lemma isort_by_sorted l : StronglySorted key_le (isort_by k l).
Proof.
  induction l as [|x l IH]; cbn [isort_by fold_right]; [constructor|]. apply insert_by_sorted. exact IH.
Qed.

(* stability: items with the same key keep their relative order *)
Lemma insert_by_filter v x l :
  filter (fun y => Z.eqb (k y) v) (insert_by k x l) = filter (fun y => Z.eqb (k y) v) (x :: l).
Proof.
  induction l as [|y t IH]; cbn [insert_by]; [reflexivity|].
  destruct (Z.leb (k x) (k y)) eqn:E; [reflexivity|].
  cbn [filter] in *. rewrite IH.
  destruct (Z.eqb (k x) v) eqn:Ex; destruct (Z.eqb (k y) v) eqn:Ey; try reflexivity. lia.
Qed.

Lemma isort_by_stable v l :
  filter (fun y => Z.eqb (k y) v) (isort_by k l) = filter (fun y => Z.eqb (k y) v) l.
Proof.
  induction l as [|x l IH]; cbn [isort_by fold_right]; [reflexivity|]. fold (isort_by k l).
  rewrite insert_by_filter. cbn [filter]. rewrite IH. reflexivity.
Qed.

End StableSort.

(* Sort(from, to) on the ideal sequence: same length, a permutation, untouched outside the range, and
   inside the range sorted by the key with equal-key items in their original order *)
Lemma l0_sort_length bk l f t : length (l0_sort bk l f t) = length l.
Proof.
  unfold l0_sort. cbv zeta. destruct (f <? Nat.min t (length l)) eqn:E; [|reflexivity].
  autorewrite with nthdb. rewrite isort_by_length. autorewrite with nthdb. lia.
Qed.

Theorem l0_sort_perm bk l f t : Permutation (l0_sort bk l f t) l.
Proof.
  unfold l0_sort. cbv zeta. set (t' := Nat.min t (length l)).
  destruct (f <? t') eqn:E; [|apply Permutation_refl].
  rewrite <- (firstn_skipn f l) at 4. apply Permutation_app_head.
  rewrite <- (firstn_skipn (t' - f) (skipn f l)) at 2.
  assert (Hsk : skipn t' l = skipn (t' - f) (skipn f l)) by (rewrite skipn_skipn'; f_equal; lia).
  rewrite Hsk.
  apply Permutation_app_tail. apply isort_by_perm.
Qed.

Theorem l0_sort_range bk l f t :
  let t' := Nat.min t (length l) in
  f < t' ->
  exists mid, l0_sort bk l f t = firstn f l ++ mid ++ skipn t' l /\ length mid = t' - f /\
    StronglySorted (key_le (sort_key bk)) mid /\
    forall v, filter (fun y => Z.eqb (sort_key bk y) v) mid =
              filter (fun y => Z.eqb (sort_key bk y) v) (firstn (t' - f) (skipn f l)).
Proof.
  intros t' H. unfold l0_sort. cbv zeta. fold t'. replace (f <? t') with true by lia.
  exists (isort_by (sort_key bk) (firstn (t' - f) (skipn f l))).
  split; [reflexivity|]. split; [rewrite isort_by_length; autorewrite with nthdb; subst t'; lia|].
  split; [apply isort_by_sorted|]. intros v. apply isort_by_stable.
Qed.

(* ------------------------------------------------------------------ helpers *)

Lemma dedup_fold_length l : forall acc, length (fold_left dedup_step l acc) <= length acc + length l.
Proof.
  induction l as [|x l IH]; intros acc; cbn [fold_left length]; [lia|].
  specialize (IH (dedup_step acc x)). unfold dedup_step in *.
  destruct acc as [|y acc']; cbn [length] in *; [lia|]. destruct (Z.eqb x y); cbn [length] in *; lia.
Qed.

Lemma dedup_adj_length l : length (dedup_adj l) <= length l.
Proof. unfold dedup_adj. rewrite rev_length. apply (dedup_fold_length l []). Qed.

Lemma last_le_bound x l : forall i j, last_le x l i = Some j -> i <= j < i + length l.
Proof.
  induction l as [|y t IH]; intros i j H; cbn [last_le length] in *; [discriminate|].
  destruct (last_le x t (S i)) as [j'|] eqn:E.
  - injection H as <-. apply IH in E. lia.
  - destruct (Z.leb y x); [injection H as <-; lia|discriminate].
Qed.

Lemma sorted_pos_bound l x : sorted_pos l x <= length l.
Proof.
  unfold sorted_pos. destruct l as [|h t]; [cbn; lia|]. destruct (Z.leb h x); [|lia].
  destruct (last_le x (h :: t) 0) as [j|] eqn:E; [|lia]. apply last_le_bound in E. lia.
Qed.

(* the window read as its (at most two) contiguous runs of slots is the item sequence *)
Lemma pieces_spec ow sq q : inv ow sq q -> fst (pieces q) ++ snd (pieces q) = abs q.
Proof.
  intros I. unfold pieces. destruct (cnt q) as [|c] eqn:Ec; [rewrite (abs_cnt0 q Ec); reflexivity|].
  pose proof (inv_cnt _ _ q I) as Hn. pose proof (inv_hd _ _ q I ltac:(lia)) as Hh.
  pose proof (inv_tail _ _ q I ltac:(lia)) as Ht. rewrite Ec in Hn.
  replace (S c - 1) with c in Ht by lia. cbn [fst snd].
  unfold intern in Ht. cbv zeta in Ht. unfold qsize in *.
  symmetry. apply abs_ext.
  - autorewrite with nthdb. difh; autorewrite with nthdb; cbn [length]; lia.
  - intros i Hi. unfold getu, intern, qsize. cbv zeta.
    assert (Hic : i < S c).
    { revert Hi. autorewrite with nthdb. difh; autorewrite with nthdb; cbn [length]; lia. }
    clear Hi. autorewrite with nthdb. difh; autorewrite with nthdb; cbn [length nth]; difh; fin;
      try (destruct (i - (length (arr q) - head q)); reflexivity).
Qed.

Lemma lex_loop_abs a b k : forall i, i + k <= cnt a -> i + k <= cnt b ->
  lex_loop (getu a) (getu b) i k = lex_loop (fun j => nth j (abs a) 0%Z) (fun j => nth j (abs b) 0%Z) i k.
Proof.
  induction k as [|k IH]; intros i Ha Hb; cbn [lex_loop]; [reflexivity|].
  rewrite !nth_abs by lia. rewrite IH by lia. reflexivity.
Qed.

Lemma lex_cmp_abs a b :
  lex_cmp (getu a) (cnt a) (getu b) (cnt b) =
  lex_cmp (fun j => nth j (abs a) 0%Z) (length (abs a)) (fun j => nth j (abs b) 0%Z) (length (abs b)).
Proof. unfold lex_cmp. rewrite !abs_length, lex_loop_abs by lia. reflexivity. Qed.

Section SortOps.
Variables (jk : Z) (sq : nat).
Implicit Types (ow : bool) (q : q1).

(* overwriting the whole window *)
Lemma write_all_spec ow q xs : inv ow sq q -> length xs = cnt q ->
  inv ow sq (write_from q 0 xs) /\ abs (write_from q 0 xs) = xs.
Proof.
  intros I H. destruct (write_from_spec sq ow xs q 0 I ltac:(lia)) as (J1&_). split; [exact J1|].
  rewrite (write_from_abs sq ow) by (assumption || lia). cbn [firstn app Nat.add].
  rewrite skipn_all2 by (rewrite abs_length; lia). apply app_nil_r.
Qed.

Lemma sort_items_spec ow q bk f t : inv ow sq q ->
  inv ow sq (sort_items q bk f t) /\ abs (sort_items q bk f t) = l0_sort bk (abs q) f t.
Proof.
  intros I. unfold sort_items. apply write_all_spec; [assumption|]. rewrite l0_sort_length, abs_length. reflexivity.
Qed.

Lemma remove_sorted_dups_spec ow q : inv ow sq q ->
  let r := remove_sorted_dups ow jk sq q in
  inv ow sq (fst r) /\ abs (fst r) = dedup_adj (abs q) /\ snd r = cnt q - length (dedup_adj (abs q)).
Proof.
  intros I r. subst r. unfold remove_sorted_dups. destruct (cnt q =? 0) eqn:E; cbn [fst snd].
  - rewrite (abs_cnt0 q) by lia. split; [assumption|]. split; [reflexivity|]. cbn. lia.
  - set (keep := dedup_adj (abs q)).
    pose proof (dedup_adj_length (abs q)) as HL. fold keep in HL. rewrite abs_length in HL.
    destruct (write_from_spec sq ow keep q 0 I ltac:(lia)) as (J1&J2&_).
    pose proof (write_from_abs sq ow keep q 0 I ltac:(lia)) as J3.
    set (q2 := write_from q 0 keep) in *.
    destruct (ensure_size_spec jk sq ow q2 (length keep) true 0 false J1) as (K1&K2&_).
    split; [assumption|]. split; [|reflexivity].
    rewrite K2, l0_resize_shrink by (rewrite abs_length; lia). rewrite J3. cbn [firstn app Nat.add].
    replace (length keep) with (length keep + 0) at 1 by lia. rewrite firstn_app_2. cbn [firstn]. apply app_nil_r.
Qed.

Lemma insert_sorted_spec ow q x : inv ow sq q ->
  let r := insert_sorted ow jk sq q x in
  inv ow sq (fst r) /\ abs (fst r) = l0_insert_at (abs q) (sorted_pos (abs q) x) [x] /\
  snd r = sorted_pos (abs q) x.
Proof.
  intros I r. subst r. unfold insert_sorted. cbv zeta. cbn [fst snd].
  pose proof (sorted_pos_bound (abs q) x) as HB. rewrite abs_length in HB.
  set (p := sorted_pos (abs q) x) in *.
  destruct (p =? 0) eqn:E.
  - destruct (add_head_spec jk sq ow q x I) as [J1 J2]. split; [assumption|]. split; [|reflexivity].
    rewrite J2. replace p with 0 by lia. reflexivity.
  - destruct (insert_at_spec jk sq ow q p x I) as [J1 J2]. split; [assumption|]. split; [|reflexivity].
    rewrite J2. replace (Nat.min p (cnt q)) with p by lia. reflexivity.
Qed.

Lemma iter_vals_abs q stride fuel : forall idx,
  iter_vals (getu q) (cnt q) idx stride fuel =
  iter_vals (fun i => nth i (abs q) 0%Z) (length (abs q)) idx stride fuel.
Proof.
  rewrite abs_length. induction fuel as [|f IH]; intros idx; cbn [iter_vals]; [reflexivity|].
  destruct (Z.leb 0 idx && Z.ltb idx (Z.of_nat (cnt q))) eqn:E; [|reflexivity].
  rewrite IH. f_equal. symmetry. apply nth_abs. lia.
Qed.

End SortOps.
