(* C16 -- Sort (stable, on a sub-range, by a key), QueueIterator, RemoveSortedDuplicateItems /
   RemoveDuplicateItems, InsertItemAtSortedPosition: what the ideal operations guarantee (sortedness,
   permutation, stability) and their refinement by the representation-level operations. *)
From Coq Require Import List Arith ZArith Bool Lia ZifyBool Sorting.Permutation Sorting.Sorted.
From Muscle Require Import Cont.QueueModel Cont.QueueLemmas Cont.QueueInv Cont.QueueOps1 Cont.QueueEnsure
  Cont.QueueOps2 Cont.QueueOps3 Cont.QueueSortCS.
Import ListNotations.
Local Open Scope nat_scope.

(* ------------------------------------------------------------------ the ideal stable sort *)

Section StableSort.
Variable k : Z -> Z.
Definition key_le (x y : Z) : Prop := (k x <= k y)%Z.

Lemma insert_by_length x l : length (insert_by k x l) = S (length l).
Proof. induction l as [|y t IH]; cbn [insert_by length]; [reflexivity|]. destruct (Z.leb (k x) (k y)); cbn [length]; lia. Qed.

Lemma isort_by_length l : length (isort_by k l) = length l.
Proof. induction l as [|x l IH]; cbn [isort_by fold_right length]; [reflexivity|]. rewrite insert_by_length. fold (isort_by k l). lia. Qed.

Lemma insert_by_perm x l : Permutation (insert_by k x l) (x :: l).
Proof.
  induction l as [|y t IH]; cbn [insert_by]; [apply Permutation_refl|].
  destruct (Z.leb (k x) (k y)); [apply Permutation_refl|].
  eapply perm_trans; [apply perm_skip; exact IH|apply perm_swap].
Qed.

Lemma isort_by_perm l : Permutation (isort_by k l) l.
Proof.
  induction l as [|x l IH]; cbn [isort_by fold_right]; [apply perm_nil|]. fold (isort_by k l).
  eapply perm_trans; [apply insert_by_perm|apply perm_skip; exact IH].
Qed.

Lemma insert_by_forall (P : Z -> Prop) x l : P x -> Forall P l -> Forall P (insert_by k x l).
Proof.
  intros Hx Hl. induction Hl as [|y t Hy Ht IH]; cbn [insert_by]; [constructor; [assumption|constructor]|].
  destruct (Z.leb (k x) (k y)); constructor; try assumption. constructor; assumption.
Qed.

Lemma insert_by_sorted x l : StronglySorted key_le l -> StronglySorted key_le (insert_by k x l).
Proof.
  intros H. induction H as [|y t Ht IH Hy]; cbn [insert_by]; [constructor; [constructor|constructor]|].
  destruct (Z.leb (k x) (k y)) eqn:E.
  - constructor; [constructor; assumption|]. constructor; [unfold key_le; lia|].
    eapply Forall_impl; [|exact Hy]. unfold key_le. intros z Hz. lia.
  - constructor; [exact IH|]. apply insert_by_forall; [unfold key_le; lia|exact Hy].
Qed.

Lemma isort_by_sorted l : StronglySorted key_le (isort_by k l).
Proof.
  induction l as [|x l IH]; cbn [isort_by fold_right]; [constructor|]. apply insert_by_sorted. exact IH.
Qed.

(* stability: items with the same key keep their relative order *)
Lemma insert_by_filter v x l :
  filter (fun y => Z.eqb (k y) v) (insert_by k x l) = filter (fun y => Z.eqb (k y) v) (x :: l).
Proof.
  induction l as [|y t IH]; cbn [insert_by]; [reflexivity|].
  destruct (Z.leb (k x) (k y)) eqn:E; [reflexivity|].
  cbn [filter] in *. rewrite IH.
  destruct (Z.eqb (k x) v) eqn:Ex; destruct (Z.eqb (k y) v) eqn:Ey; try reflexivity. lia.
Qed.

Lemma isort_by_stable v l :
  filter (fun y => Z.eqb (k y) v) (isort_by k l) = filter (fun y => Z.eqb (k y) v) l.
Proof.
  induction l as [|x l IH]; cbn [isort_by fold_right]; [reflexivity|]. fold (isort_by k l).
  rewrite insert_by_filter. cbn [filter]. rewrite IH. reflexivity.
Qed.

End StableSort.

(* Sort(from, to) on the ideal sequence: same length, a permutation, untouched outside the range, and
   inside the range sorted by the key with equal-key items in their original order *)
Lemma l0_sort_length bk l f t : length (l0_sort bk l f t) = length l.
Proof.
  unfold l0_sort. cbv zeta. destruct (f <? Nat.min t (length l)) eqn:E; [|reflexivity].
  autorewrite with nthdb. rewrite isort_by_length. autorewrite with nthdb. lia.
Qed.

Theorem l0_sort_perm bk l f t : Permutation (l0_sort bk l f t) l.
Proof.
  unfold l0_sort. cbv zeta. set (t' := Nat.min t (length l)).
  destruct (f <? t') eqn:E; [|apply Permutation_refl].
  rewrite <- (firstn_skipn f l) at 4. apply Permutation_app_head.
  rewrite <- (firstn_skipn (t' - f) (skipn f l)) at 2.
  assert (Hsk : skipn t' l = skipn (t' - f) (skipn f l)) by (rewrite skipn_skipn'; f_equal; lia).
  rewrite Hsk.
  apply Permutation_app_tail. apply isort_by_perm.
Qed.

Theorem l0_sort_range bk l f t :
  let t' := Nat.min t (length l) in
  f < t' ->
  exists mid, l0_sort bk l f t = firstn f l ++ mid ++ skipn t' l /\ length mid = t' - f /\
    StronglySorted (key_le (sort_key bk)) mid /\
    forall v, filter (fun y => Z.eqb (sort_key bk y) v) mid =
              filter (fun y => Z.eqb (sort_key bk y) v) (firstn (t' - f) (skipn f l)).
Proof.
  intros t' H. unfold l0_sort. cbv zeta. fold t'. replace (f <? t') with true by lia.
  exists (isort_by (sort_key bk) (firstn (t' - f) (skipn f l))).
  split; [reflexivity|]. split; [rewrite isort_by_length; autorewrite with nthdb; subst t'; lia|].
  split; [apply isort_by_sorted|]. intros v. apply isort_by_stable.
Qed.

(* ------------------------------------------------------------------ helpers *)

Lemma dedup_fold_length l : forall acc, length (fold_left dedup_step l acc) <= length acc + length l.
Proof.
  induction l as [|x l IH]; intros acc; cbn [fold_left length]; [lia|].
  specialize (IH (dedup_step acc x)). unfold dedup_step in *.
  destruct acc as [|y acc']; cbn [length] in *; [lia|]. destruct (Z.eqb x y); cbn [length] in *; lia.
Qed.

Lemma dedup_adj_length l : length (dedup_adj l) <= length l.
Proof. unfold dedup_adj. rewrite rev_length. apply (dedup_fold_length l []). Qed.

Lemma last_le_bound x l : forall i j, last_le x l i = Some j -> i <= j < i + length l.
Proof.
  induction l as [|y t IH]; intros i j H; cbn [last_le length] in *; [discriminate|].
  destruct (last_le x t (S i)) as [j'|] eqn:E.
  - injection H as <-. apply IH in E. lia.
  - destruct (Z.leb y x); [injection H as <-; lia|discriminate].
Qed.

Lemma sorted_pos_bound l x : sorted_pos l x <= length l.
Proof.
  unfold sorted_pos. destruct l as [|h t]; [cbn; lia|]. destruct (Z.leb h x); [|lia].
  destruct (last_le x (h :: t) 0) as [j|] eqn:E; [|lia]. apply last_le_bound in E. lia.
Qed.

(* the window read as its (at most two) contiguous runs of slots is the item sequence *)
Lemma pieces_spec ow sq q : inv ow sq q -> fst (pieces q) ++ snd (pieces q) = abs q.
Proof.
  intros I. unfold pieces. destruct (cnt q) as [|c] eqn:Ec; [rewrite (abs_cnt0 q Ec); reflexivity|].
  pose proof (inv_cnt _ _ q I) as Hn. pose proof (inv_hd _ _ q I ltac:(lia)) as Hh.
  pose proof (inv_tail _ _ q I ltac:(lia)) as Ht. rewrite Ec in Hn.
  replace (S c - 1) with c in Ht by lia. cbn [fst snd].
  unfold intern in Ht. cbv zeta in Ht. unfold qsize in *.
  symmetry. apply abs_ext.
  - autorewrite with nthdb. difh; autorewrite with nthdb; cbn [length]; lia.
  - intros i Hi. unfold getu, intern, qsize. cbv zeta.
    assert (Hic : i < S c).
    { revert Hi. autorewrite with nthdb. difh; autorewrite with nthdb; cbn [length]; lia. }
    clear Hi. autorewrite with nthdb. difh; autorewrite with nthdb; cbn [length nth]; difh; fin;
      try (destruct (i - (length (arr q) - head q)); reflexivity).
Qed.

Lemma lex_loop_abs a b k : forall i, i + k <= cnt a -> i + k <= cnt b ->
  lex_loop (getu a) (getu b) i k = lex_loop (fun j => nth j (abs a) 0%Z) (fun j => nth j (abs b) 0%Z) i k.
Proof.
  induction k as [|k IH]; intros i Ha Hb; cbn [lex_loop]; [reflexivity|].
  rewrite !nth_abs by lia. rewrite IH by lia. reflexivity.
Qed.

Lemma lex_cmp_abs a b :
  lex_cmp (getu a) (cnt a) (getu b) (cnt b) =
  lex_cmp (fun j => nth j (abs a) 0%Z) (length (abs a)) (fun j => nth j (abs b) 0%Z) (length (abs b)).
Proof. unfold lex_cmp. rewrite !abs_length, lex_loop_abs by lia. reflexivity. Qed.

Section SortOps.
Variables (jk : Z) (sq : nat).
Implicit Types (ow : bool) (q : q1).

(* overwriting the whole window *)
Lemma write_all_spec ow q xs : inv ow sq q -> length xs = cnt q ->
  inv ow sq (write_from q 0 xs) /\ abs (write_from q 0 xs) = xs.
Proof.
  intros I H. destruct (write_from_spec sq ow xs q 0 I ltac:(lia)) as (J1&_). split; [exact J1|].
  rewrite (write_from_abs sq ow) by (assumption || lia). cbn [firstn app Nat.add].
  rewrite skipn_all2 by (rewrite abs_length; lia). apply app_nil_r.
Qed.

Lemma sort_items_spec ow q bk f t : inv ow sq q ->
  inv ow sq (sort_items q bk f t) /\ abs (sort_items q bk f t) = l0_sort bk (abs q) f t.
Proof.
  intros I. unfold sort_items. rewrite sort_cs_is_l0_sort.
  apply write_all_spec; [assumption|]. rewrite l0_sort_length, abs_length. reflexivity.
Qed.

(* the compaction loop after the items 0 .. k-1 have been read *)
Lemma rsd_loop_spec ow q k : inv ow sq q -> 0 < cnt q -> k < cnt q ->
  let s := fold_left rsd_step (seq 1 k) (q, 1) in
  inv ow sq (fst s) /\ cnt (fst s) = cnt q /\ 1 <= snd s <= S k /\
  rev (firstn (snd s) (abs (fst s))) = fold_left dedup_step (firstn (S k) (abs q)) [] /\
  skipn (S k) (abs (fst s)) = skipn (S k) (abs q).
Proof.
  intros I Hc. induction k as [|k IH]; intros Hk.
  - cbn [seq fold_left fst snd]. split; [assumption|]. split; [reflexivity|]. split; [lia|]. split; [|reflexivity].
    destruct (abs q) as [|x t] eqn:E; [apply (f_equal (@length Z)) in E; rewrite abs_length in E; cbn in E; lia|]. reflexivity.
  - rewrite seq_S, fold_left_app. cbn [fold_left Nat.add].
    destruct (IH ltac:(lia)) as (I1 & C1 & W1 & F1 & S1).
    destruct (fold_left rsd_step (seq 1 k) (q, 1)) as [g w]. cbn [fst snd] in *.
    assert (V : getu g (S k) = nth (S k) (abs q) 0%Z).
    { rewrite <- (nth_abs g (S k) 0%Z) by lia.
      replace (nth (S k) (abs g) 0%Z) with (nth 0 (skipn (S k) (abs g)) 0%Z) by (rewrite nth_skipn'; f_equal; lia).
      rewrite S1, nth_skipn'. f_equal. lia. }
    rewrite (firstn_S_snoc (abs q) (S k)) by (rewrite abs_length; lia). rewrite fold_left_app. cbn [fold_left].
    rewrite <- F1.
    assert (Fw : firstn w (abs g) = firstn (w - 1) (abs g) ++ [getu g (w - 1)]).
    { replace w with (S (w - 1)) at 1 by lia. rewrite (firstn_S_snoc (abs g) (w - 1)) by (rewrite abs_length; lia).
      rewrite nth_abs by lia. reflexivity. }
    rewrite Fw at 1. rewrite rev_app_distr. cbn [rev app dedup_step].
    assert (S2 : skipn (S (S k)) (abs g) = skipn (S (S k)) (abs q)).
    { replace (S (S k)) with (S k + 1) by lia.
      rewrite <- (skipn_skipn' 1 (S k) (abs g)), <- (skipn_skipn' 1 (S k) (abs q)), S1. reflexivity. }
    unfold rsd_step. rewrite V. destruct (Z.eqb (nth (S k) (abs q) 0%Z) (getu g (w - 1))) eqn:E; cbn [fst snd].
    + split; [assumption|]. split; [assumption|]. split; [lia|]. split; [|assumption].
      rewrite Fw at 1. rewrite rev_app_distr. reflexivity.
    + replace (1 + S k) with (S (S k)) by lia.
      assert (G : forall g', inv ow sq g' -> cnt g' = cnt q -> firstn (w + 1) (abs g') = firstn w (abs g) ++ [nth (S k) (abs q) 0%Z] ->
              skipn (S (S k)) (abs g') = skipn (S (S k)) (abs q) ->
              inv ow sq g' /\ cnt g' = cnt q /\ 1 <= w + 1 <= S (S k) /\
              rev (firstn (w + 1) (abs g')) = nth (S k) (abs q) 0%Z :: getu g (w - 1) :: rev (firstn (w - 1) (abs g)) /\
              skipn (S (S k)) (abs g') = skipn (S (S k)) (abs q)).
      { intros g' J1 J2 J3 J4. split; [assumption|]. split; [assumption|]. split; [lia|]. split; [|assumption].
        rewrite J3, Fw, !rev_app_distr. reflexivity. }
      destruct (w <? S k) eqn:E2.
      * apply G.
        -- apply inv_setu; [assumption|lia].
        -- rewrite cnt_setu. exact C1.
        -- rewrite (abs_setu ow sq) by (assumption || lia).
           apply (list_ext _ _ 0%Z); autorewrite with nthdb; cbn [length]; [lia|].
           intros i Hi. autorewrite with nthdb. cbn [length]. dif; fin.
        -- rewrite (abs_setu ow sq) by (assumption || lia). rewrite <- S2.
           apply (list_ext _ _ 0%Z); autorewrite with nthdb; [reflexivity|].
           intros i Hi. autorewrite with nthdb. dif; fin.
      * assert (w = S k) by lia. subst w. apply G; try assumption.
        replace (S k + 1) with (S (S k)) by lia.
        rewrite (firstn_S_snoc (abs g) (S k)) by (rewrite abs_length; lia). f_equal. f_equal.
        rewrite nth_abs by lia. exact V.
Qed.

Lemma remove_sorted_dups_spec ow q : inv ow sq q ->
  let r := remove_sorted_dups ow jk sq q in
  inv ow sq (fst r) /\ abs (fst r) = dedup_adj (abs q) /\ snd r = cnt q - length (dedup_adj (abs q)).
Proof.
  intros I r. subst r. unfold remove_sorted_dups. destruct (cnt q =? 0) eqn:E.
  - cbn [fst snd]. rewrite (abs_cnt0 q) by lia. split; [assumption|]. split; [reflexivity|]. cbn. lia.
  - destruct (rsd_loop_spec ow q (cnt q - 1) I ltac:(lia) ltac:(lia)) as (I1 & C1 & W1 & F1 & _).
    destruct (fold_left rsd_step (seq 1 (cnt q - 1)) (q, 1)) as [g w]. cbn [fst snd] in *.
    replace (S (cnt q - 1)) with (cnt q) in * by lia.
    rewrite (firstn_abs_all q (cnt q)) in F1 by lia.
    destruct (ensure_size_spec jk sq ow g w true 0 false I1) as (K1 & K2 & _).
    assert (D : dedup_adj (abs q) = firstn w (abs g)) by (unfold dedup_adj; rewrite <- F1, rev_involutive; reflexivity).
    split; [assumption|]. split.
    + rewrite K2, l0_resize_shrink by (rewrite abs_length; lia). symmetry. exact D.
    + rewrite D, firstn_length', abs_length. lia.
Qed.

Lemma insert_sorted_spec ow q x : inv ow sq q ->
  let r := insert_sorted ow jk sq q x in
  inv ow sq (fst r) /\ abs (fst r) = l0_insert_at (abs q) (sorted_pos (abs q) x) [x] /\
  snd r = sorted_pos (abs q) x.
Proof.
  intros I r. subst r. unfold insert_sorted. cbv zeta. cbn [fst snd].
  pose proof (sorted_pos_bound (abs q) x) as HB. rewrite abs_length in HB.
  set (p := sorted_pos (abs q) x) in *.
  destruct (p =? 0) eqn:E.
  - destruct (add_head_spec jk sq ow q x I) as [J1 J2]. split; [assumption|]. split; [|reflexivity].
    rewrite J2. replace p with 0 by lia. reflexivity.
  - destruct (insert_at_spec jk sq ow q p x I) as [J1 J2]. split; [assumption|]. split; [|reflexivity].
    rewrite J2. replace (Nat.min p (cnt q)) with p by lia. reflexivity.
Qed.

Lemma iter_vals_abs q stride fuel : forall idx,
  iter_vals (getu q) (cnt q) idx stride fuel =
  iter_vals (fun i => nth i (abs q) 0%Z) (length (abs q)) idx stride fuel.
Proof.
  rewrite abs_length. induction fuel as [|f IH]; intros idx; cbn [iter_vals]; [reflexivity|].
  destruct (Z.leb 0 idx && Z.ltb idx (Z.of_nat (cnt q))) eqn:E; [|reflexivity].
  rewrite IH. f_equal. symmetry. apply nth_abs. lia.
Qed.

(* ------------------------------------------------------------------ AdoptRawDataArray / ReleaseRawDataArray *)

Lemma adopt_spec ow q xs spare : inv ow sq q ->
  inv ow sq (adopt ow q xs spare) /\ abs (adopt ow q xs spare) = xs.
Proof.
  intros I. unfold adopt. cbv zeta.
  destruct (clear_shape sq ow q true I) as (J1 & J2 & J3 & _).
  set (q0 := clear ow q true) in *.
  set (a := xs ++ (if ow then repeat dflt (length spare) else spare)).
  assert (La : length xs <= length a) by (subst a; rewrite app_length; lia).
  assert (G : forall i, i < length a ->
            getu (mkQ SHeap a (length xs) 0 (length xs - 1) (match st q0 with SSmall => arr q0 | _ => inl q0 end)) i = nth i a dflt).
  { intros i Hi. apply getu_head0; [reflexivity|exact Hi]. }
  split.
  - constructor; unfold store_ok, clean, inl_ok, qsize; cbn [st arr cnt head tail inl].
    + exact (inv_sq _ _ q I).
    + exact La.
    + lia.
    + intros Hx. rewrite intern_head0; [reflexivity|reflexivity|unfold qsize; cbn [arr]; lia].
    + exact Logic.I.
    + intros Ho i Hi. rewrite G by lia. subst a. rewrite Ho. rewrite nth_app', nth_repeat'. dif; fin.
    + intros _. destruct (st q0) eqn:E0.
      * apply (inv_inl _ _ q0 J1). congruence.
      * pose proof (inv_store _ _ q0 J1) as S0. unfold store_ok in S0. rewrite E0 in S0.
        split; [exact S0|]. intros Ho i Hi. apply (all_dflt _ _ q0 J1 J2 Ho). lia.
      * apply (inv_inl _ _ q0 J1). congruence.
  - apply abs_ext; cbn [cnt]; [reflexivity|]. intros i Hi. rewrite G by lia. subst a. rewrite nth_app'. dif; fin.
Qed.

Lemma release_spec ow q : inv ow sq q ->
  inv ow sq (fst (release ow jk q)) /\ abs (fst (release ow jk q)) = [].
Proof.
  intros I. unfold release.
  assert (G : st q <> SSmall ->
              inv ow sq (mkQ SNull [] 0 (head q) (tail q) (inl q)) /\ abs (mkQ SNull [] 0 (head q) (tail q) (inl q)) = []).
  { intros Hs. split; [|reflexivity].
    constructor; unfold store_ok, clean, inl_ok, qsize; cbn [st arr cnt head tail inl length]; try lia.
    - exact (inv_sq _ _ q I).
    - intros _. exact (inv_inl _ _ q I Hs). }
  destruct (st q) eqn:Es; cbn [fst].
  - apply G. congruence.
  - destruct (clear_shape sq ow q false I) as (J1 & J2 & _). split; [exact J1|]. apply abs_cnt0. exact J2.
  - apply G. congruence.
Qed.

(* what ReleaseRawDataArray hands out holds the items: in user order for a copied in-object array, in ring order else *)
Lemma release_array_items ow q i : inv ow sq q -> i < cnt q ->
  nth (match st q with SSmall => i | _ => intern q i end) (snd (release ow jk q)) 0%Z = getu q i.
Proof.
  intros I Hi. unfold release. destruct (st q); cbn [snd]; try reflexivity.
  rewrite nth_app', abs_length. replace (i <? cnt q) with true by lia. apply nth_abs. exact Hi.
Qed.

End SortOps.
