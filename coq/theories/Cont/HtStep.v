(* C09 -- world level: several tables and several iterator objects; one transition per public
   operation.  [step1] is the code-shaped semantics (L1) built from HtModel's primitives,
   [step0] the ideal ordered-map semantics (L0).  No proofs in this file. *)
From Coq Require Import List Arith ZArith NArith PArith Bool FMapPositive.
From Muscle Require Import Cont.HtModel.
Import ListNotations.

(* ------------------------------------------------------------------ L1 world helpers *)

Definition empty_ht (c : N) : ht := mkHt (PositiveMap.empty node) None None 0 c 1%positive true [].

Definition gett (w : world) (t : nat) : ht := nth t (tabs w) (empty_ht 0).
Definition sett (w : world) (t : nat) (h : ht) : world := mkW (upd_nth (tabs w) t h) (its w).
Definition seti_w (w : world) (J : itab) : world := mkW (tabs w) J.
Definition valid_t (w : world) (t : nat) : bool := t <? length (tabs w).
Definition valid_i (w : world) (i : nat) : bool := i <? length (its w).

Definition put_ti (w : world) (t : nat) (h : ht) (J : itab) : world := mkW (upd_nth (tabs w) t h) J.

Definition init_world (dcap : N) (nt ni : nat) : world :=
  mkW (repeat (empty_ht dcap) nt) (repeat None ni).

(* what an iterator shows: scratch first, else the entry under the cookie *)
Definition shown (w : world) (i : nat) : option (Z * Z) :=
  match geti (its w) i with
  | None => None
  | Some it =>
    match iscr it with
    | Some kv => Some kv
    | None => match iown it, icookie it with
              | Some t, Some c => kv_of (gett w t) c
              | _, _ => None
              end
    end
  end.

(* UnregisterIterator(iter) *)
Definition unregister (w : world) (i : nat) : world :=
  match geti (its w) i with
  | None => w
  | Some it =>
    if inoreg it then w
    else match iown it with
         | Some t => sett w t (with_ilist (gett w t) (remove_nat i (ilist (gett w t))))
         | None => w
         end
  end.

(* RegisterIterator(iter, cookie) for an iterator object in slot i whose other fields are given *)
Definition register (w : world) (i t : nat) (c : option positive) (bw noreg : bool) (scr : option (Z * Z)) : world :=
  if noreg then seti_w w (seti (its w) i (Some (mkIter (Some t) c bw true scr)))
  else match c with
       | None => seti_w w (seti (its w) i (Some (mkIter (Some t) None bw true scr)))
       | Some _ =>
         let w1 := seti_w w (seti (its w) i (Some (mkIter (Some t) c bw false scr))) in
         sett w1 t (with_ilist (gett w1 t) (i :: ilist (gett w1 t)))
       end.

(* set _owner of every iterator of a list *)
Definition set_owners (J : itab) (l : list nat) (t : nat) : itab :=
  fold_left (fun J i => match geti J i with
                        | Some it => seti J i (Some (mkIter (Some t) (icookie it) (ibw it) (inoreg it) (iscr it)))
                        | None => J
                        end) l J.

(* code-shaped value scans of IndexOfValue *)
Fixpoint scan_val_fwd (h : ht) (v : Z) (c : option positive) (idx fuel : nat) : option nat :=
  match fuel with
  | 0 => None
  | S f => match c with
           | None => None
           | Some e => match getn h e with
                       | None => None
                       | Some n => if Z.eqb (nv n) v then Some idx else scan_val_fwd h v (nnext n) (S idx) f
                       end
           end
  end.
Fixpoint scan_val_bwd (h : ht) (v : Z) (c : option positive) (idx fuel : nat) : option nat :=
  match fuel with
  | 0 => None
  | S f => match c with
           | None => None
           | Some e => match getn h e with
                       | None => None
                       | Some n => if Z.eqb (nv n) v then Some (idx - 1) else scan_val_bwd h v (nprev n) (idx - 1) f
                       end
           end
  end.

Definition val_of (h : ht) (e : positive) : option Z :=
  match getn h e with Some n => Some (nv n) | None => None end.
Definition key_of (h : ht) (e : positive) : option Z :=
  match getn h e with Some n => Some (nk n) | None => None end.
Definition key_of_opt (h : ht) (c : option positive) : option Z :=
  match c with Some e => key_of h e | None => None end.

Section Step.
Variable var : variant.
Variable dcap : N.

(* Remove(key) for every key of a list, counting *)
Definition remove_keys (h : ht) (J : itab) (ks : list Z) : ht * itab * nat :=
  fold_left (fun '(h, J, c) k => match find_key h k with
                                 | Some e => let '(h1, I1) := remove_entry h J e in (h1, I1, S c)
                                 | None => (h, J, c)
                                 end) ks (h, J, 0).

(* Intersect(pairs): walk our own entries (next saved before a removal) *)
Definition intersect_ids (h : ht) (J : itab) (other : amap) (l : list positive) : ht * itab * nat :=
  fold_left (fun '(h, J, c) e => match key_of h e with
                                 | Some k => match a_get other k with
                                             | Some _ => (h, J, c)
                                             | None => let '(h1, I1) := remove_entry h J e in (h1, I1, S c)
                                             end
                                 | None => (h, J, c)
                                 end) l (h, J, 0).

Definition equal_tabs (a b : ht) (ordered : bool) : bool :=
  if negb (cnt a =? cnt b) then false
  else if ordered then
    forallb (fun '(x, y) => Z.eqb (fst x) (fst y) && Z.eqb (snd x) (snd y)) (combine (abs a) (abs b))
  else
    forallb (fun kv => match find_key b (fst kv) with
                       | Some e => match val_of b e with Some v => Z.eqb v (snd kv) | None => false end
                       | None => false
                       end) (abs a).

Definition step1 (w : world) (o : op) : world * out :=
  match o with
  | OPut t k v =>
      if valid_t w t then
        let '(h, J, _, old) := put_aux var dcap (gett w t) (its w) k v in (put_ti w t h J, OVal old)
      else (w, ONone)
  | OPutIfAbsent t k v =>
      if valid_t w t then
        match find_key (gett w t) k with
        | Some _ => (w, OBool false)
        | None => let '(h, J, _, _) := put_aux var dcap (gett w t) (its w) k v in (put_ti w t h J, OBool true)
        end
      else (w, ONone)
  | OGetOrPut t k v =>
      if valid_t w t then
        match find_key (gett w t) k with
        | Some e => (w, OVal (val_of (gett w t) e))
        | None => let '(h, J, _, _) := put_aux var dcap (gett w t) (its w) k v in (put_ti w t h J, OVal (Some v))
        end
      else (w, ONone)
  | OPutAtFront t k v =>
      if valid_t w t then
        let '(h, J, e, _) := put_aux var dcap (gett w t) (its w) k v in
        let '(h1, I1) := move_front_aux h J e in (put_ti w t h1 I1, OStatus 0)
      else (w, ONone)
  | OPutAtBack t k v =>
      if valid_t w t then
        let '(h, J, e, _) := put_aux var dcap (gett w t) (its w) k v in
        let '(h1, I1) := move_back_aux h J e in (put_ti w t h1 I1, OStatus 0)
      else (w, ONone)
  | OPutBefore t k k2 v =>
      if valid_t w t then
        let '(h, J, e, _) := put_aux var dcap (gett w t) (its w) k v in
        match find_key h k2 with
        | Some f => if Pos.eqb e f then (put_ti w t h J, OStatus 0)
                    else let '(h1, I1) := move_before_aux h J e f in (put_ti w t h1 I1, OStatus 0)
        | None => (put_ti w t h J, OStatus 0)
        end
      else (w, ONone)
  | OPutBehind t k k2 v =>
      if valid_t w t then
        let '(h, J, e, _) := put_aux var dcap (gett w t) (its w) k v in
        match find_key h k2 with
        | Some d => if Pos.eqb e d then (put_ti w t h J, OStatus 0)
                    else let '(h1, I1) := move_behind_aux h J e d in (put_ti w t h1 I1, OStatus 0)
        | None => (put_ti w t h J, OStatus 0)
        end
      else (w, ONone)
  | OPutAtPos t k idx v =>
      if valid_t w t then
        let '(h, J, e, _) := put_aux var dcap (gett w t) (its w) k v in
        let '(h1, I1) := move_pos_aux h J e idx in (put_ti w t h1 I1, OStatus 0)
      else (w, ONone)
  | OGet t k =>
      (w, OVal (match find_key (gett w t) k with Some e => val_of (gett w t) e | None => None end))
  | OContains t k =>
      (w, OBool (match find_key (gett w t) k with Some _ => true | None => false end))
  | OIndexOfKey t k =>
      let h := gett w t in
      (w, OIdx (match find_key h k with
                | Some e => if opt_pos_eqb (tl h) (Some e) then Some (cnt h - 1)
                            else Some (length (walk_back h (get_prev h e) (cnt h)))
                | None => None
                end))
  | OKeyAt t idx => let h := gett w t in (w, OVal (key_of_opt h (entry_at h idx)))
  | OValAt t idx => let h := gett w t in
                    (w, OVal (match entry_at h idx with Some e => val_of h e | None => None end))
  | OFirstKey t => let h := gett w t in (w, OVal (key_of_opt h (hd h)))
  | OLastKey t => let h := gett w t in (w, OVal (key_of_opt h (tl h)))
  | OKeyBefore t k =>
      let h := gett w t in
      (w, OVal (match find_key h k with Some e => key_of_opt h (get_prev h e) | None => None end))
  | OKeyAfter t k =>
      let h := gett w t in
      (w, OVal (match find_key h k with Some e => key_of_opt h (get_next h e) | None => None end))
  | OIndexOfValue t v bw =>
      let h := gett w t in
      (w, OIdx (if bw then scan_val_bwd h v (tl h) (cnt h) (cnt h) else scan_val_fwd h v (hd h) 0 (cnt h)))
  | ONumItems t => (w, ONat (cnt (gett w t)))
  | ORemove t k =>
      if valid_t w t then
        let h := gett w t in
        match find_key h k with
        | Some e => let '(h1, I1) := remove_entry h (its w) e in (put_ti w t h1 I1, OVal (val_of h e))
        | None => (w, OVal None)
        end
      else (w, ONone)
  | ORemoveFirst t =>
      if valid_t w t then
        let h := gett w t in
        match hd h with
        | Some e => let '(h1, I1) := remove_entry h (its w) e in (put_ti w t h1 I1, OKV (kv_of h e))
        | None => (w, OKV None)
        end
      else (w, ONone)
  | ORemoveLast t =>
      if valid_t w t then
        let h := gett w t in
        match tl h with
        | Some e => let '(h1, I1) := remove_entry h (its w) e in (put_ti w t h1 I1, OKV (kv_of h e))
        | None => (w, OKV None)
        end
      else (w, ONone)
  | OMoveFront t k =>
      if valid_t w t then
        match find_key (gett w t) k with
        | Some e => let '(h1, I1) := move_front_aux (gett w t) (its w) e in (put_ti w t h1 I1, OStatus 0)
        | None => (w, OStatus 1)
        end
      else (w, ONone)
  | OMoveBack t k =>
      if valid_t w t then
        match find_key (gett w t) k with
        | Some e => let '(h1, I1) := move_back_aux (gett w t) (its w) e in (put_ti w t h1 I1, OStatus 0)
        | None => (w, OStatus 1)
        end
      else (w, ONone)
  | OMoveBefore t k k2 =>
      if valid_t w t then
        match find_key (gett w t) k, find_key (gett w t) k2 with
        | Some e, Some f => if Pos.eqb e f then (w, OStatus 2)
                            else let '(h1, I1) := move_before_aux (gett w t) (its w) e f in (put_ti w t h1 I1, OStatus 0)
        | _, _ => (w, OStatus 1)
        end
      else (w, ONone)
  | OMoveBehind t k k2 =>
      if valid_t w t then
        match find_key (gett w t) k, find_key (gett w t) k2 with
        | Some e, Some d => if Pos.eqb e d then (w, OStatus 2)
                            else let '(h1, I1) := move_behind_aux (gett w t) (its w) e d in (put_ti w t h1 I1, OStatus 0)
        | _, _ => (w, OStatus 1)
        end
      else (w, ONone)
  | OMovePos t k idx =>
      if valid_t w t then
        match find_key (gett w t) k with
        | Some e => let '(h1, I1) := move_pos_aux (gett w t) (its w) e idx in (put_ti w t h1 I1, OStatus 0)
        | None => (w, OStatus 1)
        end
      else (w, ONone)
  | OGetMoveFront t k =>
      if valid_t w t then
        match find_key (gett w t) k with
        | Some e => let '(h1, I1) := move_front_aux (gett w t) (its w) e in (put_ti w t h1 I1, OVal (val_of (gett w t) e))
        | None => (w, OVal None)
        end
      else (w, ONone)
  | OGetMoveBack t k =>
      if valid_t w t then
        match find_key (gett w t) k with
        | Some e => let '(h1, I1) := move_back_aux (gett w t) (its w) e in (put_ti w t h1 I1, OVal (val_of (gett w t) e))
        | None => (w, OVal None)
        end
      else (w, ONone)
  | OSortKey t => if valid_t w t then (sett w t (sort_by (gett w t) cmp_key), ONone) else (w, ONone)
  | OSortVal t => if valid_t w t then (sett w t (sort_by (gett w t) cmp_val), ONone) else (w, ONone)
  | OSort t => if valid_t w t then (sett w t (sort_aux var (gett w t)), ONone) else (w, ONone)
  | OReposition t k =>
      if valid_t w t then
        match find_key (gett w t) k with
        | Some e => let '(h1, I1) := reposition_aux var (gett w t) (its w) e in (put_ti w t h1 I1, OStatus 0)
        | None => (w, OStatus 1)
        end
      else (w, ONone)
  | OSetAutoSort t en sortnow =>
      if valid_t w t then
        match var with
        | VPlain => (w, ONone)
        | _ => let h := gett w t in
               if Bool.eqb en (asort h) then (w, ONone)
               else let h1 := with_asort h en in
                    (sett w t (if sortnow && en then sort_aux var h1 else h1), ONone)
        end
      else (w, ONone)
  | OEnsure t n shrink =>
      if valid_t w t then
        let '(h, J, st) := ensure_size dcap (gett w t) (its w) n shrink in (put_ti w t h J, OStatus st)
      else (w, ONone)
  | OShrinkFit t extra =>
      if valid_t w t then
        let need := (N.of_nat (cnt (gett w t)) + extra)%N in
        if N.ltb 4294967295 need then (w, OStatus 3)
        else let '(h, J, st) := ensure_size dcap (gett w t) (its w) need true in (put_ti w t h J, OStatus st)
      else (w, ONone)
  | OEnsureCanPut t extra =>
      if valid_t w t then
        let need := (N.of_nat (cnt (gett w t)) + extra)%N in
        if N.ltb 4294967295 need then (w, OStatus 3)
        else let '(h, J, st) := ensure_size dcap (gett w t) (its w) need false in (put_ti w t h J, OStatus st)
      else (w, ONone)
  | OClear t release =>
      if valid_t w t then
        let '(h, J) := clear_tab dcap (gett w t) (its w) release in (put_ti w t h J, ONone)
      else (w, ONone)
  | OCopyFrom t u cf =>
      if valid_t w t && valid_t w u then
        if t =? u then (w, OStatus 0)
        else let '(h, J, st) := copy_from var dcap (gett w t) (its w) (abs (gett w u)) (cap (gett w u)) cf in
             (put_ti w t h J, OStatus st)
      else (w, ONone)
  | OCopyCtor t u =>
      if valid_t w t && valid_t w u then
        if t =? u then (w, ONone)
        else
          let '(hold, I0) := clear_tab dcap (gett w t) (its w) true in
          let hnew := mkHt (PositiveMap.empty node) None None 0 (cap (gett w u)) (fresh hold) true [] in
          let '(h, J, _) := copy_from var dcap hnew I0 (abs (gett w u)) (cap (gett w u)) true in
          (put_ti w t h J, ONone)
      else (w, ONone)
  | OSwap t u =>
      if valid_t w t && valid_t w u then
        if t =? u then (w, ONone)
        else
          let a := gett w t in
          let b := gett w u in
          (* everything but _autoSortEnabled changes sides, the iterator lists included *)
          let a' := mkHt (nodes b) (hd b) (tl b) (cnt b) (cap b) (fresh b) (asort a) (ilist b) in
          let b' := mkHt (nodes a) (hd a) (tl a) (cnt a) (cap a) (fresh a) (asort b) (ilist a) in
          let I1 := set_owners (set_owners (its w) (ilist b) t) (ilist a) u in
          (mkW (upd_nth (upd_nth (tabs w) t a') u b') I1, ONone)
      else (w, ONone)
  | OEqual t u ordered =>
      if valid_t w t && valid_t w u then
        (w, OBool (if t =? u then true else equal_tabs (gett w t) (gett w u) ordered))
      else (w, ONone)
  | OMoveToTable t u k =>
      if valid_t w t && valid_t w u then
        match find_key (gett w t) k with
        | Some e =>
          if t =? u then (w, OStatus 0)
          else match val_of (gett w t) e with
               | Some v =>
                 let '(hu, I1, _, _) := put_aux var dcap (gett w u) (its w) k v in
                 let '(ht1, I2) := remove_entry (gett w t) I1 e in
                 (mkW (upd_nth (upd_nth (tabs w) u hu) t ht1) I2, OStatus 0)
               | None => (w, OStatus 1)
               end
        | None => (w, OStatus 1)
        end
      else (w, ONone)
  | OCopyToTable t u k =>
      if valid_t w t && valid_t w u then
        match find_key (gett w t) k with
        | Some e =>
          if t =? u then (w, OStatus 0)
          else match val_of (gett w t) e with
               | Some v =>
                 let '(hu, I1, _, _) := put_aux var dcap (gett w u) (its w) k v in
                 (put_ti w u hu I1, OStatus 0)
               | None => (w, OStatus 1)
               end
        | None => (w, OStatus 1)
        end
      else (w, ONone)
  | ORemoveTable t u =>
      if valid_t w t && valid_t w u then
        if t =? u then
          let n := cnt (gett w t) in
          let '(h, J) := clear_tab dcap (gett w t) (its w) false in (put_ti w t h J, ONat n)
        else
          let '(h, J, c) := remove_keys (gett w t) (its w) (map fst (abs (gett w u))) in
          (put_ti w t h J, ONat c)
      else (w, ONone)
  | OIntersect t u =>
      if valid_t w t && valid_t w u then
        if t =? u then (w, ONat 0)
        else
          let '(h, J, c) := intersect_ids (gett w t) (its w) (abs (gett w u)) (ids (gett w t)) in
          (put_ti w t h J, ONat c)
      else (w, ONone)
  | ODestroy t =>
      if valid_t w t then
        let '(h, J) := clear_tab dcap (gett w t) (its w) true in
        (put_ti w t (mkHt (PositiveMap.empty node) None None 0 dcap (fresh h) true []) J, ONone)
      else (w, ONone)
  | OMoveCtor t u =>
      if valid_t w t && valid_t w u then
        if t =? u then (w, ONone)
        else
          let '(hold, J0) := clear_tab dcap (gett w t) (its w) true in
          let b := gett w u in
          let a' := mkHt (nodes b) (hd b) (tl b) (cnt b) (cap b) (fresh b) true (ilist b) in
          let b' := mkHt (PositiveMap.empty node) None None 0 0 (fresh hold) (asort b) [] in
          (mkW (upd_nth (upd_nth (tabs w) t a') u b') (set_owners J0 (ilist b) t), ONone)
      else (w, ONone)
  | OPrealloc t n =>
      if valid_t w t then
        let '(hold, J0) := clear_tab dcap (gett w t) (its w) true in
        let '(h, J1, _) := ensure_size dcap (mkHt (PositiveMap.empty node) None None 0 0 (fresh hold) true []) J0 n false in
        (put_ti w t h J1, ONone)
      else (w, ONone)
  (* ---- iterators *)
  | OIterNew i t bw =>
      if valid_i w i && valid_t w t then
        let w1 := unregister w i in
        let h := gett w1 t in
        let w2 := register w1 i t (if bw then tl h else hd h) bw false None in
        (w2, OIt (shown w2 i))
      else (w, ONone)
  | OIterAt i t k bw =>
      if valid_i w i && valid_t w t then
        let w1 := unregister w i in
        let w2 := register w1 i t (find_key (gett w1 t) k) bw false None in
        (w2, OIt (shown w2 i))
      else (w, ONone)
  | OIterAdv i =>
      match geti (its w) i with
      | Some it =>
        let it' := match iscr it with
                   | Some _ => mkIter (iown it) (icookie it) (ibw it) (inoreg it) None
                   | None => mkIter (iown it)
                                    (match iown it with Some t => subseq (gett w t) (icookie it) (ibw it) | None => None end)
                                    (ibw it) (inoreg it) None
                   end in
        let w1 := seti_w w (seti (its w) i (Some it')) in
        (w1, OIt (shown w1 i))
      | None => (w, ONone)
      end
  | OIterRet i =>
      match geti (its w) i with
      | Some it =>
        let it' := match iscr it with
                   | Some _ => mkIter (iown it) (icookie it) (ibw it) (inoreg it) None
                   | None => mkIter (iown it)
                                    (match iown it with Some t => subseq (gett w t) (icookie it) (negb (ibw it)) | None => None end)
                                    (ibw it) (inoreg it) None
                   end in
        let w1 := seti_w w (seti (its w) i (Some it')) in
        (w1, OIt (shown w1 i))
      | None => (w, ONone)
      end
  | OIterSetBw i bw =>
      match geti (its w) i with
      | Some it => (seti_w w (seti (its w) i (Some (mkIter (iown it) (icookie it) bw (inoreg it) (iscr it)))), ONone)
      | None => (w, ONone)
      end
  | OIterDel i =>
      if valid_i w i then
        let w1 := unregister w i in (seti_w w1 (seti (its w1) i None), ONone)
      else (w, ONone)
  | OIterCopy i j =>
      if valid_i w i && negb (i =? j) then
        match geti (its w) j with
        | Some src =>
          let w1 := unregister w i in
          let w2 := match iown src with
                    | Some t => register w1 i t (icookie src) (ibw src) (inoreg src) (iscr src)
                    | None => seti_w w1 (seti (its w1) i (Some (mkIter None None (ibw src) (inoreg src) (iscr src))))
                    end in
          (w2, OIt (shown w2 i))
        | None => (w, ONone)
        end
      else (w, ONone)
  | OIterShow i => (w, OIt (shown w i))
  end.

Definition run1 (w : world) (ops : list op) : world := fold_left (fun w o => fst (step1 w o)) ops w.

End Step.

