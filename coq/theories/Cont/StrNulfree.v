(* C17 -- level 0 stays inside its domain: every operation maps NUL-free strings to NUL-free strings
   (given NUL-free operands).  This is what lets the refinement theorem be chained over operation lists. *)
From Coq Require Import List NArith ZArith Bool Lia.
From Muscle Require Import Cont.StrL0 Cont.StrModel Cont.StrSpec Cont.StrLemmas Cont.StrL0Facts Cont.StrOps Cont.StrRefine.
Import ListNotations.
Local Open Scope N_scope.

Lemma nulfree_nil : nulfree []. Proof. constructor. Qed.
Lemma nulfree_cons x l : x <> 0 -> nulfree l -> nulfree (x :: l). Proof. now constructor. Qed.
Lemma nulfree_map f l : (forall x, x <> 0 -> f x <> 0) -> nulfree l -> nulfree (map f l).
Proof. intros Hf H. induction H; cbn [map]; constructor; auto. Qed.
Lemma to_lower_nz x : x <> 0 -> to_lower x <> 0.
Proof. intros H. unfold to_lower. destruct (is_upper x); lia. Qed.
Lemma to_upper_nz x : x <> 0 -> to_upper x <> 0.
Proof.
  intros H. unfold to_upper, is_lower. destruct (97 <=? x) eqn:E; cbn [andb]; [|exact H].
  apply N.leb_le in E. destruct (x <=? 122); lia.
Qed.
Lemma nulfree_mixed_aux b l : nulfree l -> nulfree (mixed_aux b l).
Proof.
  intros H. revert b. induction H as [|x l Hx Hl IH]; intros b; cbn [mixed_aux]; constructor; [|apply IH].
  destruct b; [now apply to_lower_nz|now apply to_upper_nz].
Qed.
Lemma nulfree_l0_sub l a b : nulfree l -> nulfree (l0_sub l a b).
Proof. intros H. unfold l0_sub. destruct (a <? N.min b (lenN l)); [|constructor]. now apply nulfree_takeN, nulfree_dropN. Qed.
Lemma nulfree_l0_insert l i x : nulfree l -> nulfree x -> nulfree (l0_insert l i x).
Proof. intros H Hx. unfold l0_insert. apply nulfree_app; split; [now apply nulfree_takeN|]. apply nulfree_app; split; [exact Hx|now apply nulfree_dropN]. Qed.
Lemma nulfree_trunc_chars l n : nulfree l -> nulfree (l0_trunc_chars l n).
Proof. intros H. now apply nulfree_takeN. Qed.
Lemma nulfree_l0_minus l x : nulfree l -> nulfree (l0_minus l x).
Proof.
  intros H. unfold l0_minus. destruct x; [exact H|]. destruct (l0_last_index_of1 l (n :: x)); trivial;
    (apply nulfree_app; split; [now apply nulfree_takeN|now apply nulfree_dropN]).
Qed.
Lemma nulfree_l0_minus_ch l ch : nulfree l -> nulfree (l0_minus_ch l ch).
Proof.
  intros H. unfold l0_minus_ch. destruct (l0_last_index_of_ch l ch 0); trivial;
    (apply nulfree_app; split; [now apply nulfree_takeN|now apply nulfree_dropN]).
Qed.
Lemma nulfree_replace_ch_aux l a b max : b <> 0 -> nulfree l -> nulfree (fst (replace_ch_aux l a b max)).
Proof.
  intros Hb H. revert max. induction H as [|x l Hx Hl IH]; intros max; cbn [replace_ch_aux]; [constructor|].
  destruct ((0 <? max) && (x =? a)).
  - specialize (IH (max - 1)). destruct (replace_ch_aux l a b (max - 1)). cbn [fst] in *. now constructor.
  - specialize (IH max). destruct (replace_ch_aux l a b max). cbn [fst] in *. now constructor.
Qed.
Lemma nulfree_replace_ch l a b max from : b <> 0 -> nulfree l -> nulfree (fst (l0_replace_ch l a b max from)).
Proof.
  intros Hb H. unfold l0_replace_ch. destruct (negb (a =? b) && (from <? lenN l)); [|exact H].
  pose proof (nulfree_replace_ch_aux (dropN from l) a b max Hb (nulfree_dropN from l H)) as X.
  destruct (replace_ch_aux (dropN from l) a b max). cbn [fst] in *.
  apply nulfree_app; split; [now apply nulfree_takeN|exact X].
Qed.
Lemma nulfree_replace_sub_fuel f l rm wm max : nulfree l -> nulfree wm -> nulfree (fst (replace_sub_fuel f l rm wm max)).
Proof.
  intros H Hw. revert l max H. induction f as [|f IH]; intros l max H; cbn [replace_sub_fuel]; [exact H|].
  destruct (0 <? max); [|exact H]. destruct (find_sub rm l) as [k|]; [|exact H].
  specialize (IH (dropN (k + lenN rm) l) (max - 1) (nulfree_dropN _ l H)).
  destruct (replace_sub_fuel f (dropN (k + lenN rm) l) rm wm (max - 1)). cbn [fst] in *.
  apply nulfree_app; split; [now apply nulfree_takeN|]. apply nulfree_app; split; assumption.
Qed.
Lemma nulfree_replace_sub l rm wm max from : nulfree l -> nulfree wm -> nulfree (fst (l0_replace_sub l rm wm max from)).
Proof.
  intros H Hw. unfold l0_replace_sub. destruct ((max =? 0) || (lenN l <=? from) || (lenN rm =? 0)); [exact H|].
  pose proof (nulfree_replace_sub_fuel (S (length l)) (dropN from l) rm wm max (nulfree_dropN from l H) Hw) as X.
  destruct (replace_sub_fuel (S (length l)) (dropN from l) rm wm max). cbn [fst] in *.
  apply nulfree_app; split; [now apply nulfree_takeN|exact X].
Qed.
Lemma nulfree_drop_while p l : nulfree l -> nulfree (drop_while p l).
Proof. intros H. induction H; cbn [drop_while]; [constructor|]. destruct (p x); [assumption|now constructor]. Qed.
Lemma nulfree_trimmed l : nulfree l -> nulfree (l0_trimmed l).
Proof. intros H. unfold l0_trimmed. now apply nulfree_rev, nulfree_drop_while, nulfree_rev, nulfree_drop_while. Qed.
Lemma nulfree_l0_arg l v : nulfree l -> nulfree v -> nulfree (l0_arg l v).
Proof. intros H Hv. unfold l0_arg. destruct (0 <=? _)%Z; [|exact H]. now apply nulfree_replace_sub. Qed.
Lemma nulfree_strip_suffix f l suf max : nulfree l -> nulfree (strip_suffix_fuel f l suf max).
Proof.
  revert l max. induction f as [|f IH]; intros l max H; cbn [strip_suffix_fuel]; [exact H|].
  destruct ((0 <? max) && ends_with l suf); [|exact H]. apply IH. now apply nulfree_trunc_chars.
Qed.
Lemma nulfree_strip_prefix f l pre max : nulfree l -> nulfree (strip_prefix_fuel f l pre max).
Proof.
  revert l max. induction f as [|f IH]; intros l max H; cbn [strip_prefix_fuel]; [exact H|].
  destruct ((0 <? max) && starts_with l pre); [|exact H]. apply IH. now apply nulfree_dropN.
Qed.
Lemma nulfree_strip_suffix_nc f l suf max : nulfree l -> nulfree (strip_suffix_nc_fuel f l suf max).
Proof.
  revert l max. induction f as [|f IH]; intros l max H; cbn [strip_suffix_nc_fuel]; [exact H|].
  destruct ((0 <? max) && ends_with_nocase l suf); [|exact H]. apply IH. now apply nulfree_trunc_chars.
Qed.
Lemma nulfree_strip_prefix_nc f l pre max : nulfree l -> nulfree (strip_prefix_nc_fuel f l pre max).
Proof.
  revert l max. induction f as [|f IH]; intros l max H; cbn [strip_prefix_nc_fuel]; [exact H|].
  destruct ((0 <? max) && starts_with_nocase l pre); [|exact H]. apply IH. now apply nulfree_dropN.
Qed.
Lemma nulfree_strip_ch_prefix_nc l ch max : nulfree l -> nulfree (strip_ch_prefix_nc l ch max).
Proof.
  intros H. revert max. induction H as [|x l Hx Hl IH]; intros max; cbn [strip_ch_prefix_nc]; [constructor|].
  destruct ((0 <? max) && ((x =? to_upper ch) || (x =? to_lower ch))); [apply IH|now constructor].
Qed.
Lemma nulfree_strip_ch_prefix l ch max : nulfree l -> nulfree (strip_ch_prefix l ch max).
Proof.
  intros H. revert max. induction H as [|x l Hx Hl IH]; intros max; cbn [strip_ch_prefix]; [constructor|].
  destruct ((0 <? max) && (x =? ch)); [apply IH|now constructor].
Qed.
Lemma nulfree_padded l m r ch : nulfree l -> nulfree (l0_padded l m r ch).
Proof.
  intros H. unfold l0_padded. destruct (ch =? 0) eqn:E; cbn [negb]; [now rewrite andb_false_r|].
  apply N.eqb_neq in E. rewrite andb_true_r. destruct (lenN l <? m); [|exact H].
  destruct r; apply nulfree_app; split; trivial; now apply nulfree_repN.
Qed.

Lemma nulfree_with_word l idx w sep : nulfree l -> nulfree w -> nulfree sep -> nulfree (l0_with_word l idx w sep).
Proof.
  intros F Fw Fs. unfold l0_with_word.
  assert (A2 : forall x y, nulfree x -> nulfree y -> nulfree (x ++ y)) by (intros; apply nulfree_app; now split).
  destruct (is_nil w); [exact F|]. destruct (is_nil sep); [now apply nulfree_l0_insert|].
  destruct (lenN l <=? idx).
  { destruct (is_nil l || ends_with l sep || starts_with w sep); auto. }
  destruct (idx =? 0).
  { destruct (is_nil l || starts_with l sep || ends_with w sep); auto. }
  pose proof (nulfree_takeN idx l F) as Fa. pose proof (nulfree_dropN idx l F) as Fb.
  cbn zeta. repeat match goal with |- context [if ?c then _ else _] => destruct c end; auto 10.
Qed.
Lemma nulfree_indent_fold pad seen l acc : nulfree pad -> nulfree l -> nulfree acc -> nulfree (indent_fold pad seen l acc).
Proof.
  intros Fp Fl. revert seen acc. induction Fl as [|c t Hc Ht IH]; intros seen acc Fa; cbn [indent_fold]; [exact Fa|].
  assert (A1 : nulfree (acc ++ [c])) by (apply nulfree_app; split; [exact Fa|constructor; [exact Hc|constructor]]).
  assert (A2 : nulfree ((acc ++ pad) ++ [c])).
  { apply nulfree_app; split; [apply nulfree_app; now split|constructor; [exact Hc|constructor]]. }
  destruct ((c =? 10) || (c =? 13)); [now apply IH|]. destruct seen; now apply IH.
Qed.
Lemma nulfree_indented l n ch : nulfree l -> nulfree (l0_indented l n ch).
Proof.
  intros F. unfold l0_indented. destruct (n =? 0); cbn [orb]; [exact F|]. destruct (ch =? 0) eqn:E; [exact F|].
  apply N.eqb_neq in E. pose proof (nulfree_repN ch n E) as Fp.
  apply nulfree_indent_fold; trivial. destruct ((nthN 0 l =? 13) || (nthN 0 l =? 10)); [exact Fp|constructor].
Qed.
Lemma nulfree_esc_fold seps esc pe pc l acc : esc <> 0 -> nulfree l -> nulfree acc -> nulfree (esc_fold seps esc pe pc l acc).
Proof.
  intros He Fl. revert pe pc acc. induction Fl as [|c t Hc Ht IH]; intros pe pc acc Fa; cbn [esc_fold]; [exact Fa|].
  apply IH. apply nulfree_app; split; [|constructor; [exact Hc|constructor]].
  destruct (negb pe && _); [|exact Fa]. apply nulfree_app; split; [exact Fa|constructor; [exact He|constructor]].
Qed.
Lemma nulfree_escaped l seps esc : nulfree l -> nulfree (l0_escaped l seps esc).
Proof.
  intros F. unfold l0_escaped. destruct (esc =? 0) eqn:E; [exact F|]. apply N.eqb_neq in E.
  destruct (_ && _); [exact F|]. apply nulfree_esc_fold; trivial. constructor.
Qed.
Lemma nulfree_multi_fuel f pairs l max :
  Forall (fun p => nulfree (snd p)) pairs -> nulfree l -> nulfree (fst (multi_fuel f pairs l max)).
Proof.
  intros Fp. revert l max. induction f as [|f IH]; intros l max F; cbn [multi_fuel]; [exact F|].
  destruct l as [|c t]; [constructor|].
  destruct (if 0 <? max then key_at pairs (c :: t) else None) as [[k v]|] eqn:EK.
  - assert (Fv : nulfree v).
    { destruct (0 <? max); [|discriminate EK]. unfold key_at in EK. apply find_some in EK. destruct EK as [Hin _].
      rewrite Forall_forall in Fp. apply (Fp _ Hin). }
    specialize (IH (dropN (lenN k) (c :: t)) (dec_max max) (nulfree_dropN _ _ F)).
    destruct (multi_fuel f pairs (dropN (lenN k) (c :: t)) (dec_max max)). cbn [fst] in *. apply nulfree_app; now split.
  - inversion F; subst. specialize (IH t max H2). destruct (multi_fuel f pairs t max). cbn [fst] in *. now constructor.
Qed.
Lemma nulfree_clit l c : nulfree l -> carg_ok c -> nulfree (clit_of l c).
Proof. intros H C. destruct c; cbn [clit_of]; [constructor|apply C|now apply nulfree_dropN]. Qed.

Definition out0_nulfree (r : out0) : Prop :=
  match r with R0Str x => nulfree x | R0StrNat x _ => nulfree x | _ => True end.

Lemma mutate0_nulfree l o l' r : nulfree l -> args_ok o -> mutate0 l o = Some (l', r) -> nulfree l' /\ out0_nulfree r.
Proof.
  intros F A H. destruct o; cbn [mutate0] in H; try discriminate; cbn [args_ok] in A.
  - inversion H; subst; clear H; cbn [out0_nulfree]. split; [|exact I]. now apply nulfree_takeN, nulfree_clit.
  - inversion H; subst; clear H; cbn [out0_nulfree]. split; [|exact I]. now apply nulfree_l0_sub, lit_nulfree.
  - inversion H; subst; clear H; cbn [out0_nulfree]. split; [|exact I]. apply nulfree_app; split; [exact F|now apply lit_nulfree].
  - inversion H; subst; clear H; cbn [out0_nulfree]. split; [|exact I]. apply nulfree_app; split; [exact F|now apply nulfree_clit].
  - inversion H; subst; clear H; cbn [out0_nulfree]. split; [|exact I]. apply nulfree_app; split; [exact F|]. constructor; [exact A|constructor].
  - inversion H; subst; clear H; cbn [out0_nulfree]. split; [|exact I]. apply nulfree_l0_insert; [exact F|]. now apply nulfree_takeN, nulfree_clit.
  - inversion H; subst; clear H; cbn [out0_nulfree]. split; [constructor|exact I].
  - inversion H; subst; clear H; cbn [out0_nulfree]. split; [constructor|exact I].
  - inversion H; subst; clear H; cbn [out0_nulfree]. split; [exact F|exact I].
  - inversion H; subst; clear H; cbn [out0_nulfree]. split; [exact F|exact I].
  - inversion H; subst; clear H; cbn [out0_nulfree]. split; [now apply nulfree_trunc_chars|exact I].
  - inversion H; subst; clear H; cbn [out0_nulfree]. split; [now apply nulfree_takeN|exact I].
  - inversion H; subst; clear H; cbn [out0_nulfree]. split; [apply A|exact F].
  - inversion H; subst; clear H; cbn [out0_nulfree]. split; [now apply nulfree_l0_minus_ch|exact I].
  - inversion H; subst; clear H; cbn [out0_nulfree]. split; [now apply nulfree_l0_minus|exact I].
  - inversion H; subst; clear H; cbn [out0_nulfree]. split; [now apply nulfree_l0_minus|exact I].
  - inversion H; subst; clear H; cbn [out0_nulfree]. split; [now apply nulfree_rev|exact I].
  - pose proof (nulfree_replace_ch l a b max from A F) as X.
    destruct (l0_replace_ch l a b max from). inversion H; subst. cbn [fst] in X. split; [exact X|exact I].
  - destruct A as [_ Aw]. pose proof (nulfree_replace_sub l (lit_of l rm) (lit_of l wm) max from F (lit_nulfree l wm F Aw)) as X.
    destruct (l0_replace_sub l (lit_of l rm) (lit_of l wm) max from). inversion H; subst. cbn [fst] in X. split; [exact X|exact I].
  - destruct (list_eqb (cstr bytes) bytes); inversion H; subst; (split; [|exact I]); [exact F|apply cstr_is_nulfree].
  - unfold read_cstr_w in H. destruct (list_eqb _ _); inversion H; subst; (split; [|exact I]); [exact F|apply cstr_is_nulfree].
  - pose proof (nulfree_multi_fuel (S (length l)) pairs l max A F) as X. unfold l0_replace_multi in H.
    destruct (multi_fuel (S (length l)) pairs l max). inversion H; subst. cbn [fst] in X. split; [exact X|exact I].
  - inversion H; subst; clear H; cbn [out0_nulfree]. split; [|exact I]. destruct (i <? lenN l); [|exact F].
    unfold upd, blit. apply nulfree_app; split; [now apply nulfree_takeN|]. apply nulfree_app; split; [|now apply nulfree_dropN].
    constructor; [exact A|constructor].
  - inversion H; subst; clear H; cbn [out0_nulfree]. split; [|exact I]. apply nulfree_app; split; [exact F|apply nulfree_dec_of_Z].
  - inversion H; subst; clear H; cbn [out0_nulfree]. split; [|exact I]. apply nulfree_app; split; [exact F|].
    destruct b; repeat constructor; discriminate.
  - inversion H; subst; clear H; cbn [out0_nulfree]. split; [exact F|exact I].
  - inversion H; subst; clear H; cbn [out0_nulfree]. split; [exact F|exact I].
  - inversion H; subst; clear H; cbn [out0_nulfree]. split; [exact F|exact I].
Qed.

Lemma produce0_nulfree l o r : nulfree l -> args_ok o -> produce0 l o = Some r -> out0_nulfree r.
Proof.
  intros F A H. destruct o; cbn [produce0] in H; try discriminate; cbn [args_ok] in A.
  - inversion H; subst; clear H; cbn [out0_nulfree]. exact F.
  - inversion H; subst; clear H; cbn [out0_nulfree]. exact F.
  - inversion H; subst; clear H; cbn [out0_nulfree]. now apply nulfree_l0_sub.
  - inversion H; subst; clear H; cbn [out0_nulfree]. destruct (l0_last_index_of1 l (lit_of l a)); trivial; now apply nulfree_l0_sub.
  - inversion H; subst; clear H; cbn [out0_nulfree]. now apply nulfree_l0_sub.
  - inversion H; subst; clear H; cbn [out0_nulfree]. apply nulfree_l0_insert; [exact F|]. now apply nulfree_takeN, lit_nulfree.
  - inversion H; subst; clear H; cbn [out0_nulfree]. destruct (ch =? 0) eqn:E; [exact F|]. apply N.eqb_neq in E. apply nulfree_l0_insert; [exact F|now apply nulfree_repN].
  - inversion H; subst; clear H; cbn [out0_nulfree]. now apply nulfree_padded.
  - inversion H; subst; clear H; cbn [out0_nulfree]. apply nulfree_map; [apply to_lower_nz|exact F].
  - inversion H; subst; clear H; cbn [out0_nulfree]. apply nulfree_map; [apply to_upper_nz|exact F].
  - inversion H; subst; clear H; cbn [out0_nulfree]. now apply nulfree_mixed_aux.
  - inversion H; subst; clear H; cbn [out0_nulfree]. now apply nulfree_trimmed.
  - inversion H; subst; clear H; cbn [out0_nulfree]. now apply nulfree_replace_ch.
  - inversion H; subst; clear H; cbn [out0_nulfree]. destruct A as [_ Aw]. apply nulfree_replace_sub; [exact F|now apply lit_nulfree].
  - inversion H; subst; clear H; cbn [out0_nulfree]. apply nulfree_l0_arg; [exact F|now apply lit_nulfree].
  - inversion H; subst; clear H; cbn [out0_nulfree]. apply nulfree_l0_arg; [exact F|apply nulfree_dec_of_Z].
  - inversion H; subst; clear H; cbn [out0_nulfree]. destruct (ends_with l (lit_of l a)); [exact F|]. apply nulfree_app; split; [exact F|now apply lit_nulfree].
  - inversion H; subst; clear H; cbn [out0_nulfree]. destruct (starts_with l (lit_of l a)); [exact F|]. apply nulfree_app; split; [now apply lit_nulfree|exact F].
  - inversion H; subst; clear H; cbn [out0_nulfree]. unfold l0_without_suffix. destruct (lit_of l a); [exact F|now apply nulfree_strip_suffix].
  - inversion H; subst; clear H; cbn [out0_nulfree]. unfold l0_without_prefix. destruct (lit_of l a); [exact F|now apply nulfree_strip_prefix].
  - inversion H; subst; clear H; cbn [out0_nulfree]. now apply nulfree_strip_suffix.
  - inversion H; subst; clear H; cbn [out0_nulfree]. now apply nulfree_strip_ch_prefix.
  - unfold l0_without_num_suffix in H. inversion H; subst. cbn [out0_nulfree]. now apply nulfree_takeN.
  - inversion H; subst; clear H; cbn [out0_nulfree]. apply nulfree_app; split; [exact F|now apply lit_nulfree].
  - inversion H; subst; clear H; cbn [out0_nulfree]. destruct ((0 <? lenN l) && (nthN (lenN l - 1) l =? ch)); [exact F|].
    destruct (ch =? 0) eqn:E; [exact F|]. apply N.eqb_neq in E. apply nulfree_app; split; [exact F|]. constructor; [exact E|constructor].
  - inversion H; subst; clear H; cbn [out0_nulfree]. destruct (nthN 0 l =? ch); [exact F|].
    destruct (ch =? 0) eqn:E; [exact F|]. apply N.eqb_neq in E. now constructor.
  - inversion H; subst; clear H; cbn [out0_nulfree]. unfold l0_without_suffix_nc. destruct (lit_of l a); [exact F|now apply nulfree_strip_suffix_nc].
  - inversion H; subst; clear H; cbn [out0_nulfree]. unfold l0_without_prefix_nc. destruct (lit_of l a); [exact F|now apply nulfree_strip_prefix_nc].
  - inversion H; subst; clear H; cbn [out0_nulfree]. exact (nulfree_strip_suffix_nc (S (length l)) l [ch] max F).
  - inversion H; subst; clear H; cbn [out0_nulfree]. now apply nulfree_strip_ch_prefix_nc.
  - inversion H; subst; clear H; cbn [out0_nulfree]. destruct A as [Aa As]. apply nulfree_with_word; trivial. now apply lit_nulfree.
  - inversion H; subst; clear H; cbn [out0_nulfree]. now apply nulfree_indented.
  - inversion H; subst; clear H; cbn [out0_nulfree]. apply nulfree_l0_arg; [exact F|apply (float_text_facts buf minDigits A)].
  - inversion H; subst; clear H; cbn [out0_nulfree]. exact (nulfree_multi_fuel (S (length l)) pairs l max A F).
  - inversion H; subst; clear H; cbn [out0_nulfree]. apply nulfree_app; split; [exact F|constructor; [exact A|constructor]].
  - inversion H; subst; clear H; cbn [out0_nulfree]. apply nulfree_app; split; [exact (cstr_is_nulfree [ch])|exact F].
  - inversion H; subst; clear H; cbn [out0_nulfree]. apply nulfree_app; split; [apply A|exact F].
  - inversion H; subst; clear H; cbn [out0_nulfree]. now apply nulfree_l0_minus.
  - inversion H; subst; clear H; cbn [out0_nulfree]. now apply nulfree_l0_minus_ch.
  - inversion H; subst; clear H; cbn [out0_nulfree]. now apply nulfree_escaped.
Qed.

(* the state after any level-0 step is NUL-free again *)
Lemma step0_nulfree l o : nulfree l -> args_ok o -> nulfree (fst (step0 l o)).
Proof.
  intros F A. destruct o; cbn [step0];
    try (match goal with
         | |- nulfree (fst match mutate0 l ?o with _ => _ end) =>
             destruct (mutate0 l o) as [[l' r]|] eqn:Em;
             [exact (proj1 (mutate0_nulfree l o l' r F A Em))
             |destruct (produce0 l o); [exact F|destruct (query l l o); exact F]]
         end).
  cbn [args_ok] in A. destruct (produce0 l o) as [r|] eqn:Ep; [|exact F].
  pose proof (produce0_nulfree l o r F A Ep) as X. destruct r; cbn [fst out0_nulfree] in *; trivial.
Qed.
