(* C09 -- L0: the ideal ordered map.  A table is an association list in iteration order plus the
   two user-visible attributes "reserved capacity" and "auto-sort enabled"; every public table
   operation has its ideal list semantics here, written without links, cursors or node ids.
   Iterator operations do not change any table (they are the identity at this level).
   No proofs in this file. *)
From Coq Require Import List Arith ZArith NArith Bool.
From Muscle Require Import Cont.HtModel.
Import ListNotations.

Record tab0 := mkT0 { pairs : amap; acap : N; aasort : bool }.
Definition world0 := list tab0.

Definition gett0 (w : world0) (t : nat) : tab0 := nth t w (mkT0 [] 0 true).
Definition sett0 (w : world0) (t : nat) (x : tab0) : world0 := upd_nth w t x.
Definition valid_t0 (w : world0) (t : nat) : bool := t <? length w.
Definition with_pairs (x : tab0) (l : amap) : tab0 := mkT0 l (acap x) (aasort x).

Fixpoint take_while {A} (f : A -> bool) (l : list A) : list A :=
  match l with [] => [] | x :: r => if f x then x :: take_while f r else [] end.

Definition last_opt {A} (l : list A) : option A := head_opt (rev l).

Definition a_key_at (l : amap) (i : nat) : option Z := match nth_error l i with Some kv => Some (fst kv) | None => None end.
Definition a_val_at (l : amap) (i : nat) : option Z := match nth_error l i with Some kv => Some (snd kv) | None => None end.

Section Step0.
Variable var : variant.
Variable dcap : N.

Definition cmpv (a b : Z * Z) : comparison := cmp_var var a b.

(* where InsertIterationEntryInOrder puts a new pair: in front of the maximal tail of pairs that
   compare greater, or at the very front when it compares less than the first pair *)
Definition l0_insert_ordered (l : amap) (kv : Z * Z) : amap :=
  match l with
  | [] => [kv]
  | x :: _ =>
    if is_lt (cmpv kv x) then kv :: l
    else let s := rev (take_while (fun y => is_lt (cmpv kv y)) (rev l)) in
         firstn (length l - length s) l ++ kv :: s
  end.

Definition l0_insert_new (l : amap) (asrt : bool) (kv : Z * Z) : amap :=
  match var with
  | VPlain => l ++ [kv]
  | _ => if asrt then l0_insert_ordered l kv else l ++ [kv]
  end.

(* where MoveIterationEntryToCorrectPosition puts the pair with key k *)
Definition l0_reposition_ordered (l : amap) (k : Z) : amap :=
  match a_index l k 0, a_get l k with
  | Some i, Some v =>
    let kv := (k, v) in
    let pre := firstn i l in
    let post := skipn (S i) l in
    let back_case :=
      match post with
      | [] => l
      | y :: _ =>
        if is_gt (cmpv kv y) then
          match last_opt l with
          | Some z => if is_gt (cmpv kv z) then pre ++ post ++ [kv]
                      else let s := take_while (fun x => is_gt (cmpv kv x)) post in
                           pre ++ s ++ kv :: skipn (length s) post
          | None => l
          end
        else l
      end in
    match last_opt pre with
    | Some b =>
      if is_lt (cmpv kv b) then
        match l with
        | x :: _ => if is_lt (cmpv kv x) then kv :: pre ++ post
                    else let s := rev (take_while (fun y => is_lt (cmpv kv y)) (rev pre)) in
                         firstn (length pre - length s) pre ++ kv :: s ++ post
        | [] => l
        end
      else back_case
    | None => back_case
    end
  | _, _ => l
  end.

Definition l0_reposition (l : amap) (k : Z) : amap :=
  match var with VPlain => l | _ => l0_reposition_ordered l k end.

Definition l0_sort_aux (l : amap) : amap :=
  match var with VPlain => l | _ => stable_sort cmpv l end.

Definition l0_ensure (x : tab0) (req : N) (shrink : bool) : tab0 * nat :=
  let bigger := N.max (N.of_nat (length (pairs x))) (if shrink then req else N.max req (acap x)) in
  if N.eqb bigger (acap x) then (x, 0)
  else if N.eqb bigger 0 then (mkT0 [] dcap (aasort x), 0)
  else if N.eqb bigger 4294967295 then (x, 3)
  else (mkT0 (pairs x) bigger (aasort x), 0).

(* Put(k, v): returns the previous value if the key was present *)
Definition l0_put (x0 : tab0) (k v : Z) : tab0 * option Z :=
  let x := if N.eqb (acap x0) 0 then mkT0 (pairs x0) dcap (aasort x0) else x0 in
  match a_get (pairs x) k with
  | Some old => (with_pairs x (l0_reposition (a_set (pairs x) k v) k), Some old)
  | None =>
    let x1 := if N.eqb (N.of_nat (length (pairs x))) (acap x) then fst (l0_ensure x (acap x * 2) false) else x in
    (with_pairs x1 (l0_insert_new (pairs x1) (aasort x1) (k, v)), None)
  end.

Definition l0_move_before (l : amap) (k k2 : Z) : amap :=
  match a_get l k, a_index (a_remove l k) k2 0 with
  | Some v, Some j => a_insert_at (a_remove l k) j (k, v)
  | _, _ => l
  end.
Definition l0_move_behind (l : amap) (k k2 : Z) : amap :=
  match a_get l k, a_index (a_remove l k) k2 0 with
  | Some v, Some j => a_insert_at (a_remove l k) (S j) (k, v)
  | _, _ => l
  end.

Definition l0_clear (x : tab0) (release : bool) : tab0 :=
  mkT0 [] (if release then dcap else acap x) (aasort x).

(* CopyFrom(rhs, clearFirst), this != &rhs *)
Definition l0_copy_one (wasempty : bool) (l : amap) (kv : Z * Z) : amap :=
  match (if wasempty then None else a_get l (fst kv)) with
  | Some _ => a_set l (fst kv) (snd kv)
  | None => l ++ [kv]
  end.
Definition l0_copy_from (x : tab0) (src : amap) (clearfirst : bool) : tab0 * nat :=
  let x1 := if clearfirst then l0_clear x ((length src =? 0) && N.ltb dcap (acap x)) else x in
  match src with
  | [] => (x1, 0)
  | _ => let '(x2, st) := l0_ensure x1 (N.of_nat (length (pairs x1) + length src)) false in
         if st =? 0
         then (with_pairs x2 (l0_sort_aux (fold_left (l0_copy_one (length (pairs x2) =? 0)) src (pairs x2))), 0)
         else (x2, st)
  end.

Definition l0_equal (a b : amap) (ordered : bool) : bool :=
  if negb (length a =? length b) then false
  else if ordered then
    forallb (fun '(x, y) => Z.eqb (fst x) (fst y) && Z.eqb (snd x) (snd y)) (combine a b)
  else
    forallb (fun kv => match a_get b (fst kv) with Some v => Z.eqb v (snd kv) | None => false end) a.

Definition is_some {A} (o : option A) : bool := match o with Some _ => true | None => false end.

Definition step0 (w : world0) (o : op) : world0 * out :=
  match o with
  | OPut t k v =>
      if valid_t0 w t then let '(x, old) := l0_put (gett0 w t) k v in (sett0 w t x, OVal old) else (w, ONone)
  | OPutIfAbsent t k v =>
      if valid_t0 w t then
        match a_get (pairs (gett0 w t)) k with
        | Some _ => (w, OBool false)
        | None => (sett0 w t (fst (l0_put (gett0 w t) k v)), OBool true)
        end
      else (w, ONone)
  | OGetOrPut t k v =>
      if valid_t0 w t then
        match a_get (pairs (gett0 w t)) k with
        | Some old => (w, OVal (Some old))
        | None => (sett0 w t (fst (l0_put (gett0 w t) k v)), OVal (Some v))
        end
      else (w, ONone)
  | OPutAtFront t k v =>
      if valid_t0 w t then
        let x := fst (l0_put (gett0 w t) k v) in
        (sett0 w t (with_pairs x (a_move_to (pairs x) k 0)), OStatus 0)
      else (w, ONone)
  | OPutAtBack t k v =>
      if valid_t0 w t then
        let x := fst (l0_put (gett0 w t) k v) in
        (sett0 w t (with_pairs x (a_move_to (pairs x) k (length (pairs x) - 1))), OStatus 0)
      else (w, ONone)
  | OPutBefore t k k2 v =>
      if valid_t0 w t then
        let x := fst (l0_put (gett0 w t) k v) in
        (sett0 w t (with_pairs x (if Z.eqb k k2 then pairs x else l0_move_before (pairs x) k k2)), OStatus 0)
      else (w, ONone)
  | OPutBehind t k k2 v =>
      if valid_t0 w t then
        let x := fst (l0_put (gett0 w t) k v) in
        (sett0 w t (with_pairs x (if Z.eqb k k2 then pairs x else l0_move_behind (pairs x) k k2)), OStatus 0)
      else (w, ONone)
  | OPutAtPos t k idx v =>
      if valid_t0 w t then
        let x := fst (l0_put (gett0 w t) k v) in
        (sett0 w t (with_pairs x (a_move_to (pairs x) k idx)), OStatus 0)
      else (w, ONone)
  | OGet t k => (w, OVal (a_get (pairs (gett0 w t)) k))
  | OContains t k => (w, OBool (is_some (a_get (pairs (gett0 w t)) k)))
  | OIndexOfKey t k => (w, OIdx (a_index (pairs (gett0 w t)) k 0))
  | OKeyAt t idx => (w, OVal (a_key_at (pairs (gett0 w t)) idx))
  | OValAt t idx => (w, OVal (a_val_at (pairs (gett0 w t)) idx))
  | OFirstKey t => (w, OVal (a_key_at (pairs (gett0 w t)) 0))
  | OLastKey t => (w, OVal (match last_opt (pairs (gett0 w t)) with Some kv => Some (fst kv) | None => None end))
  | OKeyBefore t k =>
      let l := pairs (gett0 w t) in
      (w, OVal (match a_index l k 0 with
                | Some (S i) => a_key_at l i
                | _ => None
                end))
  | OKeyAfter t k =>
      let l := pairs (gett0 w t) in
      (w, OVal (match a_index l k 0 with Some i => a_key_at l (S i) | None => None end))
  | OIndexOfValue t v bw =>
      let l := pairs (gett0 w t) in
      (w, OIdx (if bw then a_last_index_of_value l v else a_index_of_value l v 0))
  | ONumItems t => (w, ONat (length (pairs (gett0 w t))))
  | ORemove t k =>
      if valid_t0 w t then
        let x := gett0 w t in
        match a_get (pairs x) k with
        | Some v => (sett0 w t (with_pairs x (a_remove (pairs x) k)), OVal (Some v))
        | None => (w, OVal None)
        end
      else (w, ONone)
  | ORemoveFirst t =>
      if valid_t0 w t then
        let x := gett0 w t in
        match pairs x with
        | kv :: r => (sett0 w t (with_pairs x r), OKV (Some kv))
        | [] => (w, OKV None)
        end
      else (w, ONone)
  | ORemoveLast t =>
      if valid_t0 w t then
        let x := gett0 w t in
        match last_opt (pairs x) with
        | Some kv => (sett0 w t (with_pairs x (removelast (pairs x))), OKV (Some kv))
        | None => (w, OKV None)
        end
      else (w, ONone)
  | OMoveFront t k =>
      if valid_t0 w t then
        let x := gett0 w t in
        match a_get (pairs x) k with
        | Some _ => (sett0 w t (with_pairs x (a_move_to (pairs x) k 0)), OStatus 0)
        | None => (w, OStatus 1)
        end
      else (w, ONone)
  | OMoveBack t k =>
      if valid_t0 w t then
        let x := gett0 w t in
        match a_get (pairs x) k with
        | Some _ => (sett0 w t (with_pairs x (a_move_to (pairs x) k (length (pairs x) - 1))), OStatus 0)
        | None => (w, OStatus 1)
        end
      else (w, ONone)
  | OMoveBefore t k k2 =>
      if valid_t0 w t then
        let x := gett0 w t in
        match a_get (pairs x) k, a_get (pairs x) k2 with
        | Some _, Some _ => if Z.eqb k k2 then (w, OStatus 2)
                            else (sett0 w t (with_pairs x (l0_move_before (pairs x) k k2)), OStatus 0)
        | _, _ => (w, OStatus 1)
        end
      else (w, ONone)
  | OMoveBehind t k k2 =>
      if valid_t0 w t then
        let x := gett0 w t in
        match a_get (pairs x) k, a_get (pairs x) k2 with
        | Some _, Some _ => if Z.eqb k k2 then (w, OStatus 2)
                            else (sett0 w t (with_pairs x (l0_move_behind (pairs x) k k2)), OStatus 0)
        | _, _ => (w, OStatus 1)
        end
      else (w, ONone)
  | OMovePos t k idx =>
      if valid_t0 w t then
        let x := gett0 w t in
        match a_get (pairs x) k with
        | Some _ => (sett0 w t (with_pairs x (a_move_to (pairs x) k idx)), OStatus 0)
        | None => (w, OStatus 1)
        end
      else (w, ONone)
  | OGetMoveFront t k =>
      if valid_t0 w t then
        let x := gett0 w t in
        match a_get (pairs x) k with
        | Some v => (sett0 w t (with_pairs x (a_move_to (pairs x) k 0)), OVal (Some v))
        | None => (w, OVal None)
        end
      else (w, ONone)
  | OGetMoveBack t k =>
      if valid_t0 w t then
        let x := gett0 w t in
        match a_get (pairs x) k with
        | Some v => (sett0 w t (with_pairs x (a_move_to (pairs x) k (length (pairs x) - 1))), OVal (Some v))
        | None => (w, OVal None)
        end
      else (w, ONone)
  | OSortKey t =>
      if valid_t0 w t then let x := gett0 w t in (sett0 w t (with_pairs x (stable_sort cmp_key (pairs x))), ONone)
      else (w, ONone)
  | OSortVal t =>
      if valid_t0 w t then let x := gett0 w t in (sett0 w t (with_pairs x (stable_sort cmp_val (pairs x))), ONone)
      else (w, ONone)
  | OSort t =>
      if valid_t0 w t then let x := gett0 w t in (sett0 w t (with_pairs x (l0_sort_aux (pairs x))), ONone)
      else (w, ONone)
  | OReposition t k =>
      if valid_t0 w t then
        let x := gett0 w t in
        match a_get (pairs x) k with
        | Some _ => (sett0 w t (with_pairs x (l0_reposition (pairs x) k)), OStatus 0)
        | None => (w, OStatus 1)
        end
      else (w, ONone)
  | OSetAutoSort t en sortnow =>
      if valid_t0 w t then
        match var with
        | VPlain => (w, ONone)
        | _ => let x := gett0 w t in
               if Bool.eqb en (aasort x) then (w, ONone)
               else (sett0 w t (mkT0 (if sortnow && en then l0_sort_aux (pairs x) else pairs x) (acap x) en), ONone)
        end
      else (w, ONone)
  | OEnsure t n shrink =>
      if valid_t0 w t then let '(x, st) := l0_ensure (gett0 w t) n shrink in (sett0 w t x, OStatus st)
      else (w, ONone)
  | OShrinkFit t extra =>
      if valid_t0 w t then
        let need := (N.of_nat (length (pairs (gett0 w t))) + extra)%N in
        if N.ltb 4294967295 need then (w, OStatus 3)
        else let '(x, st) := l0_ensure (gett0 w t) need true in (sett0 w t x, OStatus st)
      else (w, ONone)
  | OEnsureCanPut t extra =>
      if valid_t0 w t then
        let need := (N.of_nat (length (pairs (gett0 w t))) + extra)%N in
        if N.ltb 4294967295 need then (w, OStatus 3)
        else let '(x, st) := l0_ensure (gett0 w t) need false in (sett0 w t x, OStatus st)
      else (w, ONone)
  | OClear t release =>
      if valid_t0 w t then (sett0 w t (l0_clear (gett0 w t) release), ONone) else (w, ONone)
  | OCopyFrom t u cf =>
      if valid_t0 w t && valid_t0 w u then
        if t =? u then (w, OStatus 0)
        else let '(x, st) := l0_copy_from (gett0 w t) (pairs (gett0 w u)) cf in (sett0 w t x, OStatus st)
      else (w, ONone)
  | OCopyCtor t u =>
      if valid_t0 w t && valid_t0 w u then
        if t =? u then (w, ONone)
        else let '(x, _) := l0_copy_from (mkT0 [] (acap (gett0 w u)) true) (pairs (gett0 w u)) true in
             (sett0 w t x, ONone)
      else (w, ONone)
  | OSwap t u =>
      if valid_t0 w t && valid_t0 w u then
        if t =? u then (w, ONone)
        else let a := gett0 w t in
             let b := gett0 w u in
             (sett0 (sett0 w t (mkT0 (pairs b) (acap b) (aasort a))) u (mkT0 (pairs a) (acap a) (aasort b)), ONone)
      else (w, ONone)
  | OEqual t u ordered =>
      if valid_t0 w t && valid_t0 w u then
        (w, OBool (if t =? u then true else l0_equal (pairs (gett0 w t)) (pairs (gett0 w u)) ordered))
      else (w, ONone)
  | OMoveToTable t u k =>
      if valid_t0 w t && valid_t0 w u then
        match a_get (pairs (gett0 w t)) k with
        | Some v =>
          if t =? u then (w, OStatus 0)
          else let xu := fst (l0_put (gett0 w u) k v) in
               let xt := gett0 w t in
               (sett0 (sett0 w u xu) t (with_pairs xt (a_remove (pairs xt) k)), OStatus 0)
        | None => (w, OStatus 1)
        end
      else (w, ONone)
  | OCopyToTable t u k =>
      if valid_t0 w t && valid_t0 w u then
        match a_get (pairs (gett0 w t)) k with
        | Some v => if t =? u then (w, OStatus 0)
                    else (sett0 w u (fst (l0_put (gett0 w u) k v)), OStatus 0)
        | None => (w, OStatus 1)
        end
      else (w, ONone)
  | ORemoveTable t u =>
      if valid_t0 w t && valid_t0 w u then
        let x := gett0 w t in
        if t =? u then (sett0 w t (l0_clear x false), ONat (length (pairs x)))
        else
          let other := pairs (gett0 w u) in
          let keep := filter (fun kv => negb (is_some (a_get other (fst kv)))) (pairs x) in
          (sett0 w t (with_pairs x keep), ONat (length (pairs x) - length keep))
      else (w, ONone)
  | OIntersect t u =>
      if valid_t0 w t && valid_t0 w u then
        if t =? u then (w, ONat 0)
        else
          let x := gett0 w t in
          let other := pairs (gett0 w u) in
          let keep := filter (fun kv => is_some (a_get other (fst kv))) (pairs x) in
          (sett0 w t (with_pairs x keep), ONat (length (pairs x) - length keep))
      else (w, ONone)
  | ODestroy t =>
      if valid_t0 w t then (sett0 w t (mkT0 [] dcap true), ONone) else (w, ONone)
  | OMoveCtor t u =>
      if valid_t0 w t && valid_t0 w u then
        if t =? u then (w, ONone)
        else let b := gett0 w u in
             (sett0 (sett0 w t (mkT0 (pairs b) (acap b) true)) u (mkT0 [] 0 (aasort b)), ONone)
      else (w, ONone)
  | OPrealloc t n =>
      if valid_t0 w t then (sett0 w t (fst (l0_ensure (mkT0 [] 0 true) n false)), ONone) else (w, ONone)
  | OIterNew _ _ _ | OIterAt _ _ _ _ | OIterAdv _ | OIterRet _ | OIterSetBw _ _ | OIterDel _
  | OIterCopy _ _ | OIterShow _ => (w, ONone)
  end.

End Step0.

(* which outputs are compared between the two levels (iterator observations are L1-only) *)
Definition is_iter_op (o : op) : bool :=
  match o with
  | OIterNew _ _ _ | OIterAt _ _ _ _ | OIterAdv _ | OIterRet _ | OIterSetBw _ _ | OIterDel _
  | OIterCopy _ _ | OIterShow _ => true
  | _ => false
  end.

(* the abstraction from L1 to L0 *)
Definition abs_tab (h : ht) : tab0 := mkT0 (abs h) (cap h) (asort h).
Definition abs_world (w : world) : world0 := map abs_tab (tabs w).
Definition init_world0 (dcap : N) (nt : nat) : world0 := repeat (mkT0 [] dcap true) nt.
