(* C17 -- the pointer loop of String::Replace(const String &, const String &, max, from) computes the level-0
   replacement: in place (the write offset never overtakes the read offset) and into the temporary String. *)
From Coq Require Import List NArith ZArith Bool Lia.
From Muscle Require Import Cont.StrL0 Cont.StrModel Cont.StrLemmas Cont.StrL0Facts.
Import ListNotations.
Local Open Scope N_scope.

(* the (possibly skipped) memmove of the bytes between two matches *)
Lemma step_move (mv : bool) b wp r k :
  wp <= r -> r + k <= lenN b -> (mv = false -> wp = r) ->
  let b1 := if mv then blit b wp (takeN k (dropN r b)) else b in
  lenN b1 = lenN b /\ takeN (wp + k) b1 = takeN wp b ++ takeN k (dropN r b) /\ dropN (r + k) b1 = dropN (r + k) b.
Proof.
  intros H1 H2 H3 b1. unfold b1.
  assert (Lk : lenN (takeN k (dropN r b)) = k) by (rewrite lenN_takeN, lenN_dropN; lia).
  destruct mv.
  - splits.
    + apply lenN_blit. lia.
    + rewrite <- Lk at 1. apply takeN_blit_cover. lia.
    + apply dropN_blit_after; lia.
  - rewrite (H3 eq_refl). splits; trivial. apply takeN_add.
Qed.

Section Repl.
Variables (orig junk rm wm : list N).
Hypothesis Forig : nulfree orig.
Hypothesis Nrm : rm <> [].
Let len := lenN orig.
Let b0 := orig ++ 0 :: junk.

Lemma lenN_b0 : lenN b0 = len + 1 + lenN junk.
Proof. unfold b0, len. rewrite lenN_app, lenN_cons. lia. Qed.
Lemma drop_b0 r : r <= len -> dropN r b0 = dropN r orig ++ 0 :: junk.
Proof. intros H. unfold b0. now rewrite dropN_app_le. Qed.
Lemma lenN_rm_pos : 0 < lenN rm.
Proof. destruct rm; [congruence|rewrite lenN_cons; lia]. Qed.

(* what an intact unread part gives *)
Lemma unread b r : r <= len -> dropN r b = dropN r b0 ->
  cstr (dropN r b) = dropN r orig /\
  (forall k, k <= len - r -> takeN k (dropN r b) = takeN k (dropN r orig)) /\
  (forall j, r <= j -> j <= len -> dropN j b = dropN j b0).
Proof.
  intros Hr Db. rewrite Db, (drop_b0 r Hr). splits.
  - apply cstr_nulfree_app. now apply nulfree_dropN.
  - intros k Hk. apply takeN_app_le. rewrite lenN_dropN. unfold len in *. lia.
  - intros j H1 H2. replace j with ((j - r) + r) by lia. rewrite <- !dropN_dropN. now rewrite Db.
Qed.

Lemma repl_inplace_spec mv : lenN wm <= lenN rm -> (mv = false -> lenN wm = lenN rm) ->
  forall fuel b r w max cnt,
  r <= len -> (N.to_nat (len - r) < fuel)%nat ->
  lenN b = lenN b0 -> dropN r b = dropN r b0 ->
  (match w with Some wp => wp <= r /\ (mv = false -> wp = r) | None => takeN r b = takeN r orig end) ->
  let out := match w with Some wp => takeN wp b | None => takeN r orig end in
  let '(b', w', cnt') := repl_inplace fuel b len r w rm wm mv max cnt in
  let '(res, c) := replace_sub_fuel fuel (dropN r orig) rm wm max in
  cnt' = cnt + c /\ lenN b' = lenN b0 /\
  match w' with
  | Some wf => takeN wf b' = out ++ res /\ nthN wf b' = 0 /\ wf <= len
  | None => w = None /\ c = 0 /\ b' = b
  end.
Proof.
  intros Hwl Hmv. pose proof lenN_b0 as L0. pose proof lenN_rm_pos as Prm.
  induction fuel as [|f IH]; intros b r w max cnt Hr Hf Lb Db Hw out; [lia|].
  cbn [repl_inplace replace_sub_fuel].
  destruct (unread b r Hr Db) as (Ec & Etk & Edj). rewrite Ec.
  (* the write offset and what has been written so far, uniformly *)
  set (wpos := match w with Some wp => wp | None => r end).
  assert (Hwp : wpos <= r /\ (mv = false -> wpos = r)) by (unfold wpos; destruct w; [exact Hw|split; [lia|reflexivity]]).
  assert (Eout : out = takeN wpos b) by (unfold out, wpos; destruct w; [reflexivity|symmetry; exact Hw]).
  assert (Final : forall wp, w = Some wp ->
            let nb := len - r in
            let bf := upd (if mv then blit b wp (takeN nb (dropN r b)) else b) (wp + nb) 0 in
            lenN bf = lenN b0 /\ takeN (wp + nb) bf = out ++ dropN r orig /\ nthN (wp + nb) bf = 0 /\ wp + nb <= len).
  { intros wp Ew nb bf. subst w. destruct Hw as [Hw1 Hw2].
    destruct (step_move mv b wp r nb Hw1) as (M1 & M2 & M3); [unfold nb; lia|exact Hw2|].
    unfold bf. splits.
    - rewrite lenN_upd; [lia|]. rewrite M1. unfold nb. lia.
    - rewrite takeN_upd_before by (rewrite ?M1; unfold nb; lia). rewrite M2. unfold out. f_equal.
      rewrite Etk by (unfold nb; lia). apply takeN_all. rewrite lenN_dropN. unfold nb, len. lia.
    - apply nthN_upd_same. rewrite M1. unfold nb. lia.
    - unfold nb. lia. }
  assert (Stop : match w with
                 | Some wp => let nb := len - r in
                     (upd (if mv then blit b wp (takeN nb (dropN r b)) else b) (wp + nb) 0, Some (wp + nb), cnt)
                 | None => (b, None, cnt) end = match w with
                 | Some wp => let nb := len - r in
                     (upd (if mv then blit b wp (takeN nb (dropN r b)) else b) (wp + nb) 0, Some (wp + nb), cnt)
                 | None => (b, None, cnt) end) by reflexivity.
  destruct (0 <? max) eqn:Emax.
  2:{ destruct w as [wp|].
      - destruct (Final wp eq_refl) as (F1 & F2 & F3 & F4). cbn zeta. splits; trivial; lia.
      - splits; trivial; lia. }
  destruct (find_sub rm (dropN r orig)) as [k|] eqn:Ef.
  2:{ destruct w as [wp|].
      - destruct (Final wp eq_refl) as (F1 & F2 & F3 & F4). cbn zeta. splits; trivial; lia.
      - splits; trivial; lia. }
  (* a match at offset k of the unread part *)
  destruct (find_sub_sound _ _ _ Ef) as [Bk Tk]. rewrite lenN_dropN in Bk. fold len in Bk.
  set (r' := r + k + lenN rm).
  assert (Hr' : r' <= len) by (unfold r'; lia).
  (* the state after the segment has been moved *)
  assert (Seg : exists b1, (match w with
                            | Some wp => ((if mv then blit b wp (takeN k (dropN r b)) else b), wp + k)
                            | None => (b, r + k) end) = (b1, wpos + k) /\
                lenN b1 = lenN b /\ takeN (wpos + k) b1 = takeN wpos b ++ takeN k (dropN r b) /\ dropN (r + k) b1 = dropN (r + k) b).
  { unfold wpos. destruct w as [wp|].
    - destruct Hw as [Hw1 Hw2]. destruct (step_move mv b wp r k Hw1) as (M1 & M2 & M3); [lia|exact Hw2|].
      eexists. splits; try reflexivity; trivial.
    - exists b. splits; trivial. apply takeN_add. }
  destruct Seg as (b1 & E1 & M1 & M2 & M3). rewrite E1. clear E1.
  set (w1 := wpos + k) in *. set (b2 := blit b1 w1 wm).
  assert (Hw1 : w1 + lenN wm <= r') by (unfold w1, r'; lia).
  assert (Lb2 : lenN b2 = lenN b0) by (unfold b2; rewrite lenN_blit; lia).
  assert (Db2 : dropN r' b2 = dropN r' b0).
  { unfold b2. rewrite dropN_blit_after by lia.
    unfold r'. replace (r + k + lenN rm) with (lenN rm + (r + k)) by lia. rewrite <- dropN_dropN, M3, dropN_dropN.
    replace (lenN rm + (r + k)) with r' by (unfold r'; lia). apply Edj; unfold r'; lia. }
  assert (T2 : takeN (w1 + lenN wm) b2 = out ++ takeN k (dropN r orig) ++ wm).
  { unfold b2. rewrite takeN_blit_cover by lia. rewrite M2, Eout, Etk by lia. now rewrite <- app_assoc. }
  specialize (IH b2 r' (Some (w1 + lenN wm)) (max - 1) (cnt + 1) Hr').
  cbn zeta in IH.
  assert (Rest : dropN (k + lenN rm) (dropN r orig) = dropN r' orig) by (rewrite dropN_dropN; f_equal; unfold r'; lia).
  rewrite Rest.
  destruct (repl_inplace f b2 len r' (Some (w1 + lenN wm)) rm wm mv (max - 1) (cnt + 1)) as [[b' w'] cnt'].
  destruct (replace_sub_fuel f (dropN r' orig) rm wm (max - 1)) as [res' c'].
  destruct IH as (I1 & I2 & I3); trivial.
  { unfold r'. lia. }
  { split; [exact Hw1|]. intros Em. destruct Hwp as [_ Hwp]. rewrite (Hmv Em). unfold w1, r'. rewrite (Hwp Em). lia. }
  splits; [lia|exact I2|].
  destruct w' as [wf|]; [|destruct I3 as (X & _); discriminate X].
  destruct I3 as (J1 & J2 & J3). splits; trivial.
  rewrite J1, T2. now rewrite <- !app_assoc.
Qed.

(* into the temporary *)
Lemma repl_copy_spec sb : lenN sb >= len + 1 -> takeN (len + 1) sb = orig ++ [0] ->
  forall fuel r tb w max cnt,
  r <= len -> (N.to_nat (len - r) < fuel)%nat ->
  w + lenN (fst (replace_sub_fuel fuel (dropN r orig) rm wm max)) + 1 <= lenN tb ->
  let '(tb', w', cnt') := repl_copy fuel sb len r tb w rm wm max cnt in
  let '(res, c) := replace_sub_fuel fuel (dropN r orig) rm wm max in
  cnt' = cnt + c /\ lenN tb' = lenN tb /\ takeN w' tb' = takeN w tb ++ res /\ nthN w' tb' = 0 /\ w' = w + lenN res.
Proof.
  intros Lsb Tsb. pose proof lenN_rm_pos as Prm.
  assert (Src : forall r, r <= len -> cstr (dropN r sb) = dropN r orig /\
                 (forall k, k <= len - r -> takeN k (dropN r sb) = takeN k (dropN r orig))).
  { intros r Hr.
    assert (E : dropN r (takeN (len + 1) sb) = dropN r orig ++ [0]) by (rewrite Tsb; apply dropN_app_le; unfold len in *; lia).
    assert (D : exists tail, dropN r sb = dropN r orig ++ 0 :: tail).
    { exists (dropN (len + 1) sb). rewrite <- (takeN_dropN (len + 1) sb) at 1.
      rewrite dropN_app_le by (rewrite lenN_takeN; lia). rewrite E, <- app_assoc. reflexivity. }
    destruct D as [tail D]. rewrite D. split.
    - apply cstr_nulfree_app. now apply nulfree_dropN.
    - intros k Hk. apply takeN_app_le. rewrite lenN_dropN. unfold len in *. lia. }
  induction fuel as [|f IH]; intros r tb w max cnt Hr Hf Hcap; [lia|].
  cbn [repl_copy replace_sub_fuel] in *.
  destruct (Src r Hr) as (Ec & Etk). rewrite Ec.
  assert (Final : let nb := len - r in let tf := upd (blit tb w (takeN nb (dropN r sb))) (w + nb) 0 in
            w + (len - r) + 1 <= lenN tb ->
            lenN tf = lenN tb /\ takeN (w + nb) tf = takeN w tb ++ dropN r orig /\ nthN (w + nb) tf = 0 /\ w + nb = w + lenN (dropN r orig)).
  { intros nb tf Hc.
    assert (Ld : takeN nb (dropN r sb) = dropN r orig).
    { unfold nb. rewrite Etk by lia. apply takeN_all. rewrite lenN_dropN. unfold len. lia. }
    assert (Lnb : lenN (dropN r orig) = nb) by (rewrite lenN_dropN; unfold nb, len; lia).
    unfold tf. rewrite Ld. splits.
    - rewrite lenN_upd; rewrite lenN_blit; lia.
    - rewrite takeN_upd_before by (rewrite ?lenN_blit; lia). rewrite <- Lnb. apply takeN_blit_cover. lia.
    - apply nthN_upd_same. rewrite lenN_blit; lia.
    - lia. }
  destruct (0 <? max) eqn:Emax.
  2:{ cbn [fst] in Hcap. rewrite lenN_dropN in Hcap. fold len in Hcap.
      destruct Final as (F1 & F2 & F3 & F4); [lia|]. cbn zeta. splits; trivial; lia. }
  destruct (find_sub rm (dropN r orig)) as [k|] eqn:Ef.
  2:{ cbn [fst] in Hcap. rewrite lenN_dropN in Hcap. fold len in Hcap.
      destruct Final as (F1 & F2 & F3 & F4); [lia|]. cbn zeta. splits; trivial; lia. }
  destruct (find_sub_sound _ _ _ Ef) as [Bk Tk]. rewrite lenN_dropN in Bk. fold len in Bk.
  set (r' := r + k + lenN rm).
  assert (Hr' : r' <= len) by (unfold r'; lia).
  assert (Rest : dropN (k + lenN rm) (dropN r orig) = dropN r' orig) by (rewrite dropN_dropN; f_equal; unfold r'; lia).
  rewrite Rest in *.
  specialize (IH r' (blit (blit tb w (takeN k (dropN r sb))) (w + k) wm) (w + k + lenN wm) (max - 1) (cnt + 1) Hr').
  destruct (replace_sub_fuel f (dropN r' orig) rm wm (max - 1)) as [res' c'] eqn:ER. cbn [fst] in *.
  rewrite !lenN_app, lenN_takeN, lenN_dropN in Hcap. fold len in Hcap.
  assert (Lseg : lenN (takeN k (dropN r sb)) = k) by (rewrite Etk by lia; rewrite lenN_takeN, lenN_dropN; unfold len; lia).
  assert (Lt1 : lenN (blit tb w (takeN k (dropN r sb))) = lenN tb) by (rewrite lenN_blit; lia).
  assert (Lt2 : lenN (blit (blit tb w (takeN k (dropN r sb))) (w + k) wm) = lenN tb) by (rewrite lenN_blit; lia).
  destruct (repl_copy f sb len r' _ (w + k + lenN wm) rm wm (max - 1) (cnt + 1)) as [[tb' w'] cnt'].
  destruct IH as (I1 & I2 & I3 & I4 & I5).
  { unfold r'. lia. }
  { rewrite Lt2. lia. }
  splits; try lia.
  - rewrite I3. rewrite takeN_blit_cover by lia.
    rewrite <- Lseg at 1. rewrite takeN_blit_cover by lia. rewrite Etk by lia. now rewrite <- !app_assoc.
  - rewrite I5, !lenN_app, lenN_takeN, lenN_dropN. fold len. lia.
Qed.

End Repl.
