(* C16 -- executable model of muscle::Queue<ItemType> (util/Queue.h).

   L0: the ideal double-ended sequence (a list of items).
   L1: the code's representation: an array of slots that is either absent (_queue==NULL),
       the in-object small array (_smallQueue) or a heap array; _itemCount, _headIndex,
       _tailIndex; NextIndex/PrevIndex/InternalizeIndex; EnsureSizeAux's reallocation
       policy.  Items are integers; two item kinds are modelled:
         owning  (IsPerItemClearNecessary() = true : vacated slots are reset to the default
                  item, fresh arrays are default-constructed), and
         trivial (no per-item clear; a fresh heap array and a never-used small array hold
                  indeterminate values, modelled by the parameter [jk] over which every
                  theorem is universally quantified).
   No proofs in this file (the model must still run when a proof breaks). *)
From Coq Require Import List Arith ZArith Bool Lia.
Import ListNotations.
Local Open Scope nat_scope.

Inductive store := SNull | SSmall | SHeap.

Record q1 := mkQ { st : store; arr : list Z; cnt : nat; head : nat; tail : nat }.

Inductive op :=
| OAddTail (x : Z) | OAddHead (x : Z)
| ORemoveHead | ORemoveTail
| ORemoveHeadMulti (n : nat) | ORemoveTailMulti (n : nat)
| ORemoveAt (i : nat) | OInsertAt (i : nat) (x : Z) | OReplaceAt (i : nat) (x : Z)
| OGet (i : nat)
| OClear (release : bool)
| OEnsure (n : nat) (setnum : bool) (extra : nat) (shrink : bool)
| OSwap (i j : nat)
| OReverse (from to : nat)
| ONormalize
| OIndexOf (x : Z) (from to : nat)
| OLastIndexOf (x : Z) (from to : nat)
| OAddTailMulti (xs : list Z) | OAddHeadMulti (xs : list Z)
| OInsertItemsAt (i : nat) (xs : list Z)
| OCopyFrom (xs : list Z)
| ORemoveFirstInstance (x : Z) | ORemoveLastInstance (x : Z)
| ORemoveAllInstances (x : Z).

Inductive out := OStatus (ok : bool) | OVal (v : option Z) | ONum (n : nat) | OIdx (i : option nat) | ONone.

(* ------------------------------------------------------------------ list helpers *)

Definition upd (a : list Z) (i : nat) (v : Z) : list Z :=
  if i <? length a then firstn i a ++ v :: skipn (S i) a else a.

Fixpoint find_from (x : Z) (l : list Z) (i : nat) : option nat :=
  match l with
  | [] => None
  | y :: t => if Z.eqb y x then Some i else find_from x t (S i)
  end.

Definition swap_list (l : list Z) (i j : nat) : list Z :=
  upd (upd l i (nth j l 0%Z)) j (nth i l 0%Z).

(* ------------------------------------------------------------------ L0: ideal sequence *)

Definition l0_remove_at (l : list Z) (i : nat) : list Z := firstn i l ++ skipn (S i) l.
Definition l0_insert_at (l : list Z) (i : nat) (xs : list Z) : list Z := firstn i l ++ xs ++ skipn i l.
Definition l0_resize (l : list Z) (n : nat) : list Z := firstn n l ++ repeat 0%Z (n - length l).

Definition l0_index_of (l : list Z) (x : Z) (from to : nat) : option nat :=
  if length l <=? from then None
  else find_from x (firstn (Nat.min to (length l) - from) (skipn from l)) from.

(* last index i with endAt <= i <= min(startAt, len-1) holding x *)
Definition l0_last_index_of (l : list Z) (x : Z) (startAt endAt : nat) : option nat :=
  if length l <=? endAt then None
  else
    let s := Nat.min startAt (length l - 1) in
    (* candidates are positions endAt..s ; scan that slice reversed *)
    match find_from x (rev (firstn (S s - endAt) (skipn endAt l))) 0 with
    | Some k => Some (s - k)
    | None => None
    end.

Definition l0_reverse (l : list Z) (from to : nat) : list Z :=
  if from <? to then
    match length l with
    | 0 => l
    | S _ =>
      let t := Nat.min (to - 1) (length l - 1) in   (* inclusive upper index *)
      if from <? t then firstn from l ++ rev (firstn (S t - from) (skipn from l)) ++ skipn (S t) l
      else l
    end
  else l.

Definition step0 (l : list Z) (o : op) : list Z * out :=
  match o with
  | OAddTail x => (l ++ [x], OStatus true)
  | OAddHead x => (x :: l, OStatus true)
  | ORemoveHead => match l with [] => (l, OVal None) | x :: t => (t, OVal (Some x)) end
  | ORemoveTail => match rev l with [] => (l, OVal None) | x :: t => (rev t, OVal (Some x)) end
  | ORemoveHeadMulti n => (skipn n l, ONum (Nat.min n (length l)))
  | ORemoveTailMulti n => (firstn (length l - n) l, ONum (Nat.min n (length l)))
  | ORemoveAt i => if i <? length l then (l0_remove_at l i, OVal (Some (nth i l 0%Z))) else (l, OVal None)
  | OInsertAt i x => (l0_insert_at l (Nat.min i (length l)) [x], OStatus true)
  | OReplaceAt i x => if i <? length l then (upd l i x, OStatus true) else (l, OStatus false)
  | OGet i => (l, OVal (if i <? length l then Some (nth i l 0%Z) else None))
  | OClear _ => ([], ONone)
  | OEnsure n setnum _ _ => ((if setnum then l0_resize l n else l), OStatus true)
  | OSwap i j => if (i <? length l) && (j <? length l) then (swap_list l i j, ONone) else (l, ONone)
  | OReverse f t => (l0_reverse l f t, ONone)
  | ONormalize => (l, ONone)
  | OIndexOf x f t => (l, OIdx (l0_index_of l x f t))
  | OLastIndexOf x f t => (l, OIdx (l0_last_index_of l x f t))
  | OAddTailMulti xs => (l ++ xs, OStatus true)
  | OAddHeadMulti xs => (xs ++ l, OStatus true)
  | OInsertItemsAt i xs => (l0_insert_at l (Nat.min i (length l)) xs, OStatus true)
  | OCopyFrom xs => (xs, OStatus true)
  | ORemoveFirstInstance x =>
      match find_from x l 0 with Some i => (l0_remove_at l i, OStatus true) | None => (l, OStatus false) end
  | ORemoveLastInstance x =>
      match find_from x (rev l) 0 with
      | Some k => (l0_remove_at l (length l - 1 - k), OStatus true)
      | None => (l, OStatus false) end
  | ORemoveAllInstances x =>
      (filter (fun y => negb (Z.eqb y x)) l, ONum (length (filter (fun y => Z.eqb y x) l)))
  end.

(* ------------------------------------------------------------------ L1: the code's layout *)

Section L1.
Variable owning : bool.     (* IsPerItemClearNecessary() *)
Variable jk : Z.            (* what an uninitialised trivial slot happens to hold *)
Variable sq : nat.          (* ARRAYITEMS(_smallQueue) *)

Definition dflt : Z := 0%Z.
Definition fresh : Z := if owning then dflt else jk.

Definition qsize (q : q1) : nat := length (arr q).
Definition next_index (q : q1) (i : nat) : nat := if qsize q - 1 <=? i then 0 else i + 1.
Definition prev_index (q : q1) (i : nat) : nat := if i =? 0 then qsize q - 1 else i - 1.
Definition intern (q : q1) (i : nat) : nat :=
  let o := head q + i in if o <? qsize q then o else o - qsize q.
Definition getu (q : q1) (i : nat) : Z := nth (intern q i) (arr q) dflt.
Definition setu (q : q1) (i : nat) (v : Z) : q1 :=
  mkQ (st q) (upd (arr q) (intern q i) v) (cnt q) (head q) (tail q).
Definition set_raw (q : q1) (slot : nat) (v : Z) : q1 :=
  mkQ (st q) (upd (arr q) slot v) (cnt q) (head q) (tail q).

(* the abstraction function: the items a user sees *)
Definition abs (q : q1) : list Z := map (getu q) (seq 0 (cnt q)).

Definition empty_q : q1 := mkQ SNull [] 0 0 0.

Definition clear_slot (q : q1) (slot : nat) : q1 := if owning then set_raw q slot dflt else q.

(* RemoveHead() / RemoveTail() *)
Definition remove_head (q : q1) : q1 :=
  match cnt q with
  | 0 => q
  | S c => let old := head q in
           clear_slot (mkQ (st q) (arr q) c (next_index q (head q)) (tail q)) old
  end.
Definition remove_tail (q : q1) : q1 :=
  match cnt q with
  | 0 => q
  | S c => let old := tail q in
           clear_slot (mkQ (st q) (arr q) c (head q) (prev_index q (tail q))) old
  end.

(* FastClear *)
Definition fast_clear (q : q1) : q1 := mkQ (st q) (arr q) 0 0 0.

(* Clear(release): when the buffer is kept and items are owning, the two contiguous
   pieces of the window are reset to the default item *)
Fixpoint clear_window (q : q1) (k : nat) : q1 :=
  match k with 0 => q | S k' => clear_window (set_raw q (intern q k') dflt) k' end.
Definition clear (q : q1) (release : bool) : q1 :=
  match st q with
  | SHeap => if release then empty_q
             else fast_clear (if owning then clear_window q (cnt q) else q)
  | SNull => if release then empty_q else fast_clear q
  | SSmall => fast_clear (if owning then clear_window q (cnt q) else q)
  end.

Fixpoint iter {A} (n : nat) (f : A -> A) (a : A) : A :=
  match n with 0 => a | S n' => iter n' f (f a) end.

(* RemoveTailMulti / RemoveHeadMulti *)
Definition remove_tail_multi (q : q1) (n : nat) : q1 * nat :=
  let n := Nat.min n (cnt q) in
  match n with
  | 0 => (q, 0)
  | _ => if n =? cnt q then (clear q false, n)
         else if owning then (iter n remove_tail q, n)
         else (mkQ (st q) (arr q) (cnt q - n) (head q)
                   ((if tail q <? n then tail q + qsize q else tail q) - n), n)
  end.
Definition remove_head_multi (q : q1) (n : nat) : q1 * nat :=
  let n := Nat.min n (cnt q) in
  match n with
  | 0 => (q, 0)
  | _ => if n =? cnt q then (clear q false, n)
         else if owning then (iter n remove_head q, n)
         else (mkQ (st q) (arr q) (cnt q - n) ((head q + n) mod qsize q) (tail q), n)
  end.

(* EnsureSizeAux(size, setNumItems, extraPreallocs, _, allowShrink).
   Mirrors the code *with the F13/F6 repairs* (see DESIGN.md section 7): the reallocated
   array is never shorter than the items that are kept, the copy loop moves
   min(_itemCount, kept) items, and slots newly exposed by setNumItems are default items
   also for trivial item types. *)
Definition es_need_realloc (q : q1) (size extra : nat) (shrink : bool) : bool :=
  match st q with
  | SNull => true
  | _ => if shrink then negb (qsize q =? size + extra) else qsize q <? size
  end.
(* the reallocation: items are copied to the front of the new array *)
Definition es_realloc (q : q1) (size extra : nat) : q1 :=
  let temp := Nat.max (size + extra) (cnt q) in
  let newlen := Nat.max sq temp in
  let to_small := match st q with SSmall => false | _ => newlen <=? sq end in
  let items := abs q in
  let newarr := items ++ repeat fresh (newlen - length items) in
  let c := cnt q in
  mkQ (if to_small then SSmall else SHeap) newarr c 0 (c - 1).
(* setNumItems with size > _itemCount: the new items must be default items *)
Definition es_grow (q : q1) (size : nat) : q1 :=
  let grown := mkQ (st q) (arr q) size (head q) (prev_index q (intern q size)) in
  (* fill the newly exposed slots for trivial types (owning slots are default already) *)
  if owning then grown
  else fold_left (fun g i => setu g i dflt) (seq (cnt q) (size - cnt q)) grown.
Definition ensure_size (q : q1) (size : nat) (setnum : bool) (extra : nat) (shrink : bool) : q1 :=
  (* a shrinking setNumItems first drops the surplus tail items *)
  let q := if setnum && (size <? cnt q) then fst (remove_tail_multi q (cnt q - size)) else q in
  let q' := if es_need_realloc q size extra shrink then es_realloc q size extra else q in
  if setnum then
    if cnt q' <? size then es_grow q' size else q'
  else q'.

(* AddTail(item) / AddHead(item) *)
Definition add_tail (q : q1) (x : Z) : q1 :=
  let q := ensure_size q (cnt q + 1) false (cnt q + 1) false in
  let t := if cnt q =? 0 then 0 else next_index q (tail q) in
  let h := if cnt q =? 0 then 0 else head q in
  mkQ (st q) (upd (arr q) t x) (cnt q + 1) h t.
Definition add_head (q : q1) (x : Z) : q1 :=
  let q := ensure_size q (cnt q + 1) false (cnt q + 1) false in
  let h := if cnt q =? 0 then 0 else prev_index q (head q) in
  let t := if cnt q =? 0 then 0 else tail q in
  mkQ (st q) (upd (arr q) h x) (cnt q + 1) h t.

(* RemoveItemAt(index): shift toward the nearer end *)
Fixpoint shift_from_head (q : q1) (slot : nat) (fuel : nat) : q1 :=
  match fuel with
  | 0 => q
  | S f => if slot =? head q then q
           else let p := prev_index q slot in
                shift_from_head (set_raw q slot (nth p (arr q) dflt)) p f
  end.
Fixpoint shift_from_tail (q : q1) (slot : nat) (fuel : nat) : q1 :=
  match fuel with
  | 0 => q
  | S f => if slot =? tail q then q
           else let n := next_index q slot in
                shift_from_tail (set_raw q slot (nth n (arr q) dflt)) n f
  end.
Definition remove_at (q : q1) (i : nat) : q1 :=
  if cnt q <=? i then q
  else if i <? cnt q / 2 then
    let q2 := shift_from_head q (intern q i) (qsize q) in
    let old := head q2 in
    clear_slot (mkQ (st q2) (arr q2) (cnt q2 - 1) (next_index q2 (head q2)) (tail q2)) old
  else
    let q2 := shift_from_tail q (intern q i) (qsize q) in
    let old := tail q2 in
    clear_slot (mkQ (st q2) (arr q2) (cnt q2 - 1) (head q2) (prev_index q2 (tail q2))) old.

(* InsertItemAt(index, item) *)
Definition insert_at (q : q1) (i : nat) (x : Z) : q1 :=
  if cnt q <=? i then add_tail q x
  else if i =? 0 then add_head q x
  else if i <? cnt q / 2 then
    let q2 := add_head q dflt in
    let q3 := fold_left (fun g k => setu g k (getu g (k + 1))) (seq 0 i) q2 in
    setu q3 i x
  else
    let q2 := add_tail q dflt in
    (* for k = cnt-1 downto i+1 : q[k] = q[k-1] *)
    let q3 := fold_left (fun g k => setu g k (getu g (k - 1))) (rev (seq (i + 1) (cnt q2 - 1 - i))) q2 in
    setu q3 i x.

(* AddTailMulti(array) : EnsureSize(newSize,true) then overwrite *)
Definition write_from (q : q1) (start : nat) (xs : list Z) : q1 :=
  fst (fold_left (fun '(g, k) x => (setu g k x, k + 1)) xs (q, start)).
Definition add_tail_multi (q : q1) (xs : list Z) : q1 :=
  let old := cnt q in
  write_from (ensure_size q (old + length xs) true 0 false) old xs.
Definition add_head_multi (q : q1) (xs : list Z) : q1 :=
  let q := ensure_size q (cnt q + length xs) false 0 false in
  fold_left add_head (rev xs) q.
Definition insert_items_at (q : q1) (i : nat) (xs : list Z) : q1 :=
  let i := Nat.min i (cnt q) in
  match xs with
  | [] => q
  | [x] => if i =? 0 then add_head q x
           else if i =? cnt q then add_tail q x
           else
             let old := cnt q in
             let q2 := ensure_size q (old + 1) true 0 false in
             let q3 := fold_left (fun g k => setu g (k + 1) (getu g k)) (rev (seq i (old - i))) q2 in
             write_from q3 i xs
  | _ =>
      let old := cnt q in
      let n := length xs in
      let q2 := ensure_size q (old + n) true 0 false in
      let q3 := fold_left (fun g k => setu g (k + n) (getu g k)) (rev (seq i (old - i))) q2 in
      write_from q3 i xs
  end.

(* CopyFrom(rhs) from another queue's contents: EnsureSize(n, true), then overwrite *)
Definition copy_from (q : q1) (xs : list Z) : q1 :=
  write_from (ensure_size q (length xs) true 0 false) 0 xs.

Definition swap_items (q : q1) (i j : nat) : q1 :=
  let a := getu q i in let b := getu q j in setu (setu q i b) j a.

Fixpoint reverse_loop (q : q1) (f t : nat) (fuel : nat) : q1 :=
  match fuel with
  | 0 => q
  | S fu => if f <? t then reverse_loop (swap_items q f t) (f + 1) (t - 1) fu else q
  end.
Definition reverse (q : q1) (from to : nat) : q1 :=
  if (from <? to) && (0 <? cnt q) then
    let t := Nat.min (to - 1) (cnt q - 1) in
    reverse_loop q from t (cnt q)
  else q.

(* Normalize(): effect-level model of both branches (copy into the gap / rotate the array) *)
Definition is_normalized (q : q1) : bool := (cnt q =? 0) || (head q <=? tail q).
Definition normalize (q : q1) : q1 :=
  if is_normalized q then q
  else if cnt q * 2 <=? qsize q then
    let start := tail q + 1 in
    let step := fun g i =>
       let v := getu q i in   (* reads use the *old* window; source and target never overlap *)
       let g1 := set_raw g (start + i) v in
       if owning then set_raw g1 (intern q i) dflt else g1 in
    let g := fold_left step (seq 0 (cnt q)) q in
    mkQ (st g) (arr g) (cnt q) start (start + cnt q - 1)
  else
    mkQ (st q) (skipn (head q) (arr q) ++ firstn (head q) (arr q)) (cnt q) 0 (cnt q - 1).

Definition remove_all_instances (q : q1) (x : Z) : q1 * nat :=
  let items := abs q in
  let keep := filter (fun y => negb (Z.eqb y x)) items in
  let q2 := write_from q 0 keep in
  (iter (length items - length keep) remove_tail q2, length items - length keep).

Definition step1 (q : q1) (o : op) : q1 * out :=
  match o with
  | OAddTail x => (add_tail q x, OStatus true)
  | OAddHead x => (add_head q x, OStatus true)
  | ORemoveHead => match cnt q with 0 => (q, OVal None) | _ => (remove_head q, OVal (Some (getu q 0))) end
  | ORemoveTail => match cnt q with 0 => (q, OVal None) | _ => (remove_tail q, OVal (Some (getu q (cnt q - 1)))) end
  | ORemoveHeadMulti n => let '(q', k) := remove_head_multi q n in (q', ONum k)
  | ORemoveTailMulti n => let '(q', k) := remove_tail_multi q n in (q', ONum k)
  | ORemoveAt i => if i <? cnt q then (remove_at q i, OVal (Some (getu q i))) else (q, OVal None)
  | OInsertAt i x => (insert_at q i x, OStatus true)
  | OReplaceAt i x => if i <? cnt q then (setu q i x, OStatus true) else (q, OStatus false)
  | OGet i => (q, OVal (if i <? cnt q then Some (getu q i) else None))
  | OClear r => (clear q r, ONone)
  | OEnsure n s e sh => (ensure_size q n s e sh, OStatus true)
  | OSwap i j => if (i <? cnt q) && (j <? cnt q) then (swap_items q i j, ONone) else (q, ONone)
  | OReverse f t => (reverse q f t, ONone)
  | ONormalize => (normalize q, ONone)
  | OIndexOf x f t => (q, OIdx (l0_index_of (abs q) x f t))
  | OLastIndexOf x f t => (q, OIdx (l0_last_index_of (abs q) x f t))
  | OAddTailMulti xs => (add_tail_multi q xs, OStatus true)
  | OAddHeadMulti xs => (add_head_multi q xs, OStatus true)
  | OInsertItemsAt i xs => (insert_items_at q i xs, OStatus true)
  | OCopyFrom xs => (copy_from q xs, OStatus true)
  | ORemoveFirstInstance x =>
      match find_from x (abs q) 0 with Some i => (remove_at q i, OStatus true) | None => (q, OStatus false) end
  | ORemoveLastInstance x =>
      match find_from x (rev (abs q)) 0 with
      | Some k => (remove_at q (cnt q - 1 - k), OStatus true)
      | None => (q, OStatus false) end
  | ORemoveAllInstances x => let '(q', k) := remove_all_instances q x in (q', ONum k)
  end.

Definition run1 (ops : list op) : q1 * list out :=
  fold_left (fun '(q, outs) o => let '(q', r) := step1 q o in (q', outs ++ [r])) ops (empty_q, []).

End L1.

Definition run0 (ops : list op) : list Z * list out :=
  fold_left (fun '(l, outs) o => let '(l', r) := step0 l o in (l', outs ++ [r])) ops ([], []).
