(* C16 -- executable model of muscle::Queue<ItemType> (util/Queue.h).

   L0: the ideal double-ended sequence (a list of items).
   L1: the code's representation: an array of slots that is either absent (_queue==NULL),
       the in-object small array (_smallQueue) or a heap array; _itemCount, _headIndex,
       _tailIndex; NextIndex/PrevIndex/InternalizeIndex; EnsureSizeAux's reallocation
       policy.  Items are integers; two item kinds are modelled:
         owning  (IsPerItemClearNecessary() = true : vacated slots are reset to the default
                  item, fresh arrays are default-constructed), and
         trivial (no per-item clear; a fresh heap array and a never-used small array hold
                  indeterminate values, modelled by the parameter [jk] over which every
                  theorem is universally quantified).
   No proofs in this file (the model must still run when a proof breaks). *)
From Coq Require Import List Arith ZArith NArith Bool Lia.
Import ListNotations.
Local Open Scope nat_scope.

Inductive store := SNull | SSmall | SHeap.

(* [inl] is the content of the in-object array _smallQueue while it is NOT the active array
   (st <> SSmall); while st = SSmall the active array [arr] is the in-object array and [inl] is unused *)
Record q1 := mkQ { st : store; arr : list Z; cnt : nat; head : nat; tail : nat; inl : list Z }.

Inductive op :=
| OAddTail (x : Z) | OAddHead (x : Z)
| ORemoveHead | ORemoveTail
| ORemoveHeadMulti (n : nat) | ORemoveTailMulti (n : nat)
| ORemoveAt (i : nat) | OInsertAt (i : nat) (x : Z) | OReplaceAt (i : nat) (x : Z)
| OGet (i : nat)
| OClear (release : bool)
| OEnsure (n : N) (setnum : bool) (extra : N) (shrink : bool)   (* uint32 arguments: n + extra may exceed 2^32 *)
| OSwap (i j : nat)
| OReverse (from to : nat)
| ONormalize
| OIndexOf (x : Z) (from to : nat)
| OLastIndexOf (x : Z) (from to : nat)
| OAddTailMulti (xs : list Z) | OAddHeadMulti (xs : list Z)
| OInsertItemsAt (i : nat) (xs : list Z)
| OCopyFrom (xs : list Z)
| ORemoveFirstInstance (x : Z) | ORemoveLastInstance (x : Z)
| ORemoveAllInstances (x : Z)
| OSort (bykey : bool) (from to : nat)        (* Sort(from, to): default comparison, or comparing the keys x/4 only *)
| OIterate (start : nat) (stride : Z)         (* QueueIterator(q, start, stride): the values visited *)
| ORemoveSortedDups                           (* RemoveSortedDuplicateItems() *)
| ORemoveDups                                 (* RemoveDuplicateItems() = Sort() + RemoveSortedDuplicateItems() *)
| OInsertSorted (x : Z)                       (* InsertItemAtSortedPosition(x) *)
(* the argument is a reference to an item held by the Queue itself: q.AddTail(q[i]) etc. *)
| OAddTailRef (i : nat) | OAddHeadRef (i : nat) | OInsertAtRef (idx i : nat) | OReplaceRef (idx i : nat)
| ORemoveAllRef (i : nat)
| OShrinkToFit (extra : N)                    (* ShrinkToFit(extra) = EnsureSize(GetNumItems()+extra, false, 0, true) *)
| OEnsureCanAdd (n : N)                       (* EnsureCanAdd(n)   = EnsureSize(GetNumItems()+n) *)
| OReplaceAll (x : Z)                         (* ReplaceAllItems(x) *)
| OPieces                                     (* GetArrayPointer(0,..) and GetArrayPointer(1,..): the contiguous pieces of the window *)
| OAdopt (xs spare : list Z)                  (* AdoptRawDataArray(n, array, |xs|): array = xs followed by |spare| more slots *)
| ORelease.                                   (* ReleaseRawDataArray() *)

Inductive out := OStatus (ok : bool) | OVal (v : option Z) | ONum (n : nat) | OIdx (i : option nat) | ONone
               | OList (l : list Z).

(* ------------------------------------------------------------------ list helpers *)

Definition upd (a : list Z) (i : nat) (v : Z) : list Z :=
  if i <? length a then firstn i a ++ v :: skipn (S i) a else a.

Fixpoint find_from (x : Z) (l : list Z) (i : nat) : option nat :=
  match l with
  | [] => None
  | y :: t => if Z.eqb y x then Some i else find_from x t (S i)
  end.

Definition swap_list (l : list Z) (i j : nat) : list Z :=
  upd (upd l i (nth j l 0%Z)) j (nth i l 0%Z).

(* ------------------------------------------------------------------ L0: ideal sequence *)

Definition l0_remove_at (l : list Z) (i : nat) : list Z := firstn i l ++ skipn (S i) l.
Definition l0_insert_at (l : list Z) (i : nat) (xs : list Z) : list Z := firstn i l ++ xs ++ skipn i l.
Definition l0_resize (l : list Z) (n : nat) : list Z := firstn n l ++ repeat 0%Z (n - length l).

(* the uint32 sum a+b wraps around or is MUSCLE_NO_LIMIT (2^32-1): EnsureSize / EnsureCanAdd / ShrinkToFit then
   return B_RESOURCE_LIMIT before touching anything [EnsureSizeAux: with the repair of the unguarded size+extraPreallocs, finding F61] *)
Definition too_big (a b : N) : bool := N.leb 4294967295%N (a + b).

Definition l0_index_of (l : list Z) (x : Z) (from to : nat) : option nat :=
  if length l <=? from then None
  else find_from x (firstn (Nat.min to (length l) - from) (skipn from l)) from.

(* last index i with endAt <= i <= min(startAt, len-1) holding x *)
Definition l0_last_index_of (l : list Z) (x : Z) (startAt endAt : nat) : option nat :=
  if length l <=? endAt then None
  else
    let s := Nat.min startAt (length l - 1) in
    (* candidates are positions endAt..s ; scan that slice reversed *)
    match find_from x (rev (firstn (S s - endAt) (skipn endAt l))) 0 with
    | Some k => Some (s - k)
    | None => None
    end.

Definition l0_reverse (l : list Z) (from to : nat) : list Z :=
  if from <? to then
    match length l with
    | 0 => l
    | S _ =>
      let t := Nat.min (to - 1) (length l - 1) in   (* inclusive upper index *)
      if from <? t then firstn from l ++ rev (firstn (S t - from) (skipn from l)) ++ skipn (S t) l
      else l
    end
  else l.

(* ---- sorting, ideal: the stable sort of a sub-range by a key *)
Definition sort_key (bykey : bool) (x : Z) : Z := if bykey then Z.div x 4 else x.
Fixpoint insert_by (k : Z -> Z) (x : Z) (l : list Z) : list Z :=
  match l with
  | [] => [x]
  | y :: t => if Z.leb (k x) (k y) then x :: l else y :: insert_by k x t
  end.
Definition isort_by (k : Z -> Z) (l : list Z) : list Z := fold_right (insert_by k) [] l.
Definition l0_sort (bykey : bool) (l : list Z) (from to : nat) : list Z :=
  let to' := Nat.min to (length l) in
  if from <? to' then
    firstn from l ++ isort_by (sort_key bykey) (firstn (to' - from) (skipn from l)) ++ skipn to' l
  else l.

(* ---- Sort(compareFunctor, from, to), code-shaped: every access of the algorithm is a read, a Swap or a
   ReplaceItemAt at a user index, so it is written over the item sequence with [nth], [swap_list], [upd] *)
Section SortCS.
Variable k : Z -> Z.                                   (* the comparison compares the keys k x *)
Definition lt_by (a b : Z) : bool := Z.ltb (k a) (k b).   (* compareFunctor.Compare(a, b) < 0 *)
Definition at_ (l : list Z) (i : nat) : Z := nth i l 0%Z.

(* base case: for (i=from+1; i<to; i++) for (j=i; j>from; j--) if (q[j] < q[j-1]) Swap(j, j-1) else break *)
Fixpoint bubble_in (l : list Z) (from j : nat) : list Z :=
  match j with
  | 0 => l
  | S j' => if from <? j
            then (if lt_by (at_ l j) (at_ l j') then bubble_in (swap_list l j j') from j' else l)
            else l
  end.
Definition bubble_cs (l : list Z) (from to : nat) : list Z :=
  fold_left (fun l i => bubble_in l from i) (seq (from + 1) (to - (from + 1))) l.

(* Lower / Upper: binary searches; [fuel] bounds the halving loop (len itself suffices) *)
Fixpoint lower_loop (l : list Z) (val : Z) (from len fuel : nat) : nat :=
  match fuel with
  | 0 => from
  | S f => if len =? 0 then from
           else let half := len / 2 in let mid := from + half in
                if lt_by (at_ l mid) val then lower_loop l val (mid + 1) (len - half - 1) f
                else lower_loop l val from half f
  end.
Definition lower_cs (l : list Z) (from to : nat) (val : Z) : nat :=
  if from <? to then lower_loop l val from (to - from) (to - from) else from.
Fixpoint upper_loop (l : list Z) (val : Z) (from len fuel : nat) : nat :=
  match fuel with
  | 0 => from
  | S f => if len =? 0 then from
           else let half := len / 2 in let mid := from + half in
                if lt_by val (at_ l mid) then upper_loop l val from half f
                else upper_loop l val (mid + 1) (len - half - 1) f
  end.
Definition upper_cs (l : list Z) (from to : nat) (val : Z) : nat :=
  if from <? to then upper_loop l val from (to - from) (to - from) else from.

(* the rotation of [first_cut, second_cut) that brings [pivot, second_cut) to the front: gcd, then one
   cycle of assignments per n = gcd-1 .. 0 *)
Fixpoint gcd_loop (m n fuel : nat) : nat :=
  match fuel with
  | 0 => m
  | S f => if n =? 0 then m else gcd_loop n (m mod n) f
  end.
Fixpoint cycle_loop (l : list Z) (fc sc shift start p1 p2 fuel : nat) : list Z * nat :=
  match fuel with
  | 0 => (l, p1)
  | S f => if p2 =? start then (l, p1)
           else let l' := upd l p1 (at_ l p2) in
                let p2' := if shift <? sc - p2 then p2 + shift else fc + (shift - (sc - p2)) in
                cycle_loop l' fc sc shift start p2 p2' f
  end.
Definition rotate_cycle (l : list Z) (fc pivot sc n : nat) : list Z :=
  let val := at_ l (fc + n) in
  let shift := pivot - fc in
  let '(l', p1) := cycle_loop l fc sc shift (fc + n) (fc + n) (fc + n + shift) (sc - fc) in
  upd l' p1 val.
Definition rotate_cs (l : list Z) (fc pivot sc : nat) : list Z :=
  if (pivot =? fc) || (pivot =? sc) then l
  else let g := gcd_loop (sc - fc) (pivot - fc) (pivot - fc + 1) in
       fold_left (fun l n => rotate_cycle l fc pivot sc n) (rev (seq 0 g)) l.

(* Merge(from, pivot, to, len1, len2); [fuel] bounds the recursion depth (len1+len2 suffices) *)
Fixpoint merge_cs (fuel : nat) (l : list Z) (from pivot to len1 len2 : nat) : list Z :=
  match fuel with
  | 0 => l
  | S f =>
    if (len1 =? 0) || (len2 =? 0) then l
    else if len1 + len2 =? 2 then (if lt_by (at_ l pivot) (at_ l from) then swap_list l pivot from else l)
    else
      let first_cut := if len2 <? len1 then from + len1 / 2 else upper_cs l from pivot (at_ l (pivot + len2 / 2)) in
      let second_cut := if len2 <? len1 then lower_cs l pivot to (at_ l (from + len1 / 2)) else pivot + len2 / 2 in
      let len11 := first_cut - from in
      let len22 := second_cut - pivot in
      let l1 := rotate_cs l first_cut pivot second_cut in
      let new_mid := first_cut + len22 in
      let l2 := merge_cs f l1 from first_cut new_mid len11 len22 in
      merge_cs f l2 new_mid second_cut to (len1 - len11) (len2 - len22)
  end.

(* Sort(from, to) for to > from, to <= size; [fuel] bounds the recursion depth (to-from suffices) *)
Fixpoint sort_rec (fuel : nat) (l : list Z) (from to : nat) : list Z :=
  match fuel with
  | 0 => l
  | S f =>
    if to <? from + 12 then bubble_cs l from to
    else let middle := (from + to) / 2 in
         let l1 := sort_rec f l from middle in
         let l2 := sort_rec f l1 middle to in
         merge_cs (to - from) l2 from middle to (middle - from) (to - middle)
  end.
Definition sort_cs (l : list Z) (from to : nat) : list Z :=
  let to' := Nat.min to (length l) in
  if from <? to' then sort_rec (to' - from) l from to' else l.
End SortCS.

(* ---- QueueIterator: _currentIndex += _stride in uint32 arithmetic, while IsIndexValid *)
Definition two32 : Z := 4294967296%Z.
Fixpoint iter_vals (get : nat -> Z) (n : nat) (idx stride : Z) (fuel : nat) : list Z :=
  match fuel with
  | 0 => []
  | S f => if Z.leb 0 idx && Z.ltb idx (Z.of_nat n)
           then get (Z.to_nat idx) :: iter_vals get n (Z.modulo (idx + stride) two32) stride f
           else []
  end.

(* ---- RemoveSortedDuplicateItems: keep an item iff it differs from the last item kept *)
Definition dedup_step (acc : list Z) (x : Z) : list Z :=
  match acc with [] => [x] | y :: _ => if Z.eqb x y then acc else x :: acc end.
Definition dedup_adj (l : list Z) : list Z := rev (fold_left dedup_step l []).

(* ---- InsertItemAtSortedPosition: behind the last item that is <= x when the first item is <= x, else at the head *)
Fixpoint last_le (x : Z) (l : list Z) (i : nat) : option nat :=
  match l with
  | [] => None
  | y :: t => match last_le x t (S i) with
              | Some j => Some j
              | None => if Z.leb y x then Some i else None
              end
  end.
Definition sorted_pos (l : list Z) (x : Z) : nat :=
  match l with
  | [] => 0
  | h :: _ => if Z.leb h x then match last_le x l 0 with Some j => j + 1 | None => 0 end else 0
  end.

Definition step0 (l : list Z) (o : op) : list Z * out :=
  match o with
  | OAddTail x => (l ++ [x], OStatus true)
  | OAddHead x => (x :: l, OStatus true)
  | ORemoveHead => match l with [] => (l, OVal None) | x :: t => (t, OVal (Some x)) end
  | ORemoveTail => match rev l with [] => (l, OVal None) | x :: t => (rev t, OVal (Some x)) end
  | ORemoveHeadMulti n => (skipn n l, ONum (Nat.min n (length l)))
  | ORemoveTailMulti n => (firstn (length l - n) l, ONum (Nat.min n (length l)))
  | ORemoveAt i => if i <? length l then (l0_remove_at l i, OVal (Some (nth i l 0%Z))) else (l, OVal None)
  | OInsertAt i x => (l0_insert_at l (Nat.min i (length l)) [x], OStatus true)
  | OReplaceAt i x => if i <? length l then (upd l i x, OStatus true) else (l, OStatus false)
  | OGet i => (l, OVal (if i <? length l then Some (nth i l 0%Z) else None))
  | OClear _ => ([], ONone)
  | OEnsure n setnum e _ =>
      if too_big n e then (l, OStatus false) else ((if setnum then l0_resize l (N.to_nat n) else l), OStatus true)
  | OSwap i j => if (i <? length l) && (j <? length l) then (swap_list l i j, ONone) else (l, ONone)
  | OReverse f t => (l0_reverse l f t, ONone)
  | ONormalize => (l, ONone)
  | OIndexOf x f t => (l, OIdx (l0_index_of l x f t))
  | OLastIndexOf x f t => (l, OIdx (l0_last_index_of l x f t))
  | OAddTailMulti xs => (l ++ xs, OStatus true)
  | OAddHeadMulti xs => (xs ++ l, OStatus true)
  | OInsertItemsAt i xs => (l0_insert_at l (Nat.min i (length l)) xs, OStatus true)
  | OCopyFrom xs => (xs, OStatus true)
  | ORemoveFirstInstance x =>
      match find_from x l 0 with Some i => (l0_remove_at l i, OStatus true) | None => (l, OStatus false) end
  | ORemoveLastInstance x =>
      match find_from x (rev l) 0 with
      | Some k => (l0_remove_at l (length l - 1 - k), OStatus true)
      | None => (l, OStatus false) end
  | ORemoveAllInstances x =>
      (filter (fun y => negb (Z.eqb y x)) l, ONum (length (filter (fun y => Z.eqb y x) l)))
  | OSort k f t => (l0_sort k l f t, ONone)
  | OIterate s d => (l, OList (iter_vals (fun i => nth i l 0%Z) (length l) (Z.of_nat s) d (length l + 1)))
  | ORemoveSortedDups => let k := dedup_adj l in (k, ONum (length l - length k))
  | ORemoveDups => let k := dedup_adj (l0_sort false l 0 (length l)) in (k, ONum (length l - length k))
  | OInsertSorted x => let p := sorted_pos l x in (l0_insert_at l p [x], OIdx (Some p))
  | OAddTailRef i => if i <? length l then (l ++ [nth i l 0%Z], OStatus true) else (l, OStatus false)
  | OAddHeadRef i => if i <? length l then (nth i l 0%Z :: l, OStatus true) else (l, OStatus false)
  | OInsertAtRef idx i =>
      if i <? length l then (l0_insert_at l (Nat.min idx (length l)) [nth i l 0%Z], OStatus true) else (l, OStatus false)
  | OReplaceRef idx i =>
      if (idx <? length l) && (i <? length l) then (upd l idx (nth i l 0%Z), OStatus true) else (l, OStatus false)
  | ORemoveAllRef i =>
      if i <? length l then
        let x := nth i l 0%Z in
        (filter (fun y => negb (Z.eqb y x)) l, ONum (length (filter (fun y => Z.eqb y x) l)))
      else (l, ONum 0)
  | OShrinkToFit e => (l, OStatus (negb (too_big (N.of_nat (length l)) e)))
  | OEnsureCanAdd n => (l, OStatus (negb (too_big (N.of_nat (length l)) n)))
  | OReplaceAll x => (repeat x (length l), ONone)
  | OPieces => (l, OList l)
  | OAdopt xs _ => (xs, ONone)
  | ORelease => ([], ONone)
  end.

(* ---- two ideal sequences (operations that involve a second Queue, or the Queue itself as argument) *)

Inductive op2 :=
| OOn (b : bool) (o : op)                         (* a single-queue operation on A (b=false) or B (b=true) *)
| OSwapContents (b : bool)                        (* this.SwapContents(other); this = A or B *)
| OPlunder (b : bool)                             (* this = std::move(other)  (Plunder) *)
| OCopyFromQ (b : bool)                           (* this.CopyFrom(other) *)
| OAssign (b : bool)                              (* this = other *)
| OEqual                                          (* A == B *)
| OStartsWith (b : bool) | OEndsWith (b : bool)   (* this.StartsWith(other) / EndsWith *)
| OAddTailMultiQ (b self : bool) (start num : nat)        (* this.AddTailMulti(src, start, num); src = this when self *)
| OAddHeadMultiQ (b self : bool) (start num : nat)
| OInsertItemsAtQ (b self : bool) (idx start num : nat)
| OCompare (b : bool).                            (* this < other / this > other: -1, 0 or 1 (lexicographicalCompare) *)

Definition slice (l : list Z) (start num : nat) : list Z := firstn num (skipn start l).

Fixpoint zlist_eqb (a b : list Z) : bool :=
  match a, b with
  | [], [] => true
  | x :: a', y :: b' => Z.eqb x y && zlist_eqb a' b'
  | _, _ => false
  end.

(* lexicographicalCompare over the common range, then by length; [ga]/[gb] read item i *)
Fixpoint lex_loop (ga gb : nat -> Z) (i k : nat) : Z :=
  match k with
  | 0 => 0%Z
  | S k' => if Z.ltb (ga i) (gb i) then (-1)%Z else if Z.ltb (gb i) (ga i) then 1%Z else lex_loop ga gb (i + 1) k'
  end.
Definition lex_cmp (ga : nat -> Z) (ca : nat) (gb : nat -> Z) (cb : nat) : Z :=
  let r := lex_loop ga gb 0 (Nat.min ca cb) in
  if Z.eqb r 0 then (if ca <? cb then (-1)%Z else if cb <? ca then 1%Z else 0%Z) else r.

Definition sel {A} (b : bool) (p : A * A) : A * A := if b then (snd p, fst p) else p.   (* (this, other) *)

(* which queue is [this] *)
Definition op2_this (o : op2) : bool :=
  match o with
  | OOn b _ | OSwapContents b | OPlunder b | OCopyFromQ b | OAssign b | OStartsWith b | OEndsWith b
  | OAddTailMultiQ b _ _ _ | OAddHeadMultiQ b _ _ _ | OInsertItemsAtQ b _ _ _ _ | OCompare b => b
  | OEqual => false
  end.

Definition step20 (p : list Z * list Z) (o : op2) : (list Z * list Z) * out :=
  let b := op2_this o in
  let '(t, r) := sel b p in
  match o with
  | OOn _ o1 => let '(t', res) := step0 t o1 in (sel b (t', r), res)
  | OSwapContents _ => (sel b (r, t), ONone)
  | OPlunder _ => (sel b (r, []), ONone)
  | OCopyFromQ _ => (sel b (r, r), OStatus true)
  | OAssign _ => (sel b (r, r), ONone)
  | OEqual => (p, OStatus (zlist_eqb t r))
  | OStartsWith _ => (p, OStatus ((length r <=? length t) && zlist_eqb (firstn (length r) t) r))
  | OEndsWith _ => (p, OStatus ((length r <=? length t) && zlist_eqb (skipn (length t - length r) t) r))
  | OAddTailMultiQ _ self start num =>
      (sel b (t ++ slice (if self then t else r) start num, r), OStatus true)
  | OAddHeadMultiQ _ self start num =>
      (sel b (slice (if self then t else r) start num ++ t, r), OStatus true)
  | OInsertItemsAtQ _ self idx start num =>
      (sel b (l0_insert_at t (Nat.min idx (length t)) (slice (if self then t else r) start num), r), OStatus true)
  | OCompare _ => (p, OVal (Some (lex_cmp (fun i => nth i t 0%Z) (length t) (fun i => nth i r 0%Z) (length r))))
  end.

(* ------------------------------------------------------------------ L1: the code's layout *)

Section L1.
Variable owning : bool.     (* IsPerItemClearNecessary() *)
Variable jk : Z.            (* what an uninitialised trivial slot happens to hold *)
Variable sq : nat.          (* ARRAYITEMS(_smallQueue) *)

Definition dflt : Z := 0%Z.
Definition fresh : Z := if owning then dflt else jk.

(* a just-constructed Queue: no array; the in-object array is default-constructed (owning) or
   uninitialised (trivial) *)
Definition empty_q : q1 := mkQ SNull [] 0 0 0 (repeat fresh sq).

Definition qsize (q : q1) : nat := length (arr q).
Definition next_index (q : q1) (i : nat) : nat := if qsize q - 1 <=? i then 0 else i + 1.
Definition prev_index (q : q1) (i : nat) : nat := if i =? 0 then qsize q - 1 else i - 1.
Definition intern (q : q1) (i : nat) : nat :=
  let o := head q + i in if o <? qsize q then o else o - qsize q.
Definition getu (q : q1) (i : nat) : Z := nth (intern q i) (arr q) dflt.
Definition setu (q : q1) (i : nat) (v : Z) : q1 :=
  mkQ (st q) (upd (arr q) (intern q i) v) (cnt q) (head q) (tail q) (inl q).
Definition set_raw (q : q1) (slot : nat) (v : Z) : q1 :=
  mkQ (st q) (upd (arr q) slot v) (cnt q) (head q) (tail q) (inl q).

(* the abstraction function: the items a user sees *)
Definition abs (q : q1) : list Z := map (getu q) (seq 0 (cnt q)).


Definition clear_slot (q : q1) (slot : nat) : q1 := if owning then set_raw q slot dflt else q.

(* RemoveHead() / RemoveTail() *)
Definition remove_head (q : q1) : q1 :=
  match cnt q with
  | 0 => q
  | S c => let old := head q in
           clear_slot (mkQ (st q) (arr q) c (next_index q (head q)) (tail q) (inl q)) old
  end.
Definition remove_tail (q : q1) : q1 :=
  match cnt q with
  | 0 => q
  | S c => let old := tail q in
           clear_slot (mkQ (st q) (arr q) c (head q) (prev_index q (tail q)) (inl q)) old
  end.

(* FastClear *)
Definition fast_clear (q : q1) : q1 := mkQ (st q) (arr q) 0 0 0 (inl q).
(* Clear(true) on a non-inline array: delete[] _queue; _queue = NULL *)
Definition released (q : q1) : q1 := mkQ SNull [] 0 0 0 (inl q).

(* Clear(release): when the buffer is kept and items are owning, the two contiguous
   pieces of the window are reset to the default item *)
Fixpoint clear_window (q : q1) (k : nat) : q1 :=
  match k with 0 => q | S k' => clear_window (set_raw q (intern q k') dflt) k' end.
Definition clear (q : q1) (release : bool) : q1 :=
  match st q with
  | SHeap => if release then released q
             else fast_clear (if owning then clear_window q (cnt q) else q)
  | SNull => if release then released q else fast_clear q
  | SSmall => fast_clear (if owning then clear_window q (cnt q) else q)
  end.

Fixpoint iter {A} (n : nat) (f : A -> A) (a : A) : A :=
  match n with 0 => a | S n' => iter n' f (f a) end.

(* RemoveTailMulti / RemoveHeadMulti *)
Definition remove_tail_multi (q : q1) (n : nat) : q1 * nat :=
  let n := Nat.min n (cnt q) in
  match n with
  | 0 => (q, 0)
  | _ => if n =? cnt q then (clear q false, n)
         else if owning then (iter n remove_tail q, n)
         else (mkQ (st q) (arr q) (cnt q - n) (head q)
                   ((if tail q <? n then tail q + qsize q else tail q) - n) (inl q), n)
  end.
Definition remove_head_multi (q : q1) (n : nat) : q1 * nat :=
  let n := Nat.min n (cnt q) in
  match n with
  | 0 => (q, 0)
  | _ => if n =? cnt q then (clear q false, n)
         else if owning then (iter n remove_head q, n)
         else (mkQ (st q) (arr q) (cnt q - n) ((head q + n) mod qsize q) (tail q) (inl q), n)
  end.

(* EnsureSizeAux(size, setNumItems, extraPreallocs, _, allowShrink).
   Mirrors the code *with the F13/F6 repairs* (see DESIGN.md section 7): the reallocated
   array is never shorter than the items that are kept, the copy loop moves
   min(_itemCount, kept) items, and slots newly exposed by setNumItems are default items
   also for trivial item types. *)
Definition es_need_realloc (q : q1) (size extra : nat) (shrink : bool) : bool :=
  match st q with
  | SNull => true
  | _ => if shrink then negb (qsize q =? size + extra) else qsize q <? size
  end.
(* the reallocation: items are copied to the front of the new array, which is the in-object
   array when that is not the current one and is large enough, else a fresh heap array.  Leaving
   the in-object array resets it to default items for owning item types. *)
Definition es_realloc (q : q1) (size extra : nat) : q1 :=
  let temp := Nat.max (size + extra) (cnt q) in
  let newlen := Nat.max sq temp in
  let to_small := match st q with SSmall => false | _ => newlen <=? sq end in
  let items := abs q in
  let c := cnt q in
  if to_small then mkQ SSmall (items ++ skipn c (inl q)) c 0 (c - 1) []
  else mkQ SHeap (items ++ repeat fresh (newlen - length items)) c 0 (c - 1)
           (match st q with SSmall => if owning then repeat dflt sq else arr q | _ => inl q end).
(* setNumItems with size > _itemCount: the new items must be default items *)
Definition es_grow (q : q1) (size : nat) : q1 :=
  let grown := mkQ (st q) (arr q) size (head q) (prev_index q (intern q size)) (inl q) in
  (* fill the newly exposed slots for trivial types (owning slots are default already) *)
  if owning then grown
  else fold_left (fun g i => setu g i dflt) (seq (cnt q) (size - cnt q)) grown.
Definition ensure_size (q : q1) (size : nat) (setnum : bool) (extra : nat) (shrink : bool) : q1 :=
  (* a shrinking setNumItems first drops the surplus tail items *)
  let q := if setnum && (size <? cnt q) then fst (remove_tail_multi q (cnt q - size)) else q in
  let q' := if es_need_realloc q size extra shrink then es_realloc q size extra else q in
  if setnum then
    if cnt q' <? size then es_grow q' size else q'
  else q'.

(* AddTail(item) / AddHead(item) *)
Definition add_tail (q : q1) (x : Z) : q1 :=
  let q := ensure_size q (cnt q + 1) false (cnt q + 1) false in
  let t := if cnt q =? 0 then 0 else next_index q (tail q) in
  let h := if cnt q =? 0 then 0 else head q in
  mkQ (st q) (upd (arr q) t x) (cnt q + 1) h t (inl q).
Definition add_head (q : q1) (x : Z) : q1 :=
  let q := ensure_size q (cnt q + 1) false (cnt q + 1) false in
  let h := if cnt q =? 0 then 0 else prev_index q (head q) in
  let t := if cnt q =? 0 then 0 else tail q in
  mkQ (st q) (upd (arr q) h x) (cnt q + 1) h t (inl q).

(* RemoveItemAt(index): shift toward the nearer end *)
Fixpoint shift_from_head (q : q1) (slot : nat) (fuel : nat) : q1 :=
  match fuel with
  | 0 => q
  | S f => if slot =? head q then q
           else let p := prev_index q slot in
                shift_from_head (set_raw q slot (nth p (arr q) dflt)) p f
  end.
Fixpoint shift_from_tail (q : q1) (slot : nat) (fuel : nat) : q1 :=
  match fuel with
  | 0 => q
  | S f => if slot =? tail q then q
           else let n := next_index q slot in
                shift_from_tail (set_raw q slot (nth n (arr q) dflt)) n f
  end.
Definition remove_at (q : q1) (i : nat) : q1 :=
  if cnt q <=? i then q
  else if i <? cnt q / 2 then
    let q2 := shift_from_head q (intern q i) (qsize q) in
    let old := head q2 in
    clear_slot (mkQ (st q2) (arr q2) (cnt q2 - 1) (next_index q2 (head q2)) (tail q2) (inl q2)) old
  else
    let q2 := shift_from_tail q (intern q i) (qsize q) in
    let old := tail q2 in
    clear_slot (mkQ (st q2) (arr q2) (cnt q2 - 1) (head q2) (prev_index q2 (tail q2)) (inl q2)) old.

(* InsertItemAt(index, item) *)
Definition insert_at (q : q1) (i : nat) (x : Z) : q1 :=
  if cnt q <=? i then add_tail q x
  else if i =? 0 then add_head q x
  else if i <? cnt q / 2 then
    let q2 := add_head q dflt in
    let q3 := fold_left (fun g k => setu g k (getu g (k + 1))) (seq 0 i) q2 in
    setu q3 i x
  else
    let q2 := add_tail q dflt in
    (* for k = cnt-1 downto i+1 : q[k] = q[k-1] *)
    let q3 := fold_left (fun g k => setu g k (getu g (k - 1))) (rev (seq (i + 1) (cnt q2 - 1 - i))) q2 in
    setu q3 i x.

(* AddTailMulti(array) : EnsureSize(newSize,true) then overwrite *)
Definition write_from (q : q1) (start : nat) (xs : list Z) : q1 :=
  fst (fold_left (fun '(g, k) x => (setu g k x, k + 1)) xs (q, start)).
Definition add_tail_multi (q : q1) (xs : list Z) : q1 :=
  let old := cnt q in
  write_from (ensure_size q (old + length xs) true 0 false) old xs.
Definition add_head_multi (q : q1) (xs : list Z) : q1 :=
  let q := ensure_size q (cnt q + length xs) false 0 false in
  fold_left add_head (rev xs) q.
(* the general path of InsertItemsAt: grow by n default items, shift the tail part up by n
   (backwards, the ranges may overlap), write the new items *)
Definition insert_items_general (q : q1) (i : nat) (xs : list Z) : q1 :=
  let old := cnt q in
  let n := length xs in
  let q2 := ensure_size q (old + n) true 0 false in
  let q3 := fold_left (fun g k => setu g (k + n) (getu g k)) (rev (seq i (old - i))) q2 in
  write_from q3 i xs.
(* InsertItemsAt(index, const ItemType *, numNewItems) *)
Definition insert_items_at (q : q1) (i : nat) (xs : list Z) : q1 :=
  let i := Nat.min i (cnt q) in
  match xs with
  | [] => q
  | [x] => if i =? 0 then add_head q x
           else if i =? cnt q then add_tail q x
           else insert_items_general q i xs
  | _ => insert_items_general q i xs
  end.

(* CopyFrom(rhs) from another queue's contents: EnsureSize(n, true), then overwrite *)
Definition copy_from (q : q1) (xs : list Z) : q1 :=
  write_from (ensure_size q (length xs) true 0 false) 0 xs.

Definition swap_items (q : q1) (i j : nat) : q1 :=
  let a := getu q i in let b := getu q j in setu (setu q i b) j a.

Fixpoint reverse_loop (q : q1) (f t : nat) (fuel : nat) : q1 :=
  match fuel with
  | 0 => q
  | S fu => if f <? t then reverse_loop (swap_items q f t) (f + 1) (t - 1) fu else q
  end.
Definition reverse (q : q1) (from to : nat) : q1 :=
  if (from <? to) && (0 <? cnt q) then
    let t := Nat.min (to - 1) (cnt q - 1) in
    reverse_loop q from t (cnt q)
  else q.

(* Normalize(), not enough room for a copy: rotate the whole array by _headIndex with Paul Hsieh's cycle algorithm:
   for (v=0; c<_queueSize; v++) {t=v; tp=v+_headIndex; tmp=_queue[v]; c++;
      while (tp != v) {_queue[t]=_queue[tp]; t=tp; tp+=_headIndex; if (tp>=_queueSize) tp-=_queueSize; c++;}
      _queue[t]=tmp;}            ([fuel] bounds the loops; _queueSize iterations always suffice) *)
Fixpoint hs_inner (a : list Z) (hd v t tp c fuel : nat) : list Z * nat * nat :=
  match fuel with
  | 0 => (a, t, c)
  | S f => if tp =? v then (a, t, c)
           else let a' := upd a t (nth tp a 0%Z) in
                let tp1 := tp + hd in
                let tp2 := if length a <=? tp1 then tp1 - length a else tp1 in
                hs_inner a' hd v tp tp2 (c + 1) f
  end.
Fixpoint hs_outer (a : list Z) (hd v c fuel : nat) : list Z :=
  match fuel with
  | 0 => a
  | S f => if c <? length a then
             let '(a', t, c') := hs_inner a hd v v (v + hd) (c + 1) (length a) in
             hs_outer (upd a' t (nth v a 0%Z)) hd (v + 1) c' f
           else a
  end.
Definition hsieh_rotate (a : list Z) (hd : nat) : list Z := hs_outer a hd 0 0 (length a + 1).

(* Normalize(): the copy-into-the-gap branch, and the rotation *)
Definition is_normalized (q : q1) : bool := (cnt q =? 0) || (head q <=? tail q).
Definition normalize (q : q1) : q1 :=
  if is_normalized q then q
  else if cnt q * 2 <=? qsize q then
    let start := tail q + 1 in
    let step := fun g i =>
       let v := getu q i in   (* reads use the *old* window; source and target never overlap *)
       let g1 := set_raw g (start + i) v in
       if owning then set_raw g1 (intern q i) dflt else g1 in
    let g := fold_left step (seq 0 (cnt q)) q in
    mkQ (st g) (arr g) (cnt q) start (start + cnt q - 1) (inl g)
  else
    mkQ (st q) (hsieh_rotate (arr q) (head q)) (cnt q) 0 (cnt q - 1) (inl q).

(* RemoveAllInstancesOf(val): collapse the non-matching items towards the head (readFrom / writeTo loop), then
   RemoveTail() once per surplus slot *)
Definition rai_step (x : Z) (s : q1 * nat) (rf : nat) : q1 * nat :=
  let '(g, w) := s in
  if Z.eqb (getu g rf) x then (g, w)
  else ((if w <? rf then setu g w (getu g rf) else g), w + 1).
Definition remove_all_instances (q : q1) (x : Z) : q1 * nat :=
  let '(g, w) := fold_left (rai_step x) (seq 0 (cnt q)) (q, 0) in
  (iter (cnt q - w) remove_tail g, cnt q - w).

(* ---- operations involving a second Queue *)

(* SwapContentsAux: [sm] lives in its in-object array, [lg] does not.  lg's in-object array receives
   sm's items and becomes lg's array; sm adopts lg's array.  [With the repair of finding F35 the
   vacated in-object slots of sm are reset for owning item types.] *)
Definition swap_contents_aux (sm lg : q1) : q1 * q1 :=
  let ni := cnt sm in
  let items := abs sm in
  let vacated := if owning then arr (clear_window sm ni) else arr sm in
  let has := 0 <? qsize lg in
  let sm' := mkQ (st lg) (arr lg) (cnt lg) (if has then head lg else 0) (if has then tail lg else 0) vacated in
  let lg' := if 0 <? ni then mkQ SSmall (items ++ skipn ni (inl lg)) ni 0 (ni - 1) []
             else mkQ SNull [] 0 (head lg) (tail lg) (inl lg) in
  (sm', lg').

(* the un-repaired SwapContentsAux (finding F35): the items moved out of sm's in-object array stay behind in it *)
Definition swap_contents_aux_old (sm lg : q1) : q1 * q1 :=
  let ni := cnt sm in
  let has := 0 <? qsize lg in
  (mkQ (st lg) (arr lg) (cnt lg) (if has then head lg else 0) (if has then tail lg else 0) (arr sm),
   if 0 <? ni then mkQ SSmall (abs sm ++ skipn ni (inl lg)) ni 0 (ni - 1) []
   else mkQ SNull [] 0 (head lg) (tail lg) (inl lg)).

Definition swap_contents (a b : q1) : q1 * q1 :=
  match st a, st b with
  | SSmall, SSmall =>
      let common := Nat.min (cnt a) (cnt b) in
      let '(a1, b1) :=
        if cnt b <? cnt a
        then (ensure_size a common true 0 false, add_tail_multi b (skipn common (abs a)))
        else (add_tail_multi a (skipn common (abs b)), ensure_size b common true 0 false) in
      (write_from a1 0 (firstn common (abs b1)), write_from b1 0 (firstn common (abs a1)))
  | SSmall, _ => swap_contents_aux a b
  | _, SSmall => let '(b', a') := swap_contents_aux b a in (a', b')
  | _, _ => (mkQ (st b) (arr b) (cnt b) (head b) (tail b) (inl a),
             mkQ (st a) (arr a) (cnt a) (head a) (tail a) (inl b))
  end.

(* Plunder(rhs), i.e. move construction / move assignment *)
Definition plunder (t r : q1) : q1 * q1 :=
  let '(t', r') :=
    match st r with
    | SSmall => let t1 := ensure_size t (cnt r) true 0 false in
                (write_from t1 0 (abs r), write_from r 0 (abs t1))
    | _ => swap_contents t r
    end in
  (t', clear r' false).

(* operator=(const Queue &) *)
Definition assign (t r : q1) : q1 := if cnt r =? 0 then clear t true else copy_from t (abs r).

(* operator== : sizes, then items from the last to the first *)
Fixpoint eq_loop (a b : q1) (k : nat) : bool :=
  match k with 0 => true | S k' => if Z.eqb (getu a k') (getu b k') then eq_loop a b k' else false end.
Definition queues_eq (a b : q1) : bool := if cnt a =? cnt b then eq_loop a b (cnt a) else false.

(* StartsWith(prefixQueue) / EndsWith(suffixQueue) *)
Definition starts_with (t r : q1) : bool :=
  if cnt t <? cnt r then false else forallb (fun i => Z.eqb (getu r i) (getu t i)) (seq 0 (cnt r)).
Definition ends_with (t r : q1) : bool :=
  if cnt t <? cnt r then false
  else let off := cnt t - cnt r in forallb (fun i => Z.eqb (getu r i) (getu t (i + off))) (seq 0 (cnt r)).

(* AddTailMulti / AddHeadMulti / InsertItemsAt (const Queue &, startIndex, numItems); [src] is the
   source's items (the destination's own items when it is passed as its own argument: the code then
   works from a temporary copy -- always, with the repair of finding F36 for AddHeadMulti). *)
Definition add_tail_multi_q (t : q1) (src : list Z) (start num : nat) : q1 := add_tail_multi t (slice src start num).
Definition add_head_multi_q (t : q1) (src : list Z) (start num : nat) : q1 := add_head_multi t (slice src start num).
Definition insert_items_at_q (t : q1) (src : list Z) (idx start num : nat) : q1 :=
  let xs := slice src start num in
  let i := Nat.min idx (cnt t) in
  match xs with
  | [] => t
  | _ => if i =? 0 then add_head_multi t xs
         else if i =? cnt t then add_tail_multi t xs
         else insert_items_general t i xs
  end.

(* the un-repaired a.AddHeadMulti(a, start, num) when enough slots are unused (finding F36): the
   loop reads the queue it is prepending to, so every AddHead shifts the indices still to be read *)
Definition add_head_multi_self_old (t : q1) (start num : nat) : q1 :=
  let n := Nat.min num (if start <? cnt t then cnt t - start else 0) in
  fold_left (fun g i => add_head g (getu g i)) (rev (seq start n)) t.

(* Sort: every access of the in-place merge sort is a Swap / ReplaceItemAt / read at a user index inside the
   window, so the window ends up holding what the code-shaped algorithm [sort_cs] computes on the item sequence *)
Definition sort_items (q : q1) (bykey : bool) (from to : nat) : q1 :=
  write_from q 0 (sort_cs (sort_key bykey) (abs q) from to).

(* RemoveSortedDuplicateItems: for (i=1; i<total; i++) if (!(q[i] == q[numWritten-1])) q[numWritten++] = q[i]
   (the assignment is skipped when both are the same slot); then EnsureSize(numWritten, true) *)
Definition rsd_step (s : q1 * nat) (i : nat) : q1 * nat :=
  let '(g, w) := s in
  if Z.eqb (getu g i) (getu g (w - 1)) then (g, w)
  else ((if w <? i then setu g w (getu g i) else g), w + 1).
Definition remove_sorted_dups (q : q1) : q1 * nat :=
  if cnt q =? 0 then (q, 0)
  else let '(g, w) := fold_left rsd_step (seq 1 (cnt q - 1)) (q, 1) in
       (ensure_size g w true 0 false, cnt q - w).

(* InsertItemAtSortedPosition *)
Definition insert_sorted (q : q1) (x : Z) : q1 * nat :=
  let p := sorted_pos (abs q) x in
  ((if p =? 0 then add_head q x else insert_at q p x), p).

(* GetArrayPointer(0, len) / GetArrayPointer(1, len): the window as at most two contiguous runs of slots *)
Definition pieces (q : q1) : list Z * list Z :=
  match cnt q with
  | 0 => ([], [])
  | _ => (firstn (if head q <=? tail q then tail q - head q + 1 else qsize q - head q) (skipn (head q) (arr q)),
          if tail q <? head q then firstn (tail q + 1) (arr q) else [])
  end.

(* AdoptRawDataArray(numItemsInArray, array, validItemCount): Clear(true), then the caller's array becomes the heap
   array (of any length, even shorter than the in-object one).  The caller is responsible for what the slots behind
   the valid items hold; for owning items they have to be default items ("only if you know what you are doing"), so
   the operation is modelled with such an array: xs followed by |spare| default items (owning) / the items of spare. *)
Definition adopt (q : q1) (xs spare : list Z) : q1 :=
  let q0 := clear q true in
  let a := xs ++ (if owning then repeat dflt (length spare) else spare) in
  mkQ SHeap a (length xs) 0 (length xs - 1) (match st q0 with SSmall => arr q0 | _ => inl q0 end).

(* ReleaseRawDataArray(): a heap array is handed out as it is (ring order) and the Queue forgets it; an in-object
   array is copied, in user order, into a fresh array of the same length and the Queue is cleared *)
Definition release (q : q1) : q1 * list Z :=
  match st q with
  | SSmall => (clear q false, abs q ++ repeat fresh (qsize q - cnt q))
  | _ => (mkQ SNull [] 0 (head q) (tail q) (inl q), arr q)
  end.

Definition step1 (q : q1) (o : op) : q1 * out :=
  match o with
  | OAddTail x => (add_tail q x, OStatus true)
  | OAddHead x => (add_head q x, OStatus true)
  | ORemoveHead => match cnt q with 0 => (q, OVal None) | _ => (remove_head q, OVal (Some (getu q 0))) end
  | ORemoveTail => match cnt q with 0 => (q, OVal None) | _ => (remove_tail q, OVal (Some (getu q (cnt q - 1)))) end
  | ORemoveHeadMulti n => let '(q', k) := remove_head_multi q n in (q', ONum k)
  | ORemoveTailMulti n => let '(q', k) := remove_tail_multi q n in (q', ONum k)
  | ORemoveAt i => if i <? cnt q then (remove_at q i, OVal (Some (getu q i))) else (q, OVal None)
  | OInsertAt i x => (insert_at q i x, OStatus true)
  | OReplaceAt i x => if i <? cnt q then (setu q i x, OStatus true) else (q, OStatus false)
  | OGet i => (q, OVal (if i <? cnt q then Some (getu q i) else None))
  | OClear r => (clear q r, ONone)
  | OEnsure n s e sh =>
      if too_big n e then (q, OStatus false) else (ensure_size q (N.to_nat n) s (N.to_nat e) sh, OStatus true)
  | OSwap i j => if (i <? cnt q) && (j <? cnt q) then (swap_items q i j, ONone) else (q, ONone)
  | OReverse f t => (reverse q f t, ONone)
  | ONormalize => (normalize q, ONone)
  | OIndexOf x f t => (q, OIdx (l0_index_of (abs q) x f t))
  | OLastIndexOf x f t => (q, OIdx (l0_last_index_of (abs q) x f t))
  | OAddTailMulti xs => (add_tail_multi q xs, OStatus true)
  | OAddHeadMulti xs => (add_head_multi q xs, OStatus true)
  | OInsertItemsAt i xs => (insert_items_at q i xs, OStatus true)
  | OCopyFrom xs => (copy_from q xs, OStatus true)
  | ORemoveFirstInstance x =>
      match find_from x (abs q) 0 with Some i => (remove_at q i, OStatus true) | None => (q, OStatus false) end
  | ORemoveLastInstance x =>
      match find_from x (rev (abs q)) 0 with
      | Some k => (remove_at q (cnt q - 1 - k), OStatus true)
      | None => (q, OStatus false) end
  | ORemoveAllInstances x => let '(q', k) := remove_all_instances q x in (q', ONum k)
  | OSort k f t => (sort_items q k f t, ONone)
  | OIterate s d => (q, OList (iter_vals (getu q) (cnt q) (Z.of_nat s) d (cnt q + 1)))
  | ORemoveSortedDups => let '(q', k) := remove_sorted_dups q in (q', ONum k)
  | ORemoveDups => let '(q', k) := remove_sorted_dups (sort_items q false 0 (cnt q)) in (q', ONum k)
  | OInsertSorted x => let '(q', p) := insert_sorted q x in (q', OIdx (Some p))
  | OAddTailRef i => if i <? cnt q then (add_tail q (getu q i), OStatus true) else (q, OStatus false)
  | OAddHeadRef i => if i <? cnt q then (add_head q (getu q i), OStatus true) else (q, OStatus false)
  | OInsertAtRef idx i => if i <? cnt q then (insert_at q idx (getu q i), OStatus true) else (q, OStatus false)
  | OReplaceRef idx i =>
      if (idx <? cnt q) && (i <? cnt q) then (setu q idx (getu q i), OStatus true) else (q, OStatus false)
  | ORemoveAllRef i =>
      if i <? cnt q then let '(q', k) := remove_all_instances q (getu q i) in (q', ONum k) else (q, ONum 0)
  | OShrinkToFit e =>
      if too_big (N.of_nat (cnt q)) e then (q, OStatus false)
      else (ensure_size q (cnt q + N.to_nat e) false 0 true, OStatus true)
  | OEnsureCanAdd n =>
      if too_big (N.of_nat (cnt q)) n then (q, OStatus false)
      else (ensure_size q (cnt q + N.to_nat n) false 0 false, OStatus true)
  | OReplaceAll x => (write_from q 0 (repeat x (cnt q)), ONone)
  | OPieces => (q, OList (fst (pieces q) ++ snd (pieces q)))
  | OAdopt xs spare => (adopt q xs spare, ONone)
  | ORelease => (fst (release q), ONone)
  end.

Definition run1 (ops : list op) : q1 * list out :=
  fold_left (fun '(q, outs) o => let '(q', r) := step1 q o in (q', outs ++ [r])) ops (empty_q, []).

Definition step2 (p : q1 * q1) (o : op2) : (q1 * q1) * out :=
  let b := op2_this o in
  let '(t, r) := sel b p in
  match o with
  | OOn _ o1 => let '(t', res) := step1 t o1 in (sel b (t', r), res)
  | OSwapContents _ => (sel b (swap_contents t r), ONone)
  | OPlunder _ => (sel b (plunder t r), ONone)
  | OCopyFromQ _ => (sel b (copy_from t (abs r), r), OStatus true)
  | OAssign _ => (sel b (assign t r, r), ONone)
  | OEqual => (p, OStatus (queues_eq t r))
  | OStartsWith _ => (p, OStatus (starts_with t r))
  | OEndsWith _ => (p, OStatus (ends_with t r))
  | OAddTailMultiQ _ self start num => (sel b (add_tail_multi_q t (if self then abs t else abs r) start num, r), OStatus true)
  | OAddHeadMultiQ _ self start num => (sel b (add_head_multi_q t (if self then abs t else abs r) start num, r), OStatus true)
  | OInsertItemsAtQ _ self idx start num =>
      (sel b (insert_items_at_q t (if self then abs t else abs r) idx start num, r), OStatus true)
  | OCompare _ => (p, OVal (Some (lex_cmp (getu t) (cnt t) (getu r) (cnt r))))
  end.

Definition run2 (ops : list op2) : (q1 * q1) * list out :=
  fold_left (fun '(p, outs) o => let '(p', r) := step2 p o in (p', outs ++ [r])) ops ((empty_q, empty_q), []).

End L1.

Definition run0 (ops : list op) : list Z * list out :=
  fold_left (fun '(l, outs) o => let '(l', r) := step0 l o in (l', outs ++ [r])) ops ([], []).

Definition run20 (ops : list op2) : (list Z * list Z) * list out :=
  fold_left (fun '(p, outs) o => let '(p', r) := step20 p o in (p', outs ++ [r])) ops (([], []), []).
