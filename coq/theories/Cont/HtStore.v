(* Executable model of the storage layer of muscle's Hashtable (util/Hashtable.h):
   slot array, bucket chains (BUCKET_PREV/BUCKET_NEXT), the MAP_TO/MAPPED_FROM
   permutation, the free list, index-width selection and rebuild on growth.
   Definitions only; proofs are in HtStoreProofs.v. *)
From Coq Require Import List Arith ZArith NArith Bool Lia.
Import ListNotations.

(* ------------------------------------------------------------------ data *)

Record slot := mkSlot {
  s_hash  : option N;     (* None = MUSCLE_HASHTABLE_INVALID_HASH_CODE (slot unused) *)
  s_key   : Z;
  s_val   : Z;
  s_bprev : option nat;   (* None = invalid index ((IndexType)-1) *)
  s_bnext : option nat;
  s_mapto : nat;
  s_mfrom : nat }.

Record store := mkStore {
  slots     : list slot;
  free_head : option nat;
  nitems    : nat }.

Definition st_size (st : store) : nat := length (slots st).

(* ComputeTableIndexTypeForTableSize *)
Definition idx_type (size : nat) : nat :=
  (if 255 <=? size then 1 else 0) + (if 65535 <=? size then 1 else 0).

(* the sentinel value (IndexType)-1 of the chosen width *)
Definition idx_limit (ty : nat) : nat :=
  match ty with 0 => 255 | 1 => 65535 | _ => 4294967295 end.

(* ------------------------------------------------------------------ slot access *)

Definition st_dflt : slot := mkSlot None 0 0 None None 0 0.

Definition st_slot (sl : list slot) (i : nat) : slot := nth i sl st_dflt.

Definition st_gh  (sl : list slot) (i : nat) : option N   := s_hash  (st_slot sl i).
Definition st_gk  (sl : list slot) (i : nat) : Z          := s_key   (st_slot sl i).
Definition st_gv  (sl : list slot) (i : nat) : Z          := s_val   (st_slot sl i).
Definition st_gp  (sl : list slot) (i : nat) : option nat := s_bprev (st_slot sl i).
Definition st_gn  (sl : list slot) (i : nat) : option nat := s_bnext (st_slot sl i).
Definition st_gmt (sl : list slot) (i : nat) : nat        := s_mapto (st_slot sl i).
Definition st_gmf (sl : list slot) (i : nat) : nat        := s_mfrom (st_slot sl i).

Fixpoint sto_upd (l : list slot) (i : nat) (f : slot -> slot) : list slot :=
  match l with
  | [] => []
  | x :: r => match i with
              | 0 => f x :: r
              | S j => x :: sto_upd r j f
              end
  end.

Definition st_set_bprev (sl : list slot) (i : nat) (v : option nat) : list slot :=
  sto_upd sl i (fun s => mkSlot (s_hash s) (s_key s) (s_val s) v (s_bnext s) (s_mapto s) (s_mfrom s)).
Definition st_set_bnext (sl : list slot) (i : nat) (v : option nat) : list slot :=
  sto_upd sl i (fun s => mkSlot (s_hash s) (s_key s) (s_val s) (s_bprev s) v (s_mapto s) (s_mfrom s)).
Definition st_set_mapto (sl : list slot) (i : nat) (v : nat) : list slot :=
  sto_upd sl i (fun s => mkSlot (s_hash s) (s_key s) (s_val s) (s_bprev s) (s_bnext s) v (s_mfrom s)).
Definition st_set_mfrom (sl : list slot) (i : nat) (v : nat) : list slot :=
  sto_upd sl i (fun s => mkSlot (s_hash s) (s_key s) (s_val s) (s_bprev s) (s_bnext s) (s_mapto s) v).
Definition st_set_pay (sl : list slot) (i : nat) (h : option N) (k v : Z) : list slot :=
  sto_upd sl i (fun s => mkSlot h k v (s_bprev s) (s_bnext s) (s_mapto s) (s_mfrom s)).
Definition st_set_v (sl : list slot) (i : nat) (v : Z) : list slot :=
  sto_upd sl i (fun s => mkSlot (s_hash s) (s_key s) v (s_bprev s) (s_bnext s) (s_mapto s) (s_mfrom s)).

Definition st_opt_eqb (a b : option nat) : bool :=
  match a, b with
  | None, None => true
  | Some x, Some y => x =? y
  | _, _ => false
  end.

(* hash % _tableSize *)
Definition st_bkt (size : nat) (h : N) : nat := N.to_nat (h mod N.of_nat size).

(* ------------------------------------------------------------------ CreateEntriesArray / EnsureTableAllocated *)

Definition st_init_slot (i : nat) : slot :=
  mkSlot None 0 0
         (match i with 0 => None | S j => Some j end)   (* (IndexType)(i-1U): wraps to the sentinel for i=0 *)
         (Some (S i))                                    (* (IndexType)(i+1U); the last one is fixed below *)
         i i.

Definition st_create_slots (size : nat) : list slot :=
  st_set_bnext (map st_init_slot (seq 0 size)) (size - 1) None.

Definition st_create (size : nat) : store :=
  mkStore (st_create_slots size) (Some 0) 0.

(* ------------------------------------------------------------------ IsBucketHead / GetEntry *)

Definition st_is_head (sl : list slot) (e : nat) : bool :=
  match st_gh sl e with
  | None => false
  | Some h => st_gmt sl (st_bkt (length sl) h) =? e
  end.

Fixpoint st_walk (sl : list slot) (fuel : nat) (e : nat) (hash : N) (key : Z) : option nat :=
  match fuel with
  | 0 => None
  | S f =>
      if (match st_gh sl e with Some h => N.eqb h hash | None => false end) && Z.eqb (st_gk sl e) key
      then Some e
      else match st_gn sl e with
           | None => None
           | Some n => st_walk sl f n hash key
           end
  end.

Definition st_get (st : store) (hash : N) (key : Z) : option nat :=
  let sl := slots st in
  if nitems st =? 0 then None
  else
    let e := st_gmt sl (st_bkt (length sl) hash) in
    if st_is_head sl e then st_walk sl (length sl) e hash key else None.

(* ------------------------------------------------------------------ free list *)

(* HashtableEntry::PopFromFreeList: unlink e (anywhere in the free list); returns the new head *)
Definition st_pop_free (sl : list slot) (e : nat) (fh : option nat) : list slot * option nat :=
  let bn := st_gn sl e in
  let bp := st_gp sl e in
  let sl1 := match bn with Some n => st_set_bprev sl n bp | None => sl end in
  let sl2 := match bp with Some p => st_set_bnext sl1 p bn | None => sl1 end in
  let ret := if st_opt_eqb fh (Some e) then bn else fh in
  (st_set_bprev (st_set_bnext sl2 e None) e None, ret).

(* HashtableEntry::PushToFreeList (key and value are reset to their defaults) *)
Definition st_push_free (sl : list slot) (e : nat) (fh : option nat) : list slot * option nat :=
  let sl1 := st_set_bprev sl e None in
  let sl2 := st_set_bnext sl1 e fh in
  let sl3 := match fh with Some f => st_set_bprev sl2 f (Some e) | None => sl2 end in
  (st_set_pay sl3 e None 0 0, Some e).

(* ------------------------------------------------------------------ SwapEntryMaps *)

Definition st_swap_maps (sl : list slot) (i1 i2 : nat) : list slot :=
  let m1 := st_gmt sl i1 in
  let m2 := st_gmt sl i2 in
  let sl1 := st_set_mapto sl i1 m2 in
  let sl2 := st_set_mapto sl1 i2 m1 in
  let sl3 := st_set_mfrom sl2 (st_gmt sl2 i1) i1 in
  st_set_mfrom sl3 (st_gmt sl3 i2) i2.

(* ------------------------------------------------------------------ PutAuxAux *)

(* link the (already popped) entry e right behind the bucket head ts *)
Definition st_link_after (sl : list slot) (ts e : nat) (hash : N) (key val : Z) : list slot :=
  let sl2 := st_set_pay sl e (Some hash) key val in
  let sl3 := st_set_bprev sl2 e (Some ts) in
  let ebn := st_gn sl3 ts in
  let sl4 := st_set_bnext sl3 e ebn in
  let sl5 := match ebn with Some n => st_set_bprev sl4 n (Some e) | None => sl4 end in
  st_set_bnext sl5 ts (Some e).

(* make the (already popped) entry e the first entry of its bucket *)
Definition st_link_first (sl : list slot) (e : nat) (hash : N) (key val : Z) : list slot :=
  st_set_bnext (st_set_bprev (st_set_pay sl e (Some hash) key val) e None) e None.

Definition st_put_new (st : store) (hash : N) (key val : Z) : store * nat :=
  let sl := slots st in
  let ts := st_gmt sl (st_bkt (length sl) hash) in
  if st_is_head sl ts then
    match free_head st with
    | None => (st, 0)          (* excluded by the caller: a free slot exists *)
    | Some e =>
        let (sl1, fh1) := st_pop_free sl e (Some e) in
        (mkStore (st_link_after sl1 ts e hash key val) fh1 (S (nitems st)), e)
    end
  else
    let (sl0, ts0) :=
      match st_gh sl ts, free_head st with
      | Some _, Some f => (st_swap_maps sl (st_gmf sl ts) (st_gmf sl f), f)
      | _, _ => (sl, ts)
      end in
    let (sl1, fh1) := st_pop_free sl0 ts0 (free_head st) in
    (mkStore (st_link_first sl1 ts0 hash key val) fh1 (S (nitems st)), ts0).

(* e->_value = value (replace path of PutAux) *)
Definition st_set_val (st : store) (i : nat) (v : Z) : store :=
  mkStore (st_set_v (slots st) i v) (free_head st) (nitems st).

(* ------------------------------------------------------------------ RemoveEntry (storage part) *)

Definition st_unlink (sl : list slot) (i : nat) : list slot :=
  match st_gp sl i, st_gn sl i with
  | Some p, next =>
      let a := st_set_bnext sl p next in
      match next with Some n => st_set_bprev a n (Some p) | None => a end
  | None, Some n =>
      let a := st_set_bprev sl n None in
      st_swap_maps a (st_gmf a i) (st_gmf a n)
  | None, None => sl
  end.

Definition st_remove (st : store) (i : nat) : store :=
  let sl1 := st_unlink (slots st) i in
  let (sl2, fh2) := st_push_free sl1 i (free_head st) in
  mkStore sl2 fh2 (pred (nitems st)).

(* ------------------------------------------------------------------ EnsureSize steps 2-3 *)

Fixpoint st_put_all (st : store) (es : list (N * Z * Z)) : store * list nat :=
  match es with
  | [] => (st, [])
  | (h, k, v) :: r =>
      let (st1, i) := st_put_new st h k v in
      let (st2, is) := st_put_all st1 r in
      (st2, i :: is)
  end.

Definition st_rebuild (newsize : nat) (entries : list (N * Z * Z)) : store :=
  fst (st_put_all (st_create newsize) entries).

(* the entries stored in the given slots, in the given order *)
Definition st_entry (sl : list slot) (i : nat) : N * Z * Z :=
  (match st_gh sl i with Some h => h | None => 0%N end, st_gk sl i, st_gv sl i).

Definition st_entries (st : store) (order : list nat) : list (N * Z * Z) :=
  map (st_entry (slots st)) order.

(* ------------------------------------------------------------------ narrowing check *)

Definition st_idx_ok (lim : nat) (o : option nat) : bool :=
  match o with None => true | Some i => i <? lim end.

Definition st_slot_narrow_ok (lim : nat) (s : slot) : bool :=
  st_idx_ok lim (s_bprev s) && st_idx_ok lim (s_bnext s) && (s_mapto s <? lim) && (s_mfrom s <? lim).

Definition st_narrow_ok (st : store) : bool :=
  let lim := idx_limit (idx_type (length (slots st))) in
  st_idx_ok lim (free_head st) && forallb (st_slot_narrow_ok lim) (slots st).

(* ------------------------------------------------------------------ lookup without chains *)

Definition st_used_key (k : Z) (s : slot) : bool :=
  match s_hash s with Some _ => Z.eqb (s_key s) k | None => false end.

Definition st_lookup (st : store) (k : Z) : option Z :=
  option_map s_val (find (st_used_key k) (slots st)).

(* ------------------------------------------------------------------ runs *)

Inductive sop := SPut (k v : Z) | SGet (k : Z) | SRemove (k : Z) | SGrow (n : nat).

Record srun := mkRun { r_st : store; r_order : list nat }.

Definition st_remove_nat (x : nat) (l : list nat) : list nat :=
  filter (fun y => negb (y =? x)) l.

(* EnsureSize(requested) without allowShrink *)
Definition st_grow (r : srun) (requested : nat) : srun :=
  let st := r_st r in
  let newsize := Nat.max (nitems st) (Nat.max requested (st_size st)) in
  if newsize =? st_size st then r
  else let (st', ord') := st_put_all (st_create newsize) (st_entries st (r_order r)) in
       mkRun st' ord'.

Definition st_step (hashf : Z -> N) (r : srun) (op : sop) : srun * option Z :=
  let st := r_st r in
  match op with
  | SGet k =>
      (r, match st_get st (hashf k) k with Some i => Some (st_gv (slots st) i) | None => None end)
  | SPut k v =>
      match st_get st (hashf k) k with
      | Some i => (mkRun (st_set_val st i v) (r_order r), Some (st_gv (slots st) i))
      | None =>
          let r1 := if nitems st =? st_size st then st_grow r (2 * st_size st) else r in
          let (st2, i) := st_put_new (r_st r1) (hashf k) k v in
          (mkRun st2 (r_order r1 ++ [i]), None)
      end
  | SRemove k =>
      match st_get st (hashf k) k with
      | Some i => (mkRun (st_remove st i) (st_remove_nat i (r_order r)), Some (st_gv (slots st) i))
      | None => (r, None)
      end
  | SGrow n => (st_grow r n, None)
  end.

Fixpoint st_run (hashf : Z -> N) (r : srun) (ops : list sop) : list (option Z) :=
  match ops with
  | [] => []
  | op :: rest => let (r', out) := st_step hashf r op in out :: st_run hashf r' rest
  end.

(* ideal finite map *)
Definition fm_step (f : Z -> option Z) (op : sop) : (Z -> option Z) * option Z :=
  match op with
  | SGet k => (f, f k)
  | SPut k v => (fun k' => if Z.eqb k' k then Some v else f k', f k)
  | SRemove k => (fun k' => if Z.eqb k' k then None else f k', f k)
  | SGrow _ => (f, None)
  end.

Fixpoint fm_run (f : Z -> option Z) (ops : list sop) : list (option Z) :=
  match ops with
  | [] => []
  | op :: rest => let (f', out) := fm_step f op in out :: fm_run f' rest
  end.
