(* C09 -- the representation predicate: "the links of table h form the doubly linked list l",
   and the correctness of the two list primitives InsertIterationEntry / RemoveIterationEntry
   (pointer surgery) with respect to list insertion / removal. *)
From Coq Require Import List Arith ZArith NArith PArith Bool Lia FMapPositive.
From Muscle Require Import Cont.HtModel Cont.HtLemmas.
Import ListNotations.

Definition live (h : ht) (e : positive) : Prop := getn h e <> None.

(* ------------------------------------------------------------------ field writes *)

Lemma live_dec : forall h e, {live h e} + {getn h e = None}.
Proof. intros. unfold live. destruct (getn h e); [left; discriminate|right; reflexivity]. Qed.

Lemma get_next_set_next : forall h e x y, live h e ->
  get_next (set_next h e x) y = if Pos.eqb y e then x else get_next h y.
Proof.
  intros h e x y L. unfold set_next, live in *. destruct (getn h e) as [n|] eqn:E; [|congruence].
  unfold get_next. destruct (Pos.eqb y e) eqn:Ey.
  - apply Pos.eqb_eq in Ey; subst. rewrite getn_setn_same. reflexivity.
  - apply Pos.eqb_neq in Ey. rewrite getn_setn_other by assumption. reflexivity.
Qed.

Lemma get_prev_set_next : forall h e x y, get_prev (set_next h e x) y = get_prev h y.
Proof.
  intros h e x y. unfold set_next. destruct (getn h e) as [n|] eqn:E; [|reflexivity].
  unfold get_prev. destruct (Pos.eq_dec y e) as [->|Hn].
  - rewrite getn_setn_same, E. reflexivity.
  - rewrite getn_setn_other by assumption. reflexivity.
Qed.

Lemma get_prev_set_prev : forall h e x y, live h e ->
  get_prev (set_prev h e x) y = if Pos.eqb y e then x else get_prev h y.
Proof.
  intros h e x y L. unfold set_prev, live in *. destruct (getn h e) as [n|] eqn:E; [|congruence].
  unfold get_prev. destruct (Pos.eqb y e) eqn:Ey.
  - apply Pos.eqb_eq in Ey; subst. rewrite getn_setn_same. reflexivity.
  - apply Pos.eqb_neq in Ey. rewrite getn_setn_other by assumption. reflexivity.
Qed.

Lemma get_next_set_prev : forall h e x y, get_next (set_prev h e x) y = get_next h y.
Proof.
  intros h e x y. unfold set_prev. destruct (getn h e) as [n|] eqn:E; [|reflexivity].
  unfold get_next. destruct (Pos.eq_dec y e) as [->|Hn].
  - rewrite getn_setn_same, E. reflexivity.
  - rewrite getn_setn_other by assumption. reflexivity.
Qed.

Lemma kv_of_set_next : forall h e x y, kv_of (set_next h e x) y = kv_of h y.
Proof.
  intros h e x y. unfold set_next. destruct (getn h e) as [n|] eqn:E; [|reflexivity].
  unfold kv_of. destruct (Pos.eq_dec y e) as [->|Hn].
  - rewrite getn_setn_same, E. reflexivity.
  - rewrite getn_setn_other by assumption. reflexivity.
Qed.

Lemma kv_of_set_prev : forall h e x y, kv_of (set_prev h e x) y = kv_of h y.
Proof.
  intros h e x y. unfold set_prev. destruct (getn h e) as [n|] eqn:E; [|reflexivity].
  unfold kv_of. destruct (Pos.eq_dec y e) as [->|Hn].
  - rewrite getn_setn_same, E. reflexivity.
  - rewrite getn_setn_other by assumption. reflexivity.
Qed.

Lemma live_set_next : forall h e x y, live (set_next h e x) y <-> live h y.
Proof.
  intros h e x y. unfold set_next, live. destruct (getn h e) as [n|] eqn:E; [|tauto].
  destruct (Pos.eq_dec y e) as [->|Hn].
  - rewrite getn_setn_same, E. split; discriminate.
  - rewrite getn_setn_other by assumption. tauto.
Qed.

Lemma live_set_prev : forall h e x y, live (set_prev h e x) y <-> live h y.
Proof.
  intros h e x y. unfold set_prev, live. destruct (getn h e) as [n|] eqn:E; [|tauto].
  destruct (Pos.eq_dec y e) as [->|Hn].
  - rewrite getn_setn_same, E. split; discriminate.
  - rewrite getn_setn_other by assumption. tauto.
Qed.

Lemma live_set_val : forall h e v y, live (set_val h e v) y <-> live h y.
Proof.
  intros h e v y. unfold set_val, live. destruct (getn h e) as [n|] eqn:E; [|tauto].
  destruct (Pos.eq_dec y e) as [->|Hn].
  - rewrite getn_setn_same, E. split; discriminate.
  - rewrite getn_setn_other by assumption. tauto.
Qed.

Lemma get_next_set_val : forall h e v y, get_next (set_val h e v) y = get_next h y.
Proof.
  intros h e v y. unfold set_val. destruct (getn h e) as [n|] eqn:E; [|reflexivity].
  unfold get_next. destruct (Pos.eq_dec y e) as [->|Hn].
  - rewrite getn_setn_same, E. reflexivity.
  - rewrite getn_setn_other by assumption. reflexivity.
Qed.

Lemma get_prev_set_val : forall h e v y, get_prev (set_val h e v) y = get_prev h y.
Proof.
  intros h e v y. unfold set_val. destruct (getn h e) as [n|] eqn:E; [|reflexivity].
  unfold get_prev. destruct (Pos.eq_dec y e) as [->|Hn].
  - rewrite getn_setn_same, E. reflexivity.
  - rewrite getn_setn_other by assumption. reflexivity.
Qed.

Lemma kv_of_set_val : forall h e v y,
  kv_of (set_val h e v) y = if Pos.eqb y e then (match kv_of h e with Some kv => Some (fst kv, v) | None => None end) else kv_of h y.
Proof.
  intros h e v y. unfold set_val. destruct (getn h e) as [n|] eqn:E.
  - unfold kv_of. destruct (Pos.eqb y e) eqn:Ey.
    + apply Pos.eqb_eq in Ey; subst. rewrite getn_setn_same, E. reflexivity.
    + apply Pos.eqb_neq in Ey. rewrite getn_setn_other by assumption. reflexivity.
  - destruct (Pos.eqb y e) eqn:Ey; [|reflexivity].
    apply Pos.eqb_eq in Ey; subst. unfold kv_of. rewrite E. reflexivity.
Qed.

(* the parts of a table that pointer writes never touch *)
Definition meta_eq (h h' : ht) : Prop :=
  cnt h' = cnt h /\ cap h' = cap h /\ fresh h' = fresh h /\ asort h' = asort h /\ ilist h' = ilist h.

Lemma meta_eq_refl : forall h, meta_eq h h.
Proof. intros. repeat split. Qed.
Lemma meta_eq_trans : forall a b c, meta_eq a b -> meta_eq b c -> meta_eq a c.
Proof. unfold meta_eq. intros a b c (A1&A2&A3&A4&A5) (B1&B2&B3&B4&B5). repeat split; congruence. Qed.

Lemma meta_set_next : forall h e x, meta_eq h (set_next h e x).
Proof. intros. unfold set_next. destruct (getn h e); repeat split. Qed.
Lemma meta_set_prev : forall h e x, meta_eq h (set_prev h e x).
Proof. intros. unfold set_prev. destruct (getn h e); repeat split. Qed.
Lemma meta_set_val : forall h e x, meta_eq h (set_val h e x).
Proof. intros. unfold set_val. destruct (getn h e); repeat split. Qed.
Lemma meta_with_hd : forall h x, meta_eq h (with_hd h x). Proof. intros. repeat split. Qed.
Lemma meta_with_tl : forall h x, meta_eq h (with_tl h x). Proof. intros. repeat split. Qed.

Lemma hd_set_next : forall h e x, hd (set_next h e x) = hd h.
Proof. intros. unfold set_next. destruct (getn h e); reflexivity. Qed.
Lemma hd_set_prev : forall h e x, hd (set_prev h e x) = hd h.
Proof. intros. unfold set_prev. destruct (getn h e); reflexivity. Qed.
Lemma tl_set_next : forall h e x, tl (set_next h e x) = tl h.
Proof. intros. unfold set_next. destruct (getn h e); reflexivity. Qed.
Lemma tl_set_prev : forall h e x, tl (set_prev h e x) = tl h.
Proof. intros. unfold set_prev. destruct (getn h e); reflexivity. Qed.
Lemma hd_set_val : forall h e x, hd (set_val h e x) = hd h.
Proof. intros. unfold set_val. destruct (getn h e); reflexivity. Qed.
Lemma tl_set_val : forall h e x, tl (set_val h e x) = tl h.
Proof. intros. unfold set_val. destruct (getn h e); reflexivity. Qed.

(* ------------------------------------------------------------------ the representation predicate *)

Record linked (h : ht) (l : list positive) : Prop := mkLinked {
  lk_hd : hd h = head_opt l;
  lk_tl : tl h = last_of l;
  lk_nodup : NoDup l;
  lk_live : forall e, In e l -> live h e;
  lk_next : forall e, In e l -> get_next h e = next_in l e;
  lk_prev : forall e, In e l -> get_prev h e = prev_in l e }.

(* same keys and values, same set of nodes *)
Definition same_data (h h' : ht) : Prop :=
  (forall y, kv_of h' y = kv_of h y) /\ (forall y, live h' y <-> live h y).

Lemma same_data_refl : forall h, same_data h h.
Proof. intros. split; intros; tauto. Qed.
Lemma same_data_trans : forall a b c, same_data a b -> same_data b c -> same_data a c.
Proof.
  intros a b c [A1 A2] [B1 B2]. split; intros y.
  - rewrite B1. apply A1.
  - rewrite B2. apply A2.
Qed.
Lemma same_data_set_next : forall h e x, same_data h (set_next h e x).
Proof. intros. split; intros; [apply kv_of_set_next|apply live_set_next]. Qed.
Lemma same_data_set_prev : forall h e x, same_data h (set_prev h e x).
Proof. intros. split; intros; [apply kv_of_set_prev|apply live_set_prev]. Qed.
Lemma same_data_with_hd : forall h x, same_data h (with_hd h x).
Proof. intros. split; intros; tauto. Qed.
Lemma same_data_with_tl : forall h x, same_data h (with_tl h x).
Proof. intros. split; intros; tauto. Qed.

(* ------------------------------------------------------------------ InsertIterationEntry *)

Lemma last_of_app_single_split : forall (l1 : list positive) b, last_of l1 = Some b -> exists l0, l1 = l0 ++ [b].
Proof. intros. apply last_of_split. assumption. Qed.

Lemma insert_linked : forall h l1 l2 e,
  linked h (l1 ++ l2) -> ~ In e (l1 ++ l2) -> live h e ->
  let h' := insert_iter_entry h e (last_of l1) in
  linked h' (l1 ++ e :: l2) /\ same_data h h' /\ meta_eq h h'.
Proof.
  intros h l1 l2 e L Hn Le h'.
  destruct L as [Lhd Ltl Lnd Llive Lnext Lprev].
  assert (Hnd' : NoDup (l1 ++ e :: l2)) by (apply nodup_insert_mid; assumption).
  (* the value read for the new entry's next link *)
  set (h1 := set_prev h e (last_of l1)).
  assert (Hnx : (match last_of l1 with Some b => get_next h1 b | None => hd h1 end) = head_opt l2).
  { destruct (last_of l1) as [b|] eqn:EL.
    - unfold h1. rewrite get_next_set_prev.
      destruct (last_of_split _ _ _ EL) as [l0 ->].
      rewrite Lnext by (apply in_or_app; left; apply in_or_app; right; left; reflexivity).
      rewrite <- app_assoc. cbn [app]. apply next_in_mid.
      rewrite <- app_assoc in Lnd. cbn [app] in Lnd. apply nodup_split_notin in Lnd. tauto.
    - apply last_of_none in EL. subst l1. unfold h1. rewrite hd_set_prev. exact Lhd. }
  assert (Le1 : live h1 e) by (unfold h1; apply live_set_prev; exact Le).
  set (h2 := set_next h1 e (head_opt l2)).
  assert (Le2 : live h2 e) by (unfold h2; apply live_set_next; exact Le1).
  assert (Hp2 : get_prev h2 e = last_of l1).
  { unfold h2. rewrite get_prev_set_next. unfold h1. rewrite get_prev_set_prev by exact Le. rewrite Pos.eqb_refl. reflexivity. }
  set (h3 := match last_of l1 with Some p => set_next h2 p (Some e) | None => with_hd h2 (Some e) end).
  assert (Hne_last : forall p, last_of l1 = Some p -> p <> e).
  { intros p EL ->. apply Hn. apply in_or_app. left. apply last_of_in. exact EL. }
  assert (Hlive_last : forall p, last_of l1 = Some p -> live h2 p).
  { intros p EL. unfold h2, h1. apply live_set_next, live_set_prev. apply Llive. apply in_or_app. left. apply last_of_in; exact EL. }
  assert (Hn3 : get_next h3 e = head_opt l2).
  { unfold h3. destruct (last_of l1) as [p|] eqn:EL.
    - rewrite get_next_set_next by (apply Hlive_last; reflexivity).
      assert (Pos.eqb e p = false) as -> by (apply Pos.eqb_neq; intro; subst; eapply Hne_last; eauto).
      unfold h2. rewrite get_next_set_next by exact Le1. rewrite Pos.eqb_refl. reflexivity.
    - unfold with_hd, get_next, getn. cbn. fold (getn h2 e). fold (get_next h2 e).
      unfold h2. rewrite get_next_set_next by exact Le1. rewrite Pos.eqb_refl. reflexivity. }
  assert (Hh' : h' = match head_opt l2 with Some n => set_prev h3 n (Some e) | None => with_tl h3 (Some e) end).
  { unfold h', insert_iter_entry. fold h1. rewrite Hnx. fold h2. rewrite Hp2. fold h3. rewrite Hn3. reflexivity. }
  assert (Hne_head : forall n, head_opt l2 = Some n -> n <> e).
  { intros n EH ->. apply Hn. apply in_or_app. right. apply head_opt_in. exact EH. }
  assert (SD3 : same_data h h3 /\ meta_eq h h3).
  { assert (S2 : same_data h h2 /\ meta_eq h h2).
    { split.
      - eapply same_data_trans; [apply same_data_set_prev|apply same_data_set_next].
      - eapply meta_eq_trans; [apply meta_set_prev|apply meta_set_next]. }
    destruct S2 as [S2 M2]. unfold h3. destruct (last_of l1).
    - split; [eapply same_data_trans; [exact S2|apply same_data_set_next]|eapply meta_eq_trans; [exact M2|apply meta_set_next]].
    - split; [eapply same_data_trans; [exact S2|apply same_data_with_hd]|eapply meta_eq_trans; [exact M2|apply meta_with_hd]]. }
  destruct SD3 as [S3 M3].
  assert (SD' : same_data h h' /\ meta_eq h h').
  { rewrite Hh'. destruct (head_opt l2).
    - split; [eapply same_data_trans; [exact S3|apply same_data_set_prev]|eapply meta_eq_trans; [exact M3|apply meta_set_prev]].
    - split; [eapply same_data_trans; [exact S3|apply same_data_with_tl]|eapply meta_eq_trans; [exact M3|apply meta_with_tl]]. }
  destruct SD' as [S' M'].
  split; [|split; assumption].
  (* accessors of the final table *)
  assert (Hlive' : forall y, In y (l1 ++ e :: l2) -> live h' y).
  { intros y Hy. apply S'. apply in_app_or in Hy. destruct Hy as [Hy|[->|Hy]]; [|exact Le|];
      apply Llive; apply in_or_app; auto. }
  assert (Hlive3 : forall n, head_opt l2 = Some n -> live h3 n).
  { intros n EH. apply S3. apply Llive. apply in_or_app. right. apply head_opt_in; exact EH. }
  assert (Hnext' : forall y, get_next h' y = if Pos.eqb y e then head_opt l2
                              else if opt_pos_eqb (Some y) (last_of l1) then Some e else get_next h y).
  { intros y. assert (E3 : get_next h' y = get_next h3 y).
    { rewrite Hh'. destruct (head_opt l2); [apply get_next_set_prev|reflexivity]. }
    rewrite E3. unfold h3. destruct (last_of l1) as [p|] eqn:EL.
    - rewrite get_next_set_next by (apply Hlive_last; reflexivity).
      destruct (Pos.eqb y p) eqn:Eyp.
      + apply Pos.eqb_eq in Eyp. subst y.
        assert (Pos.eqb p e = false) as -> by (apply Pos.eqb_neq; eapply Hne_last; eauto).
        cbn. rewrite Pos.eqb_refl. reflexivity.
      + unfold h2. rewrite get_next_set_next by exact Le1. destruct (Pos.eqb y e); [reflexivity|].
        cbn. rewrite Eyp. unfold h1. apply get_next_set_prev.
    - assert (E2 : get_next (with_hd h2 (Some e)) y = get_next h2 y) by reflexivity.
      rewrite E2. unfold h2. rewrite get_next_set_next by exact Le1. destruct (Pos.eqb y e); [reflexivity|].
      cbn. unfold h1. apply get_next_set_prev. }
  assert (Hprev' : forall y, get_prev h' y = if Pos.eqb y e then last_of l1
                              else if opt_pos_eqb (Some y) (head_opt l2) then Some e else get_prev h y).
  { intros y.
    assert (E3 : get_prev h3 y = if Pos.eqb y e then last_of l1 else get_prev h y).
    { assert (E32 : get_prev h3 y = get_prev h2 y).
      { unfold h3. destruct (last_of l1); [apply get_prev_set_next|reflexivity]. }
      rewrite E32. unfold h2. rewrite get_prev_set_next. unfold h1. apply get_prev_set_prev. exact Le. }
    rewrite Hh'. destruct (head_opt l2) as [n|] eqn:EH.
    - rewrite get_prev_set_prev by (apply Hlive3; reflexivity).
      destruct (Pos.eqb y n) eqn:Eyn.
      + apply Pos.eqb_eq in Eyn. subst y.
        assert (Pos.eqb n e = false) as -> by (apply Pos.eqb_neq; eapply Hne_head; eauto).
        cbn. rewrite Pos.eqb_refl. reflexivity.
      + rewrite E3. destruct (Pos.eqb y e); [reflexivity|]. cbn. rewrite Eyn. reflexivity.
    - assert (E4 : get_prev (with_tl h3 (Some e)) y = get_prev h3 y) by reflexivity.
      rewrite E4, E3. destruct (Pos.eqb y e); reflexivity. }
  constructor.
  - (* head *)
    rewrite Hh'.
    assert (E : hd (match head_opt l2 with Some n => set_prev h3 n (Some e) | None => with_tl h3 (Some e) end) = hd h3).
    { destruct (head_opt l2); [apply hd_set_prev|reflexivity]. }
    rewrite E. unfold h3. destruct (last_of l1) as [p|] eqn:EL.
    + rewrite hd_set_next. unfold h2. rewrite hd_set_next. unfold h1. rewrite hd_set_prev. rewrite Lhd.
      destruct l1; [discriminate|reflexivity].
    + apply last_of_none in EL. subst l1. reflexivity.
  - (* tail *)
    rewrite last_of_app_cons. rewrite Hh'. destruct l2 as [|n l2'].
    + cbn [head_opt]. reflexivity.
    + cbn [head_opt]. rewrite tl_set_prev.
      assert (E : tl h3 = tl h).
      { unfold h3. destruct (last_of l1); [rewrite tl_set_next|cbn [tl with_hd]];
          unfold h2; rewrite tl_set_next; unfold h1; apply tl_set_prev. }
      rewrite E, Ltl. rewrite last_of_app_cons. rewrite last_of_cons_cons. reflexivity.
  - exact Hnd'.
  - exact Hlive'.
  - intros y Hy. rewrite Hnext', next_in_insert by exact Hnd'.
    destruct (Pos.eqb y e) eqn:Eye; [reflexivity|].
    destruct (opt_pos_eqb (Some y) (last_of l1)); [reflexivity|].
    apply Lnext. apply Pos.eqb_neq in Eye. apply in_app_or in Hy. apply in_or_app.
    destruct Hy as [Hy|[Hy|Hy]]; [left; exact Hy|congruence|right; exact Hy].
  - intros y Hy. rewrite Hprev', prev_in_insert by exact Hnd'.
    destruct (Pos.eqb y e) eqn:Eye; [reflexivity|].
    destruct (opt_pos_eqb (Some y) (head_opt l2)); [reflexivity|].
    apply Lprev. apply Pos.eqb_neq in Eye. apply in_app_or in Hy. apply in_or_app.
    destruct Hy as [Hy|[Hy|Hy]]; [left; exact Hy|congruence|right; exact Hy].
Qed.
