(* C09 -- the representation predicate: "the links of table h form the doubly linked list l",
   and the correctness of the two list primitives InsertIterationEntry / RemoveIterationEntry
   (pointer surgery) with respect to list insertion / removal. *)
From Coq Require Import List Arith ZArith NArith PArith Bool Lia FMapPositive.
From Muscle Require Import Cont.HtModel Cont.HtLemmas.
Import ListNotations.

Definition live (h : ht) (e : positive) : Prop := getn h e <> None.

(* ------------------------------------------------------------------ field writes *)

Lemma live_dec : forall h e, {live h e} + {getn h e = None}.
Proof. intros. unfold live. destruct (getn h e); [left; discriminate|right; reflexivity]. Qed.

Lemma get_next_set_next : forall h e x y, live h e ->
  get_next (set_next h e x) y = if Pos.eqb y e then x else get_next h y.
Proof.
  intros h e x y L. unfold set_next, live in *. destruct (getn h e) as [n|] eqn:E; [|congruence].
  unfold get_next. destruct (Pos.eqb y e) eqn:Ey.
  - apply Pos.eqb_eq in Ey; subst. rewrite getn_setn_same. reflexivity.
  - apply Pos.eqb_neq in Ey. rewrite getn_setn_other by assumption. reflexivity.
Qed.

Lemma get_prev_set_next : forall h e x y, get_prev (set_next h e x) y = get_prev h y.
Proof.
  intros h e x y. unfold set_next. destruct (getn h e) as [n|] eqn:E; [|reflexivity].
  unfold get_prev. destruct (Pos.eq_dec y e) as [->|Hn].
  - rewrite getn_setn_same, E. reflexivity.
  - rewrite getn_setn_other by assumption. reflexivity.
Qed.

Lemma get_prev_set_prev : forall h e x y, live h e ->
  get_prev (set_prev h e x) y = if Pos.eqb y e then x else get_prev h y.
Proof.
  intros h e x y L. unfold set_prev, live in *. destruct (getn h e) as [n|] eqn:E; [|congruence].
  unfold get_prev. destruct (Pos.eqb y e) eqn:Ey.
  - apply Pos.eqb_eq in Ey; subst. rewrite getn_setn_same. reflexivity.
  - apply Pos.eqb_neq in Ey. rewrite getn_setn_other by assumption. reflexivity.
Qed.

Lemma get_next_set_prev : forall h e x y, get_next (set_prev h e x) y = get_next h y.
Proof.
  intros h e x y. unfold set_prev. destruct (getn h e) as [n|] eqn:E; [|reflexivity].
  unfold get_next. destruct (Pos.eq_dec y e) as [->|Hn].
  - rewrite getn_setn_same, E. reflexivity.
  - rewrite getn_setn_other by assumption. reflexivity.
Qed.

Lemma kv_of_set_next : forall h e x y, kv_of (set_next h e x) y = kv_of h y.
Proof.
  intros h e x y. unfold set_next. destruct (getn h e) as [n|] eqn:E; [|reflexivity].
  unfold kv_of. destruct (Pos.eq_dec y e) as [->|Hn].
  - rewrite getn_setn_same, E. reflexivity.
  - rewrite getn_setn_other by assumption. reflexivity.
Qed.

Lemma kv_of_set_prev : forall h e x y, kv_of (set_prev h e x) y = kv_of h y.
Proof.
  intros h e x y. unfold set_prev. destruct (getn h e) as [n|] eqn:E; [|reflexivity].
  unfold kv_of. destruct (Pos.eq_dec y e) as [->|Hn].
  - rewrite getn_setn_same, E. reflexivity.
  - rewrite getn_setn_other by assumption. reflexivity.
Qed.

Lemma live_set_next : forall h e x y, live (set_next h e x) y <-> live h y.
Proof.
  intros h e x y. unfold set_next, live. destruct (getn h e) as [n|] eqn:E; [|tauto].
  destruct (Pos.eq_dec y e) as [->|Hn].
  - rewrite getn_setn_same, E. split; discriminate.
  - rewrite getn_setn_other by assumption. tauto.
Qed.

Lemma live_set_prev : forall h e x y, live (set_prev h e x) y <-> live h y.
Proof.
  intros h e x y. unfold set_prev, live. destruct (getn h e) as [n|] eqn:E; [|tauto].
  destruct (Pos.eq_dec y e) as [->|Hn].
  - rewrite getn_setn_same, E. split; discriminate.
  - rewrite getn_setn_other by assumption. tauto.
Qed.

Lemma live_set_val : forall h e v y, live (set_val h e v) y <-> live h y.
Proof.
  intros h e v y. unfold set_val, live. destruct (getn h e) as [n|] eqn:E; [|tauto].
  destruct (Pos.eq_dec y e) as [->|Hn].
  - rewrite getn_setn_same, E. split; discriminate.
  - rewrite getn_setn_other by assumption. tauto.
Qed.

Lemma get_next_set_val : forall h e v y, get_next (set_val h e v) y = get_next h y.
Proof.
  intros h e v y. unfold set_val. destruct (getn h e) as [n|] eqn:E; [|reflexivity].
  unfold get_next. destruct (Pos.eq_dec y e) as [->|Hn].
  - rewrite getn_setn_same, E. reflexivity.
  - rewrite getn_setn_other by assumption. reflexivity.
Qed.

Lemma get_prev_set_val : forall h e v y, get_prev (set_val h e v) y = get_prev h y.
Proof.
  intros h e v y. unfold set_val. destruct (getn h e) as [n|] eqn:E; [|reflexivity].
  unfold get_prev. destruct (Pos.eq_dec y e) as [->|Hn].
  - rewrite getn_setn_same, E. reflexivity.
  - rewrite getn_setn_other by assumption. reflexivity.
Qed.

Lemma kv_of_set_val : forall h e v y,
  kv_of (set_val h e v) y = if Pos.eqb y e then (match kv_of h e with Some kv => Some (fst kv, v) | None => None end) else kv_of h y.
Proof.
  intros h e v y. unfold set_val. destruct (getn h e) as [n|] eqn:E.
  - unfold kv_of. destruct (Pos.eqb y e) eqn:Ey.
    + apply Pos.eqb_eq in Ey; subst. rewrite getn_setn_same, E. reflexivity.
    + apply Pos.eqb_neq in Ey. rewrite getn_setn_other by assumption. reflexivity.
  - destruct (Pos.eqb y e) eqn:Ey; [|reflexivity].
    apply Pos.eqb_eq in Ey; subst. unfold kv_of. rewrite E. reflexivity.
Qed.

(* the parts of a table that pointer writes never touch *)
Definition meta_eq (h h' : ht) : Prop :=
  cnt h' = cnt h /\ cap h' = cap h /\ fresh h' = fresh h /\ asort h' = asort h /\ ilist h' = ilist h.

Lemma meta_eq_refl : forall h, meta_eq h h.
Proof. intros. repeat split. Qed.
Lemma meta_eq_trans : forall a b c, meta_eq a b -> meta_eq b c -> meta_eq a c.
Proof. unfold meta_eq. intros a b c (A1&A2&A3&A4&A5) (B1&B2&B3&B4&B5). repeat split; congruence. Qed.

Lemma meta_set_next : forall h e x, meta_eq h (set_next h e x).
Proof. intros. unfold set_next. destruct (getn h e); repeat split. Qed.
Lemma meta_set_prev : forall h e x, meta_eq h (set_prev h e x).
Proof. intros. unfold set_prev. destruct (getn h e); repeat split. Qed.
Lemma meta_set_val : forall h e x, meta_eq h (set_val h e x).
Proof. intros. unfold set_val. destruct (getn h e); repeat split. Qed.
Lemma meta_with_hd : forall h x, meta_eq h (with_hd h x). Proof. intros. repeat split. Qed.
Lemma meta_with_tl : forall h x, meta_eq h (with_tl h x). Proof. intros. repeat split. Qed.

Lemma hd_set_next : forall h e x, hd (set_next h e x) = hd h.
Proof. intros. unfold set_next. destruct (getn h e); reflexivity. Qed.
Lemma hd_set_prev : forall h e x, hd (set_prev h e x) = hd h.
Proof. intros. unfold set_prev. destruct (getn h e); reflexivity. Qed.
Lemma tl_set_next : forall h e x, tl (set_next h e x) = tl h.
Proof. intros. unfold set_next. destruct (getn h e); reflexivity. Qed.
Lemma tl_set_prev : forall h e x, tl (set_prev h e x) = tl h.
Proof. intros. unfold set_prev. destruct (getn h e); reflexivity. Qed.
Lemma hd_set_val : forall h e x, hd (set_val h e x) = hd h.
Proof. intros. unfold set_val. destruct (getn h e); reflexivity. Qed.
Lemma tl_set_val : forall h e x, tl (set_val h e x) = tl h.
Proof. intros. unfold set_val. destruct (getn h e); reflexivity. Qed.

(* ------------------------------------------------------------------ the representation predicate *)

Record linked (h : ht) (l : list positive) : Prop := mkLinked {
  lk_hd : hd h = head_opt l;
  lk_tl : tl h = last_of l;
  lk_nodup : NoDup l;
  lk_live : forall e, In e l -> live h e;
  lk_next : forall e, In e l -> get_next h e = next_in l e;
  lk_prev : forall e, In e l -> get_prev h e = prev_in l e }.

(* same keys and values, same set of nodes *)
Definition same_data (h h' : ht) : Prop :=
  (forall y, kv_of h' y = kv_of h y) /\ (forall y, live h' y <-> live h y).

Lemma same_data_refl : forall h, same_data h h.
Proof. intros. split; intros; tauto. Qed.
Lemma same_data_trans : forall a b c, same_data a b -> same_data b c -> same_data a c.
Proof.
  intros a b c [A1 A2] [B1 B2]. split; intros y.
  - rewrite B1. apply A1.
  - rewrite B2. apply A2.
Qed.
Lemma same_data_set_next : forall h e x, same_data h (set_next h e x).
Proof. intros. split; intros; [apply kv_of_set_next|apply live_set_next]. Qed.
Lemma same_data_set_prev : forall h e x, same_data h (set_prev h e x).
Proof. intros. split; intros; [apply kv_of_set_prev|apply live_set_prev]. Qed.
Lemma same_data_with_hd : forall h x, same_data h (with_hd h x).
Proof. intros. split; intros; tauto. Qed.
Lemma same_data_with_tl : forall h x, same_data h (with_tl h x).
Proof. intros. split; intros; tauto. Qed.

(* ------------------------------------------------------------------ InsertIterationEntry *)

Lemma last_of_app_single_split : forall (l1 : list positive) b, last_of l1 = Some b -> exists l0, l1 = l0 ++ [b].
Proof. intros. apply last_of_split. assumption. Qed.

Lemma insert_linked : forall h l1 l2 e,
  linked h (l1 ++ l2) -> ~ In e (l1 ++ l2) -> live h e ->
  let h' := insert_iter_entry h e (last_of l1) in
  linked h' (l1 ++ e :: l2) /\ same_data h h' /\ meta_eq h h'.
Proof.
  intros h l1 l2 e L Hn Le h'.
  destruct L as [Lhd Ltl Lnd Llive Lnext Lprev].
  assert (Hnd' : NoDup (l1 ++ e :: l2)) by (apply nodup_insert_mid; assumption).
  (* the value read for the new entry's next link *)
  set (h1 := set_prev h e (last_of l1)).
  assert (Hnx : (match last_of l1 with Some b => get_next h1 b | None => hd h1 end) = head_opt l2).
  { destruct (last_of l1) as [b|] eqn:EL.
    - unfold h1. rewrite get_next_set_prev.
      destruct (last_of_split _ _ _ EL) as [l0 ->].
      rewrite Lnext by (apply in_or_app; left; apply in_or_app; right; left; reflexivity).
      rewrite <- app_assoc. cbn [app]. apply next_in_mid.
      rewrite <- app_assoc in Lnd. cbn [app] in Lnd. apply nodup_split_notin in Lnd. tauto.
    - apply last_of_none in EL. subst l1. unfold h1. rewrite hd_set_prev. exact Lhd. }
  assert (Le1 : live h1 e) by (unfold h1; apply live_set_prev; exact Le).
  set (h2 := set_next h1 e (head_opt l2)).
  assert (Le2 : live h2 e) by (unfold h2; apply live_set_next; exact Le1).
  assert (Hp2 : get_prev h2 e = last_of l1).
  { unfold h2. rewrite get_prev_set_next. unfold h1. rewrite get_prev_set_prev by exact Le. rewrite Pos.eqb_refl. reflexivity. }
  set (h3 := match last_of l1 with Some p => set_next h2 p (Some e) | None => with_hd h2 (Some e) end).
  assert (Hne_last : forall p, last_of l1 = Some p -> p <> e).
  { intros p EL ->. apply Hn. apply in_or_app. left. apply last_of_in. exact EL. }
  assert (Hlive_last : forall p, last_of l1 = Some p -> live h2 p).
  { intros p EL. unfold h2, h1. apply live_set_next, live_set_prev. apply Llive. apply in_or_app. left. apply last_of_in; exact EL. }
  assert (Hn3 : get_next h3 e = head_opt l2).
  { unfold h3. destruct (last_of l1) as [p|] eqn:EL.
    - rewrite get_next_set_next by (apply Hlive_last; reflexivity).
      assert (Pos.eqb e p = false) as -> by (apply Pos.eqb_neq; intro; subst; eapply Hne_last; eauto).
      unfold h2. rewrite get_next_set_next by exact Le1. rewrite Pos.eqb_refl. reflexivity.
    - unfold with_hd, get_next, getn. cbn. fold (getn h2 e). fold (get_next h2 e).
      unfold h2. rewrite get_next_set_next by exact Le1. rewrite Pos.eqb_refl. reflexivity. }
  assert (Hh' : h' = match head_opt l2 with Some n => set_prev h3 n (Some e) | None => with_tl h3 (Some e) end).
  { unfold h', insert_iter_entry. fold h1. rewrite Hnx. fold h2. rewrite Hp2. fold h3. rewrite Hn3. reflexivity. }
  assert (Hne_head : forall n, head_opt l2 = Some n -> n <> e).
  { intros n EH ->. apply Hn. apply in_or_app. right. apply head_opt_in. exact EH. }
  assert (SD3 : same_data h h3 /\ meta_eq h h3).
  { assert (S2 : same_data h h2 /\ meta_eq h h2).
    { split.
      - eapply same_data_trans; [apply same_data_set_prev|apply same_data_set_next].
      - eapply meta_eq_trans; [apply meta_set_prev|apply meta_set_next]. }
    destruct S2 as [S2 M2]. unfold h3. destruct (last_of l1).
    - split; [eapply same_data_trans; [exact S2|apply same_data_set_next]|eapply meta_eq_trans; [exact M2|apply meta_set_next]].
    - split; [eapply same_data_trans; [exact S2|apply same_data_with_hd]|eapply meta_eq_trans; [exact M2|apply meta_with_hd]]. }
  destruct SD3 as [S3 M3].
  assert (SD' : same_data h h' /\ meta_eq h h').
  { rewrite Hh'. destruct (head_opt l2).
    - split; [eapply same_data_trans; [exact S3|apply same_data_set_prev]|eapply meta_eq_trans; [exact M3|apply meta_set_prev]].
    - split; [eapply same_data_trans; [exact S3|apply same_data_with_tl]|eapply meta_eq_trans; [exact M3|apply meta_with_tl]]. }
  destruct SD' as [S' M'].
  split; [|split; assumption].
  (* accessors of the final table *)
  assert (Hlive' : forall y, In y (l1 ++ e :: l2) -> live h' y).
  { intros y Hy. apply S'. apply in_app_or in Hy. destruct Hy as [Hy|[->|Hy]]; [|exact Le|];
      apply Llive; apply in_or_app; auto. }
  assert (Hlive3 : forall n, head_opt l2 = Some n -> live h3 n).
  { intros n EH. apply S3. apply Llive. apply in_or_app. right. apply head_opt_in; exact EH. }
  assert (Hnext' : forall y, get_next h' y = if Pos.eqb y e then head_opt l2
                              else if opt_pos_eqb (Some y) (last_of l1) then Some e else get_next h y).
  { intros y. assert (E3 : get_next h' y = get_next h3 y).
    { rewrite Hh'. destruct (head_opt l2); [apply get_next_set_prev|reflexivity]. }
    rewrite E3. unfold h3. destruct (last_of l1) as [p|] eqn:EL.
    - rewrite get_next_set_next by (apply Hlive_last; reflexivity).
      destruct (Pos.eqb y p) eqn:Eyp.
      + apply Pos.eqb_eq in Eyp. subst y.
        assert (Pos.eqb p e = false) as -> by (apply Pos.eqb_neq; eapply Hne_last; eauto).
        cbn. rewrite Pos.eqb_refl. reflexivity.
      + unfold h2. rewrite get_next_set_next by exact Le1. destruct (Pos.eqb y e); [reflexivity|].
        cbn. rewrite Eyp. unfold h1. apply get_next_set_prev.
    - assert (E2 : get_next (with_hd h2 (Some e)) y = get_next h2 y) by reflexivity.
      rewrite E2. unfold h2. rewrite get_next_set_next by exact Le1. destruct (Pos.eqb y e); [reflexivity|].
      cbn. unfold h1. apply get_next_set_prev. }
  assert (Hprev' : forall y, get_prev h' y = if Pos.eqb y e then last_of l1
                              else if opt_pos_eqb (Some y) (head_opt l2) then Some e else get_prev h y).
  { intros y.
    assert (E3 : get_prev h3 y = if Pos.eqb y e then last_of l1 else get_prev h y).
    { assert (E32 : get_prev h3 y = get_prev h2 y).
      { unfold h3. destruct (last_of l1); [apply get_prev_set_next|reflexivity]. }
      rewrite E32. unfold h2. rewrite get_prev_set_next. unfold h1. apply get_prev_set_prev. exact Le. }
    rewrite Hh'. destruct (head_opt l2) as [n|] eqn:EH.
    - rewrite get_prev_set_prev by (apply Hlive3; reflexivity).
      destruct (Pos.eqb y n) eqn:Eyn.
      + apply Pos.eqb_eq in Eyn. subst y.
        assert (Pos.eqb n e = false) as -> by (apply Pos.eqb_neq; eapply Hne_head; eauto).
        cbn. rewrite Pos.eqb_refl. reflexivity.
      + rewrite E3. destruct (Pos.eqb y e); [reflexivity|]. cbn. rewrite Eyn. reflexivity.
    - assert (E4 : get_prev (with_tl h3 (Some e)) y = get_prev h3 y) by reflexivity.
      rewrite E4, E3. destruct (Pos.eqb y e); reflexivity. }
  constructor.
  - (* head *)
    rewrite Hh'.
    assert (E : hd (match head_opt l2 with Some n => set_prev h3 n (Some e) | None => with_tl h3 (Some e) end) = hd h3).
    { destruct (head_opt l2); [apply hd_set_prev|reflexivity]. }
    rewrite E. unfold h3. destruct (last_of l1) as [p|] eqn:EL.
    + rewrite hd_set_next. unfold h2. rewrite hd_set_next. unfold h1. rewrite hd_set_prev. rewrite Lhd.
      destruct l1; [discriminate|reflexivity].
    + apply last_of_none in EL. subst l1. reflexivity.
  - (* tail *)
    rewrite last_of_app_cons. rewrite Hh'. destruct l2 as [|n l2'].
    + cbn [head_opt]. reflexivity.
    + cbn [head_opt]. rewrite tl_set_prev.
      assert (E : tl h3 = tl h).
      { unfold h3. destruct (last_of l1); [rewrite tl_set_next|cbn [tl with_hd]];
          unfold h2; rewrite tl_set_next; unfold h1; apply tl_set_prev. }
      rewrite E, Ltl. rewrite last_of_app_cons. rewrite last_of_cons_cons. reflexivity.
  - exact Hnd'.
  - exact Hlive'.
  - intros y Hy. rewrite Hnext', next_in_insert by exact Hnd'.
    destruct (Pos.eqb y e) eqn:Eye; [reflexivity|].
    destruct (opt_pos_eqb (Some y) (last_of l1)); [reflexivity|].
    apply Lnext. apply Pos.eqb_neq in Eye. apply in_app_or in Hy. apply in_or_app.
    destruct Hy as [Hy|[Hy|Hy]]; [left; exact Hy|congruence|right; exact Hy].
  - intros y Hy. rewrite Hprev', prev_in_insert by exact Hnd'.
    destruct (Pos.eqb y e) eqn:Eye; [reflexivity|].
    destruct (opt_pos_eqb (Some y) (head_opt l2)); [reflexivity|].
    apply Lprev. apply Pos.eqb_neq in Eye. apply in_app_or in Hy. apply in_or_app.
    destruct Hy as [Hy|[Hy|Hy]]; [left; exact Hy|congruence|right; exact Hy].
Qed.

(* ------------------------------------------------------------------ RemoveIterationEntry (links) *)

Lemma unlink_linked : forall h l1 l2 e,
  linked h (l1 ++ e :: l2) ->
  let h' := unlink h e in
  linked h' (l1 ++ l2) /\ same_data h h' /\ meta_eq h h' /\ get_prev h' e = None /\ get_next h' e = None.
Proof.
  intros h l1 l2 e L h'.
  destruct L as [Lhd Ltl Lnd Llive Lnext Lprev].
  destruct (nodup_split_notin _ _ _ Lnd) as [Hn1 Hn2].
  assert (Hin : In e (l1 ++ e :: l2)) by (apply in_or_app; right; left; reflexivity).
  assert (Le : live h e) by (apply Llive; exact Hin).
  assert (Hp : get_prev h e = last_of l1) by (rewrite Lprev by exact Hin; apply prev_in_mid; exact Hn1).
  assert (Hx : get_next h e = head_opt l2) by (rewrite Lnext by exact Hin; apply next_in_mid; exact Hn1).
  set (h1 := if opt_pos_eqb (hd h) (Some e) then with_hd h (head_opt l2) else h).
  set (h2 := if opt_pos_eqb (tl h1) (Some e) then with_tl h1 (last_of l1) else h1).
  set (h3 := match last_of l1 with Some pp => set_next h2 pp (head_opt l2) | None => h2 end).
  set (h4 := match head_opt l2 with Some nn => set_prev h3 nn (last_of l1) | None => h3 end).
  assert (Hh' : h' = set_next (set_prev h4 e None) e None).
  { unfold h', unlink. rewrite Hp, Hx. reflexivity. }
  assert (S1 : same_data h h1 /\ meta_eq h h1 /\ (forall y, get_next h1 y = get_next h y) /\ (forall y, get_prev h1 y = get_prev h y) /\ tl h1 = tl h).
  { unfold h1. destruct (opt_pos_eqb (hd h) (Some e)); repeat split; intros; tauto. }
  destruct S1 as (S1 & M1 & N1 & P1 & T1).
  assert (S2 : same_data h h2 /\ meta_eq h h2 /\ (forall y, get_next h2 y = get_next h y) /\ (forall y, get_prev h2 y = get_prev h y) /\ hd h2 = hd h1).
  { unfold h2. destruct (opt_pos_eqb (tl h1) (Some e)).
    - repeat split; try (intros; tauto); try apply S1; try apply M1; intros; [apply N1|apply P1].
    - repeat split; try apply S1; try apply M1; assumption. }
  destruct S2 as (S2 & M2 & N2 & P2 & H2).
  assert (Hlast_ne : forall p, last_of l1 = Some p -> p <> e) by (intros p EL ->; apply Hn1; apply last_of_in; exact EL).
  assert (Hhead_ne : forall n, head_opt l2 = Some n -> n <> e) by (intros n EH ->; apply Hn2; apply head_opt_in; exact EH).
  assert (Hlast_live : forall p, last_of l1 = Some p -> live h p).
  { intros p EL. apply Llive. apply in_or_app. left. apply last_of_in; exact EL. }
  assert (Hhead_live : forall n, head_opt l2 = Some n -> live h n).
  { intros n EH. apply Llive. apply in_or_app. right. right. apply head_opt_in; exact EH. }
  assert (S3 : same_data h h3 /\ meta_eq h h3).
  { unfold h3. destruct (last_of l1).
    - split; [eapply same_data_trans; [exact S2|apply same_data_set_next]|eapply meta_eq_trans; [exact M2|apply meta_set_next]].
    - split; assumption. }
  destruct S3 as [S3 M3].
  assert (S4 : same_data h h4 /\ meta_eq h h4).
  { unfold h4. destruct (head_opt l2).
    - split; [eapply same_data_trans; [exact S3|apply same_data_set_prev]|eapply meta_eq_trans; [exact M3|apply meta_set_prev]].
    - split; assumption. }
  destruct S4 as [S4 M4].
  assert (S' : same_data h h' /\ meta_eq h h').
  { rewrite Hh'. split.
    - eapply same_data_trans; [exact S4|]. eapply same_data_trans; [apply same_data_set_prev|apply same_data_set_next].
    - eapply meta_eq_trans; [exact M4|]. eapply meta_eq_trans; [apply meta_set_prev|apply meta_set_next]. }
  destruct S' as [S' M'].
  assert (Le4 : live h4 e) by (apply S4; exact Le).
  assert (Le5 : live (set_prev h4 e None) e) by (apply live_set_prev; exact Le4).
  assert (N3 : forall y, get_next h3 y = if opt_pos_eqb (Some y) (last_of l1) then head_opt l2 else get_next h y).
  { intros y. unfold h3. destruct (last_of l1) as [p|] eqn:EL.
    - rewrite get_next_set_next by (apply S2; apply Hlast_live; reflexivity). cbn.
      destruct (Pos.eqb y p); [reflexivity|apply N2].
    - cbn. apply N2. }
  assert (P3 : forall y, get_prev h3 y = get_prev h y).
  { intros y. unfold h3. destruct (last_of l1); [rewrite get_prev_set_next|]; apply P2. }
  assert (N4 : forall y, get_next h4 y = get_next h3 y).
  { intros y. unfold h4. destruct (head_opt l2); [apply get_next_set_prev|reflexivity]. }
  assert (P4 : forall y, get_prev h4 y = if opt_pos_eqb (Some y) (head_opt l2) then last_of l1 else get_prev h y).
  { intros y. unfold h4. destruct (head_opt l2) as [n|] eqn:EH.
    - rewrite get_prev_set_prev by (apply S3; apply Hhead_live; reflexivity). cbn.
      destruct (Pos.eqb y n); [reflexivity|apply P3].
    - cbn. apply P3. }
  assert (N' : forall y, get_next h' y = if Pos.eqb y e then None else get_next h4 y).
  { intros y. rewrite Hh'. rewrite get_next_set_next by exact Le5. destruct (Pos.eqb y e); [reflexivity|apply get_next_set_prev]. }
  assert (P' : forall y, get_prev h' y = if Pos.eqb y e then None else get_prev h4 y).
  { intros y. rewrite Hh'. rewrite get_prev_set_next. apply get_prev_set_prev. exact Le4. }
  split; [|split; [exact S'|split; [exact M'|split]]].
  - assert (Hnd' : NoDup (l1 ++ l2)) by (eapply nodup_remove_mid; eassumption).
    constructor.
    + (* head *)
      assert (E : hd h' = hd h2).
      { rewrite Hh'. rewrite hd_set_next, hd_set_prev. unfold h4. destruct (head_opt l2); [rewrite hd_set_prev|];
          unfold h3; destruct (last_of l1); try rewrite hd_set_next; reflexivity. }
      rewrite E, H2. unfold h1. rewrite Lhd. destruct l1 as [|x l1'].
      * cbn [app head_opt]. rewrite opt_pos_eqb_refl. reflexivity.
      * cbn [app head_opt].
        assert (opt_pos_eqb (Some x) (Some e) = false) as ->.
        { apply opt_pos_eqb_false. intro H; inversion H; subst. apply Hn1. left; reflexivity. }
        exact Lhd.
    + (* tail *)
      assert (E : tl h' = tl h2).
      { rewrite Hh'. rewrite tl_set_next, tl_set_prev. unfold h4. destruct (head_opt l2); [rewrite tl_set_prev|];
          unfold h3; destruct (last_of l1); try rewrite tl_set_next; reflexivity. }
      rewrite E. unfold h2. rewrite T1, Ltl, last_of_app_cons. destruct l2 as [|x l2'].
      * rewrite last_of_single, opt_pos_eqb_refl. rewrite app_nil_r. reflexivity.
      * rewrite last_of_cons_cons.
        assert (opt_pos_eqb (last_of (x :: l2')) (Some e) = false) as ->.
        { apply opt_pos_eqb_false. intro H. apply last_of_in in H. apply Hn2. exact H. }
        rewrite T1, Ltl, last_of_app_cons, last_of_cons_cons. rewrite last_of_app_cons. reflexivity.
    + exact Hnd'.
    + intros y Hy. apply S'. apply Llive. apply in_app_or in Hy. apply in_or_app. destruct Hy; [left|right; right]; assumption.
    + intros y Hy.
      assert (Hye : y <> e) by (intro; subst; apply in_app_or in Hy; tauto).
      assert (Hy' : In y (l1 ++ e :: l2)) by (apply in_app_or in Hy; apply in_or_app; destruct Hy; [left|right; right]; assumption).
      rewrite N'. apply Pos.eqb_neq in Hye as ->. rewrite N4, N3.
      destruct (opt_pos_eqb (Some y) (last_of l1)) eqn:EL.
      * apply opt_pos_eqb_true in EL. symmetry in EL. destruct (last_of_split _ _ _ EL) as [l0 ->].
        rewrite <- app_assoc. cbn [app]. symmetry. apply next_in_mid.
        intro Hin0. rewrite <- app_assoc in Hnd'. cbn [app] in Hnd'. apply nodup_split_notin in Hnd'. tauto.
      * rewrite Lnext by exact Hy'. rewrite next_in_insert by exact Lnd.
        assert (Pos.eqb y e = false) as -> by (apply Pos.eqb_neq; intro; subst; apply in_app_or in Hy; tauto).
        rewrite EL. reflexivity.
    + intros y Hy.
      assert (Hye : y <> e) by (intro; subst; apply in_app_or in Hy; tauto).
      assert (Hy' : In y (l1 ++ e :: l2)) by (apply in_app_or in Hy; apply in_or_app; destruct Hy; [left|right; right]; assumption).
      rewrite P'. apply Pos.eqb_neq in Hye as E1. rewrite E1, P4.
      destruct (opt_pos_eqb (Some y) (head_opt l2)) eqn:EH.
      * apply opt_pos_eqb_true in EH. destruct l2 as [|x l2']; [discriminate|]. inversion EH; subst x.
        symmetry. apply prev_in_mid. intro Hin1. apply nodup_split_notin in Hnd'. tauto.
      * rewrite Lprev by exact Hy'. rewrite prev_in_insert by exact Lnd. rewrite E1, EH. reflexivity.
  - rewrite P', Pos.eqb_refl. reflexivity.
  - rewrite N', Pos.eqb_refl. reflexivity.
Qed.
