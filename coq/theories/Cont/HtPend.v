(* C09 -- traversal theory, list level: the entries an iterator still has to visit ("pending") and
   how removing its current entry (with the cookie fix-up) and inserting new entries affect them. *)
From Coq Require Import List Arith ZArith NArith PArith Bool Lia FMapPositive Permutation.
From Muscle Require Import Cont.HtModel Cont.HtLemmas.
Import ListNotations.

Fixpoint after (l : list positive) (c : positive) : list positive :=
  match l with [] => [] | x :: r => if Pos.eqb x c then r else after r c end.
Fixpoint before (l : list positive) (c : positive) : list positive :=
  match l with [] => [] | x :: r => if Pos.eqb x c then [] else x :: before r c end.

Definition rest_of (bw : bool) (l : list positive) (c : positive) : list positive :=
  if bw then before l c else after l c.

(* what the iterator will still show: its cookie entry if it currently shows a scratch copy, and
   everything beyond the cookie in its direction *)
Definition pend (l : list positive) (it : iter) : list positive :=
  match icookie it with
  | None => []
  | Some c => (match iscr it with Some _ => [c] | None => [] end) ++ rest_of (ibw it) l c
  end.

Lemma after_mid : forall l1 c l2, ~ In c l1 -> after (l1 ++ c :: l2) c = l2.
Proof.
  induction l1 as [|x l1 IH]; intros c l2 Hn; cbn.
  - rewrite Pos.eqb_refl. reflexivity.
  - destruct (Pos.eqb x c) eqn:E; [apply Pos.eqb_eq in E; subst; exfalso; apply Hn; left; reflexivity|].
    apply IH. intro H. apply Hn. right; exact H.
Qed.

Lemma before_mid : forall l1 c l2, ~ In c l1 -> before (l1 ++ c :: l2) c = l1.
Proof.
  induction l1 as [|x l1 IH]; intros c l2 Hn; cbn.
  - rewrite Pos.eqb_refl. reflexivity.
  - destruct (Pos.eqb x c) eqn:E; [apply Pos.eqb_eq in E; subst; exfalso; apply Hn; left; reflexivity|].
    f_equal. apply IH. intro H. apply Hn. right; exact H.
Qed.

Lemma after_incl : forall l c n, In n (after l c) -> In n l.
Proof.
  induction l as [|x l IH]; intros c n H; [destruct H|]. cbn in H. destruct (Pos.eqb x c); [right; exact H|right; eapply IH; exact H].
Qed.

Lemma before_incl : forall l c n, In n (before l c) -> In n l.
Proof.
  induction l as [|x l IH]; intros c n H; [destruct H|]. cbn in H. destruct (Pos.eqb x c); [destruct H|].
  destruct H as [<-|H]; [left; reflexivity|right; eapply IH; exact H].
Qed.

Lemma rest_of_incl : forall bw l c n, In n (rest_of bw l c) -> In n l.
Proof. intros [] l c n H; [eapply before_incl|eapply after_incl]; exact H. Qed.

(* ------------------------------------------------------------------ inserting / removing another entry *)

Lemma notin_app_l : forall (a b : list positive) x, ~ In x (a ++ b) -> ~ In x a.
Proof. intros a b x H Hin. apply H. apply in_or_app. left; exact Hin. Qed.
Lemma notin_app_r : forall (a b : list positive) x, ~ In x (a ++ b) -> ~ In x b.
Proof. intros a b x H Hin. apply H. apply in_or_app. right; exact Hin. Qed.

(* for a cursor c different from the inserted entry e: what lies beyond c gains at most e *)
Lemma rest_insert : forall bw m1 m2 e c, NoDup (m1 ++ e :: m2) -> In c (m1 ++ m2) ->
  (forall n, In n (rest_of bw (m1 ++ m2) c) -> In n (rest_of bw (m1 ++ e :: m2) c)) /\
  (forall n, In n (rest_of bw (m1 ++ e :: m2) c) -> In n (rest_of bw (m1 ++ m2) c) \/ n = e).
Proof.
  intros bw m1 m2 e c Hnd Hc.
  assert (Hnd0 : NoDup (m1 ++ m2)) by (eapply nodup_remove_mid; exact Hnd).
  apply in_app_or in Hc. destruct Hc as [Hc|Hc].
  - destruct (in_split _ _ Hc) as (a & b & ->).
    assert (Ha : ~ In c a).
    { rewrite <- app_assoc in Hnd0. cbn [app] in Hnd0. apply (nodup_split_notin _ _ _ Hnd0). }
    assert (E0 : (a ++ c :: b) ++ m2 = a ++ c :: (b ++ m2)) by (rewrite <- app_assoc; reflexivity).
    assert (E1 : (a ++ c :: b) ++ e :: m2 = a ++ c :: (b ++ e :: m2)) by (rewrite <- app_assoc; reflexivity).
    rewrite E0, E1. unfold rest_of. destruct bw.
    + rewrite !before_mid by exact Ha. split; intros n Hn; auto.
    + rewrite !after_mid by exact Ha. split; intros n Hn.
      * apply in_app_or in Hn. apply in_or_app. destruct Hn; [left|right; right]; assumption.
      * apply in_app_or in Hn. destruct Hn as [Hn|[Hn|Hn]]; [left; apply in_or_app; left; exact Hn|right; symmetry; exact Hn|left; apply in_or_app; right; exact Hn].
  - destruct (in_split _ _ Hc) as (a & b & ->).
    assert (E0 : m1 ++ a ++ c :: b = (m1 ++ a) ++ c :: b) by (rewrite <- app_assoc; reflexivity).
    assert (E1 : m1 ++ e :: a ++ c :: b = (m1 ++ e :: a) ++ c :: b) by (rewrite <- app_assoc; reflexivity).
    assert (Ha0 : ~ In c (m1 ++ a)) by (rewrite E0 in Hnd0; apply (nodup_split_notin _ _ _ Hnd0)).
    assert (Ha1 : ~ In c (m1 ++ e :: a)) by (rewrite E1 in Hnd; apply (nodup_split_notin _ _ _ Hnd)).
    rewrite E0, E1. unfold rest_of. destruct bw.
    + rewrite !before_mid by assumption. split; intros n Hn.
      * apply in_app_or in Hn. apply in_or_app. destruct Hn; [left|right; right]; assumption.
      * apply in_app_or in Hn. destruct Hn as [Hn|[Hn|Hn]]; [left; apply in_or_app; left; exact Hn|right; symmetry; exact Hn|left; apply in_or_app; right; exact Hn].
    + rewrite !after_mid by assumption. split; intros n Hn; auto.
Qed.

(* ------------------------------------------------------------------ the fix-up of RemoveIterationEntry *)

(* the cursor moved off the removed entry e = l1 ++ e :: l2 in its direction *)
Definition moved_cookie (bw : bool) (l1 l2 : list positive) : option positive :=
  if bw then last_of l1 else head_opt l2.

Lemma pend_after_fixup : forall bw l1 l2 e scr0, NoDup (l1 ++ e :: l2) ->
  forall n, In n (pend (l1 ++ l2) (mkIter (Some 0) (moved_cookie bw l1 l2) bw false (Some scr0)))
            <-> In n (rest_of bw (l1 ++ e :: l2) e).
Proof.
  intros bw l1 l2 e scr0 Hnd n. destruct (nodup_split_notin _ _ _ Hnd) as [H1 H2].
  assert (Hnd0 : NoDup (l1 ++ l2)) by (eapply nodup_remove_mid; exact Hnd).
  unfold pend, moved_cookie, rest_of. cbn [icookie iscr ibw]. destruct bw.
  - rewrite before_mid by exact H1. destruct (last_of l1) as [x|] eqn:EL.
    + destruct (last_of_split _ _ _ EL) as (a & ->).
      assert (Hx : ~ In x a) by (rewrite <- app_assoc in Hnd0; cbn [app] in Hnd0; apply (nodup_split_notin _ _ _ Hnd0)).
      rewrite <- app_assoc. cbn [app]. rewrite before_mid by exact Hx. split; intros Hn.
      * destruct Hn as [<-|Hn]; apply in_or_app; [right; left; reflexivity|left; exact Hn].
      * apply in_app_or in Hn. destruct Hn as [Hn|[<-|[]]]; [right; exact Hn|left; reflexivity].
    + apply last_of_none in EL. subst l1. split; intros [].
  - rewrite after_mid by exact H1. destruct l2 as [|x l2']; cbn [head_opt]; [split; intros []|].
    assert (Hx : ~ In x l1) by (apply (nodup_split_notin _ _ _ Hnd0)).
    rewrite after_mid by exact Hx. split; intros Hn; exact Hn.
Qed.
