(* C17 -- facts about the level-0 search functions that the level-1 proofs need (index bounds). *)
From Coq Require Import List NArith ZArith Bool Lia.
From Muscle Require Import Cont.StrL0 Cont.StrLemmas.
Import ListNotations.
Local Open Scope N_scope.

Lemma list_eqb_eq a b : list_eqb a b = true <-> a = b.
Proof.
  revert b. induction a as [|x a IH]; intros [|y b]; cbn [list_eqb]; try (split; [discriminate|discriminate]); [split; reflexivity|].
  rewrite andb_true_iff, N.eqb_eq, IH. split; [intros [-> ->]; reflexivity|intros H; inversion H; auto].
Qed.
Lemma list_eqb_refl a : list_eqb a a = true.
Proof. now apply list_eqb_eq. Qed.

Lemma prefixb_len p l : prefixb p l = true -> lenN p <= lenN l.
Proof.
  revert l. induction p as [|x p IH]; intros l H; [rewrite lenN_nil; lia|].
  destruct l as [|y l]; [discriminate|]. cbn [prefixb] in H. apply andb_true_iff in H. destruct H as [_ H].
  rewrite !lenN_cons. specialize (IH l H). lia.
Qed.
Lemma prefixb_refl l : prefixb l l = true.
Proof. induction l as [|x l IH]; [reflexivity|]. cbn [prefixb]. now rewrite N.eqb_refl. Qed.
Lemma prefixb_app p r : prefixb p (p ++ r) = true.
Proof. induction p as [|x p IH]; [reflexivity|]. cbn [prefixb app]. now rewrite N.eqb_refl. Qed.
Lemma prefixb_spec p l : prefixb p l = true <-> takeN (lenN p) l = p.
Proof.
  revert l. induction p as [|x p IH]; intros l.
  - cbn [prefixb]. rewrite lenN_nil, takeN_0. tauto.
  - destruct l as [|y l]; cbn [prefixb].
    + rewrite takeN_nil. split; discriminate.
    + rewrite lenN_cons, takeN_S, andb_true_iff, N.eqb_eq, IH. split.
      * intros [-> ->]. reflexivity.
      * intros H. inversion H; subst. rewrite H2. auto.
Qed.

Lemma rfind_aux_skip p l i from best : from < i -> rfind_aux p l i from best = best.
Proof.
  revert i best. induction l as [|x l IH]; intros i best H; cbn [rfind_aux].
  - assert (E : (i <=? from) = false) by (apply N.leb_gt; lia). now rewrite E.
  - assert (E : (i <=? from) = false) by (apply N.leb_gt; lia). rewrite E. cbn [andb]. apply IH. lia.
Qed.

Lemma rfind_aux_some p l i from best j :
  rfind_aux p l i from best = Some j ->
  best = Some j \/ (i <= j /\ j <= from /\ j - i <= lenN l /\ p (dropN (j - i) l) = true).
Proof.
  revert i best. induction l as [|x l IH]; intros i best H; cbn [rfind_aux] in H.
  - destruct ((i <=? from) && p []) eqn:E; [|now left].
    apply andb_true_iff in E. destruct E as [E1 E2]. apply N.leb_le in E1. inversion H; subst j.
    right. rewrite N.sub_diag, dropN_0, lenN_nil. splits; trivial; lia.
  - apply IH in H. destruct H as [H|(H1 & H2 & H3 & H4)].
    + destruct ((i <=? from) && p (x :: l)) eqn:E; [|now left].
      apply andb_true_iff in E. destruct E as [E1 E2]. apply N.leb_le in E1. inversion H; subst j.
      right. rewrite N.sub_diag, dropN_0. splits; trivial; lia.
    + right. rewrite lenN_cons. splits; try lia.
      replace (j - i) with (j - (i + 1) + 1) by lia. now rewrite dropN_S.
Qed.

Lemma rfind_aux_first p x l from best : p (x :: l) = true -> 0 <= from ->
  rfind_aux p (x :: l) from from best = Some from.
Proof.
  intros H _. cbn [rfind_aux]. rewrite N.leb_refl, H. cbn [andb]. apply rfind_aux_skip. lia.
Qed.

(* LastIndexOf(char) is a valid index when it is not -1 *)
Lemma last_index_of_ch_bound l ch z :
  l0_last_index_of_ch l ch 0 = z -> (0 <= z)%Z -> Z.to_N z < lenN l /\ z = Z.of_N (Z.to_N z).
Proof.
  unfold l0_last_index_of_ch. intros H Hz. destruct (0 <? lenN l) eqn:E; [|subst z; lia].
  rewrite dropN_0 in H.
  destruct (rfind_aux _ l 0 NOLIMIT None) as [j|] eqn:R; [|subst z; lia].
  apply rfind_aux_some in R. destruct R as [R|(R1 & R2 & R3 & R4)]; [discriminate|].
  subst z. rewrite N2Z.id. split; [|reflexivity]. rewrite N.sub_0_r in *.
  destruct (dropN j l) as [|y r] eqn:D; [discriminate|].
  apply (f_equal lenN) in D. rewrite lenN_dropN, lenN_cons in D. lia.
Qed.

(* LastIndexOf(string) of a non-empty needle: the match lies inside the string *)
Lemma last_index_of1_bound l ob z :
  ob <> [] -> l0_last_index_of1 l ob = z -> (0 <= z)%Z ->
  Z.to_N z + lenN ob <= lenN l /\ z = Z.of_N (Z.to_N z).
Proof.
  intros Ne. unfold l0_last_index_of1, l0_last_index_of. intros H Hz.
  destruct (lenN ob <=? lenN l) eqn:E; [|subst z; lia].
  destruct ob as [|a ob]; [congruence|].
  destruct (lenN l <=? lenN l - lenN (a :: ob)) eqn:E2; [subst z; lia|].
  destruct (rfind_aux _ l 0 (lenN l - lenN (a :: ob)) None) as [j|] eqn:R; cbn [zidx] in H; [|subst z; lia].
  apply rfind_aux_some in R. destruct R as [R|(R1 & R2 & R3 & R4)]; [discriminate|].
  subst z. rewrite N2Z.id. split; [|reflexivity]. rewrite N.sub_0_r in *.
  destruct (dropN j l) as [|y r] eqn:D; [discriminate|].
  apply prefixb_len in R4. rewrite <- D, lenN_dropN in R4. lia.
Qed.

Lemma last_index_of1_self l : l <> [] -> l0_last_index_of1 l l = 0%Z.
Proof.
  intros Ne. unfold l0_last_index_of1, l0_last_index_of. rewrite N.leb_refl, N.sub_diag.
  destruct l as [|a l]; [congruence|].
  assert (E : (lenN (a :: l) <=? 0) = false) by (apply N.leb_gt; rewrite lenN_cons; lia). rewrite E.
  rewrite (rfind_aux_first _ a l 0 None); [reflexivity| |lia]. apply prefixb_refl.
Qed.
