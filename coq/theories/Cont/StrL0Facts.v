(* C17 -- facts about the level-0 search functions that the level-1 proofs need (index bounds). *)
From Coq Require Import List NArith ZArith Bool Lia.
From Muscle Require Import Cont.StrL0 Cont.StrLemmas.
Import ListNotations.
Local Open Scope N_scope.

Lemma list_eqb_eq a b : list_eqb a b = true <-> a = b.
Proof.
  revert b. induction a as [|x a IH]; intros [|y b]; cbn [list_eqb]; try (split; [discriminate|discriminate]); [split; reflexivity|].
  rewrite andb_true_iff, N.eqb_eq, IH. split; [intros [-> ->]; reflexivity|intros H; inversion H; auto].
Qed.
Lemma list_eqb_refl a : list_eqb a a = true.
Proof. now apply list_eqb_eq. Qed.

Lemma prefixb_len p l : prefixb p l = true -> lenN p <= lenN l.
Proof.
  revert l. induction p as [|x p IH]; intros l H; [rewrite lenN_nil; lia|].
  destruct l as [|y l]; [discriminate|]. cbn [prefixb] in H. apply andb_true_iff in H. destruct H as [_ H].
  rewrite !lenN_cons. specialize (IH l H). lia.
Qed.
Lemma prefixb_refl l : prefixb l l = true.
Proof. induction l as [|x l IH]; [reflexivity|]. cbn [prefixb]. now rewrite N.eqb_refl. Qed.
Lemma prefixb_app p r : prefixb p (p ++ r) = true.
Proof. induction p as [|x p IH]; [reflexivity|]. cbn [prefixb app]. now rewrite N.eqb_refl. Qed.
Lemma prefixb_spec p l : prefixb p l = true <-> takeN (lenN p) l = p.
Proof.
  revert l. induction p as [|x p IH]; intros l.
  - cbn [prefixb]. rewrite lenN_nil, takeN_0. tauto.
  - destruct l as [|y l]; cbn [prefixb].
    + rewrite takeN_nil. split; discriminate.
    + rewrite lenN_cons, takeN_S, andb_true_iff, N.eqb_eq, IH. split.
      * intros [-> ->]. reflexivity.
      * intros H. inversion H; subst. rewrite H2. auto.
Qed.

Lemma rfind_aux_skip p l i from best : from < i -> rfind_aux p l i from best = best.
Proof.
  revert i best. induction l as [|x l IH]; intros i best H; cbn [rfind_aux].
  - assert (E : (i <=? from) = false) by (apply (proj2 (N.leb_gt i from)); lia). rewrite E. reflexivity.
  - assert (E : (i <=? from) = false) by (apply (proj2 (N.leb_gt i from)); lia). rewrite E. cbn [andb]. apply IH. lia.
Qed.

Lemma rfind_aux_some p l i from best j :
  rfind_aux p l i from best = Some j ->
  best = Some j \/ (i <= j /\ j <= from /\ j - i <= lenN l /\ p (dropN (j - i) l) = true).
Proof.
  revert i best. induction l as [|x l IH]; intros i best H; cbn [rfind_aux] in H.
  - destruct ((i <=? from) && p []) eqn:E; [|now left].
    apply andb_true_iff in E. destruct E as [E1 E2]. apply N.leb_le in E1. inversion H; subst j.
    right. rewrite N.sub_diag, dropN_0. splits; trivial; lia.
  - apply IH in H. destruct H as [H|(H1 & H2 & H3 & H4)].
    + destruct ((i <=? from) && p (x :: l)) eqn:E; [|now left].
      apply andb_true_iff in E. destruct E as [E1 E2]. apply N.leb_le in E1. inversion H; subst j.
      right. rewrite N.sub_diag, dropN_0. splits; trivial; lia.
    + right. rewrite lenN_cons. splits; try lia.
      replace (j - i) with (j - (i + 1) + 1) by lia. now rewrite dropN_S.
Qed.

Lemma rfind_aux_first p x l from best : p (x :: l) = true -> 0 <= from ->
  rfind_aux p (x :: l) from from best = Some from.
Proof.
  intros H _. cbn [rfind_aux]. rewrite N.leb_refl, H. cbn [andb]. apply rfind_aux_skip. lia.
Qed.

(* LastIndexOf(char) is a valid index when it is not -1 *)
Lemma last_index_of_ch_bound l ch z :
  l0_last_index_of_ch l ch 0 = z -> (0 <= z)%Z -> Z.to_N z < lenN l /\ z = Z.of_N (Z.to_N z).
Proof.
  unfold l0_last_index_of_ch. intros H Hz. destruct (0 <? lenN l) eqn:E; [|subst z; lia].
  rewrite dropN_0 in H.
  destruct (rfind_aux _ l 0 NOLIMIT None) as [j|] eqn:R; [|subst z; lia].
  apply rfind_aux_some in R. destruct R as [R|(R1 & R2 & R3 & R4)]; [discriminate|].
  subst z. rewrite N2Z.id. split; [|reflexivity]. rewrite N.sub_0_r in *.
  destruct (dropN j l) as [|y r] eqn:D; [discriminate|].
  apply (f_equal lenN) in D. rewrite lenN_dropN, lenN_cons in D. lia.
Qed.

(* LastIndexOf(string) of a non-empty needle: the match lies inside the string *)
Lemma last_index_of1_bound l ob z :
  ob <> [] -> l0_last_index_of1 l ob = z -> (0 <= z)%Z ->
  Z.to_N z + lenN ob <= lenN l /\ z = Z.of_N (Z.to_N z).
Proof.
  intros Ne. unfold l0_last_index_of1, l0_last_index_of. intros H Hz.
  destruct (lenN ob <=? lenN l) eqn:E; [|subst z; lia].
  destruct ob as [|a ob]; [congruence|].
  destruct (lenN l <=? lenN l - lenN (a :: ob)) eqn:E2; [subst z; lia|].
  destruct (rfind_aux _ l 0 (lenN l - lenN (a :: ob)) None) as [j|] eqn:R; cbn [zidx] in H; [|subst z; lia].
  apply rfind_aux_some in R. destruct R as [R|(R1 & R2 & R3 & R4)]; [discriminate|].
  subst z. rewrite N2Z.id. split; [|reflexivity]. rewrite N.sub_0_r in *.
  destruct (dropN j l) as [|y r] eqn:D; [discriminate|].
  apply prefixb_len in R4. rewrite <- D, lenN_dropN in R4. lia.
Qed.

Lemma last_index_of1_self l : l <> [] -> l0_last_index_of1 l l = 0%Z.
Proof.
  intros Ne. unfold l0_last_index_of1, l0_last_index_of. rewrite N.leb_refl, N.sub_diag.
  destruct l as [|a l]; [congruence|].
  assert (E : (lenN (a :: l) <=? 0) = false) by (apply N.leb_gt; rewrite lenN_cons; lia). rewrite E.
  rewrite (rfind_aux_first _ a l 0 None); [reflexivity| |lia]. apply prefixb_refl.
Qed.

(* ---------------------------------------------------------------- find_sub / replace / count *)

Lemma find_sub_sound rm l k : find_sub rm l = Some k -> k + lenN rm <= lenN l /\ takeN (lenN rm) (dropN k l) = rm.
Proof.
  revert k. induction l as [|x l IH]; intros k H; cbn [find_sub] in H.
  - destruct (prefixb rm []) eqn:E; [|discriminate]. inversion H; subst k.
    rewrite dropN_0. split; [apply prefixb_len in E; lia|now apply prefixb_spec].
  - destruct (prefixb rm (x :: l)) eqn:E.
    + inversion H; subst k. rewrite dropN_0. split; [apply prefixb_len in E; lia|now apply prefixb_spec].
    + destruct (find_sub rm l) as [j|] eqn:F; [|discriminate]. cbn [option_map] in H. inversion H; subst k.
      destruct (IH j eq_refl) as [B T]. rewrite lenN_cons. split; [lia|].
      rewrite <- N.add_1_r. now rewrite dropN_S.
Qed.
Lemma find_sub_short rm l : lenN l < lenN rm -> find_sub rm l = None.
Proof.
  intros H. destruct (find_sub rm l) as [k|] eqn:E; [|reflexivity].
  apply find_sub_sound in E. lia.
Qed.
Lemma find_sub_self l : find_sub l l = Some 0.
Proof. destruct l; cbn [find_sub]; [reflexivity|]. now rewrite prefixb_refl. Qed.

Lemma split_at_match rm l k : find_sub rm l = Some k -> l = takeN k l ++ rm ++ dropN (k + lenN rm) l.
Proof.
  intros H. destruct (find_sub_sound _ _ _ H) as [B T].
  rewrite <- (takeN_dropN k l) at 1. f_equal.
  rewrite <- (takeN_dropN (lenN rm) (dropN k l)). rewrite T. f_equal.
  rewrite dropN_dropN. f_equal. lia.
Qed.

Lemma replace_sub_fuel_facts f l rm wm max :
  let r := replace_sub_fuel f l rm wm max in
  snd r = N.min max (count_sub_fuel f rm l) /\
  lenN (fst r) + lenN rm * snd r = lenN l + lenN wm * snd r /\
  (snd r = 0 -> fst r = l) /\ (rm = wm -> fst r = l).
Proof.
  revert l max. induction f as [|f IH]; intros l max; cbn [replace_sub_fuel count_sub_fuel].
  - cbn [fst snd]. splits; trivial; lia.
  - destruct (0 <? max) eqn:E0.
    2:{ apply N.ltb_ge in E0. cbn [fst snd]. splits; trivial; lia. }
    apply N.ltb_lt in E0.
    destruct (find_sub rm l) as [k|] eqn:F.
    2:{ cbn [fst snd]. splits; trivial; lia. }
    specialize (IH (dropN (k + lenN rm) l) (max - 1)). cbn zeta in IH.
    destruct (replace_sub_fuel f (dropN (k + lenN rm) l) rm wm (max - 1)) as [t c]. cbn [fst snd] in *.
    destruct IH as (I1 & I2 & I3 & I4).
    destruct (find_sub_sound _ _ _ F) as [B _].
    splits.
    + lia.
    + rewrite !lenN_app, lenN_takeN. rewrite lenN_dropN in I2. nia.
    + lia.
    + intros ->. rewrite (I4 eq_refl). symmetry. now apply split_at_match.
Qed.

Lemma l0_replace_sub_facts l rm wm max from :
  let r := l0_replace_sub l rm wm max from in
  snd r = N.min max (l0_count_sub l rm from) /\
  lenN (fst r) + lenN rm * snd r = lenN l + lenN wm * snd r /\
  (snd r = 0 -> fst r = l) /\ (rm = wm -> fst r = l).
Proof.
  unfold l0_replace_sub, l0_count_sub.
  destruct (max =? 0) eqn:E1; cbn [orb].
  { apply N.eqb_eq in E1. cbn [fst snd]. splits; trivial; lia. }
  destruct (lenN l <=? from) eqn:E2; cbn [orb].
  { apply N.leb_le in E2. cbn [fst snd]. assert (X : (from <? lenN l) = false) by (apply N.ltb_ge; lia).
    rewrite X. destruct rm; splits; trivial; lia. }
  apply N.leb_gt in E2. assert (X : (from <? lenN l) = true) by (apply N.ltb_lt; lia). rewrite X.
  destruct (lenN rm =? 0) eqn:E3.
  { apply N.eqb_eq in E3. rewrite (lenN_0 rm E3). cbn [fst snd]. splits; trivial; lia. }
  apply N.eqb_neq in E3. destruct rm as [|a rm]; [rewrite lenN_nil in E3; congruence|].
  pose proof (replace_sub_fuel_facts (S (length l)) (dropN from l) (a :: rm) wm max) as H. cbn zeta in H.
  destruct (replace_sub_fuel (S (length l)) (dropN from l) (a :: rm) wm max) as [t c]. cbn [fst snd] in *.
  destruct H as (H1 & H2 & H3 & H4). splits.
  - exact H1.
  - rewrite lenN_app, lenN_takeN. rewrite lenN_dropN in H2. lia.
  - intros Hc. rewrite (H3 Hc). apply takeN_dropN.
  - intros Hw. rewrite (H4 Hw). apply takeN_dropN.
Qed.

(* replacing the whole string by something *)
Lemma l0_replace_sub_whole l wm max : l <> [] -> max <> 0 -> l0_replace_sub l l wm max 0 = (wm, 1).
Proof.
  intros Ne Mx. unfold l0_replace_sub.
  assert (E1 : (max =? 0) = false) by now apply N.eqb_neq. rewrite E1.
  assert (Lp : 0 < lenN l) by (destruct l; [congruence|rewrite lenN_cons; lia]).
  assert (E2 : (lenN l <=? 0) = false) by (apply N.leb_gt; lia). rewrite E2.
  assert (E3 : (lenN l =? 0) = false) by (apply N.eqb_neq; lia). rewrite E3. cbn [orb].
  rewrite dropN_0, takeN_0. cbn [replace_sub_fuel].
  assert (E4 : (0 <? max) = true) by (apply N.ltb_lt; lia). rewrite E4.
  rewrite find_sub_self. rewrite N.add_0_l, (dropN_all (lenN l) l) by lia. rewrite takeN_0.
  assert (R : forall f m, replace_sub_fuel f [] l wm m = ([], 0)).
  { intros f m. destruct f; cbn [replace_sub_fuel]; [reflexivity|]. destruct (0 <? m); [|reflexivity].
    rewrite find_sub_short; [reflexivity|]. rewrite lenN_nil. lia. }
  rewrite R. cbn [app]. now rewrite app_nil_r.
Qed.
Lemma l0_replace_sub_whole_from l wm max from : 0 < from -> l0_replace_sub l l wm max from = (l, 0).
Proof.
  intros Hf. unfold l0_replace_sub.
  destruct ((max =? 0) || (lenN l <=? from) || (lenN l =? 0)) eqn:E; [reflexivity|].
  apply orb_false_iff in E. destruct E as [E _]. apply orb_false_iff in E. destruct E as [E1 E2].
  apply N.leb_gt in E2.
  cbn [replace_sub_fuel]. destruct (0 <? max); [|now rewrite takeN_dropN].
  rewrite find_sub_short by (rewrite lenN_dropN; lia). now rewrite takeN_dropN.
Qed.

Lemma count_sub_fuel_le f rm l : count_sub_fuel f rm l * lenN rm <= lenN l.
Proof.
  revert l. induction f as [|f IH]; intros l; cbn [count_sub_fuel]; [lia|].
  destruct (find_sub rm l) as [k|] eqn:F; [|lia].
  destruct (find_sub_sound _ _ _ F) as [B _]. specialize (IH (dropN (k + lenN rm) l)).
  rewrite lenN_dropN in IH. nia.
Qed.
Lemma l0_count_sub_le l rm from : l0_count_sub l rm from * lenN rm <= lenN l.
Proof.
  unfold l0_count_sub. destruct rm as [|a rm]; [lia|]. destruct (from <? lenN l); [|lia].
  pose proof (count_sub_fuel_le (S (length l)) (a :: rm) (dropN from l)) as H. rewrite lenN_dropN in H. lia.
Qed.
