(* C09 -- the order in which the storage layer re-inserts its entries on reallocation (the run's
   [r_order]: insertion order, replaced values in place, removed entries dropped) is the iteration
   order of the plain Hashtable: after every history of Put / Get / Remove / EnsureSize the pairs held by
   the slots of [r_order] are exactly the association list of the L0 model (class VPlain). *)
From Coq Require Import List Arith ZArith NArith PArith Bool Lia Permutation.
From Muscle Require Import Cont.HtModel Cont.HtStep Cont.HtIdeal Cont.HtLemmas Cont.HtIdealLaws
                           Cont.HtRefine Cont.HtStore Cont.HtStoreProofs Cont.HtStoreLink.
Import ListNotations.

Definition st_kv (sl : list slot) (i : nat) : Z * Z := (st_gk sl i, st_gv sl i).

Lemma sto_map_ext_in : forall (f g : nat -> Z * Z) l, (forall x, In x l -> f x = g x) -> map f l = map g l.
Proof.
  intros f g. induction l as [|x l IH]; intros H; [reflexivity|]. cbn. rewrite (H x (or_introl eq_refl)). f_equal.
  apply IH. intros y Hy. apply H. right; exact Hy.
Qed.

(* replacing the value of the slot that holds key k is a_set on the pairs *)
Lemma order_set_val : forall sl sl' i k v order, NoDup order ->
  (forall y, In y order -> y <> i -> st_kv sl' y = st_kv sl y) -> st_kv sl' i = (k, v) ->
  st_gk sl i = k -> (forall y, In y order -> st_gk sl y = k -> y = i) ->
  map (st_kv sl') order = a_set (map (st_kv sl) order) k v.
Proof.
  intros sl sl' i k v order Hnd Hfr Hi Eki Huniq. induction order as [|x r IH]; [reflexivity|].
  apply NoDup_cons_iff in Hnd as [Hx Hr]. cbn [map]. change (st_kv sl x) with (st_gk sl x, st_gv sl x). cbn [a_set]. destruct (Z.eqb (st_gk sl x) k) eqn:E.
  - apply Z.eqb_eq in E. assert (x = i) by (apply Huniq; [left; reflexivity|exact E]). subst x. rewrite Hi, Eki. f_equal.
    apply sto_map_ext_in. intros y Hy. apply Hfr; [right; exact Hy|]. intro; subst y. contradiction.
  - assert (Hxi : x <> i) by (intro; subst x; apply Z.eqb_neq in E; contradiction).
    rewrite (Hfr x (or_introl eq_refl) Hxi). change (st_kv sl x) with (st_gk sl x, st_gv sl x). f_equal.
    apply IH; [exact Hr|intros y Hy; apply Hfr; right; exact Hy|intros y Hy; apply Huniq; right; exact Hy].
Qed.

Lemma filter_neq_notin : forall i (l : list nat), ~ In i l -> filter (fun y => negb (y =? i)) l = l.
Proof.
  intros i. induction l as [|x l IH]; intros H; [reflexivity|]. cbn [filter].
  destruct (Nat.eqb_spec x i) as [->|_]; [exfalso; apply H; left; reflexivity|]. cbn [negb]. f_equal. apply IH. intro; apply H; right; assumption.
Qed.

(* dropping the slot that holds key k is a_remove on the pairs *)
Lemma order_remove : forall sl sl' i k order, NoDup order ->
  (forall y, In y order -> y <> i -> st_kv sl' y = st_kv sl y) ->
  st_gk sl i = k -> (forall y, In y order -> st_gk sl y = k -> y = i) ->
  map (st_kv sl') (st_remove_nat i order) = a_remove (map (st_kv sl) order) k.
Proof.
  intros sl sl' i k order Hnd Hfr Eki Huniq. unfold st_remove_nat. induction order as [|x r IH]; [reflexivity|].
  apply NoDup_cons_iff in Hnd as [Hx Hr]. cbn [map filter]. change (st_kv sl x) with (st_gk sl x, st_gv sl x). cbn [a_remove]. destruct (Z.eqb (st_gk sl x) k) eqn:E.
  - apply Z.eqb_eq in E. assert (x = i) by (apply Huniq; [left; reflexivity|exact E]). subst x. rewrite Nat.eqb_refl. cbn [negb].
    rewrite filter_neq_notin by exact Hx. apply sto_map_ext_in. intros y Hy. apply Hfr; [right; exact Hy|]. intro; subst y. contradiction.
  - assert (Hxi : x <> i) by (intro; subst x; apply Z.eqb_neq in E; contradiction).
    destruct (Nat.eqb_spec x i) as [->|_]; [contradiction|]. cbn [negb map].
    rewrite (Hfr x (or_introl eq_refl) Hxi). change (st_kv sl x) with (st_gk sl x, st_gv sl x). f_equal.
    apply IH; [exact Hr|intros y Hy; apply Hfr; right; exact Hy|intros y Hy; apply Huniq; right; exact Hy].
Qed.

Lemma a_get_map_none : forall sl order k, (forall y, In y order -> st_gk sl y <> k) -> a_get (map (st_kv sl) order) k = None.
Proof.
  intros sl order k H. induction order as [|x r IH]; [reflexivity|]. cbn [map]. change (st_kv sl x) with (st_gk sl x, st_gv sl x). cbn [a_get].
  destruct (Z.eqb (st_gk sl x) k) eqn:E; [apply Z.eqb_eq in E; exfalso; apply (H x (or_introl eq_refl) E)|].
  apply IH. intros y Hy. apply H. right; exact Hy.
Qed.

Lemma a_get_map_some : forall sl order k i, In i order -> st_gk sl i = k -> a_get (map (st_kv sl) order) k <> None.
Proof.
  intros sl order k i Hin Hk. induction order as [|x r IH]; [destruct Hin|]. cbn [map]. change (st_kv sl x) with (st_gk sl x, st_gv sl x). cbn [a_get].
  destruct (Z.eqb (st_gk sl x) k) eqn:E; [discriminate|]. destruct Hin as [->|Hin]; [apply Z.eqb_neq in E; contradiction|]. apply IH. exact Hin.
Qed.

Section Ord.
Variable hashf : Z -> N.
Variable dcap : N.

(* re-inserting a list of entries into a store returns their new slots in the same order, and
   disturbs no entry that was there before *)
Lemma st_put_all_order : forall es st,
  sinv st -> nitems st + length es <= st_size st -> NoDup (map st_ekey es) ->
  (forall e, In e es -> st_key_absent (slots st) (st_ekey e)) ->
  map (st_kv (slots (fst (st_put_all st es)))) (snd (st_put_all st es)) = map (fun e => (st_ekey e, snd e)) es /\
  (forall y, st_gh (slots st) y <> None -> st_kv (slots (fst (st_put_all st es))) y = st_kv (slots st) y).
Proof.
  induction es as [|[[h k] v] r IH]; intros st Hs Hcap Hnd Habs; [cbn; auto|].
  cbn [length] in Hcap. cbn [map] in Hnd. apply NoDup_cons_iff in Hnd as [Hkni Hndr]. change (st_ekey (h, k, v)) with k in Hkni.
  assert (Habs0 : st_key_absent (slots st) k) by (apply (Habs (h, k, v)); left; reflexivity).
  assert (Hfree : nitems st < st_size st) by lia.
  pose proof (sinv_put_new st h k v Hs Hfree Habs0) as Hs1.
  pose proof Hs as (ch & fl & G).
  destruct (st_put_new_spec st h k v ch fl G Hfree Habs0) as (_ & (Hl & He & Hfe & Hgh & Hgk & Hgv) & Hn).
  cbn [st_put_all]. destruct (st_put_new st h k v) as [st1 i] eqn:Eput. cbn [fst snd] in *.
  assert (Hsz : st_size st1 = st_size st) by (unfold st_size; exact Hl).
  assert (Habs1 : forall e, In e r -> st_key_absent (slots st1) (st_ekey e)).
  { intros e Hin x Hx Hu. rewrite Hgk. rewrite Hgh in Hu. destruct (Nat.eqb_spec i x) as [_|_].
    - intro Ek. apply Hkni. rewrite Ek. apply in_map. exact Hin.
    - apply (Habs e (or_intror Hin) x); [rewrite <- Hl; exact Hx|exact Hu]. }
  destruct (IH st1 Hs1 ltac:(rewrite Hn, Hsz; lia) Hndr Habs1) as [A B].
  destruct (st_put_all st1 r) as [st2 is] eqn:Eall. cbn [fst snd] in *. split.
  - cbn [map]. f_equal; [|exact A]. rewrite B by (rewrite Hgh, Nat.eqb_refl; discriminate).
    unfold st_kv. rewrite Hgk, Hgv, Nat.eqb_refl. reflexivity.
  - intros y Hy. assert (Hyi : i <> y) by (intro; subst y; contradiction).
    rewrite B by (rewrite Hgh; destruct (Nat.eqb_spec i y); [contradiction|exact Hy]).
    unfold st_kv. rewrite Hgk, Hgv. destruct (Nat.eqb_spec i y); [contradiction|reflexivity].
Qed.

Definition ord_inv (r : srun) (x : tab0) : Prop := map (st_kv (slots (r_st r))) (r_order r) = pairs x.

Lemma st_entries_kv : forall st order, map (fun e => (st_ekey e, snd e)) (st_entries st order) = map (st_kv (slots st)) order.
Proof. intros st order. unfold st_entries. rewrite map_map. reflexivity. Qed.

(* EnsureSize keeps the order *)
Lemma st_grow_order : forall r f req x, st_rinv hashf r f -> ord_inv r x -> ord_inv (st_grow r req) x.
Proof.
  intros r f req x (Hs & Hok & Hord & Hlk) Ho. unfold st_grow.
  set (st := r_st r) in *. set (newsize := Nat.max (nitems st) (Nat.max req (st_size st))).
  destruct (Nat.eqb_spec newsize (st_size st)) as [E|NE]; [exact Ho|].
  assert (Hpos : 0 < newsize).
  { destruct Hs as (ch & fl & G). pose proof (gi_pos G). unfold newsize, st_size. lia. }
  assert (Hlen : length (r_order r) = nitems st) by (apply (st_order_length st (r_order r) Hs Hord)).
  destruct (st_put_all_order (st_entries st (r_order r)) (st_create newsize)) as [A _].
  - apply sinv_create. exact Hpos.
  - unfold st_entries. rewrite map_length, Hlen. cbn [nitems st_create]. unfold st_size. cbn [slots st_create].
    assert (L : length (st_create_slots newsize) = newsize) by (apply st_create_len). rewrite L. unfold newsize. lia.
  - apply (st_entries_nodup st (r_order r) Hs Hord).
  - intros e _. apply st_create_absent.
  - unfold ord_inv. destruct (st_put_all (st_create newsize) (st_entries st (r_order r))) as [st' ord'] eqn:Eall.
    cbn [fst snd r_st r_order] in *. rewrite A, st_entries_kv. exact Ho.
Qed.

Lemma l0_put_pairs_plain : forall x k v,
  pairs (fst (l0_put VPlain dcap x k v)) =
  match a_get (pairs x) k with Some _ => a_set (pairs x) k v | None => pairs x ++ [(k, v)] end.
Proof.
  intros x0 k v. unfold l0_put.
  set (x := if N.eqb (acap x0) 0 then mkT0 (pairs x0) dcap (aasort x0) else x0).
  assert (Ep : pairs x = pairs x0) by (unfold x; destruct (N.eqb (acap x0) 0); reflexivity).
  rewrite <- Ep. destruct (a_get (pairs x) k) as [old|]; cbn [fst pairs with_pairs]; [reflexivity|].
  destruct (N.eqb (N.of_nat (length (pairs x))) (acap x)); [rewrite l0_ensure_pairs|]; reflexivity.
Qed.

(* one step keeps the correspondence between the storage order and the L0 pairs *)
Theorem st_step_order : forall r f op (w0 : world0), st_rinv hashf r f -> 0 < length w0 ->
  ord_inv r (gett0 w0 0) ->
  ord_inv (fst (st_step hashf r op)) (gett0 (fst (step0 VPlain dcap w0 (op_of_sop op))) 0).
Proof.
  intros r f op w0 Hr Hl Ho. pose proof Hr as (Hs & Hok & Hord & Hlk).
  assert (V : valid_t0 w0 0 = true) by (apply Nat.ltb_lt; exact Hl).
  assert (G : forall x, gett0 (sett0 w0 0 x) 0 = x) by (intros x; unfold gett0, sett0; apply nth_upd_nth_same; exact Hl).
  set (st := r_st r) in *. set (sl := slots st) in *.
  assert (Uniq : forall i k, i < st_size st -> st_gh sl i <> None -> st_gk sl i = k ->
                 forall y, In y (r_order r) -> st_gk sl y = k -> y = i).
  { intros i k Hi Hu Hk y Hy Hky. apply (proj2 Hord) in Hy. destruct Hy as [Hy Uy].
    apply (st_keys_distinct st y i Hs Hy Hi Uy Hu). fold sl. rewrite Hky, Hk. reflexivity. }
  unfold ord_inv in *.
  destruct op as [k v|k|k|req]; cbn [op_of_sop step0]; rewrite ?V; unfold st_step; fold st.
  - (* Put *)
    rewrite (surjective_pairing (l0_put VPlain dcap (gett0 w0 0) k v)). cbn [fst]. rewrite G, l0_put_pairs_plain.
    pose proof (st_get_lookup hashf st k Hs Hok) as Hgl.
    destruct (st_get st (hashf k) k) as [i|] eqn:Eg.
    + apply (st_get_correct hashf st k i Hs Hok) in Eg. destruct Eg as (Hi & Hu & Hk).
      assert (Hin : In i (r_order r)) by (apply (proj2 Hord); split; assumption).
      destruct (a_get (pairs (gett0 w0 0)) k) eqn:Ea; [|exfalso; rewrite <- Ho in Ea; apply (a_get_map_some sl (r_order r) k i Hin Hk Ea)].
      cbn [fst r_st r_order st_set_val slots]. fold sl. rewrite <- Ho.
      apply (order_set_val sl (st_set_v sl i v) i k v (r_order r) (proj1 Hord)).
      * intros y Hy Hne. unfold st_kv. rewrite st_gk_set_v, st_gv_set_v.
        destruct (Nat.eqb_spec i y) as [E|_]; [exfalso; apply Hne; symmetry; exact E|reflexivity].
      * unfold st_kv. rewrite st_gk_set_v, st_gv_set_v, Nat.eqb_refl. apply Nat.ltb_lt in Hi. unfold st_size in Hi. fold sl in Hi. rewrite Hi. cbn [andb]. fold sl in Hk. rewrite Hk. reflexivity.
      * exact Hk.
      * apply (Uniq i k Hi Hu Hk).
    + assert (Habsent : f k = None) by (rewrite <- Hlk, <- Hgl; reflexivity).
      assert (Ea : a_get (pairs (gett0 w0 0)) k = None).
      { rewrite <- Ho. apply a_get_map_none. intros y Hy Hky. apply (proj2 Hord) in Hy. destruct Hy as [Hy Uy].
        assert (E : st_get st (hashf k) k = Some y) by (apply (st_get_correct hashf st k y Hs Hok); auto). congruence. }
      rewrite Ea.
      set (r1 := if nitems st =? st_size st then st_grow r (2 * st_size st) else r).
      assert (Hr1 : st_rinv hashf r1 f /\ nitems (r_st r1) < st_size (r_st r1) /\ map (st_kv (slots (r_st r1))) (r_order r1) = pairs (gett0 w0 0)).
      { unfold r1. destruct (Nat.eqb_spec (nitems st) (st_size st)) as [E|NE].
        - destruct (st_grow_inv hashf r f (2 * st_size st) Hr) as (A & B & C). split; [exact A|]. split.
          + assert (Hpos : 0 < st_size st) by (destruct Hs as (ch & fl & G0); exact (gi_pos G0)). fold st in B, C. rewrite B, C. lia.
          + apply (st_grow_order r f (2 * st_size st) (gett0 w0 0) Hr Ho).
        - split; [exact Hr|]. split; [|exact Ho].
          destruct Hs as (ch & fl & G0). pose proof (gi_cnt G0) as Hc. simpl in Hc. unfold st_size in *. fold st. lia. }
      destruct Hr1 as ((Hs1 & Hok1 & Hord1 & Hlk1) & Hfree1 & Ho1).
      assert (Habs1 : st_key_absent (slots (r_st r1)) k) by (apply st_lookup_none_elim; rewrite Hlk1; exact Habsent).
      pose proof Hs1 as (ch & fl & G1).
      destruct (st_put_new_spec (r_st r1) (hashf k) k v ch fl G1 Hfree1 Habs1) as (_ & (Hl1 & He & Hfe & Hgh & Hgk & Hgv) & _).
      destruct (st_put_new (r_st r1) (hashf k) k v) as [st2 e] eqn:Eput. cbn [fst snd r_st r_order] in *.
      rewrite map_app. cbn [map]. f_equal.
      * rewrite <- Ho1. apply sto_map_ext_in. intros y Hy. apply (proj2 Hord1) in Hy. destruct Hy as [_ Uy].
        unfold st_kv. rewrite Hgk, Hgv. destruct (Nat.eqb_spec e y) as [E|_]; [subst y; contradiction|reflexivity].
      * unfold st_kv. rewrite Hgk, Hgv, Nat.eqb_refl. reflexivity.
  - (* Get *) cbn [fst]. exact Ho.
  - (* Remove *)
    destruct (st_get st (hashf k) k) as [i|] eqn:Eg.
    + apply (st_get_correct hashf st k i Hs Hok) in Eg. destruct Eg as (Hi & Hu & Hk).
      assert (Hin : In i (r_order r)) by (apply (proj2 Hord); split; assumption).
      destruct (a_get (pairs (gett0 w0 0)) k) eqn:Ea; [|exfalso; rewrite <- Ho in Ea; apply (a_get_map_some sl (r_order r) k i Hin Hk Ea)].
      cbn [fst r_st r_order]. rewrite G. cbn [pairs with_pairs]. rewrite <- Ho.
      pose proof Hs as (ch & fl & G0).
      destruct (st_remove_spec st i ch fl G0 Hi Hu) as (_ & (Hl1 & Hgh & Hgk & Hgv) & _).
      apply (order_remove sl (slots (st_remove st i)) i k (r_order r) (proj1 Hord)).
      * intros y Hy Hne. unfold st_kv. rewrite Hgk, Hgv.
        destruct (Nat.eqb_spec i y) as [E|_]; [exfalso; apply Hne; symmetry; exact E|reflexivity].
      * exact Hk.
      * apply (Uniq i k Hi Hu Hk).
    + assert (Ea : a_get (pairs (gett0 w0 0)) k = None).
      { rewrite <- Ho. apply a_get_map_none. intros y Hy Hky. apply (proj2 Hord) in Hy. destruct Hy as [Hy Uy].
        assert (E : st_get st (hashf k) k = Some y) by (apply (st_get_correct hashf st k y Hs Hok); auto). congruence. }
      rewrite Ea. cbn [fst]. exact Ho.
  - (* EnsureSize *)
    rewrite (surjective_pairing (l0_ensure dcap (gett0 w0 0) (N.of_nat req) false)). cbn [fst]. rewrite G, l0_ensure_pairs.
    apply (st_grow_order r f req (gett0 w0 0) Hr Ho).
Qed.

(* all histories: the slots of [r_order] hold exactly the pairs of the plain ordered map, in order *)
Fixpoint st_run_state (r : srun) (ops : list sop) : srun :=
  match ops with [] => r | op :: rest => st_run_state (fst (st_step hashf r op)) rest end.

Theorem st_run_order : forall ops r f (w0 : world0), st_rinv hashf r f -> 0 < length w0 -> ord_inv r (gett0 w0 0) ->
  ord_inv (st_run_state r ops) (gett0 (run0 VPlain dcap w0 (map op_of_sop ops)) 0).
Proof.
  induction ops as [|op rest IH]; intros r f w0 Hr Hl Ho; [exact Ho|].
  cbn [st_run_state map run0].
  destruct (st_step_refines hashf r f op Hr) as [_ Hr'].
  apply (IH _ _ _ Hr'); [|apply (st_step_order r f op w0 Hr Hl Ho)].
  destruct op; cbn [op_of_sop step0]; destruct (valid_t0 w0 0); cbn [fst]; try exact Hl;
    try (match goal with |- context [let '(_, _) := ?e in _] => destruct e end; cbn [fst]);
    unfold sett0; rewrite ?upd_nth_length; try exact Hl.
  destruct (a_get (pairs (gett0 w0 0)) k); cbn [fst]; unfold sett0; rewrite ?upd_nth_length; exact Hl.
Qed.

Theorem st_order_is_iteration_order : forall n ops, 0 < n ->
  let r := st_run_state (mkRun (st_create n) []) ops in
  map (st_kv (slots (r_st r))) (r_order r) = pairs (gett0 (run0 VPlain dcap (init_world0 dcap 1) (map op_of_sop ops)) 0).
Proof.
  intros n ops Hn r. apply (st_run_order ops (mkRun (st_create n) []) (fun _ => None) (init_world0 dcap 1)).
  - split; [apply sinv_create; exact Hn|]. split; [intros x h Hx; simpl in Hx; rewrite st_create_gh in Hx; discriminate|].
    split; [split; [constructor|]|intros k; apply st_create_lookup].
    intros i. split; [intros []|]. intros [_ U]. unfold st_used in U. simpl in U. rewrite st_create_gh in U. apply U; reflexivity.
  - cbn. lia.
  - reflexivity.
Qed.

End Ord.

(* the same in terms of the L1 model: the pairs in reallocation order are the table's iteration order *)
Theorem st_order_is_l1_order : forall (hashf : Z -> N) dcap n ni ops, 0 < n ->
  let r := st_run_state hashf (mkRun (st_create n) []) ops in
  map (st_kv (slots (r_st r))) (r_order r) =
  abs (gett (run1 VPlain dcap (init_world dcap 1 ni) (map op_of_sop ops)) 0).
Proof.
  intros hashf dcap n ni ops Hn r. unfold r. rewrite (st_order_is_iteration_order hashf dcap n ops Hn).
  destruct (init_refines VPlain dcap 1 ni (map op_of_sop ops)) as [A _].
  change (init_world0 dcap 1) with (abs_world (init_world dcap 1 ni)). rewrite <- A, gett0_abs. reflexivity.
Qed.
