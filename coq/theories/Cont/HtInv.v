(* C09 -- the world invariant [WF] (every table well linked, every registered iterator's cookie a
   live entry of its own table, iterator lists and owner fields consistent) and the generic
   lemmas to re-establish it after a step. *)
From Coq Require Import List Arith ZArith NArith PArith Bool Lia FMapPositive Permutation.
From Muscle Require Import Cont.HtModel Cont.HtStep Cont.HtLemmas Cont.HtRepr Cont.HtWalk Cont.HtIters
                           Cont.HtTable Cont.HtMoves Cont.HtPut.
Import ListNotations.

Record WF (w : world) : Prop := mkWF {
  wf_tabs : forall t, t < length (tabs w) -> TL t (gett w t) (its w);
  wf_its : forall i it, geti (its w) i = Some it ->
             match iown it with Some t => t < length (tabs w) | None => icookie it = None end }.

(* ------------------------------------------------------------------ accessors *)

Lemma gett_put_same : forall w t h I, t < length (tabs w) -> gett (put_ti w t h I) t = h.
Proof. intros. unfold gett, put_ti. cbn. apply nth_upd_nth_same. assumption. Qed.
Lemma gett_put_other : forall w t u h I, t <> u -> gett (put_ti w t h I) u = gett w u.
Proof. intros. unfold gett, put_ti. cbn. apply nth_upd_nth_other. assumption. Qed.
Lemma len_put : forall w t h I, length (tabs (put_ti w t h I)) = length (tabs w).
Proof. intros. unfold put_ti. cbn. apply upd_nth_length. Qed.
Lemma its_put : forall w t h I, its (put_ti w t h I) = I.
Proof. reflexivity. Qed.
Lemma sett_as_put : forall w t h, sett w t h = put_ti w t h (its w).
Proof. reflexivity. Qed.
Lemma valid_t_lt : forall w t, valid_t w t = true -> t < length (tabs w).
Proof. intros w t H. apply Nat.ltb_lt. exact H. Qed.
Lemma valid_i_lt : forall w i, valid_i w i = true -> i < length (its w).
Proof. intros w i H. apply Nat.ltb_lt. exact H. Qed.

(* ------------------------------------------------------------------ frames and other tables *)

Lemma TL_frame_other : forall t u h I I', TL u h I -> frame t I I' -> u <> t -> TL u h I'.
Proof.
  intros t u h I I' [HT Hnd Hreg Hown] [FL FN FO FM] Hut. constructor.
  - exact HT.
  - exact Hnd.
  - intros i Hi. destruct (Hreg i Hi) as (it & Hg & O & R). exists it. split; [|auto].
    apply FO; [exact Hg|]. rewrite O. intro H; inversion H; contradiction.
  - intros i it' Hg' O'. destruct (geti I i) as [it|] eqn:Hg.
    + destruct (iown it) as [x|] eqn:Ox.
      * destruct (Nat.eq_dec x t) as [->|Hx].
        -- destruct (FM i it Hg Ox) as (it2 & Hg2 & [O2|[O2 _]]); rewrite Hg' in Hg2; inversion Hg2; subst it2;
             rewrite O' in O2; [inversion O2; contradiction|discriminate].
        -- assert (E : geti I' i = Some it) by (apply FO; [exact Hg|rewrite Ox; intro H; inversion H; contradiction]).
           rewrite Hg' in E. inversion E; subst it'. apply (Hown i it Hg O').
      * assert (E : geti I' i = Some it) by (apply FO; [exact Hg|rewrite Ox; discriminate]).
        rewrite Hg' in E. inversion E; subst it'. apply (Hown i it Hg O').
    + rewrite (FN i Hg) in Hg'. discriminate.
Qed.

Lemma WF_table_step : forall w t h' I', WF w -> t < length (tabs w) ->
  TL t h' I' -> frame t (its w) I' -> WF (put_ti w t h' I').
Proof.
  intros w t h' I' [WT WI] Ht HTL F. constructor.
  - intros u Hu. rewrite len_put in Hu. rewrite its_put. destruct (Nat.eq_dec u t) as [->|Hut].
    + rewrite gett_put_same by exact Ht. exact HTL.
    + rewrite gett_put_other by congruence. eapply TL_frame_other; [apply WT; exact Hu|exact F|exact Hut].
  - intros i it' Hg'. rewrite its_put in Hg'. rewrite len_put. destruct F as [FL FN FO FM].
    destruct (geti (its w) i) as [it|] eqn:Hg.
    + destruct (iown it) as [x|] eqn:Ox.
      * destruct (Nat.eq_dec x t) as [->|Hx].
        -- destruct (FM i it Hg Ox) as (it2 & Hg2 & [O2|[O2 C2]]); rewrite Hg' in Hg2; inversion Hg2; subst it2; rewrite O2; assumption.
        -- assert (E : geti I' i = Some it) by (apply FO; [exact Hg|rewrite Ox; intro H; inversion H; contradiction]).
           rewrite Hg' in E. inversion E; subst it'. apply (WI i it Hg).
      * assert (E : geti I' i = Some it) by (apply FO; [exact Hg|rewrite Ox; discriminate]).
        rewrite Hg' in E. inversion E; subst it'. apply (WI i it Hg).
    + rewrite (FN i Hg) in Hg'. discriminate.
Qed.

Lemma WF_okstep : forall w t r, WF w -> t < length (tabs w) -> okstep t (its w) r -> WF (put_ti w t (fst r) (snd r)).
Proof. intros w t r W Ht [A B]. apply WF_table_step; assumption. Qed.

(* ------------------------------------------------------------------ the initial world *)

Lemma nth_repeat' : forall A (x d : A) n i, i < n -> nth i (repeat x n) d = x.
Proof. intros A x d n. induction n as [|n IH]; intros i H; [lia|]. destruct i; [reflexivity|]. cbn. apply IH. lia. Qed.

Lemma geti_repeat_none : forall n i, geti (repeat None n) i = None.
Proof.
  intros n i. unfold geti. destruct (Nat.lt_ge_cases i n) as [H|H].
  - apply nth_repeat'. exact H.
  - apply nth_overflow. rewrite repeat_length. exact H.
Qed.

Lemma WF_init : forall dcap nt ni, WF (init_world dcap nt ni).
Proof.
  intros dcap nt ni. constructor.
  - intros t Ht. unfold init_world in *. cbn in *. rewrite repeat_length in Ht.
    unfold gett. cbn. rewrite nth_repeat' by exact Ht. constructor.
    + exists []. apply tinv_empty.
    + constructor.
    + intros i [].
    + intros i it Hg. change (geti (repeat None ni) i = Some it) in Hg. rewrite geti_repeat_none in Hg. discriminate.
  - intros i it Hg. change (geti (repeat None ni) i = Some it) in Hg. rewrite geti_repeat_none in Hg. discriminate.
Qed.
