(* C17 -- specifications of the producers (operations that return a new String). *)
From Coq Require Import List NArith ZArith Bool Lia.
From Muscle Require Import Cont.StrL0 Cont.StrModel Cont.StrSpec Cont.StrLemmas Cont.StrGrow Cont.StrCore Cont.StrOps Cont.StrL0Facts Cont.StrOps2.
Import ListNotations.
Local Open Scope N_scope.

Set Default Proof Using "All".

Section Prod.
Variables (M TH PG OV jk : N).
Hypothesis M_pos : 1 <= M.
Hypothesis TH_ge : 2 <= TH.
Hypothesis PG_pos : 0 < PG.
Hypothesis PG_le : PG <= 1048576.
Hypothesis OV_lt : OV < PG.
Hypothesis M_le : M <= 1048576.

Local Notation inv_len := (StrCore.inv_len M TH PG OV jk M_pos TH_ge PG_pos PG_le OV_lt M_le).
Local Notation inv_lt := (StrCore.inv_lt M TH PG OV jk M_pos TH_ge PG_pos PG_le OV_lt M_le).
Local Notation inv_nul := (StrCore.inv_nul M TH PG OV jk M_pos TH_ge PG_pos PG_le OV_lt M_le).
Local Notation inv_short_le := (StrCore.inv_short_le M TH PG OV jk M_pos TH_ge PG_pos PG_le OV_lt M_le).
Local Notation lenN_abs := (StrCore.lenN_abs M TH PG OV jk M_pos TH_ge PG_pos PG_le OV_lt M_le).
Local Notation commit_spec := (StrCore.commit_spec M TH PG OV jk M_pos TH_ge PG_pos PG_le OV_lt M_le).
Local Notation inv_empty1 := (StrCore.inv_empty1 M TH PG OV jk M_pos TH_ge PG_pos PG_le OV_lt M_le).
Local Notation inv_clear_short := (StrCore.inv_clear_short M TH PG OV jk M_pos TH_ge PG_pos PG_le OV_lt M_le).
Local Notation inv_clear_and_flush := (StrCore.inv_clear_and_flush M TH PG OV jk M_pos TH_ge PG_pos PG_le OV_lt M_le).
Local Notation ensure_enough := (StrCore.ensure_enough M TH PG OV jk M_pos TH_ge PG_pos PG_le OV_lt M_le).
Local Notation inv_fin := (StrCore.inv_fin M TH PG OV jk M_pos TH_ge PG_pos PG_le OV_lt M_le).
Local Notation ensure_grow := (StrCore.ensure_grow M TH PG OV jk M_pos TH_ge PG_pos PG_le OV_lt M_le).
Local Notation ensure_noretain := (StrCore.ensure_noretain M TH PG OV jk M_pos TH_ge PG_pos PG_le OV_lt M_le).
Local Notation set_len_short_spec := (StrCore.set_len_short_spec M TH PG OV jk M_pos TH_ge PG_pos PG_le OV_lt M_le).
Local Notation ensure_shrink := (StrCore.ensure_shrink M TH PG OV jk M_pos TH_ge PG_pos PG_le OV_lt M_le).
Local Notation ensure_ok := (StrCore.ensure_ok M TH PG OV jk M_pos TH_ge PG_pos PG_le OV_lt M_le).
Local Notation u32_small := (StrOps.u32_small M TH PG OV jk M_pos TH_ge PG_pos PG_le OV_lt M_le).
Local Notation src_ok_lit := (StrOps.src_ok_lit M TH PG OV jk M_pos TH_ge PG_pos PG_le OV_lt M_le).
Local Notation src_ok_of := (StrOps.src_ok_of M TH PG OV jk M_pos TH_ge PG_pos PG_le OV_lt M_le).
Local Notation src_bytes_lit := (StrOps.src_bytes_lit M TH PG OV jk M_pos TH_ge PG_pos PG_le OV_lt M_le).
Local Notation src_bytes_of := (StrOps.src_bytes_of M TH PG OV jk M_pos TH_ge PG_pos PG_le OV_lt M_le).
Local Notation lenN_src_bytes := (StrOps.lenN_src_bytes M TH PG OV jk M_pos TH_ge PG_pos PG_le OV_lt M_le).
Local Notation src_take_nul := (StrOps.src_take_nul M TH PG OV jk M_pos TH_ge PG_pos PG_le OV_lt M_le).
Local Notation take_with_nul := (StrOps.take_with_nul M TH PG OV jk M_pos TH_ge PG_pos PG_le OV_lt M_le).
Local Notation abs_of_prefix := (StrOps.abs_of_prefix M TH PG OV jk M_pos TH_ge PG_pos PG_le OV_lt M_le).
Local Notation ensure_grow_ok := (StrOps.ensure_grow_ok M TH PG OV jk M_pos TH_ge PG_pos PG_le OV_lt M_le).
Local Notation ensure_noretain_ok := (StrOps.ensure_noretain_ok M TH PG OV jk M_pos TH_ge PG_pos PG_le OV_lt M_le).
Local Notation commit_set := (StrOps.commit_set M TH PG OV jk M_pos TH_ge PG_pos PG_le OV_lt M_le).
Local Notation commit_append := (StrOps.commit_append M TH PG OV jk M_pos TH_ge PG_pos PG_le OV_lt M_le).
Local Notation cap_lt := (StrOps.cap_lt M TH PG OV jk M_pos TH_ge PG_pos PG_le OV_lt M_le).
Local Notation takeN_min_len := (StrOps.takeN_min_len M TH PG OV jk M_pos TH_ge PG_pos PG_le OV_lt M_le).
Local Notation dropN_min_len := (StrOps.dropN_min_len M TH PG OV jk M_pos TH_ge PG_pos PG_le OV_lt M_le).
Local Notation clear_spec := (StrOps.clear_spec M TH PG OV jk M_pos TH_ge PG_pos PG_le OV_lt M_le).
Local Notation cstr_region_self := (StrOps.cstr_region_self M TH PG OV jk M_pos TH_ge PG_pos PG_le OV_lt M_le).
Local Notation cstr_cregion := (StrOps.cstr_cregion M TH PG OV jk M_pos TH_ge PG_pos PG_le OV_lt M_le).
Local Notation set_cstr_spec := (StrOps.set_cstr_spec M TH PG OV jk M_pos TH_ge PG_pos PG_le OV_lt M_le).
Local Notation set_from_spec := (StrOps.set_from_spec M TH PG OV jk M_pos TH_ge PG_pos PG_le OV_lt M_le).
Local Notation append_s_spec := (StrOps.append_s_spec M TH PG OV jk M_pos TH_ge PG_pos PG_le OV_lt M_le).
Local Notation append_c_spec := (StrOps.append_c_spec M TH PG OV jk M_pos TH_ge PG_pos PG_le OV_lt M_le).
Local Notation append_ch_spec := (StrOps.append_ch_spec M TH PG OV jk M_pos TH_ge PG_pos PG_le OV_lt M_le).
Local Notation insert_core := (StrOps.insert_core M TH PG OV jk M_pos TH_ge PG_pos PG_le OV_lt M_le).
Local Notation concat_rep1 := (StrOps.concat_rep1 M TH PG OV jk M_pos TH_ge PG_pos PG_le OV_lt M_le).
Local Notation lenN_concat_rep := (StrOps.lenN_concat_rep M TH PG OV jk M_pos TH_ge PG_pos PG_le OV_lt M_le).
Local Notation insert_aux_ext := (StrOps.insert_aux_ext M TH PG OV jk M_pos TH_ge PG_pos PG_le OV_lt M_le).
Local Notation insert_chars_spec := (StrOps.insert_chars_spec M TH PG OV jk M_pos TH_ge PG_pos PG_le OV_lt M_le).
Local Notation prealloc_safe := (StrOps.prealloc_safe M TH PG OV jk M_pos TH_ge PG_pos PG_le OV_lt M_le).
Local Notation prealloc_ok := (StrOps.prealloc_ok M TH PG OV jk M_pos TH_ge PG_pos PG_le OV_lt M_le).
Local Notation shrink_safe := (StrOps.shrink_safe M TH PG OV jk M_pos TH_ge PG_pos PG_le OV_lt M_le).
Local Notation trunc_spec := (StrOps.trunc_spec M TH PG OV jk M_pos TH_ge PG_pos PG_le OV_lt M_le).
Local Notation trunc_chars_spec := (StrOps.trunc_chars_spec M TH PG OV jk M_pos TH_ge PG_pos PG_le OV_lt M_le).
Local Notation trunc_to_spec := (StrOps.trunc_to_spec M TH PG OV jk M_pos TH_ge PG_pos PG_le OV_lt M_le).
Local Notation flatten_spec := (StrOps.flatten_spec M TH PG OV jk M_pos TH_ge PG_pos PG_le OV_lt M_le).
Local Notation cstr_fixpoint_unterminated := (StrOps.cstr_fixpoint_unterminated M TH PG OV jk M_pos TH_ge PG_pos PG_le OV_lt M_le).
Local Notation unflatten_spec := (StrOps.unflatten_spec M TH PG OV jk M_pos TH_ge PG_pos PG_le OV_lt M_le).
Local Notation ctor_sub_spec := (StrOps.ctor_sub_spec M TH PG OV jk M_pos TH_ge PG_pos PG_le OV_lt M_le).
Local Notation l0_sub_all := (StrOps.l0_sub_all M TH PG OV jk M_pos TH_ge PG_pos PG_le OV_lt M_le).
Local Notation l0_sub_all' := (StrOps.l0_sub_all' M TH PG OV jk M_pos TH_ge PG_pos PG_le OV_lt M_le).
Local Notation ctor_copy_spec := (StrOps.ctor_copy_spec M TH PG OV jk M_pos TH_ge PG_pos PG_le OV_lt M_le).
Local Notation ctor_copy_pre_spec := (StrOps.ctor_copy_pre_spec M TH PG OV jk M_pos TH_ge PG_pos PG_le OV_lt M_le).
Local Notation ctor_pre_lit_spec := (StrOps.ctor_pre_lit_spec M TH PG OV jk M_pos TH_ge PG_pos PG_le OV_lt M_le).
Local Notation commit_at := (StrOps.commit_at M TH PG OV jk M_pos TH_ge PG_pos PG_le OV_lt M_le).
Local Notation cut_spec := (StrOps.cut_spec M TH PG OV jk M_pos TH_ge PG_pos PG_le OV_lt M_le).
Local Notation map_content_spec := (StrOps.map_content_spec M TH PG OV jk M_pos TH_ge PG_pos PG_le OV_lt M_le).
Local Notation reverse_spec := (StrOps.reverse_spec M TH PG OV jk M_pos TH_ge PG_pos PG_le OV_lt M_le).
Local Notation lenN_replace_ch_aux := (StrOps.lenN_replace_ch_aux M TH PG OV jk M_pos TH_ge PG_pos PG_le OV_lt M_le).
Local Notation lenN_replace_ch := (StrOps.lenN_replace_ch M TH PG OV jk M_pos TH_ge PG_pos PG_le OV_lt M_le).
Local Notation replace_ch_spec := (StrOps.replace_ch_spec M TH PG OV jk M_pos TH_ge PG_pos PG_le OV_lt M_le).
Local Notation minus_ch_spec := (StrOps2.minus_ch_spec M TH PG OV jk M_pos TH_ge PG_pos PG_le OV_lt M_le).
Local Notation cut_found := (StrOps2.cut_found M TH PG OV jk M_pos TH_ge PG_pos PG_le OV_lt M_le).
Local Notation l0_minus_self := (StrOps2.l0_minus_self M TH PG OV jk M_pos TH_ge PG_pos PG_le OV_lt M_le).
Local Notation minus_s_spec := (StrOps2.minus_s_spec M TH PG OV jk M_pos TH_ge PG_pos PG_le OV_lt M_le).
Local Notation minus_c_spec := (StrOps2.minus_c_spec M TH PG OV jk M_pos TH_ge PG_pos PG_le OV_lt M_le).
Local Notation replace_s_spec := (StrOps2.replace_s_spec M TH PG OV jk M_pos TH_ge PG_pos PG_le OV_lt M_le).
Local Notation src_ok := StrOps.src_ok.
Local Notation osrc_ok := StrOps.osrc_ok.
Local Notation carg_ok := StrOps.carg_ok.
Local Notation slen := (slen M).
Local Notation cap := (cap M).
Local Notation abs := (abs M).
Local Notation inv := (inv M).
Local Notation commit := (commit M).
Local Notation empty1 := (empty1 M jk).
Local Notation osrc := (osrc M).
Local Notation src_of := (src_of M).
Local Notation ctor_copy := (ctor_copy M TH PG OV jk true).
Local Notation ctor_sub := (ctor_sub M TH PG OV jk true).
Local Notation ctor_copy_pre := (ctor_copy_pre M TH PG OV jk true).
Local Notation with_insert := (with_insert M TH PG OV jk true).
Local Notation with_insert_ch := (with_insert_ch M TH PG OV jk true).
Local Notation padded1 := (padded1 M TH PG OV jk true).
Local Notation trimmed1 := (trimmed1 M TH PG OV jk true).
Local Notation case1 := (case1 M TH PG OV jk true).
Local Notation insert_aux := (insert_aux M TH PG OV jk true).
Local Notation plus_s := (plus_s M TH PG OV jk true).
Local Notation arg1 := (arg1 M TH PG OV jk true).
Local Notation replace_s1 := (replace_s1 M TH PG OV jk true).
Local Notation trunc_chars := (trunc_chars M).
Local Notation without_suffix_loop := (without_suffix_loop M).
Local Notation without_prefix_loop := (without_prefix_loop M TH PG OV jk true).
Local Notation without_suffix_ch_loop := (without_suffix_ch_loop M).
Local Notation strip_digits_loop := (strip_digits_loop M).
Local Notation replace_ch1 := (replace_ch1 M).
Local Notation without_suffix_nc_loop := (without_suffix_nc_loop M).
Local Notation with_word := (with_word M TH PG OV jk true).
Local Notation indent_loop := (indent_loop M TH PG OV jk true).
Local Notation indented1 := (indented1 M TH PG OV jk true).
Local Notation esc_loop := (esc_loop M TH PG OV jk true).
Local Notation escaped1 := (escaped1 M TH PG OV jk true).
Local Notation multi_loop := (multi_loop M TH PG OV jk true).
Local Notation append_ch_times := (append_ch_times M TH PG OV jk true).
Local Notation float_text1 := (float_text1 M TH PG OV jk true).
Local Notation replace_multi1 := (replace_multi1 M TH PG OV jk true).
Local Notation append_s := (append_s M TH PG OV jk true).
Local Notation append_ch := (append_ch M TH PG OV jk true).
Local Notation append_c := (append_c M TH PG OV jk true).
Local Notation without_prefix_nc_loop := (without_prefix_nc_loop M TH PG OV jk true).

(* what every producer needs from the subject: the invariant and a size below LIM *)
Definition subj_ok (s : str1) : Prop := inv s /\ slen s < LIM.

Lemma copy_spec s : subj_ok s -> inv (ctor_copy (src_of s)) /\ abs (ctor_copy (src_of s)) = abs s.
Proof. intros [I B]. apply (ctor_copy_spec (src_of s)); [now apply src_ok_of|exact B]. Qed.
Lemma sub_spec s first after : subj_ok s ->
  inv (ctor_sub (src_of s) first after) /\ abs (ctor_sub (src_of s) first after) = l0_sub (abs s) first after.
Proof. intros [I B]. apply (ctor_sub_spec (src_of s)); [now apply src_ok_of|exact B]. Qed.
Lemma copy_pre_spec s extra : subj_ok s ->
  inv (ctor_copy_pre (src_of s) extra) /\ abs (ctor_copy_pre (src_of s) extra) = abs s.
Proof. intros [I B]. apply (ctor_copy_pre_spec (src_of s)); [now apply src_ok_of|exact B]. Qed.

(* the first byte of a terminated NUL-free source is NUL exactly when the source is empty *)
Lemma src_first o : src_ok o -> nulfree (src_bytes o) -> (nthN 0 (fst o) = 0 <-> snd o = 0).
Proof.
  intros [L Z] F. split.
  - intros H. destruct (N.eq_dec (snd o) 0) as [E|E]; trivial.
    assert (X : nthN 0 (src_bytes o) = 0) by (unfold src_bytes; rewrite nthN_takeN by lia; exact H).
    unfold src_bytes in *. destruct (takeN (snd o) (fst o)) as [|a t] eqn:D.
    + apply (f_equal lenN) in D. rewrite lenN_takeN, lenN_nil in D. lia.
    + inversion F; subst. rewrite nthN_cons_0 in X. congruence.
  - intros E. rewrite E in Z. exact Z.
Qed.

Lemma l0_insert_nil l idx : l0_insert l idx [] = l.
Proof. unfold l0_insert. cbn [app]. apply takeN_dropN. Qed.

Lemma with_insert_spec s idx o max :
  subj_ok s -> src_ok o -> nulfree (src_bytes o) -> slen s + snd o + 1 <= LIM ->
  inv (with_insert s idx o max) /\ abs (with_insert s idx o max) = l0_insert (abs s) idx (takeN max (src_bytes o)).
Proof.
  intros S O F B. unfold StrModel.with_insert.
  destruct (copy_spec s S) as (Ic & Ac). set (c := ctor_copy (src_of s)) in *.
  set (n := N.min (snd o) max).
  assert (Ed : takeN n (fst o) = takeN max (src_bytes o)).
  { unfold src_bytes, n. rewrite takeN_takeN. f_equal. lia. }
  destruct (N.eq_dec n 0) as [En|En].
  { (* nothing to insert *)
    assert (X : snd (insert_aux c idx (Some (fst o)) false n 1) = c).
    { unfold StrModel.insert_aux. rewrite En. now rewrite orb_true_r. }
    rewrite X. split; trivial. rewrite <- Ed, En, takeN_0, l0_insert_nil. exact Ac. }
  assert (N0 : nthN 0 (fst o) <> 0).
  { intros H. apply (src_first o O F) in H. unfold n in En. lia. }
  destruct (insert_aux_ext c idx (fst o) n 1 Ic N0 En) as (s' & E & I' & A').
  - destruct O as [L _]. unfold n. lia.
  - assert (slen c = slen s) by (rewrite <- (lenN_abs c Ic), Ac; apply (lenN_abs s (proj1 S))). unfold n. lia.
  - rewrite E. cbn [snd]. split; trivial. rewrite A', concat_rep1, Ac, Ed. reflexivity.
Qed.

Lemma concat_rep_single (ch : N) k : concat (repN [ch] k) = repN ch k.
Proof. unfold repN. induction (N.to_nat k) as [|j IH]; cbn [repeat concat app]; [reflexivity|now rewrite IH]. Qed.

Lemma with_insert_ch_spec s idx ch count :
  subj_ok s -> slen s + count + 1 <= LIM ->
  inv (with_insert_ch s idx ch count) /\
  abs (with_insert_ch s idx ch count) = (if ch =? 0 then abs s else l0_insert (abs s) idx (repN ch count)).
Proof.
  intros S B. unfold StrModel.with_insert_ch.
  destruct (copy_pre_spec s count S) as (Ic & Ac). set (c := ctor_copy_pre (src_of s) count) in *.
  destruct (ch =? 0) eqn:E0.
  { assert (X : snd (insert_aux c idx (Some [ch]) false 1 count) = c).
    { unfold StrModel.insert_aux. rewrite nthN_cons_0, E0. reflexivity. }
    rewrite X. split; trivial. }
  apply N.eqb_neq in E0.
  destruct (insert_aux_ext c idx [ch] 1 count Ic) as (s' & E & I' & A').
  - now rewrite nthN_cons_0.
  - discriminate.
  - rewrite lenN_cons, lenN_nil. lia.
  - assert (slen c = slen s) by (rewrite <- (lenN_abs c Ic), Ac; apply (lenN_abs s (proj1 S))). lia.
  - rewrite E. cbn [snd]. split; trivial. rewrite A', Ac.
    replace (takeN 1 [ch]) with [ch] by (symmetry; apply takeN_all; rewrite lenN_cons, lenN_nil; lia).
    now rewrite concat_rep_single.
Qed.

Lemma l0_insert_front l x : l0_insert l 0 x = x ++ l.
Proof. unfold l0_insert. rewrite N.min_0_l, takeN_0, dropN_0. reflexivity. Qed.
Lemma l0_insert_back l idx x : lenN l <= idx -> l0_insert l idx x = l ++ x.
Proof. intros H. unfold l0_insert. rewrite N.min_r by lia. rewrite takeN_all, dropN_all by lia. now rewrite app_nil_r. Qed.

Lemma padded_spec s minLen right ch :
  subj_ok s -> minLen + 1 <= LIM ->
  inv (padded1 s minLen right ch) /\ abs (padded1 s minLen right ch) = l0_padded (abs s) minLen right ch.
Proof.
  intros S B. unfold StrModel.padded1, l0_padded. rewrite (lenN_abs s (proj1 S)).
  destruct (slen s <? minLen) eqn:E.
  - apply N.ltb_lt in E.
    destruct (with_insert_ch_spec s (if right then NOLIMIT else 0) ch (minLen - slen s) S) as (I' & A'); [lia|].
    split; trivial. rewrite A'. destruct (ch =? 0); cbn [negb andb]; [reflexivity|].
    destruct right.
    + apply l0_insert_back. rewrite (lenN_abs s (proj1 S)). destruct S as [_ S]. unfold LIM, NOLIMIT in *. lia.
    + apply l0_insert_front.
  - cbn [andb]. apply copy_spec; trivial.
Qed.

Lemma case_spec s f : subj_ok s -> (forall l, lenN (f l) = lenN l) ->
  inv (case1 s f) /\ abs (case1 s f) = f (abs s).
Proof.
  intros S Hf. unfold StrModel.case1.
  destruct (copy_spec s S) as (Ic & Ac).
  destruct (map_content_spec (ctor_copy (src_of s)) f Ic) as (I' & A').
  - rewrite Hf. apply (lenN_abs _ Ic).
  - split; trivial. now rewrite A', Ac.
Qed.
Lemma lenN_mixed_aux b l : lenN (mixed_aux b l) = lenN l.
Proof. revert b. induction l as [|x l IH]; intros b; cbn [mixed_aux]; [reflexivity|]. now rewrite !lenN_cons, IH. Qed.

(* Trimmed(): the trimmed string is a slice of the original *)
Lemma drop_while_suffix p l : exists pre, l = pre ++ drop_while p l.
Proof.
  induction l as [|x l [pre IH]]; [exists []; reflexivity|]. cbn [drop_while].
  destruct (p x); [exists (x :: pre); cbn [app]; now rewrite <- IH|exists []; reflexivity].
Qed.
Lemma trimmed_slice l :
  let start := lenN l - lenN (drop_while is_space4 l) in
  l0_sub l start (start + lenN (l0_trimmed l)) = l0_trimmed l.
Proof.
  intros start. unfold l0_trimmed in *.
  destruct (drop_while_suffix is_space4 l) as [pre Hl]. set (d := drop_while is_space4 l) in *.
  destruct (drop_while_suffix is_space4 (rev d)) as [pre2 Hd]. set (t := rev (drop_while is_space4 (rev d))) in *.
  assert (Ed : d = t ++ rev pre2).
  { rewrite <- (rev_involutive d). rewrite Hd. rewrite rev_app_distr. reflexivity. }
  assert (Es : start = lenN pre) by (unfold start; rewrite Hl at 1; rewrite lenN_app; lia).
  unfold l0_sub. rewrite Es.
  assert (Ll : lenN l = lenN pre + lenN t + lenN pre2).
  { rewrite Hl, lenN_app, Ed, lenN_app, lenN_rev. lia. }
  rewrite N.min_l by lia.
  destruct (lenN pre <? lenN pre + lenN t) eqn:E.
  - replace (lenN pre + lenN t - lenN pre) with (lenN t) by lia.
    rewrite Hl, dropN_app_exact, Ed. apply takeN_app_exact.
  - apply N.ltb_ge in E. symmetry. apply lenN_0. lia.
Qed.
Lemma trimmed_spec s : subj_ok s -> inv (trimmed1 s) /\ abs (trimmed1 s) = l0_trimmed (abs s).
Proof.
  intros S. unfold StrModel.trimmed1.
  destruct (sub_spec s (lenN (abs s) - lenN (drop_while is_space4 (abs s)))
                     (lenN (abs s) - lenN (drop_while is_space4 (abs s)) + lenN (l0_trimmed (abs s))) S) as (I' & A').
  split; trivial. rewrite A'. apply trimmed_slice.
Qed.

Lemma plus_spec s o :
  subj_ok s -> src_ok o -> slen s + snd o + 1 <= LIM ->
  inv (plus_s s o) /\ abs (plus_s s o) = abs s ++ src_bytes o.
Proof.
  intros [I Bs] O B. unfold StrModel.plus_s.
  destruct inv_empty1 as (I0 & _).
  destruct (prealloc_safe empty1 (u32 (slen s + snd o)) I0) as (I1 & _).
  set (r0 := snd (StrModel.prealloc M TH PG OV jk true empty1 (u32 (slen s + snd o)))) in *.
  destruct (set_from_spec r0 (Some (src_of s)) 0 NOLIMIT I1) as (r1 & E & I2 & A2).
  { split; [now apply src_ok_of|exact Bs]. }
  rewrite E. cbn [snd]. cbn [StrModel.osrc] in A2.
  rewrite l0_sub_all' in A2 by (rewrite lenN_src_bytes by (now apply src_ok_of); exact Bs).
  change (src_bytes (src_of s)) with (abs s) in A2.
  assert (L1 : slen r1 = slen s) by (rewrite <- (lenN_abs r1 I2), A2; apply (lenN_abs s I)).
  destruct (append_s_spec r1 (Some o) I2) as (I3 & A3).
  - split; trivial. unfold LIM in *. lia.
  - cbn [StrModel.osrc]. lia.
  - split; trivial. rewrite A3, A2. reflexivity.
Qed.

(* ---------------------------------------------------------------- With(out)Suffix / With(out)Prefix loops *)

Lemma l0_trunc_chars_len l n : lenN (l0_trunc_chars l n) <= lenN l.
Proof. unfold l0_trunc_chars. rewrite lenN_takeN. lia. Qed.

Lemma without_suffix_loop_spec f r suf max : inv r ->
  inv (without_suffix_loop f r suf max) /\ abs (without_suffix_loop f r suf max) = strip_suffix_fuel f (abs r) suf max.
Proof.
  revert r max. induction f as [|f IH]; intros r max I; cbn [StrModel.without_suffix_loop strip_suffix_fuel]; [split; trivial|].
  destruct ((0 <? max) && ends_with (abs r) suf); [|split; trivial].
  destruct (trunc_chars_spec r (lenN suf) I) as (I' & A'). rewrite <- A'. now apply IH.
Qed.
Lemma without_suffix_ch_loop_spec f r ch max : inv r ->
  inv (without_suffix_ch_loop f r ch max) /\ abs (without_suffix_ch_loop f r ch max) = strip_suffix_fuel f (abs r) [ch] max.
Proof.
  revert r max. induction f as [|f IH]; intros r max I; cbn [StrModel.without_suffix_ch_loop strip_suffix_fuel]; [split; trivial|].
  destruct ((0 <? max) && ends_with (abs r) [ch]); [|split; trivial].
  destruct (trunc_chars_spec r 1 I) as (I' & A'). change (lenN [ch]) with 1. rewrite <- A'. now apply IH.
Qed.

Lemma l0_sub_from l k : lenN l < LIM -> l0_sub l k NOLIMIT = dropN k l.
Proof.
  intros H. unfold l0_sub. rewrite N.min_r by (unfold LIM, NOLIMIT in *; lia).
  destruct (k <? lenN l) eqn:E.
  - apply takeN_all. rewrite lenN_dropN. lia.
  - apply N.ltb_ge in E. symmetry. now apply dropN_all.
Qed.
Lemma without_prefix_loop_spec f r pre max : subj_ok r ->
  inv (without_prefix_loop f r pre max) /\ abs (without_prefix_loop f r pre max) = strip_prefix_fuel f (abs r) pre max.
Proof.
  revert r max. induction f as [|f IH]; intros r max S; cbn [StrModel.without_prefix_loop strip_prefix_fuel]; [split; [apply S|trivial]|].
  destruct ((0 <? max) && starts_with (abs r) pre); [|split; [apply S|trivial]].
  destruct (sub_spec r (lenN pre) NOLIMIT S) as (I' & A').
  assert (Lr : lenN (abs r) < LIM) by (rewrite (lenN_abs r (proj1 S)); apply S).
  rewrite (l0_sub_from _ _ Lr) in A'. rewrite <- A'. apply IH.
  split; trivial. rewrite <- (lenN_abs _ I'), A', lenN_dropN. lia.
Qed.

Lemma strip_ch_prefix_suffix l ch max : exists pre, l = pre ++ strip_ch_prefix l ch max.
Proof.
  revert max. induction l as [|x l IH]; intros max; [exists []; reflexivity|]. cbn [strip_ch_prefix].
  destruct ((0 <? max) && (x =? ch)); [|exists []; reflexivity].
  destruct (IH (max - 1)) as [pre H]. exists (x :: pre). cbn [app]. now rewrite <- H.
Qed.
Lemma without_prefix_ch_spec s ch max : subj_ok s ->
  let r := ctor_sub (src_of s) (lenN (abs s) - lenN (l0_without_prefix_ch (abs s) ch max)) NOLIMIT in
  inv r /\ abs r = l0_without_prefix_ch (abs s) ch max.
Proof.
  intros S r. unfold r, l0_without_prefix_ch.
  destruct (sub_spec s (lenN (abs s) - lenN (strip_ch_prefix (abs s) ch max)) NOLIMIT S) as (I' & A').
  split; trivial. rewrite A'.
  assert (Lr : lenN (abs s) < LIM) by (rewrite (lenN_abs s (proj1 S)); apply S).
  rewrite (l0_sub_from _ _ Lr).
  destruct (strip_ch_prefix_suffix (abs s) ch max) as [pre H].
  set (t := strip_ch_prefix (abs s) ch max) in *. clearbody t.
  rewrite H, lenN_app. replace (lenN pre + lenN t - lenN t) with (lenN pre) by lia.
  apply dropN_app_exact.
Qed.

(* WithoutNumericSuffix *)
Lemma strip_digits_loop_spec f r : inv r -> (length (abs r) < f)%nat ->
  inv (strip_digits_loop f r) /\
  abs (strip_digits_loop f r) = takeN (lenN (abs r) - lenN (digits_prefix (rev (abs r)))) (abs r).
Proof.
  revert r. induction f as [|f IH]; intros r I Hf; [lia|]. cbn [StrModel.strip_digits_loop].
  destruct (rev (abs r)) as [|c t] eqn:E.
  - split; trivial. cbn [digits_prefix]. rewrite lenN_nil, N.sub_0_r. symmetry. apply takeN_all. lia.
  - assert (El : abs r = rev t ++ [c]) by (rewrite <- (rev_involutive (abs r)), E; reflexivity).
    cbn [digits_prefix]. destruct (is_digit c).
    + destruct (trunc_chars_spec r 1 I) as (I' & A').
      assert (At : abs (trunc_chars r 1) = rev t).
      { rewrite A'. unfold l0_trunc_chars. rewrite El, lenN_app, lenN_cons, lenN_nil.
        replace (lenN (rev t) + (0 + 1) - N.min (lenN (rev t) + (0 + 1)) 1) with (lenN (rev t)) by lia. apply takeN_app_exact. }
      destruct (IH (trunc_chars r 1) I') as (I2 & A2).
      { rewrite At. rewrite El, app_length in Hf. cbn [length] in Hf. lia. }
      split; trivial. rewrite A2, At, rev_involutive. rewrite El, lenN_app, !lenN_cons, lenN_nil.
      rewrite takeN_app_le by lia. f_equal. lia.
    + split; trivial. rewrite lenN_nil, N.sub_0_r. symmetry. apply takeN_all. lia.
Qed.
Lemma without_num_suffix_spec s : subj_ok s ->
  let r := strip_digits_loop (S (length (abs s))) (ctor_copy (src_of s)) in
  inv r /\ abs r = fst (l0_without_num_suffix (abs s)).
Proof.
  intros Sb r. unfold r. destruct (copy_spec s Sb) as (Ic & Ac).
  destruct (strip_digits_loop_spec (S (length (abs s))) (ctor_copy (src_of s)) Ic) as (I' & A'); [rewrite Ac; lia|].
  split; trivial. rewrite A', Ac. unfold l0_without_num_suffix, digits_suffix. cbn [fst]. now rewrite lenN_rev.
Qed.

(* Arg(): the lowest token is replaced in a copy *)
Lemma arg_spec s value :
  subj_ok s -> nulfree (abs s) -> nulfree value -> lenN value < LIM -> slen s + lenN value * slen s + 1 <= LIM ->
  inv (arg1 s value) /\ abs (arg1 s value) = l0_arg (abs s) value.
Proof.
  intros Sb Fs F Bv B. unfold StrModel.arg1, l0_arg.
  destruct (copy_spec s Sb) as (Ic & Ac).
  destruct (0 <=? arg_scan (S (length (abs s))) (abs s) (-1))%Z; [|split; trivial].
  set (tok := 37 :: dec_of_Z (arg_scan (S (length (abs s))) (abs s) (-1))).
  assert (Lc : slen (ctor_copy (src_of s)) = slen s) by (rewrite <- (lenN_abs _ Ic), Ac; apply (lenN_abs s (proj1 Sb))).
  assert (Fc : nulfree (abs (ctor_copy (src_of s)))) by now rewrite Ac.
  pose proof (replace_s_spec (ctor_copy (src_of s)) (Some (src_lit tok)) (Some (src_lit value)) NOLIMIT 0 Ic Fc) as R.
  cbn zeta in R. cbn [StrModel.osrc] in R. rewrite !src_bytes_lit, Ac in R.
  destruct R as (R1 & R2 & _).
  - split; [apply src_ok_lit|exact Bv].
  - cbn [src_lit snd]. rewrite Lc. exact B.
  - split; trivial.
Qed.

(* ---------------------------------------------------------------- the IgnoreCase loops *)

Lemma without_suffix_nc_loop_spec f r suf max : inv r ->
  inv (without_suffix_nc_loop f r suf max) /\ abs (without_suffix_nc_loop f r suf max) = strip_suffix_nc_fuel f (abs r) suf max.
Proof.
  revert r max. induction f as [|f IH]; intros r max I; cbn [StrModel.without_suffix_nc_loop strip_suffix_nc_fuel]; [split; trivial|].
  destruct ((0 <? max) && ends_with_nocase (abs r) suf); [|split; trivial].
  destruct (trunc_chars_spec r (lenN suf) I) as (I' & A'). rewrite <- A'. now apply IH.
Qed.
Lemma without_prefix_nc_loop_spec f r pre max : subj_ok r ->
  inv (without_prefix_nc_loop f r pre max) /\ abs (without_prefix_nc_loop f r pre max) = strip_prefix_nc_fuel f (abs r) pre max.
Proof.
  revert r max. induction f as [|f IH]; intros r max Sb; cbn [StrModel.without_prefix_nc_loop strip_prefix_nc_fuel]; [split; [apply Sb|trivial]|].
  destruct ((0 <? max) && starts_with_nocase (abs r) pre); [|split; [apply Sb|trivial]].
  destruct (sub_spec r (lenN pre) NOLIMIT Sb) as (I' & A').
  assert (Lr : lenN (abs r) < LIM) by (rewrite (lenN_abs r (proj1 Sb)); apply Sb).
  rewrite (l0_sub_from _ _ Lr) in A'. rewrite <- A'. apply IH.
  split; trivial. rewrite <- (lenN_abs _ I'), A', lenN_dropN. lia.
Qed.
Lemma strip_ch_prefix_nc_suffix l ch max : exists pre, l = pre ++ strip_ch_prefix_nc l ch max.
Proof.
  revert max. induction l as [|x l IH]; intros max; [exists []; reflexivity|]. cbn [strip_ch_prefix_nc].
  destruct ((0 <? max) && ((x =? to_upper ch) || (x =? to_lower ch))); [|exists []; reflexivity].
  destruct (IH (max - 1)) as [pre H]. exists (x :: pre). cbn [app]. now rewrite <- H.
Qed.
Lemma without_prefix_ch_nc_spec s ch max : subj_ok s ->
  let r := ctor_sub (src_of s) (lenN (abs s) - lenN (strip_ch_prefix_nc (abs s) ch max)) NOLIMIT in
  inv r /\ abs r = strip_ch_prefix_nc (abs s) ch max.
Proof.
  intros Sb r. unfold r.
  destruct (sub_spec s (lenN (abs s) - lenN (strip_ch_prefix_nc (abs s) ch max)) NOLIMIT Sb) as (I' & A').
  split; trivial. rewrite A'.
  assert (Lr : lenN (abs s) < LIM) by (rewrite (lenN_abs s (proj1 Sb)); apply Sb).
  rewrite (l0_sub_from _ _ Lr).
  destruct (strip_ch_prefix_nc_suffix (abs s) ch max) as [pre H].
  set (t := strip_ch_prefix_nc (abs s) ch max) in *. clearbody t.
  rewrite H, lenN_app. replace (lenN pre + lenN t - lenN t) with (lenN pre) by lia.
  apply dropN_app_exact.
Qed.

(* ---------------------------------------------------------------- WithInsertedWord *)

Lemma is_nil_len l : is_nil l = (lenN l =? 0).
Proof. destruct l; [reflexivity|]. rewrite lenN_cons. symmetry. apply N.eqb_neq. lia. Qed.

(* InsertCharsAux(idx, w(), w.Length(), 1) for a separate non-empty String w *)
Lemma ins_spec r idx w :
  inv r -> src_ok w -> nulfree (src_bytes w) -> snd w <> 0 -> slen r + snd w + 1 <= LIM ->
  let r' := snd (StrModel.insert_aux M TH PG OV jk true r idx (Some (fst w)) false (snd w) 1) in
  inv r' /\ abs r' = l0_insert (abs r) idx (src_bytes w).
Proof.
  intros Ir W Fw Nw B r'. unfold r'.
  assert (N0 : nthN 0 (fst w) <> 0) by (intros H; apply (src_first w W Fw) in H; contradiction).
  destruct (insert_aux_ext r idx (fst w) (snd w) 1 Ir N0 Nw) as (s' & E & I' & A').
  - destruct W as [L _]. lia.
  - lia.
  - rewrite E. cbn [snd]. split; trivial. rewrite A', concat_rep1. reflexivity.
Qed.

(* a copy (with extra preallocation) followed by the insertion of w *)
Lemma copy_pre_insert o extra idx w :
  src_ok o -> snd o < LIM -> src_ok w -> nulfree (src_bytes w) -> snd w <> 0 -> snd o + snd w + 1 <= LIM ->
  let r := snd (StrModel.insert_aux M TH PG OV jk true (ctor_copy_pre o extra) idx (Some (fst w)) false (snd w) 1) in
  inv r /\ abs r = l0_insert (src_bytes o) idx (src_bytes w).
Proof.
  intros O Bo W Fw Nw B.
  destruct (ctor_copy_pre_spec o extra O Bo) as (Ic & Ac).
  assert (Lc : slen (ctor_copy_pre o extra) = snd o) by (rewrite <- (lenN_abs _ Ic), Ac; now apply lenN_src_bytes).
  rewrite <- Ac. apply ins_spec; trivial. lia.
Qed.

Lemma with_word_spec s idx w sep :
  subj_ok s -> nulfree (abs s) -> src_ok w -> nulfree (src_bytes w) -> nulfree sep -> snd w < LIM ->
  slen s + snd w + 2 * lenN sep + 1 <= LIM ->
  inv (with_word s idx w sep) /\ abs (with_word s idx w sep) = l0_with_word (abs s) idx (src_bytes w) sep.
Proof.
  intros Sb F W Fw Fs Bw B. pose proof Sb as [I Bs].
  assert (Ls : lenN (abs s) = slen s) by apply (lenN_abs s I).
  assert (Lw : lenN (src_bytes w) = snd w) by now apply lenN_src_bytes.
  assert (Ome : src_ok (src_of s)) by now apply src_ok_of.
  unfold StrModel.with_word, l0_with_word. rewrite !is_nil_len, Lw, Ls.
  destruct (snd w =? 0) eqn:E1; [now apply copy_spec|]. apply N.eqb_neq in E1.
  destruct (lenN sep =? 0) eqn:E2.
  { apply (copy_pre_insert (src_of s) (snd w) idx w); trivial. cbn [src_of snd]. apply N.eqb_eq in E2. lia. }
  apply N.eqb_neq in E2.
  assert (Osep : src_ok (src_lit sep)) by apply src_ok_lit.
  assert (Fsep : nulfree (src_bytes (src_lit sep))) by now rewrite src_bytes_lit.
  assert (Csep : carg_ok (CLit sep)) by (split; [exact Fs|unfold LIM in *; lia]).
  destruct (slen s <=? idx) eqn:E3.
  { (* appended *)
    apply N.leb_le in E3.
    destruct ((slen s =? 0) || ends_with (abs s) sep || starts_with (src_bytes w) sep).
    - destruct (copy_pre_insert (src_of s) (snd w) NOLIMIT w Ome Bs W Fw E1) as (I' & A'); [cbn [src_of snd]; lia|].
      split; trivial. rewrite A'. change (src_bytes (src_of s)) with (abs s). apply l0_insert_back. unfold NOLIMIT, LIM in *. lia.
    - destruct (with_insert_spec s NOLIMIT (src_lit sep) NOLIMIT Sb Osep Fsep) as (Iw & Aw); [cbn [src_lit snd]; lia|].
      set (x := StrModel.with_insert M TH PG OV jk true s NOLIMIT (src_lit sep) NOLIMIT) in *.
      rewrite src_bytes_lit in Aw. rewrite l0_insert_back in Aw by (unfold NOLIMIT, LIM in *; lia).
      rewrite takeN_all in Aw by (unfold NOLIMIT, LIM in *; lia).
      assert (Lx : slen x = slen s + lenN sep) by (rewrite <- (lenN_abs x Iw), Aw, lenN_app; lia).
      destruct (copy_pre_insert (src_of x) (snd w) NOLIMIT w (src_ok_of _ Iw)) as (I' & A'); trivial;
        try (cbn [src_of snd]; unfold LIM in *; lia).
      split; trivial. rewrite A'. change (src_bytes (src_of x)) with (abs x). rewrite Aw.
      apply l0_insert_back. rewrite lenN_app. unfold NOLIMIT, LIM in *. lia. }
  apply N.leb_gt in E3.
  destruct (idx =? 0) eqn:E4.
  { (* prepended *)
    destruct ((slen s =? 0) || starts_with (abs s) sep || ends_with (src_bytes w) sep).
    - destruct (copy_pre_insert (src_of s) (snd w) 0 w Ome Bs W Fw E1) as (I' & A'); [cbn [src_of snd]; lia|].
      split; trivial. rewrite A'. change (src_bytes (src_of s)) with (abs s). apply l0_insert_front.
    - destruct (with_insert_spec s 0 (src_lit sep) NOLIMIT Sb Osep Fsep) as (Iw & Aw); [cbn [src_lit snd]; lia|].
      set (x := StrModel.with_insert M TH PG OV jk true s 0 (src_lit sep) NOLIMIT) in *.
      rewrite src_bytes_lit, l0_insert_front in Aw.
      rewrite takeN_all in Aw by (unfold NOLIMIT, LIM in *; lia).
      assert (Lx : slen x = slen s + lenN sep) by (rewrite <- (lenN_abs x Iw), Aw, lenN_app; lia).
      destruct (copy_pre_insert (src_of x) (snd w) 0 w (src_ok_of _ Iw)) as (I' & A'); trivial;
        try (cbn [src_of snd]; unfold LIM in *; lia).
      split; trivial. rewrite A'. change (src_bytes (src_of x)) with (abs x). rewrite Aw. apply l0_insert_front. }
  apply N.eqb_neq in E4.
  (* in the middle *)
  destruct (sub_spec s idx NOLIMIT Sb) as (Ia & Aa).
  assert (Labs : lenN (abs s) < LIM) by (rewrite Ls; exact Bs).
  rewrite (l0_sub_from _ _ Labs) in Aa.
  set (after := ctor_sub (src_of s) idx NOLIMIT) in *.
  assert (La : slen after = slen s - idx) by (rewrite <- (lenN_abs after Ia), Aa, lenN_dropN; lia).
  destruct (sub_spec s 0 idx Sb) as (Ih & Ah).
  assert (Eh : l0_sub (abs s) 0 idx = takeN idx (abs s)).
  { unfold l0_sub. rewrite N.min_l by lia. assert (X : (0 <? idx) = true) by (apply N.ltb_lt; lia). rewrite X.
    now rewrite dropN_0, N.sub_0_r. }
  rewrite Eh in Ah. set (head := ctor_sub (src_of s) 0 idx) in *.
  assert (Lh : slen head = idx) by (rewrite <- (lenN_abs head Ih), Ah, lenN_takeN; lia).
  set (extra := u32 (u32 (snd w + slen after) + u32 (lenN sep * 2))).
  destruct (ctor_copy_pre_spec (src_of head) extra (src_ok_of _ Ih)) as (I0 & A0); [cbn [src_of snd]; unfold LIM in *; lia|].
  change (src_bytes (src_of head)) with (abs head) in A0. rewrite Ah in A0.
  set (r0 := ctor_copy_pre (src_of head) extra) in *.
  assert (L0 : slen r0 = idx) by (rewrite <- (lenN_abs r0 I0), A0, lenN_takeN; lia).
  set (a := takeN idx (abs s)) in *. set (b := dropN idx (abs s)) in *.
  assert (Fa : nulfree a) by now apply nulfree_takeN.
  assert (Fb : nulfree b) by now apply nulfree_dropN.
  assert (Lla : lenN a = idx) by (unfold a; rewrite lenN_takeN; lia).
  assert (Llb : lenN b = slen s - idx) by (unfold b; rewrite lenN_dropN; lia).
  rewrite A0, L0, Aa, La, Lla, Llb.
  assert (X0 : (0 <? idx) = true) by (apply N.ltb_lt; lia). rewrite X0.
  assert (X1 : (idx =? 0) = false) by (apply N.eqb_neq; lia). rewrite X1.
  assert (X2 : (0 <? slen s - idx) = true) by (apply N.ltb_lt; lia). rewrite X2.
  assert (X3 : (slen s - idx =? 0) = false) by (apply N.eqb_neq; lia). rewrite X3.
  cbn [negb andb].
  (* r1: the head, with a separator when needed *)
  set (c1 := negb (ends_with a sep) && negb (starts_with (src_bytes w) sep)).
  set (r1 := if c1 then append_c r0 (CLit sep) else r0).
  set (l1 := if c1 then a ++ sep else a).
  assert (R1 : inv r1 /\ abs r1 = l1).
  { unfold r1, l1. destruct c1; [|split; trivial].
    destruct (append_c_spec r0 (CLit sep) I0) as (Y1 & Y2); trivial.
    - now rewrite A0.
    - cbn [clit_of]. unfold LIM in *. lia.
    - split; trivial. rewrite Y2, A0. reflexivity. }
  destruct R1 as (I1 & A1).
  assert (Ll1 : lenN l1 <= idx + lenN sep) by (unfold l1; destruct c1; rewrite ?lenN_app; lia).
  assert (L1 : slen r1 = lenN l1) by (rewrite <- (lenN_abs r1 I1), A1; reflexivity).
  (* r2: the word appended *)
  destruct (ins_spec r1 NOLIMIT w I1 W Fw E1) as (I2 & A2); [unfold LIM in *; lia|].
  set (r2 := snd (StrModel.insert_aux M TH PG OV jk true r1 NOLIMIT (Some (fst w)) false (snd w) 1)) in *.
  rewrite A1, l0_insert_back in A2 by (unfold NOLIMIT, LIM in *; lia).
  assert (L2 : slen r2 = lenN l1 + snd w) by (rewrite <- (lenN_abs r2 I2), A2, lenN_app; lia).
  rewrite A2.
  (* r3: a separator before the tail when needed *)
  set (c3 := negb (ends_with (l1 ++ src_bytes w) sep) && negb (starts_with b sep)).
  set (r3 := if c3 then append_c r2 (CLit sep) else r2).
  set (l3 := if c3 then (l1 ++ src_bytes w) ++ sep else l1 ++ src_bytes w).
  assert (F2 : nulfree (l1 ++ src_bytes w)).
  { apply nulfree_app; split; trivial. unfold l1. destruct c1; trivial. apply nulfree_app; split; trivial. }
  assert (R3 : inv r3 /\ abs r3 = l3).
  { unfold r3, l3. destruct c3; [|split; trivial].
    destruct (append_c_spec r2 (CLit sep) I2) as (Y1 & Y2); trivial.
    - now rewrite A2.
    - cbn [clit_of]. unfold LIM in *. lia.
    - split; trivial. rewrite Y2, A2. reflexivity. }
  destruct R3 as (I3 & A3).
  assert (Ll3 : lenN l3 <= idx + 2 * lenN sep + snd w).
  { unfold l3. destruct c3; rewrite ?lenN_app, ?Lw; lia. }
  assert (L3 : slen r3 = lenN l3) by (rewrite <- (lenN_abs r3 I3), A3; reflexivity).
  (* the tail *)
  destruct (plus_spec r3 (src_of after)) as (I4 & A4).
  - split; trivial. unfold LIM in *. lia.
  - now apply src_ok_of.
  - cbn [src_of snd]. unfold LIM in *. lia.
  - split; trivial. rewrite A4, A3. change (src_bytes (src_of after)) with (abs after). rewrite Aa. reflexivity.
Qed.

(* ---------------------------------------------------------------- IndentedBy *)

Lemma indent_loop_spec pad l : src_ok pad -> snd pad < LIM -> forall seen r,
  inv r -> slen r + lenN l * (snd pad + 1) + 1 <= LIM ->
  inv (indent_loop pad seen l r) /\ abs (indent_loop pad seen l r) = indent_fold (src_bytes pad) seen l (abs r).
Proof.
  intros P Bp. assert (Lp : lenN (src_bytes pad) = snd pad) by now apply lenN_src_bytes.
  induction l as [|c t IH]; intros seen r I B; cbn [StrModel.indent_loop indent_fold]; [split; trivial|].
  rewrite lenN_cons in B.
  assert (Step : forall r', inv r' -> slen r' + 1 + lenN t * (snd pad + 1) + 1 <= LIM -> forall seen',
            inv (indent_loop pad seen' t (append_ch r' c)) /\
            abs (indent_loop pad seen' t (append_ch r' c)) = indent_fold (src_bytes pad) seen' t (abs r' ++ [c])).
  { intros r' I' B' seen'. destruct (append_ch_spec r' c I') as (Ia & Aa); [unfold LIM in *; lia|].
    rewrite <- Aa. apply IH; trivial. rewrite <- (lenN_abs _ Ia), Aa, lenN_app, (lenN_abs r' I'), lenN_cons, lenN_nil. lia. }
  destruct ((c =? 10) || (c =? 13)); [apply Step; trivial; nia|].
  destruct seen; [apply Step; trivial; nia|].
  destruct (append_s_spec r (Some pad) I) as (Ip & Ap).
  { split; trivial. }
  { cbn [StrModel.osrc]. nia. }
  cbn [StrModel.osrc] in Ap. rewrite <- Ap. apply Step; trivial.
  rewrite <- (lenN_abs _ Ip), Ap, lenN_app, (lenN_abs r I), Lp. nia.
Qed.

Lemma indented_spec s n ch :
  subj_ok s -> slen s * (n + 1) + n + 1 <= LIM ->
  inv (indented1 s n ch) /\ abs (indented1 s n ch) = l0_indented (abs s) n ch.
Proof.
  intros Sb B. pose proof Sb as [I Bs]. unfold StrModel.indented1, l0_indented.
  destruct ((n =? 0) || (ch =? 0)) eqn:E; [now apply copy_spec|].
  apply orb_false_iff in E. destruct E as [En Ec]. apply N.eqb_neq in En.
  destruct inv_empty1 as (I0 & S0 & A0 & _).
  assert (Se : subj_ok empty1) by (split; trivial; rewrite S0; unfold LIM; lia).
  destruct (padded_spec empty1 n false ch Se) as (Ip & Ap); [unfold LIM in *; nia|].
  set (pad := StrModel.padded1 M TH PG OV jk true empty1 n false ch) in *.
  unfold l0_padded in Ap. rewrite A0, lenN_nil in Ap.
  assert (X : (0 <? n) = true) by (apply N.ltb_lt; lia). rewrite X, Ec in Ap. cbn [negb andb] in Ap.
  rewrite N.sub_0_r, app_nil_r in Ap.
  assert (Lp : slen pad = n) by (rewrite <- (lenN_abs pad Ip), Ap; apply lenN_repN).
  assert (Pok : src_ok (src_of pad)) by now apply src_ok_of.
  assert (Bp : snd (src_of pad) < LIM) by (cbn [src_of snd]; rewrite Lp; unfold LIM in *; nia).
  rewrite <- Ap. change (abs pad) with (src_bytes (src_of pad)).
  destruct ((nthN 0 (abs s) =? 13) || (nthN 0 (abs s) =? 10)).
  - destruct (set_from_spec empty1 (Some (src_of pad)) 0 NOLIMIT I0) as (r0 & E0 & Ir & Ar); [split; trivial|].
    rewrite E0. cbn [snd]. cbn [StrModel.osrc] in Ar.
    rewrite l0_sub_all' in Ar by (rewrite lenN_src_bytes by trivial; exact Bp).
    destruct (indent_loop_spec (src_of pad) (abs s) Pok Bp false r0 Ir) as (X1 & X2).
    { rewrite <- (lenN_abs r0 Ir), Ar, lenN_src_bytes by trivial. cbn [src_of snd]. rewrite Lp, (lenN_abs s I). nia. }
    split; trivial. rewrite X2, Ar. reflexivity.
  - destruct (indent_loop_spec (src_of pad) (abs s) Pok Bp false empty1 I0) as (X1 & X2).
    { rewrite S0. cbn [src_of snd]. rewrite Lp, (lenN_abs s I). nia. }
    split; trivial. rewrite X2, A0. reflexivity.
Qed.

(* ---------------------------------------------------------------- WithCharsEscaped *)

Lemma esc_loop_spec seps esc l : forall pe pc r,
  inv r -> slen r + 2 * lenN l + 1 <= LIM ->
  inv (esc_loop seps esc pe pc l r) /\ abs (esc_loop seps esc pe pc l r) = esc_fold seps esc pe pc l (abs r).
Proof.
  induction l as [|cur t IH]; intros pe pc r I B; cbn [StrModel.esc_loop esc_fold]; [split; trivial|].
  rewrite lenN_cons in B.
  set (pre := negb pe && (is_sep seps cur || ((cur =? esc) && negb (nthN 0 t =? 0) && negb (nthN 0 t =? esc) && negb (is_sep seps (nthN 0 t))))).
  set (r1 := if pre then append_ch r esc else r).
  assert (R1 : inv r1 /\ abs r1 = (if pre then abs r ++ [esc] else abs r) /\ slen r1 <= slen r + 1).
  { unfold r1. destruct pre.
    - destruct (append_ch_spec r esc I) as (X1 & X2); [unfold LIM in *; lia|]. splits; trivial.
      rewrite <- (lenN_abs _ X1), X2, lenN_app, (lenN_abs r I), lenN_cons, lenN_nil. lia.
    - splits; trivial. lia. }
  destruct R1 as (I1 & A1 & L1).
  destruct (append_ch_spec r1 cur I1) as (I2 & A2); [unfold LIM in *; lia|].
  rewrite <- A1, <- A2. apply IH; trivial.
  rewrite <- (lenN_abs _ I2), A2, lenN_app, (lenN_abs r1 I1), lenN_cons, lenN_nil. lia.
Qed.

Lemma escaped_spec s seps esc :
  subj_ok s -> 3 * slen s + 1 <= LIM ->
  inv (escaped1 s seps esc) /\ abs (escaped1 s seps esc) = l0_escaped (abs s) seps esc.
Proof.
  intros Sb B. pose proof Sb as [I Bs]. unfold StrModel.escaped1, l0_escaped.
  destruct (esc =? 0); [now apply copy_spec|].
  destruct ((count_if (is_sep seps) (abs s) =? 0) && (count_ch esc (abs s) =? 0)); [now apply copy_spec|].
  destruct inv_empty1 as (I0 & S0 & A0 & _).
  set (n := u32 (slen s + u32 (2 * u32 (count_if (is_sep seps) (abs s) + count_ch esc (abs s))))).
  destruct (prealloc_safe empty1 n I0) as (Ip & Ap). rewrite A0 in Ap.
  set (r0 := snd (StrModel.prealloc M TH PG OV jk true empty1 n)) in *.
  assert (L0 : slen r0 = 0) by (rewrite <- (lenN_abs r0 Ip), Ap; reflexivity).
  destruct (esc_loop_spec seps esc (abs s) false 0 r0 Ip) as (X1 & X2).
  - rewrite L0, (lenN_abs s I). lia.
  - split; trivial. now rewrite X2, Ap.
Qed.

(* ---------------------------------------------------------------- Replace / WithReplacements(Hashtable) *)

Lemma multi_fuel_zero f pairs l max : snd (multi_fuel f pairs l max) = 0 -> fst (multi_fuel f pairs l max) = l.
Proof.
  revert l max. induction f as [|f IH]; intros l max H; cbn [multi_fuel] in *; [reflexivity|].
  destruct l as [|c t]; [reflexivity|].
  destruct (if 0 <? max then key_at pairs (c :: t) else None) as [[k v]|].
  - destruct (multi_fuel f pairs (dropN (lenN k) (c :: t)) (dec_max max)) as [r n]. cbn [snd] in H. lia.
  - specialize (IH t max). destruct (multi_fuel f pairs t max) as [r n]. cbn [fst snd] in *. now rewrite IH.
Qed.

Lemma key_at_nonempty pairs l k v : key_at pairs l = Some (k, v) -> 0 < lenN k /\ In (k, v) pairs.
Proof.
  unfold key_at. intros H. apply find_some in H. destruct H as [Hin H]. cbn [fst] in H.
  apply andb_true_iff in H. destruct H as [H _]. split; trivial.
  destruct k; [discriminate H|rewrite lenN_cons; lia].
Qed.

Lemma multi_loop_spec pairs : forall fuel l max r,
  (length l < fuel)%nat ->
  inv r -> slen r + lenN (fst (multi_fuel fuel pairs l max)) + 1 <= LIM ->
  inv (fst (multi_loop fuel pairs l max r)) /\
  abs (fst (multi_loop fuel pairs l max r)) = abs r ++ fst (multi_fuel fuel pairs l max) /\
  snd (multi_loop fuel pairs l max r) = snd (multi_fuel fuel pairs l max).
Proof.
  induction fuel as [|f IH]; intros l max r Hf I B; [lia|]. cbn [StrModel.multi_loop multi_fuel] in *.
  destruct l as [|c t]; [cbn [fst snd]; splits; trivial; now rewrite app_nil_r|].
  destruct (if 0 <? max then key_at pairs (c :: t) else None) as [[k v]|] eqn:EK.
  - assert (Kp : 0 < lenN k).
    { destruct (0 <? max); [|discriminate EK]. apply (key_at_nonempty _ _ _ _ EK). }
    assert (Hf' : (length (dropN (lenN k) (c :: t)) < f)%nat).
    { pose proof (lenN_dropN (lenN k) (c :: t)) as L. unfold lenN in L, Kp |- *. cbn [length] in Hf, L. lia. }
    specialize (IH (dropN (lenN k) (c :: t)) (dec_max max)).
    destruct (multi_fuel f pairs (dropN (lenN k) (c :: t)) (dec_max max)) as [res n] eqn:E0. cbn [fst snd] in *.
    rewrite lenN_app in B.
    destruct (append_s_spec r (Some (src_lit v)) I) as (I1 & A1).
    { split; [apply src_ok_lit|]. cbn [src_lit snd]. unfold LIM in *. lia. }
    { cbn [StrModel.osrc src_lit snd]. lia. }
    cbn [StrModel.osrc] in A1. rewrite src_bytes_lit in A1.
    specialize (IH (StrModel.append_s M TH PG OV jk true r (Some (src_lit v))) Hf' I1).
    destruct (multi_loop f pairs (dropN (lenN k) (c :: t)) (dec_max max) _) as [r' n'] eqn:E1. cbn [fst snd] in *.
    destruct IH as (X1 & X2 & X3).
    { rewrite <- (lenN_abs _ I1), A1, lenN_app, (lenN_abs r I). lia. }
    splits; trivial; [|lia]. rewrite X2, A1. now rewrite <- app_assoc.
  - specialize (IH t max).
    destruct (multi_fuel f pairs t max) as [res n] eqn:E0. cbn [fst snd] in *. rewrite lenN_cons in B.
    destruct (append_ch_spec r c I) as (I1 & A1); [unfold LIM in *; lia|].
    specialize (IH (StrModel.append_ch M TH PG OV jk true r c) ltac:(cbn [length] in Hf; lia) I1).
    destruct IH as (X1 & X2 & X3).
    { rewrite <- (lenN_abs _ I1), A1, lenN_app, (lenN_abs r I), lenN_cons, lenN_nil. lia. }
    splits; trivial. rewrite X2, A1. now rewrite <- app_assoc.
Qed.

Lemma replace_multi_spec s pairs max :
  inv s -> lenN (fst (l0_replace_multi (abs s) pairs max)) + 1 <= LIM ->
  match replace_multi1 s pairs max with
  | (Some w, n) => inv w /\ abs w = fst (l0_replace_multi (abs s) pairs max) /\ n = snd (l0_replace_multi (abs s) pairs max)
  | (None, n) => n = 0 /\ snd (l0_replace_multi (abs s) pairs max) = 0 /\ fst (l0_replace_multi (abs s) pairs max) = abs s
  end.
Proof.
  intros I B. unfold StrModel.replace_multi1.
  destruct (l0_replace_multi (abs s) pairs max) as [res n] eqn:E0. cbn [fst snd] in *.
  destruct (n =? 0) eqn:En.
  { apply N.eqb_eq in En. splits; trivial. unfold l0_replace_multi in E0.
    pose proof (multi_fuel_zero (S (length (abs s))) pairs (abs s) max) as Z. rewrite E0 in Z. cbn [fst snd] in Z. now apply Z. }
  destruct inv_empty1 as (I0 & S0 & A0 & _).
  destruct (clear_spec empty1 I0) as (Ic & Ac & _).
  destruct (prealloc_safe (StrModel.clear M empty1) (lenN res) Ic) as (Ip & Ap). rewrite Ac in Ap.
  set (w0 := snd (StrModel.prealloc M TH PG OV jk true (StrModel.clear M empty1) (lenN res))) in *.
  assert (L0 : slen w0 = 0) by (rewrite <- (lenN_abs w0 Ip), Ap; reflexivity).
  unfold l0_replace_multi in E0.
  destruct (multi_loop_spec pairs (S (length (abs s))) (abs s) max w0) as (X1 & X2 & X3); trivial; [lia|rewrite E0, L0; cbn [fst]; lia|].
  rewrite E0 in X2, X3. cbn [fst snd] in *.
  destruct (multi_loop (S (length (abs s))) pairs (abs s) max w0) as [w n']. cbn [fst snd] in *.
  splits; trivial. now rewrite X2, Ap.
Qed.

(* ---------------------------------------------------------------- Arg(double, min, max) after the sprintf *)

Lemma repN_S {A} (x : A) n : repN x (n + 1) = x :: repN x n.
Proof. unfold repN. replace (N.to_nat (n + 1)) with (S (N.to_nat n)) by lia. reflexivity. Qed.

Lemma append_ch_times_spec n : forall r ch, inv r -> slen r + N.of_nat n + 1 <= LIM ->
  inv (append_ch_times n r ch) /\ abs (append_ch_times n r ch) = abs r ++ repN ch (N.of_nat n).
Proof.
  induction n as [|n IH]; intros r ch I B; cbn [StrModel.append_ch_times].
  - split; trivial. cbn. now rewrite app_nil_r.
  - destruct (append_ch_spec r ch I) as (I1 & A1); [unfold LIM in *; lia|].
    destruct (IH (StrModel.append_ch M TH PG OV jk true r ch) ch I1) as (X1 & X2).
    { rewrite <- (lenN_abs _ I1), A1, lenN_app, (lenN_abs r I), lenN_cons, lenN_nil. lia. }
    split; trivial. rewrite X2, A1, <- app_assoc. f_equal.
    replace (N.of_nat (S n)) with (N.of_nat n + 1) by lia. now rewrite repN_S.
Qed.

Lemma strip_suffix_fuel_len f l suf max : lenN (strip_suffix_fuel f l suf max) <= lenN l.
Proof.
  revert l max. induction f as [|f IH]; intros l max; cbn [strip_suffix_fuel]; [lia|].
  destruct ((0 <? max) && ends_with l suf); [|lia].
  specialize (IH (l0_trunc_chars l (lenN suf)) (max - 1)). pose proof (l0_trunc_chars_len l (lenN suf)). lia.
Qed.

Lemma float_text_spec buf m :
  nulfree buf -> lenN buf + m + 3 <= LIM ->
  inv (float_text1 buf m) /\ abs (float_text1 buf m) = l0_float_text buf m.
Proof.
  intros F B. unfold StrModel.float_text1, l0_float_text.
  destruct inv_empty1 as (I0 & S0 & A0 & _).
  destruct (set_cstr_spec empty1 (CLit buf) NOLIMIT I0) as (t0 & E0 & It0 & At0).
  { rewrite A0. constructor. }
  { split; [exact F|unfold LIM in *; lia]. }
  rewrite E0. cbn [snd]. cbn [clit_of] in At0. rewrite takeN_all in At0 by (unfold NOLIMIT, LIM in *; lia).
  rewrite At0.
  (* t1: trailing zeros dropped *)
  set (l1 := if existsb (N.eqb 46) buf then strip_suffix_fuel (S (length buf)) buf [48] NOLIMIT else buf).
  set (t1 := if existsb (N.eqb 46) buf then StrModel.without_suffix_ch_loop M (S (length buf)) t0 48 NOLIMIT else t0).
  assert (T1 : inv t1 /\ abs t1 = l1).
  { unfold t1, l1. destruct (existsb (N.eqb 46) buf); [|split; trivial].
    destruct (without_suffix_ch_loop_spec (S (length buf)) t0 48 NOLIMIT It0) as (X1 & X2). split; trivial. now rewrite X2, At0. }
  destruct T1 as (It1 & At1).
  assert (Ll1 : lenN l1 <= lenN buf) by (unfold l1; destruct (existsb (N.eqb 46) buf); [apply strip_suffix_fuel_len|lia]).
  assert (St1 : slen t1 = lenN l1) by (rewrite <- (lenN_abs t1 It1), At1; reflexivity).
  rewrite At1, St1.
  destruct (m =? 0).
  - destruct (ends_with l1 [46]); [|split; trivial].
    destruct (trunc_chars_spec t1 1 It1) as (X1 & X2). split; trivial. now rewrite X2, At1.
  - destruct (l0_last_index_of_ch l1 46 0) as [|p|p].
    + destruct (append_ch_times_spec (N.to_nat (m - (lenN l1 - Z.to_N 0 - 1))) t1 48 It1) as (X1 & X2); [rewrite St1; unfold LIM in *; lia|].
      split; trivial. rewrite X2, At1, N2Nat.id. reflexivity.
    + destruct (append_ch_times_spec (N.to_nat (m - (lenN l1 - Z.to_N (Z.pos p) - 1))) t1 48 It1) as (X1 & X2); [rewrite St1; unfold LIM in *; lia|].
      split; trivial. rewrite X2, At1, N2Nat.id. reflexivity.
    + destruct (append_ch_spec t1 46 It1) as (Id & Ad); [rewrite St1; unfold LIM in *; lia|].
      destruct (append_ch_times_spec (N.to_nat m) _ 48 Id) as (X1 & X2).
      { rewrite <- (lenN_abs _ Id), Ad, lenN_app, At1, lenN_cons, lenN_nil. unfold LIM in *. lia. }
      split; trivial. rewrite X2, Ad, At1, N2Nat.id. reflexivity.
Qed.

End Prod.
