(* C17 -- level 1 of the String model: the storage of muscle::String as the code lays it out
   (util/String.h: union StringData {LongStringData | ShortStringData}; util/String.cpp).

     Short b      b = the sizeof(String) bytes of the object seen as ShortStringData:
                  _smallBuffer[0..M-1] followed by _ssoFreeBytesLeft (index M), M = GetMaxShortStringLength().
                  Length() = M - b[M]; when the string is M bytes long that byte is 0 and doubles as
                  the NUL terminator -- the aliasing the property is about is kept literally.
     Long h n c   _bigBuffer (the heap array, as a list of its c bytes), _strlen = n, buffer length c
                  (the high bit of _encBufLen that marks this mode is the constructor).

   Bytes that the code leaves indeterminate (fresh malloc/realloc tails, a never-written small
   buffer, the union bytes after a heap buffer was released) are the parameter [jk]; every theorem
   quantifies over it.  M and the three constants of the growth policy are parameters as well and
   are instantiated from Gen/Consts.v (translated from /repo on every run).

   No proofs in this file. *)
From Coq Require Import List NArith ZArith Bool.
From Muscle Require Import Cont.StrL0.
Import ListNotations.
Local Open Scope N_scope.

Inductive str1 := Short (b : list N) | Long (h : list N) (n : N) (c : N).
Inductive st := StOk | StErr.                   (* B_NO_ERROR | any error (B_RESOURCE_LIMIT, B_BAD_DATA; allocation never fails in the model) *)

(* a `const String &` argument: a separate String holding these bytes, or the subject itself *)
Inductive sarg := ALit (b : list N) | ASelf.
(* a `const char *` argument: NULL, a separate NUL-terminated array, or a pointer into the subject's own buffer *)
Inductive carg := CNull | CLit (b : list N) | CSelf (off : N).

Inductive op :=
(* mutators *)
| OSetCstr (c : carg) (maxLen : N)
| OSetFrom (a : sarg) (first after : N)
| OAppendS (a : sarg) | OAppendC (c : carg) | OAppendCh (ch : N)
| OInsertChars (idx : N) (c : carg) (maxLen : N)
| OClear | OClearFlush
| OPrealloc (n : N) | OShrink (extra : N)
| OTruncChars (n : N) | OTruncTo (n : N)
| OSwap (pre : N) (lit : list N)
| OMinusCh (ch : N) | OMinusS (a : sarg) | OMinusC (c : carg)
| OReverse
| OReplaceCh (a b max from : N)
| OReplaceS (rm wm : sarg) (max from : N)
| OUnflatten (bytes : list N)
| OUnflattenW (arena : list N) (win : N) (ps : list pre)   (* String::Unflatten on a windowed, partly consumed DataUnflattener *)
| OReplaceMulti (pairs : list (list N * list N)) (max : N)
| OSetAt (i ch : N)                      (* s[i] = ch through the non-const operator[] (valid index only) *)
| OShiftInt (z : Z) | OShiftBool (b : bool)   (* operator<<(int), operator<<(bool) *)
(* queries *)
| OCharAt (i : N)
| OIndexOfCh (ch from : N) | OIndexOfS (a : sarg) (from : N) | OIndexOfC (c : carg) (from : N)
| OLastIndexOfCh (ch from : N) | OLastIndexOfS1 (a : sarg) | OLastIndexOfS (a : sarg) (from : N)
| OCountCh (ch from : N) | OCountS (a : sarg) (from : N)
| OStartsS (a : sarg) | OEndsS (a : sarg) | OStartsCh (ch : N) | OEndsCh (ch : N)
| OStartsSI (a : sarg) | OEndsSI (a : sarg)
| OCompare (a : sarg) | OCompareI (a : sarg) | OEqualsI (a : sarg)
| OIndexOfSI (a : sarg) (from : N) | OLastIndexOfSI (a : sarg) (from : N)
| OIndexOfChI (ch from : N) | OLastIndexOfChI (ch from : N)
| OParseNumSuffix (def : N) | OStartsWithNumber (neg : bool)
| OEqualsCh (ch : N) | OEqualsChI (ch : N) | OStartsChI (ch : N) | OEndsChI (ch : N)
| OGetDistance (a : sarg) (max : N)
| ONumCmp (a : sarg) (fold : bool)
| OFlatten
(* producers: the result is a new String; the subject is unchanged *)
| OCopy | OCopyPre (extra : N)
| OSubstring (first after : N) | OSubstringAfter (a : sarg) | OSubstringUntil (first : N) (a : sarg)
| OWithInsertS (idx : N) (a : sarg) (max : N)
| OWithInsertCh (idx ch count : N)
| OPadded (minLen : N) (right : bool) (ch : N)
| OLower | OUpper | OMixed | OTrimmed
| OWithReplCh (a b max from : N) | OWithReplS (rm wm : sarg) (max from : N)
| OArgS (a : sarg) | OArgInt (z : Z)
| OWithSuffixS (a : sarg) | OWithPrefixS (a : sarg)
| OWithoutSuffixS (a : sarg) (max : N) | OWithoutPrefixS (a : sarg) (max : N)
| OWithoutSuffixCh (ch max : N) | OWithoutPrefixCh (ch max : N)
| OWithoutNumSuffix
| OPlusS (a : sarg)
| OWithSuffixCh (ch : N) | OWithPrefixCh (ch : N)
| OWithoutSuffixSI (a : sarg) (max : N) | OWithoutPrefixSI (a : sarg) (max : N)
| OWithoutSuffixChI (ch max : N) | OWithoutPrefixChI (ch max : N)
| OWithWord (idx : N) (a : sarg) (sep : list N)
| OIndented (n ch : N)
| OArgFloatText (buf : list N) (minDigits : N)        (* Arg(double/float, min, max); buf = what sprintf printed *)
| OWithReplMulti (pairs : list (list N * list N)) (max : N)
| OPlusCh (ch : N) | OChPlus (ch : N) | OCPlus (lit : list N)     (* String + char, char + String, const char-ptr + String *)
| OMinusPS (a : sarg) | OMinusPCh (ch : N)                     (* String - String, String - char *)
| OEscaped (seps : list N) (esc : N)
(* s = <producer>(...) : the result is move-assigned to the subject *)
| OAssign (o : op).

(* level-0 outputs carry byte strings, level-1 outputs carry the storage of a produced String too *)
Inductive out0 :=
| R0None | R0St (s : st) | R0Int (z : Z) | R0Nat (n : N) | R0Bool (b : bool)
| R0Bytes (b : list N) | R0Str (r : list N) | R0StrNat (r : list N) (n : N).
Inductive out1 :=
| R1None | R1St (s : st) | R1Int (z : Z) | R1Nat (n : N) | R1Bool (b : bool)
| R1Bytes (b : list N) | R1Str (r : str1) | R1StrNat (r : str1) (n : N).

(* ==================================================================== level 1 *)
Section L1.
Variables (M TH PG OV : N).    (* max short length; growth threshold, page size, malloc overhead *)
Variable (jk : N).
(* [fixed = true] is the code with the repairs proposed by this check:
   EnsureBufferSize() refuses a buffer size that GetNextBufferSize()'s uint32 arithmetic wrapped below
   the request; Unflatten() returns the unflattener's error when no terminated string was read;
   ShrinkToFit() adds its argument with saturation.
   [fixed = false] is the tree as pinned; it is kept for the [..._refuted] lemmas and for replaying. *)
Variable (fixed : bool).

Definition is_long (s : str1) : bool := match s with Long _ _ _ => true | Short _ => false end.
Definition buf (s : str1) : list N := match s with Short b => b | Long h _ _ => h end.
Definition slen (s : str1) : N := match s with Short b => M - nthN M b | Long _ n _ => n end.   (* Length() *)
Definition cap (s : str1) : N := match s with Short _ => M + 1 | Long _ _ c => c end.           (* GetNumAllocatedBytes() *)
Definition abs (s : str1) : list N := takeN (slen s) (buf s).
Definition wbuf (s : str1) (b : list N) : str1 := match s with Short _ => Short b | Long _ n c => Long b n c end.
Definition set_len (s : str1) (n : N) : str1 :=                                                  (* SetLength() *)
  match s with Short b => Short (upd b M (M - n)) | Long h _ c => Long h n c end.
(* the common tail of the mutators: new buffer contents, then SetLength *)
Definition commit (s : str1) (b : list N) (n : N) : str1 := set_len (wbuf s b) n.

Definition fresh_short : list N := repN jk (M + 1).
Definition clear_short (b : list N) : str1 := Short (upd (upd b 0 0) M M).                       (* ShortStringData::Clear *)
Definition empty1 : str1 := clear_short fresh_short.                                             (* a default-constructed String *)
Definition clear_and_flush (s : str1) : str1 :=
  match s with Short b => clear_short b | Long _ _ _ => empty1 end.
Definition clear (s : str1) : str1 := commit s (upd (buf s) 0 0) 0.                              (* Clear() *)

(* NextPowerOfTwo on uint32 *)
Definition npot (n : N) : N :=
  let n := u32 (n + 4294967295) in
  let n := N.lor n (N.shiftr n 1) in
  let n := N.lor n (N.shiftr n 2) in
  let n := N.lor n (N.shiftr n 4) in
  let n := N.lor n (N.shiftr n 8) in
  let n := N.lor n (N.shiftr n 16) in
  u32 (n + 1).

(* String::GetNextBufferSize, uint32 arithmetic written out *)
Definition next_buf_size (bufLen : N) : N :=
  if bufLen <? TH then bufLen + M
  else let geom := npot (u32 ((bufLen - 1) * 2)) in
       if geom <? PG - OV then geom
       else u32 (u32 ((u32 (bufLen + OV) / PG + 1) * PG) + 4294967296 - OV).

(* ShortStringData::Truncate *)
Definition short_truncate (s : str1) (n : N) : str1 :=
  let b1 := upd (buf s) n 0 in
  Short (upd b1 M (M - N.min n (M - nthN M b1))).

(* String::EnsureBufferSize *)
Definition ensure (s : str1) (req : N) (retain shrink : bool) : st * str1 :=
  let bl := cap s in
  if (if shrink then req =? bl else req <=? bl) then (StOk, s) else
  let dyn := is_long s in
  let nb := if shrink || (req <=? M + 1) || ((slen s =? 0) && negb dyn) then req else next_buf_size req in
  if fixed && (nb <? req) then (StErr, s) else
  if nb =? 0 then (StOk, clear_and_flush s) else
  if 2147483648 <=? nb then (StErr, s) else
  let old := slen s in
  let small := shrink && (nb <=? M + 1) in
  let nml := nb - 1 in
  let fin (nbuf : list N) := Long (upd nbuf (N.min old nml) 0) old nb in
  if retain then
    if dyn then
      if small then (StOk, set_len (Short (upd (blit fresh_short 0 (takeN old (buf s))) old 0)) old)
      else (StOk, fin (takeN nb (buf s) ++ repN jk (nb - cap s)))
    else
      if small then (StOk, short_truncate s nml)
      else (StOk, fin (blit (repN jk nb) 0 (takeN (N.min (old + 1) nb) (buf s))))
  else
    if small then (StOk, clear_and_flush s)
    else (StOk, fin (upd (repN jk nb) 0 0)).

(* a source String as the callee sees it: its buffer and its length; None = the subject itself *)
Definition src := (list N * N)%type.
Definition src_of (s : str1) : src := (buf s, slen s).
Definition src_lit (l : list N) : src := (l ++ [0], lenN l).
Definition src_bytes (o : src) : list N := takeN (snd o) (fst o).
Definition arg_src (a : sarg) : option src := match a with ALit l => Some (src_lit l) | ASelf => None end.
Definition osrc (s : str1) (o : option src) : src := match o with Some x => x | None => src_of s end.

(* the memory a `const char *` points at (NULL = None) and whether it lies in the subject's array *)
Definition cregion (s : str1) (c : carg) : option (list N) :=
  match c with CNull => None | CLit l => Some (l ++ [0]) | CSelf off => Some (dropN (N.min off (slen s)) (buf s)) end.
(* CSelf off is the pointer Cstr()+min(off,Length()), so IsCharInLocalArray() holds for it *)
Definition clocal (s : str1) (c : carg) : bool := match c with CSelf _ => true | _ => false end.

(* String::SetCstr *)
Definition set_cstr (s : str1) (c : carg) (maxLen : N) : st * str1 :=
  match cregion s c with
  | None => (StOk, clear s)
  | Some r =>
    let sLen := N.min maxLen (lenN (cstr r)) in
    if 0 <? sLen then
      match ensure s (u32 (sLen + 1)) false false with
      | (StOk, s1) => (StOk, commit s1 (upd (blit (buf s1) 0 (takeN sLen r)) sLen 0) sLen)
      | e => e
      end
    else (StOk, clear s)
  end.

(* String::SetFromString *)
Definition set_from (s : str1) (o : option src) (first after : N) : st * str1 :=
  let ol := snd (osrc s o) in
  let after' := N.min after ol in
  let len := if first <? after' then after' - first else 0 in
  if 0 <? len then
    match ensure s (u32 (len + 1)) false false with
    | (StOk, s1) => let ob := fst (osrc s1 o) in      (* s() is evaluated after EnsureBufferSize *)
                    (StOk, commit s1 (upd (blit (buf s1) 0 (takeN len (dropN first ob))) len 0) len)
    | e => e
    end
  else (StOk, clear_and_flush s).

(* String::operator+=(const String &) *)
Definition append_s (s : str1) (o : option src) : str1 :=
  let ol := snd (osrc s o) in
  if 0 <? ol then
    match ensure s (u32 (slen s + ol + 1)) true false with
    | (StOk, s1) => let len := slen s1 in
                    commit s1 (blit (buf s1) len (takeN (ol + 1) (fst (osrc s1 o)))) (len + ol)
    | (_, _) => s
    end
  else s.

(* String::operator+=(const char-ptr) *)
Definition append_c (s : str1) (c : carg) : str1 :=
  match cregion s c with
  | None => s
  | Some r =>
    let ol := lenN (cstr r) in
    if 0 <? ol then
      if clocal s c then append_s s (Some (src_lit (cstr r)))        (* String(other, otherLen) temporary *)
      else match ensure s (u32 (slen s + ol + 1)) true false with
           | (StOk, s1) => let len := slen s1 in commit s1 (blit (buf s1) len (takeN (ol + 1) r)) (len + ol)
           | (_, _) => s
           end
    else s
  end.

(* String::operator+=(char) *)
Definition append_ch (s : str1) (ch : N) : str1 :=
  let len := slen s in
  match ensure s (u32 (len + 2)) true false with
  | (StOk, s1) => commit s1 (upd (upd (buf s1) len ch) (len + 1) 0) (len + 1)
  | (_, _) => s
  end.

(* String::InsertCharsAux; [r] is the memory (str) points at, [loc] whether it is inside our own array *)
Definition insert_aux (s : str1) (idx : N) (r : option (list N)) (loc : bool) (n count : N) : st * str1 :=
  match r with
  | None => (StOk, s)
  | Some r0 =>
    if (nthN 0 r0 =? 0) || (n =? 0) then (StOk, s) else
    let '(r1, n1) := if loc then (let t := takeN n (cstr r0) in (t ++ [0], N.min (lenN t) n)) else (r0, n) in
    let total64 := n1 * count in
    if (2147483646 <=? total64 + slen s) then (StErr, s) else
    let total := u32 total64 in
    if total =? 0 then (StOk, s) else
    let old := slen s in
    let newLen := old + total in
    match ensure s (u32 (newLen + 1)) true false with
    | (StOk, s1) =>
        let i := N.min idx old in
        let b := buf s1 in
        let b1 := blit b (i + total) (takeN (old - i) (dropN i b)) in
        let b2 := blit b1 i (concat (repN (takeN n1 r1) count)) in
        (StOk, commit s1 (upd b2 newLen 0) newLen)
    | e => e
    end
  end.

(* String::InsertChars *)
Definition insert_chars (s : str1) (idx : N) (c : carg) (maxLen : N) : st * str1 :=
  match cregion s c with
  | None => (StOk, s)
  | Some r => if (nthN 0 r =? 0) || (maxLen =? 0) then (StOk, s)
              else insert_aux s idx (Some r) (clocal s c) (N.min (lenN (cstr r)) maxLen) 1
  end.

Definition prealloc (s : str1) (n : N) : st * str1 := ensure s (u32 (n + 1)) true false.
Definition shrink_to_fit (s : str1) (extra : N) : st * str1 :=
  let fs := slen s + 1 in
  ensure s (u32 (fs + (if fixed then N.min extra (NOLIMIT - fs) else extra))) true true.
Definition trunc_chars (s : str1) (n : N) : str1 :=
  let l := slen s - N.min (slen s) n in commit s (upd (buf s) l 0) l.
Definition trunc_to (s : str1) (n : N) : str1 :=
  let l := N.min (slen s) n in commit s (upd (buf s) l 0) l.

(* constructors *)
Definition ctor_copy (o : src) : str1 := snd (set_from empty1 (Some o) 0 NOLIMIT).
Definition ctor_sub (o : src) (first after : N) : str1 := snd (set_from empty1 (Some o) first after).
Definition ctor_copy_pre (o : src) (extra : N) : str1 :=
  snd (set_from (snd (prealloc empty1 (u32 (snd o + extra)))) (Some o) 0 NOLIMIT).
Definition ctor_pre_lit (pre : N) (l : list N) : str1 :=
  snd (set_cstr (snd (prealloc empty1 pre)) (CLit l) NOLIMIT).

(* operator-=(char), operator-=(const String &), operator-=(const char-ptr) *)
Definition cut (s : str1) (idx k : N) : str1 :=         (* memmove(b+idx, b+idx+k, 1+len-(idx+k)); SetLength(len-k) *)
  let len := slen s in
  let b := buf s in
  commit s (blit b idx (takeN (1 + len - (idx + k)) (dropN (idx + k) b))) (len - k).
Definition minus_ch (s : str1) (ch : N) : str1 :=
  match l0_last_index_of_ch (abs s) ch 0 with
  | Zneg _ => s
  | z => cut s (Z.to_N z) 1
  end.
Definition minus_s (s : str1) (o : option src) : str1 :=
  let ob := src_bytes (osrc s o) in
  if (match o with None => true | Some _ => list_eqb (abs s) ob end) then clear s
  else if 0 <? lenN ob then
    match l0_last_index_of1 (abs s) ob with
    | Zneg _ => s
    | z => cut s (Z.to_N z) (lenN ob)
    end
  else s.
Definition minus_c (s : str1) (c : carg) : str1 :=
  match cregion s c with
  | None => s
  | Some r => let ob := cstr r in
    if 0 <? lenN ob then
      match l0_last_index_of1 (abs s) ob with
      | Zneg _ => s
      | z => cut s (Z.to_N z) (lenN ob)
      end
    else s
  end.

(* Reverse, Replace(char,char): in place on the first Length() bytes *)
Definition map_content (s : str1) (f : list N -> list N) : str1 :=
  wbuf s (f (takeN (slen s) (buf s)) ++ dropN (slen s) (buf s)).
Definition reverse1 (s : str1) : str1 := map_content s (@rev N).
Definition replace_ch1 (s : str1) (a b max from : N) : str1 * N :=
  let '(l, k) := l0_replace_ch (abs s) a b max from in (map_content s (fun _ => l), k).

(* Replace(const String &, const String &, max, from), the pointer loop.
   In place (the replacement is not longer than the needle): [b] is our buffer, [r] the read offset, [w] the write
   offset (None until the first match), [mv] says whether the segments between matches are memmove'd (lengths differ). *)
Fixpoint repl_inplace (fuel : nat) (b : list N) (len r : N) (w : option N) (rm wm : list N) (mv : bool) (max cnt : N)
  : list N * option N * N :=
  match fuel with
  | O => (b, w, cnt)
  | S f =>
    match (if 0 <? max then find_sub rm (cstr (dropN r b)) else None) with     (* strstr(readPtr, replaceMe()) *)
    | Some k =>
        let '(b1, w1) := match w with
                         | Some wp => ((if mv then blit b wp (takeN k (dropN r b)) else b), wp + k)
                         | None => (b, r + k)
                         end in
        repl_inplace f (blit b1 w1 wm) len (r + k + lenN rm) (Some (w1 + lenN wm)) rm wm mv (max - 1) (cnt + 1)
    | None =>
        match w with
        | Some wp => let nb := len - r in
                     (upd (if mv then blit b wp (takeN nb (dropN r b)) else b) (wp + nb) 0, Some (wp + nb), cnt)
        | None => (b, None, cnt)
        end
    end
  end.
(* Copy-over (the replacement is longer): read from our buffer [sb], write into the temporary's buffer [tb] at [w] *)
Fixpoint repl_copy (fuel : nat) (sb : list N) (len r : N) (tb : list N) (w : N) (rm wm : list N) (max cnt : N)
  : list N * N * N :=
  match fuel with
  | O => (tb, w, cnt)
  | S f =>
    match (if 0 <? max then find_sub rm (cstr (dropN r sb)) else None) with
    | Some k =>
        let tb1 := blit tb w (takeN k (dropN r sb)) in
        repl_copy f sb len (r + k + lenN rm) (blit tb1 (w + k) wm) (w + k + lenN wm) rm wm (max - 1) (cnt + 1)
    | None => let nb := len - r in (upd (blit tb w (takeN nb (dropN r sb))) (w + nb) 0, w + nb, cnt)
    end
  end.

Definition replace_s1 (s : str1) (rm wm : option src) (max from : N) : str1 * Z :=
  let me := abs s in
  let rb := src_bytes (osrc s rm) in
  let wb := src_bytes (osrc s wm) in
  if max =? 0 then (s, 0%Z) else
  if slen s <=? from then (s, 0%Z) else
  if lenN rb =? 0 then (s, 0%Z) else
  if (match rm, wm with None, None => true | _, _ => list_eqb rb wb end)
  then (s, Z.of_N (N.min max (l0_count_sub me rb from))) else
  match rm with
  | None => if from =? 0 then (snd (set_from s wm 0 NOLIMIT), 1%Z) else (s, 0%Z)
  | Some _ =>
    let fuel := S (length me) in
    if lenN rb <? lenN wb then
      let ninst := N.min (l0_count_sub me rb from) max in
      if ninst =? 0 then (s, 0%Z) else
      match prealloc empty1 (u32 (slen s + (lenN wb - lenN rb) * ninst)) with
      | (StOk, t) =>
          let tb0 := blit (buf t) 0 (takeN from (buf s)) in                      (* the first fromIndex bytes, one by one *)
          let '(tb, w, cnt) := repl_copy fuel (buf s) (slen s) from tb0 from rb wb max 0 in
          (commit t tb w, Z.of_N cnt)                                            (* temp.SetLength(..); SwapContents(temp) *)
      | (_, _) => (s, (-1)%Z)
      end
    else
      let '(b, w, cnt) := repl_inplace fuel (buf s) (slen s) from None rb wb (negb (lenN rb =? lenN wb)) max 0 in
      match w with
      | Some wp => (commit s b wp, Z.of_N cnt)
      | None => (s, Z.of_N cnt)
      end
  end.

(* String::ReplaceAux (the Hashtable form): writeTo += after / writeTo += this->operator[](i), into a String preallocated to
   the final length; None = nothing replaced *)
Fixpoint multi_loop (fuel : nat) (pairs : list (list N * list N)) (l : list N) (max : N) (r : str1) : str1 * N :=
  match fuel with
  | O => (r, 0)
  | S f =>
    match l with
    | [] => (r, 0)
    | c :: t =>
      match (if 0 <? max then key_at pairs l else None) with
      | Some (k, v) => let '(r', n) := multi_loop f pairs (dropN (lenN k) l) (dec_max max) (append_s r (Some (src_lit v))) in (r', n + 1)
      | None => multi_loop f pairs t max (append_ch r c)
      end
    end
  end.
Definition replace_multi1 (s : str1) (pairs : list (list N * list N)) (max : N) : option str1 * N :=
  let l := abs s in
  let '(res, n) := l0_replace_multi l pairs max in       (* the two counting passes over the match table *)
  if n =? 0 then (None, 0)
  else let w0 := snd (prealloc (clear empty1) (lenN res)) in
       let '(w, n') := multi_loop (S (length l)) pairs l max w0 in (Some w, n').

(* Flatten / Unflatten(DataUnflattener over exactly these bytes) *)
Definition flatten1 (s : str1) : list N := takeN (slen s + 1) (buf s).
Definition unflatten1 (s : str1) (bytes : list N) : st * str1 :=
  if list_eqb (cstr bytes) bytes          (* no NUL among the available bytes (also: no bytes at all) *)
  then (if fixed then (StErr, s)          (* ReadCString() returned NULL: the unflattener's error is returned *)
        else set_cstr s CNull NOLIMIT)    (* pinned: SetCstr(NULL) clears the string and reports success *)
  else set_cstr s (CLit (cstr bytes)) NOLIMIT.

(* ------------------------------------------------------------------ producers *)

Definition with_insert (s : str1) (idx : N) (o : src) (max : N) : str1 :=
  snd (insert_aux (ctor_copy (src_of s)) idx (Some (fst o)) false (N.min (snd o) max) 1).
Definition with_insert_ch (s : str1) (idx ch count : N) : str1 :=
  snd (insert_aux (ctor_copy_pre (src_of s) count) idx (Some [ch]) false 1 count).
Definition padded1 (s : str1) (minLen : N) (right : bool) (ch : N) : str1 :=
  if slen s <? minLen then with_insert_ch s (if right then NOLIMIT else 0) ch (minLen - slen s)
  else ctor_copy (src_of s).
Definition trimmed1 (s : str1) : str1 :=
  let l := abs s in
  let start := lenN l - lenN (drop_while is_space4 l) in
  let t := l0_trimmed l in
  ctor_sub (src_of s) start (start + lenN t).
Definition case1 (s : str1) (f : list N -> list N) : str1 := map_content (ctor_copy (src_of s)) f.

Fixpoint without_suffix_loop (fuel : nat) (r : str1) (suf : list N) (max : N) : str1 :=
  match fuel with
  | O => r
  | S f => if (0 <? max) && ends_with (abs r) suf
           then without_suffix_loop f (trunc_chars r (lenN suf)) suf (max - 1) else r
  end.
Fixpoint without_prefix_loop (fuel : nat) (r : str1) (pre : list N) (max : N) : str1 :=
  match fuel with
  | O => r
  | S f => if (0 <? max) && starts_with (abs r) pre
           then without_prefix_loop f (ctor_sub (src_of r) (lenN pre) NOLIMIT) pre (max - 1) else r
  end.
Fixpoint without_suffix_ch_loop (fuel : nat) (r : str1) (ch max : N) : str1 :=
  match fuel with
  | O => r
  | S f => if (0 <? max) && ends_with (abs r) [ch] then without_suffix_ch_loop f (trunc_chars r 1) ch (max - 1) else r
  end.
Fixpoint without_suffix_nc_loop (fuel : nat) (r : str1) (suf : list N) (max : N) : str1 :=
  match fuel with
  | O => r
  | S f => if (0 <? max) && ends_with_nocase (abs r) suf
           then without_suffix_nc_loop f (trunc_chars r (lenN suf)) suf (max - 1) else r
  end.
Fixpoint without_prefix_nc_loop (fuel : nat) (r : str1) (pre : list N) (max : N) : str1 :=
  match fuel with
  | O => r
  | S f => if (0 <? max) && starts_with_nocase (abs r) pre
           then without_prefix_nc_loop f (ctor_sub (src_of r) (lenN pre) NOLIMIT) pre (max - 1) else r
  end.
(* WithoutNumericSuffix: ret-- while the last character is a digit *)
Fixpoint strip_digits_loop (fuel : nat) (r : str1) : str1 :=
  match fuel with
  | O => r
  | S f => match rev (abs r) with
           | c :: _ => if is_digit c then strip_digits_loop f (trunc_chars r 1) else r
           | [] => r
           end
  end.

Definition arg1 (s : str1) (value : list N) : str1 :=
  let l := abs s in
  let low := arg_scan (S (length l)) l (-1)%Z in
  if (0 <=? low)%Z
  then fst (replace_s1 (ctor_copy (src_of s)) (Some (src_lit (37 :: dec_of_Z low))) (Some (src_lit value)) NOLIMIT 0)
  else ctor_copy (src_of s).

Definition plus_s (s : str1) (o : src) : str1 :=
  let r0 := snd (prealloc empty1 (u32 (slen s + snd o))) in
  append_s (snd (set_from r0 (Some (src_of s)) 0 NOLIMIT)) (Some o).

(* String::WithInsertedWordAux; [w] is the word (a separate or the subject's own String), [sep] the separator literal *)
Definition with_word (s : str1) (idx : N) (w : src) (sep : list N) : str1 :=
  let me := src_of s in
  let l := abs s in
  let wb := src_bytes w in
  let n := snd w in
  let ins (r : str1) (i : N) := snd (insert_aux r i (Some (fst w)) false n 1) in
  if n =? 0 then ctor_copy me
  else if lenN sep =? 0 then ins (ctor_copy_pre me n) idx
  else if slen s <=? idx then
    ins (ctor_copy_pre (if (slen s =? 0) || ends_with l sep || starts_with wb sep then me
                        else src_of (with_insert s NOLIMIT (src_lit sep) NOLIMIT)) n) NOLIMIT
  else if idx =? 0 then
    ins (ctor_copy_pre (if (slen s =? 0) || starts_with l sep || ends_with wb sep then me
                        else src_of (with_insert s 0 (src_lit sep) NOLIMIT)) n) 0
  else
    let after := ctor_sub me idx NOLIMIT in
    let r0 := ctor_copy_pre (src_of (ctor_sub me 0 idx)) (u32 (u32 (n + slen after) + u32 (lenN sep * 2))) in
    let r1 := if (0 <? slen r0) && negb (ends_with (abs r0) sep) && negb (starts_with wb sep) then append_c r0 (CLit sep) else r0 in
    let r2 := ins r1 NOLIMIT in
    let r3 := if (0 <? slen after) && negb (ends_with (abs r2) sep) && negb (starts_with (abs after) sep)
              then append_c r2 (CLit sep) else r2 in
    plus_s r3 (src_of after).

(* String::IndentedBy: ret += pad / ret += c, one character at a time *)
Fixpoint indent_loop (pad : src) (seen : bool) (l : list N) (r : str1) : str1 :=
  match l with
  | [] => r
  | c :: t => if (c =? 10) || (c =? 13) then indent_loop pad false t (append_ch r c)
              else if seen then indent_loop pad true t (append_ch r c)
              else indent_loop pad true t (append_ch (append_s r (Some pad)) c)
  end.
Definition indented1 (s : str1) (n ch : N) : str1 :=
  if (n =? 0) || (ch =? 0) then ctor_copy (src_of s)
  else let pad := padded1 empty1 n false ch in
       let r0 := if (nthN 0 (abs s) =? 13) || (nthN 0 (abs s) =? 10) then snd (set_from empty1 (Some (src_of pad)) 0 NOLIMIT) else empty1 in
       indent_loop (src_of pad) false (abs s) r0.

(* String::WithCharsEscaped: escapedName += escapeChar / escapedName += curChar *)
Fixpoint esc_loop (seps : list N) (esc : N) (prevEsc : bool) (prevCh : N) (l : list N) (r : str1) : str1 :=
  match l with
  | [] => r
  | cur :: t =>
    let next := nthN 0 t in
    let pre := negb prevEsc &&
               (is_sep seps cur || ((cur =? esc) && negb (next =? 0) && negb (next =? esc) && negb (is_sep seps next))) in
    esc_loop seps esc ((cur =? esc) && negb (prevCh =? esc)) cur t (append_ch (if pre then append_ch r esc else r) cur)
  end.
Definition escaped1 (s : str1) (seps : list N) (esc : N) : str1 :=
  let l := abs s in
  if esc =? 0 then ctor_copy (src_of s)
  else if (count_if (is_sep seps) l =? 0) && (count_ch esc l =? 0) then ctor_copy (src_of s)
  else esc_loop seps esc false 0 l
         (snd (prealloc empty1 (u32 (slen s + u32 (2 * u32 (count_if (is_sep seps) l + count_ch esc l)))))).

(* String::Arg(double, min, max) from the sprintf output on *)
Fixpoint append_ch_times (n : nat) (r : str1) (ch : N) : str1 :=
  match n with O => r | S k => append_ch_times k (append_ch r ch) ch end.
Definition float_text1 (buf : list N) (minDigits : N) : str1 :=
  let t0 := snd (set_cstr empty1 (CLit buf) NOLIMIT) in                                   (* String s = buf; *)
  let t1 := if existsb (N.eqb 46) (abs t0) then without_suffix_ch_loop (S (length (abs t0))) t0 48 NOLIMIT else t0 in
  if minDigits =? 0 then (if ends_with (abs t1) [46] then trunc_chars t1 1 else t1)
  else match l0_last_index_of_ch (abs t1) 46 0 with
       | Zneg _ => append_ch_times (N.to_nat minDigits) (append_ch t1 46) 48
       | z => append_ch_times (N.to_nat (minDigits - (slen t1 - Z.to_N z - 1))) t1 48
       end.

Definition produce (s : str1) (o : op) : option out1 :=
  let me := src_of s in
  let sa (a : sarg) := osrc s (arg_src a) in
  match o with
  | OCopy => Some (R1Str (ctor_copy me))
  | OCopyPre extra => Some (R1Str (ctor_copy_pre me extra))
  | OSubstring f a => Some (R1Str (ctor_sub me f a))
  | OSubstringAfter a =>
      let m := src_bytes (sa a) in
      Some (R1Str (match l0_last_index_of1 (abs s) m with
                   | Zneg _ => ctor_copy me
                   | z => ctor_sub me (Z.to_N z + lenN m) NOLIMIT end))
  | OSubstringUntil f a =>
      Some (R1Str (ctor_sub me f (u32 (Z.to_N (l0_index_of (abs s) (src_bytes (sa a)) f + 4294967296)))))
  | OWithInsertS idx a max => Some (R1Str (with_insert s idx (sa a) max))
  | OWithInsertCh idx ch count => Some (R1Str (with_insert_ch s idx ch count))
  | OPadded m r ch => Some (R1Str (padded1 s m r ch))
  | OLower => Some (R1Str (case1 s (map to_lower)))
  | OUpper => Some (R1Str (case1 s (map to_upper)))
  | OMixed => Some (R1Str (case1 s l0_mixed))
  | OTrimmed => Some (R1Str (trimmed1 s))
  | OWithReplCh a b max from => Some (R1Str (fst (replace_ch1 (ctor_copy me) a b max from)))
  | OWithReplS rm wm max from =>
      Some (R1Str (fst (replace_s1 (ctor_copy me) (Some (sa rm)) (Some (sa wm)) max from)))
  | OArgS a => Some (R1Str (arg1 s (src_bytes (sa a))))
  | OArgInt z => Some (R1Str (arg1 s (dec_of_Z z)))
  | OWithSuffixS a => Some (R1Str (if ends_with (abs s) (src_bytes (sa a)) then ctor_copy me
                                   else with_insert s NOLIMIT (sa a) NOLIMIT))
  | OWithPrefixS a => Some (R1Str (if starts_with (abs s) (src_bytes (sa a)) then ctor_copy me
                                   else with_insert s 0 (sa a) NOLIMIT))
  | OWithoutSuffixS a max =>
      let suf := src_bytes (sa a) in
      Some (R1Str (match suf with [] => ctor_copy me
                   | _ => without_suffix_loop (S (length (abs s))) (ctor_copy me) suf max end))
  | OWithoutPrefixS a max =>
      let pre := src_bytes (sa a) in
      Some (R1Str (if (lenN pre =? 0) || negb (starts_with (abs s) pre) then ctor_copy me
                   else without_prefix_loop (S (length (abs s))) (ctor_copy me) pre max))
  | OWithoutSuffixCh ch max => Some (R1Str (without_suffix_ch_loop (S (length (abs s))) (ctor_copy me) ch max))
  | OWithoutPrefixCh ch max =>
      Some (R1Str (ctor_sub me (lenN (abs s) - lenN (l0_without_prefix_ch (abs s) ch max)) NOLIMIT))
  | OWithoutNumSuffix =>
      Some (R1StrNat (strip_digits_loop (S (length (abs s))) (ctor_copy me)) (snd (l0_without_num_suffix (abs s))))
  | OPlusS a => Some (R1Str (plus_s s (sa a)))
  | OWithSuffixCh ch => Some (R1Str (if (0 <? slen s) && (nthN (slen s - 1) (abs s) =? ch) then ctor_copy me
                                     else with_insert_ch s NOLIMIT ch 1))
  | OWithPrefixCh ch => Some (R1Str (if nthN 0 (abs s) =? ch then ctor_copy me else with_insert_ch s 0 ch 1))
  | OWithoutSuffixSI a max =>
      let suf := src_bytes (sa a) in
      Some (R1Str (if (lenN suf =? 0) || negb (ends_with_nocase (abs s) suf) then ctor_copy me
                   else without_suffix_nc_loop (S (length (abs s))) (ctor_copy me) suf max))
  | OWithoutPrefixSI a max =>
      let pre := src_bytes (sa a) in
      Some (R1Str (if (lenN pre =? 0) || negb (starts_with_nocase (abs s) pre) then ctor_copy me
                   else without_prefix_nc_loop (S (length (abs s))) (ctor_copy me) pre max))
  | OWithoutSuffixChI ch max =>
      Some (R1Str (if negb (ends_with_nocase (abs s) [ch]) then ctor_copy me
                   else without_suffix_nc_loop (S (length (abs s))) (ctor_copy me) [ch] max))
  | OWithoutPrefixChI ch max =>
      Some (R1Str (ctor_sub me (lenN (abs s) - lenN (strip_ch_prefix_nc (abs s) ch max)) NOLIMIT))
  | OWithWord idx a sep => Some (R1Str (with_word s idx (sa a) sep))
  | OIndented n ch => Some (R1Str (indented1 s n ch))
  | OArgFloatText buf m => Some (R1Str (arg1 s (abs (float_text1 buf m))))
  | OWithReplMulti pairs m => Some (R1Str (match replace_multi1 s pairs m with
                                           | (Some w, _) => ctor_copy (src_of w)
                                           | (None, _) => ctor_copy me end))
  | OPlusCh ch =>
      Some (R1Str (append_ch (snd (set_from (snd (prealloc empty1 (u32 (slen s + 1)))) (Some me) 0 NOLIMIT)) ch))
  | OChPlus ch =>
      Some (R1Str (append_s (snd (set_cstr (snd (prealloc empty1 (u32 (slen s + 1)))) (CLit [ch]) 1)) (Some me)))
  | OCPlus lit =>
      Some (R1Str (append_s (snd (set_cstr (snd (prealloc empty1 (u32 (lenN lit + slen s)))) (CLit lit) NOLIMIT)) (Some me)))
  | OMinusPS a => Some (R1Str (minus_s (ctor_copy me) (Some (sa a))))
  | OMinusPCh ch => Some (R1Str (minus_ch (ctor_copy me) ch))
  | OEscaped seps esc => Some (R1Str (escaped1 s seps esc))
  | _ => None
  end.

Definition query (l : list N) (self : list N) (o : op) : option out0 :=
  let sb (a : sarg) := match a with ALit b => b | ASelf => self end in
  match o with
  | OCharAt i => Some (R0Nat (nthN i l))
  | OIndexOfCh ch from => Some (R0Int (l0_index_of_ch l ch from))
  | OIndexOfS a from => Some (R0Int (l0_index_of l (sb a) from))
  | OLastIndexOfCh ch from => Some (R0Int (l0_last_index_of_ch l ch from))
  | OLastIndexOfS1 a => Some (R0Int (l0_last_index_of1 l (sb a)))
  | OLastIndexOfS a from => Some (R0Int (l0_last_index_of l (sb a) from))
  | OCountCh ch from => Some (R0Nat (l0_count_ch l ch from))
  | OCountS a from => Some (R0Nat (l0_count_sub l (sb a) from))
  | OStartsS a => Some (R0Bool (starts_with l (sb a)))
  | OEndsS a => Some (R0Bool (ends_with l (sb a)))
  | OStartsCh ch => Some (R0Bool (nthN 0 l =? ch))
  | OEndsCh ch => Some (R0Bool ((0 <? lenN l) && (nthN (lenN l - 1) l =? ch)))
  | OStartsSI a => Some (R0Bool (starts_with_nocase l (sb a)))
  | OEndsSI a => Some (R0Bool (ends_with_nocase l (sb a)))
  | OCompare a => Some (R0Int (cmp_bytes l (sb a)))
  | OCompareI a => Some (R0Int (cmp_nocase l (sb a)))
  | OEqualsI a => Some (R0Bool (eq_nocase l (sb a)))
  | OIndexOfSI a from => Some (R0Int (l0_index_of_nocase l (sb a) from))
  | OLastIndexOfSI a from => Some (R0Int (l0_last_index_of_nocase l (sb a) from))
  | OIndexOfChI ch from => Some (R0Int (l0_index_of_ch_nocase l ch from))
  | OLastIndexOfChI ch from => Some (R0Int (l0_last_index_of_ch_nocase l ch from))
  | OParseNumSuffix d => Some (R0Nat (l0_parse_num_suffix l d))
  | OStartsWithNumber neg => Some (R0Bool (l0_starts_with_number l neg))
  | OEqualsCh ch => Some (R0Bool ((lenN l =? 1) && (nthN 0 l =? ch)))
  | OEqualsChI ch => Some (R0Bool ((lenN l =? 1) && (to_lower (nthN 0 l) =? to_lower ch)))
  | OStartsChI ch => Some (R0Bool ((0 <? lenN l) && (to_lower (nthN 0 l) =? to_lower ch)))
  | OEndsChI ch => Some (R0Bool ((0 <? lenN l) && (to_lower (nthN (lenN l - 1) l) =? to_lower ch)))
  | ONumCmp a fold => Some (R0Int (l0_natcmp l (sb a) fold))
  | _ => None
  end.

Definition lift_out (o : out0) : out1 :=
  match o with
  | R0None => R1None | R0St s => R1St s | R0Int z => R1Int z | R0Nat n => R1Nat n | R0Bool b => R1Bool b
  | R0Bytes b => R1Bytes b | R0Str _ => R1None | R0StrNat _ _ => R1None
  end.

(* the `const char *` view of a carg for the read-only operations *)
Definition cbytes (s : str1) (c : carg) : list N :=
  match cregion s c with None => [] | Some r => cstr r end.

Definition mutate (s : str1) (o : op) : option (str1 * out1) :=
  let sa (a : sarg) := arg_src a in
  match o with
  | OSetCstr c m => let '(e, s') := set_cstr s c m in Some (s', R1St e)
  | OSetFrom a f t => let '(e, s') := set_from s (sa a) f t in Some (s', R1St e)
  | OAppendS a => Some (append_s s (sa a), R1None)
  | OAppendC c => Some (append_c s c, R1None)
  | OAppendCh ch => Some (append_ch s ch, R1None)
  | OInsertChars i c m => let '(e, s') := insert_chars s i c m in Some (s', R1St e)
  | OClear => Some (clear s, R1None)
  | OClearFlush => Some (clear_and_flush s, R1None)
  | OPrealloc n => let '(e, s') := prealloc s n in Some (s', R1St e)
  | OShrink x => let '(e, s') := shrink_to_fit s x in Some (s', R1St e)
  | OTruncChars n => Some (trunc_chars s n, R1None)
  | OTruncTo n => Some (trunc_to s n, R1None)
  | OSwap pre l => Some (ctor_pre_lit pre l, R1Str s)
  | OMinusCh ch => Some (minus_ch s ch, R1None)
  | OMinusS a => Some (minus_s s (sa a), R1None)
  | OMinusC c => Some (minus_c s c, R1None)
  | OReverse => Some (reverse1 s, R1None)
  | OReplaceCh a b m f => let '(s', k) := replace_ch1 s a b m f in Some (s', R1Nat k)
  | OReplaceS rm wm m f => let '(s', k) := replace_s1 s (sa rm) (sa wm) m f in Some (s', R1Int k)
  | OUnflatten bytes => let '(e, s') := unflatten1 s bytes in Some (s', R1St e)
  | OUnflattenW arena win ps =>
      let r := run_pre arena win ps in
      let '(e, s') := unflatten1 s (win_remaining arena win r) in
      Some (s', R1Int (w_result (match e with StOk => true | StErr => false end) (snd (read_cstr_w arena win r))))
  | OReplaceMulti pairs m => Some (match replace_multi1 s pairs m with
                                   | (Some w, n) => (w, R1Int (Z.of_N n))          (* SwapContents(writeTo) *)
                                   | (None, n) => (s, R1Int (Z.of_N n)) end)
  | OSetAt i ch => Some (if i <? slen s then map_content s (fun x => upd x i ch) else s, R1None)
  | OShiftInt z => Some (append_c s (CLit (dec_of_Z z)), R1None)
  | OShiftBool b => Some (append_c s (CLit (if b then [116;114;117;101] else [102;97;108;115;101])), R1None)
  | OIndexOfC c from => Some (s, R1Int (l0_index_of (abs s) (cbytes s c) from))
  | OGetDistance a max =>           (* GetLevenshteinDistance with the code's early exit *)
      Some (s, R1Nat (distance_code fixed (abs s) (src_bytes (osrc s (sa a))) max))
  | OFlatten => Some (s, R1Bytes (flatten1 s))
  | _ => None
  end.

Definition step1 (s : str1) (o : op) : str1 * out1 :=
  match o with
  | OAssign o' => match produce s o' with
                  | Some (R1Str r) => (r, R1Str r)
                  | Some (R1StrNat r n) => (r, R1StrNat r n)
                  | _ => (s, R1None)
                  end
  | _ =>
    match mutate s o with
    | Some r => r
    | None => match produce s o with
              | Some r => (s, r)
              | None => match query (abs s) (abs s) o with
                        | Some r => (s, lift_out r)
                        | None => (s, R1None)
                        end
              end
    end
  end.

End L1.
