(* C09 -- executable model of muscle::Hashtable / OrderedKeysHashtable / OrderedValuesHashtable
   (util/Hashtable.h) and of HashtableIterator (util/HashtableIterator.h).

   L0: the ideal ordered map: an association list (key, value) in iteration order.
   L1: the code's iteration layer:
         - every entry is a node with key, value and the two iteration links
           (HTE_INDEX_ITER_PREV / HTE_INDEX_ITER_NEXT), the table has _iterHeadIdx, _iterTailIdx,
           _numItems, _tableSize, _autoSortEnabled and the list of registered iterators (_iterList);
         - InsertIterationEntry / RemoveIterationEntry (with the iterator patching: scratch copy of
           the pair, cookie moved to the subsequent entry) / MoveTo*Aux / MoveToPositionAux /
           InsertIterationEntryInOrder / MoveIterationEntryToCorrectPosition are mirrored
           statement by statement;
         - an iterator is (_owner, _iterCookie, BACKWARDS flag, NOREGISTER flag, scratch pair).
       Node identifiers are abstract (a fresh positive per inserted entry, never reused): the
       bucket chains, the _mapTo/_mappedFrom indirection, the free list, the 8/16/32-bit index
       width and the reallocation that really assigns slot indices are NOT modelled (they are tied
       by the correspondence run and the harness oracle only).  GetEntry(hash,key) is modelled as
       "the entry of the iteration list that holds the key".  Sort is modelled at effect level
       (a stable sort followed by relinking); Clear's entry-removal loop likewise.
   No proofs in this file. *)
From Coq Require Import List Arith ZArith NArith PArith Bool FMapPositive.
Import ListNotations.

Inductive variant := VPlain | VKeys | VVals.

Record node := mkNode { nk : Z; nv : Z; nprev : option positive; nnext : option positive }.

Record iter := mkIter { iown : option nat;          (* _owner (a table index) *)
                        icookie : option positive;  (* _iterCookie *)
                        ibw : bool;                 (* HTIT_FLAG_BACKWARDS *)
                        inoreg : bool;              (* HTIT_FLAG_NOREGISTER (set by the table itself) *)
                        iscr : option (Z * Z) }.    (* _scratchKeyAndValue *)

Record ht := mkHt { nodes : PositiveMap.t node;
                    hd : option positive;      (* _iterHeadIdx *)
                    tl : option positive;      (* _iterTailIdx *)
                    cnt : nat;                 (* _numItems *)
                    cap : N;                   (* _tableSize *)
                    fresh : positive;          (* next abstract node id *)
                    asort : bool;              (* _autoSortEnabled *)
                    ilist : list nat }.        (* _iterList, head first (iterator slot numbers) *)

Definition itab := list (option iter).

Record world := mkW { tabs : list ht; its : itab }.

Inductive op :=
(* put family *)
| OPut (t : nat) (k v : Z)
| OPutIfAbsent (t : nat) (k v : Z)
| OGetOrPut (t : nat) (k v : Z)
| OPutAtFront (t : nat) (k v : Z)
| OPutAtBack (t : nat) (k v : Z)
| OPutBefore (t : nat) (k k2 v : Z)
| OPutBehind (t : nat) (k k2 v : Z)
| OPutAtPos (t : nat) (k : Z) (idx : nat) (v : Z)
(* queries *)
| OGet (t : nat) (k : Z)
| OContains (t : nat) (k : Z)
| OIndexOfKey (t : nat) (k : Z)
| OKeyAt (t : nat) (idx : nat)
| OValAt (t : nat) (idx : nat)
| OFirstKey (t : nat)
| OLastKey (t : nat)
| OKeyBefore (t : nat) (k : Z)
| OKeyAfter (t : nat) (k : Z)
| OIndexOfValue (t : nat) (v : Z) (bw : bool)
| ONumItems (t : nat)
(* removal *)
| ORemove (t : nat) (k : Z)
| ORemoveFirst (t : nat)
| ORemoveLast (t : nat)
(* moves *)
| OMoveFront (t : nat) (k : Z)
| OMoveBack (t : nat) (k : Z)
| OMoveBefore (t : nat) (k k2 : Z)
| OMoveBehind (t : nat) (k k2 : Z)
| OMovePos (t : nat) (k : Z) (idx : nat)
| OGetMoveFront (t : nat) (k : Z)
| OGetMoveBack (t : nat) (k : Z)
(* sorting *)
| OSortKey (t : nat)
| OSortVal (t : nat)
| OSort (t : nat)
| OReposition (t : nat) (k : Z)
| OSetAutoSort (t : nat) (en sortnow : bool)
(* size *)
| OEnsure (t : nat) (n : N) (shrink : bool)
| OShrinkFit (t : nat) (extra : N)
| OEnsureCanPut (t : nat) (extra : N)
| OClear (t : nat) (release : bool)
(* two tables *)
| OCopyFrom (t u : nat) (clearfirst : bool)
| OCopyCtor (t u : nat)
| OSwap (t u : nat)
| OEqual (t u : nat) (ordered : bool)
| OMoveToTable (t u : nat) (k : Z)
| OCopyToTable (t u : nat) (k : Z)
| ORemoveTable (t u : nat)
| OIntersect (t u : nat)
| ODestroy (t : nat)
| OMoveCtor (t u : nat)        (* tab[t] = new T(std::move(tab[u])) *)
| OPrealloc (t : nat) (n : N)  (* tab[t] = new T(PreallocatedItemSlotsCount(n)) *)
(* iterators *)
| OIterNew (i t : nat) (bw : bool)
| OIterAt (i t : nat) (k : Z) (bw : bool)
| OIterAdv (i : nat)
| OIterRet (i : nat)
| OIterSetBw (i : nat) (bw : bool)
| OIterDel (i : nat)
| OIterCopy (i j : nat)
| OIterShow (i : nat).

Inductive out :=
| ONone
| OStatus (c : nat)            (* 0 ok, 1 data-not-found, 2 bad-argument, 3 other error *)
| OBool (b : bool)
| OVal (v : option Z)
| OKV (kv : option (Z * Z))
| OIdx (i : option nat)
| ONat (n : nat)
| OIt (kv : option (Z * Z)).   (* what an iterator shows: HasData / GetKey / GetValue *)

(* ------------------------------------------------------------------ small helpers *)

Definition opt_pos_eqb (a b : option positive) : bool :=
  match a, b with
  | None, None => true
  | Some x, Some y => Pos.eqb x y
  | _, _ => false
  end.

Definition head_opt {A} (l : list A) : option A := match l with [] => None | x :: _ => Some x end.

Definition upd_nth {A} (l : list A) (i : nat) (x : A) : list A :=
  if i <? length l then firstn i l ++ x :: skipn (S i) l else l.

Definition geti (I : itab) (i : nat) : option iter := nth i I None.
Definition seti (I : itab) (i : nat) (x : option iter) : itab := upd_nth I i x.

Definition remove_nat (x : nat) (l : list nat) : list nat := filter (fun y => negb (y =? x)) l.

(* ------------------------------------------------------------------ L0: ideal ordered map *)

Definition amap := list (Z * Z).

Fixpoint a_get (l : amap) (k : Z) : option Z :=
  match l with [] => None | (k', v) :: r => if Z.eqb k' k then Some v else a_get r k end.

Fixpoint a_index (l : amap) (k : Z) (i : nat) : option nat :=
  match l with [] => None | (k', _) :: r => if Z.eqb k' k then Some i else a_index r k (S i) end.

Fixpoint a_remove (l : amap) (k : Z) : amap :=
  match l with [] => [] | (k', v) :: r => if Z.eqb k' k then r else (k', v) :: a_remove r k end.

Fixpoint a_set (l : amap) (k v : Z) : amap :=
  match l with [] => [] | (k', v') :: r => if Z.eqb k' k then (k', v) :: r else (k', v') :: a_set r k v end.

Definition a_insert_at (l : amap) (i : nat) (kv : Z * Z) : amap := firstn i l ++ kv :: skipn i l.

(* move the pair with key k so that it ends up at index i of the resulting list *)
Definition a_move_to (l : amap) (k : Z) (i : nat) : amap :=
  match a_get l k with
  | Some v => a_insert_at (a_remove l k) (Nat.min i (length l - 1)) (k, v)
  | None => l
  end.

Fixpoint a_index_of_value (l : amap) (v : Z) (i : nat) : option nat :=
  match l with [] => None | (_, v') :: r => if Z.eqb v' v then Some i else a_index_of_value r v (S i) end.

Definition a_last_index_of_value (l : amap) (v : Z) : option nat :=
  match a_index_of_value (rev l) v 0 with
  | Some j => Some (length l - 1 - j)
  | None => None
  end.

(* stable insertion sort: x goes in front of the first element strictly greater than x *)
Section Sorting.
Variable cmp : Z * Z -> Z * Z -> comparison.
Fixpoint ins_sorted (x : Z * Z) (l : amap) : amap :=
  match l with
  | [] => [x]
  | y :: r => match cmp x y with Lt => x :: y :: r | _ => y :: ins_sorted x r end
  end.
Definition stable_sort (l : amap) : amap := fold_left (fun acc x => ins_sorted x acc) l [].
End Sorting.

Definition cmp_key (a b : Z * Z) : comparison := Z.compare (fst a) (fst b).
Definition cmp_val (a b : Z * Z) : comparison := Z.compare (snd a) (snd b).

(* ------------------------------------------------------------------ L1: nodes and links *)

Definition getn (h : ht) (e : positive) : option node := PositiveMap.find e (nodes h).

Definition with_nodes (h : ht) (m : PositiveMap.t node) : ht :=
  mkHt m (hd h) (tl h) (cnt h) (cap h) (fresh h) (asort h) (ilist h).
Definition with_hd (h : ht) (x : option positive) : ht :=
  mkHt (nodes h) x (tl h) (cnt h) (cap h) (fresh h) (asort h) (ilist h).
Definition with_tl (h : ht) (x : option positive) : ht :=
  mkHt (nodes h) (hd h) x (cnt h) (cap h) (fresh h) (asort h) (ilist h).
Definition with_cnt (h : ht) (c : nat) : ht :=
  mkHt (nodes h) (hd h) (tl h) c (cap h) (fresh h) (asort h) (ilist h).
Definition with_cap (h : ht) (c : N) : ht :=
  mkHt (nodes h) (hd h) (tl h) (cnt h) c (fresh h) (asort h) (ilist h).
Definition with_asort (h : ht) (b : bool) : ht :=
  mkHt (nodes h) (hd h) (tl h) (cnt h) (cap h) (fresh h) b (ilist h).
Definition with_ilist (h : ht) (l : list nat) : ht :=
  mkHt (nodes h) (hd h) (tl h) (cnt h) (cap h) (fresh h) (asort h) l.

Definition setn (h : ht) (e : positive) (n : node) : ht := with_nodes h (PositiveMap.add e n (nodes h)).

Definition set_prev (h : ht) (e : positive) (x : option positive) : ht :=
  match getn h e with Some n => setn h e (mkNode (nk n) (nv n) x (nnext n)) | None => h end.
Definition set_next (h : ht) (e : positive) (x : option positive) : ht :=
  match getn h e with Some n => setn h e (mkNode (nk n) (nv n) (nprev n) x) | None => h end.
Definition set_val (h : ht) (e : positive) (v : Z) : ht :=
  match getn h e with Some n => setn h e (mkNode (nk n) v (nprev n) (nnext n)) | None => h end.

Definition get_prev (h : ht) (e : positive) : option positive :=
  match getn h e with Some n => nprev n | None => None end.
Definition get_next (h : ht) (e : positive) : option positive :=
  match getn h e with Some n => nnext n | None => None end.
Definition kv_of (h : ht) (e : positive) : option (Z * Z) :=
  match getn h e with Some n => Some (nk n, nv n) | None => None end.

(* GetSubsequentEntry(cookie, flags) *)
Definition subseq (h : ht) (c : option positive) (bw : bool) : option positive :=
  match c with
  | None => None
  | Some e => if bw then get_prev h e else get_next h e
  end.

(* forward / backward walks along the links, [fuel] steps at most *)
Fixpoint walk (h : ht) (c : option positive) (fuel : nat) : list positive :=
  match fuel with
  | 0 => []
  | S f => match c with
           | None => []
           | Some e => e :: walk h (get_next h e) f
           end
  end.
Fixpoint walk_back (h : ht) (c : option positive) (fuel : nat) : list positive :=
  match fuel with
  | 0 => []
  | S f => match c with
           | None => []
           | Some e => e :: walk_back h (get_prev h e) f
           end
  end.

Definition ids (h : ht) : list positive := walk h (hd h) (cnt h).

Definition kvs_of (h : ht) (l : list positive) : amap :=
  flat_map (fun e => match kv_of h e with Some kv => [kv] | None => [] end) l.

(* the abstraction function: what a user sees when iterating *)
Definition abs (h : ht) : amap := kvs_of h (ids h).
(* the same sequence read through the prev links from the tail (an internal observable) *)
Definition abs_back (h : ht) : amap := kvs_of h (walk_back h (tl h) (cnt h)).

(* GetEntry(hash, key): the entry holding the key *)
Fixpoint find_from (h : ht) (k : Z) (c : option positive) (fuel : nat) : option positive :=
  match fuel with
  | 0 => None
  | S f => match c with
           | None => None
           | Some e => match getn h e with
                       | None => None
                       | Some n => if Z.eqb (nk n) k then Some e else find_from h k (nnext n) f
                       end
           end
  end.
Definition find_key (h : ht) (k : Z) : option positive := find_from h k (hd h) (cnt h).

(* follow [steps] next (resp. prev) links *)
Fixpoint nth_next (h : ht) (c : option positive) (steps : nat) : option positive :=
  match steps with 0 => c | S s => match c with None => None | Some e => nth_next h (get_next h e) s end end.
Fixpoint nth_prev (h : ht) (c : option positive) (steps : nat) : option positive :=
  match steps with 0 => c | S s => match c with None => None | Some e => nth_prev h (get_prev h e) s end end.

(* GetEntryAt(idx) *)
Definition entry_at (h : ht) (idx : nat) : option positive :=
  if idx <? cnt h then
    if idx <? cnt h / 2 then nth_next h (hd h) idx
    else nth_prev h (tl h) (cnt h - (idx + 1))
  else None.

(* ------------------------------------------------------------------ L1: the two list primitives *)

(* InsertIterationEntry(e, optBehindThis) *)
Definition insert_iter_entry (h : ht) (e : positive) (behind : option positive) : ht :=
  let h1 := set_prev h e behind in
  let nx := match behind with Some b => get_next h1 b | None => hd h1 end in
  let h2 := set_next h1 e nx in
  let h3 := match get_prev h2 e with
            | Some p => set_next h2 p (Some e)
            | None => with_hd h2 (Some e)
            end in
  match get_next h3 e with
  | Some n => set_prev h3 n (Some e)
  | None => with_tl h3 (Some e)
  end.

(* the iterator patching loop at the top of RemoveIterationEntry *)
Definition patch_iter (h : ht) (e : positive) (it : iter) : iter :=
  if opt_pos_eqb (icookie it) (Some e) then
    mkIter (iown it) (subseq h (icookie it) (ibw it)) (ibw it) (inoreg it)
           (match iscr it with Some s => Some s | None => kv_of h e end)
  else it.

Definition patch_all (h : ht) (e : positive) (I : itab) : itab :=
  fold_left (fun I i => match geti I i with
                        | Some it => seti I i (Some (patch_iter h e it))
                        | None => I
                        end) (ilist h) I.

(* RemoveIterationEntry(e) *)
Definition unlink (h : ht) (e : positive) : ht :=
  let p := get_prev h e in
  let n := get_next h e in
  let h1 := if opt_pos_eqb (hd h) (Some e) then with_hd h n else h in
  let h2 := if opt_pos_eqb (tl h1) (Some e) then with_tl h1 p else h1 in
  let h3 := match p with Some pp => set_next h2 pp n | None => h2 end in
  let h4 := match n with Some nn => set_prev h3 nn p | None => h3 end in
  set_next (set_prev h4 e None) e None.

Definition remove_iter_entry (h : ht) (I : itab) (e : positive) : ht * itab :=
  (unlink h e, patch_all h e I).

(* MoveTo*Aux *)
Definition move_front_aux (h : ht) (I : itab) (e : positive) : ht * itab :=
  match get_prev h e with
  | Some _ => let '(h1, I1) := remove_iter_entry h I e in (insert_iter_entry h1 e None, I1)
  | None => (h, I)
  end.
Definition move_back_aux (h : ht) (I : itab) (e : positive) : ht * itab :=
  match get_next h e with
  | Some _ => let '(h1, I1) := remove_iter_entry h I e in (insert_iter_entry h1 e (tl h1), I1)
  | None => (h, I)
  end.
Definition move_before_aux (h : ht) (I : itab) (e f : positive) : ht * itab :=
  if opt_pos_eqb (get_next h e) (Some f) then (h, I)
  else let '(h1, I1) := remove_iter_entry h I e in (insert_iter_entry h1 e (get_prev h1 f), I1).
Definition move_behind_aux (h : ht) (I : itab) (e d : positive) : ht * itab :=
  if opt_pos_eqb (get_prev h e) (Some d) then (h, I)
  else let '(h1, I1) := remove_iter_entry h I e in (insert_iter_entry h1 e (Some d), I1).

(* MoveToPositionAux(e, idx) *)
Definition move_pos_aux (h : ht) (I : itab) (e : positive) (idx : nat) : ht * itab :=
  if idx =? 0 then move_front_aux h I e
  else if cnt h <=? idx then move_back_aux h I e
  else if opt_pos_eqb (entry_at h idx) (Some e) then (h, I)   (* already there: not unlinked (fix 5556955) *)
  else
    let '(h1, I1) := remove_iter_entry h I e in
    let after := if idx <? cnt h / 2 then nth_next h1 (hd h1) (idx - 1)
                 else nth_prev h1 (tl h1) (cnt h - 1 - idx) in
    (insert_iter_entry h1 e after, I1).

(* ------------------------------------------------------------------ L1: entries *)

(* PutAuxAux + slot choice: a new node with a fresh abstract id, not yet linked *)
Definition alloc_node (h : ht) (k v : Z) : ht * positive :=
  let e := fresh h in
  (mkHt (PositiveMap.add e (mkNode k v None None) (nodes h)) (hd h) (tl h) (cnt h) (cap h)
        (Pos.succ e) (asort h) (ilist h), e).

(* RemoveEntry(e) *)
Definition remove_entry (h : ht) (I : itab) (e : positive) : ht * itab :=
  let '(h1, I1) := remove_iter_entry h I e in
  (with_cnt (with_nodes h1 (PositiveMap.remove e (nodes h1))) (cnt h1 - 1), I1).

(* Clear(releaseCachedData); [dcap] = MUSCLE_HASHTABLE_DEFAULT_CAPACITY *)
Definition detach_iter (h : ht) (it : iter) : iter :=
  mkIter None None (ibw it) (inoreg it)
         (match icookie it with
          | Some c => match kv_of h c with Some kv => Some kv | None => iscr it end
          | None => iscr it
          end).

Definition detach_all (h : ht) (I : itab) : itab :=
  fold_left (fun I i => match geti I i with
                        | Some it => seti I i (Some (detach_iter h it))
                        | None => I
                        end) (ilist h) I.

Definition clear_tab (dcap : N) (h : ht) (I : itab) (release : bool) : ht * itab :=
  (mkHt (PositiveMap.empty node) None None 0 (if release then dcap else cap h) (fresh h) (asort h) [],
   detach_all h I).

(* EnsureSize(requestedSize, allowShrink); 0 = B_NO_ERROR, 3 = B_RESOURCE_LIMIT *)
Definition ensure_size (dcap : N) (h : ht) (I : itab) (req : N) (shrink : bool) : ht * itab * nat :=
  let bigger := N.max (N.of_nat (cnt h)) (if shrink then req else N.max req (cap h)) in
  if N.eqb bigger (cap h) then (h, I, 0)
  else if N.eqb bigger 0 then let '(h1, I1) := clear_tab dcap h I true in (h1, I1, 0)
  else if N.eqb bigger 4294967295 then (h, I, 3)
  else (with_cap h bigger, I, 0).

(* ------------------------------------------------------------------ L1: ordered variants *)

Section Variant.
Variable var : variant.
Variable dcap : N.

Definition cmp_var (a b : Z * Z) : comparison :=
  match var with VVals => cmp_val a b | _ => cmp_key a b end.

Definition cmp_ent (h : ht) (kv : Z * Z) (x : positive) : comparison :=
  match kv_of h x with Some kx => cmp_var kv kx | None => Eq end.

(* walk backwards from c while Compare(e, c) < 0 *)
Fixpoint scan_back (h : ht) (kv : Z * Z) (c : option positive) (fuel : nat) : option positive :=
  match fuel with
  | 0 => None
  | S f => match c with
           | None => None
           | Some x => match cmp_ent h kv x with
                       | Lt => scan_back h kv (get_prev h x) f
                       | _ => Some x
                       end
           end
  end.

(* InsertIterationEntryAux(e) for the three classes *)
Definition insert_entry_aux (h : ht) (e : positive) : ht :=
  match var with
  | VPlain => insert_iter_entry h e (tl h)
  | _ =>
    if asort h then
      match kv_of h e, hd h with
      | Some kv, Some hx =>
          if (0 <? cnt h) && negb (match cmp_ent h kv hx with Lt => true | _ => false end)
          then insert_iter_entry h e (scan_back h kv (tl h) (cnt h))
          else insert_iter_entry h e None
      | _, _ => insert_iter_entry h e None
      end
    else insert_iter_entry h e (tl h)
  end.

(* the two inner loops of MoveIterationEntryToCorrectPosition *)
Fixpoint creep_back (h : ht) (kv : Z * Z) (b : positive) (fuel : nat) : positive :=
  match fuel with
  | 0 => b
  | S f => match get_prev h b with
           | Some p => match cmp_ent h kv p with Lt => creep_back h kv p f | _ => b end
           | None => b
           end
  end.
Fixpoint creep_fwd (h : ht) (kv : Z * Z) (b : positive) (fuel : nat) : positive :=
  match fuel with
  | 0 => b
  | S f => match get_next h b with
           | Some n => match cmp_ent h kv n with Gt => creep_fwd h kv n f | _ => b end
           | None => b
           end
  end.

Definition is_lt (c : comparison) := match c with Lt => true | _ => false end.
Definition is_gt (c : comparison) := match c with Gt => true | _ => false end.

(* MoveIterationEntryToCorrectPosition(e) *)
Definition reposition_ordered (h : ht) (I : itab) (e : positive) : ht * itab :=
  match kv_of h e with
  | None => (h, I)
  | Some kv =>
    match get_prev h e with
    | Some b =>
      if is_lt (cmp_ent h kv b) then
        match hd h with
        | Some hx => if is_lt (cmp_ent h kv hx) then move_front_aux h I e
                     else move_before_aux h I e (creep_back h kv b (cnt h))
        | None => (h, I)
        end
      else
        match get_next h e with
        | Some b2 =>
          if is_gt (cmp_ent h kv b2) then
            match tl h with
            | Some tx => if is_gt (cmp_ent h kv tx) then move_back_aux h I e
                         else move_behind_aux h I e (creep_fwd h kv b2 (cnt h))
            | None => (h, I)
            end
          else (h, I)
        | None => (h, I)
        end
    | None =>
      match get_next h e with
      | Some b2 =>
        if is_gt (cmp_ent h kv b2) then
          match tl h with
          | Some tx => if is_gt (cmp_ent h kv tx) then move_back_aux h I e
                       else move_behind_aux h I e (creep_fwd h kv b2 (cnt h))
          | None => (h, I)
          end
        else (h, I)
      | None => (h, I)
      end
    end
  end.

(* MoveIterationEntryToCorrectPositionAux(e) *)
Definition reposition_aux (h : ht) (I : itab) (e : positive) : ht * itab :=
  match var with VPlain => (h, I) | _ => reposition_ordered h I e end.

(* SortByEntry, effect level: stable sort of the traversal order, then relink everything *)
Fixpoint ins_id (h : ht) (cmp : Z * Z -> Z * Z -> comparison) (x : positive) (l : list positive) : list positive :=
  match l with
  | [] => [x]
  | y :: r => match kv_of h x, kv_of h y with
              | Some kx, Some ky => match cmp kx ky with Lt => x :: y :: r | _ => y :: ins_id h cmp x r end
              | _, _ => y :: ins_id h cmp x r
              end
  end.
Definition sort_ids (h : ht) (cmp : Z * Z -> Z * Z -> comparison) (l : list positive) : list positive :=
  fold_left (fun acc x => ins_id h cmp x acc) l [].

Fixpoint relink_from (h : ht) (p : option positive) (l : list positive) : ht :=
  match l with
  | [] => with_tl h p
  | e :: r => relink_from (set_next (set_prev h e p) e (head_opt r)) (Some e) r
  end.
Definition relink (h : ht) (l : list positive) : ht := relink_from (with_hd h (head_opt l)) None l.

Definition sort_by (h : ht) (cmp : Z * Z -> Z * Z -> comparison) : ht := relink h (sort_ids h cmp (ids h)).

(* SortAux() *)
Definition sort_aux (h : ht) : ht := match var with VPlain => h | _ => sort_by h cmp_var end.

(* ------------------------------------------------------------------ L1: PutAux and friends *)

(* PutAux(hash, key, value, ..): returns the entry and the replaced value if any *)
(* EnsureTableAllocated(): a table without any slot (moved-from, or preallocated with 0) falls back
   to the default capacity -- the repaired behaviour, see the C09 finding on zero-capacity tables *)
Definition ensure_allocated (h : ht) : ht := if N.eqb (cap h) 0 then with_cap h dcap else h.

Definition put_aux (h0 : ht) (I : itab) (k v : Z) : ht * itab * positive * option Z :=
  let h := ensure_allocated h0 in
  match find_key h k with
  | Some e =>
      let old := match kv_of h e with Some kv => Some (snd kv) | None => None end in
      let '(h1, I1) := reposition_aux (set_val h e v) I e in
      (h1, I1, e, old)
  | None =>
      let '(h0, I0, _) := if N.eqb (N.of_nat (cnt h)) (cap h)
                          then ensure_size dcap h I (cap h * 2) false else (h, I, 0) in
      let '(h1, e) := alloc_node h0 k v in
      let h2 := insert_entry_aux h1 e in
      (with_cnt h2 (cnt h2 + 1), I0, e, None)
  end.

(* CopyFromAux(rhs) with rhs given by its pairs *)
Definition copy_one (wasempty : bool) (h : ht) (kv : Z * Z) : ht :=
  match (if wasempty then None else find_key h (fst kv)) with
  | Some e => set_val h e (snd kv)
  | None => let '(h1, e) := alloc_node h (fst kv) (snd kv) in
            let h2 := insert_iter_entry h1 e (tl h1) in
            with_cnt h2 (cnt h2 + 1)
  end.
Definition copy_from_aux (h : ht) (src : amap) : ht :=
  fold_left (copy_one (cnt h =? 0)) src h.

(* CopyFrom(rhs, clearFirst) for this != &rhs *)
Definition copy_from (h : ht) (I : itab) (src : amap) (srccap : N) (clearfirst : bool) : ht * itab * nat :=
  let '(h1, I1) := if clearfirst
                   then clear_tab dcap h I ((length src =? 0) && (N.ltb dcap (cap h)))
                   else (h, I) in
  match src with
  | [] => (h1, I1, 0)
  | _ => let '(h2, I2, st) := ensure_size dcap h1 I1 (N.of_nat (cnt h1 + length src)) false in
         if st =? 0 then (sort_aux (copy_from_aux h2 src), I2, 0) else (h2, I2, st)
  end.

End Variant.
