(* C17 -- level 0 of the String model: the ideal byte string.

   A byte is an [N] (0..255; nothing below depends on the upper bound), a string is a
   [list N] that holds no 0 (well-formedness: [nulfree], stated in StrProofs.v), lengths and
   indices are [N] because the C++ API takes uint32 arguments up to MUSCLE_NO_LIMIT = 2^32-1,
   int results are [Z].  Every function here is the reference semantics of one public
   operation of muscle::String (util/String.h, util/String.cpp), written as the obvious
   list function -- no storage, no pointers.
   No proofs in this file. *)
From Coq Require Import List NArith ZArith Bool.
Import ListNotations.
Local Open Scope N_scope.

(* ------------------------------------------------------------------ N-indexed list helpers *)

Definition lenN {A} (l : list A) : N := N.of_nat (length l).
(* the index is clamped before it is turned into a [nat], so that 2^32-1 costs nothing *)
Definition takeN {A} (n : N) (l : list A) : list A := firstn (N.to_nat (N.min n (lenN l))) l.
Definition dropN {A} (n : N) (l : list A) : list A := skipn (N.to_nat (N.min n (lenN l))) l.
Definition nthN (i : N) (l : list N) : N := if i <? lenN l then nth (N.to_nat i) l 0 else 0.
Definition repN {A} (x : A) (n : N) : list A := repeat x (N.to_nat n).
(* a memmove/memcpy of [src] to offset [i] of the buffer [l] *)
Definition blit (l : list N) (i : N) (src : list N) : list N := takeN i l ++ src ++ dropN (i + lenN src) l.
Definition upd (l : list N) (i v : N) : list N := blit l i [v].
(* the C-string view of a buffer: the bytes before the first NUL *)
Fixpoint cstr (l : list N) : list N :=
  match l with [] => [] | x :: t => if x =? 0 then [] else x :: cstr t end.

Definition NOLIMIT : N := 4294967295.     (* MUSCLE_NO_LIMIT; the check asserts it equals c_MUSCLE_NO_LIMIT *)
Definition u32 (x : N) : N := x mod 4294967296.
Definition u64 (x : N) : N := x mod 18446744073709551616.
(* (int32) of a uint64 / uint32 value *)
Definition to_i32 (x : N) : Z :=
  let y := u32 x in if y <? 2147483648 then Z.of_N y else (Z.of_N y - 4294967296)%Z.

(* ------------------------------------------------------------------ characters *)

Definition is_upper (c : N) := (65 <=? c) && (c <=? 90).
Definition is_lower (c : N) := (97 <=? c) && (c <=? 122).
Definition is_digit (c : N) := (48 <=? c) && (c <=? 57).
Definition to_lower (c : N) := if is_upper c then c + 32 else c.
Definition to_upper (c : N) := if is_lower c then c - 32 else c.
Definition is_space4 (c : N) := (c =? 32) || (c =? 9) || (c =? 13) || (c =? 10).   (* String::IsSpaceChar *)
Definition is_alnum_ascii (c : N) := is_lower c || is_upper c || is_digit c.

(* ------------------------------------------------------------------ comparison *)

Fixpoint list_eqb (a b : list N) : bool :=
  match a, b with
  | [], [] => true
  | x :: a', y :: b' => (x =? y) && list_eqb a' b'
  | _, _ => false
  end.

(* sign of strcmp (unsigned byte order) *)
Fixpoint cmp_bytes (a b : list N) : Z :=
  match a, b with
  | [], [] => 0%Z
  | [], _ :: _ => (-1)%Z
  | _ :: _, [] => 1%Z
  | x :: a', y :: b' => if x <? y then (-1)%Z else if y <? x then 1%Z else cmp_bytes a' b'
  end.
Definition cmp_nocase (a b : list N) : Z := cmp_bytes (map to_lower a) (map to_lower b).
Definition eq_nocase (a b : list N) : bool := list_eqb (map to_lower a) (map to_lower b).

Fixpoint prefixb (p l : list N) : bool :=
  match p, l with
  | [], _ => true
  | _ :: _, [] => false
  | x :: p', y :: l' => (x =? y) && prefixb p' l'
  end.
Definition starts_with (l p : list N) : bool := prefixb p l.
Definition ends_with (l p : list N) : bool :=
  (lenN p <=? lenN l) && list_eqb (dropN (lenN l - lenN p) l) p.
Definition starts_with_nocase (l p : list N) : bool := prefixb (map to_lower p) (map to_lower l).
Definition ends_with_nocase (l p : list N) : bool := ends_with (map to_lower l) (map to_lower p).

(* ------------------------------------------------------------------ searching *)

Fixpoint find_ch (ch : N) (l : list N) : option N :=
  match l with
  | [] => None
  | x :: t => if x =? ch then Some 0 else option_map N.succ (find_ch ch t)
  end.

(* first index at which [needle] occurs in [l]; the empty needle occurs at 0 *)
Fixpoint find_sub (needle l : list N) : option N :=
  if prefixb needle l then Some 0
  else match l with
       | [] => None
       | _ :: t => option_map N.succ (find_sub needle t)
       end.

(* greatest index i <= from (counting from [i0]) at which p holds on the suffix starting there *)
Fixpoint rfind_aux (p : list N -> bool) (l : list N) (i from : N) (best : option N) : option N :=
  let best' := if (i <=? from) && p l then Some i else best in
  match l with
  | [] => best'
  | _ :: t => rfind_aux p t (i + 1) from best'
  end.

Definition zidx (o : option N) : Z := match o with Some i => Z.of_N i | None => (-1)%Z end.

(* IndexOf(char, from): strchr semantics -- asking for NUL finds the terminator *)
Definition l0_index_of_ch (l : list N) (ch from : N) : Z :=
  if from <? lenN l then
    (if ch =? 0 then Z.of_N (lenN l)
     else match find_ch ch (dropN from l) with Some k => Z.of_N (from + k) | None => (-1)%Z end)
  else (-1)%Z.

(* IndexOf(string, from) : strstr from offset [from] *)
Definition l0_index_of (l needle : list N) (from : N) : Z :=
  if from <? lenN l then
    match find_sub needle (dropN from l) with Some k => Z.of_N (from + k) | None => (-1)%Z end
  else (-1)%Z.

(* LastIndexOf(char, from): greatest index >= from holding ch *)
Definition l0_last_index_of_ch (l : list N) (ch from : N) : Z :=
  if from <? lenN l then
    match rfind_aux (fun r => match r with x :: _ => x =? ch | [] => false end) (dropN from l) from NOLIMIT None with
    | Some i => Z.of_N i | None => (-1)%Z end
  else (-1)%Z.

(* LastIndexOf(string, from): greatest start index <= from at which needle occurs;
   the code's answer for the empty needle is Length()-1 *)
Definition l0_last_index_of (l needle : list N) (from : N) : Z :=
  match needle with
  | [] => (Z.of_N (lenN l) - 1)%Z
  | _ => if lenN l <=? from then (-1)%Z
         else zidx (rfind_aux (fun r => match r with [] => false | _ => prefixb needle r end) l 0 from None)
  end.
(* LastIndexOf(string) *)
Definition l0_last_index_of1 (l needle : list N) : Z :=
  if lenN needle <=? lenN l then l0_last_index_of l needle (lenN l - lenN needle) else (-1)%Z.

Fixpoint count_ch (ch : N) (l : list N) : N :=
  match l with [] => 0 | x :: t => (if x =? ch then 1 else 0) + count_ch ch t end.
Definition l0_count_ch (l : list N) (ch from : N) : N :=
  if lenN l <=? from then 0 else count_ch ch (dropN from l).

(* non-overlapping, leftmost-first occurrences of a non-empty needle *)
Fixpoint count_sub_fuel (fuel : nat) (needle l : list N) : N :=
  match fuel with
  | O => 0
  | S f => match find_sub needle l with
           | None => 0
           | Some k => 1 + count_sub_fuel f needle (dropN (k + lenN needle) l)
           end
  end.
Definition l0_count_sub (l needle : list N) (from : N) : N :=
  match needle with
  | [] => 0
  | _ => if from <? lenN l then count_sub_fuel (S (length l)) needle (dropN from l) else 0
  end.

(* case-insensitive search, StrcasestrEx: both lengths must be non-zero *)
Definition find_sub_nocase (needle l : list N) : option N := find_sub (map to_lower needle) (map to_lower l).
Definition l0_index_of_nocase (l needle : list N) (from : N) : Z :=
  if (from <? lenN l) && negb (lenN needle =? 0) then
    match find_sub_nocase needle (dropN from l) with Some k => Z.of_N (from + k) | None => (-1)%Z end
  else (-1)%Z.
Definition l0_last_index_of_nocase (l needle : list N) (from : N) : Z :=
  if (from <? lenN l) && negb (lenN needle =? 0) then
    let h := dropN from l in
    match rfind_aux (fun r => match r with [] => false | _ => prefixb (map to_lower needle) (map to_lower r) end)
                    h from NOLIMIT None with
    | Some i => Z.of_N i | None => (-1)%Z end
  else (-1)%Z.
Definition l0_index_of_ch_nocase (l : list N) (ch from : N) : Z :=
  if to_lower ch =? to_upper ch then l0_index_of_ch l ch from
  else match find_ch (to_lower ch) (map to_lower (dropN from l)) with
       | Some k => Z.of_N (from + k) | None => (-1)%Z end.
Definition l0_last_index_of_ch_nocase (l : list N) (ch from : N) : Z :=
  if to_lower ch =? to_upper ch then l0_last_index_of_ch l ch from
  else match rfind_aux (fun r => match r with x :: _ => to_lower x =? to_lower ch | [] => false end)
                       (dropN from l) from NOLIMIT None with
       | Some i => Z.of_N i | None => (-1)%Z end.

(* ------------------------------------------------------------------ building *)

(* characters [first, min(after,len)) -- SetFromString / the substring constructor *)
Definition l0_sub (l : list N) (first after : N) : list N :=
  let a := N.min after (lenN l) in
  if first <? a then takeN (a - first) (dropN first l) else [].

Definition l0_insert (l : list N) (idx : N) (x : list N) : list N :=
  let i := N.min idx (lenN l) in takeN i l ++ x ++ dropN i l.

Definition l0_trunc_chars (l : list N) (n : N) : list N := takeN (lenN l - N.min (lenN l) n) l.
Definition l0_trunc_to (l : list N) (n : N) : list N := takeN (N.min (lenN l) n) l.

(* the bytes a `const char *` argument denotes, cut at maxLen *)
Definition l0_cprefix (x : list N) (maxLen : N) : list N := takeN maxLen x.

Fixpoint drop_while (p : N -> bool) (l : list N) : list N :=
  match l with [] => [] | x :: t => if p x then drop_while p t else l end.
Definition l0_trimmed (l : list N) : list N := rev (drop_while is_space4 (rev (drop_while is_space4 l))).

Fixpoint mixed_aux (prevLetter : bool) (l : list N) : list N :=
  match l with
  | [] => []
  | c :: t => (if prevLetter then to_lower c else to_upper c) :: mixed_aux (is_alnum_ascii c) t
  end.
Definition l0_mixed (l : list N) : list N := mixed_aux false l.

(* Replace(char, char, max, from) *)
Fixpoint replace_ch_aux (l : list N) (a b : N) (max : N) : list N * N :=
  match l with
  | [] => ([], 0)
  | x :: t => if (0 <? max) && (x =? a)
              then let '(t', k) := replace_ch_aux t a b (max - 1) in (b :: t', k + 1)
              else let '(t', k) := replace_ch_aux t a b max in (x :: t', k)
  end.
Definition l0_replace_ch (l : list N) (a b max from : N) : list N * N :=
  if negb (a =? b) && (from <? lenN l)
  then let '(t, k) := replace_ch_aux (dropN from l) a b max in (takeN from l ++ t, k)
  else (l, 0).

(* Replace(string, string, max, from): leftmost-first, non-overlapping, at most max *)
Fixpoint replace_sub_fuel (fuel : nat) (l rm wm : list N) (max : N) : list N * N :=
  match fuel with
  | O => (l, 0)
  | S f => if 0 <? max then
             match find_sub rm l with
             | None => (l, 0)
             | Some k => let '(t, c) := replace_sub_fuel f (dropN (k + lenN rm) l) rm wm (max - 1) in
                         (takeN k l ++ wm ++ t, c + 1)
             end
           else (l, 0)
  end.
Definition l0_replace_sub (l rm wm : list N) (max from : N) : list N * N :=
  if (max =? 0) || (lenN l <=? from) || (lenN rm =? 0) then (l, 0)
  else let '(t, c) := replace_sub_fuel (S (length l)) (dropN from l) rm wm max in (takeN from l ++ t, c).

(* ------------------------------------------------------------------ numbers *)

Fixpoint digits_prefix (l : list N) : list N :=
  match l with [] => [] | x :: t => if is_digit x then x :: digits_prefix t else [] end.
(* Atoull: value of the leading decimal digits, modulo 2^64 *)
Definition atoull (l : list N) : N :=
  fold_left (fun acc d => u64 (acc * 10 + (d - 48))) (digits_prefix l) 0.

Definition digits_suffix (l : list N) : list N := rev (digits_prefix (rev l)).
Definition l0_parse_num_suffix (l : list N) (def : N) : N :=
  match digits_suffix l with [] => def | ds => u32 (atoull ds) end.
Definition l0_without_num_suffix (l : list N) : list N * N :=
  let ds := digits_suffix l in (takeN (lenN l - lenN ds) l, u32 (atoull ds)).
Definition l0_starts_with_number (l : list N) (allowNeg : bool) : bool :=
  is_digit (nthN 0 l) || (allowNeg && (nthN 0 l =? 45) && is_digit (nthN 1 l)).

(* decimal text of a natural number; the fuel is the bit size of the number (each step divides by 10) *)
Fixpoint dec_fuel (fuel : nat) (n : N) (acc : list N) : list N :=
  match fuel with
  | O => acc
  | S f => let acc' := (48 + n mod 10) :: acc in
           if n / 10 =? 0 then acc' else dec_fuel f (n / 10) acc'
  end.
Definition dec_of_N (n : N) : list N := dec_fuel (S (N.to_nat (N.size n))) n [].
Definition dec_of_Z (z : Z) : list N :=
  match z with Zneg p => 45 :: dec_of_N (Npos p) | _ => dec_of_N (Z.to_N z) end.

(* ArgAux: the smallest %<n> token number present (as the code computes it, int32 casts included) *)
Fixpoint arg_scan (fuel : nat) (l : list N) (low : Z) : Z :=
  match fuel with
  | O => low
  | S f =>
    match l with
    | [] => low
    | c :: t =>
      if c =? 37 then
        (if is_digit (nthN 0 t)
         then let v := to_i32 (atoull t) in
              let low' := if (low <? 0)%Z then v else Z.min v low in
              arg_scan f (dropN (lenN (digits_prefix t)) t) low'
         else arg_scan f t low)
      else arg_scan f t low
    end
  end.
Definition l0_arg (l : list N) (value : list N) : list N :=
  let low := arg_scan (S (length l)) l (-1)%Z in
  if (0 <=? low)%Z then fst (l0_replace_sub l (37 :: dec_of_Z low) value NOLIMIT 0) else l.

(* WithoutSuffix / WithoutPrefix (string forms) *)
Fixpoint strip_suffix_fuel (fuel : nat) (l suf : list N) (max : N) : list N :=
  match fuel with
  | O => l
  | S f => if (0 <? max) && ends_with l suf
           then strip_suffix_fuel f (l0_trunc_chars l (lenN suf)) suf (max - 1) else l
  end.
Definition l0_without_suffix (l suf : list N) (max : N) : list N :=
  match suf with [] => l | _ => strip_suffix_fuel (S (length l)) l suf max end.
Fixpoint strip_prefix_fuel (fuel : nat) (l pre : list N) (max : N) : list N :=
  match fuel with
  | O => l
  | S f => if (0 <? max) && starts_with l pre
           then strip_prefix_fuel f (dropN (lenN pre) l) pre (max - 1) else l
  end.
Definition l0_without_prefix (l pre : list N) (max : N) : list N :=
  match pre with [] => l | _ => strip_prefix_fuel (S (length l)) l pre max end.
Fixpoint strip_ch_prefix (l : list N) (ch max : N) : list N :=
  match l with
  | [] => []
  | x :: t => if (0 <? max) && (x =? ch) then strip_ch_prefix t ch (max - 1) else l
  end.
Definition l0_without_prefix_ch (l : list N) (ch max : N) : list N := strip_ch_prefix l ch max.
Definition l0_without_suffix_ch (l : list N) (ch max : N) : list N := strip_suffix_fuel (S (length l)) l [ch] max.

(* operator-=: cut out the last occurrence *)
Definition l0_minus (l x : list N) : list N :=
  match x with
  | [] => l
  | _ => match l0_last_index_of1 l x with
         | Zneg _ => l
         | z => takeN (Z.to_N z) l ++ dropN (Z.to_N z + lenN x) l
         end
  end.
Definition l0_minus_ch (l : list N) (ch : N) : list N :=
  match l0_last_index_of_ch l ch 0 with
  | Zneg _ => l
  | z => takeN (Z.to_N z) l ++ dropN (Z.to_N z + 1) l
  end.

(* the IgnoreCase forms of WithoutSuffix / WithoutPrefix *)
Fixpoint strip_suffix_nc_fuel (fuel : nat) (l suf : list N) (max : N) : list N :=
  match fuel with
  | O => l
  | S f => if (0 <? max) && ends_with_nocase l suf
           then strip_suffix_nc_fuel f (l0_trunc_chars l (lenN suf)) suf (max - 1) else l
  end.
Definition l0_without_suffix_nc (l suf : list N) (max : N) : list N :=
  match suf with [] => l | _ => strip_suffix_nc_fuel (S (length l)) l suf max end.
Fixpoint strip_prefix_nc_fuel (fuel : nat) (l pre : list N) (max : N) : list N :=
  match fuel with
  | O => l
  | S f => if (0 <? max) && starts_with_nocase l pre
           then strip_prefix_nc_fuel f (dropN (lenN pre) l) pre (max - 1) else l
  end.
Definition l0_without_prefix_nc (l pre : list N) (max : N) : list N :=
  match pre with [] => l | _ => strip_prefix_nc_fuel (S (length l)) l pre max end.
Fixpoint strip_ch_prefix_nc (l : list N) (ch max : N) : list N :=
  match l with
  | [] => []
  | x :: t => if (0 <? max) && ((x =? to_upper ch) || (x =? to_lower ch)) then strip_ch_prefix_nc t ch (max - 1) else l
  end.

(* WithInsertedWord / WithAppendedWord / WithPrependedWord: insert [w], putting [sep] between it and its
   neighbours unless a separator is already there *)
Definition is_nil (l : list N) : bool := match l with [] => true | _ => false end.
Definition l0_with_word (l : list N) (idx : N) (w sep : list N) : list N :=
  if is_nil w then l
  else if is_nil sep then l0_insert l idx w
  else if lenN l <=? idx then
    (if is_nil l || ends_with l sep || starts_with w sep then l else l ++ sep) ++ w
  else if idx =? 0 then
    w ++ (if is_nil l || starts_with l sep || ends_with w sep then l else sep ++ l)
  else
    let a := takeN idx l in
    let b := dropN idx l in
    let r1 := if negb (is_nil a) && negb (ends_with a sep) && negb (starts_with w sep) then a ++ sep else a in
    let r2 := r1 ++ w in
    let r3 := if negb (is_nil b) && negb (ends_with r2 sep) && negb (starts_with b sep) then r2 ++ sep else r2 in
    r3 ++ b.

(* IndentedBy: [pad] is put before the first character of every line that has one *)
Fixpoint indent_fold (pad : list N) (seen : bool) (l acc : list N) : list N :=
  match l with
  | [] => acc
  | c :: t => if (c =? 10) || (c =? 13) then indent_fold pad false t (acc ++ [c])
              else if seen then indent_fold pad true t (acc ++ [c])
              else indent_fold pad true t ((acc ++ pad) ++ [c])
  end.
Definition l0_indented (l : list N) (n ch : N) : list N :=
  if (n =? 0) || (ch =? 0) then l
  else let pad := repN ch n in
       indent_fold pad false l (if (nthN 0 l =? 13) || (nthN 0 l =? 10) then pad else []).

(* WithCharsEscaped(charsToEscape, escapeChar) *)
Definition is_sep (seps : list N) (c : N) : bool := existsb (N.eqb c) seps.
Fixpoint count_if (p : N -> bool) (l : list N) : N :=
  match l with [] => 0 | x :: t => (if p x then 1 else 0) + count_if p t end.
Fixpoint esc_fold (seps : list N) (esc : N) (prevEsc : bool) (prevCh : N) (l acc : list N) : list N :=
  match l with
  | [] => acc
  | cur :: t =>
    let next := nthN 0 t in
    let pre := negb prevEsc &&
               (is_sep seps cur || ((cur =? esc) && negb (next =? 0) && negb (next =? esc) && negb (is_sep seps next))) in
    esc_fold seps esc ((cur =? esc) && negb (prevCh =? esc)) cur t ((if pre then acc ++ [esc] else acc) ++ [cur])
  end.
Definition l0_escaped (l seps : list N) (esc : N) : list N :=
  if esc =? 0 then l
  else if (count_if (is_sep seps) l =? 0) && (count_ch esc l =? 0) then l
  else esc_fold seps esc false 0 l [].

(* GetDistanceTo: Levenshtein distance, capped at maxResult.  One row of the dynamic programme: [up] is the previous
   row from column 1 on, [left] the entry just written, [diag] the previous row's entry to the left *)
Fixpoint lev_row (up a : list N) (c left diag : N) : list N :=
  match a, up with
  | ay :: a', u :: up' =>
      let v := N.min (N.min (u + 1) (left + 1)) (diag + (if ay =? c then 0 else 1)) in
      v :: lev_row up' a' c v u
  | _, _ => []
  end.
Fixpoint iotaN (start : N) (n : nat) : list N := match n with O => [] | S k => start :: iotaN (start + 1) k end.
Fixpoint lev_rows (a b : list N) (x : N) (row : list N) : list N :=
  match b with
  | [] => row
  | c :: t => lev_rows a t (x + 1) ((x + 1) :: lev_row (tl row) a c (x + 1) (hd 0 row))
  end.
Definition lev (a b : list N) : N := last (lev_rows a b 0 (iotaN 0 (S (length a)))) 0.
(* the distance is symmetric; like the code, the programme keeps the shorter string in the columns *)
Definition l0_distance (a b : list N) (max : N) : N :=
  let '(sh, lo) := if lenN b <? lenN a then (b, a) else (a, b) in N.min (lev sh lo) max.

(* the same programme with the code's early exit: the pinned tree tested the last column of the row, the repaired
   code tests the minimum of the row *)
Fixpoint lev_rows_exit (fixed : bool) (a b : list N) (x : N) (row : list N) (max : N) : list N :=
  match b with
  | [] => row
  | c :: t => let row' := (x + 1) :: lev_row (tl row) a c (x + 1) (hd 0 row) in
              let test := if fixed then fold_right N.min (x + 1) row' else last row' 0 in
              if max <=? test then row' else lev_rows_exit fixed a t (x + 1) row' max
  end.
Definition distance_code (fixed : bool) (a b : list N) (max : N) : N :=
  let '(sh, lo) := if lenN b <? lenN a then (b, a) else (a, b) in
  N.min (last (lev_rows_exit fixed sh lo 0 (iotaN 0 (S (length sh))) max) 0) max.

(* NumericAwareStrcmp / NumericAwareStrcasecmp (Martin Pool's strnatcmp as adapted in util/String.cpp), sign of the result.
   Strings are seen as C strings: the byte after the last one is 0.  `char` is signed, isspace/isdigit are the C locale's. *)
Definition is_cspace (c : N) : bool := (c =? 32) || ((9 <=? c) && (c <=? 13)).
Definition schar (x : N) : Z := if x <? 128 then Z.of_N x else (Z.of_N x - 256)%Z.
Fixpoint nat_right (fuel : nat) (a b : list N) (bias : Z) : Z :=
  match fuel with
  | O => bias
  | S f =>
    let ca := nthN 0 a in let cb := nthN 0 b in
    if negb (is_digit ca) && negb (is_digit cb) then bias
    else if negb (is_digit ca) then (-1)%Z
    else if negb (is_digit cb) then 1%Z
    else nat_right f (tl a) (tl b)
           (if (bias =? 0)%Z then (if ca <? cb then (-1)%Z else if cb <? ca then 1%Z else 0%Z) else bias)
  end.
Fixpoint nat_left (fuel : nat) (a b : list N) : Z :=
  match fuel with
  | O => 0%Z
  | S f =>
    let ca := nthN 0 a in let cb := nthN 0 b in
    if negb (is_digit ca) && negb (is_digit cb) then 0%Z
    else if negb (is_digit ca) then (-1)%Z
    else if negb (is_digit cb) then 1%Z
    else if ca <? cb then (-1)%Z else if cb <? ca then 1%Z else nat_left f (tl a) (tl b)
  end.
Fixpoint natcmp (fuel : nat) (a b ra rb : list N) (fold : bool) : Z :=
  match fuel with
  | O => 0%Z
  | S f =>
    let ra := drop_while is_cspace ra in
    let rb := drop_while is_cspace rb in
    let ca := nthN 0 ra in let cb := nthN 0 rb in
    let n := S (length ra + length rb) in
    let r := if is_digit ca && is_digit cb
             then (if (ca =? 48) || (cb =? 48) then nat_left n ra rb else nat_right n ra rb 0%Z) else 0%Z in
    if negb (r =? 0)%Z then r
    else if (ca =? 0) && (cb =? 0) then cmp_bytes a b
    else let xa := schar (if fold then to_upper ca else ca) in
         let xb := schar (if fold then to_upper cb else cb) in
         if (xa <? xb)%Z then (-1)%Z else if (xb <? xa)%Z then 1%Z else natcmp f a b (tl ra) (tl rb) fold
  end.
Definition l0_natcmp (a b : list N) (fold : bool) : Z := natcmp (S (length a + length b)) a b a b fold.

(* Replace / WithReplacements(const Hashtable<String,String> &, max): simultaneous search-and-replace.  [pairs] are the
   table's entries in iteration order (keys distinct); scanning left to right, at each offset the first key that occurs
   there is replaced by its value and skipped; max = MUSCLE_NO_LIMIT is never counted down. *)
Definition key_at (pairs : list (list N * list N)) (l : list N) : option (list N * list N) :=
  find (fun p => negb (is_nil (fst p)) && prefixb (fst p) l) pairs.
Definition dec_max (max : N) : N := if max =? NOLIMIT then max else max - 1.
Fixpoint multi_fuel (fuel : nat) (pairs : list (list N * list N)) (l : list N) (max : N) : list N * N :=
  match fuel with
  | O => (l, 0)
  | S f =>
    match l with
    | [] => ([], 0)
    | c :: t =>
      match (if 0 <? max then key_at pairs l else None) with
      | Some (k, v) => let '(r, n) := multi_fuel f pairs (dropN (lenN k) l) (dec_max max) in (v ++ r, n + 1)
      | None => let '(r, n) := multi_fuel f pairs t max in (c :: r, n)
      end
    end
  end.
Definition l0_replace_multi (l : list N) (pairs : list (list N * list N)) (max : N) : list N * N :=
  multi_fuel (S (length l)) pairs l max.

(* the matcher of the tree as pinned: per key a pointer that is reset to the start of the key on a mismatch (no
   fall-back to a shorter border), so occurrences that begin inside a failed partial match are missed.
   [st] is the part of the key still to be matched; returns the offsets at which the key was found. *)
Fixpoint naive_matches (key st l : list N) (i : N) : list N :=
  match l with
  | [] => []
  | c :: t =>
    let st1 := if nthN 0 st =? c then st else key in
    if nthN 0 st1 =? c
    then (match tl st1 with
          | [] => (i + 1 - lenN key) :: naive_matches key [] t (i + 1)
          | st2 => naive_matches key st2 t (i + 1)
          end)
    else naive_matches key st1 t (i + 1)
  end.

(* Arg(double, minDigitsAfterDecimal, maxDigitsAfterDecimal) after the sprintf: [buf] is the text printf produced (an
   external function); trailing zeros are dropped, then either a trailing point is dropped or zeros are added *)
Definition l0_float_text (buf : list N) (minDigits : N) : list N :=
  let s1 := if existsb (N.eqb 46) buf then strip_suffix_fuel (S (length buf)) buf [48] NOLIMIT else buf in
  if minDigits =? 0 then (if ends_with s1 [46] then l0_trunc_chars s1 1 else s1)
  else match l0_last_index_of_ch s1 46 0 with
       | Zneg _ => (s1 ++ [46]) ++ repN 48 minDigits
       | z => s1 ++ repN 48 (minDigits - (lenN s1 - Z.to_N z - 1))
       end.

(* Reading through a DataUnflattener that is a WINDOW of [win] bytes onto a larger array [arena], after [r] bytes have
   been consumed: only the bytes of the window that remain can matter.  [PBytes n] = ReadBytes/ReadInt32 (n bytes, all or
   nothing), [PStr] = ReadCString / String::Unflatten of an earlier String. *)
Inductive pre := PBytes (n : N) | PStr.
Definition win_remaining (arena : list N) (win r : N) : list N := dropN r (takeN win arena).
(* ReadCString: None = nothing available or no NUL among the remaining bytes (the read position stays) *)
Definition read_cstr_w (arena : list N) (win r : N) : option (list N) * N :=
  let rem := win_remaining arena win r in
  if list_eqb (cstr rem) rem then (None, r) else (Some (cstr rem), r + lenN (cstr rem) + 1).
Definition pre_step (arena : list N) (win r : N) (p : pre) : N :=
  match p with
  | PBytes n => if n <=? lenN (win_remaining arena win r) then r + n else r
  | PStr => snd (read_cstr_w arena win r)
  end.
Definition run_pre (arena : list N) (win : N) (ps : list pre) : N := fold_left (pre_step arena win) ps 0.
(* status and bytes consumed in one number: consumed if the parse succeeded, -(consumed)-1 if it was rejected *)
Definition w_result (ok : bool) (consumed : N) : Z := if ok then Z.of_N consumed else (- Z.of_N consumed - 1)%Z.

Definition l0_padded (l : list N) (minLen : N) (right : bool) (ch : N) : list N :=
  if (lenN l <? minLen) && negb (ch =? 0)
  then (if right then l ++ repN ch (minLen - lenN l) else repN ch (minLen - lenN l) ++ l)
  else l.
