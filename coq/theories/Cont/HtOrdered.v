(* C09 -- the ordered classes: InsertIterationEntryInOrder's backward scan and the two creeping loops
   of MoveIterationEntryToCorrectPosition, characterised on the represented list. *)
From Coq Require Import List Arith ZArith NArith PArith Bool Lia FMapPositive Permutation.
From Muscle Require Import Cont.HtModel Cont.HtStep Cont.HtIdeal Cont.HtLemmas Cont.HtRepr Cont.HtWalk Cont.HtIters
                           Cont.HtTable Cont.HtMoves Cont.HtPut Cont.HtExact Cont.HtAbs.
Import ListNotations.

Fixpoint drop_while {A} (f : A -> bool) (l : list A) : list A :=
  match l with [] => [] | x :: r => if f x then drop_while f r else l end.

Lemma take_drop_while : forall A (f : A -> bool) l, take_while f l ++ drop_while f l = l.
Proof. induction l as [|x l IH]; [reflexivity|]. cbn. destruct (f x); [cbn; f_equal; exact IH|reflexivity]. Qed.

Lemma take_while_map : forall A B (g : A -> B) (f : B -> bool) l, take_while f (map g l) = map g (take_while (fun x => f (g x)) l).
Proof. induction l as [|x l IH]; [reflexivity|]. cbn. destruct (f (g x)); [cbn; f_equal; exact IH|reflexivity]. Qed.

Lemma take_while_ext_in : forall A (f g : A -> bool) l, (forall x, In x l -> f x = g x) -> take_while f l = take_while g l.
Proof.
  induction l as [|x l IH]; intros H; [reflexivity|]. cbn. rewrite (H x) by (left; reflexivity).
  destruct (g x); [f_equal; apply IH; intros; apply H; right; assumption|reflexivity].
Qed.

Lemma drop_while_ext_in : forall A (f g : A -> bool) l, (forall x, In x l -> f x = g x) -> drop_while f l = drop_while g l.
Proof.
  induction l as [|x l IH]; intros H; [reflexivity|]. cbn. rewrite (H x) by (left; reflexivity).
  destruct (g x); [apply IH; intros; apply H; right; assumption|reflexivity].
Qed.

Lemma take_while_all : forall A (f : A -> bool) l x, In x (take_while f l) -> f x = true.
Proof.
  induction l as [|y l IH]; intros x H; [destruct H|]. cbn in H. destruct (f y) eqn:E; [|destruct H].
  destruct H as [<-|H]; [exact E|apply IH; exact H].
Qed.

Lemma drop_while_head : forall A (f : A -> bool) l x, head_opt (drop_while f l) = Some x -> f x = false.
Proof.
  induction l as [|y l IH]; intros x H; [discriminate|]. cbn in H. destruct (f y) eqn:E; [apply IH; exact H|].
  cbn in H. inversion H; subst. exact E.
Qed.

(* the maximal suffix of l whose elements satisfy f, and what is in front of it *)
Definition suf_of {A} (f : A -> bool) (l : list A) : list A := rev (take_while f (rev l)).
Definition pre_of {A} (f : A -> bool) (l : list A) : list A := rev (drop_while f (rev l)).

Lemma pre_suf : forall A (f : A -> bool) l, pre_of f l ++ suf_of f l = l.
Proof.
  intros. unfold pre_of, suf_of. rewrite <- rev_app_distr, take_drop_while. apply rev_involutive.
Qed.

Lemma firstn_pre : forall A (f : A -> bool) l, firstn (length l - length (suf_of f l)) l = pre_of f l.
Proof.
  intros A f l. rewrite <- (pre_suf A f l) at 1 3. rewrite app_length.
  replace (length (pre_of f l) + length (suf_of f l) - length (suf_of f l)) with (length (pre_of f l)) by lia.
  rewrite firstn_app, firstn_all, Nat.sub_diag. cbn [firstn]. apply app_nil_r.
Qed.

Lemma suf_of_map : forall A B (g : A -> B) (f : B -> bool) l, suf_of f (map g l) = map g (suf_of (fun x => f (g x)) l).
Proof. intros. unfold suf_of. rewrite <- map_rev, take_while_map, map_rev. reflexivity. Qed.

Lemma pre_of_last : forall A (f : A -> bool) (l : list A), head_opt (rev (pre_of f l)) = head_opt (drop_while f (rev l)).
Proof. intros. unfold pre_of. rewrite rev_involutive. reflexivity. Qed.

Section Scan.
Variable var : variant.

(* the test of the scans, on an entry *)
Definition lt_ent (h : ht) (kv : Z * Z) (y : positive) : bool := is_lt (cmp_ent var h kv y).
Definition gt_ent (h : ht) (kv : Z * Z) (y : positive) : bool := is_gt (cmp_ent var h kv y).

Lemma scan_back_spec : forall h l kv, linked h l -> forall fuel pre suf, l = pre ++ suf -> length pre <= fuel ->
  scan_back var h kv (last_of pre) fuel = head_opt (drop_while (lt_ent h kv) (rev pre)).
Proof.
  intros h l kv L. induction fuel as [|f IH]; intros pre suf E Hf.
  - destruct pre; [reflexivity|cbn in Hf; lia].
  - destruct (last_of pre) as [x|] eqn:EL.
    + destruct (last_of_split _ _ _ EL) as (pre' & ->). rewrite rev_app_distr. cbn [rev app drop_while scan_back].
      unfold lt_ent at 1. destruct (cmp_ent var h kv x) eqn:Ec; cbn [is_lt]; try reflexivity.
      rewrite <- app_assoc in E. cbn [app] in E. rewrite (prev_of_prefix h l pre' x suf L E).
      apply (IH pre' (x :: suf) E). rewrite app_length in Hf. cbn in Hf. lia.
    + apply last_of_none in EL. subst pre. reflexivity.
Qed.

Lemma creep_back_spec : forall h l kv, linked h l -> forall fuel pre b suf, l = pre ++ b :: suf -> length pre <= fuel ->
  Some (creep_back var h kv b fuel) = last_of (b :: take_while (lt_ent h kv) (rev pre)).
Proof.
  intros h l kv L. induction fuel as [|f IH]; intros pre b suf E Hf.
  - destruct pre; [reflexivity|cbn in Hf; lia].
  - cbn [creep_back]. rewrite (prev_of_prefix h l pre b suf L E).
    destruct (last_of pre) as [p|] eqn:EL.
    + destruct (last_of_split _ _ _ EL) as (pre' & ->). rewrite rev_app_distr. cbn [rev app take_while].
      unfold lt_ent at 1. destruct (cmp_ent var h kv p) eqn:Ec; cbn [is_lt]; try reflexivity.
      rewrite last_of_cons_cons. rewrite <- app_assoc in E. cbn [app] in E.
      apply (IH pre' p (b :: suf) E). rewrite app_length in Hf. cbn in Hf. lia.
    + apply last_of_none in EL. subst pre. reflexivity.
Qed.

Lemma creep_fwd_spec : forall h l kv, linked h l -> forall fuel pre b suf, l = pre ++ b :: suf -> length suf <= fuel ->
  Some (creep_fwd var h kv b fuel) = last_of (b :: take_while (gt_ent h kv) suf).
Proof.
  intros h l kv L. induction fuel as [|f IH]; intros pre b suf E Hf.
  - destruct suf; [reflexivity|cbn in Hf; lia].
  - cbn [creep_fwd]. rewrite (next_of_suffix h l pre b suf L E).
    destruct suf as [|n suf']; [reflexivity|]. cbn [head_opt take_while].
    unfold gt_ent at 1. destruct (cmp_ent var h kv n) eqn:Ec; cbn [is_gt]; try reflexivity.
    rewrite last_of_cons_cons.
    apply (IH (pre ++ [b]) n suf'); [rewrite <- app_assoc; exact E|cbn in Hf; lia].
Qed.

End Scan.

(* ------------------------------------------------------------------ where a new entry goes *)

Section Ins.
Variable var : variant.

Definition ins_split (srt : bool) (h : ht) (kv : Z * Z) (l : list positive) : list positive * list positive :=
  match var with
  | VPlain => (l, [])
  | _ => if srt then
           match l with
           | [] => ([], [])
           | x :: _ => if lt_ent var h kv x then ([], l)
                       else (pre_of (lt_ent var h kv) l, suf_of (lt_ent var h kv) l)
           end
         else (l, [])
  end.

Lemma ins_split_app : forall srt h kv l, fst (ins_split srt h kv l) ++ snd (ins_split srt h kv l) = l.
Proof.
  intros. unfold ins_split. destruct var; cbn [fst snd]; try apply app_nil_r;
  (destruct srt; cbn [fst snd]; [|apply app_nil_r]; destruct l as [|x l']; [reflexivity|];
   destruct (lt_ent _ h kv x); cbn [fst snd]; [reflexivity|apply pre_suf]).
Qed.

Lemma last_of_rev_head : forall (l : list positive), last_of l = head_opt (rev l).
Proof. reflexivity. Qed.

Lemma insert_entry_aux_split : forall h l e kv, linked h l -> cnt h = length l -> kv_of h e = Some kv ->
  insert_entry_aux var h e = insert_iter_entry h e (last_of (fst (ins_split (asort h) h kv l))).
Proof.
  intros h l e kv L C K. unfold insert_entry_aux, ins_split.
  assert (Tl : tl h = last_of l) by apply (lk_tl _ _ L).
  assert (Ord : forall v, v <> VPlain ->
     (if asort h then
        match kv_of h e, hd h with
        | Some kv0, Some hx =>
            if (0 <? cnt h) && negb (match cmp_ent v h kv0 hx with Lt => true | _ => false end)
            then insert_iter_entry h e (scan_back v h kv0 (tl h) (cnt h))
            else insert_iter_entry h e None
        | _, _ => insert_iter_entry h e None
        end
      else insert_iter_entry h e (tl h))
     = insert_iter_entry h e (last_of (fst (if asort h then
           match l with
           | [] => ([], [])
           | x :: _ => if lt_ent v h kv x then ([], l) else (pre_of (lt_ent v h kv) l, suf_of (lt_ent v h kv) l)
           end else (l, []))))).
  { intros v Hv. destruct (asort h); cbn [fst]; [|rewrite Tl; reflexivity].
    rewrite K, (lk_hd _ _ L). destruct l as [|x l']; [reflexivity|]. cbn [head_opt].
    assert (Hc : (0 <? cnt h) = true) by (rewrite C; reflexivity). rewrite Hc. cbn [andb].
    unfold lt_ent at 1. destruct (cmp_ent v h kv x) eqn:Ec; cbn [is_lt negb fst]; try reflexivity.
    - rewrite Tl, C. rewrite (scan_back_spec v h (x :: l') kv L (length (x :: l')) (x :: l') [] (eq_sym (app_nil_r _)) (le_n _)).
      unfold pre_of. rewrite last_of_rev_head, rev_involutive. reflexivity.
    - rewrite Tl, C. rewrite (scan_back_spec v h (x :: l') kv L (length (x :: l')) (x :: l') [] (eq_sym (app_nil_r _)) (le_n _)).
      unfold pre_of. rewrite last_of_rev_head, rev_involutive. reflexivity. }
  destruct var; cbn [fst]; [rewrite Tl; reflexivity|apply Ord; discriminate|apply Ord; discriminate].
Qed.

Lemma insert_ordered_split : forall v h kv l,
  (forall y, In y l -> lt_ent v h kv y = is_lt (cmp_var v kv (kvf h y))) ->
  map (kvf h) (fst (match l with
           | [] => ([], [])
           | x :: _ => if lt_ent v h kv x then ([], l) else (pre_of (lt_ent v h kv) l, suf_of (lt_ent v h kv) l)
           end)) ++ kv :: map (kvf h) (snd (match l with
           | [] => ([], [])
           | x :: _ => if lt_ent v h kv x then ([], l) else (pre_of (lt_ent v h kv) l, suf_of (lt_ent v h kv) l)
           end))
  = l0_insert_ordered v (map (kvf h) l) kv.
Proof.
  intros v h kv l Hl. unfold l0_insert_ordered. destruct l as [|x l']; [reflexivity|]. cbn [map].
  rewrite (Hl x (or_introl eq_refl)). unfold cmpv.
  destruct (is_lt (cmp_var v kv (kvf h x))); cbn [fst snd map app]; [reflexivity|].
  change (kvf h x :: map (kvf h) l') with (map (kvf h) (x :: l')).
  fold (suf_of (fun y => is_lt (cmp_var v kv y)) (map (kvf h) (x :: l'))).
  rewrite firstn_pre.
  assert (Es : suf_of (fun y => is_lt (cmp_var v kv y)) (map (kvf h) (x :: l')) = map (kvf h) (suf_of (lt_ent v h kv) (x :: l'))).
  { rewrite suf_of_map. unfold suf_of. f_equal. f_equal. apply take_while_ext_in. intros y Hy. symmetry. apply Hl. apply in_rev. exact Hy. }
  assert (Ep : pre_of (fun y => is_lt (cmp_var v kv y)) (map (kvf h) (x :: l')) = map (kvf h) (pre_of (lt_ent v h kv) (x :: l'))).
  { apply (app_inv_tail (suf_of (fun y => is_lt (cmp_var v kv y)) (map (kvf h) (x :: l')))).
    rewrite pre_suf. rewrite Es at 1. rewrite <- map_app, pre_suf. reflexivity. }
  rewrite Es, Ep. reflexivity.
Qed.

Lemma l0_insert_new_split : forall srt h kv l,
  (forall y, In y l -> lt_ent var h kv y = is_lt (cmp_var var kv (kvf h y))) ->
  map (kvf h) (fst (ins_split srt h kv l)) ++ kv :: map (kvf h) (snd (ins_split srt h kv l))
  = l0_insert_new var (map (kvf h) l) srt kv.
Proof.
  intros srt h kv l Hl. unfold ins_split, l0_insert_new.
  pose proof (insert_ordered_split var h kv l Hl) as O.
  destruct var; cbn [fst snd map]; [reflexivity| |];
  (destruct srt; cbn [fst snd map]; [exact O|reflexivity]).
Qed.

End Ins.
