(* C17 -- list lemmas for the N-indexed helpers of StrL0.v. *)
From Coq Require Import List NArith ZArith Bool Lia.
From Muscle Require Import Cont.StrL0.
Import ListNotations.
Local Open Scope N_scope.

(* split syntactic conjunctions only (plain [split] would unfold definitions such as the invariant) *)
Ltac splits := repeat match goal with |- _ /\ _ => split end.

Lemma lenN_nil {A} : lenN (@nil A) = 0. Proof. reflexivity. Qed.
Lemma lenN_cons {A} (x : A) l : lenN (x :: l) = lenN l + 1.
Proof. unfold lenN. cbn [length]. lia. Qed.
Lemma lenN_app {A} (a b : list A) : lenN (a ++ b) = lenN a + lenN b.
Proof. unfold lenN. rewrite app_length. lia. Qed.
Lemma lenN_repN {A} (x : A) n : lenN (repN x n) = n.
Proof. unfold lenN, repN. rewrite repeat_length. lia. Qed.
Lemma lenN_rev {A} (l : list A) : lenN (rev l) = lenN l.
Proof. unfold lenN. now rewrite rev_length. Qed.
Lemma lenN_map {A B} (f : A -> B) l : lenN (map f l) = lenN l.
Proof. unfold lenN. now rewrite map_length. Qed.
Lemma lenN_0 {A} (l : list A) : lenN l = 0 -> l = [].
Proof. destruct l; [reflexivity|]. rewrite lenN_cons. lia. Qed.

Lemma takeN_firstn {A} n (l : list A) : takeN n l = firstn (N.to_nat n) l.
Proof.
  unfold takeN, lenN. destruct (N.le_ge_cases n (N.of_nat (length l))) as [H|H].
  - now rewrite N.min_l.
  - rewrite N.min_r by assumption. rewrite !firstn_all2; trivial; lia.
Qed.
Lemma dropN_skipn {A} n (l : list A) : dropN n l = skipn (N.to_nat n) l.
Proof.
  unfold dropN, lenN. destruct (N.le_ge_cases n (N.of_nat (length l))) as [H|H].
  - now rewrite N.min_l.
  - rewrite N.min_r by assumption. rewrite !skipn_all2; trivial; lia.
Qed.

Lemma lenN_takeN {A} n (l : list A) : lenN (takeN n l) = N.min n (lenN l).
Proof. rewrite takeN_firstn. unfold lenN. rewrite firstn_length. lia. Qed.
Lemma lenN_dropN {A} n (l : list A) : lenN (dropN n l) = lenN l - n.
Proof. rewrite dropN_skipn. unfold lenN. rewrite skipn_length. lia. Qed.
Lemma takeN_dropN {A} n (l : list A) : takeN n l ++ dropN n l = l.
Proof. rewrite takeN_firstn, dropN_skipn. apply firstn_skipn. Qed.
Lemma takeN_0 {A} (l : list A) : takeN 0 l = [].
Proof. rewrite takeN_firstn. reflexivity. Qed.
Lemma dropN_0 {A} (l : list A) : dropN 0 l = l.
Proof. rewrite dropN_skipn. reflexivity. Qed.
Lemma takeN_nil {A} n : takeN n (@nil A) = [].
Proof. rewrite takeN_firstn. apply firstn_nil. Qed.
Lemma dropN_nil {A} n : dropN n (@nil A) = [].
Proof. rewrite dropN_skipn. apply skipn_nil. Qed.
Lemma takeN_all {A} n (l : list A) : lenN l <= n -> takeN n l = l.
Proof. intros H. rewrite takeN_firstn. apply firstn_all2. unfold lenN in H. lia. Qed.
Lemma dropN_all {A} n (l : list A) : lenN l <= n -> dropN n l = [].
Proof. intros H. rewrite dropN_skipn. apply skipn_all2. unfold lenN in H. lia. Qed.
Lemma takeN_app_le {A} n (a b : list A) : n <= lenN a -> takeN n (a ++ b) = takeN n a.
Proof.
  intros H. rewrite !takeN_firstn, firstn_app. unfold lenN in H.
  replace (N.to_nat n - length a)%nat with 0%nat by lia. cbn [firstn]. apply app_nil_r.
Qed.
Lemma takeN_app_ge {A} n (a b : list A) : lenN a <= n -> takeN n (a ++ b) = a ++ takeN (n - lenN a) b.
Proof.
  intros H. rewrite !takeN_firstn, firstn_app. unfold lenN in *.
  rewrite firstn_all2 by lia. f_equal. f_equal. lia.
Qed.
Lemma takeN_app_exact {A} (a b : list A) : takeN (lenN a) (a ++ b) = a.
Proof. rewrite takeN_app_le by lia. apply takeN_all. lia. Qed.
Lemma dropN_app_le {A} n (a b : list A) : n <= lenN a -> dropN n (a ++ b) = dropN n a ++ b.
Proof.
  intros H. rewrite !dropN_skipn, skipn_app. unfold lenN in H.
  replace (N.to_nat n - length a)%nat with 0%nat by lia. reflexivity.
Qed.
Lemma dropN_app_ge {A} n (a b : list A) : lenN a <= n -> dropN n (a ++ b) = dropN (n - lenN a) b.
Proof.
  intros H. rewrite !dropN_skipn, skipn_app. unfold lenN in *.
  rewrite skipn_all2 by lia. cbn [app]. f_equal. lia.
Qed.
Lemma dropN_app_exact {A} (a b : list A) : dropN (lenN a) (a ++ b) = b.
Proof. rewrite dropN_app_ge by lia. rewrite N.sub_diag. apply dropN_0. Qed.
Lemma takeN_takeN {A} a b (l : list A) : takeN a (takeN b l) = takeN (N.min a b) l.
Proof. rewrite !takeN_firstn, firstn_firstn. f_equal. lia. Qed.
Lemma skipn_skipn' {A} (x y : nat) (l : list A) : skipn x (skipn y l) = skipn (x + y) l.
Proof.
  revert l. induction y as [|y IH]; intros l.
  - now rewrite Nat.add_0_r.
  - rewrite Nat.add_succ_r. destruct l as [|a l]; [now rewrite !skipn_nil|]. cbn [skipn]. apply IH.
Qed.
Lemma takeN_takeN_le {A} a b (l : list A) : a <= b -> takeN a (takeN b l) = takeN a l.
Proof. intros H. rewrite takeN_takeN. f_equal. lia. Qed.
Lemma dropN_dropN {A} a b (l : list A) : dropN a (dropN b l) = dropN (a + b) l.
Proof. rewrite !dropN_skipn, skipn_skipn'. f_equal. lia. Qed.
Lemma takeN_dropN_comm {A} a b (l : list A) : takeN a (dropN b l) = dropN b (takeN (a + b) l).
Proof.
  rewrite !takeN_firstn, !dropN_skipn. rewrite skipn_firstn_comm. f_equal. lia.
Qed.
Lemma takeN_map {A B} (f : A -> B) n l : takeN n (map f l) = map f (takeN n l).
Proof. rewrite !takeN_firstn. apply firstn_map. Qed.
Lemma dropN_map {A B} (f : A -> B) n l : dropN n (map f l) = map f (dropN n l).
Proof. rewrite !dropN_skipn. apply skipn_map. Qed.
Lemma takeN_S {A} n (x : A) l : takeN (n + 1) (x :: l) = x :: takeN n l.
Proof. rewrite !takeN_firstn. replace (N.to_nat (n + 1)) with (S (N.to_nat n)) by lia. reflexivity. Qed.
Lemma dropN_S {A} n (x : A) l : dropN (n + 1) (x :: l) = dropN n l.
Proof. rewrite !dropN_skipn. replace (N.to_nat (n + 1)) with (S (N.to_nat n)) by lia. reflexivity. Qed.

(* ---- nthN *)
Lemma nthN_nth i l : nthN i l = nth (N.to_nat i) l 0.
Proof.
  unfold nthN. destruct (i <? lenN l) eqn:E; [reflexivity|].
  apply N.ltb_ge in E. unfold lenN in E. symmetry. apply nth_overflow. lia.
Qed.
Lemma nthN_app_l i a b : i < lenN a -> nthN i (a ++ b) = nthN i a.
Proof. intros H. rewrite !nthN_nth. apply app_nth1. unfold lenN in H. lia. Qed.
Lemma nthN_app_r i a b : lenN a <= i -> nthN i (a ++ b) = nthN (i - lenN a) b.
Proof. intros H. rewrite !nthN_nth. unfold lenN in *. rewrite app_nth2 by lia. f_equal. lia. Qed.
Lemma nthN_cons_0 x l : nthN 0 (x :: l) = x.
Proof. reflexivity. Qed.
Lemma nthN_takeN i n l : i < n -> nthN i (takeN n l) = nthN i l.
Proof.
  intros H. rewrite !nthN_nth, takeN_firstn.
  rewrite <- (firstn_skipn (N.to_nat n) l) at 2.
  destruct (Nat.lt_ge_cases (N.to_nat i) (length (firstn (N.to_nat n) l))) as [L|L].
  - now rewrite app_nth1.
  - rewrite nth_overflow by lia. rewrite firstn_length in L.
    rewrite app_nth2 by (rewrite firstn_length; lia).
    rewrite nth_overflow; [reflexivity|]. rewrite skipn_length, firstn_length. lia.
Qed.
Lemma nthN_dropN i n l : nthN i (dropN n l) = nthN (i + n) l.
Proof.
  rewrite !nthN_nth, dropN_skipn.
  rewrite <- (firstn_skipn (N.to_nat n) l) at 2.
  destruct (Nat.le_gt_cases (N.to_nat n) (length l)) as [L|L].
  - rewrite app_nth2 by (rewrite firstn_length; lia). f_equal. rewrite firstn_length. lia.
  - rewrite skipn_all2 by lia. rewrite app_nil_r. rewrite firstn_all2 by lia.
    rewrite nth_overflow by (cbn; lia). rewrite nth_overflow by lia. reflexivity.
Qed.
Lemma nthN_overflow i l : lenN l <= i -> nthN i l = 0.
Proof. intros H. unfold nthN. apply N.ltb_ge in H. now rewrite H. Qed.
Lemma nth_repeat_lt' (x d : N) (m k : nat) : (k < m)%nat -> nth k (repeat x m) d = x.
Proof.
  revert k. induction m as [|m IH]; intros k H; [lia|]. destruct k; cbn; [reflexivity|]. apply IH. lia.
Qed.
Lemma nthN_repN x i n : i < n -> nthN i (repN x n) = x.
Proof. intros H. rewrite nthN_nth. unfold repN. apply nth_repeat_lt'. lia. Qed.

(* ---- blit / upd *)
Lemma lenN_blit l i src : i + lenN src <= lenN l -> lenN (blit l i src) = lenN l.
Proof. intros H. unfold blit. rewrite !lenN_app, lenN_takeN, lenN_dropN. lia. Qed.
Lemma lenN_upd l i v : i < lenN l -> lenN (upd l i v) = lenN l.
Proof. intros H. apply lenN_blit. rewrite lenN_cons, lenN_nil. lia. Qed.
Lemma takeN_blit_before n l i src : n <= i -> i <= lenN l -> takeN n (blit l i src) = takeN n l.
Proof.
  intros H1 H2. unfold blit. rewrite takeN_app_le by (rewrite lenN_takeN; lia).
  rewrite takeN_takeN. f_equal. lia.
Qed.
Lemma takeN_blit_cover l i src : i <= lenN l -> takeN (i + lenN src) (blit l i src) = takeN i l ++ src.
Proof.
  intros H. unfold blit. rewrite takeN_app_ge by (rewrite lenN_takeN; lia).
  rewrite lenN_takeN. replace (i + lenN src - N.min i (lenN l)) with (lenN src) by lia.
  now rewrite takeN_app_exact.
Qed.
Lemma takeN_blit_0 l src n : n <= lenN src -> takeN n (blit l 0 src) = takeN n src.
Proof. intros H. unfold blit. rewrite takeN_0. cbn [app]. now apply takeN_app_le. Qed.
Lemma dropN_blit_after l i src n : i + lenN src <= n -> i <= lenN l -> dropN n (blit l i src) = dropN n l.
Proof.
  intros H1 H2. unfold blit.
  rewrite dropN_app_ge by (rewrite lenN_takeN; lia). rewrite lenN_takeN.
  rewrite dropN_app_ge by lia. rewrite dropN_dropN. f_equal. lia.
Qed.
Lemma nthN_blit_before l i src k : k < i -> i <= lenN l -> nthN k (blit l i src) = nthN k l.
Proof.
  intros H1 H2. unfold blit. rewrite nthN_app_l by (rewrite lenN_takeN; lia). now apply nthN_takeN.
Qed.
Lemma nthN_blit_in l i src k : i <= lenN l -> i <= k -> k < i + lenN src -> nthN k (blit l i src) = nthN (k - i) src.
Proof.
  intros H1 H2 H3. unfold blit. rewrite nthN_app_r by (rewrite lenN_takeN; lia). rewrite lenN_takeN.
  rewrite nthN_app_l by lia. f_equal. lia.
Qed.
Lemma nthN_blit_after l i src k : i <= lenN l -> i + lenN src <= k -> nthN k (blit l i src) = nthN k l.
Proof.
  intros H1 H2. unfold blit. rewrite nthN_app_r by (rewrite lenN_takeN; lia). rewrite lenN_takeN.
  rewrite nthN_app_r by lia. rewrite nthN_dropN. f_equal. lia.
Qed.
Lemma nthN_upd_same l i v : i < lenN l -> nthN i (upd l i v) = v.
Proof.
  intros H. unfold upd. rewrite nthN_blit_in; rewrite ?lenN_cons, ?lenN_nil; try lia.
  now rewrite N.sub_diag.
Qed.
Lemma nthN_upd_other l i v k : i < lenN l -> k <> i -> nthN k (upd l i v) = nthN k l.
Proof.
  intros H D. unfold upd. destruct (N.lt_ge_cases k i).
  - apply nthN_blit_before; lia.
  - apply nthN_blit_after; rewrite ?lenN_cons, ?lenN_nil; lia.
Qed.
Lemma takeN_upd_before l i v n : n <= i -> i <= lenN l -> takeN n (upd l i v) = takeN n l.
Proof. intros. now apply takeN_blit_before. Qed.
Lemma blit_nil l i : blit l i [] = l.
Proof. unfold blit. cbn [app lenN length]. rewrite N.add_0_r. apply takeN_dropN. Qed.

Lemma dropN_cons_nth l i : i < lenN l -> dropN i l = nthN i l :: dropN (i + 1) l.
Proof.
  intros H. destruct (dropN i l) as [|x r] eqn:E.
  - apply (f_equal lenN) in E. rewrite lenN_dropN, lenN_nil in E. lia.
  - assert (X : nthN 0 (dropN i l) = x) by now rewrite E.
    rewrite nthN_dropN in X. cbn [N.add] in X. subst x. f_equal.
    replace (i + 1) with (1 + i) by lia. rewrite <- dropN_dropN, E.
    replace 1 with (0 + 1) by lia. rewrite dropN_S. now rewrite dropN_0.
Qed.
Lemma upd_id l i : i < lenN l -> upd l i (nthN i l) = l.
Proof.
  intros H. unfold upd, blit. rewrite lenN_cons, lenN_nil. cbn [app]. rewrite N.add_0_l.
  rewrite <- (dropN_cons_nth l i H). apply takeN_dropN.
Qed.
Lemma upd_same l i v : i < lenN l -> nthN i l = v -> upd l i v = l.
Proof. intros H <-. now apply upd_id. Qed.

Lemma blit_blit_adjacent l i a1 a2 :
  i + lenN a1 <= lenN l -> blit (blit l i a1) (i + lenN a1) a2 = blit l i (a1 ++ a2).
Proof.
  intros H.
  transitivity (takeN (i + lenN a1) (blit l i a1) ++ a2 ++ dropN (i + lenN a1 + lenN a2) (blit l i a1)); [reflexivity|].
  rewrite (takeN_blit_cover l i a1) by lia.
  rewrite (dropN_blit_after l i a1) by lia.
  unfold blit. rewrite lenN_app, <- !app_assoc. do 3 f_equal. f_equal. lia.
Qed.
Lemma upd_upd_adjacent l i x y : i + 1 <= lenN l -> upd (upd l i x) (i + 1) y = blit l i [x; y].
Proof.
  intros H. unfold upd. replace (i + 1) with (i + lenN [x]) by (rewrite lenN_cons, lenN_nil; lia).
  rewrite blit_blit_adjacent; [reflexivity|]. rewrite lenN_cons, lenN_nil. lia.
Qed.

Lemma takeN_add {A} a k (l : list A) : takeN (a + k) l = takeN a l ++ takeN k (dropN a l).
Proof.
  rewrite <- (takeN_dropN a l) at 1.
  destruct (N.le_gt_cases (lenN l) a) as [H|H].
  - rewrite (dropN_all a l H), app_nil_r, takeN_nil, app_nil_r. rewrite takeN_takeN. f_equal. lia.
  - rewrite takeN_app_ge by (rewrite lenN_takeN; lia). rewrite lenN_takeN. do 2 f_equal. lia.
Qed.

(* ---- cstr and NUL-freeness *)
Definition nulfree (l : list N) : Prop := Forall (fun x => x <> 0) l.

Lemma cstr_nulfree_app l r : nulfree l -> cstr (l ++ 0 :: r) = l.
Proof.
  induction 1 as [|x t Hx Ht IH]; cbn [app cstr].
  - reflexivity.
  - destruct (x =? 0) eqn:E; [apply N.eqb_eq in E; contradiction|]. now rewrite IH.
Qed.
Lemma cstr_nulfree l : nulfree l -> cstr l = l.
Proof.
  induction 1 as [|x t Hx Ht IH]; cbn [cstr]; [reflexivity|].
  destruct (x =? 0) eqn:E; [apply N.eqb_eq in E; contradiction|]. now rewrite IH.
Qed.
Lemma cstr_is_nulfree l : nulfree (cstr l).
Proof.
  induction l as [|x t IH]; cbn [cstr]; [constructor|].
  destruct (x =? 0) eqn:E; [constructor|]. constructor; [|assumption]. now apply N.eqb_neq.
Qed.
Lemma nulfree_app a b : nulfree (a ++ b) <-> nulfree a /\ nulfree b.
Proof. apply Forall_app. Qed.
Lemma nulfree_takeN n l : nulfree l -> nulfree (takeN n l).
Proof.
  intros H. rewrite <- (takeN_dropN n l) in H. now apply nulfree_app in H.
Qed.
Lemma nulfree_dropN n l : nulfree l -> nulfree (dropN n l).
Proof.
  intros H. rewrite <- (takeN_dropN n l) in H. now apply nulfree_app in H.
Qed.
Lemma nulfree_rev l : nulfree l -> nulfree (rev l).
Proof. apply Forall_rev. Qed.
Lemma nulfree_repN x n : x <> 0 -> nulfree (repN x n).
Proof. intros H. unfold repN. induction (N.to_nat n); cbn; constructor; assumption. Qed.

(* the buffer [takeN n b ++ 0 :: _] seen as a C string *)
Lemma cstr_of_terminated b n : n < lenN b -> nthN n b = 0 -> nulfree (takeN n b) -> cstr b = takeN n b.
Proof.
  intros L Z F. rewrite <- (takeN_dropN n b) at 1.
  assert (D : exists r, dropN n b = 0 :: r).
  { destruct (dropN n b) as [|x r] eqn:E.
    - apply (f_equal lenN) in E. rewrite lenN_dropN, lenN_nil in E. lia.
    - exists r. f_equal. assert (nthN 0 (dropN n b) = x) by now rewrite E.
      rewrite nthN_dropN in H. cbn [N.add] in H. congruence. }
  destruct D as [r ->]. now apply cstr_nulfree_app.
Qed.
