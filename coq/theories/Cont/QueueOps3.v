(* C16 -- AddTailMulti, AddHeadMulti, InsertItemsAt, CopyFrom, RemoveAllInstancesOf, Normalize. *)
From Coq Require Import List Arith ZArith Bool Lia ZifyBool.
From Muscle Require Import Cont.QueueModel Cont.QueueLemmas Cont.QueueInv Cont.QueueOps1 Cont.QueueEnsure
  Cont.QueueOps2 Cont.QueueRotate Cont.QueueRotateCS.
Import ListNotations.
Local Open Scope nat_scope.

Lemma l0_resize_length (l : list Z) n : length (l0_resize l n) = n.
Proof. unfold l0_resize. autorewrite with nthdb. lia. Qed.

Lemma filter_split_length {A} (f : A -> bool) (l : list A) :
  length (filter f l) + length (filter (fun y => negb (f y)) l) = length l.
Proof.
  induction l as [|x l IH]; [reflexivity|]. cbn [filter]. destruct (f x); cbn [negb length]; lia.
Qed.

Section Ops3.
Variables (jk : Z) (sq : nat).
Implicit Types (ow : bool) (q : q1).

(* ------------------------------------------------------------------ write_from *)

Lemma write_from_cons q s x xs : write_from q s (x :: xs) = write_from (setu q s x) (s + 1) xs.
Proof. reflexivity. Qed.

Lemma write_from_spec ow xs : forall q s, inv ow sq q -> s + length xs <= cnt q ->
  let q' := write_from q s xs in
  inv ow sq q' /\ cnt q' = cnt q /\ st q' = st q /\ qsize q' = qsize q /\
  forall j, j < cnt q ->
    getu q' j = if (s <=? j) && (j <? s + length xs) then nth (j - s) xs 0%Z else getu q j.
Proof.
  induction xs as [|x xs IH]; intros q s I H.
  - unfold write_from. cbn [fold_left fst length]. split; [assumption|]. repeat split. intros j Hj.
    replace ((s <=? j) && (j <? s + 0)) with false by lia. reflexivity.
  - rewrite write_from_cons. cbn [length] in *.
    pose proof (inv_cnt _ _ q I). pose proof (inv_hd _ _ q I ltac:(lia)) as Hh.
    destruct (IH (setu q s x) (s + 1)) as (J1&J2&J3&J4&J5).
    + apply inv_setu; [assumption|lia].
    + rewrite cnt_setu. lia.
    + autorewrite with qdb in *. split; [assumption|]. repeat split; try assumption.
      intros j Hj. rewrite J5 by lia. rewrite getu_setu by lia. rewrite nth_cons'. dif; fin.
Qed.

Lemma write_from_abs ow xs q s : inv ow sq q -> s + length xs <= cnt q ->
  abs (write_from q s xs) = firstn s (abs q) ++ xs ++ skipn (s + length xs) (abs q).
Proof.
  intros I H. destruct (write_from_spec ow xs q s I H) as (J1&J2&J3&J4&J5).
  apply abs_ext; autorewrite with nthdb; [lia|].
  intros j Hj. autorewrite with nthdb in Hj. rewrite J5 by lia.
  autorewrite with nthdb absdb. dif; fin.
Qed.

(* ------------------------------------------------------------------ AddTailMulti / CopyFrom / AddHeadMulti *)

Lemma add_tail_multi_spec ow q xs : inv ow sq q ->
  inv ow sq (add_tail_multi ow jk sq q xs) /\ abs (add_tail_multi ow jk sq q xs) = abs q ++ xs.
Proof.
  intros I. unfold add_tail_multi. cbv zeta.
  destruct (ensure_size_spec jk sq ow q (cnt q + length xs) true 0 false I) as (I1 & A1 & S1).
  set (q1 := ensure_size ow jk sq q (cnt q + length xs) true 0 false) in *.
  assert (C1 : cnt q1 = cnt q + length xs) by (rewrite <- (abs_length q1), A1; apply l0_resize_length).
  destruct (write_from_spec ow xs q1 (cnt q) I1 ltac:(lia)) as (J1&_).
  split; [assumption|].
  rewrite (write_from_abs ow) by (assumption || lia). rewrite A1.
  rewrite l0_resize_grow by (rewrite abs_length; lia).
  apply (list_ext _ _ 0%Z); autorewrite with nthdb; [lia|].
  intros j Hj. autorewrite with nthdb absdb. dif; fin.
Qed.

Lemma copy_from_spec ow q xs : inv ow sq q ->
  inv ow sq (copy_from ow jk sq q xs) /\ abs (copy_from ow jk sq q xs) = xs.
Proof.
  intros I. unfold copy_from.
  destruct (ensure_size_spec jk sq ow q (length xs) true 0 false I) as (I1 & A1 & S1).
  set (q1 := ensure_size ow jk sq q (length xs) true 0 false) in *.
  assert (C1 : cnt q1 = length xs) by (rewrite <- (abs_length q1), A1; apply l0_resize_length).
  destruct (write_from_spec ow xs q1 0 I1 ltac:(lia)) as (J1&_).
  split; [assumption|].
  rewrite (write_from_abs ow) by (assumption || lia).
  cbn [firstn app Nat.add]. rewrite skipn_all2 by (rewrite abs_length; lia). apply app_nil_r.
Qed.

Lemma fold_add_head_spec ow ys : forall q, inv ow sq q ->
  inv ow sq (fold_left (add_head ow jk sq) ys q) /\
  abs (fold_left (add_head ow jk sq) ys q) = rev ys ++ abs q.
Proof.
  induction ys as [|y ys IH]; intros q I; cbn [fold_left rev app]; [split; [assumption|reflexivity]|].
  destruct (add_head_spec jk sq ow q y I) as [J1 J2].
  destruct (IH _ J1) as [K1 K2]. split; [assumption|].
  rewrite K2, J2, <- app_assoc. reflexivity.
Qed.

Lemma add_head_multi_spec ow q xs : inv ow sq q ->
  inv ow sq (add_head_multi ow jk sq q xs) /\ abs (add_head_multi ow jk sq q xs) = xs ++ abs q.
Proof.
  intros I. unfold add_head_multi. cbv zeta.
  destruct (ensure_size_spec jk sq ow q (cnt q + length xs) false 0 false I) as (I1 & A1 & _).
  destruct (fold_add_head_spec ow (rev xs) _ I1) as [J1 J2].
  split; [assumption|]. rewrite J2, rev_involutive, A1. reflexivity.
Qed.

(* ------------------------------------------------------------------ InsertItemsAt *)

Lemma insert_items_general_spec ow q i xs : inv ow sq q -> i <= cnt q ->
  inv ow sq (insert_items_general ow jk sq q i xs) /\
  abs (insert_items_general ow jk sq q i xs) = l0_insert_at (abs q) i xs.
Proof.
  intros I Hi. unfold insert_items_general. cbv zeta.
  set (n := length xs). assert (Hn : n = length xs) by reflexivity.
  set (q2 := ensure_size ow jk sq q (cnt q + n) true 0 false).
  set (q3 := fold_left (fun g k => setu g (k + n) (getu g k)) (rev (seq i (cnt q - i))) q2).
  destruct (ensure_size_spec jk sq ow q (cnt q + n) true 0 false I) as (I2 & A2 & S2). fold q2 in I2, A2, S2.
  assert (C2 : cnt q2 = cnt q + n) by (rewrite <- (abs_length q2), A2; apply l0_resize_length).
  destruct (fold_copy_spec sq ow (fun k => k + n) (fun k => k) (rev (seq i (cnt q - i))) q2 I2) as (K1&K2&K3&K4&K5).
  { intros k Hk. apply in_rev, in_seq in Hk. lia. }
  cbv beta in *. fold q3 in K1, K2, K3, K4, K5.
  destruct (write_from_spec ow xs q3 i K1 ltac:(lia)) as (J1&_).
  split; [assumption|].
  rewrite (write_from_abs ow) by (assumption || lia). rewrite K5, A2.
  rewrite l0_resize_grow by (rewrite abs_length; lia). rewrite abs_length.
  replace (cnt q + n - cnt q) with n by lia.
  unfold l0_insert_at.
  apply (list_ext _ _ 0%Z).
  { autorewrite with nthdb. rewrite fold_length by (intros; apply upd_length). autorewrite with nthdb. lia. }
  intros j Hj. autorewrite with nthdb in Hj. rewrite fold_length in Hj by (intros; apply upd_length).
  autorewrite with nthdb in Hj.
  autorewrite with nthdb. rewrite !shift_up_m_nth by (autorewrite with nthdb; lia).
  rewrite fold_length by (intros; apply upd_length).
  autorewrite with nthdb absdb. dif; fin.
Qed.

Lemma insert_items_at_spec ow q i xs : inv ow sq q ->
  inv ow sq (insert_items_at ow jk sq q i xs) /\
  abs (insert_items_at ow jk sq q i xs) = l0_insert_at (abs q) (Nat.min i (cnt q)) xs.
Proof.
  intros I. unfold insert_items_at. cbv zeta.
  set (i' := Nat.min i (cnt q)). assert (Hi : i' <= cnt q) by (subst i'; lia).
  destruct xs as [|x [|y t]].
  - split; [assumption|]. unfold l0_insert_at. cbn [app]. rewrite firstn_skipn. reflexivity.
  - destruct (i' =? 0) eqn:E0.
    + destruct (add_head_spec jk sq ow q x I) as [J1 J2]. split; [assumption|].
      rewrite J2. replace i' with 0 by lia. reflexivity.
    + destruct (i' =? cnt q) eqn:E1.
      * destruct (add_tail_spec jk sq ow q x I) as [J1 J2]. split; [assumption|].
        rewrite J2. replace i' with (cnt q) by lia. unfold l0_insert_at.
        rewrite firstn_abs_all, skipn_all2, app_nil_r by (rewrite ?abs_length; lia). reflexivity.
      * exact (insert_items_general_spec ow q i' [x] I Hi).
  - exact (insert_items_general_spec ow q i' (x :: y :: t) I Hi).
Qed.

(* ------------------------------------------------------------------ RemoveAllInstancesOf *)

Lemma firstn_S_snoc (l : list Z) k : k < length l -> firstn (S k) l = firstn k l ++ [nth k l 0%Z].
Proof.
  intros H. apply (list_ext _ _ 0%Z); autorewrite with nthdb; cbn [length]; [lia|].
  intros i Hi. autorewrite with nthdb. cbn [length]. dif; fin.
Qed.

(* the readFrom / writeTo loop after the first k items have been read *)
Lemma rai_loop_spec ow q x k : inv ow sq q -> k <= cnt q ->
  let s := fold_left (rai_step x) (seq 0 k) (q, 0) in
  inv ow sq (fst s) /\ cnt (fst s) = cnt q /\ snd s <= k /\
  firstn (snd s) (abs (fst s)) = filter (fun y => negb (Z.eqb y x)) (firstn k (abs q)) /\
  skipn k (abs (fst s)) = skipn k (abs q).
Proof.
  intros I. induction k as [|k IH]; intros Hk.
  - cbn [seq fold_left fst snd firstn filter]. split; [assumption|]. repeat split; lia.
  - rewrite seq_S, fold_left_app. cbn [fold_left Nat.add].
    destruct (IH ltac:(lia)) as (I1 & C1 & W1 & F1 & S1).
    destruct (fold_left (rai_step x) (seq 0 k) (q, 0)) as [g w]. cbn [fst snd] in *.
    assert (V : getu g k = nth k (abs q) 0%Z).
    { rewrite <- (nth_abs g k 0%Z) by lia.
      replace (nth k (abs g) 0%Z) with (nth 0 (skipn k (abs g)) 0%Z) by (rewrite nth_skipn'; f_equal; lia).
      rewrite S1, nth_skipn'. f_equal. lia. }
    rewrite (firstn_S_snoc (abs q) k) by (rewrite abs_length; lia). rewrite filter_app. cbn [filter].
    assert (S2 : skipn (S k) (abs g) = skipn (S k) (abs q)).
    { replace (S k) with (k + 1) by lia.
      rewrite <- (skipn_skipn' 1 k (abs g)), <- (skipn_skipn' 1 k (abs q)), S1. reflexivity. }
    unfold rai_step. rewrite V. destruct (Z.eqb (nth k (abs q) 0%Z) x) eqn:E; cbn [negb fst snd].
    + rewrite app_nil_r. split; [assumption|]. repeat split; (assumption || lia).
    + destruct (w <? k) eqn:E2; cbn [fst snd].
      * split; [apply inv_setu; [assumption|lia]|]. split; [rewrite cnt_setu; exact C1|]. split; [lia|].
        rewrite (abs_setu ow sq) by (assumption || lia). split.
        -- rewrite <- F1. apply (list_ext _ _ 0%Z); autorewrite with nthdb; cbn [length]; [lia|].
           intros i Hi. autorewrite with nthdb. cbn [length]. dif; fin.
        -- rewrite <- S2. apply (list_ext _ _ 0%Z); autorewrite with nthdb; [reflexivity|].
           intros i Hi. autorewrite with nthdb. dif; fin.
      * split; [assumption|]. split; [assumption|]. split; [lia|]. split; [|assumption].
        assert (w = k) by lia. subst w. replace (k + 1) with (S k) by lia.
        rewrite (firstn_S_snoc (abs g) k) by (rewrite abs_length; lia). rewrite F1. f_equal. f_equal.
        rewrite nth_abs by lia. exact V.
Qed.

Lemma remove_all_instances_spec ow q x : inv ow sq q ->
  let r := remove_all_instances ow q x in
  inv ow sq (fst r) /\ abs (fst r) = filter (fun y => negb (Z.eqb y x)) (abs q) /\
  snd r = length (filter (fun y => Z.eqb y x) (abs q)).
Proof.
  intros I r. subst r. unfold remove_all_instances.
  destruct (rai_loop_spec ow q x (cnt q) I (le_n _)) as (I1 & C1 & W1 & F1 & _).
  destruct (fold_left (rai_step x) (seq 0 (cnt q)) (q, 0)) as [g w]. cbn [fst snd] in *.
  rewrite (firstn_abs_all q (cnt q)) in F1 by lia.
  assert (HL : length (filter (fun y => Z.eqb y x) (abs q)) + w = cnt q).
  { pose proof (filter_split_length (fun y => Z.eqb y x) (abs q)) as H. rewrite abs_length in H.
    rewrite <- F1 in H. rewrite firstn_length', abs_length in H. lia. }
  destruct (iter_remove_tail sq ow (cnt q - w) g I1 ltac:(lia)) as (K1&K2&_).
  split; [assumption|]. split; [|lia].
  rewrite K2, <- F1. f_equal. lia.
Qed.

(* ------------------------------------------------------------------ Normalize *)

Lemma normalize_rotate ow q : inv ow sq q -> 0 < cnt q ->
  let q' := mkQ (st q) (skipn (head q) (arr q) ++ firstn (head q) (arr q)) (cnt q) 0 (cnt q - 1) (inl q) in
  inv ow sq q' /\ abs q' = abs q.
Proof.
  intros I Hc q'. pose proof (inv_cnt _ _ q I) as Hn. pose proof (inv_hd _ _ q I Hc) as Hh.
  assert (Q : qsize q' = qsize q).
  { unfold qsize, q'. cbn [arr]. autorewrite with nthdb. unfold qsize in Hh. lia. }
  assert (G : forall i, i < qsize q -> getu q' i = getu q i).
  { intros i Hi. rewrite getu_head0; [|reflexivity|lia]. unfold q'. cbn [arr].
    autorewrite with nthdb. unfold getu, intern, qsize in *. cbv zeta. dif; fin. }
  split.
  - constructor; unfold store_ok, clean, inl_ok; rewrite ?Q; cbn [st cnt head tail inl q'].
    + exact (inv_sq _ _ q I).
    + exact Hn.
    + lia.
    + intros _. rewrite intern_head0; [reflexivity|reflexivity|lia].
    + exact (inv_store _ _ q I).
    + intros Ho i Hi. rewrite G by lia. apply (inv_clean _ _ q I Ho). lia.
    + exact (inv_inl _ _ q I).
  - apply abs_congr; [reflexivity|]. intros i Hi. apply G. lia.
Qed.

(* the copy-into-the-gap branch: after k steps *)
Lemma normalize_gap_steps ow q start k :
  head q < qsize q -> cnt q <= qsize q -> k <= cnt q ->
  start + cnt q <= head q -> head q + cnt q > qsize q -> head q + cnt q <= qsize q + start ->
  let step := fun g i =>
       let v := getu q i in
       let g1 := set_raw g (start + i) v in
       if ow then set_raw g1 (intern q i) dflt else g1 in
  let g := fold_left step (seq 0 k) q in
  st g = st q /\ qsize g = qsize q /\ inl g = inl q /\
  forall s, s < qsize q ->
    nth s (arr g) dflt =
    if (start <=? s) && (s <? start + k) then getu q (s - start)
    else if ow && (extern q s <? k) then dflt else nth s (arr q) dflt.
Proof.
  intros Hh Hc Hk Hgap Hwrap Hst step. induction k as [|k IH].
  - cbn [seq fold_left]. repeat split. intros s Hs. rewrite andb_false_r. dif; fin.
  - intros g. subst g. rewrite seq_S, fold_left_app. cbn [fold_left Nat.add].
    destruct (IH ltac:(lia)) as (H1 & H2 & H4 & H3).
    set (g := fold_left step (seq 0 k) q) in *.
    unfold step. cbv beta zeta.
    assert (A : forall s, s < qsize q ->
              nth s (arr (set_raw g (start + k) (getu q k))) dflt =
              if s =? start + k then getu q k else nth s (arr g) dflt).
    { intros s Hs. cbn [arr set_raw]. rewrite nth_upd. unfold qsize in *. dif; fin. }
    destruct ow.
    + split; [exact H1|]. split; [rewrite !qsize_set_raw; exact H2|]. split; [exact H4|].
      intros s Hs. cbn [arr set_raw]. rewrite nth_upd, upd_length.
      change (nth s (upd (arr g) (start + k) (getu q k)) dflt)
        with (nth s (arr (set_raw g (start + k) (getu q k))) dflt).
      rewrite A, H3 by assumption. clear IH H3 A.
      unfold extern, intern, qsize in *. cbv zeta. cbn [andb]. difh; fin.
    + split; [exact H1|]. split; [rewrite !qsize_set_raw; exact H2|]. split; [exact H4|].
      intros s Hs. rewrite A, H3 by assumption. cbn [andb]. dif; fin.
Qed.

Lemma normalize_spec ow q : inv ow sq q ->
  inv ow sq (normalize ow q) /\ abs (normalize ow q) = abs q.
Proof.
  intros I. unfold normalize.
  destruct (is_normalized q) eqn:En; [split; [assumption|reflexivity]|].
  unfold is_normalized in En.
  assert (Hc : 0 < cnt q) by lia. assert (Hw : tail q < head q) by lia.
  pose proof (inv_cnt _ _ q I) as Hn. pose proof (inv_hd _ _ q I Hc) as Hh.
  pose proof (inv_tail _ _ q I Hc) as Ht.
  destruct (cnt q * 2 <=? qsize q) eqn:E2;
    [|rewrite hsieh_rotate_ok by (unfold qsize in Hh; lia); apply normalize_rotate; assumption].
  cbv zeta.
  assert (Hwrap : head q + cnt q > qsize q) by (unfold intern in Ht; cbv zeta in Ht; difh; lia).
  assert (Htl : tail q = head q + cnt q - 1 - qsize q) by (unfold intern in Ht; cbv zeta in Ht; difh; lia).
  assert (Hgap : tail q + 1 + cnt q <= head q) by lia.
  destruct (normalize_gap_steps ow q (tail q + 1) (cnt q) Hh Hn ltac:(lia) Hgap Hwrap ltac:(lia)) as (H1 & H2 & H4 & H3).
  cbv zeta in H1, H2, H3, H4.
  set (g := fold_left _ (seq 0 (cnt q)) q) in *.
  set (q' := mkQ (st g) (arr g) (cnt q) (tail q + 1) (tail q + 1 + cnt q - 1) (inl g)).
  assert (Q : qsize q' = qsize q) by exact H2.
  assert (G : forall i, i < cnt q -> getu q' i = getu q i).
  { intros i Hi. unfold getu at 1. unfold intern. rewrite Q. cbn [head arr q']. cbv zeta.
    replace (tail q + 1 + i <? qsize q) with true by lia.
    rewrite H3 by lia. replace (tail q + 1 + i - (tail q + 1)) with i by lia. dif; fin. }
  split.
  - constructor; unfold store_ok, inl_ok; rewrite ?Q; cbn [st cnt head tail inl q'].
    + exact (inv_sq _ _ q I).
    + exact Hn.
    + lia.
    + intros _. unfold intern. rewrite Q. cbn [head q']. cbv zeta. dif; lia.
    + rewrite H1. exact (inv_store _ _ q I).
    + apply clean_of_slots; rewrite ?Q; cbn [cnt head q']; try lia.
      intros Ho s Hs Hout. cbn [arr q']. rewrite H3 by assumption.
      unfold in_win in Hout. rewrite Q in Hout. cbn [cnt head q'] in Hout.
      rewrite Ho. cbn [andb].
      destruct ((tail q + 1 <=? s) && (s <? tail q + 1 + cnt q)) eqn:E3; [exfalso; difh; lia|].
      destruct (extern q s <? cnt q) eqn:E4; [reflexivity|].
      apply (clean_slots _ _ q I Ho s Hs).
      destruct (intern_extern q s Hh Hs) as [L E]. rewrite <- E, in_win_intern by assumption. lia.
    + rewrite H1, H4. exact (inv_inl _ _ q I).
  - apply abs_congr; [reflexivity|]. exact G.
Qed.

End Ops3.
